import MpsVerif.Proofs.LedgerInv
/-! Request ids are unique; messages, ledger entries and futures stay consistent; no response is
    dropped; every ledger entry is in flight (C02 ledger half, C06 slots returned). -/
namespace Ledger

/-- the request's input has been handed to the pipeline (or the call is over) -/
def CPc.sent : CPc → Bool
  | .pending | .cancelling | .done _ => true
  | _ => false

/-! ## frame lemmas -/

/-- every step except `mint` leaves all request ids alone -/
theorem uid_frame (c : Cfg) (s : State) (a : Act) (s' : State) (hs : Step c s a s')
    (hnm : ∀ r, a ≠ .mint r) (r' : Nat) : (s'.get r').uid = (s.get r').uid := by
  cases hs
  case mint r _ _ => exact absurd rfl (hnm r)
  case gsetOk dst src _ _ =>
    by_cases hlt : dst < s.callers.length
    · rw [get_upd _ s dst r' _ rfl hlt]; split <;> simp_all
    · rw [get_upd_ge _ s dst r' _ rfl hlt]
  all_goals first
    | rfl
    | (have hp := ‹(s.get _).pc = _›
       have hlt := lt_of_pc_ne_new s _ (by rw [hp]; simp)
       rw [get_upd _ s _ r' _ rfl hlt]; split <;> simp_all)

/-! ## ids -/

def UidInv (s : State) : Prop :=
  (∀ r u, (s.get r).uid = some u → u < s.nextUid) ∧
  (∀ r r' u, (s.get r).uid = some u → (s.get r').uid = some u → r = r')

theorem uid_init (callers : List Caller) (h : AllNew callers) : UidInv (init callers) := by
  constructor
  · intro r u hu; rw [(init_get_new callers h r).2.1] at hu; simp at hu
  · intro r r' u hu; rw [(init_get_new callers h r).2.1] at hu; simp at hu

theorem uid_step (c : Cfg) (s : State) (a : Act) (s' : State) (h : UidInv s) (hs : Step c s a s') :
    UidInv s' := by
  obtain ⟨u1, u2⟩ := h
  by_cases hm : ∃ r, a = .mint r
  · obtain ⟨r, rfl⟩ := hm
    cases hs with
    | mint hlt hp =>
      have key : ∀ r', (State.get { (s.set r { s.get r with pc := .start, uid := some s.nextUid }) with nextUid := s.nextUid + 1 } r').uid
          = if r = r' then some s.nextUid else (s.get r').uid := by
        intro r'; rw [get_upd _ s r r' _ rfl hlt]; split <;> rfl
      constructor
      · intro r' u hu
        rw [key] at hu
        split at hu
        · simp at hu; subst hu; simp
        · have := u1 r' u hu; simp only; omega
      · intro r1 r2 u h1 h2
        rw [key] at h1 h2
        split at h1 <;> split at h2
        · rename_i e1 e2; rw [← e1, ← e2]
        · simp at h1; subst h1; have := u1 r2 _ h2; omega
        · simp at h2; subst h2; have := u1 r1 _ h1; omega
        · exact u2 r1 r2 u h1 h2
  · have hnm : ∀ r, a ≠ .mint r := fun r he => hm ⟨r, he⟩
    have fr := uid_frame c s a s' hs hnm
    have hn : s'.nextUid = s.nextUid := by
      cases hs <;> first | rfl | exact absurd rfl (hnm _)
    constructor
    · intro r u hu; rw [fr] at hu; rw [hn]; exact u1 r u hu
    · intro r r' u h1 h2; rw [fr] at h1 h2; exact u2 r r' u h1 h2

end Ledger

namespace Ledger

/-- once a request has been sent it stays sent -/
theorem sent_mono (c : Cfg) (s : State) (a : Act) (s' : State) (hs : Step c s a s') (r' : Nat)
    (h : (s.get r').pc.sent = true) : (s'.get r').pc.sent = true := by
  cases hs
  case gsetOk dst src _ _ =>
    by_cases hlt : dst < s.callers.length
    · rw [get_upd _ s dst r' _ rfl hlt]; split
      · rename_i he; subst he; exact h
      · exact h
    · rw [get_upd_ge _ s dst r' _ rfl hlt]; exact h
  case mint r hlt hp =>
    rw [get_upd _ s r r' _ rfl hlt]; split
    · rename_i he; subst he; rw [hp] at h; simp [CPc.sent] at h
    · exact h
  all_goals first
    | exact h
    | (have hp := ‹(s.get _).pc = _›
       have hlt := lt_of_pc_ne_new s _ (by rw [hp]; simp)
       rw [get_upd _ s _ r' _ rfl hlt]; split
       · rename_i he; subst he; rw [hp] at h; first | rfl | (simp [CPc.sent] at h)
       · exact h)

/-- only `enqueue` moves a caller out of `ledgered` -/
theorem ledgered_frame (c : Cfg) (s : State) (a : Act) (s' : State) (hs : Step c s a s') (r' : Nat)
    (hne : a ≠ .enqueue r') (h : (s.get r').pc = .ledgered) : (s'.get r').pc = .ledgered := by
  cases hs
  case gsetOk dst src _ _ =>
    by_cases hlt : dst < s.callers.length
    · rw [get_upd _ s dst r' _ rfl hlt]; split
      · rename_i he; subst he; exact h
      · exact h
    · rw [get_upd_ge _ s dst r' _ rfl hlt]; exact h
  case mint r hlt hp =>
    rw [get_upd _ s r r' _ rfl hlt]; split
    · rename_i he; subst he; rw [hp] at h; simp at h
    · exact h
  case enqueue r u hp hu =>
    have hlt := lt_of_pc_ne_new s r (by rw [hp]; simp)
    rw [get_upd _ s r r' _ rfl hlt]; split
    · rename_i he; subst he; exact absurd rfl hne
    · exact h
  all_goals first
    | exact h
    | (have hp := ‹(s.get _).pc = _›
       have hlt := lt_of_pc_ne_new s _ (by rw [hp]; simp)
       rw [get_upd _ s _ r' _ rfl hlt]; split
       · rename_i he; subst he; first | rfl | (rw [hp] at h; simp at h)
       · exact h)

/-- a caller becomes `ledgered` only by its own `insert` -/
theorem ledgered_origin (c : Cfg) (s : State) (a : Act) (s' : State) (hs : Step c s a s') (r' : Nat)
    (hne : a ≠ .insert r') (h : (s'.get r').pc = .ledgered) : (s.get r').pc = .ledgered := by
  cases hs
  case gsetOk dst src _ _ =>
    by_cases hlt : dst < s.callers.length
    · rw [get_upd _ s dst r' _ rfl hlt] at h; split at h
      · rename_i he; subst he; exact h
      · exact h
    · rw [get_upd_ge _ s dst r' _ rfl hlt] at h; exact h
  case mint r hlt hp =>
    rw [get_upd _ s r r' _ rfl hlt] at h; split at h
    · simp at h
    · exact h
  case insert r u hp hu =>
    have hlt := lt_of_pc_ne_new s r (by rw [hp]; simp)
    rw [get_upd _ s r r' _ rfl hlt] at h; split at h
    · rename_i he; subst he; exact absurd rfl hne
    · exact h
  all_goals first
    | exact h
    | (have hp := ‹(s.get _).pc = _›
       have hlt := lt_of_pc_ne_new s _ (by rw [hp]; simp)
       rw [get_upd _ s _ r' _ rfl hlt] at h; split at h
       · simp at h
       · exact h)

end Ledger

namespace Ledger

/-! ## consistency and conservation -/

def ConsInv (s : State) : Prop :=
  (∀ e ∈ s.ledger, (s.get e.2).uid = some e.1 ∧ ((s.get e.2).pc = .ledgered ∨ (s.get e.2).pc.sent = true)) ∧
  (∀ e, (e ∈ s.inflight ∨ e ∈ s.outq) →
      (s.get e.2).uid = some e.1 ∧ (s.get e.2).pc.sent = true ∧ e ∈ s.ledger) ∧
  (s.ledger.map Prod.fst).Nodup ∧
  (s.inflight ++ s.outq).Nodup ∧
  (∀ e ∈ s.ledger, e ∈ s.inflight ∨ e ∈ s.outq ∨ (s.get e.2).pc = .ledgered) ∧
  s.dropped = [] ∧
  (∀ r u, (s.get r).pc = .ledgered → (s.get r).uid = some u → (u, r) ∈ s.ledger)

theorem cons_init (callers : List Caller) (h : AllNew callers) : ConsInv (init callers) := by
  refine ⟨by simp [init], by simp [init], by simp [init], by simp [init], by simp [init], rfl, ?_⟩
  intro r u hp hu
  rw [(init_get_new callers h r).1] at hp; simp at hp

/-- a step that changes no list and only moves callers "forward" preserves `ConsInv` -/
theorem cons_frame (s s' : State) (h : ConsInv s)
    (hl : s'.ledger = s.ledger) (hi : s'.inflight = s.inflight) (ho : s'.outq = s.outq)
    (hd : s'.dropped = s.dropped)
    (fu : ∀ r', (s'.get r').uid = (s.get r').uid)
    (fs : ∀ r', (s.get r').pc.sent = true → (s'.get r').pc.sent = true)
    (fl : ∀ r', (s.get r').pc = .ledgered → (s'.get r').pc = .ledgered)
    (fo : ∀ r', (s'.get r').pc = .ledgered → (s.get r').pc = .ledgered) : ConsInv s' := by
  obtain ⟨k1, k2, k3, k4, k5, k6, k9⟩ := h
  refine ⟨?_, ?_, by rw [hl]; exact k3, by rw [hi, ho]; exact k4, ?_, by rw [hd]; exact k6, ?_⟩
  · intro e he; rw [hl] at he
    obtain ⟨a1, a2⟩ := k1 e he
    refine ⟨by rw [fu]; exact a1, ?_⟩
    rcases a2 with a2 | a2
    · exact Or.inl (fl _ a2)
    · exact Or.inr (fs _ a2)
  · intro e he; rw [hi, ho] at he
    obtain ⟨a1, a2, a3⟩ := k2 e he
    exact ⟨by rw [fu]; exact a1, fs _ a2, by rw [hl]; exact a3⟩
  · intro e he; rw [hl] at he
    rcases k5 e he with a | a | a
    · exact Or.inl (by rw [hi]; exact a)
    · exact Or.inr (Or.inl (by rw [ho]; exact a))
    · exact Or.inr (Or.inr (fl _ a))
  · intro r u hp hu
    rw [fu] at hu; rw [hl]
    exact k9 r u (fo r hp) hu


theorem cons_step (c : Cfg) (s : State) (a : Act) (s' : State) (hu : UidInv s) (h : ConsInv s)
    (hs : Step c s a s') : ConsInv s' := by
  have hall := h
  obtain ⟨k1, k2, k3, k4, k5, k6, k9⟩ := h
  obtain ⟨u1, u2⟩ := hu
  have fs := sent_mono c s a s' hs
  have fl := ledgered_frame c s a s' hs
  have fo := ledgered_origin c s a s' hs
  cases hs with
  | mint hlt hp =>
    rename_i r
    -- `r` is new: it owns no entry anywhere
    have key : ∀ r', r' ≠ r → (State.get { (s.set r { s.get r with pc := .start, uid := some s.nextUid }) with nextUid := s.nextUid + 1 } r') = s.get r' := by
      intro r' hne; rw [get_upd _ s r r' _ rfl hlt]; split
      · rename_i he; exact absurd he.symm hne
      · rfl
    have hne1 : ∀ e ∈ s.ledger, e.2 ≠ r := by
      intro e he heq
      rcases (k1 e he).2 with a | a <;> rw [heq, hp] at a <;> simp [CPc.sent] at a
    refine ⟨?_, ?_, k3, k4, ?_, k6, ?_⟩
    · intro e he
      change e ∈ s.ledger at he
      rw [key _ (hne1 e he)]; exact k1 e he
    · intro e he
      change e ∈ s.inflight ∨ e ∈ s.outq at he
      obtain ⟨a1, a2, a3⟩ := k2 e he
      rw [key _ (hne1 e a3)]; exact ⟨a1, a2, a3⟩
    · intro e he
      change e ∈ s.ledger at he
      rw [key _ (hne1 e he)]; exact k5 e he
    · intro r' u hp' hu'
      by_cases hr : r' = r
      · subst hr; rw [get_upd _ s r' r' _ rfl hlt] at hp'; simp at hp'
      · rw [key _ hr] at hp' hu'; exact k9 r' u hp' hu'
  | insert hp hu' =>
    rename_i r u
    have hlt := lt_of_pc_ne_new s r (by rw [hp]; simp)
    have fu := uid_frame c s _ _ (Step.insert hp hu') (by intro r'; simp)
    have hnew : ∀ r', (State.get { (s.set r { s.get r with pc := .ledgered }) with ledger := s.ledger ++ [(u, r)] } r').pc
        = if r = r' then .ledgered else (s.get r').pc := by
      intro r'; rw [get_upd _ s r r' _ rfl hlt]; split <;> rfl
    -- `u` is not yet a key of the ledger
    have hfresh : ∀ e ∈ s.ledger, e.1 ≠ u := by
      intro e he heq
      have := (k1 e he)
      have hr : e.2 = r := u2 e.2 r u (by rw [← heq]; exact this.1) hu'
      rcases this.2 with a | a <;> rw [hr, hp] at a <;> simp [CPc.sent] at a
    refine ⟨?_, ?_, ?_, k4, ?_, k6, ?_⟩
    · intro e he
      change e ∈ s.ledger ++ [(u, r)] at he
      rcases List.mem_append.mp he with he | he
      · obtain ⟨a1, a2⟩ := k1 e he
        refine ⟨by rw [fu]; exact a1, ?_⟩
        rcases a2 with a2 | a2
        · exact Or.inl (fl _ (by simp) a2)
        · exact Or.inr (fs _ a2)
      · simp at he; subst he
        exact ⟨by rw [fu]; exact hu', Or.inl (by rw [hnew]; simp)⟩
    · intro e he
      change e ∈ s.inflight ∨ e ∈ s.outq at he
      obtain ⟨a1, a2, a3⟩ := k2 e he
      exact ⟨by rw [fu]; exact a1, fs _ a2, List.mem_append_left _ a3⟩
    · change ((s.ledger ++ [(u, r)]).map Prod.fst).Nodup
      rw [List.map_append, List.nodup_append]
      refine ⟨k3, by simp, ?_⟩
      intro x hx y hy
      simp at hy; subst hy
      obtain ⟨e, he, rfl⟩ := List.mem_map.mp hx
      exact hfresh e he
    · intro e he
      change e ∈ s.ledger ++ [(u, r)] at he
      rcases List.mem_append.mp he with he | he
      · rcases k5 e he with a | a | a
        · exact Or.inl a
        · exact Or.inr (Or.inl a)
        · exact Or.inr (Or.inr (fl _ (by simp) a))
      · simp at he; subst he
        exact Or.inr (Or.inr (by rw [hnew]; simp))
    · intro r' u' hp' hu''
      change (u', r') ∈ s.ledger ++ [(u, r)]
      rw [fu] at hu''
      by_cases hr : r' = r
      · subst hr; rw [hu'] at hu''; simp at hu''; subst hu''; simp
      · rw [hnew] at hp'; simp [Ne.symm hr] at hp'
        exact List.mem_append_left _ (k9 r' u' hp' hu'')
  | enqueue hp hu' =>
    rename_i r u
    have hlt := lt_of_pc_ne_new s r (by rw [hp]; simp)
    have fu := uid_frame c s _ _ (Step.enqueue hp hu') (by intro r'; simp)
    have hnew : ∀ r', (State.get { (s.set r { s.get r with pc := .pending }) with inflight := s.inflight ++ [(u, r)], lock := none } r').pc
        = if r = r' then .pending else (s.get r').pc := by
      intro r'; rw [get_upd _ s r r' _ rfl hlt]; split <;> rfl
    have hmem : (u, r) ∈ s.ledger := k9 r u hp hu'
    have hnot : (u, r) ∉ s.inflight ++ s.outq := by
      intro hm
      have := (k2 (u, r) (List.mem_append.mp hm)).2.1
      rw [hp] at this; simp [CPc.sent] at this
    refine ⟨?_, ?_, k3, ?_, ?_, k6, ?_⟩
    · intro e he
      change e ∈ s.ledger at he
      obtain ⟨a1, a2⟩ := k1 e he
      refine ⟨by rw [fu]; exact a1, ?_⟩
      by_cases hr : e.2 = r
      · right; rw [hnew]; simp [hr, CPc.sent]
      · rcases a2 with a2 | a2
        · left; rw [hnew]; simp [Ne.symm hr]; exact a2
        · exact Or.inr (fs _ a2)
    · intro e he
      change e ∈ s.inflight ++ [(u, r)] ∨ e ∈ s.outq at he
      rcases he with he | he
      · rcases List.mem_append.mp he with he | he
        · obtain ⟨a1, a2, a3⟩ := k2 e (Or.inl he)
          exact ⟨by rw [fu]; exact a1, fs _ a2, a3⟩
        · simp at he; subst he
          exact ⟨by rw [fu]; exact hu', by rw [hnew]; simp [CPc.sent], hmem⟩
      · obtain ⟨a1, a2, a3⟩ := k2 e (Or.inr he)
        exact ⟨by rw [fu]; exact a1, fs _ a2, a3⟩
    · change (s.inflight ++ [(u, r)] ++ s.outq).Nodup
      have : (s.inflight ++ [(u, r)] ++ s.outq).Perm ((u, r) :: (s.inflight ++ s.outq)) := by
        rw [List.append_assoc]
        exact List.perm_middle
      rw [this.nodup_iff, List.nodup_cons]
      exact ⟨hnot, k4⟩
    · intro e he
      change e ∈ s.ledger at he
      rcases k5 e he with a | a | a
      · exact Or.inl (List.mem_append_left _ a)
      · exact Or.inr (Or.inl a)
      · by_cases hr : e.2 = r
        · left
          have he1 : e.1 = u := by
            have := (k1 e he).1; rw [hr, hu'] at this; simpa using this.symm
          have : e = (u, r) := by cases e; simp_all
          rw [this]; simp
        · right; right; rw [hnew]; simp [Ne.symm hr]; exact a
    · intro r' u' hp' hu''
      change (u', r') ∈ s.ledger
      rw [fu] at hu''
      by_cases hr : r' = r
      · subst hr; rw [hnew] at hp'; simp at hp'
      · rw [hnew] at hp'; simp [Ne.symm hr] at hp'
        exact k9 r' u' hp' hu''
  | emit hm =>
    rename_i u r
    refine ⟨k1, ?_, k3, ?_, ?_, k6, k9⟩
    · intro e he
      change e ∈ s.inflight.erase (u, r) ∨ e ∈ s.outq ++ [(u, r)] at he
      apply k2
      rcases he with he | he
      · exact Or.inl (List.mem_of_mem_erase he)
      · rcases List.mem_append.mp he with he | he
        · exact Or.inr he
        · simp at he; subst he; exact Or.inl hm
    · change (s.inflight.erase (u, r) ++ (s.outq ++ [(u, r)])).Nodup
      have p1 : s.inflight.Perm ((u, r) :: s.inflight.erase (u, r)) := List.perm_cons_erase hm
      have p2 : (s.inflight ++ s.outq).Perm ((u, r) :: (s.inflight.erase (u, r) ++ s.outq)) := by
        have := List.Perm.append_right s.outq p1
        simpa using this
      have p3 : (s.inflight.erase (u, r) ++ (s.outq ++ [(u, r)])).Perm ((u, r) :: (s.inflight.erase (u, r) ++ s.outq)) := by
        rw [← List.append_assoc]
        exact List.perm_append_singleton _ _
      rw [p3.nodup_iff, ← p2.nodup_iff]; exact k4
    · intro e he
      change e ∈ s.ledger at he
      change e ∈ s.inflight.erase (u, r) ∨ e ∈ s.outq ++ [(u, r)] ∨ _
      rcases k5 e he with a | a | a
      · by_cases heq : e = (u, r)
        · subst heq; exact Or.inr (Or.inl (by simp))
        · exact Or.inl ((List.mem_erase_of_ne heq).mpr a)
      · exact Or.inr (Or.inl (List.mem_append_left _ a))
      · exact Or.inr (Or.inr a)
  | popFound hg hq hl =>
    rename_i u src dst
    have hmsg := k2 (u, src) (Or.inr hq)
    have hent := k1 (u, dst) (mem_of_lookup hl)
    have hds : dst = src := u2 dst src u hent.1 hmsg.1
    have hnd : (s.inflight ++ s.outq.erase (u, src)).Nodup ∧ (u, src) ∉ s.inflight ++ s.outq.erase (u, src) := by
      have p1 : s.outq.Perm ((u, src) :: s.outq.erase (u, src)) := List.perm_cons_erase hq
      have p2 : (s.inflight ++ s.outq).Perm ((u, src) :: (s.inflight ++ s.outq.erase (u, src))) :=
        (List.Perm.append_left s.inflight p1).trans List.perm_middle
      have := p2.nodup_iff.mp k4
      rw [List.nodup_cons] at this
      exact ⟨this.2, this.1⟩
    refine ⟨?_, ?_, remove_keys_nodup k3, hnd.1, ?_, k6, ?_⟩
    · intro e he; exact k1 e (mem_of_mem_remove he)
    · intro e he
      change e ∈ s.inflight ∨ e ∈ s.outq.erase (u, src) at he
      have he' : e ∈ s.inflight ∨ e ∈ s.outq := by
        rcases he with he | he
        · exact Or.inl he
        · exact Or.inr (List.mem_of_mem_erase he)
      obtain ⟨a1, a2, a3⟩ := k2 e he'
      refine ⟨a1, a2, ?_⟩
      apply mem_remove_of_ne a3
      intro heq
      have hr : e.2 = src := u2 e.2 src u (by rw [← heq]; exact a1) hmsg.1
      have : e = (u, src) := by cases e; simp_all
      rw [this] at he
      exact hnd.2 (List.mem_append.mpr he)
    · intro e he
      have he0 := mem_of_mem_remove he
      change e ∈ s.inflight ∨ e ∈ s.outq.erase (u, src) ∨ _
      rcases k5 e he0 with a | a | a
      · exact Or.inl a
      · by_cases heq : e = (u, src)
        · subst heq; exact absurd he (not_mem_remove k3)
        · exact Or.inr (Or.inl ((List.mem_erase_of_ne heq).mpr a))
      · exact Or.inr (Or.inr a)
    · intro r' u' hp' hu''
      change (s.get r').pc = .ledgered at hp'
      change (s.get r').uid = some u' at hu''
      have hm := k9 r' u' hp' hu''
      apply mem_remove_of_ne hm
      intro heq
      simp only at heq; subst heq
      have : r' = src := u2 r' src u' hu'' hmsg.1
      subst this
      have := hmsg.2.1; simp only at this; rw [hp'] at this; simp [CPc.sent] at this
  | popMissing hg hq hl =>
    rename_i u src
    have hmsg := k2 (u, src) (Or.inr hq)
    have := lookup_isSome_of_mem hmsg.2.2
    rw [hl] at this; simp at this
  | acquireStart hl hp =>
    exact cons_frame s _ hall rfl rfl rfl rfl (uid_frame c s _ _ (Step.acquireStart hl hp) (by intro r'; simp))
      fs (fun r' => fl r' (by simp)) (fun r' => fo r' (by simp))
  | acquireWoken hl hp =>
    exact cons_frame s _ hall rfl rfl rfl rfl (uid_frame c s _ _ (Step.acquireWoken hl hp) (by intro r'; simp))
      fs (fun r' => fl r' (by simp)) (fun r' => fo r' (by simp))
  | testPass hp hlen =>
    exact cons_frame s _ hall rfl rfl rfl rfl (uid_frame c s _ _ (Step.testPass hp hlen) (by intro r'; simp))
      fs (fun r' => fl r' (by simp)) (fun r' => fo r' (by simp))
  | reject hp hfull hbp =>
    exact cons_frame s _ hall rfl rfl rfl rfl (uid_frame c s _ _ (Step.reject hp hfull hbp) (by intro r'; simp))
      fs (fun r' => fl r' (by simp)) (fun r' => fo r' (by simp))
  | wait hp hfull hbp =>
    exact cons_frame s _ hall rfl rfl rfl rfl (uid_frame c s _ _ (Step.wait hp hfull hbp) (by intro r'; simp))
      fs (fun r' => fl r' (by simp)) (fun r' => fo r' (by simp))
  | noTime hp hfull hbp =>
    exact cons_frame s _ hall rfl rfl rfl rfl (uid_frame c s _ _ (Step.noTime hp hfull hbp) (by intro r'; simp))
      fs (fun r' => fl r' (by simp)) (fun r' => fo r' (by simp))
  | timeoutWait hp =>
    exact cons_frame s _ hall rfl rfl rfl rfl (uid_frame c s _ _ (Step.timeoutWait hp) (by intro r'; simp))
      fs (fun r' => fl r' (by simp)) (fun r' => fo r' (by simp))
  | giveUp hp hl =>
    exact cons_frame s _ hall rfl rfl rfl rfl (uid_frame c s _ _ (Step.giveUp hp hl) (by intro r'; simp))
      fs (fun r' => fl r' (by simp)) (fun r' => fo r' (by simp))
  | expire hp hf =>
    exact cons_frame s _ hall rfl rfl rfl rfl (uid_frame c s _ _ (Step.expire hp hf) (by intro r'; simp))
      fs (fun r' => fl r' (by simp)) (fun r' => fo r' (by simp))
  | cancelPending hp hf =>
    exact cons_frame s _ hall rfl rfl rfl rfl (uid_frame c s _ _ (Step.cancelPending hp hf) (by intro r'; simp))
      fs (fun r' => fl r' (by simp)) (fun r' => fo r' (by simp))
  | cancelLate hp hf =>
    exact cons_frame s _ hall rfl rfl rfl rfl (uid_frame c s _ _ (Step.cancelLate hp hf) (by intro r'; simp))
      fs (fun r' => fl r' (by simp)) (fun r' => fo r' (by simp))
  | receive hp hf =>
    exact cons_frame s _ hall rfl rfl rfl rfl (uid_frame c s _ _ (Step.receive hp hf) (by intro r'; simp))
      fs (fun r' => fl r' (by simp)) (fun r' => fo r' (by simp))
  | gcheckCancelled hg hf => exact hall
  | gcheckLive hg hf => exact hall
  | gsetOk hg hf =>
    exact cons_frame s _ hall rfl rfl rfl rfl (uid_frame c s _ _ (Step.gsetOk hg hf) (by intro r'; simp))
      fs (fun r' => fl r' (by simp)) (fun r' => fo r' (by simp))
  | gsetSkip hg hf hgs => exact hall
  | gsetDie hg hf hgs => exact hall
  | ntake hn hq => exact hall
  | nacquire hn hl => exact hall
  | nnotify hn hp =>
    exact cons_frame s _ hall rfl rfl rfl rfl (uid_frame c s _ _ (Step.nnotify hn hp) (by intro r'; simp))
      fs (fun r' => fl r' (by simp)) (fun r' => fo r' (by simp))
  | nnone hn hall' => exact hall

end Ledger
