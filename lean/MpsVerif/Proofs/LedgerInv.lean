import MpsVerif.Proofs.LedgerStep
/-! Invariants of the server-ledger model. -/
namespace Ledger

/-! ## accessors -/

theorem getD_set (l : List Caller) (r r' : Nat) (c d : Caller) :
    (l.set r c).getD r' d = if r = r' ∧ r < l.length then c else l.getD r' d := by
  simp only [List.getD_eq_getElem?_getD, List.getElem?_set]
  by_cases h : r = r'
  · subst h
    by_cases h2 : r < l.length
    · simp [h2]
    · simp [h2]
  · simp [h]

theorem get_set (s : State) (r r' : Nat) (c : Caller) :
    (s.set r c).get r' = if r = r' ∧ r < s.callers.length then c else s.get r' := by
  unfold State.get State.set
  exact getD_set s.callers r r' c {}

theorem get_default (s : State) (r : Nat) (h : s.callers.length ≤ r) : s.get r = {} := by
  simp [State.get, List.getD_eq_getElem?_getD, List.getElem?_eq_none h]

theorem lt_of_pc_ne_new (s : State) (r : Nat) (h : (s.get r).pc ≠ .new) : r < s.callers.length := by
  apply Classical.byContradiction; intro hn
  rw [get_default s r (by omega)] at h
  exact h rfl

@[simp] theorem set_length (s : State) (r : Nat) (c : Caller) : (s.set r c).callers.length = s.callers.length := by
  simp [State.set]

/-! ## lookup / remove -/

theorem mem_of_lookup {u r : Nat} {l : List (Nat × Nat)} (h : lookup u l = some r) : (u, r) ∈ l := by
  induction l with
  | nil => simp [lookup] at h
  | cons a l ih =>
    obtain ⟨u', r'⟩ := a
    simp only [lookup] at h
    split at h
    · rename_i he; simp at h; subst h; subst he; simp
    · exact List.mem_cons_of_mem _ (ih h)

theorem lookup_isSome_of_mem {u r : Nat} {l : List (Nat × Nat)} (h : (u, r) ∈ l) : (lookup u l).isSome = true := by
  induction l with
  | nil => simp at h
  | cons a l ih =>
    obtain ⟨u', r'⟩ := a
    simp only [lookup]
    split
    · rfl
    · rename_i hne
      rcases List.mem_cons.mp h with h1 | h1
      · simp at h1; exact absurd h1.1.symm hne
      · exact ih h1

theorem remove_length_le (u : Nat) (l : List (Nat × Nat)) : (remove u l).length ≤ l.length := by
  induction l with
  | nil => simp [remove]
  | cons a l ih =>
    obtain ⟨u', r'⟩ := a
    simp only [remove]
    split
    · simp
    · simp; exact ih

theorem mem_of_mem_remove {u : Nat} {e : Nat × Nat} {l : List (Nat × Nat)} (h : e ∈ remove u l) : e ∈ l := by
  induction l with
  | nil => simp [remove] at h
  | cons a l ih =>
    obtain ⟨u', r'⟩ := a
    simp only [remove] at h
    split at h
    · exact List.mem_cons_of_mem _ h
    · rcases List.mem_cons.mp h with h1 | h1
      · subst h1; simp
      · exact List.mem_cons_of_mem _ (ih h1)

theorem mem_remove_of_ne {u : Nat} {e : Nat × Nat} {l : List (Nat × Nat)} (h : e ∈ l) (hne : e.1 ≠ u) :
    e ∈ remove u l := by
  induction l with
  | nil => simp at h
  | cons a l ih =>
    obtain ⟨u', r'⟩ := a
    simp only [remove]
    split
    · rename_i he
      rcases List.mem_cons.mp h with h1 | h1
      · subst h1; exact absurd he hne
      · exact h1
    · rcases List.mem_cons.mp h with h1 | h1
      · subst h1; simp
      · exact List.mem_cons_of_mem _ (ih h1)

/-- with distinct ids, removing id `u` leaves no entry with id `u` -/
theorem not_mem_remove {u r : Nat} {l : List (Nat × Nat)} (hnd : (l.map Prod.fst).Nodup) :
    (u, r) ∉ remove u l := by
  induction l with
  | nil => simp [remove]
  | cons a l ih =>
    obtain ⟨u', r'⟩ := a
    simp only [List.map_cons, List.nodup_cons] at hnd
    simp only [remove]
    split
    · rename_i he; subst he
      intro hm
      exact hnd.1 (List.mem_map.mpr ⟨(u', r), hm, rfl⟩)
    · rename_i hne
      intro hm
      rcases List.mem_cons.mp hm with h1 | h1
      · simp at h1; exact hne h1.1.symm
      · exact ih hnd.2 h1

theorem remove_keys_nodup {u : Nat} {l : List (Nat × Nat)} (hnd : (l.map Prod.fst).Nodup) :
    ((remove u l).map Prod.fst).Nodup := by
  induction l with
  | nil => simp [remove]
  | cons a l ih =>
    obtain ⟨u', r'⟩ := a
    simp only [List.map_cons, List.nodup_cons] at hnd
    simp only [remove]
    split
    · exact hnd.2
    · simp only [List.map_cons, List.nodup_cons]
      refine ⟨?_, ih hnd.2⟩
      intro hm
      obtain ⟨e, he, he2⟩ := List.mem_map.mp hm
      exact hnd.1 (List.mem_map.mpr ⟨e, mem_of_mem_remove he, he2⟩)

end Ledger

namespace Ledger

/-- `get` after a step's update of caller `r`: `s'` is any state whose caller list is
    `s.callers.set r c` (the `with`-updates of other fields are irrelevant) -/
theorem get_upd (s' s : State) (r r' : Nat) (c : Caller) (hc : s'.callers = s.callers.set r c)
    (hlt : r < s.callers.length) : s'.get r' = if r = r' then c else s.get r' := by
  unfold State.get
  rw [hc, getD_set]
  by_cases h : r = r'
  · subst h; simp [hlt]
  · simp [h]

/-- an update outside the caller list changes nothing -/
theorem get_upd_ge (s' s : State) (r r' : Nat) (c : Caller) (hc : s'.callers = s.callers.set r c)
    (hge : ¬ r < s.callers.length) : s'.get r' = s.get r' := by
  unfold State.get
  rw [hc, getD_set]
  simp [hge]

/-- a step that leaves the caller list alone -/
theorem get_same (s' s : State) (r' : Nat) (hc : s'.callers = s.callers) : s'.get r' = s.get r' := by
  unfold State.get; rw [hc]

/-- the caller is inside the critical section of `_enqueue` -/
def CPc.inCrit : CPc → Bool
  | .inCS | .passed | .ledgered => true
  | _ => false

/-! ## Mutual exclusion and the capacity bound (C06) -/

def LockInv (c : Cfg) (s : State) : Prop :=
  (∀ r, (s.get r).pc.inCrit = true → s.lock = some (.caller r)) ∧
  (s.npc = .has → s.lock = some .notifier) ∧
  (∀ r, (s.get r).pc = .passed → s.ledger.length < c.cap) ∧
  s.ledger.length ≤ c.cap

theorem get_init (callers : List Caller) (r : Nat) : (init callers).get r = callers.getD r {} := rfl

/-- all callers of the initial state are `new` -/
def AllNew (callers : List Caller) : Prop := ∀ c ∈ callers, c.pc = .new ∧ c.uid = none ∧ c.fut = .pending

theorem init_get_new (callers : List Caller) (h : AllNew callers) (r : Nat) :
    ((init callers).get r).pc = .new ∧ ((init callers).get r).uid = none ∧ ((init callers).get r).fut = .pending := by
  rw [get_init]
  by_cases hr : r < callers.length
  · have : callers.getD r {} = callers[r] := by simp [List.getD_eq_getElem?_getD, hr]
    rw [this]; exact h _ (List.getElem_mem hr)
  · have : callers.getD r {} = {} := by simp [List.getD_eq_getElem?_getD, List.getElem?_eq_none (by omega : callers.length ≤ r)]
    rw [this]; exact ⟨rfl, rfl, rfl⟩

theorem lock_init (c : Cfg) (callers : List Caller) (h : AllNew callers) : LockInv c (init callers) := by
  refine ⟨?_, by simp [init], ?_, by simp [init]⟩
  · intro r hr; rw [(init_get_new callers h r).1] at hr; simp [CPc.inCrit] at hr
  · intro r hr; rw [(init_get_new callers h r).1] at hr; simp at hr

theorem lock_step (c : Cfg) (s : State) (a : Act) (s' : State) (h : LockInv c s) (hs : Step c s a s') :
    LockInv c s' := by
  obtain ⟨l1, l2, l3, l4⟩ := h
  -- nobody is in the critical section when the lock is free or held by the notifier
  have free : s.lock = none → ∀ r, (s.get r).pc.inCrit = false := by
    intro hl r
    cases hc : (s.get r).pc.inCrit with
    | false => rfl
    | true => have := l1 r hc; simp [hl] at this
  have unique : ∀ r r', (s.get r).pc.inCrit = true → (s.get r').pc.inCrit = true → r = r' := by
    intro r r' h1 h2
    have a := l1 r h1; have b := l1 r' h2
    rw [a] at b; simpa using b
  cases hs with
  | mint hlt hp =>
    rename_i r
    refine ⟨?_, l2, ?_, l4⟩
    · intro r' hr'
      rw [get_upd _ s r r' _ rfl hlt] at hr'
      split at hr'
      · simp [CPc.inCrit] at hr'
      · exact l1 r' hr'
    · intro r' hr'
      rw [get_upd _ s r r' _ rfl hlt] at hr'
      split at hr'
      · simp at hr'
      · exact l3 r' hr'
  | acquireStart hl hp =>
    rename_i r
    have hlt := lt_of_pc_ne_new s r (by rw [hp]; simp)
    refine ⟨?_, ?_, ?_, l4⟩
    · intro r' hr'
      rw [get_upd _ s r r' _ rfl hlt] at hr'
      split at hr'
      · rename_i he; subst he; rfl
      · have := free hl r'; simp [this] at hr'
    · intro hn; have := l2 hn; simp [hl] at this
    · intro r' hr'
      rw [get_upd _ s r r' _ rfl hlt] at hr'
      split at hr'
      · simp at hr'
      · exact l3 r' hr'
  | acquireWoken hl hp =>
    rename_i r
    have hlt := lt_of_pc_ne_new s r (by rw [hp]; simp)
    refine ⟨?_, ?_, ?_, l4⟩
    · intro r' hr'
      rw [get_upd _ s r r' _ rfl hlt] at hr'
      split at hr'
      · rename_i he; subst he; rfl
      · have := free hl r'; simp [this] at hr'
    · intro hn; have := l2 hn; simp [hl] at this
    · intro r' hr'
      rw [get_upd _ s r r' _ rfl hlt] at hr'
      split at hr'
      · simp at hr'
      · exact l3 r' hr'
  | testPass hp hlen =>
    rename_i r
    have hlt := lt_of_pc_ne_new s r (by rw [hp]; simp)
    have hin : (s.get r).pc.inCrit = true := by rw [hp]; rfl
    refine ⟨?_, l2, ?_, l4⟩
    · intro r' hr'
      rw [get_upd _ s r r' _ rfl hlt] at hr'
      split at hr'
      · rename_i he; subst he; exact l1 r hin
      · exact l1 r' hr'
    · intro r' hr'
      rw [get_upd _ s r r' _ rfl hlt] at hr'
      split at hr'
      · exact hlen
      · exact l3 r' hr'
  | reject hp hfull hbp =>
    rename_i r
    have hlt := lt_of_pc_ne_new s r (by rw [hp]; simp)
    have hin : (s.get r).pc.inCrit = true := by rw [hp]; rfl
    refine ⟨?_, ?_, ?_, l4⟩
    · intro r' hr'
      rw [get_upd _ s r r' _ rfl hlt] at hr'
      split at hr'
      · simp [CPc.inCrit] at hr'
      · rename_i hne; exact absurd (unique r r' hin hr') hne
    · intro hn; have := l2 hn; rw [l1 r hin] at this; simp at this
    · intro r' hr'
      rw [get_upd _ s r r' _ rfl hlt] at hr'
      split at hr'
      · simp at hr'
      · exact l3 r' hr'
  | wait hp hfull hbp =>
    rename_i r
    have hlt := lt_of_pc_ne_new s r (by rw [hp]; simp)
    have hin : (s.get r).pc.inCrit = true := by rw [hp]; rfl
    refine ⟨?_, ?_, ?_, l4⟩
    · intro r' hr'
      rw [get_upd _ s r r' _ rfl hlt] at hr'
      split at hr'
      · simp [CPc.inCrit] at hr'
      · rename_i hne; exact absurd (unique r r' hin hr') hne
    · intro hn; have := l2 hn; rw [l1 r hin] at this; simp at this
    · intro r' hr'
      rw [get_upd _ s r r' _ rfl hlt] at hr'
      split at hr'
      · simp at hr'
      · exact l3 r' hr'
  | noTime hp hfull hbp =>
    rename_i r
    have hlt := lt_of_pc_ne_new s r (by rw [hp]; simp)
    have hin : (s.get r).pc.inCrit = true := by rw [hp]; rfl
    refine ⟨?_, ?_, ?_, l4⟩
    · intro r' hr'
      rw [get_upd _ s r r' _ rfl hlt] at hr'
      split at hr'
      · simp [CPc.inCrit] at hr'
      · rename_i hne; exact absurd (unique r r' hin hr') hne
    · intro hn; have := l2 hn; rw [l1 r hin] at this; simp at this
    · intro r' hr'
      rw [get_upd _ s r r' _ rfl hlt] at hr'
      split at hr'
      · simp at hr'
      · exact l3 r' hr'
  | insert hp hu =>
    rename_i r u
    have hlt := lt_of_pc_ne_new s r (by rw [hp]; simp)
    have hin : (s.get r).pc.inCrit = true := by rw [hp]; rfl
    have hroom := l3 r hp
    refine ⟨?_, l2, ?_, ?_⟩
    · intro r' hr'
      rw [get_upd _ s r r' _ rfl hlt] at hr'
      split at hr'
      · rename_i he; subst he; exact l1 r hin
      · exact l1 r' hr'
    · intro r' hr'
      rw [get_upd _ s r r' _ rfl hlt] at hr'
      split at hr'
      · simp at hr'
      · rename_i hne
        have : (s.get r').pc.inCrit = true := by rw [hr']; rfl
        exact absurd (unique r r' hin this) hne
    · simp only [List.length_append, List.length_cons, List.length_nil]; omega
  | enqueue hp hu =>
    rename_i r u
    have hlt := lt_of_pc_ne_new s r (by rw [hp]; simp)
    have hin : (s.get r).pc.inCrit = true := by rw [hp]; rfl
    refine ⟨?_, ?_, ?_, l4⟩
    · intro r' hr'
      rw [get_upd _ s r r' _ rfl hlt] at hr'
      split at hr'
      · simp [CPc.inCrit] at hr'
      · rename_i hne; exact absurd (unique r r' hin hr') hne
    · intro hn; have := l2 hn; rw [l1 r hin] at this; simp at this
    · intro r' hr'
      rw [get_upd _ s r r' _ rfl hlt] at hr'
      split at hr'
      · simp at hr'
      · exact l3 r' hr'
  | timeoutWait hp =>
    rename_i r
    have hlt := lt_of_pc_ne_new s r (by rw [hp]; simp)
    refine ⟨?_, l2, ?_, l4⟩
    · intro r' hr'
      rw [get_upd _ s r r' _ rfl hlt] at hr'
      split at hr'
      · simp [CPc.inCrit] at hr'
      · exact l1 r' hr'
    · intro r' hr'
      rw [get_upd _ s r r' _ rfl hlt] at hr'
      split at hr'
      · simp at hr'
      · exact l3 r' hr'
  | giveUp hp hl =>
    rename_i r
    have hlt := lt_of_pc_ne_new s r (by rw [hp]; simp)
    refine ⟨?_, l2, ?_, l4⟩
    · intro r' hr'
      rw [get_upd _ s r r' _ rfl hlt] at hr'
      split at hr'
      · simp [CPc.inCrit] at hr'
      · exact l1 r' hr'
    · intro r' hr'
      rw [get_upd _ s r r' _ rfl hlt] at hr'
      split at hr'
      · simp at hr'
      · exact l3 r' hr'
  | expire hp hf =>
    rename_i r
    have hlt := lt_of_pc_ne_new s r (by rw [hp]; simp)
    refine ⟨?_, l2, ?_, l4⟩
    · intro r' hr'
      rw [get_upd _ s r r' _ rfl hlt] at hr'
      split at hr'
      · simp [CPc.inCrit] at hr'
      · exact l1 r' hr'
    · intro r' hr'
      rw [get_upd _ s r r' _ rfl hlt] at hr'
      split at hr'
      · simp at hr'
      · exact l3 r' hr'
  | cancelPending hp hf =>
    rename_i r
    have hlt := lt_of_pc_ne_new s r (by rw [hp]; simp)
    refine ⟨?_, l2, ?_, l4⟩
    · intro r' hr'
      rw [get_upd _ s r r' _ rfl hlt] at hr'
      split at hr'
      · simp [CPc.inCrit] at hr'
      · exact l1 r' hr'
    · intro r' hr'
      rw [get_upd _ s r r' _ rfl hlt] at hr'
      split at hr'
      · simp at hr'
      · exact l3 r' hr'
  | cancelLate hp hf =>
    rename_i r
    have hlt := lt_of_pc_ne_new s r (by rw [hp]; simp)
    refine ⟨?_, l2, ?_, l4⟩
    · intro r' hr'
      rw [get_upd _ s r r' _ rfl hlt] at hr'
      split at hr'
      · simp [CPc.inCrit] at hr'
      · exact l1 r' hr'
    · intro r' hr'
      rw [get_upd _ s r r' _ rfl hlt] at hr'
      split at hr'
      · simp at hr'
      · exact l3 r' hr'
  | receive hp hf =>
    rename_i r src
    have hlt := lt_of_pc_ne_new s r (by rw [hp]; simp)
    refine ⟨?_, l2, ?_, l4⟩
    · intro r' hr'
      rw [get_upd _ s r r' _ rfl hlt] at hr'
      split at hr'
      · simp [CPc.inCrit] at hr'
      · exact l1 r' hr'
    · intro r' hr'
      rw [get_upd _ s r r' _ rfl hlt] at hr'
      split at hr'
      · simp at hr'
      · exact l3 r' hr'
  | emit hm => exact ⟨l1, l2, l3, l4⟩
  | popFound hg hq hl =>
    rename_i u src dst
    have hle := remove_length_le u s.ledger
    refine ⟨l1, l2, ?_, ?_⟩
    · intro r' hr'; have := l3 r' hr'; simp only; omega
    · simp only; omega
  | popMissing hg hq hl => exact ⟨l1, l2, l3, l4⟩
  | gcheckCancelled hg hf => exact ⟨l1, l2, l3, l4⟩
  | gcheckLive hg hf => exact ⟨l1, l2, l3, l4⟩
  | gsetOk hg hf =>
    rename_i dst src
    by_cases hlt : dst < s.callers.length
    · refine ⟨?_, l2, ?_, l4⟩
      · intro r' hr'
        rw [get_upd _ s dst r' _ rfl hlt] at hr'
        split at hr'
        · rename_i he; subst he; exact l1 dst hr'
        · exact l1 r' hr'
      · intro r' hr'
        rw [get_upd _ s dst r' _ rfl hlt] at hr'
        split at hr'
        · rename_i he; subst he; exact l3 dst hr'
        · exact l3 r' hr'
    · refine ⟨?_, l2, ?_, l4⟩
      · intro r' hr'; rw [get_upd_ge _ s dst r' _ rfl hlt] at hr'; exact l1 r' hr'
      · intro r' hr'; rw [get_upd_ge _ s dst r' _ rfl hlt] at hr'; exact l3 r' hr'
  | gsetSkip hg hf hgs => exact ⟨l1, l2, l3, l4⟩
  | gsetDie hg hf hgs => exact ⟨l1, l2, l3, l4⟩
  | ntake hn hq => exact ⟨l1, by intro hx; simp at hx, l3, l4⟩
  | nacquire hn hl =>
    refine ⟨?_, by intro _; rfl, l3, l4⟩
    intro r' hr'; change (s.get r').pc.inCrit = true at hr'; have := free hl r'; simp [this] at hr'
  | nnotify hn hp =>
    rename_i r
    have hlt := lt_of_pc_ne_new s r (by rw [hp]; simp)
    have hno : ∀ r', (s.get r').pc.inCrit = false := by
      intro r'
      cases hc : (s.get r').pc.inCrit with
      | false => rfl
      | true => have := l1 r' hc; rw [l2 hn] at this; simp at this
    refine ⟨?_, by intro hx; simp at hx, ?_, l4⟩
    · intro r' hr'
      rw [get_upd _ s r r' _ rfl hlt] at hr'
      split at hr'
      · simp [CPc.inCrit] at hr'
      · simp [hno r'] at hr'
    · intro r' hr'
      rw [get_upd _ s r r' _ rfl hlt] at hr'
      split at hr'
      · simp at hr'
      · exact l3 r' hr'
  | nnone hn hall =>
    have hno : ∀ r', (s.get r').pc.inCrit = false := by
      intro r'
      cases hc : (s.get r').pc.inCrit with
      | false => rfl
      | true => have := l1 r' hc; rw [l2 hn] at this; simp at this
    refine ⟨?_, by intro hx; simp at hx, l3, l4⟩
    intro r' hr'; change (s.get r').pc.inCrit = true at hr'; simp [hno r'] at hr'

end Ledger
