import MpsVerif.Proofs.LedgerCons
/-! Own result (C02 ledger half), the gather thread stays alive (C07), combined invariant. -/
namespace Ledger

def ResInv (c : Cfg) (s : State) : Prop :=
  (∀ dst src, (s.gpc = .popped dst src ∨ s.gpc = .setting dst src) → dst = src) ∧
  (∀ r src, (s.get r).fut = .resolved src → src = r) ∧
  (∀ r src, (s.get r).pc = .done (.answered src) → src = r) ∧
  (c.guardSet = true → s.gpc ≠ .dead)

theorem res_init (c : Cfg) (callers : List Caller) (h : AllNew callers) : ResInv c (init callers) := by
  refine ⟨by simp [init], ?_, ?_, by simp [init]⟩
  · intro r src hf; rw [(init_get_new callers h r).2.2] at hf; simp at hf
  · intro r src hp; rw [(init_get_new callers h r).1] at hp; simp at hp

theorem res_step (c : Cfg) (s : State) (a : Act) (s' : State) (hu : UidInv s) (hk : ConsInv s)
    (h : ResInv c s) (hs : Step c s a s') : ResInv c s' := by
  obtain ⟨g1, g2, g3, g4⟩ := h
  cases hs
  case popFound u src dst hg hq hl =>
    have hmsg := hk.2.1 (u, src) (Or.inr hq)
    have hent := hk.1 (u, dst) (mem_of_lookup hl)
    have hds : dst = src := hu.2 dst src u hent.1 hmsg.1
    refine ⟨?_, g2, g3, by intro _; simp⟩
    intro d s0 hh; simp at hh; obtain ⟨h1, h2⟩ := hh; subst h1; subst h2; exact hds
  case popMissing u src hg hq hl =>
    exact ⟨by intro d s0 hh; simp [hg] at hh, g2, g3, by intro hgs; simp [hg]⟩
  case gcheckCancelled dst src hg hf =>
    exact ⟨by intro d s0 hh; simp at hh, g2, g3, by intro _; simp⟩
  case gcheckLive dst src hg hf =>
    refine ⟨?_, g2, g3, by intro _; simp⟩
    intro d s0 hh; simp at hh; obtain ⟨h1, h2⟩ := hh; subst h1; subst h2; exact g1 _ _ (Or.inl hg)
  case gsetOk dst src hg hf =>
    have hds := g1 dst src (Or.inr hg)
    refine ⟨by intro d s0 hh; simp at hh, ?_, ?_, by intro _; simp⟩
    · intro r x hx
      by_cases hlt : dst < s.callers.length
      · rw [get_upd _ s dst r _ rfl hlt] at hx; split at hx
        · rename_i he; subst he; simp at hx; subst hx; exact hds.symm
        · exact g2 r x hx
      · rw [get_upd_ge _ s dst r _ rfl hlt] at hx; exact g2 r x hx
    · intro r x hx
      by_cases hlt : dst < s.callers.length
      · rw [get_upd _ s dst r _ rfl hlt] at hx; split at hx
        · rename_i he; subst he; exact g3 dst x hx
        · exact g3 r x hx
      · rw [get_upd_ge _ s dst r _ rfl hlt] at hx; exact g3 r x hx
  case gsetSkip dst src hg hf hgs =>
    exact ⟨by intro d s0 hh; simp at hh, g2, g3, by intro _; simp⟩
  case gsetDie dst src hg hf hgs =>
    exact ⟨by intro d s0 hh; simp at hh, g2, g3, by intro hgt; rw [hgs] at hgt; simp at hgt⟩
  case receive r src hp hf =>
    have hlt := lt_of_pc_ne_new s r (by rw [hp]; simp)
    refine ⟨g1, ?_, ?_, g4⟩
    · intro r' x hx
      rw [get_upd _ s r r' _ rfl hlt] at hx; split at hx
      · rename_i he; subst he; exact g2 r x hx
      · exact g2 r' x hx
    · intro r' x hx
      rw [get_upd _ s r r' _ rfl hlt] at hx; split at hx
      · rename_i he; subst he; simp at hx; subst hx; exact g2 r src hf
      · exact g3 r' x hx
  case mint r hlt hp =>
    refine ⟨g1, ?_, ?_, g4⟩
    · intro r' x hx
      rw [get_upd _ s r r' _ rfl hlt] at hx; split at hx
      · rename_i he; subst he; exact g2 _ x hx
      · exact g2 r' x hx
    · intro r' x hx
      rw [get_upd _ s r r' _ rfl hlt] at hx; split at hx
      · simp at hx
      · exact g3 r' x hx
  case emit u r hm => exact ⟨g1, g2, g3, g4⟩
  case ntake hn hq => exact ⟨g1, g2, g3, g4⟩
  case nacquire hn hl => exact ⟨g1, g2, g3, g4⟩
  case nnone hn hall => exact ⟨g1, g2, g3, g4⟩
  all_goals
    (have hp := ‹(s.get _).pc = _›
     have hlt := lt_of_pc_ne_new s _ (by rw [hp]; simp)
     refine ⟨g1, ?_, ?_, g4⟩
     · intro r' x hx
       rw [get_upd _ s _ r' _ rfl hlt] at hx; split at hx
       · rename_i he; subst he; first | exact g2 _ x hx | (simp at hx)
       · exact g2 r' x hx
     · intro r' x hx
       rw [get_upd _ s _ r' _ rfl hlt] at hx; split at hx
       · rename_i he; subst he; first | (simp at hx) | (rw [hp] at hx; simp at hx) | exact g3 _ x hx
       · exact g3 r' x hx)

structure AllInv (c : Cfg) (s : State) : Prop where
  lock : LockInv c s
  uid : UidInv s
  cons : ConsInv s
  res : ResInv c s

theorem all_init (c : Cfg) (callers : List Caller) (h : AllNew callers) : AllInv c (init callers) :=
  ⟨lock_init c callers h, uid_init callers h, cons_init callers h, res_init c callers h⟩

theorem all_step (c : Cfg) (s : State) (a : Act) (s' : State) (h : AllInv c s) (hs : Step c s a s') :
    AllInv c s' :=
  ⟨lock_step c s a s' h.lock hs, uid_step c s a s' h.uid hs, cons_step c s a s' h.uid h.cons hs,
   res_step c s a s' h.uid h.cons h.res hs⟩

theorem all_reachable (c : Cfg) (callers : List Caller) (h : AllNew callers) {s : State}
    (hr : Reachable c callers s) : AllInv c s :=
  reachable_inv c callers (all_init c callers h) (all_step c) hr

end Ledger
