import MpsVerif.Model.Ledger
import MpsVerif.Core.Sys
/-! Relational presentation of `Ledger.step` and its soundness. -/
namespace Ledger

inductive Step (c : Cfg) : State → Act → State → Prop where
  | mint {s r} : r < s.callers.length → (s.get r).pc = .new →
      Step c s (.mint r) { (s.set r { s.get r with pc := .start, uid := some s.nextUid }) with nextUid := s.nextUid + 1 }
  | acquireStart {s r} : s.lock = none → (s.get r).pc = .start →
      Step c s (.acquire r) { (s.set r { s.get r with pc := .inCS }) with lock := some (.caller r) }
  | acquireWoken {s r} : s.lock = none → (s.get r).pc = .woken →
      Step c s (.acquire r) { (s.set r { s.get r with pc := .inCS }) with lock := some (.caller r) }
  | testPass {s r} : (s.get r).pc = .inCS → s.ledger.length < c.cap →
      Step c s (.testPass r) (s.set r { s.get r with pc := .passed })
  | reject {s r} : (s.get r).pc = .inCS → c.cap ≤ s.ledger.length → (s.get r).bp = true →
      Step c s (.reject r) { (s.set r { s.get r with pc := .done .full }) with lock := none }
  | wait {s r} : (s.get r).pc = .inCS → c.cap ≤ s.ledger.length → (s.get r).bp = false →
      Step c s (.wait r) { (s.set r { s.get r with pc := .waiting }) with lock := none }
  | noTime {s r} : (s.get r).pc = .inCS → c.cap ≤ s.ledger.length → (s.get r).bp = false →
      Step c s (.noTime r) { (s.set r { s.get r with pc := .done .full }) with lock := none }
  | insert {s r u} : (s.get r).pc = .passed → (s.get r).uid = some u →
      Step c s (.insert r) { (s.set r { s.get r with pc := .ledgered }) with ledger := s.ledger ++ [(u, r)] }
  | enqueue {s r u} : (s.get r).pc = .ledgered → (s.get r).uid = some u →
      Step c s (.enqueue r)
        { (s.set r { s.get r with pc := .pending }) with inflight := s.inflight ++ [(u, r)], lock := none }
  | timeoutWait {s r} : (s.get r).pc = .waiting →
      Step c s (.timeoutWait r) (s.set r { s.get r with pc := .expired })
  | giveUp {s r} : (s.get r).pc = .expired → s.lock = none →
      Step c s (.giveUp r) (s.set r { s.get r with pc := .done .full })
  | expire {s r} : (s.get r).pc = .pending → (s.get r).fut = .pending →
      Step c s (.expire r) (s.set r { s.get r with pc := .cancelling })
  | cancelPending {s r} : (s.get r).pc = .cancelling → (s.get r).fut = .pending →
      Step c s (.cancel r) (s.set r { s.get r with pc := .done .timeout, fut := .cancelled })
  | cancelLate {s r} : (s.get r).pc = .cancelling → (s.get r).fut ≠ .pending →
      Step c s (.cancel r) (s.set r { s.get r with pc := .done .timeout })
  | receive {s r src} : (s.get r).pc = .pending → (s.get r).fut = .resolved src →
      Step c s (.receive r) (s.set r { s.get r with pc := .done (.answered src) })
  | emit {s u r} : (u, r) ∈ s.inflight →
      Step c s (.emit u r) { s with inflight := s.inflight.erase (u, r), outq := s.outq ++ [(u, r)] }
  | popFound {s u src dst} : s.gpc = .idle → (u, src) ∈ s.outq → lookup u s.ledger = some dst →
      Step c s (.pop u src) { s with outq := s.outq.erase (u, src), ledger := remove u s.ledger, gpc := .popped dst src }
  | popMissing {s u src} : s.gpc = .idle → (u, src) ∈ s.outq → lookup u s.ledger = none →
      Step c s (.pop u src) { s with outq := s.outq.erase (u, src), dropped := (u, src) :: s.dropped }
  | gcheckCancelled {s dst src} : s.gpc = .popped dst src → (s.get dst).fut = .cancelled →
      Step c s .gcheck { s with gpc := .idle, qn := s.qn + 1 }
  | gcheckLive {s dst src} : s.gpc = .popped dst src → (s.get dst).fut ≠ .cancelled →
      Step c s .gcheck { s with gpc := .setting dst src }
  | gsetOk {s dst src} : s.gpc = .setting dst src → (s.get dst).fut = .pending →
      Step c s .gset { (s.set dst { s.get dst with fut := .resolved src }) with gpc := .idle, qn := s.qn + 1 }
  | gsetSkip {s dst src} : s.gpc = .setting dst src → (s.get dst).fut ≠ .pending → c.guardSet = true →
      Step c s .gset { s with gpc := .idle, qn := s.qn + 1 }
  | gsetDie {s dst src} : s.gpc = .setting dst src → (s.get dst).fut ≠ .pending → c.guardSet = false →
      Step c s .gset { s with gpc := .dead }
  | ntake {s} : s.npc = .idle → 0 < s.qn → Step c s .ntake { s with npc := .want, qn := s.qn - 1 }
  | nacquire {s} : s.npc = .want → s.lock = none →
      Step c s .nacquire { s with npc := .has, lock := some .notifier }
  | nnotify {s r} : s.npc = .has → (s.get r).pc = .waiting →
      Step c s (.nnotify r) { (s.set r { s.get r with pc := .woken }) with npc := .idle, lock := none }
  | nnone {s} : s.npc = .has → (∀ r < s.callers.length, (s.get r).pc ≠ .waiting) →
      Step c s .nnone { s with npc := .idle, lock := none }

theorem step_sound (c : Cfg) (s s' : State) (a : Act) (h : step c s a = some s') : Step c s a s' := by
  cases a <;> simp only [step] at h
  case mint r => split at h <;> simp at h; subst h; rename_i hc; exact .mint hc.1 hc.2
  case acquire r =>
    split at h
    · rename_i hl
      split at h
      · rename_i hp; simp at h; subst h; exact .acquireStart hl hp
      · rename_i hp; simp at h; subst h; exact .acquireWoken hl hp
      · simp at h
    · simp at h
  case testPass r => split at h <;> simp at h; subst h; rename_i hc; exact .testPass hc.1 hc.2
  case reject r => split at h <;> simp at h; subst h; rename_i hc; exact .reject hc.1 hc.2.1 hc.2.2
  case wait r => split at h <;> simp at h; subst h; rename_i hc; exact .wait hc.1 hc.2.1 hc.2.2
  case noTime r => split at h <;> simp at h; subst h; rename_i hc; exact .noTime hc.1 hc.2.1 hc.2.2
  case insert r =>
    split at h
    · rename_i u hp hu; simp at h; subst h; exact .insert hp hu
    · simp at h
  case enqueue r =>
    split at h
    · rename_i u hp hu; simp at h; subst h; exact .enqueue hp hu
    · simp at h
  case timeoutWait r => split at h <;> simp at h; subst h; rename_i hc; exact .timeoutWait hc
  case giveUp r => split at h <;> simp at h; subst h; rename_i hc; exact .giveUp hc.1 hc.2
  case expire r => split at h <;> simp at h; subst h; rename_i hc; exact .expire hc.1 hc.2
  case cancel r =>
    split at h
    · rename_i hp
      split at h
      · rename_i hf; simp at h; subst h; exact .cancelPending hp hf
      · rename_i hf; simp at h; subst h; exact .cancelLate hp (by intro hx; exact hf hx)
    · simp at h
  case receive r =>
    split at h
    · rename_i src hp hf; simp at h; subst h; exact .receive hp hf
    · simp at h
  case emit u r => split at h <;> simp at h; subst h; rename_i hc; exact .emit hc
  case pop u src =>
    split at h
    · rename_i hg
      split at h
      · rename_i dst hl; simp at h; subst h; exact .popFound hg.1 hg.2 hl
      · rename_i hl; simp at h; subst h; exact .popMissing hg.1 hg.2 hl
    · simp at h
  case gcheck =>
    split at h
    · rename_i dst src hg
      split at h
      · rename_i hf; simp at h; subst h; exact .gcheckCancelled hg hf
      · rename_i hf; simp at h; subst h; exact .gcheckLive hg hf
    · simp at h
  case gset =>
    split at h
    · rename_i dst src hg
      split at h
      · rename_i hf; simp at h; subst h; exact .gsetOk hg hf
      · rename_i hf
        split at h
        · rename_i hgs; simp at h; subst h; exact .gsetSkip hg (by intro hx; exact hf hx) hgs
        · rename_i hgs; simp at h; subst h
          exact .gsetDie hg (by intro hx; exact hf hx) (by cases hc : c.guardSet <;> simp_all)
    · simp at h
  case ntake => split at h <;> simp at h; subst h; rename_i hc; exact .ntake hc.1 hc.2
  case nacquire => split at h <;> simp at h; subst h; rename_i hc; exact .nacquire hc.1 hc.2
  case nnotify r => split at h <;> simp at h; subst h; rename_i hc; exact .nnotify hc.1 hc.2
  case nnone => split at h <;> simp at h; subst h; rename_i hc; exact .nnone hc.1 hc.2

/-- reachable from the initial state with the given callers (all `new`) -/
def Reachable (c : Cfg) (callers : List Caller) (s : State) : Prop :=
  Core.Reach (step c) (init callers) s

theorem reachable_inv (c : Cfg) (callers : List Caller) {Inv : State → Prop} (h0 : Inv (init callers))
    (hstep : ∀ s a s', Inv s → Step c s a s' → Inv s') {s : State} (hr : Reachable c callers s) : Inv s :=
  Core.invariant_reach (fun s a s' hi hs => hstep s a s' hi (step_sound c s s' a hs)) h0 hr

end Ledger
