import MpsVerif.Proofs.LifecycleLive
/-! `cands` lists every action that can be enabled, so "no candidate enabled" is a deadlock. -/
namespace Lifecycle

theorem cands_complete (net : Net) (s : State) (a : Act) (h : (step net s a).isSome = true) : a ∈ cands net := by
  obtain ⟨s', hs'⟩ := Option.isSome_iff_exists.mp h
  have hs := step_sound net s s' a hs'
  cases hs with
  | inject _ => simp [cands]
  | mainPut _ => simp [cands]
  | mainJoin _ _ => simp [cands]
  | mainClear _ => simp [cands]
  | @getData n c k nd rest plan hnd hn hc hq hpl =>
    simp only [cands, List.mem_append, List.mem_flatMap, List.mem_range]
    right
    refine ⟨n, lt_of_getElem? hnd, ?_⟩
    rw [hnd]
    simp only [List.mem_cons, List.mem_flatMap, List.mem_map, List.mem_range]
    right
    refine ⟨c, hc, k, ?_, rfl⟩
    have := lt_of_getElem? hpl
    omega
  | @getStop n c nd rest hnd hn hc hq _ =>
    simp only [cands, List.mem_append, List.mem_flatMap, List.mem_range]
    right
    refine ⟨n, lt_of_getElem? hnd, ?_⟩
    rw [hnd]
    simp only [List.mem_cons, List.mem_flatMap, List.mem_map, List.mem_range]
    right
    exact ⟨c, hc, 0, by omega, rfl⟩
  | @getStopWait n c nd rest hnd hn hc hq _ =>
    simp only [cands, List.mem_append, List.mem_flatMap, List.mem_range]
    right
    refine ⟨n, lt_of_getElem? hnd, ?_⟩
    rw [hnd]
    simp only [List.mem_cons, List.mem_flatMap, List.mem_map, List.mem_range]
    right
    exact ⟨c, hc, 0, by omega, rfl⟩
  | @putData n c rest hlt hn hroom =>
    simp only [cands, List.mem_append, List.mem_flatMap, List.mem_range]
    right
    exact ⟨n, hlt, by simp⟩
  | @putStop n c rest hlt hn =>
    simp only [cands, List.mem_append, List.mem_flatMap, List.mem_range]
    right
    exact ⟨n, hlt, by simp⟩

theorem foldl_none (net : Net) (as : List Act) :
    as.foldl (fun (o : Option State) a => o.bind (fun s => step net s a)) none = none := by
  induction as with
  | nil => rfl
  | cons a as ih => simpa using ih

theorem foldl_eq_run (net : Net) (as : List Act) (s : State) :
    as.foldl (fun (o : Option State) a => o.bind (fun s => step net s a)) (some s) = Core.run (step net) s as := by
  induction as generalizing s with
  | nil => rfl
  | cons a as ih =>
    simp only [List.foldl_cons, Core.run_cons, Option.bind_some]
    cases h : step net s a with
    | none => simp [foldl_none]
    | some s1 => simp [ih]

/-- what `deadlocks net as = true` means -/
theorem deadlocks_sound (net : Net) (as : List Act) (h : deadlocks net as = true) :
    ∃ s, Reachable net s ∧ ¬ Final s ∧ ∀ a, step net s a = none := by
  unfold deadlocks at h
  rw [foldl_eq_run] at h
  split at h
  · rename_i s hs
    simp only [Bool.and_eq_true, Bool.not_eq_true', decide_eq_false_iff_not, List.isEmpty_iff] at h
    refine ⟨s, ⟨as, hs⟩, h.1, ?_⟩
    intro a
    cases hst : step net s a with
    | none => rfl
    | some s1 =>
      have hc := cands_complete net s a (by simp [hst])
      have : a ∈ enabled net s := by simp [enabled, hc, hst]
      rw [h.2] at this; simp at this
  · simp at h

end Lifecycle
