import MpsVerif.Proofs.LifecyclePipes
/-! The network compiled from ANY servlet tree (every servlet with at least one worker) is well-formed. -/
namespace Lifecycle

/-- every servlet has at least one worker (`num_threads or 1`, `cpus` non-empty in the real code) -/
def Tree.pos : Tree → Prop
  | .simple k _ => 1 ≤ k
  | .seq a b => a.pos ∧ b.pos
  | .ens a b => a.pos ∧ b.pos
  | .sw a b => a.pos ∧ b.pos

@[simp] theorem chansT_length (K : Nat) (t : Tree) (w : Nat) : (chansT K t w).length = t.nchan := by
  induction t generalizing w with
  | simple k p => rfl
  | seq a b iha ihb => simp [chansT, Tree.nchan, iha, ihb]; omega
  | ens a b iha ihb => simp [chansT, Tree.nchan, iha, ihb]; omega
  | sw a b iha ihb => simp [chansT, Tree.nchan, iha, ihb]; omega

@[simp] theorem nodesT_length (t : Tree) (cin cout cb : Nat) : (nodesT t cin cout cb).length = t.nnode := by
  induction t generalizing cin cout cb with
  | simple k p => simp [nodesT, Tree.nnode]
  | seq a b iha ihb => simp [nodesT, Tree.nnode, iha, ihb]
  | ens a b iha ihb => simp [nodesT, Tree.nnode, iha, ihb]; omega
  | sw a b iha ihb => simp [nodesT, Tree.nnode, iha, ihb]; omega

/-- channel `c` is the subtree's own `x` or one of its internal channels -/
def Loc (x cb n c : Nat) : Prop := c = x ∨ (cb ≤ c ∧ c < cb + n)

theorem Loc.mono {x cb n c cb' n' : Nat} (h : Loc x cb' n' c) (h1 : cb ≤ cb') (h2 : cb' + n' ≤ cb + n) : Loc x cb n c := by
  rcases h with h | h
  · exact Or.inl h
  · exact Or.inr ⟨by omega, by omega⟩

theorem Loc.inner {x y cb n c cb' n' : Nat} (h : Loc x cb' n' c) (hx : cb ≤ x ∧ x < cb + n) (h1 : cb ≤ cb')
    (h2 : cb' + n' ≤ cb + n) : Loc y cb n c := by
  rcases h with h | h
  · subst h; exact Or.inr hx
  · exact Or.inr ⟨by omega, by omega⟩

structure NodeLoc (cin cout cb n : Nat) (nd : NodeDesc) : Prop where
  ins : ∀ c ∈ nd.ins, Loc cin cb n c
  souts : ∀ c ∈ nd.souts, Loc cout cb n c
  plans : ∀ plan ∈ nd.plans, ∀ c ∈ plan, Loc cout cb n c
  plansNe : nd.plans ≠ []
  allOk : nd.all = true → nd.rebro = false ∧ nd.ins ≠ []

theorem nodeLoc_mono {cin cout cb n cin' cout' cb' n' : Nat} {nd : NodeDesc} (h : NodeLoc cin' cout' cb' n' nd)
    (hi : ∀ c, Loc cin' cb' n' c → Loc cin cb n c) (ho : ∀ c, Loc cout' cb' n' c → Loc cout cb n c) :
    NodeLoc cin cout cb n nd :=
  ⟨fun c hc => hi c (h.ins c hc), fun c hc => ho c (h.souts c hc), fun p hp c hc => ho c (h.plans p hp c hc),
   h.plansNe, h.allOk⟩

theorem nodesT_loc (t : Tree) (cin cout cb : Nat) :
    ∀ nd ∈ nodesT t cin cout cb, NodeLoc cin cout cb t.nchan nd := by
  induction t generalizing cin cout cb with
  | simple k p =>
    intro nd hnd
    simp only [nodesT, List.mem_replicate] at hnd
    obtain ⟨_, rfl⟩ := hnd
    refine ⟨?_, ?_, ?_, by simp [workerDesc], by simp [workerDesc]⟩
    · intro c hc; simp [workerDesc] at hc; exact Or.inl hc
    · intro c hc; simp [workerDesc] at hc; exact Or.inl hc
    · intro p hp c hc; simp [workerDesc] at hp; subst hp; simp at hc; exact Or.inl hc
  | seq a b iha ihb =>
    intro nd hnd
    simp only [nodesT, List.mem_append] at hnd
    simp only [Tree.nchan]
    rcases hnd with h | h
    · refine nodeLoc_mono (iha cin cb (cb + 1) nd h) ?_ ?_
      · intro c hc; exact hc.mono (by omega) (by omega)
      · intro c hc; exact hc.inner ⟨by omega, by omega⟩ (by omega) (by omega)
    · refine nodeLoc_mono (ihb cb cout (cb + 1 + a.nchan) nd h) ?_ ?_
      · intro c hc; exact hc.inner ⟨by omega, by omega⟩ (by omega) (by omega)
      · intro c hc; exact hc.mono (by omega) (by omega)
  | ens a b iha ihb =>
    intro nd hnd
    simp only [nodesT, List.mem_append, List.mem_cons, List.not_mem_nil, or_false] at hnd
    simp only [Tree.nchan]
    rcases hnd with (h | h) | h | h
    · refine nodeLoc_mono (iha cb (cb + 1) (cb + 4) nd h) ?_ ?_
      · intro c hc; exact hc.inner ⟨by omega, by omega⟩ (by omega) (by omega)
      · intro c hc; exact hc.inner ⟨by omega, by omega⟩ (by omega) (by omega)
    · refine nodeLoc_mono (ihb (cb + 2) (cb + 3) (cb + 4 + a.nchan) nd h) ?_ ?_
      · intro c hc; exact hc.inner ⟨by omega, by omega⟩ (by omega) (by omega)
      · intro c hc; exact hc.inner ⟨by omega, by omega⟩ (by omega) (by omega)
    · subst h
      refine ⟨?_, ?_, ?_, by simp, by simp⟩
      · intro c hc; simp at hc; rcases hc with h | h <;> subst h <;> exact Or.inr ⟨by omega, by omega⟩
      · intro c hc; simp at hc; exact Or.inl hc
      · intro p hp c hc; simp at hp; rcases hp with h | h <;> subst h <;> simp at hc; exact Or.inl hc
    · subst h
      refine ⟨?_, ?_, ?_, by simp, by simp⟩
      · intro c hc; simp at hc; exact Or.inl hc
      · intro c hc; simp at hc; rcases hc with h | h <;> subst h <;> exact Or.inr ⟨by omega, by omega⟩
      · intro p hp c hc; simp at hp
        rcases hp with h | h <;> subst h <;> simp at hc
        · exact Or.inl hc
        · rcases hc with h | h <;> subst h <;> exact Or.inr ⟨by omega, by omega⟩
  | sw a b iha ihb =>
    intro nd hnd
    simp only [nodesT, List.mem_append, List.mem_cons, List.not_mem_nil, or_false] at hnd
    simp only [Tree.nchan]
    rcases hnd with (h | h) | h
    · refine nodeLoc_mono (iha cb cout (cb + 2) nd h) ?_ ?_
      · intro c hc; exact hc.inner ⟨by omega, by omega⟩ (by omega) (by omega)
      · intro c hc; exact hc.mono (by omega) (by omega)
    · refine nodeLoc_mono (ihb (cb + 1) cout (cb + 2 + a.nchan) nd h) ?_ ?_
      · intro c hc; exact hc.inner ⟨by omega, by omega⟩ (by omega) (by omega)
      · intro c hc; exact hc.mono (by omega) (by omega)
    · subst h
      refine ⟨?_, ?_, ?_, by simp, by simp⟩
      · intro c hc; simp at hc; exact Or.inl hc
      · intro c hc; simp at hc; rcases hc with h | h <;> subst h <;> exact Or.inr ⟨by omega, by omega⟩
      · intro p hp c hc; simp at hp
        rcases hp with h | h | h <;> subst h <;> simp at hc
        · exact Or.inl hc
        · subst hc; exact Or.inr ⟨by omega, by omega⟩
        · subst hc; exact Or.inr ⟨by omega, by omega⟩

/-! ### weights -/

def pcW (W : Nat → Nat) (plan : List Nat) : Nat := (plan.map (fun d => 1 + W d)).sum

theorem win_ge (t : Tree) (w : Nat) : w + 2 ≤ win t w := by
  induction t generalizing w with
  | simple k p => simp [win]; omega
  | seq a b iha ihb => simp only [win]; have := ihb w; have := iha (win b w); omega
  | ens a b iha ihb => simp only [win]; have := iha (2 + w); omega
  | sw a b iha ihb => simp only [win]; omega

theorem getElem?_pre_append {α : Type} (pre A B : List α) (j : Nat) (x : α) (h : A[j]? = some x) :
    (pre ++ (A ++ B))[pre.length + j]? = some x := by
  rw [List.getElem?_append_right (by omega)]
  simp only [Nat.add_sub_cancel_left]
  rw [List.getElem?_append_left (lt_of_getElem? h)]
  exact h

theorem getElem?_pre_append_right {α : Type} (pre A B : List α) (j : Nat) (x : α) (h : B[j]? = some x) :
    (pre ++ (A ++ B))[pre.length + A.length + j]? = some x := by
  rw [List.getElem?_append_right (by omega)]
  rw [List.getElem?_append_right (by omega)]
  have : pre.length + A.length + j - pre.length - A.length = j := by omega
  rw [this]; exact h

theorem nodesT_weight (K : Nat) (t : Tree) (W : Nat → Nat) (cin cout cb wout : Nat)
    (hin : W cin = win t wout) (hout : W cout = wout)
    (hch : ∀ j x, (chansT K t wout)[j]? = some x → W (cb + j) = x.2) :
    ∀ nd ∈ nodesT t cin cout cb, ∀ c ∈ nd.ins, ∀ plan ∈ nd.plans, 1 + pcW W plan ≤ W c := by
  induction t generalizing cin cout cb wout with
  | simple k p =>
    intro nd hnd c hc plan hp
    simp only [nodesT, List.mem_replicate] at hnd
    obtain ⟨_, rfl⟩ := hnd
    simp [workerDesc] at hc hp
    subst hc; subst hp
    simp [pcW, hin, hout, win]; omega
  | seq a b iha ihb =>
    intro nd hnd
    simp only [nodesT, List.mem_append] at hnd
    have hmid : W cb = win b wout := by
      have := hch 0 (pipe K (a.outThread && b.inThread), win b wout) (by simp [chansT]); simpa using this
    rcases hnd with h | h
    · refine iha cin cb (cb + 1) (win b wout) (by rw [hin]; rfl) hmid ?_ nd h
      intro j x hj
      have := hch (1 + j) x (by
        have := getElem?_pre_append [(pipe K (a.outThread && b.inThread), win b wout)] _ (chansT K b wout) j x hj
        simpa [chansT] using this)
      rw [← this]; congr 1; omega
    · refine ihb cb cout (cb + 1 + a.nchan) wout hmid hout ?_ nd h
      intro j x hj
      have := hch (1 + a.nchan + j) x (by
        have := getElem?_pre_append_right [(pipe K (a.outThread && b.inThread), win b wout)] (chansT K a (win b wout)) _ j x hj
        simpa [chansT] using this)
      rw [← this]; congr 1; omega
  | ens a b iha ihb =>
    intro nd hnd
    simp only [nodesT, List.mem_append, List.mem_cons, List.not_mem_nil, or_false] at hnd
    have h0 : W cb = win a (2 + wout) := by have := hch 0 (pipe K a.inThread, win a (2 + wout)) (by simp [chansT]); simpa using this
    have h1 : W (cb + 1) = 2 + wout := by have := hch 1 (pipe K a.outThread, 2 + wout) (by simp [chansT]); simpa using this
    have h2 : W (cb + 2) = win b (2 + wout) := by have := hch 2 (pipe K b.inThread, win b (2 + wout)) (by simp [chansT]); simpa using this
    have h3 : W (cb + 3) = 2 + wout := by have := hch 3 (pipe K b.outThread, 2 + wout) (by simp [chansT]); simpa using this
    rcases hnd with (h | h) | h | h
    · refine iha cb (cb + 1) (cb + 4) (2 + wout) h0 h1 ?_ nd h
      intro j x hj
      have := hch (4 + j) x (by
        have := getElem?_pre_append [(pipe K a.inThread, win a (2 + wout)), (pipe K a.outThread, 2 + wout),
          (pipe K b.inThread, win b (2 + wout)), (pipe K b.outThread, 2 + wout)] _ (chansT K b (2 + wout)) j x hj
        simpa [chansT] using this)
      rw [← this]; congr 1; omega
    · refine ihb (cb + 2) (cb + 3) (cb + 4 + a.nchan) (2 + wout) h2 h3 ?_ nd h
      intro j x hj
      have := hch (4 + a.nchan + j) x (by
        have := getElem?_pre_append_right [(pipe K a.inThread, win a (2 + wout)), (pipe K a.outThread, 2 + wout),
          (pipe K b.inThread, win b (2 + wout)), (pipe K b.outThread, 2 + wout)] (chansT K a (2 + wout)) _ j x hj
        simpa [chansT] using this)
      rw [← this]; congr 1; omega
    · subst h
      intro c hc plan hp
      simp at hc hp
      rcases hc with h | h <;> subst h <;> rcases hp with h | h <;> subst h <;> simp [pcW, hout, h1, h3] <;> omega
    · subst h
      intro c hc plan hp
      simp at hc hp
      subst hc
      have := win_ge a (2 + wout)
      rcases hp with h | h <;> subst h <;> simp [pcW, hin, hout, h0, h2, win] <;> omega
  | sw a b iha ihb =>
    intro nd hnd
    simp only [nodesT, List.mem_append, List.mem_cons, List.not_mem_nil, or_false] at hnd
    have h0 : W cb = win a wout := by have := hch 0 (pipe K a.inThread, win a wout) (by simp [chansT]); simpa using this
    have h1 : W (cb + 1) = win b wout := by have := hch 1 (pipe K b.inThread, win b wout) (by simp [chansT]); simpa using this
    rcases hnd with (h | h) | h
    · refine iha cb cout (cb + 2) wout h0 hout ?_ nd h
      intro j x hj
      have := hch (2 + j) x (by
        have := getElem?_pre_append [(pipe K a.inThread, win a wout), (pipe K b.inThread, win b wout)] _ (chansT K b wout) j x hj
        simpa [chansT] using this)
      rw [← this]; congr 1; omega
    · refine ihb (cb + 1) cout (cb + 2 + a.nchan) wout h1 hout ?_ nd h
      intro j x hj
      have := hch (2 + a.nchan + j) x (by
        have := getElem?_pre_append_right [(pipe K a.inThread, win a wout), (pipe K b.inThread, win b wout)] (chansT K a wout) _ j x hj
        simpa [chansT] using this)
      rw [← this]; congr 1; omega
    · subst h
      intro c hc plan hp
      simp at hc hp
      subst hc
      rcases hp with h | h | h <;> subst h <;> simp [pcW, hin, hout, h0, h1, win] <;> omega

/-! ### unique readers -/

def Uniq (L : List NodeDesc) : Prop :=
  ∀ (j : Nat) (nd : NodeDesc), L[j]? = some nd → nd.rebro = false → ∀ c ∈ nd.ins,
    ∀ (j' : Nat) (md : NodeDesc), L[j']? = some md → c ∈ md.ins → j' = j

theorem uniq_single (x : NodeDesc) : Uniq [x] := by
  intro j nd hj _ c _ j' md hj' _
  have h1 := lt_of_getElem? hj
  have h2 := lt_of_getElem? hj'
  simp at h1 h2; omega

theorem uniq_append (L1 L2 : List NodeDesc) (S1 S2 : Nat → Prop)
    (h1 : ∀ nd ∈ L1, ∀ c ∈ nd.ins, S1 c) (h2 : ∀ nd ∈ L2, ∀ c ∈ nd.ins, S2 c)
    (hd : ∀ c, S1 c → S2 c → False) (u1 : Uniq L1) (u2 : Uniq L2) : Uniq (L1 ++ L2) := by
  intro j nd hj hr c hc j' md hj' hc'
  rw [List.getElem?_append] at hj hj'
  split at hj <;> split at hj'
  · exact u1 j nd hj hr c hc j' md hj' hc'
  · exact absurd (h2 md (List.mem_of_getElem? hj') c hc') (fun h => hd c (h1 nd (List.mem_of_getElem? hj) c hc) h)
  · exact absurd (h2 nd (List.mem_of_getElem? hj) c hc) (fun h => hd c (h1 md (List.mem_of_getElem? hj') c hc') h)
  · have := u2 _ nd hj hr c hc _ md hj' hc'
    omega

theorem nodesT_uniq (t : Tree) (cin cout cb : Nat) (hcin : cin < cb) : Uniq (nodesT t cin cout cb) := by
  induction t generalizing cin cout cb with
  | simple k p =>
    intro j nd hj hr
    have := List.mem_of_getElem? hj
    simp only [nodesT, List.mem_replicate] at this
    obtain ⟨_, rfl⟩ := this
    simp [workerDesc] at hr
  | seq a b iha ihb =>
    simp only [nodesT]
    refine uniq_append _ _ (Loc cin (cb + 1) a.nchan) (Loc cb (cb + 1 + a.nchan) b.nchan) ?_ ?_ ?_
      (iha cin cb (cb + 1) (by omega)) (ihb cb cout (cb + 1 + a.nchan) (by omega))
    · intro nd hnd; exact (nodesT_loc a cin cb (cb + 1) nd hnd).ins
    · intro nd hnd; exact (nodesT_loc b cb cout (cb + 1 + a.nchan) nd hnd).ins
    · intro c h1 h2; rcases h1 with h1 | h1 <;> rcases h2 with h2 | h2 <;> omega
  | ens a b iha ihb =>
    simp only [nodesT]
    refine uniq_append _ _ (fun c => Loc cb (cb + 4) a.nchan c ∨ Loc (cb + 2) (cb + 4 + a.nchan) b.nchan c)
      (fun c => c = cb + 1 ∨ c = cb + 3 ∨ c = cin) ?_ ?_ ?_ ?_ ?_
    · intro nd hnd c hc
      rcases List.mem_append.mp hnd with h | h
      · exact Or.inl ((nodesT_loc a cb (cb + 1) (cb + 4) nd h).ins c hc)
      · exact Or.inr ((nodesT_loc b (cb + 2) (cb + 3) (cb + 4 + a.nchan) nd h).ins c hc)
    · intro nd hnd c hc
      simp at hnd
      rcases hnd with h | h <;> subst h <;> simp at hc
      · rcases hc with h | h
        · exact Or.inl h
        · exact Or.inr (Or.inl h)
      · exact Or.inr (Or.inr hc)
    · intro c h1 h2
      rcases h1 with (h1 | h1) | (h1 | h1) <;> rcases h2 with h2 | h2 | h2 <;> omega
    · refine uniq_append _ _ (Loc cb (cb + 4) a.nchan) (Loc (cb + 2) (cb + 4 + a.nchan) b.nchan) ?_ ?_ ?_
        (iha cb (cb + 1) (cb + 4) (by omega)) (ihb (cb + 2) (cb + 3) (cb + 4 + a.nchan) (by omega))
      · intro nd hnd; exact (nodesT_loc a cb (cb + 1) (cb + 4) nd hnd).ins
      · intro nd hnd; exact (nodesT_loc b (cb + 2) (cb + 3) (cb + 4 + a.nchan) nd hnd).ins
      · intro c h1 h2; rcases h1 with h1 | h1 <;> rcases h2 with h2 | h2 <;> omega
    · have : ([{ ins := [cb + 1, cb + 3], plans := [[cout], []], souts := [cout], rebro := false, sink := false, all := true },
          { ins := [cin], plans := [[cout], [cb, cb + 2]], souts := [cb, cb + 2], rebro := false, sink := false }] : List NodeDesc)
          = [{ ins := [cb + 1, cb + 3], plans := [[cout], []], souts := [cout], rebro := false, sink := false, all := true }] ++
            [{ ins := [cin], plans := [[cout], [cb, cb + 2]], souts := [cb, cb + 2], rebro := false, sink := false }] := rfl
      rw [this]
      refine uniq_append _ _ (fun c => c = cb + 1 ∨ c = cb + 3) (fun c => c = cin) ?_ ?_ ?_ (uniq_single _) (uniq_single _)
      · intro nd hnd c hc; simp at hnd; subst hnd; simpa using hc
      · intro nd hnd c hc; simp at hnd; subst hnd; simpa using hc
      · intro c h1 h2; rcases h1 with h1 | h1 <;> omega
  | sw a b iha ihb =>
    simp only [nodesT]
    refine uniq_append _ _ (fun c => Loc cb (cb + 2) a.nchan c ∨ Loc (cb + 1) (cb + 2 + a.nchan) b.nchan c)
      (fun c => c = cin) ?_ ?_ ?_ ?_ (uniq_single _)
    · intro nd hnd c hc
      rcases List.mem_append.mp hnd with h | h
      · exact Or.inl ((nodesT_loc a cb cout (cb + 2) nd h).ins c hc)
      · exact Or.inr ((nodesT_loc b (cb + 1) cout (cb + 2 + a.nchan) nd h).ins c hc)
    · intro nd hnd c hc; simp at hnd; subst hnd; simpa using hc
    · intro c h1 h2
      rcases h1 with (h1 | h1) | (h1 | h1) <;> omega
    · refine uniq_append _ _ (Loc cb (cb + 2) a.nchan) (Loc (cb + 1) (cb + 2 + a.nchan) b.nchan) ?_ ?_ ?_
        (iha cb cout (cb + 2) (by omega)) (ihb (cb + 1) cout (cb + 2 + a.nchan) (by omega))
      · intro nd hnd; exact (nodesT_loc a cb cout (cb + 2) nd hnd).ins
      · intro nd hnd; exact (nodesT_loc b (cb + 1) cout (cb + 2 + a.nchan) nd hnd).ins
      · intro c h1 h2; rcases h1 with h1 | h1 <;> rcases h2 with h2 | h2 <;> omega

/-! ### the stop script -/

theorem scriptT_joins (t : Tree) (cin cb nb : Nat) :
    ∀ n, Instr.join n ∈ scriptT t cin cb nb → nb ≤ n ∧ n < nb + t.nnode := by
  induction t generalizing cin cb nb with
  | simple k p =>
    intro n hn
    simp only [scriptT, List.mem_cons, List.mem_map, List.mem_range] at hn
    rcases hn with h | ⟨i, hi, h⟩
    · cases h
    · cases h; simp [Tree.nnode]; omega
  | seq a b iha ihb =>
    intro n hn
    simp only [scriptT, List.mem_append] at hn
    simp only [Tree.nnode]
    rcases hn with h | h
    · have := iha _ _ _ n h; omega
    · have := ihb _ _ _ n h; omega
  | ens a b iha ihb =>
    intro n hn
    simp only [scriptT, List.mem_append, List.mem_cons, List.not_mem_nil, or_false] at hn
    simp only [Tree.nnode]
    rcases hn with ((h | h) | (h | h)) | h
    · cases h
    · cases h; omega
    · have := iha _ _ _ n h; omega
    · have := ihb _ _ _ n h; omega
    · cases h; omega
  | sw a b iha ihb =>
    intro n hn
    simp only [scriptT, List.mem_append, List.mem_cons, List.not_mem_nil, or_false] at hn
    simp only [Tree.nnode]
    rcases hn with (h | h) | (h | h)
    · cases h
    · cases h; omega
    · have := iha _ _ _ n h; omega
    · have := ihb _ _ _ n h; omega

theorem scriptT_has_join (t : Tree) (cin cb nb : Nat) :
    ∀ j, j < t.nnode → Instr.join (nb + j) ∈ scriptT t cin cb nb := by
  induction t generalizing cin cb nb with
  | simple k p =>
    intro j hj
    simp only [scriptT, List.mem_cons, List.mem_map, List.mem_range]
    right; exact ⟨j, hj, rfl⟩
  | seq a b iha ihb =>
    intro j hj
    simp only [Tree.nnode] at hj
    simp only [scriptT, List.mem_append]
    rcases Nat.lt_or_ge j a.nnode with h | h
    · left; exact iha _ _ _ j h
    · right
      have := ihb cb (cb + 1 + a.nchan) (nb + a.nnode) (j - a.nnode) (by omega)
      have e : nb + a.nnode + (j - a.nnode) = nb + j := by omega
      rwa [e] at this
  | ens a b iha ihb =>
    intro j hj
    simp only [Tree.nnode] at hj
    simp only [scriptT, List.mem_append, List.mem_cons, List.not_mem_nil, or_false]
    rcases Nat.lt_or_ge j a.nnode with h | h
    · left; right; left; exact iha _ _ _ j h
    · rcases Nat.lt_or_ge j (a.nnode + b.nnode) with h' | h'
      · left; right; right
        have := ihb (cb + 2) (cb + 4 + a.nchan) (nb + a.nnode) (j - a.nnode) (by omega)
        have e : nb + a.nnode + (j - a.nnode) = nb + j := by omega
        rwa [e] at this
      · rcases Nat.lt_or_ge j (a.nnode + b.nnode + 1) with h'' | h''
        · right; congr 1; omega
        · left; left; right; congr 1; omega
  | sw a b iha ihb =>
    intro j hj
    simp only [Tree.nnode] at hj
    simp only [scriptT, List.mem_append, List.mem_cons, List.not_mem_nil, or_false]
    rcases Nat.lt_or_ge j a.nnode with h | h
    · right; left; exact iha _ _ _ j h
    · rcases Nat.lt_or_ge j (a.nnode + b.nnode) with h' | h'
      · right; right
        have := ihb (cb + 1) (cb + 2 + a.nchan) (nb + a.nnode) (j - a.nnode) (by omega)
        have e : nb + a.nnode + (j - a.nnode) = nb + j := by omega
        rwa [e] at this
      · left; right; congr 1; omega

/-! ### sentinels are fed before every join -/

def FedL (NS : List NodeDesc) (c : Nat) (pre : List Instr) : Prop :=
  ∃ i ∈ pre, i = Instr.put c ∨ ∃ (m : Nat) (md : NodeDesc), i = Instr.join m ∧ NS[m]? = some md ∧ c ∈ md.souts

theorem FedL.mono {NS : List NodeDesc} {c : Nat} {pre pre' : List Instr} (h : FedL NS c pre)
    (hsub : ∀ i ∈ pre, i ∈ pre') : FedL NS c pre' := by
  obtain ⟨i, hi, h⟩ := h
  exact ⟨i, hsub i hi, h⟩

def FedIn (NS : List NodeDesc) (sc : List Instr) (n : Nat) (nd : NodeDesc) : Prop :=
  ∀ pre rest, sc = pre ++ Instr.join n :: rest →
    (nd.all = false → ∃ c ∈ nd.ins, FedL NS c pre) ∧ (nd.all = true → ∀ c ∈ nd.ins, FedL NS c pre)

theorem split_mid {α : Type} (x : α) (X B Y pre rest : List α) (h : X ++ B ++ Y = pre ++ x :: rest)
    (hX : x ∉ X) (hY : x ∉ Y) : ∃ p r, B = p ++ x :: r ∧ pre = X ++ p ∧ rest = r ++ Y := by
  induction X generalizing pre with
  | nil =>
    simp only [List.nil_append] at h ⊢
    induction B generalizing pre with
    | nil =>
      simp only [List.nil_append] at h
      exact absurd (by rw [h]; simp) hY
    | cons b B ih =>
      cases pre with
      | nil =>
        simp only [List.cons_append, List.nil_append, List.cons.injEq] at h
        exact ⟨[], B, by simp [h.1], rfl, h.2.symm⟩
      | cons a pre' =>
        simp only [List.cons_append, List.cons.injEq] at h
        obtain ⟨p, r, h1, h2, h3⟩ := ih pre' h.2
        exact ⟨b :: p, r, by simp [h1], by simp [h.1, h2], h3⟩
  | cons a X ih =>
    cases pre with
    | nil =>
      simp only [List.cons_append, List.nil_append, List.cons.injEq] at h
      exact absurd (by simp [h.1]) hX
    | cons a' pre' =>
      simp only [List.cons_append, List.cons.injEq] at h
      obtain ⟨p, r, h1, h2, h3⟩ := ih pre' h.2 (fun hx => hX (List.mem_cons_of_mem _ hx))
      exact ⟨p, r, h1, by simp [h.1, h2], h3⟩

theorem FedIn.embed {NS : List NodeDesc} {B : List Instr} {n : Nat} {nd : NodeDesc} (h : FedIn NS B n nd)
    (X Y : List Instr) (hX : Instr.join n ∉ X) (hY : Instr.join n ∉ Y) : FedIn NS (X ++ B ++ Y) n nd := by
  intro pre rest hs
  obtain ⟨p, r, h1, h2, _⟩ := split_mid _ X B Y pre rest hs hX hY
  obtain ⟨f0, f1⟩ := h p r h1
  subst h2
  refine ⟨fun ha => ?_, fun ha c hc => ?_⟩
  · obtain ⟨c, hc, hf⟩ := f0 ha
    exact ⟨c, hc, hf.mono (fun i hi => List.mem_append_right _ hi)⟩
  · exact (f1 ha c hc).mono (fun i hi => List.mem_append_right _ hi)

/-- the nodes of the subtree sit at indices `nb ..` of the whole node list `NS` -/
def Placed (NS L : List NodeDesc) (nb : Nat) : Prop := ∀ (j : Nat) (nd : NodeDesc), L[j]? = some nd → NS[nb + j]? = some nd

theorem Placed.left {NS L1 L2 : List NodeDesc} {nb : Nat} (h : Placed NS (L1 ++ L2) nb) : Placed NS L1 nb := by
  intro j nd hj
  exact h j nd (by rw [List.getElem?_append_left (lt_of_getElem? hj)]; exact hj)

theorem Placed.right {NS L1 L2 : List NodeDesc} {nb : Nat} (h : Placed NS (L1 ++ L2) nb) :
    Placed NS L2 (nb + L1.length) := by
  intro j nd hj
  have := h (L1.length + j) nd (by rw [List.getElem?_append_right (by omega)]; simpa using hj)
  rwa [← Nat.add_assoc] at this

/-- once the whole `stop()` script of the subtree has run, a sentinel has been put on its output channel -/
theorem scriptT_feeds_out (t : Tree) (hpos : t.pos) (NS : List NodeDesc) (cin cout cb nb : Nat)
    (hpl : Placed NS (nodesT t cin cout cb) nb) : FedL NS cout (scriptT t cin cb nb) := by
  induction t generalizing cin cout cb nb with
  | simple k p =>
    simp only [Tree.pos] at hpos
    refine ⟨.join (nb + 0), ?_, Or.inr ⟨nb + 0, workerDesc cin cout, rfl, ?_, by simp [workerDesc]⟩⟩
    · simp only [scriptT, List.mem_cons, List.mem_map, List.mem_range]
      right; exact ⟨0, by omega, rfl⟩
    · apply hpl 0
      simp only [nodesT]
      rw [List.getElem?_replicate]; simp; omega
  | seq a b iha ihb =>
    simp only [nodesT] at hpl
    have hb := ihb hpos.2 cb cout (cb + 1 + a.nchan) (nb + a.nnode) (by simpa using hpl.right)
    exact hb.mono (fun i hi => by simp only [scriptT]; exact List.mem_append_right _ hi)
  | ens a b iha ihb =>
    simp only [nodesT] at hpl
    have hdeq : NS[nb + a.nnode + b.nnode]? = some
        { ins := [cb + 1, cb + 3], plans := [[cout], []], souts := [cout], rebro := false, sink := false, all := true } := by
      have := hpl.right 0 _ (by simp; rfl)
      simpa [Nat.add_assoc] using this
    exact ⟨.join (nb + a.nnode + b.nnode), by simp [scriptT], Or.inr ⟨_, _, rfl, hdeq, by simp⟩⟩
  | sw a b iha ihb =>
    simp only [nodesT] at hpl
    have ha := iha hpos.1 cb cout (cb + 2) nb hpl.left.left
    exact ha.mono (fun i hi => by
      simp only [scriptT]
      exact List.mem_append_right _ (List.mem_append_left _ hi))

theorem fedIn_of_pre_eq {NS : List NodeDesc} {sc X : List Instr} {n : Nat} {nd : NodeDesc} (Y : List Instr)
    (hs : sc = X ++ [Instr.join n] ++ Y) (hX : Instr.join n ∉ X) (hY : Instr.join n ∉ Y)
    (h : (nd.all = false → ∃ c ∈ nd.ins, FedL NS c X) ∧ (nd.all = true → ∀ c ∈ nd.ins, FedL NS c X)) :
    FedIn NS sc n nd := by
  intro pre rest hd
  rw [hs] at hd
  obtain ⟨p, r, h1, h2, _⟩ := split_mid _ X [Instr.join n] Y pre rest hd hX hY
  have : p = [] := by
    cases p with
    | nil => rfl
    | cons a p' =>
      simp only [List.cons_append, List.cons.injEq] at h1
      have := congrArg List.length h1.2
      simp at this
  subst this
  simp only [List.append_nil] at h2
  subst h2
  exact h

theorem nodesT_fed (t : Tree) (hpos : t.pos) (NS : List NodeDesc) (cin cout cb nb : Nat)
    (hpl : Placed NS (nodesT t cin cout cb) nb) :
    ∀ (j : Nat) (nd : NodeDesc), (nodesT t cin cout cb)[j]? = some nd → FedIn NS (scriptT t cin cb nb) (nb + j) nd := by
  induction t generalizing cin cout cb nb with
  | simple k p =>
    intro j nd hj pre rest hs
    have hnd := List.mem_of_getElem? hj
    simp only [nodesT, List.mem_replicate] at hnd
    obtain ⟨_, rfl⟩ := hnd
    have hput : Instr.put cin ∈ pre := by
      simp only [scriptT] at hs
      cases pre with
      | nil => simp at hs
      | cons a pre' =>
        simp only [List.cons_append, List.cons.injEq] at hs
        rw [← hs.1]; simp
    refine ⟨fun _ => ⟨cin, by simp [workerDesc], .put cin, hput, Or.inl rfl⟩, fun ha => ?_⟩
    simp [workerDesc] at ha
  | seq a b iha ihb =>
    intro j nd hj
    simp only [nodesT] at hj hpl
    simp only [scriptT]
    rw [List.getElem?_append] at hj
    split at hj
    · rename_i hlt
      simp only [nodesT_length] at hlt
      have h := iha hpos.1 cin cb (cb + 1) nb hpl.left j nd hj
      have := h.embed [] (scriptT b cb (cb + 1 + a.nchan) (nb + a.nnode)) (by simp)
        (fun hm => by have := scriptT_joins b _ _ _ _ hm; omega)
      simpa using this
    · rename_i hge
      simp only [nodesT_length, Nat.not_lt] at hge
      simp only [nodesT_length] at hj
      have h := ihb hpos.2 cb cout (cb + 1 + a.nchan) (nb + a.nnode) (by simpa using hpl.right) (j - a.nnode) nd hj
      have e : nb + a.nnode + (j - a.nnode) = nb + j := by omega
      rw [e] at h
      have := h.embed (scriptT a cin (cb + 1) nb) []
        (fun hm => by have := scriptT_joins a _ _ _ _ hm; omega) (by simp)
      simpa using this
  | ens a b iha ihb =>
    intro j nd hj
    simp only [nodesT] at hj hpl
    simp only [scriptT]
    have hplA : Placed NS (nodesT a cb (cb + 1) (cb + 4)) nb := hpl.left.left
    have hplB : Placed NS (nodesT b (cb + 2) (cb + 3) (cb + 4 + a.nchan)) (nb + a.nnode) := by
      simpa using hpl.left.right
    rw [List.getElem?_append] at hj
    split at hj
    · rename_i hlt
      simp only [List.length_append, nodesT_length] at hlt
      rw [List.getElem?_append] at hj
      split at hj
      · rename_i hlt2
        simp only [nodesT_length] at hlt2
        have h := iha hpos.1 cb (cb + 1) (cb + 4) nb hplA j nd hj
        have := h.embed [.put cin, .join (nb + a.nnode + b.nnode + 1)]
          (scriptT b (cb + 2) (cb + 4 + a.nchan) (nb + a.nnode) ++ [.join (nb + a.nnode + b.nnode)])
          (by simp; omega)
          (fun hm => by
            rcases List.mem_append.mp hm with hm | hm
            · have := scriptT_joins b _ _ _ _ hm; omega
            · simp at hm; omega)
        simpa [List.append_assoc] using this
      · rename_i hge2
        simp only [nodesT_length, Nat.not_lt] at hge2
        simp only [nodesT_length] at hj
        have h := ihb hpos.2 (cb + 2) (cb + 3) (cb + 4 + a.nchan) (nb + a.nnode) hplB (j - a.nnode) nd hj
        have e : nb + a.nnode + (j - a.nnode) = nb + j := by omega
        rw [e] at h
        have := h.embed ([.put cin, .join (nb + a.nnode + b.nnode + 1)] ++ scriptT a cb (cb + 4) nb)
          [.join (nb + a.nnode + b.nnode)]
          (fun hm => by
            rcases List.mem_append.mp hm with hm | hm
            · simp at hm; omega
            · have := scriptT_joins a _ _ _ _ hm; omega)
          (by simp; omega)
        simpa [List.append_assoc] using this
    · rename_i hge
      simp only [List.length_append, nodesT_length, Nat.not_lt] at hge
      simp only [List.length_append, nodesT_length] at hj
      -- one of the two helper threads
      have hj2 : j - (a.nnode + b.nnode) = 0 ∨ j - (a.nnode + b.nnode) = 1 := by
        have := lt_of_getElem? hj; simp at this; omega
      rcases hj2 with h0 | h1
      · -- `_dequeue`: every member has been stopped before it is joined
        rw [h0] at hj
        simp at hj
        subst hj
        have ej : nb + j = nb + a.nnode + b.nnode := by omega
        rw [ej]
        refine fedIn_of_pre_eq []
          (X := [.put cin, .join (nb + a.nnode + b.nnode + 1)] ++
            (scriptT a cb (cb + 4) nb ++ scriptT b (cb + 2) (cb + 4 + a.nchan) (nb + a.nnode))) (by simp) ?_ (by simp) ?_
        · intro hm
          rcases List.mem_append.mp hm with hm | hm
          · simp at hm
          · rcases List.mem_append.mp hm with hm | hm
            · have := scriptT_joins a _ _ _ _ hm; omega
            · have := scriptT_joins b _ _ _ _ hm; omega
        · refine ⟨by simp, fun _ c hc => ?_⟩
          simp at hc
          rcases hc with h | h
          · subst h
            exact (scriptT_feeds_out a hpos.1 NS cb (cb + 1) (cb + 4) nb hplA).mono (fun i hi => by simp [hi])
          · subst h
            exact (scriptT_feeds_out b hpos.2 NS (cb + 2) (cb + 3) (cb + 4 + a.nchan) (nb + a.nnode) hplB).mono
              (fun i hi => by simp [hi])
      · -- `_enqueue`: joined right after the sentinel was put on the ensemble's input queue
        rw [h1] at hj
        simp at hj
        subst hj
        have ej : nb + j = nb + a.nnode + b.nnode + 1 := by omega
        rw [ej]
        refine fedIn_of_pre_eq
          ((scriptT a cb (cb + 4) nb ++ scriptT b (cb + 2) (cb + 4 + a.nchan) (nb + a.nnode)) ++ [.join (nb + a.nnode + b.nnode)])
          (X := [.put cin]) (by simp) (by simp) ?_ ?_
        · intro hm
          rcases List.mem_append.mp hm with hm | hm
          · rcases List.mem_append.mp hm with hm | hm
            · have := scriptT_joins a _ _ _ _ hm; omega
            · have := scriptT_joins b _ _ _ _ hm; omega
          · simp at hm
        · exact ⟨fun _ => ⟨cin, by simp, .put cin, by simp, Or.inl rfl⟩, by simp⟩
  | sw a b iha ihb =>
    intro j nd hj
    simp only [nodesT] at hj hpl
    simp only [scriptT]
    have hplA : Placed NS (nodesT a cb cout (cb + 2)) nb := hpl.left.left
    have hplB : Placed NS (nodesT b (cb + 1) cout (cb + 2 + a.nchan)) (nb + a.nnode) := by
      simpa using hpl.left.right
    rw [List.getElem?_append] at hj
    split at hj
    · rename_i hlt
      simp only [List.length_append, nodesT_length] at hlt
      rw [List.getElem?_append] at hj
      split at hj
      · rename_i hlt2
        simp only [nodesT_length] at hlt2
        have h := iha hpos.1 cb cout (cb + 2) nb hplA j nd hj
        have := h.embed [.put cin, .join (nb + a.nnode + b.nnode)]
          (scriptT b (cb + 1) (cb + 2 + a.nchan) (nb + a.nnode))
          (by simp; omega)
          (fun hm => by have := scriptT_joins b _ _ _ _ hm; omega)
        simpa [List.append_assoc] using this
      · rename_i hge2
        simp only [nodesT_length, Nat.not_lt] at hge2
        simp only [nodesT_length] at hj
        have h := ihb hpos.2 (cb + 1) cout (cb + 2 + a.nchan) (nb + a.nnode) hplB (j - a.nnode) nd hj
        have e : nb + a.nnode + (j - a.nnode) = nb + j := by omega
        rw [e] at h
        have := h.embed ([.put cin, .join (nb + a.nnode + b.nnode)] ++ scriptT a cb (cb + 2) nb) []
          (fun hm => by
            rcases List.mem_append.mp hm with hm | hm
            · simp at hm; omega
            · have := scriptT_joins a _ _ _ _ hm; omega)
          (by simp)
        simpa [List.append_assoc] using this
    · rename_i hge
      simp only [List.length_append, nodesT_length, Nat.not_lt] at hge
      simp only [List.length_append, nodesT_length] at hj
      have hj2 : j - (a.nnode + b.nnode) = 0 := by
        have := lt_of_getElem? hj; simp at this; omega
      rw [hj2] at hj
      simp at hj
      subst hj
      have ej : nb + j = nb + a.nnode + b.nnode := by omega
      rw [ej]
      refine fedIn_of_pre_eq
        (scriptT a cb (cb + 2) nb ++ scriptT b (cb + 1) (cb + 2 + a.nchan) (nb + a.nnode))
        (X := [.put cin]) (by simp) (by simp) ?_ ?_
      · intro hm
        rcases List.mem_append.mp hm with hm | hm
        · have := scriptT_joins a _ _ _ _ hm; omega
        · have := scriptT_joins b _ _ _ _ hm; omega
      · exact ⟨fun _ => ⟨cin, by simp, .put cin, by simp, Or.inl rfl⟩, by simp⟩

/-! ### the whole server -/

def gatherDesc : NodeDesc := { ins := [1], plans := [[]], souts := [], rebro := false, sink := true }
def onboardDesc (buf : Nat) : NodeDesc := { ins := [buf], plans := [[0]], souts := [0], rebro := false, sink := false }

def chsOf (K : Nat) (t : Tree) : List (Option Nat × Nat) :=
  [(pipe K t.inThread, win t 1), (pipe K t.outThread, 1)] ++ chansT K t 1

theorem chsOf_length (K : Nat) (t : Tree) : (chsOf K t).length = 2 + t.nchan := by
  simp [chsOf]; omega

def netT (K : Nat) (t : Tree) : Net :=
  { nodes := nodesT t 0 1 2 ++ [gatherDesc],
    caps := (chsOf K t).map (fun x : Option Nat × Nat => x.1),
    ws := (chsOf K t).map (fun x : Option Nat × Nat => x.2), entry := 0,
    script := scriptT t 0 2 0 ++ [.join t.nnode] ++ [.clear] }

def netP (K : Nat) (t : Tree) : Net :=
  { nodes := nodesT t 0 1 2 ++ [gatherDesc] ++ [onboardDesc (2 + t.nchan)],
    caps := (chsOf K t ++ [(none, 2 + win t 1)]).map (fun x : Option Nat × Nat => x.1),
    ws := (chsOf K t ++ [(none, 2 + win t 1)]).map (fun x : Option Nat × Nat => x.2),
    entry := 2 + t.nchan,
    script := [.put (2 + t.nchan), .join (t.nnode + 1)] ++ scriptT t 0 2 0 ++ [.join t.nnode, .clear] }

theorem compileServer_thread (K : Nat) (t : Tree) (h : t.inThread = true) : compileServer K t = netT K t := by
  simp [compileServer, h, gatherDesc, chsOf, netT]

theorem compileServer_proc (K : Nat) (t : Tree) (h : t.inThread = false) : compileServer K t = netP K t := by
  simp [compileServer, h, gatherDesc, onboardDesc, chsOf, netP]

/-- weights of the compiled channels, read back through `wOf` -/
theorem wOf_chs (K : Nat) (t : Tree) (extra : List (Option Nat × Nat)) (net : Net)
    (hws : net.ws = (chsOf K t ++ extra).map (fun x : Option Nat × Nat => x.2)) :
    wOf net 0 = win t 1 ∧ wOf net 1 = 1 ∧
    (∀ j x, (chansT K t 1)[j]? = some x → wOf net (2 + j) = x.2) ∧
    (∀ y, extra[0]? = some y → wOf net (2 + t.nchan) = y.2) := by
  refine ⟨by simp [wOf, hws, chsOf], by simp [wOf, hws, chsOf], ?_, ?_⟩
  · intro j x hj
    have hlt := lt_of_getElem? hj
    simp only [chansT_length] at hlt
    have : (chsOf K t ++ extra)[2 + j]? = some x := by
      rw [List.getElem?_append_left (by rw [chsOf_length]; omega)]
      simp only [chsOf]
      rw [List.getElem?_append_right (by simp)]
      simpa using hj
    rw [wOf, hws, List.getElem?_map, this]; rfl
  · intro y hy
    have : (chsOf K t ++ extra)[2 + t.nchan]? = some y := by
      rw [List.getElem?_append_right (by rw [chsOf_length]; omega), chsOf_length, Nat.sub_self]
      exact hy
    rw [wOf, hws, List.getElem?_map, this]; rfl

theorem fed_iff (net : Net) (c : Nat) (pre : List Instr) : Fed net c pre ↔ FedL net.nodes c pre := Iff.rfl

/-- node-local obligations of `WF` for the nodes of the tree -/
theorem tree_node_facts (t : Tree) (nd : NodeDesc) (hnd : nd ∈ nodesT t 0 1 2) :
    nd.plans ≠ [] ∧ (nd.all = true → nd.rebro = false ∧ nd.ins ≠ []) ∧ (∀ c ∈ nd.ins, c < 2 + t.nchan) := by
  have h := nodesT_loc t 0 1 2 nd hnd
  refine ⟨h.plansNe, h.allOk, ?_⟩
  intro c hc
  rcases h.ins c hc with h | h <;> omega

theorem compile_WF_thread (K : Nat) (t : Tree) (hpos : t.pos) (hin : t.inThread = true) : WF (compileServer K t) := by
  rw [compileServer_thread K t hin]
  generalize hnet : netT K t = net
  have hN : net.nodes = nodesT t 0 1 2 ++ [gatherDesc] := by rw [← hnet]; rfl
  have hS : net.script = scriptT t 0 2 0 ++ [.join t.nnode] ++ [.clear] := by rw [← hnet]; rfl
  have hC : net.caps.length = 2 + t.nchan := by rw [← hnet]; simp [netT, chsOf_length]
  obtain ⟨w0, w1, wch, _⟩ := wOf_chs K t [] net (by rw [← hnet]; simp [netT])
  have hplaced : Placed net.nodes (nodesT t 0 1 2) 0 := by
    intro j nd hj
    rw [hN, Nat.zero_add, List.getElem?_append_left (lt_of_getElem? hj)]; exact hj
  -- classify a node index
  have hcase : ∀ (n : Nat) (nd : NodeDesc), net.nodes[n]? = some nd →
      (n < t.nnode ∧ (nodesT t 0 1 2)[n]? = some nd) ∨ (n = t.nnode ∧ nd = gatherDesc) := by
    intro n nd h
    rw [hN, List.getElem?_append] at h
    split at h
    · rename_i hlt; simp only [nodesT_length] at hlt; exact Or.inl ⟨hlt, h⟩
    · rename_i hge
      simp only [nodesT_length, Nat.not_lt] at hge
      simp only [nodesT_length] at h
      have := lt_of_getElem? h
      simp at this
      have e : n - t.nnode = 0 := by omega
      rw [e] at h; simp at h
      exact Or.inr ⟨by omega, h.symm⟩
  refine ⟨?_, ?_, ?_, ?_, ?_, ?_, ?_, ?_, ?_⟩
  · -- weight
    intro n nd h c hc plan hp
    rcases hcase n nd h with ⟨_, h'⟩ | ⟨_, rfl⟩
    · exact nodesT_weight K t (wOf net) 0 1 2 1 w0 w1 wch nd (List.mem_of_getElem? h') c hc plan hp
    · simp [gatherDesc] at hc hp; subst hc; subst hp; simp [planCost, w1]
  · -- joined
    intro n hn
    rw [hN] at hn; simp at hn
    rw [hS]
    rcases Nat.lt_or_ge n t.nnode with h | h
    · have := scriptT_has_join t 0 2 0 n h
      simp only [Nat.zero_add] at this
      simp [this]
    · have : n = t.nnode := by omega
      subst this; simp
  · -- fed
    intro n nd h pre rest hs
    rw [hS] at hs
    rcases hcase n nd h with ⟨hlt, h'⟩ | ⟨rfl, rfl⟩
    · have hf := nodesT_fed t hpos net.nodes 0 1 2 0 hplaced n nd h'
      simp only [Nat.zero_add] at hf
      have := hf.embed [] ([.join t.nnode] ++ [.clear]) (by simp) (by simp; omega)
      have := this pre rest (by simpa [List.append_assoc] using hs)
      exact this
    · have hf : FedIn net.nodes (scriptT t 0 2 0 ++ [.join t.nnode] ++ [.clear]) t.nnode gatherDesc := by
        refine fedIn_of_pre_eq [.clear] (X := scriptT t 0 2 0) rfl ?_ (by simp) ?_
        · intro hm; have := scriptT_joins t _ _ _ _ hm; omega
        · refine ⟨fun _ => ⟨1, by simp [gatherDesc], scriptT_feeds_out t hpos net.nodes 0 1 2 0 hplaced⟩, ?_⟩
          simp [gatherDesc]
      exact hf pre rest hs
  · -- allOk
    intro n nd h ha
    rcases hcase n nd h with ⟨_, h'⟩ | ⟨_, rfl⟩
    · exact (tree_node_facts t nd (List.mem_of_getElem? h')).2.1 ha
    · simp [gatherDesc] at ha
  · -- plansNe
    intro n nd h
    rcases hcase n nd h with ⟨_, h'⟩ | ⟨_, rfl⟩
    · exact (tree_node_facts t nd (List.mem_of_getElem? h')).1
    · simp [gatherDesc]
  · -- uniq
    have hu : Uniq net.nodes := by
      rw [hN]
      refine uniq_append _ _ (Loc 0 2 t.nchan) (fun c => c = 1) ?_ ?_ ?_ (nodesT_uniq t 0 1 2 (by omega)) (uniq_single _)
      · intro nd hnd; exact (nodesT_loc t 0 1 2 nd hnd).ins
      · intro nd hnd c hc; simp at hnd; subst hnd; simpa [gatherDesc] using hc
      · intro c h1 h2; rcases h1 with h1 | h1 <;> omega
    intro n nd h hr c hc m md hm hcm
    exact hu n nd h hr c hc m md hm hcm
  · -- insRange
    intro n nd h c hc
    rw [hC]
    rcases hcase n nd h with ⟨_, h'⟩ | ⟨_, rfl⟩
    · exact (tree_node_facts t nd (List.mem_of_getElem? h')).2.2 c hc
    · simp [gatherDesc] at hc; omega
  · rw [hS]; simp
  · -- joinRange
    intro n hn
    rw [hS] at hn
    rw [hN]; simp
    simp only [List.mem_append, List.mem_cons, List.not_mem_nil, or_false] at hn
    rcases hn with (h | h) | h
    · have := scriptT_joins t _ _ _ _ h; omega
    · cases h; omega
    · cases h

theorem compile_WF_proc (K : Nat) (t : Tree) (hpos : t.pos) (hin : t.inThread = false) : WF (compileServer K t) := by
  rw [compileServer_proc K t hin]
  generalize hnet : netP K t = net
  have hN : net.nodes = nodesT t 0 1 2 ++ [gatherDesc] ++ [onboardDesc (2 + t.nchan)] := by rw [← hnet]; rfl
  have hS : net.script = [.put (2 + t.nchan), .join (t.nnode + 1)] ++ scriptT t 0 2 0 ++ [.join t.nnode, .clear] := by
    rw [← hnet]; rfl
  have hC : net.caps.length = 3 + t.nchan := by rw [← hnet]; simp [netP, chsOf_length]; omega
  obtain ⟨w0, w1, wch, wbuf⟩ := wOf_chs K t [(none, 2 + win t 1)] net (by rw [← hnet]; simp [netP])
  have wb : wOf net (2 + t.nchan) = 2 + win t 1 := wbuf _ rfl
  have hplaced : Placed net.nodes (nodesT t 0 1 2) 0 := by
    intro j nd hj
    rw [hN, Nat.zero_add, List.append_assoc, List.getElem?_append_left (lt_of_getElem? hj)]; exact hj
  have hcase : ∀ (n : Nat) (nd : NodeDesc), net.nodes[n]? = some nd →
      (n < t.nnode ∧ (nodesT t 0 1 2)[n]? = some nd) ∨ (n = t.nnode ∧ nd = gatherDesc) ∨
      (n = t.nnode + 1 ∧ nd = onboardDesc (2 + t.nchan)) := by
    intro n nd h
    rw [hN, List.append_assoc, List.getElem?_append] at h
    split at h
    · rename_i hlt; simp only [nodesT_length] at hlt; exact Or.inl ⟨hlt, h⟩
    · rename_i hge
      simp only [nodesT_length, Nat.not_lt] at hge
      simp only [nodesT_length] at h
      have := lt_of_getElem? h
      simp at this
      rcases Nat.lt_or_ge (n - t.nnode) 1 with h0 | h1
      · have e : n - t.nnode = 0 := by omega
        rw [e] at h; simp at h
        exact Or.inr (Or.inl ⟨by omega, h.symm⟩)
      · have e : n - t.nnode = 1 := by omega
        rw [e] at h; simp at h
        exact Or.inr (Or.inr ⟨by omega, h.symm⟩)
  refine ⟨?_, ?_, ?_, ?_, ?_, ?_, ?_, ?_, ?_⟩
  · intro n nd h c hc plan hp
    rcases hcase n nd h with ⟨_, h'⟩ | ⟨_, rfl⟩ | ⟨_, rfl⟩
    · exact nodesT_weight K t (wOf net) 0 1 2 1 w0 w1 wch nd (List.mem_of_getElem? h') c hc plan hp
    · simp [gatherDesc] at hc hp; subst hc; subst hp; simp [planCost, w1]
    · simp [onboardDesc] at hc hp; subst hc; subst hp; simp [planCost, w0, wb]; omega
  · intro n hn
    rw [hN] at hn; simp at hn
    rw [hS]
    rcases Nat.lt_or_ge n t.nnode with h | h
    · have := scriptT_has_join t 0 2 0 n h
      simp only [Nat.zero_add] at this
      simp [this]
    · rcases Nat.lt_or_ge n (t.nnode + 1) with h' | h'
      · have : n = t.nnode := by omega
        subst this; simp
      · have : n = t.nnode + 1 := by omega
        subst this; simp
  · intro n nd h pre rest hs
    rw [hS] at hs
    rcases hcase n nd h with ⟨hlt, h'⟩ | ⟨rfl, rfl⟩ | ⟨rfl, rfl⟩
    · have hf := nodesT_fed t hpos net.nodes 0 1 2 0 hplaced n nd h'
      simp only [Nat.zero_add] at hf
      have := hf.embed [.put (2 + t.nchan), .join (t.nnode + 1)] [.join t.nnode, .clear] (by simp; omega) (by simp; omega)
      exact this pre rest hs
    · have hf : FedIn net.nodes ([.put (2 + t.nchan), .join (t.nnode + 1)] ++ scriptT t 0 2 0 ++ [.join t.nnode, .clear])
          t.nnode gatherDesc := by
        refine fedIn_of_pre_eq [.clear] (X := [.put (2 + t.nchan), .join (t.nnode + 1)] ++ scriptT t 0 2 0)
          (by simp) ?_ (by simp) ?_
        · intro hm
          rcases List.mem_append.mp hm with hm | hm
          · simp at hm
          · have := scriptT_joins t _ _ _ _ hm; omega
        · refine ⟨fun _ => ⟨1, by simp [gatherDesc], ?_⟩, by simp [gatherDesc]⟩
          exact (scriptT_feeds_out t hpos net.nodes 0 1 2 0 hplaced).mono (fun i hi => by simp [hi])
      exact hf pre rest hs
    · have hf : FedIn net.nodes ([.put (2 + t.nchan), .join (t.nnode + 1)] ++ scriptT t 0 2 0 ++ [.join t.nnode, .clear])
          (t.nnode + 1) (onboardDesc (2 + t.nchan)) := by
        refine fedIn_of_pre_eq (scriptT t 0 2 0 ++ [.join t.nnode, .clear]) (X := [.put (2 + t.nchan)])
          (by simp) (by simp) ?_ ?_
        · intro hm
          rcases List.mem_append.mp hm with hm | hm
          · have := scriptT_joins t _ _ _ _ hm; omega
          · simp at hm
        · exact ⟨fun _ => ⟨2 + t.nchan, by simp [onboardDesc], .put (2 + t.nchan), by simp, Or.inl rfl⟩,
            by simp [onboardDesc]⟩
      exact hf pre rest hs
  · intro n nd h ha
    rcases hcase n nd h with ⟨_, h'⟩ | ⟨_, rfl⟩ | ⟨_, rfl⟩
    · exact (tree_node_facts t nd (List.mem_of_getElem? h')).2.1 ha
    · simp [gatherDesc] at ha
    · simp [onboardDesc] at ha
  · intro n nd h
    rcases hcase n nd h with ⟨_, h'⟩ | ⟨_, rfl⟩ | ⟨_, rfl⟩
    · exact (tree_node_facts t nd (List.mem_of_getElem? h')).1
    · simp [gatherDesc]
    · simp [onboardDesc]
  · have hu : Uniq net.nodes := by
      rw [hN]
      refine uniq_append _ _ (fun c => Loc 0 2 t.nchan c ∨ c = 1) (fun c => c = 2 + t.nchan) ?_ ?_ ?_ ?_ (uniq_single _)
      · intro nd hnd c hc
        rcases List.mem_append.mp hnd with h | h
        · exact Or.inl ((nodesT_loc t 0 1 2 nd h).ins c hc)
        · simp at h; subst h; right; simpa [gatherDesc] using hc
      · intro nd hnd c hc; simp at hnd; subst hnd; simpa [onboardDesc] using hc
      · intro c h1 h2; rcases h1 with (h1 | h1) | h1 <;> omega
      · refine uniq_append _ _ (Loc 0 2 t.nchan) (fun c => c = 1) ?_ ?_ ?_ (nodesT_uniq t 0 1 2 (by omega)) (uniq_single _)
        · intro nd hnd; exact (nodesT_loc t 0 1 2 nd hnd).ins
        · intro nd hnd c hc; simp at hnd; subst hnd; simpa [gatherDesc] using hc
        · intro c h1 h2; rcases h1 with h1 | h1 <;> omega
    intro n nd h hr c hc m md hm hcm
    exact hu n nd h hr c hc m md hm hcm
  · intro n nd h c hc
    rw [hC]
    rcases hcase n nd h with ⟨_, h'⟩ | ⟨_, rfl⟩ | ⟨_, rfl⟩
    · have := (tree_node_facts t nd (List.mem_of_getElem? h')).2.2 c hc; omega
    · simp [gatherDesc] at hc; omega
    · simp [onboardDesc] at hc; omega
  · rw [hS]; simp
  · intro n hn
    rw [hS] at hn
    rw [hN]; simp
    simp only [List.mem_append, List.mem_cons, List.not_mem_nil, or_false] at hn
    rcases hn with ((h | h) | h) | (h | h)
    · cases h
    · cases h; omega
    · have := scriptT_joins t _ _ _ _ h; omega
    · cases h; omega
    · cases h

/-- the network compiled from ANY servlet tree whose servlets have at least one worker is well-formed -/
theorem compile_WF (K : Nat) (t : Tree) (hpos : t.pos) : WF (compileServer K t) := by
  cases h : t.inThread with
  | true => exact compile_WF_thread K t hpos h
  | false => exact compile_WF_proc K t hpos h

/-! ### trees of thread servlets have no pipe-backed queue -/

def Tree.threadOnly : Tree → Prop
  | .simple _ p => p = false
  | .seq a b => a.threadOnly ∧ b.threadOnly
  | .ens a b => a.threadOnly ∧ b.threadOnly
  | .sw a b => a.threadOnly ∧ b.threadOnly

theorem threadOnly_io (t : Tree) (h : t.threadOnly) : t.inThread = true ∧ t.outThread = true := by
  induction t with
  | simple k p => simp only [Tree.threadOnly] at h; simp [Tree.inThread, Tree.outThread, h]
  | seq a b iha ihb => exact ⟨(iha h.1).1, (ihb h.2).2⟩
  | ens a b _ _ => exact ⟨rfl, rfl⟩
  | sw a b iha ihb => exact ⟨rfl, by simp [Tree.outThread, (iha h.1).2, (ihb h.2).2]⟩

theorem chansT_unbounded (K : Nat) (t : Tree) (w : Nat) (h : t.threadOnly) :
    ∀ x ∈ chansT K t w, x.1 = none := by
  induction t generalizing w with
  | simple k p => intro x hx; simp [chansT] at hx
  | seq a b iha ihb =>
    intro x hx
    simp only [chansT, List.mem_cons, List.mem_append] at hx
    rcases hx with hx | hx | hx
    · subst hx; simp [pipe, (threadOnly_io a h.1).2, (threadOnly_io b h.2).1]
    · exact iha _ h.1 x hx
    · exact ihb _ h.2 x hx
  | ens a b iha ihb =>
    intro x hx
    simp only [chansT, List.mem_cons, List.mem_append, List.not_mem_nil, or_false] at hx
    rcases hx with (hx | hx | hx | hx) | hx | hx
    · subst hx; simp [pipe, (threadOnly_io a h.1).1]
    · subst hx; simp [pipe, (threadOnly_io a h.1).2]
    · subst hx; simp [pipe, (threadOnly_io b h.2).1]
    · subst hx; simp [pipe, (threadOnly_io b h.2).2]
    · exact iha _ h.1 x hx
    · exact ihb _ h.2 x hx
  | sw a b iha ihb =>
    intro x hx
    simp only [chansT, List.mem_cons, List.mem_append, List.not_mem_nil, or_false] at hx
    rcases hx with (hx | hx) | hx | hx
    · subst hx; simp [pipe, (threadOnly_io a h.1).1]
    · subst hx; simp [pipe, (threadOnly_io b h.2).1]
    · exact iha _ h.1 x hx
    · exact ihb _ h.2 x hx

theorem compile_unbounded (K : Nat) (t : Tree) (h : t.threadOnly) : Unbounded (compileServer K t) := by
  apply unbounded_of_all
  rw [compileServer_thread K t (threadOnly_io t h).1]
  simp only [netT, chsOf, List.all_eq_true, List.mem_map]
  rintro c ⟨x, hx, rfl⟩
  simp only [List.mem_append, List.mem_cons, List.not_mem_nil, or_false] at hx
  rcases hx with (hx | hx) | hx
  · subst hx; simp [pipe, (threadOnly_io t h).1]
  · subst hx; simp [pipe, (threadOnly_io t h).2]
  · simp [chansT_unbounded K t 1 h x hx]

end Lifecycle
