import MpsVerif.Proofs.LifecycleStep
/-! Invariants of the stop protocol on a well-formed network. -/
namespace Lifecycle

/-- a sentinel is certain to be on its way to `c` once the instructions `pre` have been executed -/
def Fed (net : Net) (c : Nat) (pre : List Instr) : Prop :=
  ∃ i ∈ pre, i = Instr.put c ∨ ∃ (m : Nat) (md : NodeDesc), i = Instr.join m ∧ net.nodes[m]? = some md ∧ c ∈ md.souts

structure WF (net : Net) : Prop where
  weight : ∀ (n : Nat) (nd : NodeDesc), net.nodes[n]? = some nd → ∀ c ∈ nd.ins, ∀ plan ∈ nd.plans, 1 + planCost net plan ≤ wOf net c
  joined : ∀ n, n < net.nodes.length → Instr.join n ∈ net.script
  fed : ∀ (n : Nat) (nd : NodeDesc), net.nodes[n]? = some nd → ∀ pre rest, net.script = pre ++ Instr.join n :: rest →
          (nd.all = false → ∃ c ∈ nd.ins, Fed net c pre) ∧ (nd.all = true → ∀ c ∈ nd.ins, Fed net c pre)
  allOk : ∀ (n : Nat) (nd : NodeDesc), net.nodes[n]? = some nd → nd.all = true → nd.rebro = false ∧ nd.ins ≠ []
  plansNe : ∀ (n : Nat) (nd : NodeDesc), net.nodes[n]? = some nd → nd.plans ≠ []
  uniq : ∀ (n : Nat) (nd : NodeDesc), net.nodes[n]? = some nd → nd.rebro = false → ∀ c ∈ nd.ins, ∀ (m : Nat) (md : NodeDesc),
          net.nodes[m]? = some md → c ∈ md.ins → m = n
  insRange : ∀ (n : Nat) (nd : NodeDesc), net.nodes[n]? = some nd → ∀ c ∈ nd.ins, c < net.caps.length
  clear : Instr.clear ∈ net.script
  joinRange : ∀ n, Instr.join n ∈ net.script → n < net.nodes.length

structure Inv (net : Net) (s : State) : Prop where
  pre : ∃ pre, net.script = pre ++ s.pc ∧ (∀ n, Instr.join n ∈ pre → s.nodes n = .s []) ∧
        (∀ c, Instr.put c ∈ pre → s.sput c = true) ∧ (Instr.clear ∈ pre → s.ledger = 0) ∧
        (s.stopping = false → pre = [])
  fwd : ∀ (n : Nat) (nd : NodeDesc) (pend : List Nat), net.nodes[n]? = some nd → s.nodes n = .s pend → ∀ c ∈ nd.souts, c ∈ pend ∨ s.sput c = true
  keep : ∀ c, s.sput c = true → Msg.stop ∈ s.chans c ∨
        (∃ (n : Nat) (nd : NodeDesc) (pend : List Nat), net.nodes[n]? = some nd ∧ c ∈ nd.ins ∧ s.nodes n = .s pend ∧ (nd.rebro = true → c ∈ pend)) ∨
        (∃ (n : Nat) (nd : NodeDesc), net.nodes[n]? = some nd ∧ c ∈ nd.ins ∧ nd.all = true ∧ c ∉ s.wait n)
  waitOk : ∀ (n : Nat) (nd : NodeDesc), net.nodes[n]? = some nd → nd.all = true →
        (∀ pend, s.nodes n = .d pend → s.wait n ≠ []) ∧ (∀ c ∈ s.wait n, c ∈ nd.ins)

theorem inv_init (net : Net) (wf : WF net) : Inv net (init net) := by
  refine ⟨⟨[], by simp [init], by simp, by simp, by simp, by simp⟩, ?_, ?_, ?_⟩
  · intro n nd pend _ h; simp [init] at h
  · intro c h; simp [init] at h
  · intro n nd hnd ha
    have := wf.allOk n nd hnd ha
    simp only [init, hnd, ha, if_true]
    exact ⟨fun _ _ => this.2, fun c hc => hc⟩

/-- the third disjunct of `keep` survives any step that only shrinks `wait` -/
theorem keep3_mono (net : Net) (w w' : Nat → List Nat) (c : Nat) (hsub : ∀ n x, x ∈ w' n → x ∈ w n)
    (h : ∃ (n : Nat) (nd : NodeDesc), net.nodes[n]? = some nd ∧ c ∈ nd.ins ∧ nd.all = true ∧ c ∉ w n) :
    ∃ (n : Nat) (nd : NodeDesc), net.nodes[n]? = some nd ∧ c ∈ nd.ins ∧ nd.all = true ∧ c ∉ w' n := by
  obtain ⟨n, nd, h1, h2, h3, h4⟩ := h
  exact ⟨n, nd, h1, h2, h3, fun hx => h4 (hsub n c hx)⟩

theorem inv_step (net : Net) (s : State) (a : Act) (s' : State) (hi : Inv net s) (hs : Step net s a s') :
    Inv net s' := by
  obtain ⟨⟨pre, hpre, hj, hp, hcl, hst⟩, hfwd, hkeep, hwait⟩ := hi
  cases hs with
  | inject h0 =>
    refine ⟨⟨pre, hpre, hj, hp, ?_, hst⟩, hfwd, ?_, hwait⟩
    · intro hc; have := hst h0; subst this; simp at hc
    · intro c hc
      rcases hkeep c hc with h | h | h
      · left; simp only [upd]; split
        · rename_i e; subst e; simp [h]
        · exact h
      · right; left; exact h
      · right; right; exact h
  | @getData n c k nd rest plan hnd hn hc hq hpl =>
    refine ⟨⟨pre, hpre, ?_, hp, ?_, hst⟩, ?_, ?_, ?_⟩
    · intro m hm
      have := hj m hm
      by_cases e : m = n
      · subst e; rw [hn] at this; cases this
      · simp [upd_ne _ _ _ _ e, this]
    · intro hc'; have := hcl hc'; simp only [this]; split <;> rfl
    · intro m md pend hmd hm c' hc'
      by_cases e : m = n
      · subst e; simp at hm
      · simp only [upd_ne _ _ _ _ e] at hm; exact hfwd m md pend hmd hm c' hc'
    · intro c' hc'
      rcases hkeep c' hc' with h | ⟨m, md, pend, hmd, hcm, hm, hr⟩ | h
      · left; simp only [upd]; split
        · rename_i e; subst e; rw [hq] at h; simpa using h
        · exact h
      · right; left
        have e : m ≠ n := by intro e; subst e; rw [hn] at hm; cases hm
        exact ⟨m, md, pend, hmd, hcm, by simp [upd_ne _ _ _ _ e, hm], hr⟩
      · right; right; exact h
    · intro m md hmd ha
      refine ⟨?_, (hwait m md hmd ha).2⟩
      intro pend hm
      by_cases e : m = n
      · subst e; exact (hwait m md hmd ha).1 [] hn
      · simp only [upd_ne _ _ _ _ e] at hm; exact (hwait m md hmd ha).1 pend hm
  | @getStop n c nd rest hnd hn hc hq hw =>
    refine ⟨⟨pre, hpre, ?_, hp, hcl, hst⟩, ?_, ?_, ?_⟩
    · intro m hm
      have := hj m hm
      by_cases e : m = n
      · subst e; rw [hn] at this; cases this
      · simp [upd_ne _ _ _ _ e, this]
    · intro m md pend hmd hm c' hc'
      by_cases e : m = n
      · subst e; simp at hm; subst hm
        rw [hnd] at hmd; cases hmd
        left; simp [hc']
      · simp only [upd_ne _ _ _ _ e] at hm; exact hfwd m md pend hmd hm c' hc'
    · intro c' hc'
      by_cases ec : c' = c
      · subst ec
        right; left
        refine ⟨n, nd, (if nd.rebro then [c'] else []) ++ nd.souts, hnd, hc, by simp, ?_⟩
        intro hr; simp [hr]
      · rcases hkeep c' hc' with h | ⟨m, md, pend, hmd, hcm, hm, hr⟩ | h
        · left; simp [upd_ne _ _ _ _ ec, h]
        · right; left
          have e : m ≠ n := by intro e; subst e; rw [hn] at hm; cases hm
          exact ⟨m, md, pend, hmd, hcm, by simp [upd_ne _ _ _ _ e, hm], hr⟩
        · right; right
          refine keep3_mono net s.wait _ c' ?_ h
          intro m x hx
          simp only [upd] at hx; split at hx
          · simp at hx
          · exact hx
    · intro m md hmd ha
      by_cases e : m = n
      · subst e
        refine ⟨?_, by simp⟩
        intro pend hm; simp at hm
      · simp only [upd_ne _ _ _ _ e]
        exact hwait m md hmd ha
  | @getStopWait n c nd rest hnd hn hc hq hw =>
    have hall : nd.all = true := by
      cases ha : nd.all with
      | true => rfl
      | false => simp [waitAfter, ha] at hw
    have hwa : waitAfter nd (s.wait n) c = (s.wait n).filter (· ≠ c) := by simp [waitAfter, hall]
    refine ⟨⟨pre, hpre, hj, hp, hcl, hst⟩, hfwd, ?_, ?_⟩
    · intro c' hc'
      by_cases ec : c' = c
      · subst ec
        right; right
        refine ⟨n, nd, hnd, hc, hall, ?_⟩
        simp [hwa]
      · rcases hkeep c' hc' with h | h | h
        · left; simp [upd_ne _ _ _ _ ec, h]
        · right; left; exact h
        · right; right
          refine keep3_mono net s.wait _ c' ?_ h
          intro m x hx
          simp only [upd] at hx; split at hx
          · rename_i e; subst e; rw [hwa] at hx; exact (List.mem_filter.mp hx).1
          · exact hx
    · intro m md hmd ha
      by_cases e : m = n
      · subst e
        rw [hnd] at hmd; cases hmd
        simp only [upd_same]
        refine ⟨fun _ _ => hw, ?_⟩
        intro x hx
        rw [hwa] at hx
        exact (hwait m nd hnd ha).2 x (List.mem_filter.mp hx).1
      · simp only [upd_ne _ _ _ _ e]
        exact hwait m md hmd ha
  | @putData n c rest hlt hn hroom =>
    refine ⟨⟨pre, hpre, ?_, hp, hcl, hst⟩, ?_, ?_, ?_⟩
    · intro m hm
      have := hj m hm
      by_cases e : m = n
      · subst e; rw [hn] at this; cases this
      · simp [upd_ne _ _ _ _ e, this]
    · intro m md pend hmd hm c' hc'
      by_cases e : m = n
      · subst e; simp at hm
      · simp only [upd_ne _ _ _ _ e] at hm; exact hfwd m md pend hmd hm c' hc'
    · intro c' hc'
      rcases hkeep c' hc' with h | ⟨m, md, pend, hmd, hcm, hm, hr⟩ | h
      · left; simp only [upd]; split
        · rename_i e; subst e; simp [h]
        · exact h
      · right; left
        have e : m ≠ n := by intro e; subst e; rw [hn] at hm; cases hm
        exact ⟨m, md, pend, hmd, hcm, by simp [upd_ne _ _ _ _ e, hm], hr⟩
      · right; right; exact h
    · intro m md hmd ha
      refine ⟨?_, (hwait m md hmd ha).2⟩
      intro pend hm
      by_cases e : m = n
      · subst e; exact (hwait m md hmd ha).1 _ hn
      · simp only [upd_ne _ _ _ _ e] at hm; exact (hwait m md hmd ha).1 pend hm
  | @putStop n c rest hlt hn =>
    refine ⟨⟨pre, hpre, ?_, ?_, hcl, hst⟩, ?_, ?_, ?_⟩
    · intro m hm
      have := hj m hm
      by_cases e : m = n
      · subst e; rw [hn] at this; cases this
      · simp [upd_ne _ _ _ _ e, this]
    · intro c' hc'; simp only [upd]; split
      · rfl
      · exact hp c' hc'
    · intro m md pend hmd hm c' hc'
      by_cases e : m = n
      · subst e; simp at hm; subst hm
        rcases hfwd m md _ hmd hn c' hc' with h | h
        · rcases List.mem_cons.mp h with h | h
          · subst h; right; simp
          · left; exact h
        · right; simp only [upd]; split
          · rfl
          · exact h
      · simp only [upd_ne _ _ _ _ e] at hm
        rcases hfwd m md pend hmd hm c' hc' with h | h
        · left; exact h
        · right; simp only [upd]; split
          · rfl
          · exact h
    · intro c' hc'
      by_cases ec : c' = c
      · subst ec; left; simp
      · simp only [upd_ne _ _ _ _ ec] at hc' ⊢
        rcases hkeep c' hc' with h | ⟨m, md, pend, hmd, hcm, hm, hr⟩ | h
        · left; exact h
        · right; left
          by_cases e : m = n
          · subst e; rw [hn] at hm; cases hm
            refine ⟨m, md, rest, hmd, hcm, by simp, ?_⟩
            intro hr'
            rcases List.mem_cons.mp (hr hr') with h | h
            · exact absurd h ec
            · exact h
          · exact ⟨m, md, pend, hmd, hcm, by simp [upd_ne _ _ _ _ e, hm], hr⟩
        · right; right; exact h
    · intro m md hmd ha
      refine ⟨?_, (hwait m md hmd ha).2⟩
      intro pend hm
      by_cases e : m = n
      · subst e; simp at hm
      · simp only [upd_ne _ _ _ _ e] at hm; exact (hwait m md hmd ha).1 pend hm
  | @mainPut c rest hpc =>
    refine ⟨⟨pre ++ [.put c], by simp [hpre, hpc], ?_, ?_, ?_, by simp⟩, ?_, ?_, hwait⟩
    · intro m hm; simp at hm; exact hj m hm
    · intro c' hc'; simp at hc'
      simp only [upd]; split
      · rfl
      · rename_i e; rcases hc' with h | h
        · exact hp c' h
        · exact absurd h e
    · intro h; simp at h; exact hcl h
    · intro m md pend hmd hm c' hc'
      rcases hfwd m md pend hmd hm c' hc' with h | h
      · left; exact h
      · right; simp only [upd]; split
        · rfl
        · exact h
    · intro c' hc'
      by_cases ec : c' = c
      · subst ec; left; simp
      · simp only [upd_ne _ _ _ _ ec] at hc' ⊢
        exact hkeep c' hc'
  | @mainJoin n rest hpc hn =>
    refine ⟨⟨pre ++ [.join n], by simp [hpre, hpc], ?_, ?_, ?_, by simp⟩, hfwd, hkeep, hwait⟩
    · intro m hm; simp at hm
      rcases hm with h | h
      · exact hj m h
      · subst h; exact hn
    · intro c' hc'; simp at hc'; exact hp c' hc'
    · intro h; simp at h; exact hcl h
  | @mainClear rest hpc =>
    refine ⟨⟨pre ++ [.clear], by simp [hpre, hpc], ?_, ?_, by simp, by simp⟩, hfwd, hkeep, hwait⟩
    · intro m hm; simp at hm; exact hj m hm
    · intro c' hc'; simp at hc'; exact hp c' hc'

theorem inv_reachable (net : Net) (wf : WF net) {s : State} (hr : Reachable net s) : Inv net s :=
  reachable_inv net (inv_init net wf) (inv_step net) hr

end Lifecycle
