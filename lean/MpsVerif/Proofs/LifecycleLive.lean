import MpsVerif.Proofs.LifecycleInv
/-! Progress of the stop protocol and the shape of its final state. -/
namespace Lifecycle

/-- every channel is a thread queue (`put` never blocks) -/
def Unbounded (net : Net) : Prop := ∀ c, capOf net c = none

theorem unbounded_of_all (net : Net) (h : net.caps.all (fun c => c.isNone) = true) : Unbounded net := by
  intro c
  simp only [capOf]
  cases hc : net.caps[c]? with
  | none => rfl
  | some o =>
    have := List.all_eq_true.mp h o (List.mem_of_getElem? hc)
    cases o with
    | none => rfl
    | some k => simp at this

theorem lt_of_getElem? {α : Type} {l : List α} {n : Nat} {x : α} (h : l[n]? = some x) : n < l.length := by
  rcases Nat.lt_or_ge n l.length with h1 | h1
  · exact h1
  · rw [List.getElem?_eq_none h1] at h; cases h

theorem final_all_exited (net : Net) (wf : WF net) (s : State) (hi : Inv net s) (hf : Final s) :
    (∀ n, n < net.nodes.length → s.nodes n = .s []) ∧ s.ledger = 0 := by
  obtain ⟨⟨pre, hpre, hj, _, hcl, _⟩, _, _, _⟩ := hi
  unfold Final at hf
  rw [hf, List.append_nil] at hpre
  subst hpre
  exact ⟨fun n hn => hj n (wf.joined n hn), hcl wf.clear⟩

/-- a sentinel has been put on one of the inputs of the node the main thread is joining -/
theorem sput_of_fed (net : Net) (s : State) (hi : Inv net s) (c : Nat) (pre : List Instr)
    (hj : ∀ n, Instr.join n ∈ pre → s.nodes n = .s []) (hp : ∀ c, Instr.put c ∈ pre → s.sput c = true)
    (hfed : Fed net c pre) : s.sput c = true := by
  obtain ⟨i, hip, h | ⟨m, md, h, hmd, hc⟩⟩ := hfed
  · subst h; exact hp c hip
  · subst h
    have := hj m hip
    rcases hi.fwd m md [] hmd this c hc with h | h
    · simp at h
    · exact h

/-- progress, given that a node holding a data message never blocks everybody (`hput`) -/
theorem progress_core (net : Net) (wf : WF net) (s : State) (hi : Inv net s)
    (hput : ∀ x c rest, x < net.nodes.length → s.nodes x = .d (c :: rest) → ∃ a, (step net s a).isSome = true)
    (hnf : ¬ Final s) : ∃ a, (step net s a).isSome = true := by
  obtain ⟨pre, hpre, hj, hp, hcl, hst⟩ := hi.pre
  unfold Final at hnf
  cases hpc : s.pc with
  | nil => exact absurd hpc hnf
  | cons i rest =>
    cases i with
    | put c => exact ⟨.main, by simp [step, hpc]⟩
    | clear => exact ⟨.main, by simp [step, hpc]⟩
    | join n =>
      have hscript : net.script = pre ++ Instr.join n :: rest := by rw [hpre, hpc]
      have hmem : Instr.join n ∈ net.script := by rw [hscript]; simp
      have hlt := wf.joinRange n hmem
      have hnd : net.nodes[n]? = some net.nodes[n] := List.getElem?_eq_getElem hlt
      generalize net.nodes[n] = nd at hnd
      cases hs : s.nodes n with
      | s pend =>
        cases pend with
        | nil => exact ⟨.main, by simp [step, hpc, hs]⟩
        | cons c r => exact ⟨.put n, by simp [step, hlt, hs]⟩
      | d pend =>
        cases pend with
        | cons c r => exact hput n c r hlt hs
        | nil =>
          -- a channel of `n` on which a sentinel has certainly been put and which `n` has not taken it from
          have hex : ∃ c, c ∈ nd.ins ∧ Fed net c pre ∧ (nd.all = true → c ∈ s.wait n) := by
            obtain ⟨hf0, hf1⟩ := wf.fed n nd hnd pre rest hscript
            cases ha : nd.all with
            | false =>
              obtain ⟨c, hc, hfed⟩ := hf0 ha
              exact ⟨c, hc, hfed, by simp⟩
            | true =>
              obtain ⟨hne, hsub⟩ := hi.waitOk n nd hnd ha
              have hne' := hne [] hs
              cases hw : s.wait n with
              | nil => exact absurd hw hne'
              | cons c r =>
                have hc : c ∈ nd.ins := hsub c (by rw [hw]; simp)
                exact ⟨c, hc, hf1 ha c hc, by simp⟩
          obtain ⟨c, hc, hfed, hcw⟩ := hex
          have hsp := sput_of_fed net s hi c pre hj hp hfed
          rcases hi.keep c hsp with h | ⟨m, md, pend, hmd, hcm, hm, hr⟩ | ⟨m, md, hmd, hcm, hma, hnw⟩
          · cases hq : s.chans c with
            | nil => rw [hq] at h; simp at h
            | cons x q =>
              cases x with
              | stop =>
                refine ⟨.get n c 0, ?_⟩
                simp only [step, hnd, hs, hc, hq, and_self, if_true]
                split <;> rfl
              | data =>
                have hne := wf.plansNe n nd hnd
                cases hpl : nd.plans with
                | nil => exact absurd hpl hne
                | cons plan ps => exact ⟨.get n c 0, by simp [step, hnd, hs, hc, hq, hpl]⟩
          · cases hrb : md.rebro with
            | true =>
              have hcp := hr hrb
              cases pend with
              | nil => simp at hcp
              | cons c' r => exact ⟨.put m, by simp [step, lt_of_getElem? hmd, hm]⟩
            | false =>
              have := wf.uniq m md hmd hrb c hcm n nd hnd hc
              subst this
              rw [hs] at hm; cases hm
          · have hrb := (wf.allOk m md hmd hma).1
            have := wf.uniq m md hmd hrb c hcm n nd hnd hc
            subst this
            rw [hnd] at hmd; cases hmd
            exact absurd (hcw hma) hnw

theorem progress_of_inv (net : Net) (wf : WF net) (hub : Unbounded net) (s : State) (hi : Inv net s)
    (hnf : ¬ Final s) : ∃ a, (step net s a).isSome = true :=
  progress_core net wf s hi
    (fun x c rest hlt hs => ⟨.put x, by simp [step, hlt, hs, room, hub c]⟩) hnf

end Lifecycle
