import MpsVerif.Proofs.LifecycleLive
/-! A measure that every step of the stop phase decreases: the stop protocol ends in boundedly many steps. -/
namespace Lifecycle

theorem sum_upd (N j : Nat) (f g : Nat → Nat) (h : ∀ i, i ≠ j → g i = f i) :
    ((List.range N).map g).sum + (if j < N then f j else 0) =
    ((List.range N).map f).sum + (if j < N then g j else 0) := by
  induction N with
  | zero => simp
  | succ N ih =>
    simp only [List.range_succ, List.map_append, List.sum_append, List.map_cons, List.map_nil, List.sum_cons,
      List.sum_nil, Nat.add_zero]
    by_cases h1 : j < N
    · have h2 : j < N + 1 := by omega
      have h3 : N ≠ j := by omega
      simp only [h1, h2, if_true] at ih ⊢
      rw [h N h3]; omega
    · by_cases h2 : j = N
      · subst h2
        simp only [Nat.lt_irrefl, if_false, Nat.add_zero, Nat.lt_succ_self, if_true] at ih ⊢
        omega
      · have h3 : ¬ j < N + 1 := by omega
        have h4 : N ≠ j := by omega
        simp only [h1, h3, if_false] at ih ⊢
        rw [h N h4]; omega

theorem sum_congr (N : Nat) (f g : Nat → Nat) (h : ∀ i, g i = f i) :
    ((List.range N).map g).sum = ((List.range N).map f).sum := by
  have : g = f := funext h
  rw [this]

def nstop (l : List Msg) : Nat := l.count .stop

/-- value of the content `l` of channel `c`: every data message may still cause `wOf c` steps, every
    sentinel one (its removal) -/
def cval (net : Net) (l : List Msg) (c : Nat) : Nat := ndata l * wOf net c + nstop l

def chanSum (net : Net) (ch : Nat → List Msg) : Nat :=
  ((List.range net.caps.length).map (fun c => cval net (ch c) c)).sum

def nodePot (net : Net) (ns : Nat → NSt) (n : Nat) : Nat :=
  match net.nodes[n]?, ns n with
  | some nd, .d pend => planCost net pend + 2 * (1 + nd.souts.length)
  | some _, .s pend => 2 * pend.length
  | none, _ => 0

def nodeSum (net : Net) (ns : Nat → NSt) : Nat := ((List.range net.nodes.length).map (nodePot net ns)).sum

/-- upper bound on the number of steps still to come once `__exit__` has begun -/
def mu (net : Net) (s : State) : Nat := 2 * s.pc.length + chanSum net s.chans + nodeSum net s.nodes

@[simp] theorem ndata_app_stop (l : List Msg) : ndata (l ++ [.stop]) = ndata l := by
  simp [ndata, List.count_append]
@[simp] theorem ndata_app_data (l : List Msg) : ndata (l ++ [.data]) = ndata l + 1 := by
  simp [ndata, List.count_append]
@[simp] theorem ndata_cons_stop (l : List Msg) : ndata (.stop :: l) = ndata l := by
  simp [ndata]
@[simp] theorem ndata_cons_data (l : List Msg) : ndata (.data :: l) = ndata l + 1 := by
  simp [ndata]
@[simp] theorem nstop_app_stop (l : List Msg) : nstop (l ++ [.stop]) = nstop l + 1 := by
  simp [nstop, List.count_append]
@[simp] theorem nstop_app_data (l : List Msg) : nstop (l ++ [.data]) = nstop l := by
  simp [nstop, List.count_append]
@[simp] theorem nstop_cons_stop (l : List Msg) : nstop (.stop :: l) = nstop l + 1 := by
  simp [nstop]
@[simp] theorem nstop_cons_data (l : List Msg) : nstop (.data :: l) = nstop l := by
  simp [nstop]

theorem chanSum_upd (net : Net) (ch : Nat → List Msg) (c : Nat) (l : List Msg) :
    chanSum net (upd ch c l) + (if c < net.caps.length then cval net (ch c) c else 0) =
    chanSum net ch + (if c < net.caps.length then cval net l c else 0) := by
  unfold chanSum
  have := sum_upd net.caps.length c (fun c => cval net (ch c) c) (fun c' => cval net (upd ch c l c') c')
    (by intro i hi; simp [upd, hi])
  simpa using this

theorem nodeSum_upd (net : Net) (ns : Nat → NSt) (n : Nat) (v : NSt) (hn : n < net.nodes.length) :
    nodeSum net (upd ns n v) + nodePot net ns n = nodeSum net ns + nodePot net (upd ns n v) n := by
  unfold nodeSum
  have := sum_upd net.nodes.length n (nodePot net ns) (nodePot net (upd ns n v))
    (by intro i hi; simp [nodePot, upd, hi])
  simpa [hn] using this

theorem planCost_cons (net : Net) (c : Nat) (r : List Nat) : planCost net (c :: r) = 1 + wOf net c + planCost net r := by
  simp [planCost]

theorem stopping_step (net : Net) (s : State) (a : Act) (s' : State) (h : s.stopping = true)
    (hs : Step net s a s') : s'.stopping = true := by
  cases hs <;> simp_all

theorem mu_decreases (net : Net) (wf : WF net) (s : State) (a : Act) (s' : State) (hstop : s.stopping = true)
    (hs : Step net s a s') : mu net s' < mu net s := by
  cases hs with
  | inject h0 => rw [hstop] at h0; cases h0
  | @getData n c k nd rest plan hnd hn hc hq hpl =>
    have hlt := lt_of_getElem? hnd
    have hcr := wf.insRange n nd hnd c hc
    have hw := wf.weight n nd hnd c hc plan (List.mem_of_getElem? hpl)
    have h1 := chanSum_upd net s.chans c rest
    have h2 := nodeSum_upd net s.nodes n (.d plan) hlt
    simp only [hcr, if_true, hq, cval, ndata_cons_data, nstop_cons_data] at h1
    simp only [nodePot, hnd, hn, upd_same, planCost, List.map_nil, List.sum_nil] at h2
    simp only [mu]
    have : (ndata rest + 1) * wOf net c = ndata rest * wOf net c + wOf net c := by
      rw [Nat.add_mul]; simp
    simp only [planCost] at hw
    omega
  | @getStop n c nd rest hnd hn hc hq hw =>
    have hlt := lt_of_getElem? hnd
    have hcr := wf.insRange n nd hnd c hc
    have h1 := chanSum_upd net s.chans c rest
    have h2 := nodeSum_upd net s.nodes n (.s ((if nd.rebro then [c] else []) ++ nd.souts)) hlt
    simp only [hcr, if_true, hq, cval, ndata_cons_stop, nstop_cons_stop] at h1
    simp only [nodePot, hnd, hn, upd_same, planCost, List.map_nil, List.sum_nil, List.length_append] at h2
    simp only [mu]
    have : (if nd.rebro = true then [c] else []).length ≤ 1 := by split <;> simp
    omega
  | @getStopWait n c nd rest hnd hn hc hq hw =>
    have hcr := wf.insRange n nd hnd c hc
    have h1 := chanSum_upd net s.chans c rest
    simp only [hcr, if_true, hq, cval, ndata_cons_stop, nstop_cons_stop] at h1
    simp only [mu]
    omega
  | @putData n c rest hlt hn hroom =>
    have hnd : net.nodes[n]? = some net.nodes[n] := List.getElem?_eq_getElem hlt
    generalize net.nodes[n] = nd at hnd
    have h1 := chanSum_upd net s.chans c (s.chans c ++ [.data])
    have h2 := nodeSum_upd net s.nodes n (.d rest) hlt
    simp only [nodePot, hnd, hn, upd_same, planCost_cons] at h2
    simp only [cval, ndata_app_data, nstop_app_data] at h1
    simp only [mu]
    have : (ndata (s.chans c) + 1) * wOf net c = ndata (s.chans c) * wOf net c + wOf net c := by
      rw [Nat.add_mul]; simp
    split at h1 <;> omega
  | @putStop n c rest hlt hn =>
    have hnd : net.nodes[n]? = some net.nodes[n] := List.getElem?_eq_getElem hlt
    generalize net.nodes[n] = nd at hnd
    have h1 := chanSum_upd net s.chans c (s.chans c ++ [.stop])
    have h2 := nodeSum_upd net s.nodes n (.s rest) hlt
    simp only [nodePot, hnd, hn, upd_same, List.length_cons] at h2
    simp only [cval, ndata_app_stop, nstop_app_stop] at h1
    simp only [mu]
    split at h1 <;> omega
  | @mainPut c rest hpc =>
    have h1 := chanSum_upd net s.chans c (s.chans c ++ [.stop])
    simp only [cval, ndata_app_stop, nstop_app_stop] at h1
    simp only [mu, hpc, List.length_cons]
    split at h1 <;> omega
  | @mainJoin n rest hpc hn => simp only [mu, hpc, List.length_cons]; omega
  | @mainClear rest hpc => simp only [mu, hpc, List.length_cons]; omega

end Lifecycle
