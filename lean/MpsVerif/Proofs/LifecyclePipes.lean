import MpsVerif.Proofs.LifecycleWf
/-! Progress of the stop protocol with pipe-backed queues, under the side condition `Net.safe`. -/
namespace Lifecycle

def Writes (nd : NodeDesc) (c : Nat) : Prop := (∃ plan ∈ nd.plans, c ∈ plan) ∨ c ∈ nd.souts

theorem writes_iff (nd : NodeDesc) (c : Nat) : writes nd c = true ↔ Writes nd c := by
  simp [writes, Writes, List.any_eq_true]

structure Safe (net : Net) : Prop where
  capPos : ∀ c K, capOf net c = some K → 1 ≤ K
  reader : ∀ c K, capOf net c = some K →
    ∃ (r : Nat) (nd : NodeDesc), net.nodes[r]? = some nd ∧ c ∈ nd.ins ∧ (nd.ins = [c] ∨ nd.all = true)
  writer : ∀ c K, capOf net c = some K → ∀ (m m' : Nat) (md md' : NodeDesc), net.nodes[m]? = some md →
    net.nodes[m']? = some md' → Writes md c → Writes md' c → m = m'
  mainAfter : ∀ c K, capOf net c = some K → ∀ (m : Nat) (md : NodeDesc) pre rest, net.nodes[m]? = some md →
    Writes md c → net.script = pre ++ Instr.put c :: rest → Instr.join m ∈ pre

theorem capOf_lt (net : Net) (c K : Nat) (h : capOf net c = some K) : c < net.caps.length := by
  rcases Nat.lt_or_ge c net.caps.length with h1 | h1
  · exact h1
  · simp [capOf, List.getElem?_eq_none h1] at h

theorem safe_sound (net : Net) (h : net.safe = true) : Safe net := by
  simp only [Net.safe, List.all_eq_true, List.mem_range] at h
  refine ⟨?_, ?_, ?_, ?_⟩
  · intro c K hk
    have := h c (capOf_lt net c K hk)
    rw [hk] at this
    simp only [Bool.and_eq_true] at this
    simpa using this.1.1.1
  · intro c K hk
    have := h c (capOf_lt net c K hk)
    rw [hk] at this
    simp only [Bool.and_eq_true] at this
    have := this.1.1.2
    simp only [List.any_eq_true, List.mem_range] at this
    obtain ⟨r, hr, h2⟩ := this
    cases hnd : net.nodes[r]? with
    | none => rw [hnd] at h2; simp at h2
    | some nd =>
      rw [hnd] at h2
      simp only [Bool.and_eq_true, List.contains_iff_mem, Bool.or_eq_true, beq_iff_eq] at h2
      exact ⟨r, nd, hnd, h2.1, h2.2⟩
  · intro c K hk m m' md md' hmd hmd' hw hw'
    have := h c (capOf_lt net c K hk)
    rw [hk] at this
    simp only [Bool.and_eq_true] at this
    have := this.1.2
    simp only [List.all_eq_true, List.mem_range] at this
    have := this m (lt_of_getElem? hmd) m' (lt_of_getElem? hmd')
    rw [hmd, hmd'] at this
    simp only [Bool.or_eq_true, beq_iff_eq, Bool.not_eq_true', Bool.and_eq_false_iff] at this
    rcases this with h1 | h1 | h1
    · exact h1
    · rw [(writes_iff md c).mpr hw] at h1; cases h1
    · rw [(writes_iff md' c).mpr hw'] at h1; cases h1
  · intro c K hk m md pre rest hmd hw hs
    have := h c (capOf_lt net c K hk)
    rw [hk] at this
    simp only [Bool.and_eq_true] at this
    have := this.2
    simp only [List.all_eq_true, List.mem_range] at this
    have := this m (lt_of_getElem? hmd)
    rw [hmd] at this
    simp only [Bool.or_eq_true, Bool.not_eq_true', List.all_eq_true, List.mem_range, bne_iff_ne,
      List.contains_iff_mem] at this
    rcases this with h1 | h1
    · rw [(writes_iff md c).mpr hw] at h1; cases h1
    · have hp : pre.length < net.script.length := by rw [hs]; simp
      have hget : net.script[pre.length]? = some (Instr.put c) := by rw [hs]; simp
      have htake : net.script.take pre.length = pre := by rw [hs]; simp
      rcases h1 pre.length hp with h2 | h2
      · exact absurd hget h2
      · rwa [htake] at h2

structure Inv2 (net : Net) (s : State) : Prop where
  Q : ∀ c, Msg.stop ∈ s.chans c → s.sput c = true
  P : ∀ (x : Nat) (nd : NodeDesc) pend, net.nodes[x]? = some nd → s.nodes x = .s pend →
        ∀ c ∈ pend, c ∈ nd.souts ∨ (c ∈ nd.ins ∧ s.sput c = true)
  R : ∀ (x : Nat) (nd : NodeDesc) pend, net.nodes[x]? = some nd → s.nodes x = .d pend →
        ∀ c ∈ pend, ∃ plan ∈ nd.plans, c ∈ plan
  T : ∀ (r : Nat) (nd : NodeDesc) pend, net.nodes[r]? = some nd → s.nodes r = .s pend →
        (∀ c, nd.ins = [c] → s.sput c = true) ∧ (nd.all = true → ∀ c ∈ nd.ins, s.sput c = true)
  T2 : ∀ (r : Nat) (nd : NodeDesc), net.nodes[r]? = some nd → nd.all = true → ∀ c ∈ nd.ins, c ∉ s.wait r →
        s.sput c = true
  J : ∀ c K, capOf net c = some K → s.sput c = true → ∀ (m : Nat) (md : NodeDesc), net.nodes[m]? = some md →
        Writes md c → ∃ pend, s.nodes m = .s pend

theorem inv2_init (net : Net) : Inv2 net (init net) := by
  refine ⟨?_, ?_, ?_, ?_, ?_, ?_⟩
  · intro c h; simp [init] at h
  · intro x nd pend _ h; simp [init] at h
  · intro x nd pend _ h c hc; simp [init] at h; subst h; simp at hc
  · intro r nd pend _ h; simp [init] at h
  · intro r nd hnd ha c hc hnw
    simp [init, hnd, ha] at hnw
    exact absurd hc hnw
  · intro c K _ h; simp [init] at h

theorem sput_upd_mono (f : Nat → Bool) (c c' : Nat) (h : f c' = true) : upd f c true c' = true := by
  simp only [upd]; split <;> simp [h]

theorem inv2_step (net : Net) (sf : Safe net) (s : State) (a : Act) (s' : State) (hi : Inv net s)
    (h2 : Inv2 net s) (hs : Step net s a s') : Inv2 net s' := by
  obtain ⟨hQ, hP, hR, hT, hT2, hJ⟩ := h2
  cases hs with
  | inject h0 =>
    refine ⟨?_, hP, hR, hT, hT2, hJ⟩
    intro c hc
    apply hQ c
    simp only [upd] at hc; split at hc
    · rename_i e; subst e; simpa using hc
    · exact hc
  | @getData n c k nd rest plan hnd hn hc hq hpl =>
    refine ⟨?_, ?_, ?_, ?_, hT2, ?_⟩
    · intro c' hc'
      apply hQ c'
      simp only [upd] at hc'; split at hc'
      · rename_i e; subst e; rw [hq]; simp [hc']
      · exact hc'
    · intro x xd pend hxd hx c' hc'
      by_cases e : x = n
      · subst e; simp at hx
      · simp only [upd_ne _ _ _ _ e] at hx; exact hP x xd pend hxd hx c' hc'
    · intro x xd pend hxd hx c' hc'
      by_cases e : x = n
      · subst e; simp at hx; subst hx
        rw [hnd] at hxd; cases hxd
        exact ⟨plan, List.mem_of_getElem? hpl, hc'⟩
      · simp only [upd_ne _ _ _ _ e] at hx; exact hR x xd pend hxd hx c' hc'
    · intro r rd pend hrd hr
      by_cases e : r = n
      · subst e; simp at hr
      · simp only [upd_ne _ _ _ _ e] at hr; exact hT r rd pend hrd hr
    · intro c' K hk hsp m md hmd hw
      obtain ⟨pend, hm⟩ := hJ c' K hk hsp m md hmd hw
      have e : m ≠ n := by intro e; subst e; rw [hn] at hm; cases hm
      exact ⟨pend, by simp [upd_ne _ _ _ _ e, hm]⟩
  | @getStop n c nd rest hnd hn hc hq hw =>
    have hspc : s.sput c = true := hQ c (by rw [hq]; simp)
    have hallc : nd.all = true → ∀ c' ∈ nd.ins, s.sput c' = true := by
      intro ha c' hc'
      by_cases hin : c' ∈ s.wait n
      · have : c' ∈ waitAfter nd (s.wait n) c ∨ c' = c := by
          by_cases e : c' = c
          · right; exact e
          · left; simp [waitAfter, ha, hin, e]
        rcases this with h | h
        · rw [hw] at h; simp at h
        · subst h; exact hspc
      · exact hT2 n nd hnd ha c' hc' hin
    refine ⟨?_, ?_, ?_, ?_, ?_, ?_⟩
    · intro c' hc'
      apply hQ c'
      simp only [upd] at hc'; split at hc'
      · rename_i e; subst e; rw [hq]; simp [hc']
      · exact hc'
    · intro x xd pend hxd hx c' hc'
      by_cases e : x = n
      · subst e; simp at hx; subst hx
        rw [hnd] at hxd; cases hxd
        rcases List.mem_append.mp hc' with h | h
        · split at h
          · simp at h; subst h; right; exact ⟨hc, hspc⟩
          · simp at h
        · left; exact h
      · simp only [upd_ne _ _ _ _ e] at hx; exact hP x xd pend hxd hx c' hc'
    · intro x xd pend hxd hx c' hc'
      by_cases e : x = n
      · subst e; simp at hx
      · simp only [upd_ne _ _ _ _ e] at hx; exact hR x xd pend hxd hx c' hc'
    · intro r rd pend hrd hr
      by_cases e : r = n
      · subst e
        rw [hnd] at hrd; cases hrd
        refine ⟨?_, hallc⟩
        intro c0 h0
        rw [h0] at hc; simp at hc; subst hc; exact hspc
      · simp only [upd_ne _ _ _ _ e] at hr; exact hT r rd pend hrd hr
    · intro r rd hrd ha c' hc' hnw
      by_cases e : r = n
      · subst e
        rw [hnd] at hrd; cases hrd
        exact hallc ha c' hc'
      · simp only [upd_ne _ _ _ _ e] at hnw; exact hT2 r rd hrd ha c' hc' hnw
    · intro c' K hk hsp m md hmd hw'
      obtain ⟨pend, hm⟩ := hJ c' K hk hsp m md hmd hw'
      have e : m ≠ n := by intro e; subst e; rw [hn] at hm; cases hm
      exact ⟨pend, by simp [upd_ne _ _ _ _ e, hm]⟩
  | @getStopWait n c nd rest hnd hn hc hq hw =>
    have hspc : s.sput c = true := hQ c (by rw [hq]; simp)
    have hall : nd.all = true := by
      cases ha : nd.all with
      | true => rfl
      | false => simp [waitAfter, ha] at hw
    refine ⟨?_, hP, hR, hT, ?_, hJ⟩
    · intro c' hc'
      apply hQ c'
      simp only [upd] at hc'; split at hc'
      · rename_i e; subst e; rw [hq]; simp [hc']
      · exact hc'
    · intro r rd hrd ha c' hc' hnw
      by_cases e : r = n
      · subst e
        rw [hnd] at hrd; cases hrd
        simp only [upd_same, waitAfter, hall, if_true, List.mem_filter, not_and] at hnw
        by_cases hin : c' ∈ s.wait r
        · have := hnw hin
          simp at this; subst this; exact hspc
        · exact hT2 r nd hnd ha c' hc' hin
      · simp only [upd_ne _ _ _ _ e] at hnw; exact hT2 r rd hrd ha c' hc' hnw
  | @putData n c rest hlt hn hroom =>
    refine ⟨?_, ?_, ?_, ?_, hT2, ?_⟩
    · intro c' hc'
      apply hQ c'
      simp only [upd] at hc'; split at hc'
      · rename_i e; subst e; simpa using hc'
      · exact hc'
    · intro x xd pend hxd hx c' hc'
      by_cases e : x = n
      · subst e; simp at hx
      · simp only [upd_ne _ _ _ _ e] at hx; exact hP x xd pend hxd hx c' hc'
    · intro x xd pend hxd hx c' hc'
      by_cases e : x = n
      · subst e; simp at hx; subst hx
        exact hR x xd _ hxd hn c' (List.mem_cons_of_mem _ hc')
      · simp only [upd_ne _ _ _ _ e] at hx; exact hR x xd pend hxd hx c' hc'
    · intro r rd pend hrd hr
      by_cases e : r = n
      · subst e; simp at hr
      · simp only [upd_ne _ _ _ _ e] at hr; exact hT r rd pend hrd hr
    · intro c' K hk hsp m md hmd hw
      obtain ⟨pend, hm⟩ := hJ c' K hk hsp m md hmd hw
      have e : m ≠ n := by intro e; subst e; rw [hn] at hm; cases hm
      exact ⟨pend, by simp [upd_ne _ _ _ _ e, hm]⟩
  | @putStop n c rest hlt hn =>
    have hnd : net.nodes[n]? = some net.nodes[n] := List.getElem?_eq_getElem hlt
    generalize net.nodes[n] = nd at hnd
    refine ⟨?_, ?_, ?_, ?_, ?_, ?_⟩
    · intro c' hc'
      simp only [upd] at hc' ⊢; split
      · rfl
      · rename_i e; simp only [e, if_false] at hc'; exact hQ c' hc'
    · intro x xd pend hxd hx c' hc'
      have key : ∀ pend0, s.nodes x = .s pend0 → c' ∈ pend0 → c' ∈ xd.souts ∨ (c' ∈ xd.ins ∧ upd s.sput c true c' = true) := by
        intro pend0 h0 hc0
        rcases hP x xd pend0 hxd h0 c' hc0 with h | h
        · left; exact h
        · right; exact ⟨h.1, sput_upd_mono _ _ _ h.2⟩
      by_cases e : x = n
      · subst e; simp at hx; subst hx
        exact key _ hn (List.mem_cons_of_mem _ hc')
      · simp only [upd_ne _ _ _ _ e] at hx; exact key pend hx hc'
    · intro x xd pend hxd hx c' hc'
      by_cases e : x = n
      · subst e; simp at hx
      · simp only [upd_ne _ _ _ _ e] at hx; exact hR x xd pend hxd hx c' hc'
    · intro r rd pend hrd hr
      have key : ∀ pend0, s.nodes r = .s pend0 →
          (∀ c', rd.ins = [c'] → upd s.sput c true c' = true) ∧ (rd.all = true → ∀ c' ∈ rd.ins, upd s.sput c true c' = true) := by
        intro pend0 h0
        obtain ⟨t1, t2⟩ := hT r rd pend0 hrd h0
        exact ⟨fun c' h => sput_upd_mono _ _ _ (t1 c' h), fun ha c' hc' => sput_upd_mono _ _ _ (t2 ha c' hc')⟩
      by_cases e : r = n
      · subst e; exact key _ hn
      · simp only [upd_ne _ _ _ _ e] at hr; exact key pend hr
    · intro r rd hrd ha c' hc' hnw
      exact sput_upd_mono _ _ _ (hT2 r rd hrd ha c' hc' hnw)
    · intro c' K hk hsp m md hmd hw
      have fin : ∀ pend, s.nodes m = .s pend → ∃ pend', upd s.nodes n (.s rest) m = .s pend' := by
        intro pend hm
        by_cases e : m = n
        · subst e; exact ⟨rest, by simp⟩
        · exact ⟨pend, by simp [upd_ne _ _ _ _ e, hm]⟩
      by_cases ec : c' = c
      · subst ec
        rcases hP n nd _ hnd hn c' (by simp) with h | h
        · have := sf.writer c' K hk m n md nd hmd hnd hw (Or.inr h)
          subst this; exact ⟨rest, by simp⟩
        · obtain ⟨pend, hm⟩ := hJ c' K hk h.2 m md hmd hw
          exact fin pend hm
      · simp only [upd_ne _ _ _ _ ec] at hsp
        obtain ⟨pend, hm⟩ := hJ c' K hk hsp m md hmd hw
        exact fin pend hm
  | @mainPut c rest hpc =>
    obtain ⟨pre, hpre, hj, _, _, _⟩ := hi.pre
    refine ⟨?_, ?_, hR, ?_, ?_, ?_⟩
    · intro c' hc'
      simp only [upd] at hc' ⊢; split
      · rfl
      · rename_i e; simp only [e, if_false] at hc'; exact hQ c' hc'
    · intro x xd pend hxd hx c' hc'
      rcases hP x xd pend hxd hx c' hc' with h | h
      · left; exact h
      · right; exact ⟨h.1, sput_upd_mono _ _ _ h.2⟩
    · intro r rd pend hrd hr
      obtain ⟨t1, t2⟩ := hT r rd pend hrd hr
      exact ⟨fun c' h => sput_upd_mono _ _ _ (t1 c' h), fun ha c' hc' => sput_upd_mono _ _ _ (t2 ha c' hc')⟩
    · intro r rd hrd ha c' hc' hnw
      exact sput_upd_mono _ _ _ (hT2 r rd hrd ha c' hc' hnw)
    · intro c' K hk hsp m md hmd hw
      by_cases ec : c' = c
      · subst ec
        have := sf.mainAfter c' K hk m md pre rest hmd hw (by rw [hpre, hpc])
        exact ⟨[], hj m this⟩
      · simp only [upd_ne _ _ _ _ ec] at hsp
        exact hJ c' K hk hsp m md hmd hw
  | @mainJoin n rest hpc hn => exact ⟨hQ, hP, hR, hT, hT2, hJ⟩
  | @mainClear rest hpc => exact ⟨hQ, hP, hR, hT, hT2, hJ⟩

theorem inv12_reachable (net : Net) (wf : WF net) (sf : Safe net) {s : State} (hr : Reachable net s) :
    Inv net s ∧ Inv2 net s :=
  reachable_inv net (Inv := fun s => Inv net s ∧ Inv2 net s) ⟨inv_init net wf, inv2_init net⟩
    (fun s a s' hi hs => ⟨inv_step net s a s' hi.1 hs, inv2_step net sf s a s' hi.1 hi.2 hs⟩) hr

theorem planCost_mem (net : Net) (plan : List Nat) (c : Nat) (h : c ∈ plan) : 1 + wOf net c ≤ planCost net plan := by
  induction plan with
  | nil => simp at h
  | cons d r ih =>
    rw [planCost_cons]
    rcases List.mem_cons.mp h with h | h
    · subst h; omega
    · have := ih h; omega

/-- a node holding a data message can put it, or its reader — or somebody further downstream — can move -/
theorem holder_progress (net : Net) (wf : WF net) (sf : Safe net) (s : State) (hi : Inv net s) (h2 : Inv2 net s) :
    ∀ (W x c : Nat) (rest : List Nat), wOf net c < W → x < net.nodes.length → s.nodes x = .d (c :: rest) →
      ∃ a, (step net s a).isSome = true := by
  intro W
  induction W with
  | zero => intro x c rest h; omega
  | succ W ih =>
    intro x c rest hW hx hsx
    cases hr : room net s c with
    | true => exact ⟨.put x, by simp [step, hx, hsx, hr]⟩
    | false =>
      simp only [room] at hr
      cases hk : capOf net c with
      | none => simp [hk] at hr
      | some K =>
        simp only [hk, decide_eq_false_iff_not, Nat.not_lt] at hr
        have hK := sf.capPos c K hk
        have hxd : net.nodes[x]? = some net.nodes[x] := List.getElem?_eq_getElem hx
        generalize net.nodes[x] = xd at hxd
        obtain ⟨plan, hpl, hcp⟩ := h2.R x xd _ hxd hsx c (by simp)
        have hwx : Writes xd c := Or.inl ⟨plan, hpl, hcp⟩
        have hns : s.sput c = false := by
          cases hsp : s.sput c with
          | false => rfl
          | true =>
            obtain ⟨pend, hm⟩ := h2.J c K hk hsp x xd hxd hwx
            rw [hsx] at hm; cases hm
        obtain ⟨r, rd, hrd, hcr, hshape⟩ := sf.reader c K hk
        cases hsr : s.nodes r with
        | s pend =>
          obtain ⟨t1, t2⟩ := h2.T r rd pend hrd hsr
          rcases hshape with h | h
          · have := t1 c h; rw [hns] at this; cases this
          · have := t2 h c hcr; rw [hns] at this; cases this
        | d pend =>
          cases pend with
          | nil =>
            cases hq : s.chans c with
            | nil => rw [hq] at hr; simp [ndata] at hr; omega
            | cons m q =>
              cases m with
              | stop =>
                refine ⟨.get r c 0, ?_⟩
                simp only [step, hrd, hsr, hcr, hq, and_self, if_true]
                split <;> rfl
              | data =>
                have hne := wf.plansNe r rd hrd
                cases hpl' : rd.plans with
                | nil => exact absurd hpl' hne
                | cons plan' ps => exact ⟨.get r c 0, by simp [step, hrd, hsr, hcr, hq, hpl']⟩
          | cons c' rest' =>
            obtain ⟨plan', hpl', hcp'⟩ := h2.R r rd _ hrd hsr c' (by simp)
            have hw := wf.weight r rd hrd c hcr plan' hpl'
            have := planCost_mem net plan' c' hcp'
            exact ih r c' rest' (by omega) (lt_of_getElem? hrd) hsr

theorem progress_safe (net : Net) (wf : WF net) (sf : Safe net) (s : State) (hr : Reachable net s)
    (hnf : ¬ Final s) : ∃ a, (step net s a).isSome = true := by
  obtain ⟨hi, h2⟩ := inv12_reachable net wf sf hr
  exact progress_core net wf s hi
    (fun x c rest hlt hs => holder_progress net wf sf s hi h2 (wOf net c + 1) x c rest (by omega) hlt hs) hnf

end Lifecycle
