import MpsVerif.Model.Lifecycle
/-! `start`: error position and surviving threads, for every tree and failure plan. -/
namespace Lifecycle

def isBad (bad : Nat → Nat → Bool) (t : Tid) : Bool := bad t.1 t.2

/-- the first worker, in launch order, whose `__init__` fails -/
def firstBad (bad : Nat → Nat → Bool) (ws : List Tid) : Option Tid := ws.find? (isBad bad)

@[simp] theorem launched_append (a b : List Ev) : launched (a ++ b) = launched a ++ launched b := by
  induction a with
  | nil => rfl
  | cons e a ih => cases e <;> simp [launched, ih]

@[simp] theorem gone_append (a b : List Ev) : gone (a ++ b) = gone a ++ gone b := by
  induction a with
  | nil => rfl
  | cons e a ih => cases e <;> simp [gone, ih]

@[simp] theorem launched_exits (l : List Tid) : launched (l.map Ev.exit) = [] := by
  induction l with
  | nil => rfl
  | cons t l ih => simp [launched, ih]

@[simp] theorem gone_exits (l : List Tid) : gone (l.map Ev.exit) = l := by
  induction l with
  | nil => rfl
  | cons t l ih => simp [gone, ih]

@[simp] theorem launched_launches (l : List Tid) : launched (l.map Ev.launch) = l := by
  induction l with
  | nil => rfl
  | cons t l ih => simp [launched, ih]

@[simp] theorem gone_launches (l : List Tid) : gone (l.map Ev.launch) = [] := by
  induction l with
  | nil => rfl
  | cons t l ih => simp [gone, ih]

@[simp] theorem gone_launch_cons (t : Tid) (es : List Ev) : gone (.launch t :: es) = gone es := rfl
@[simp] theorem launched_launch_cons (t : Tid) (es : List Ev) : launched (.launch t :: es) = t :: launched es := rfl

/-- what `start` of a subtree guarantees -/
structure StartOk (bad : Nat → Nat → Bool) (ws ths : List Tid) (r : SRes) : Prop where
  err : r.err = firstBad bad ws
  ok : r.err = none → launched r.evs = ths ∧ gone r.evs = []
  ko : r.err ≠ none → ∀ x ∈ launched r.evs, x ∈ gone r.evs

theorem workerEvs_spec (sv : Nat) (bad : Nat → Nat → Bool) (todo i : Nat) :
    let r := workerEvs sv bad todo i
    r.err = firstBad bad ((List.range' i todo).map (fun j => (sv, j))) ∧
    (r.err = none → launched r.evs = (List.range' i todo).map (fun j => (sv, j)) ∧ gone r.evs = []) ∧
    (r.err ≠ none → ∀ x, (x ∈ launched r.evs ∨ ∃ j, j < i ∧ x = (sv, j)) → x ∈ gone r.evs) := by
  induction todo generalizing i with
  | zero => simp [workerEvs, firstBad, launched, gone]
  | succ todo ih =>
    simp only [workerEvs, List.range'_succ, List.map_cons]
    by_cases hb : bad sv i = true
    · simp only [hb, if_true, firstBad, List.find?_cons, isBad]
      refine ⟨by simp, by simp, ?_⟩
      intro _ x hx
      simp only [List.cons_append, List.nil_append, launched, launched_exits, gone, gone_exits] at hx ⊢
      rcases hx with h | ⟨j, hj, h⟩
      · have : x = (sv, i) := by simpa using h
        subst this; simp
      · subst h; simp; right; exact hj
    · have hb' : bad sv i = false := by simpa using hb
      simp only [hb', Bool.false_eq_true, ↓reduceIte, firstBad, List.find?_cons, isBad]
      obtain ⟨h1, h2, h3⟩ := ih (i + 1)
      refine ⟨h1, ?_, ?_⟩
      · intro he
        have := h2 he
        simp [launched, gone, this]
      · intro he x hx
        simp only [launched_launch_cons, gone_launch_cons] at hx ⊢
        apply h3 he
        rcases hx with h | ⟨j, hj, h⟩
        · rcases List.mem_cons.mp h with h | h
          · right; exact ⟨i, by omega, h⟩
          · left; exact h
        · right; exact ⟨j, by omega, h⟩

theorem firstBad_append (bad : Nat → Nat → Bool) (a b : List Tid) :
    firstBad bad (a ++ b) = (firstBad bad a).or (firstBad bad b) := by
  simp [firstBad, List.find?_append]

/-- two members started one after the other, then `extra` helper threads -/
theorem pair_spec (bad : Nat → Nat → Bool) (wa wb ta tb extra : List Tid) (ra rb : SRes)
    (ha : StartOk bad wa ta ra) (hb : StartOk bad wb tb rb) :
    StartOk bad (wa ++ wb) (ta ++ tb ++ extra)
      (match ra.err with
       | some e => { evs := ra.evs, err := some e }
       | none =>
         match rb.err with
         | some e => { evs := ra.evs ++ rb.evs ++ ta.map Ev.exit, err := some e }
         | none => { evs := ra.evs ++ rb.evs ++ extra.map Ev.launch, err := none }) := by
  cases hea : ra.err with
  | some e =>
    simp only
    refine ⟨?_, by simp, ?_⟩
    · rw [firstBad_append, ← ha.err, hea]; rfl
    · intro _; exact ha.ko (by simp [hea])
  | none =>
    obtain ⟨hla, hga⟩ := ha.ok hea
    cases heb : rb.err with
    | some e =>
      simp only
      refine ⟨?_, by simp, ?_⟩
      · rw [firstBad_append, ← ha.err, ← hb.err, hea, heb]; rfl
      · intro _ x hx
        simp only [launched_append, launched_exits, List.append_nil, gone_append, gone_exits, hla, hga,
          List.nil_append, List.mem_append] at hx ⊢
        rcases hx with h | h
        · right; exact h
        · left; exact hb.ko (by simp [heb]) x h
    | none =>
      obtain ⟨hlb, hgb⟩ := hb.ok heb
      simp only
      refine ⟨?_, ?_, by simp⟩
      · rw [firstBad_append, ← ha.err, ← hb.err, hea, heb]; rfl
      · intro _; simp [hla, hlb, hga, hgb]

theorem startT_spec (bad : Nat → Nat → Bool) (t : Tree) (sv : Nat) :
    StartOk bad (workers t sv) (threads t sv) (startT bad t sv) := by
  induction t generalizing sv with
  | simple k p =>
    obtain ⟨h1, h2, h3⟩ := workerEvs_spec sv bad k 0
    simp only [List.range_eq_range'.symm] at h1 h2 h3
    exact ⟨by simpa [workers, startT] using h1, by simpa [threads, startT] using h2,
      fun he x hx => h3 (by simpa [startT] using he) x (Or.inl (by simpa [startT] using hx))⟩
  | seq a b iha ihb =>
    have := pair_spec bad _ _ _ _ [] _ _ (iha (sv + 1)) (ihb (sv + 1 + a.size))
    simp only [List.map_nil, List.append_nil] at this
    simp only [startT, workers, threads]
    exact this
  | ens a b iha ihb =>
    have := pair_spec bad _ _ _ _ [(sv, 100), (sv, 101)] _ _ (iha (sv + 1)) (ihb (sv + 1 + a.size))
    simp only [List.map_cons, List.map_nil] at this
    simp only [startT, workers, threads]
    exact this
  | sw a b iha ihb =>
    have := pair_spec bad _ _ _ _ [(sv, 101)] _ _ (iha (sv + 1)) (ihb (sv + 1 + a.size))
    simp only [List.map_cons, List.map_nil] at this
    simp only [startT, workers, threads]
    exact this

theorem startServer_spec (bad : Nat → Nat → Bool) (t : Tree) :
    StartOk bad (workers t 0) (threads t 0 ++ serverThreads t) (startServer bad t) := by
  have h := startT_spec bad t 0
  simp only [startServer]
  split
  · rename_i e he
    exact ⟨by rw [← h.err, he], by simp, fun _ => h.ko (by simp [he])⟩
  · rename_i he
    obtain ⟨hl, hg⟩ := h.ok he
    exact ⟨by rw [← h.err, he], fun _ => by simp [hl, hg], by simp⟩

theorem alive_nil_of_all_gone (es : List Ev) (h : ∀ x ∈ launched es, x ∈ gone es) : alive es = [] := by
  simp only [alive, List.filter_eq_nil_iff]
  intro x hx
  simp [h x hx]

theorem alive_of_none_gone (es : List Ev) (h : gone es = []) : alive es = launched es := by
  simp [alive, h]

end Lifecycle
