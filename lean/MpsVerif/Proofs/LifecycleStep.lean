import MpsVerif.Model.Lifecycle
import MpsVerif.Core.Sys
/-! Relational presentation of `Lifecycle.step` and its soundness. -/
namespace Lifecycle

inductive Step (net : Net) : State → Act → State → Prop where
  | inject {s} : s.stopping = false →
      Step net s .inject { s with chans := upd s.chans net.entry (s.chans net.entry ++ [.data]), ledger := s.ledger + 1 }
  | getData {s n c k nd rest plan} : net.nodes[n]? = some nd → s.nodes n = .d [] → c ∈ nd.ins →
      s.chans c = .data :: rest → nd.plans[k]? = some plan →
      Step net s (.get n c k) { s with chans := upd s.chans c rest, nodes := upd s.nodes n (.d plan),
                                       ledger := if nd.sink then s.ledger - 1 else s.ledger }
  | getStop {s n c nd rest} : net.nodes[n]? = some nd → s.nodes n = .d [] → c ∈ nd.ins →
      s.chans c = .stop :: rest → waitAfter nd (s.wait n) c = [] →
      Step net s (.get n c 0) { s with chans := upd s.chans c rest,
                                       nodes := upd s.nodes n (.s ((if nd.rebro then [c] else []) ++ nd.souts)),
                                       wait := upd s.wait n [] }
  | getStopWait {s n c nd rest} : net.nodes[n]? = some nd → s.nodes n = .d [] → c ∈ nd.ins →
      s.chans c = .stop :: rest → waitAfter nd (s.wait n) c ≠ [] →
      Step net s (.get n c 0) { s with chans := upd s.chans c rest,
                                       wait := upd s.wait n (waitAfter nd (s.wait n) c) }
  | putData {s n c rest} : n < net.nodes.length → s.nodes n = .d (c :: rest) → room net s c = true →
      Step net s (.put n) { s with chans := upd s.chans c (s.chans c ++ [.data]), nodes := upd s.nodes n (.d rest) }
  | putStop {s n c rest} : n < net.nodes.length → s.nodes n = .s (c :: rest) →
      Step net s (.put n) { s with chans := upd s.chans c (s.chans c ++ [.stop]), nodes := upd s.nodes n (.s rest),
                                   sput := upd s.sput c true }
  | mainPut {s c rest} : s.pc = .put c :: rest →
      Step net s .main { s with chans := upd s.chans c (s.chans c ++ [.stop]), sput := upd s.sput c true, pc := rest,
                                stopping := true }
  | mainJoin {s n rest} : s.pc = .join n :: rest → s.nodes n = .s [] →
      Step net s .main { s with pc := rest, stopping := true }
  | mainClear {s rest} : s.pc = .clear :: rest →
      Step net s .main { s with ledger := 0, pc := rest, stopping := true }

theorem step_sound (net : Net) (s s' : State) (a : Act) (h : step net s a = some s') : Step net s a s' := by
  cases a <;> simp only [step] at h
  case inject => split at h <;> simp at h; subst h; rename_i hc; exact .inject hc
  case get n c k =>
    split at h
    · simp at h
    · rename_i nd hnd
      split at h
      · rename_i hc
        split at h
        · simp at h
        · rename_i rest hq
          split at h
          · simp at h
          · rename_i plan hp; simp at h; subst h; exact .getData hnd hc.1 hc.2 hq hp
        · rename_i rest hq
          split at h
          · rename_i hk
            subst hk
            split at h
            · rename_i hw; simp at h; subst h; exact .getStop hnd hc.1 hc.2 hq hw
            · rename_i hw; simp at h; subst h; exact .getStopWait hnd hc.1 hc.2 hq hw
          · simp at h
      · simp at h
  case put n =>
    split at h
    · rename_i hn
      split at h
      · rename_i c rest hs
        split at h
        · rename_i hr; simp at h; subst h; exact .putData hn hs hr
        · simp at h
      · rename_i c rest hs; simp at h; subst h; exact .putStop hn hs
      · simp at h
    · simp at h
  case main =>
    split at h
    · simp at h
    · rename_i c rest hp; simp at h; subst h; exact .mainPut hp
    · rename_i n rest hp
      split at h
      · rename_i hn; simp at h; subst h; exact .mainJoin hp hn
      · simp at h
    · rename_i rest hp; simp at h; subst h; exact .mainClear hp

def Reachable (net : Net) (s : State) : Prop := Core.Reach (step net) (init net) s

theorem reachable_inv (net : Net) {Inv : State → Prop} (h0 : Inv (init net))
    (hstep : ∀ s a s', Inv s → Step net s a s' → Inv s') {s : State} (hr : Reachable net s) : Inv s :=
  Core.invariant_reach (fun s a s' hi hs => hstep s a s' hi (step_sound net s s' a hs)) h0 hr

@[simp] theorem upd_same {β : Type} (f : Nat → β) (i : Nat) (v : β) : upd f i v i = v := by simp [upd]

theorem upd_ne {β : Type} (f : Nat → β) (i j : Nat) (v : β) (h : j ≠ i) : upd f i v j = f j := by simp [upd, h]

end Lifecycle
