import MpsVerif.Proofs.LifecycleMeasure
/-! The executable well-formedness check `Net.wf` implies the `WF` facts the proofs use. -/
namespace Lifecycle

theorem fed_of_fedBefore (net : Net) (c p : Nat) (h : fedBefore net c p = true) : Fed net c (net.script.take p) := by
  simp only [fedBefore, List.any_eq_true] at h
  obtain ⟨i, hi, hm⟩ := h
  refine ⟨i, hi, ?_⟩
  cases i with
  | put c' => left; simp at hm; rw [hm]
  | clear => simp at hm
  | join m =>
    right
    simp only at hm
    cases hmd : net.nodes[m]? with
    | none => rw [hmd] at hm; simp at hm
    | some md =>
      rw [hmd] at hm
      exact ⟨m, md, rfl, hmd, by simpa using hm⟩

/-- the Prop-level content of `nodeOk` -/
structure NodeOk (net : Net) (n : Nat) (nd : NodeDesc) : Prop where
  weight : ∀ (x : Nat), x ∈ nd.ins → ∀ (x_1 : List Nat), x_1 ∈ nd.plans → 1 + planCost net x_1 ≤ wOf net x
  joined : Instr.join n ∈ net.script
  fed : ∀ (x : Nat), x < net.script.length → net.script[x]? ≠ some (Instr.join n) ∨
          (if nd.all = true then nd.ins.all fun c => fedBefore net c x else nd.ins.any fun c => fedBefore net c x) = true
  plansNe : nd.plans.isEmpty = false
  allOk : nd.all = false ∨ nd.rebro = false ∧ nd.ins.isEmpty = false
  uniq : nd.rebro = true ∨ ∀ (x : Nat), x ∈ nd.ins → ∀ (x_1 : Nat), x_1 < net.nodes.length →
          x_1 = n ∨ (match net.nodes[x_1]? with
                      | some md => !md.ins.contains x
                      | none => true) = true
  insRange : ∀ (x : Nat), x ∈ nd.ins → x < net.caps.length

theorem nodeOk_spec (net : Net) (n : Nat) (nd : NodeDesc) (h : nodeOk net n nd = true) : NodeOk net n nd := by
  simp only [nodeOk, Bool.and_eq_true, List.all_eq_true, List.mem_range, decide_eq_true_eq, Bool.or_eq_true,
    List.contains_iff_mem, bne_iff_ne, Bool.not_eq_true'] at h
  exact ⟨h.1.1.1.1.1.1.1.1, h.1.1.1.1.1.1.1.2, h.1.1.1.1.1.1.2, h.1.1.1.1.1.2, h.1.1.1.1.2, h.1.1.1.2, h.1.1.2⟩

theorem wf_sound (net : Net) (h : net.wf = true) : WF net := by
  simp only [Net.wf, Bool.and_eq_true, List.all_eq_true, List.mem_range, decide_eq_true_eq, List.contains_iff_mem] at h
  obtain ⟨⟨⟨⟨hnodes, hclear⟩, hscr⟩, _⟩, _⟩ := h
  have hnode : ∀ (n : Nat) (nd : NodeDesc), net.nodes[n]? = some nd → NodeOk net n nd := by
    intro n nd hnd
    have := hnodes n (lt_of_getElem? hnd)
    rw [hnd] at this
    exact nodeOk_spec net n nd this
  refine ⟨?_, ?_, ?_, ?_, ?_, ?_, ?_, hclear, ?_⟩
  · intro n nd hnd c hc plan hp
    exact (hnode n nd hnd).weight c hc plan hp
  · intro n hn
    exact (hnode n net.nodes[n] (List.getElem?_eq_getElem hn)).joined
  · intro n nd hnd pre rest hs
    have hp : pre.length < net.script.length := by rw [hs]; simp
    have hget : net.script[pre.length]? = some (Instr.join n) := by rw [hs]; simp
    have htake : net.script.take pre.length = pre := by rw [hs]; simp
    rcases (hnode n nd hnd).fed pre.length hp with h | h
    · exact absurd hget h
    · constructor
      · intro ha
        simp only [ha, Bool.false_eq_true, if_false, List.any_eq_true] at h
        obtain ⟨c, hc, hf⟩ := h
        refine ⟨c, hc, ?_⟩
        have := fed_of_fedBefore net c pre.length hf
        rwa [htake] at this
      · intro ha c hc
        simp only [ha, if_true, List.all_eq_true] at h
        have := fed_of_fedBefore net c pre.length (h c hc)
        rwa [htake] at this
  · intro n nd hnd ha
    rcases (hnode n nd hnd).allOk with h | h
    · rw [ha] at h; cases h
    · refine ⟨h.1, ?_⟩
      intro he; rw [he] at h; simp at h
  · intro n nd hnd he
    have := (hnode n nd hnd).plansNe
    rw [he] at this; simp at this
  · intro n nd hnd hrb c hc m md hmd hcm
    rcases (hnode n nd hnd).uniq with h | h
    · rw [hrb] at h; cases h
    · rcases h c hc m (lt_of_getElem? hmd) with h | h
      · exact h
      · rw [hmd] at h; simp at h; exact absurd hcm h
  · intro n nd hnd c hc
    exact (hnode n nd hnd).insRange c hc
  · intro n hn
    have := hscr (.join n) hn
    simpa using this

end Lifecycle
