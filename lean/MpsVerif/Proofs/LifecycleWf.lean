import MpsVerif.Proofs.LifecycleMeasure
/-! The executable well-formedness check `Net.wf` implies the `WF` facts the proofs use. -/
namespace Lifecycle

theorem fed_of_fedBefore (net : Net) (c p : Nat) (h : fedBefore net c p = true) : Fed net c (net.script.take p) := by
  simp only [fedBefore, List.any_eq_true] at h
  obtain ⟨i, hi, hm⟩ := h
  refine ⟨i, hi, ?_⟩
  cases i with
  | put c' => left; simp at hm; rw [hm]
  | clear => simp at hm
  | join m =>
    right
    simp only at hm
    cases hmd : net.nodes[m]? with
    | none => rw [hmd] at hm; simp at hm
    | some md =>
      rw [hmd] at hm
      exact ⟨m, md, rfl, hmd, by simpa using hm⟩

theorem wf_sound (net : Net) (h : net.wf = true) : WF net := by
  simp only [Net.wf, Bool.and_eq_true, List.all_eq_true, List.mem_range, decide_eq_true_eq, List.contains_iff_mem] at h
  obtain ⟨⟨⟨⟨hnodes, hclear⟩, hscr⟩, _⟩, _⟩ := h
  have hnode : ∀ (n : Nat) (nd : NodeDesc), net.nodes[n]? = some nd →
      (((((((∀ (x : Nat), x ∈ nd.ins → ∀ (x_1 : List Nat), x_1 ∈ nd.plans → 1 + planCost net x_1 ≤ wOf net x) ∧
                Instr.join n ∈ net.script) ∧
              ∀ (x : Nat),
                x < net.script.length →
                  net.script[x]? ≠ some (Instr.join n) ∨ ∃ x_1, x_1 ∈ nd.ins ∧ fedBefore net x_1 x = true) ∧
            nd.plans.isEmpty = false) ∧
          (nd.rebro = true ∨
            ∀ (x : Nat),
              x ∈ nd.ins →
                ∀ (x_1 : Nat),
                  x_1 < net.nodes.length →
                    x_1 = n ∨
                      (match net.nodes[x_1]? with
                        | some md => !md.ins.contains x
                        | none => true) =
                        true)) ∧
        ∀ (x : Nat), x ∈ nd.ins → x < net.caps.length) ∧
      ∀ (x : Nat), x ∈ nd.souts → x < net.caps.length) ∧
    ∀ (x : List Nat), x ∈ nd.plans → ∀ (x_1 : Nat), x_1 ∈ x → x_1 < net.caps.length := by
    intro n nd hnd
    have := hnodes n (lt_of_getElem? hnd)
    rw [hnd] at this
    simp only [nodeOk, Bool.and_eq_true, List.all_eq_true, List.mem_range, decide_eq_true_eq, Bool.or_eq_true,
      List.any_eq_true, List.contains_iff_mem, bne_iff_ne, Bool.not_eq_true'] at this
    exact this
  refine ⟨?_, ?_, ?_, ?_, ?_, ?_, hclear, ?_⟩
  · intro n nd hnd c hc plan hp
    exact (hnode n nd hnd).1.1.1.1.1.1.1 c hc plan hp
  · intro n hn
    exact (hnode n net.nodes[n] (List.getElem?_eq_getElem hn)).1.1.1.1.1.1.2
  · intro n nd hnd pre rest hs
    have hp : pre.length < net.script.length := by rw [hs]; simp
    have hget : net.script[pre.length]? = some (Instr.join n) := by rw [hs]; simp
    rcases (hnode n nd hnd).1.1.1.1.1.2 pre.length hp with h | ⟨c, hc, hf⟩
    · exact absurd hget h
    · refine ⟨c, hc, ?_⟩
      have := fed_of_fedBefore net c pre.length hf
      rw [hs] at this
      simpa using this
  · intro n nd hnd he
    have := (hnode n nd hnd).1.1.1.1.2
    rw [he] at this; simp at this
  · intro n nd hnd hrb c hc m md hmd hcm
    rcases (hnode n nd hnd).1.1.1.2 with h | h
    · rw [hrb] at h; cases h
    · rcases h c hc m (lt_of_getElem? hmd) with h | h
      · exact h
      · rw [hmd] at h; simp at h; exact absurd hcm h
  · intro n nd hnd c hc
    exact (hnode n nd hnd).1.1.2 c hc
  · intro n hn
    have := hscr (.join n) hn
    simpa using this

end Lifecycle
