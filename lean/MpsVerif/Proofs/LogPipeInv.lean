import MpsVerif.Model.LogPipe
/-! Inductive invariant of the `LogPipe` model: conservation and order of the records between
    emission and handling, the shape of the pipe (no record behind an end mark), who has got how
    far, and the end-mark accounting. -/
namespace LogPipe

theorem recsOf_append_record (p : List Item) (i : Nat) : recsOf (p ++ [.record i]) = recsOf p ++ [i] := by
  induction p with
  | nil => rfl
  | cons x r ih => cases x <;> simp [recsOf, ih]

theorem recsOf_append_mark (p : List Item) : recsOf (p ++ [.mark]) = recsOf p := by
  induction p with
  | nil => rfl
  | cons x r ih => cases x <;> simp [recsOf, ih]

theorem marksOf_append_record (p : List Item) (i : Nat) : marksOf (p ++ [.record i]) = marksOf p := by
  induction p with
  | nil => rfl
  | cons x r ih => cases x <;> simp [marksOf, ih]

theorem marksOf_append_mark (p : List Item) : marksOf (p ++ [.mark]) = marksOf p + 1 := by
  induction p with
  | nil => rfl
  | cons x r ih => cases x <;> simp [marksOf, ih]

theorem wf_append_mark (p : List Item) : wf (p ++ [.mark]) = wf p := by
  induction p with
  | nil => rfl
  | cons x r ih => cases x <;> simp [wf, ih, recsOf_append_mark]

theorem wf_append_record (p : List Item) (i : Nat) (h : marksOf p = 0) : wf (p ++ [.record i]) = wf p := by
  induction p with
  | nil => rfl
  | cons x r ih =>
    cases x with
    | record j => simp only [List.cons_append, wf]; exact ih (by simpa [marksOf] using h)
    | mark => simp [marksOf] at h

structure Inv (c : Cfg) (s : State) : Prop where
  order : s.consumed ++ recsOf s.pipe ++ s.cbuf = List.range s.emitted
  hand : s.handled = s.consumed.filter c.pass
  le : s.emitted ≤ c.n
  shape : wf s.pipe = true
  d1 : s.cpc = .emit → s.sent = 0 ∧ s.qclosed = false
  d2 : s.cpc ≠ .emit → s.emitted = c.n
  d3 : s.cpc = .send1 → s.sent = 0 ∧ s.qclosed = false
  d4 : s.cpc = .send2 → s.sent = 1 ∧ s.qclosed = false
  d5 : s.cpc = .closeQ → s.sent = 2 ∧ s.qclosed = false
  d6 : s.cpc = .joinF ∨ s.cpc = .exited → s.sent = 2 ∧ s.qclosed = true
  d7 : s.fdone = true → s.qclosed = true ∧ s.cbuf = []
  d8 : s.cpc = .exited → s.fdone = true
  e1 : s.kpc = .recv1 → s.recvd = 0
  e2 : s.kpc = .recv2 → s.recvd = 1
  e3 : s.kpc ≠ .recv1 ∧ s.kpc ≠ .recv2 → s.recvd = 2
  e4 : s.recvd ≤ s.sent
  e5 : s.kpc = .putEnd ∨ s.kpc = .joinLog ∨ s.kpc = .resolve ∨ s.kpc = .done → s.cpc = .exited
  e6 : s.kpc = .recv1 ∨ s.kpc = .recv2 ∨ s.kpc = .waitExit ∨ s.kpc = .putEnd →
        s.pbuf = 0 ∧ marksOf s.pipe = 0 ∧ s.lstopped = false
  e7 : s.kpc = .joinLog ∨ s.kpc = .resolve ∨ s.kpc = .done →
        s.pbuf + marksOf s.pipe + (if s.lstopped = true then 1 else 0) = 1 + (if s.finalized = true then 1 else 0)
  e8 : s.kpc = .resolve ∨ s.kpc = .done → s.lstopped = true
  e9 : s.finalized = true → s.kpc = .done
  e10 : (s.kpc = .done → s.fut = true ∧ s.handledAtResolve = s.handled.length) ∧ (s.kpc ≠ .done → s.fut = false)
  g1 : s.lstopped = true → recsOf s.pipe = [] ∧ s.cpc = .exited

theorem inv_init (c : Cfg) : Inv c init := by
  constructor <;> simp [init, recsOf, marksOf, wf]

/-- while the child has not exited there is no end mark anywhere -/
theorem no_marks_of_alive {c : Cfg} {s : State} (hi : Inv c s) (h : s.cpc ≠ .exited) :
    s.pbuf = 0 ∧ marksOf s.pipe = 0 ∧ s.lstopped = false := by
  apply hi.e6
  cases hk : s.kpc
  · simp
  · simp
  · simp
  · simp
  · exact absurd (hi.e5 (by simp [hk])) h
  · exact absurd (hi.e5 (by simp [hk])) h
  · exact absurd (hi.e5 (by simp [hk])) h

theorem inv_emit (c : Cfg) (s : State) (hi : Inv c s) (hc : s.cpc = .emit) (hlt : s.emitted < c.n) :
    Inv c { s with cbuf := s.cbuf ++ [s.emitted], emitted := s.emitted + 1 } :=
  { hi with
    order := by
      show s.consumed ++ recsOf s.pipe ++ (s.cbuf ++ [s.emitted]) = List.range (s.emitted + 1)
      rw [List.range_succ, ← hi.order]; simp [List.append_assoc]
    le := hlt
    d2 := fun h => absurd hc h
    d7 := fun h => by have := (hi.d7 h).1; rw [(hi.d1 hc).2] at this; cases this }

theorem inv_targetEnd (c : Cfg) (s : State) (hi : Inv c s) (hc : s.cpc = .emit) (he : s.emitted = c.n) :
    Inv c { s with cpc := .send1 } :=
  { hi with
    d1 := fun h => by cases h
    d2 := fun _ => he
    d3 := fun _ => hi.d1 hc
    d4 := fun h => by cases h
    d5 := fun h => by cases h
    d6 := fun h => by rcases h with h | h <;> cases h
    d8 := fun h => by cases h
    e5 := fun h => by have := hi.e5 h; rw [hc] at this; cases this
    g1 := fun h => by have := (hi.g1 h).2; rw [hc] at this; cases this }

theorem inv_send1 (c : Cfg) (s : State) (hi : Inv c s) (hc : s.cpc = .send1) :
    Inv c { s with cpc := .send2, sent := s.sent + 1 } :=
  { hi with
    d1 := fun h => by cases h
    d2 := fun _ => hi.d2 (by rw [hc]; simp)
    d3 := fun h => by cases h
    d4 := fun _ => ⟨by show s.sent + 1 = 1; rw [(hi.d3 hc).1], (hi.d3 hc).2⟩
    d5 := fun h => by cases h
    d6 := fun h => by rcases h with h | h <;> cases h
    d8 := fun h => by cases h
    e4 := Nat.le_succ_of_le hi.e4
    e5 := fun h => by have := hi.e5 h; rw [hc] at this; cases this
    g1 := fun h => by have := (hi.g1 h).2; rw [hc] at this; cases this }

theorem inv_send2 (c : Cfg) (s : State) (hi : Inv c s) (hc : s.cpc = .send2) :
    Inv c { s with cpc := .closeQ, sent := s.sent + 1 } :=
  { hi with
    d1 := fun h => by cases h
    d2 := fun _ => hi.d2 (by rw [hc]; simp)
    d3 := fun h => by cases h
    d4 := fun h => by cases h
    d5 := fun _ => ⟨by show s.sent + 1 = 2; rw [(hi.d4 hc).1], (hi.d4 hc).2⟩
    d6 := fun h => by rcases h with h | h <;> cases h
    d8 := fun h => by cases h
    e4 := Nat.le_succ_of_le hi.e4
    e5 := fun h => by have := hi.e5 h; rw [hc] at this; cases this
    g1 := fun h => by have := (hi.g1 h).2; rw [hc] at this; cases this }

theorem inv_closeQ (c : Cfg) (s : State) (hi : Inv c s) (hc : s.cpc = .closeQ) :
    Inv c { s with cpc := .joinF, qclosed := true } :=
  { hi with
    d1 := fun h => by cases h
    d2 := fun _ => hi.d2 (by rw [hc]; simp)
    d3 := fun h => by cases h
    d4 := fun h => by cases h
    d5 := fun h => by cases h
    d6 := fun _ => ⟨(hi.d5 hc).1, rfl⟩
    d7 := fun h => ⟨rfl, (hi.d7 h).2⟩
    d8 := fun h => by cases h
    e5 := fun h => by have := hi.e5 h; rw [hc] at this; cases this
    g1 := fun h => by have := (hi.g1 h).2; rw [hc] at this; cases this }

theorem inv_feed (c : Cfg) (s : State) (i : Nat) (rest : List Nat) (hi : Inv c s)
    (hb : s.cbuf = i :: rest) (hf : s.fdone = false) :
    Inv c { s with cbuf := rest, pipe := s.pipe ++ [.record i] } := by
  have hne : s.cpc ≠ .exited := by
    intro h; have := hi.d8 h; rw [hf] at this; cases this
  obtain ⟨m1, m2, m3⟩ := no_marks_of_alive hi hne
  exact
  { hi with
    order := by
      show s.consumed ++ recsOf (s.pipe ++ [.record i]) ++ rest = List.range s.emitted
      rw [← hi.order, hb, recsOf_append_record]; simp [List.append_assoc]
    shape := by
      show wf (s.pipe ++ [.record i]) = true
      rw [wf_append_record _ _ m2]; exact hi.shape
    d7 := fun h => by rw [hf] at h; cases h
    e6 := fun h => by
      show s.pbuf = 0 ∧ marksOf (s.pipe ++ [.record i]) = 0 ∧ s.lstopped = false
      rw [marksOf_append_record]; exact hi.e6 h
    e7 := fun h => by
      show s.pbuf + marksOf (s.pipe ++ [.record i]) + (if s.lstopped = true then 1 else 0)
        = 1 + (if s.finalized = true then 1 else 0)
      rw [marksOf_append_record]; exact hi.e7 h
    g1 := fun h => by rw [m3] at h; cases h }

theorem inv_feedEnd (c : Cfg) (s : State) (hi : Inv c s) (hb : s.cbuf = []) (hq : s.qclosed = true) :
    Inv c { s with fdone := true } :=
  { hi with
    d7 := fun _ => ⟨hq, hb⟩
    d8 := fun _ => rfl }

theorem inv_exit (c : Cfg) (s : State) (hi : Inv c s) (hc : s.cpc = .joinF) (hf : s.fdone = true) :
    Inv c { s with cpc := .exited } :=
  { hi with
    d1 := fun h => by cases h
    d2 := fun _ => hi.d2 (by rw [hc]; simp)
    d3 := fun h => by cases h
    d4 := fun h => by cases h
    d5 := fun h => by cases h
    d6 := fun _ => hi.d6 (Or.inl hc)
    d8 := fun _ => hf
    e5 := fun _ => rfl
    g1 := fun h => ⟨(hi.g1 h).1, rfl⟩ }

theorem inv_kRecv1 (c : Cfg) (s : State) (hi : Inv c s) (hk : s.kpc = .recv1) (hlt : s.recvd < s.sent) :
    Inv c { s with kpc := .recv2, recvd := s.recvd + 1 } :=
  { hi with
    e1 := fun h => by cases h
    e2 := fun _ => by show s.recvd + 1 = 1; rw [hi.e1 hk]
    e3 := fun h => absurd rfl h.2
    e4 := hlt
    e5 := fun h => by rcases h with h | h | h | h <;> cases h
    e6 := fun _ => hi.e6 (Or.inl hk)
    e7 := fun h => by rcases h with h | h | h <;> cases h
    e8 := fun h => by rcases h with h | h <;> cases h
    e9 := fun h => by have := hi.e9 h; rw [hk] at this; cases this
    e10 := ⟨fun h => (by cases h), fun _ => hi.e10.2 (by rw [hk]; simp)⟩ }

theorem inv_kRecv2 (c : Cfg) (s : State) (hi : Inv c s) (hk : s.kpc = .recv2) (hlt : s.recvd < s.sent) :
    Inv c { s with kpc := .waitExit, recvd := s.recvd + 1 } :=
  { hi with
    e1 := fun h => by cases h
    e2 := fun h => by cases h
    e3 := fun _ => by show s.recvd + 1 = 2; rw [hi.e2 hk]
    e4 := hlt
    e5 := fun h => by rcases h with h | h | h | h <;> cases h
    e6 := fun _ => hi.e6 (Or.inr (Or.inl hk))
    e7 := fun h => by rcases h with h | h | h <;> cases h
    e8 := fun h => by rcases h with h | h <;> cases h
    e9 := fun h => by have := hi.e9 h; rw [hk] at this; cases this
    e10 := ⟨fun h => (by cases h), fun _ => hi.e10.2 (by rw [hk]; simp)⟩ }

theorem inv_kSentinel (c : Cfg) (s : State) (hi : Inv c s) (hk : s.kpc = .waitExit) (hc : s.cpc = .exited) :
    Inv c { s with kpc := .putEnd } :=
  { hi with
    e1 := fun h => by cases h
    e2 := fun h => by cases h
    e3 := fun _ => hi.e3 (by rw [hk]; simp)
    e5 := fun _ => hc
    e6 := fun _ => hi.e6 (Or.inr (Or.inr (Or.inl hk)))
    e7 := fun h => by rcases h with h | h | h <;> cases h
    e8 := fun h => by rcases h with h | h <;> cases h
    e9 := fun h => by have := hi.e9 h; rw [hk] at this; cases this
    e10 := ⟨fun h => (by cases h), fun _ => hi.e10.2 (by rw [hk]; simp)⟩ }

theorem inv_kPutEnd (c : Cfg) (s : State) (hi : Inv c s) (hk : s.kpc = .putEnd) :
    Inv c { s with kpc := .joinLog, pbuf := s.pbuf + 1 } := by
  obtain ⟨m1, m2, m3⟩ := hi.e6 (Or.inr (Or.inr (Or.inr hk)))
  have hfin : s.finalized = false := by
    cases hf : s.finalized with
    | false => rfl
    | true => have := hi.e9 hf; rw [hk] at this; cases this
  exact
  { hi with
    e1 := fun h => by cases h
    e2 := fun h => by cases h
    e3 := fun _ => hi.e3 (by rw [hk]; simp)
    e5 := fun _ => hi.e5 (Or.inl hk)
    e6 := fun h => by rcases h with h | h | h | h <;> cases h
    e7 := fun _ => by
      show s.pbuf + 1 + marksOf s.pipe + (if s.lstopped = true then 1 else 0)
        = 1 + (if s.finalized = true then 1 else 0)
      rw [m1, m2, m3, hfin]
    e8 := fun h => by rcases h with h | h <;> cases h
    e9 := fun h => by rw [hfin] at h; cases h
    e10 := ⟨fun h => (by cases h), fun _ => hi.e10.2 (by rw [hk]; simp)⟩ }

theorem inv_pfeed (c : Cfg) (s : State) (hi : Inv c s) (hp : 0 < s.pbuf) :
    Inv c { s with pbuf := s.pbuf - 1, pipe := s.pipe ++ [.mark] } :=
  { hi with
    order := by
      show s.consumed ++ recsOf (s.pipe ++ [.mark]) ++ s.cbuf = List.range s.emitted
      rw [recsOf_append_mark]; exact hi.order
    shape := by
      show wf (s.pipe ++ [.mark]) = true
      rw [wf_append_mark]; exact hi.shape
    e6 := fun h => by have := (hi.e6 h).1; omega
    e7 := fun h => by
      show s.pbuf - 1 + marksOf (s.pipe ++ [.mark]) + (if s.lstopped = true then 1 else 0)
        = 1 + (if s.finalized = true then 1 else 0)
      rw [marksOf_append_mark]; have := hi.e7 h; omega
    g1 := fun h => by
      show recsOf (s.pipe ++ [.mark]) = [] ∧ _
      rw [recsOf_append_mark]; exact hi.g1 h }

theorem inv_lget (c : Cfg) (s : State) (i : Nat) (rest : List Item) (hi : Inv c s)
    (hl : s.lstopped = false) (hp : s.pipe = .record i :: rest) :
    Inv c { s with pipe := rest, consumed := s.consumed ++ [i],
                   handled := if c.pass i then s.handled ++ [i] else s.handled } :=
  { hi with
    order := by
      show s.consumed ++ [i] ++ recsOf rest ++ s.cbuf = List.range s.emitted
      rw [← hi.order, hp]; simp [recsOf, List.append_assoc]
    hand := by
      show (if c.pass i then s.handled ++ [i] else s.handled) = (s.consumed ++ [i]).filter c.pass
      rw [List.filter_append, hi.hand]
      cases hpi : c.pass i <;> simp [hpi]
    shape := by have := hi.shape; rw [hp] at this; simpa [wf] using this
    e6 := fun h => by
      have := hi.e6 h; rw [hp] at this; simpa [marksOf] using this
    e7 := fun h => by
      have := hi.e7 h; rw [hp] at this; simpa [marksOf] using this
    e10 := ⟨fun h => (by have := hi.e8 (Or.inr h); rw [hl] at this; cases this), hi.e10.2⟩
    g1 := fun h => by rw [hl] at h; cases h }

theorem inv_lend (c : Cfg) (s : State) (rest : List Item) (hi : Inv c s)
    (hl : s.lstopped = false) (hp : s.pipe = .mark :: rest) :
    Inv c { s with pipe := rest, lstopped := true } := by
  have hsh := hi.shape
  rw [hp] at hsh
  simp only [wf, Bool.and_eq_true, List.isEmpty_iff] at hsh
  have hex : s.cpc = .exited := by
    by_cases h : s.cpc = .exited
    · exact h
    · have := (no_marks_of_alive hi h).2.1; rw [hp] at this; simp [marksOf] at this
  exact
  { hi with
    order := by
      show s.consumed ++ recsOf rest ++ s.cbuf = List.range s.emitted
      rw [← hi.order, hp]; simp [recsOf]
    shape := hsh.2
    e6 := fun h => by have := (hi.e6 h).2.1; rw [hp] at this; simp [marksOf] at this
    e7 := fun h => by
      show s.pbuf + marksOf rest + (if true = true then 1 else 0) = 1 + (if s.finalized = true then 1 else 0)
      have := hi.e7 h; rw [hp, hl] at this; simp [marksOf] at this ⊢; omega
    e8 := fun _ => rfl
    g1 := fun _ => ⟨hsh.1, hex⟩ }

theorem inv_kJoinLog (c : Cfg) (s : State) (hi : Inv c s) (hk : s.kpc = .joinLog) (hl : s.lstopped = true) :
    Inv c { s with kpc := .resolve } :=
  { hi with
    e1 := fun h => by cases h
    e2 := fun h => by cases h
    e3 := fun _ => hi.e3 (by rw [hk]; simp)
    e5 := fun _ => hi.e5 (Or.inr (Or.inl hk))
    e6 := fun h => by rcases h with h | h | h | h <;> cases h
    e7 := fun _ => hi.e7 (Or.inl hk)
    e8 := fun _ => hl
    e9 := fun h => by have := hi.e9 h; rw [hk] at this; cases this
    e10 := ⟨fun h => (by cases h), fun _ => hi.e10.2 (by rw [hk]; simp)⟩ }

theorem inv_kResolve (c : Cfg) (s : State) (hi : Inv c s) (hk : s.kpc = .resolve) :
    Inv c { s with kpc := .done, fut := true, handledAtResolve := s.handled.length } :=
  { hi with
    e1 := fun h => by cases h
    e2 := fun h => by cases h
    e3 := fun _ => hi.e3 (by rw [hk]; simp)
    e5 := fun _ => hi.e5 (Or.inr (Or.inr (Or.inl hk)))
    e6 := fun h => by rcases h with h | h | h | h <;> cases h
    e7 := fun _ => hi.e7 (Or.inr (Or.inl hk))
    e8 := fun _ => hi.e8 (Or.inl hk)
    e9 := fun _ => rfl
    e10 := ⟨fun _ => ⟨rfl, rfl⟩, fun h => absurd rfl h⟩ }

theorem inv_fin (c : Cfg) (s : State) (hi : Inv c s) (hk : s.kpc = .done) (hf : s.finalized = false) :
    Inv c { s with finalized := true, pbuf := s.pbuf + 1 } :=
  { hi with
    e6 := fun h => by rw [hk] at h; rcases h with h | h | h | h <;> cases h
    e7 := fun h => by
      show s.pbuf + 1 + marksOf s.pipe + (if s.lstopped = true then 1 else 0) = 1 + (if true = true then 1 else 0)
      have := hi.e7 h; rw [hf] at this; simp at this ⊢; omega
    e9 := fun _ => hk }

theorem inv_step (c : Cfg) (s s' : State) (a : Act) (hi : Inv c s) (h : step c s a = some s') :
    Inv c s' := by
  cases a <;> simp only [step] at h
  case emit => split at h <;> simp at h; subst h; rename_i hc; exact inv_emit c s hi hc.1 hc.2
  case targetEnd => split at h <;> simp at h; subst h; rename_i hc; exact inv_targetEnd c s hi hc.1 hc.2
  case send1 => split at h <;> simp at h; subst h; exact inv_send1 c s hi (by assumption)
  case send2 => split at h <;> simp at h; subst h; exact inv_send2 c s hi (by assumption)
  case closeQ => split at h <;> simp at h; subst h; exact inv_closeQ c s hi (by assumption)
  case feed =>
    split at h
    · rename_i i rest hb
      split at h <;> simp at h; subst h; rename_i hc
      exact inv_feed c s i rest hi hb hc.1
    · simp at h
  case feedEnd => split at h <;> simp at h; subst h; rename_i hc; exact inv_feedEnd c s hi hc.1 hc.2.1
  case exit => split at h <;> simp at h; subst h; rename_i hc; exact inv_exit c s hi hc.1 hc.2
  case kRecv =>
    split at h
    · rename_i hlt
      split at h <;> simp at h
      · subst h; exact inv_kRecv1 c s hi (by assumption) hlt
      · subst h; exact inv_kRecv2 c s hi (by assumption) hlt
    · simp at h
  case kSentinel => split at h <;> simp at h; subst h; rename_i hc; exact inv_kSentinel c s hi hc.1 hc.2
  case kPutEnd => split at h <;> simp at h; subst h; exact inv_kPutEnd c s hi (by assumption)
  case pfeed => split at h <;> simp at h; subst h; rename_i hc; exact inv_pfeed c s hi hc.1
  case lget =>
    split at h
    · rename_i hl
      split at h <;> simp at h
      subst h; rename_i i rest hp; exact inv_lget c s i rest hi hl hp
    · simp at h
  case lend =>
    split at h
    · rename_i hl
      split at h <;> simp at h
      subst h; rename_i rest hp; exact inv_lend c s rest hi hl hp
    · simp at h
  case kJoinLog => split at h <;> simp at h; subst h; rename_i hc; exact inv_kJoinLog c s hi hc.1 hc.2
  case kResolve => split at h <;> simp at h; subst h; exact inv_kResolve c s hi (by assumption)
  case fin => split at h <;> simp at h; subst h; rename_i hc; exact inv_fin c s hi hc.1 hc.2

theorem reachable_inv (c : Cfg) {s : State} (hr : Reachable c s) : Inv c s :=
  Core.invariant_reach (fun s a s' => inv_step c s s' a) (inv_init c) hr

end LogPipe
