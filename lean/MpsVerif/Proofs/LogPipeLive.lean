import MpsVerif.Proofs.LogPipeInv
/-! Termination measure and progress of the `LogPipe` model. -/
namespace LogPipe

def crank : CPc → Nat
  | .emit => 5 | .send1 => 4 | .send2 => 3 | .closeQ => 2 | .joinF => 1 | .exited => 0

def krank : KPc → Nat
  | .recv1 => 8 | .recv2 => 7 | .waitExit => 6 | .putEnd => 5 | .joinLog => 2 | .resolve => 1 | .done => 0

/-- every record still has to be emitted (3), fed into the pipe (2) and read (1); every end mark
    fed (2) and possibly read (1) -/
def mu (c : Cfg) (s : State) : Nat :=
  3 * (c.n - s.emitted) + 2 * s.cbuf.length + s.pipe.length + 2 * s.pbuf + crank s.cpc + krank s.kpc +
    (if s.fdone = true then 0 else 1) + (if s.lstopped = true then 0 else 1) + (if s.finalized = true then 0 else 3)

theorem mu_decreases (c : Cfg) (s s' : State) (a : Act) (h : step c s a = some s') : mu c s' < mu c s := by
  cases a <;> simp only [step] at h
  case emit =>
    split at h <;> simp at h; subst h; rename_i hc
    simp only [mu, List.length_append, List.length_singleton]; omega
  case targetEnd =>
    split at h <;> simp at h; subst h; rename_i hc
    simp only [mu, hc.1, crank]; omega
  case send1 =>
    split at h <;> simp at h; subst h; rename_i hc
    simp only [mu, hc, crank]; omega
  case send2 =>
    split at h <;> simp at h; subst h; rename_i hc
    simp only [mu, hc, crank]; omega
  case closeQ =>
    split at h <;> simp at h; subst h; rename_i hc
    simp only [mu, hc, crank]; omega
  case feed =>
    split at h
    · rename_i i rest hb
      split at h <;> simp at h; subst h
      simp only [mu, hb, List.length_append, List.length_cons, List.length_nil]; omega
    · simp at h
  case feedEnd =>
    split at h <;> simp at h; subst h; rename_i hc
    simp [mu, hc.2.2]
  case exit =>
    split at h <;> simp at h; subst h; rename_i hc
    simp only [mu, hc.1, crank]; omega
  case kRecv =>
    split at h
    · split at h <;> simp at h <;> subst h <;> rename_i hk <;> simp only [mu, hk, krank] <;> omega
    · simp at h
  case kSentinel =>
    split at h <;> simp at h; subst h; rename_i hc
    simp only [mu, hc.1, krank]; omega
  case kPutEnd =>
    split at h <;> simp at h; subst h; rename_i hc
    simp only [mu, hc, krank]; omega
  case pfeed =>
    split at h <;> simp at h; subst h; rename_i hc
    simp only [mu, List.length_append, List.length_singleton]; omega
  case lget =>
    split at h
    · split at h <;> simp at h
      subst h; rename_i i rest hp
      simp only [mu, hp, List.length_cons]; omega
    · simp at h
  case lend =>
    split at h
    · rename_i hl
      split at h <;> simp at h
      subst h; rename_i rest hp
      simp only [mu, hp, hl, List.length_cons]; simp; omega
    · simp at h
  case kJoinLog =>
    split at h <;> simp at h; subst h; rename_i hc
    simp only [mu, hc.1, krank]; omega
  case kResolve =>
    split at h <;> simp at h; subst h; rename_i hc
    simp only [mu, hc, krank]; omega
  case fin =>
    split at h <;> simp at h; subst h; rename_i hc
    simp only [mu, hc.2]; simp; omega

/-- progress: with a pipe that holds at least one record, every reachable state that is not final
    has an enabled action — in particular the child is never stuck behind a full pipe, and the
    collector is never stuck waiting for the logger thread -/
theorem progress_of_inv (c : Cfg) (hK : 1 ≤ c.K) (s : State) (hi : Inv c s) (hnf : ¬ Final s) :
    ∃ a, (step c s a).isSome = true := by
  -- the logger thread can always take the head of a non-empty pipe while it runs
  have logger : s.lstopped = false → s.pipe ≠ [] → ∃ a, (step c s a).isSome = true := by
    intro hl hp
    cases hpp : s.pipe with
    | nil => exact absurd hpp hp
    | cons x rest =>
      cases x with
      | record i => exact ⟨.lget, by simp [step, hl, hpp]⟩
      | mark => exact ⟨.lend, by simp [step, hl, hpp]⟩
  cases hcp : s.cpc with
  | emit =>
    by_cases hlt : s.emitted < c.n
    · exact ⟨.emit, by simp [step, hcp, hlt]⟩
    · have : s.emitted = c.n := by have := hi.le; omega
      exact ⟨.targetEnd, by simp [step, hcp, this]⟩
  | send1 => exact ⟨.send1, by simp [step, hcp]⟩
  | send2 => exact ⟨.send2, by simp [step, hcp]⟩
  | closeQ => exact ⟨.closeQ, by simp [step, hcp]⟩
  | joinF =>
    cases hf : s.fdone with
    | true => exact ⟨.exit, by simp [step, hcp, hf]⟩
    | false =>
      cases hb : s.cbuf with
      | nil =>
        have hq := (hi.d6 (Or.inl hcp)).2
        exact ⟨.feedEnd, by simp [step, hb, hq, hf]⟩
      | cons i rest =>
        by_cases hk : s.pipe.length < c.K
        · exact ⟨.feed, by simp [step, hb, hf, hk]⟩
        · have hne : s.cpc ≠ .exited := by rw [hcp]; simp
          have hl := (no_marks_of_alive hi hne).2.2
          apply logger hl
          intro hp; rw [hp] at hk; simp at hk; omega
  | exited =>
    have hsent := (hi.d6 (Or.inr hcp)).1
    cases hkp : s.kpc with
    | recv1 =>
      have := hi.e1 hkp
      exact ⟨.kRecv, by simp [step, hkp, this, hsent]⟩
    | recv2 =>
      have := hi.e2 hkp
      exact ⟨.kRecv, by simp [step, hkp, this, hsent]⟩
    | waitExit => exact ⟨.kSentinel, by simp [step, hkp, hcp]⟩
    | putEnd => exact ⟨.kPutEnd, by simp [step, hkp]⟩
    | joinLog =>
      cases hl : s.lstopped with
      | true => exact ⟨.kJoinLog, by simp [step, hkp, hl]⟩
      | false =>
        cases hpp : s.pipe with
        | cons x rest => exact logger hl (by rw [hpp]; simp)
        | nil =>
          have h7 := hi.e7 (Or.inl hkp)
          have hfin : s.finalized = false := by
            cases hf : s.finalized with
            | false => rfl
            | true => have := hi.e9 hf; rw [hkp] at this; cases this
          rw [hpp, hl, hfin] at h7
          simp [marksOf] at h7
          exact ⟨.pfeed, by simp [step, h7, hpp]; omega⟩
    | resolve => exact ⟨.kResolve, by simp [step, hkp]⟩
    | done => exact absurd ⟨hcp, hkp, hi.e8 (Or.inr hkp)⟩ hnf

end LogPipe
