import MpsVerif.Proofs.MuxStep
/-! Invariants of the multiplexing model. -/
namespace Mux

theorem mem_remove {a : List (Nat × Nat)} {rid : Nat} {e : Nat × Nat} :
    e ∈ remove a rid ↔ e ∈ a ∧ e.1 ≠ rid := by
  simp [remove]

theorem keys_nodup_remove {a : List (Nat × Nat)} (rid : Nat) (h : (a.map Prod.fst).Nodup) :
    ((remove a rid).map Prod.fst).Nodup := by
  unfold remove
  exact h.sublist (List.Sublist.map _ List.filter_sublist)

theorem keys_nodup_insert {a : List (Nat × Nat)} (rid k : Nat) (h : (a.map Prod.fst).Nodup) :
    ((insert a rid k).map Prod.fst).Nodup := by
  simp only [insert, List.map_cons, List.nodup_cons]
  refine ⟨?_, keys_nodup_remove rid h⟩
  simp [remove]

theorem mem_unique {a : List (Nat × Nat)} (h : (a.map Prod.fst).Nodup) {rid k1 k2 : Nat}
    (h1 : (rid, k1) ∈ a) (h2 : (rid, k2) ∈ a) : k1 = k2 := by
  induction a with
  | nil => simp at h1
  | cons e a ih =>
    simp only [List.map_cons, List.nodup_cons, List.mem_map, not_exists, not_and] at h
    simp only [List.mem_cons] at h1 h2
    rcases h1 with h1 | h1 <;> rcases h2 with h2 | h2
    · rw [← h1] at h2; simpa using h2.symm
    · exact absurd (by rw [← h1]) (h.1 _ h2)
    · exact absurd (by rw [← h2]) (h.1 _ h1)
    · exact ih h.2 h1 h2

theorem mem_of_lookup {a : List (Nat × Nat)} {rid k : Nat} (h : lookup a rid = some k) : (rid, k) ∈ a := by
  simp only [lookup, Option.map_eq_some_iff] at h
  obtain ⟨e, he, hk⟩ := h
  have h1 := List.mem_of_find?_eq_some he
  have h2 := List.find?_some he
  simp at h2
  cases e; simp_all

theorem lookup_of_mem {a : List (Nat × Nat)} (h : (a.map Prod.fst).Nodup) {rid k : Nat}
    (hm : (rid, k) ∈ a) : lookup a rid = some k := by
  cases hl : lookup a rid with
  | none =>
    simp only [lookup, Option.map_eq_none_iff, List.find?_eq_none] at hl
    have := hl _ hm
    simp at this
  | some k' =>
    have := mem_unique h (mem_of_lookup hl) hm
    rw [this]

theorem conn_cases {l : List Conn} {ci cj : Nat} {cn' cn2 : Conn} (h : (l.set ci cn')[cj]? = some cn2) :
    (cj = ci ∧ cn2 = cn') ∨ (cj ≠ ci ∧ l[cj]? = some cn2) := by
  rw [List.getElem?_set] at h
  split at h
  · rename_i he
    split at h
    · simp at h; exact Or.inl ⟨he.symm, h.symm⟩
    · simp at h
  · rename_i he; exact Or.inr ⟨fun e => he e.symm, h⟩

/-- The invariant.  `gk`/`stage` are ghost; the non-ghost content is: `active` is a well-formed dict
    whose entries are exactly consistent with the records in flight, live ids are distinct, every
    record in flight carries its own request's payload (resp. the handler's response to it), every
    future is set at most once and with its own response. -/
structure Inv (c : Cfg) (s : State) : Prop where
  act_keys : (s.active.map Prod.fst).Nodup
  act_ok : ∀ rid k, (rid, k) ∈ s.active →
    (∃ r, s.reqs[k]? = some r ∧ r.id = rid) ∧ s.stage k ≠ .pending ∧ s.stage k ≠ .resolved
  ids_inj : ∀ k1 k2 r1 r2, s.reqs[k1]? = some r1 → s.reqs[k2]? = some r2 →
    s.stage k1 ≠ .resolved → s.stage k2 ≠ .resolved → r1.id = r2.id → k1 = k2
  pend_ok : ∀ x k, (x, k) ∈ s.pending → (∃ r, s.reqs[k]? = some r ∧ r.data = x) ∧ s.stage k = .pending
  pend_nd : (s.pending.map Prod.snd).Nodup
  wire_ok : ∀ (ci : Nat) (cn : Conn), s.conns[ci]? = some cn → ∀ m ∈ cn.wire,
    (m.rid, m.gk) ∈ s.active ∧ (∃ r, s.reqs[m.gk]? = some r ∧ r.data = m.data) ∧ s.stage m.gk = .wire ci
  srv_ok : ∀ (ci : Nat) (cn : Conn), s.conns[ci]? = some cn → ∀ m ∈ cn.srvq,
    (m.rid, m.gk) ∈ s.active ∧ (∃ r, s.reqs[m.gk]? = some r ∧ r.data = m.data) ∧ s.stage m.gk = .srv ci
  back_ok : ∀ (ci : Nat) (cn : Conn), s.conns[ci]? = some cn → ∀ m ∈ cn.back,
    (m.rid, m.gk) ∈ s.active ∧ (∃ r, s.reqs[m.gk]? = some r ∧ m.resp = c.handler r.data) ∧ s.stage m.gk = .back ci
  wire_nd : ∀ (ci : Nat) (cn : Conn), s.conns[ci]? = some cn → (cn.wire.map (·.gk)).Nodup
  srv_nd : ∀ (ci : Nat) (cn : Conn), s.conns[ci]? = some cn → (cn.srvq.map (·.gk)).Nodup
  back_nd : ∀ (ci : Nat) (cn : Conn), s.conns[ci]? = some cn → (cn.back.map (·.gk)).Nodup
  res_ok : ∀ k v, (k, v) ∈ s.results → (∃ r, s.reqs[k]? = some r ∧ v = c.handler r.data) ∧ s.stage k = .resolved
  res_nd : (s.results.map Prod.fst).Nodup
  task_ok : ∀ x k, (x, k) ∈ s.tasks → ∃ r, s.reqs[k]? = some r ∧ r.data = x
  sout_ok : ∀ x v, (x, v) ∈ s.sout → v = c.handler x
  sin_eq : s.sout.map Prod.fst ++ s.tasks.map Prod.fst = s.sin

theorem inv_init (c : Cfg) : Inv c (init c) := by
  constructor <;> simp [init, emptyConn]
  all_goals
    intro ci cn h
    rw [List.getElem?_replicate] at h
    split at h <;> simp at h
    subst h; simp


theorem mem_of_resultOf {rs : List (Nat × Resp)} {k : Nat} {v : Resp} (h : resultOf rs k = some v) : (k, v) ∈ rs := by
  simp only [resultOf, Option.map_eq_some_iff] at h
  obtain ⟨e, he, hk⟩ := h
  have h1 := List.mem_of_find?_eq_some he
  have h2 := List.find?_some he
  simp at h2
  cases e; simp_all

theorem inv_syield (c : Cfg) (s : State) (hi : Inv c s) {x k rest v} (ht : s.tasks = (x, k) :: rest)
    (hv : resultOf s.results k = some v) : Inv c { s with tasks := rest, sout := s.sout ++ [(x, v)] } := by
  have hm := mem_of_resultOf hv
  obtain ⟨⟨r, hr, hvr⟩, _⟩ := hi.res_ok k v hm
  obtain ⟨r2, hr2, hx⟩ := hi.task_ok x k (by rw [ht]; simp)
  constructor
  case task_ok => intro x' k' h; exact hi.task_ok x' k' (by rw [ht]; simp [h])
  case sout_ok =>
    intro x' v' h
    simp only [List.mem_append, List.mem_singleton, Prod.mk.injEq] at h
    rcases h with h | ⟨h1, h2⟩
    · exact hi.sout_ok x' v' h
    · subst h1 h2; rw [hr] at hr2; cases hr2; rw [hvr, hx]
  case sin_eq => have := hi.sin_eq; rw [ht] at this; simpa using this
  all_goals first | exact hi.act_keys | exact hi.act_ok | exact hi.ids_inj | exact hi.pend_ok | exact hi.pend_nd | exact hi.wire_ok | exact hi.srv_ok | exact hi.back_ok | exact hi.wire_nd | exact hi.srv_nd | exact hi.back_nd | exact hi.res_ok | exact hi.res_nd


theorem inv_finish (c : Cfg) (s : State) (hi : Inv c s) {ci j cn t} (hc : s.conns[ci]? = some cn)
    (ht : cn.srvq[j]? = some t) :
    Inv c { s with conns := s.conns.set ci { cn with srvq := cn.srvq.set j { t with done := true } } } := by
  have hmap : (cn.srvq.set j { t with done := true }).map (·.gk) = cn.srvq.map (·.gk) := by
    apply List.ext_getElem?
    intro i
    simp only [List.getElem?_map, List.getElem?_set]
    split
    · rename_i h; subst h
      split
      · simp [ht]
      · rename_i h2; simp at h2; simp [List.getElem?_eq_none h2]
    · rfl
  have hmem : ∀ m ∈ cn.srvq.set j { t with done := true }, ∃ m0 ∈ cn.srvq, m.rid = m0.rid ∧ m.data = m0.data ∧ m.gk = m0.gk := by
    intro m hm
    rcases List.mem_or_eq_of_mem_set hm with h | h
    · exact ⟨m, h, rfl, rfl, rfl⟩
    · subst h; exact ⟨t, List.mem_of_getElem? ht, rfl, rfl, rfl⟩
  constructor
  case wire_ok =>
    intro cj cn2 h m hm
    rcases conn_cases h with ⟨h1, h2⟩ | ⟨h1, h2⟩
    · subst h1 h2; exact hi.wire_ok _ cn hc m hm
    · exact hi.wire_ok cj cn2 h2 m hm
  case back_ok =>
    intro cj cn2 h m hm
    rcases conn_cases h with ⟨h1, h2⟩ | ⟨h1, h2⟩
    · subst h1 h2; exact hi.back_ok _ cn hc m hm
    · exact hi.back_ok cj cn2 h2 m hm
  case srv_ok =>
    intro cj cn2 h m hm
    rcases conn_cases h with ⟨h1, h2⟩ | ⟨h1, h2⟩
    · subst h1 h2
      obtain ⟨m0, hm0, e1, e2, e3⟩ := hmem m hm
      have := hi.srv_ok _ cn hc m0 hm0
      rw [e1, e2, e3]; exact this
    · exact hi.srv_ok cj cn2 h2 m hm
  case wire_nd =>
    intro cj cn2 h
    rcases conn_cases h with ⟨h1, h2⟩ | ⟨h1, h2⟩
    · subst h1 h2; exact hi.wire_nd _ cn hc
    · exact hi.wire_nd cj cn2 h2
  case back_nd =>
    intro cj cn2 h
    rcases conn_cases h with ⟨h1, h2⟩ | ⟨h1, h2⟩
    · subst h1 h2; exact hi.back_nd _ cn hc
    · exact hi.back_nd cj cn2 h2
  case srv_nd =>
    intro cj cn2 h
    rcases conn_cases h with ⟨h1, h2⟩ | ⟨h1, h2⟩
    · subst h1 h2; simp only; rw [hmap]; exact hi.srv_nd _ cn hc
    · exact hi.srv_nd cj cn2 h2
  all_goals first | exact hi.act_keys | exact hi.act_ok | exact hi.ids_inj | exact hi.pend_ok | exact hi.pend_nd | exact hi.res_ok | exact hi.res_nd | exact hi.task_ok | exact hi.sout_ok | exact hi.sin_eq


theorem upd_same (f : Nat → Stage) (k : Nat) (st : Stage) : upd f k st k = st := by simp [upd]
theorem upd_other (f : Nat → Stage) {k i : Nat} (st : Stage) (h : i ≠ k) : upd f k st i = f i := by simp [upd, h]

theorem inv_srvRecv (c : Cfg) (s : State) (hi : Inv c s) {ci cn m rest} (hc : s.conns[ci]? = some cn)
    (hw : cn.wire = m :: rest) :
    Inv c { s with conns := s.conns.set ci { cn with wire := rest, srvq := cn.srvq ++ [⟨m.rid, m.data, false, m.gk⟩] },
                   stage := upd s.stage m.gk (.srv ci) } := by
  have hm := hi.wire_ok ci cn hc m (by rw [hw]; simp)
  have hnd := hi.wire_nd ci cn hc
  rw [hw] at hnd
  simp only [List.map_cons, List.nodup_cons, List.mem_map, not_exists, not_and] at hnd
  -- every other tracked key differs from m.gk
  have hstage : ∀ k, s.stage k ≠ .wire ci → upd s.stage m.gk (.srv ci) k = s.stage k := by
    intro k hk; apply upd_other; intro e; subst e; exact hk hm.2.2
  constructor
  case act_keys => exact hi.act_keys
  case act_ok =>
    intro rid k h
    have := hi.act_ok rid k h
    refine ⟨this.1, ?_, ?_⟩ <;> (simp only [upd]; split <;> simp [this.2.1, this.2.2])
  case ids_inj =>
    intro k1 k2 r1 r2 h1 h2 s1 s2 he
    apply hi.ids_inj k1 k2 r1 r2 h1 h2 _ _ he
    · intro h; apply s1; simp only [upd]; split
      · rename_i e; subst e; rw [hm.2.2] at h; cases h
      · exact h
    · intro h; apply s2; simp only [upd]; split
      · rename_i e; subst e; rw [hm.2.2] at h; cases h
      · exact h
  case pend_ok =>
    intro x k h
    have := hi.pend_ok x k h
    refine ⟨this.1, ?_⟩
    simp only; rw [hstage k (by rw [this.2]; simp)]; exact this.2
  case pend_nd => exact hi.pend_nd
  case wire_ok =>
    intro cj cn2 h m2 hm2
    rcases conn_cases h with ⟨h1, h2⟩ | ⟨h1, h2⟩
    · subst h1 h2
      have h3 := hi.wire_ok _ cn hc m2 (by rw [hw]; simp [hm2])
      refine ⟨h3.1, h3.2.1, ?_⟩
      have : m2.gk ≠ m.gk := fun e => hnd.1 m2 hm2 e
      simp only; rw [upd_other _ _ this]; exact h3.2.2
    · have h3 := hi.wire_ok cj cn2 h2 m2 hm2
      refine ⟨h3.1, h3.2.1, ?_⟩
      simp only; rw [hstage _ (by rw [h3.2.2]; simp [h1])]; exact h3.2.2
  case srv_ok =>
    intro cj cn2 h m2 hm2
    rcases conn_cases h with ⟨h1, h2⟩ | ⟨h1, h2⟩
    · subst h1 h2
      simp only [List.mem_append, List.mem_singleton] at hm2
      rcases hm2 with hm2 | hm2
      · have h3 := hi.srv_ok _ cn hc m2 hm2
        refine ⟨h3.1, h3.2.1, ?_⟩
        simp only; rw [hstage _ (by rw [h3.2.2]; simp)]; exact h3.2.2
      · subst hm2; exact ⟨hm.1, hm.2.1, upd_same _ _ _⟩
    · have h3 := hi.srv_ok cj cn2 h2 m2 hm2
      refine ⟨h3.1, h3.2.1, ?_⟩
      simp only; rw [hstage _ (by rw [h3.2.2]; simp)]; exact h3.2.2
  case back_ok =>
    intro cj cn2 h m2 hm2
    rcases conn_cases h with ⟨h1, h2⟩ | ⟨h1, h2⟩
    · subst h1 h2
      have h3 := hi.back_ok _ cn hc m2 hm2
      refine ⟨h3.1, h3.2.1, ?_⟩
      simp only; rw [hstage _ (by rw [h3.2.2]; simp)]; exact h3.2.2
    · have h3 := hi.back_ok cj cn2 h2 m2 hm2
      refine ⟨h3.1, h3.2.1, ?_⟩
      simp only; rw [hstage _ (by rw [h3.2.2]; simp)]; exact h3.2.2
  case wire_nd =>
    intro cj cn2 h
    rcases conn_cases h with ⟨h1, h2⟩ | ⟨h1, h2⟩
    · subst h1 h2; exact hnd.2
    · exact hi.wire_nd cj cn2 h2
  case srv_nd =>
    intro cj cn2 h
    rcases conn_cases h with ⟨h1, h2⟩ | ⟨h1, h2⟩
    · subst h1 h2
      simp only [List.map_append, List.map_cons, List.map_nil]
      rw [List.nodup_append]
      refine ⟨hi.srv_nd _ cn hc, by simp, ?_⟩
      intro a ha b hb
      simp only [List.mem_map] at ha
      obtain ⟨m2, hm2, e⟩ := ha
      simp at hb; subst hb; subst e
      intro e
      have h3 := hi.srv_ok _ cn hc m2 hm2
      rw [e, hm.2.2] at h3; simp at h3
    · exact hi.srv_nd cj cn2 h2
  case back_nd =>
    intro cj cn2 h
    rcases conn_cases h with ⟨h1, h2⟩ | ⟨h1, h2⟩
    · subst h1 h2; exact hi.back_nd _ cn hc
    · exact hi.back_nd cj cn2 h2
  case res_ok =>
    intro k v h
    have := hi.res_ok k v h
    refine ⟨this.1, ?_⟩
    simp only; rw [hstage k (by rw [this.2]; simp)]; exact this.2
  case res_nd => exact hi.res_nd
  case task_ok => exact hi.task_ok
  case sout_ok => exact hi.sout_ok
  case sin_eq => exact hi.sin_eq



theorem inv_respond (c : Cfg) (s : State) (hi : Inv c s) {ci cn t rest} (hc : s.conns[ci]? = some cn)
    (hw : cn.srvq = t :: rest) :
    Inv c { s with conns := s.conns.set ci { cn with srvq := rest, back := cn.back ++ [⟨t.rid, c.handler t.data, t.gk⟩] },
                   stage := upd s.stage t.gk (.back ci) } := by
  have hm := hi.srv_ok ci cn hc t (by rw [hw]; simp)
  have hnd := hi.srv_nd ci cn hc
  rw [hw] at hnd
  simp only [List.map_cons, List.nodup_cons, List.mem_map, not_exists, not_and] at hnd
  have hstage : ∀ k, s.stage k ≠ .srv ci → upd s.stage t.gk (.back ci) k = s.stage k := by
    intro k hk; apply upd_other; intro e; subst e; exact hk hm.2.2
  constructor
  case act_keys => exact hi.act_keys
  case act_ok =>
    intro rid k h
    have := hi.act_ok rid k h
    refine ⟨this.1, ?_, ?_⟩ <;> (simp only [upd]; split <;> simp [this.2.1, this.2.2])
  case ids_inj =>
    intro k1 k2 r1 r2 h1 h2 s1 s2 he
    apply hi.ids_inj k1 k2 r1 r2 h1 h2 _ _ he
    · intro h; apply s1; simp only [upd]; split
      · rename_i e; subst e; rw [hm.2.2] at h; cases h
      · exact h
    · intro h; apply s2; simp only [upd]; split
      · rename_i e; subst e; rw [hm.2.2] at h; cases h
      · exact h
  case pend_ok =>
    intro x k h
    have := hi.pend_ok x k h
    refine ⟨this.1, ?_⟩
    simp only; rw [hstage k (by rw [this.2]; simp)]; exact this.2
  case pend_nd => exact hi.pend_nd
  case srv_ok =>
    intro cj cn2 h m2 hm2
    rcases conn_cases h with ⟨h1, h2⟩ | ⟨h1, h2⟩
    · subst h1 h2
      have h3 := hi.srv_ok _ cn hc m2 (by rw [hw]; simp [hm2])
      refine ⟨h3.1, h3.2.1, ?_⟩
      have : m2.gk ≠ t.gk := fun e => hnd.1 m2 hm2 e
      simp only; rw [upd_other _ _ this]; exact h3.2.2
    · have h3 := hi.srv_ok cj cn2 h2 m2 hm2
      refine ⟨h3.1, h3.2.1, ?_⟩
      simp only; rw [hstage _ (by rw [h3.2.2]; simp [h1])]; exact h3.2.2
  case back_ok =>
    intro cj cn2 h m2 hm2
    rcases conn_cases h with ⟨h1, h2⟩ | ⟨h1, h2⟩
    · subst h1 h2
      simp only [List.mem_append, List.mem_singleton] at hm2
      rcases hm2 with hm2 | hm2
      · have h3 := hi.back_ok _ cn hc m2 hm2
        refine ⟨h3.1, h3.2.1, ?_⟩
        simp only; rw [hstage _ (by rw [h3.2.2]; simp)]; exact h3.2.2
      · subst hm2
        obtain ⟨r, hr, hd⟩ := hm.2.1
        exact ⟨hm.1, ⟨r, hr, by simp [hd]⟩, upd_same _ _ _⟩
    · have h3 := hi.back_ok cj cn2 h2 m2 hm2
      refine ⟨h3.1, h3.2.1, ?_⟩
      simp only; rw [hstage _ (by rw [h3.2.2]; simp)]; exact h3.2.2
  case wire_ok =>
    intro cj cn2 h m2 hm2
    rcases conn_cases h with ⟨h1, h2⟩ | ⟨h1, h2⟩
    · subst h1 h2
      have h3 := hi.wire_ok _ cn hc m2 hm2
      refine ⟨h3.1, h3.2.1, ?_⟩
      simp only; rw [hstage _ (by rw [h3.2.2]; simp)]; exact h3.2.2
    · have h3 := hi.wire_ok cj cn2 h2 m2 hm2
      refine ⟨h3.1, h3.2.1, ?_⟩
      simp only; rw [hstage _ (by rw [h3.2.2]; simp)]; exact h3.2.2
  case srv_nd =>
    intro cj cn2 h
    rcases conn_cases h with ⟨h1, h2⟩ | ⟨h1, h2⟩
    · subst h1 h2; exact hnd.2
    · exact hi.srv_nd cj cn2 h2
  case back_nd =>
    intro cj cn2 h
    rcases conn_cases h with ⟨h1, h2⟩ | ⟨h1, h2⟩
    · subst h1 h2
      simp only [List.map_append, List.map_cons, List.map_nil]
      rw [List.nodup_append]
      refine ⟨hi.back_nd _ cn hc, by simp, ?_⟩
      intro a ha b hb
      simp only [List.mem_map] at ha
      obtain ⟨m2, hm2, e⟩ := ha
      simp at hb; subst hb; subst e
      intro e
      have h3 := hi.back_ok _ cn hc m2 hm2
      rw [e, hm.2.2] at h3; simp at h3
    · exact hi.back_nd cj cn2 h2
  case wire_nd =>
    intro cj cn2 h
    rcases conn_cases h with ⟨h1, h2⟩ | ⟨h1, h2⟩
    · subst h1 h2; exact hi.wire_nd _ cn hc
    · exact hi.wire_nd cj cn2 h2
  case res_ok =>
    intro k v h
    have := hi.res_ok k v h
    refine ⟨this.1, ?_⟩
    simp only; rw [hstage k (by rw [this.2]; simp)]; exact this.2
  case res_nd => exact hi.res_nd
  case task_ok => exact hi.task_ok
  case sout_ok => exact hi.sout_ok
  case sin_eq => exact hi.sin_eq



theorem inv_recv (c : Cfg) (s : State) (hi : Inv c s) {ci cn r rest k} (hc : s.conns[ci]? = some cn)
    (hb : cn.back = r :: rest) (hl : lookup s.active r.rid = some k) :
    Inv c { s with conns := s.conns.set ci { cn with back := rest },
                   active := remove s.active r.rid,
                   results := s.results ++ [(k, r.resp)],
                   stage := upd s.stage k .resolved } := by
  have hm := hi.back_ok ci cn hc r (by rw [hb]; simp)
  have hk : k = r.gk := mem_unique hi.act_keys (mem_of_lookup hl) hm.1
  subst hk
  have hnd := hi.back_nd ci cn hc
  rw [hb] at hnd
  simp only [List.map_cons, List.nodup_cons, List.mem_map, not_exists, not_and] at hnd
  have hstage : ∀ k, s.stage k ≠ .back ci → upd s.stage r.gk .resolved k = s.stage k := by
    intro k hk; apply upd_other; intro e; subst e; exact hk hm.2.2
  have hrid : ∀ rid2 k2, (rid2, k2) ∈ s.active → k2 ≠ r.gk → (rid2, k2) ∈ remove s.active r.rid := by
    intro rid2 k2 h hne
    rw [mem_remove]; refine ⟨h, ?_⟩
    intro e; simp only at e; subst e
    exact hne (mem_unique hi.act_keys h hm.1)
  have hne_of_stage : ∀ k2, s.stage k2 ≠ .back ci → k2 ≠ r.gk := by
    intro k2 h e; subst e; exact h hm.2.2
  constructor
  case act_keys => exact keys_nodup_remove _ hi.act_keys
  case act_ok =>
    intro rid k h
    rw [mem_remove] at h
    have h3 := hi.act_ok rid k h.1
    have hne : k ≠ r.gk := by
      intro e; subst e
      obtain ⟨r1, hr1, hid1⟩ := h3.1
      obtain ⟨r2, hr2, hid2⟩ := (hi.act_ok _ _ hm.1).1
      rw [hr1] at hr2; cases hr2
      exact h.2 (by simp only; rw [← hid1, hid2])
    refine ⟨h3.1, ?_, ?_⟩ <;> (simp only; rw [upd_other _ _ hne])
    · exact h3.2.1
    · exact h3.2.2
  case ids_inj =>
    intro k1 k2 r1 r2 h1 h2 s1 s2 he
    apply hi.ids_inj k1 k2 r1 r2 h1 h2 _ _ he
    · intro h; apply s1; simp only [upd]; split
      · rfl
      · exact h
    · intro h; apply s2; simp only [upd]; split
      · rfl
      · exact h
  case pend_ok =>
    intro x k h
    have := hi.pend_ok x k h
    refine ⟨this.1, ?_⟩
    simp only; rw [hstage k (by rw [this.2]; simp)]; exact this.2
  case pend_nd => exact hi.pend_nd
  case wire_ok =>
    intro cj cn2 h m2 hm2
    have h3 : (m2.rid, m2.gk) ∈ s.active ∧ (∃ r, s.reqs[m2.gk]? = some r ∧ r.data = m2.data) ∧ s.stage m2.gk = .wire cj := by
      rcases conn_cases h with ⟨h1, h2⟩ | ⟨h1, h2⟩
      · subst h1 h2; exact hi.wire_ok _ cn hc m2 hm2
      · exact hi.wire_ok cj cn2 h2 m2 hm2
    have hs : s.stage m2.gk ≠ .back ci := by rw [h3.2.2]; simp
    refine ⟨hrid _ _ h3.1 (hne_of_stage _ hs), h3.2.1, ?_⟩
    simp only; rw [hstage _ hs]; exact h3.2.2
  case srv_ok =>
    intro cj cn2 h m2 hm2
    have h3 : (m2.rid, m2.gk) ∈ s.active ∧ (∃ r, s.reqs[m2.gk]? = some r ∧ r.data = m2.data) ∧ s.stage m2.gk = .srv cj := by
      rcases conn_cases h with ⟨h1, h2⟩ | ⟨h1, h2⟩
      · subst h1 h2; exact hi.srv_ok _ cn hc m2 hm2
      · exact hi.srv_ok cj cn2 h2 m2 hm2
    have hs : s.stage m2.gk ≠ .back ci := by rw [h3.2.2]; simp
    refine ⟨hrid _ _ h3.1 (hne_of_stage _ hs), h3.2.1, ?_⟩
    simp only; rw [hstage _ hs]; exact h3.2.2
  case back_ok =>
    intro cj cn2 h m2 hm2
    rcases conn_cases h with ⟨h1, h2⟩ | ⟨h1, h2⟩
    · subst h1 h2
      have h3 := hi.back_ok _ cn hc m2 (by rw [hb]; simp [hm2])
      have hne : m2.gk ≠ r.gk := fun e => hnd.1 m2 hm2 e
      refine ⟨hrid _ _ h3.1 hne, h3.2.1, ?_⟩
      simp only; rw [upd_other _ _ hne]; exact h3.2.2
    · have h3 := hi.back_ok cj cn2 h2 m2 hm2
      have hs : s.stage m2.gk ≠ .back ci := by rw [h3.2.2]; simp [h1]
      refine ⟨hrid _ _ h3.1 (hne_of_stage _ hs), h3.2.1, ?_⟩
      simp only; rw [hstage _ hs]; exact h3.2.2
  case wire_nd =>
    intro cj cn2 h
    rcases conn_cases h with ⟨h1, h2⟩ | ⟨h1, h2⟩
    · subst h1 h2; exact hi.wire_nd _ cn hc
    · exact hi.wire_nd cj cn2 h2
  case srv_nd =>
    intro cj cn2 h
    rcases conn_cases h with ⟨h1, h2⟩ | ⟨h1, h2⟩
    · subst h1 h2; exact hi.srv_nd _ cn hc
    · exact hi.srv_nd cj cn2 h2
  case back_nd =>
    intro cj cn2 h
    rcases conn_cases h with ⟨h1, h2⟩ | ⟨h1, h2⟩
    · subst h1 h2; exact hnd.2
    · exact hi.back_nd cj cn2 h2
  case res_ok =>
    intro k v h
    simp only [List.mem_append, List.mem_singleton, Prod.mk.injEq] at h
    rcases h with h | ⟨h1, h2⟩
    · have := hi.res_ok k v h
      refine ⟨this.1, ?_⟩
      simp only; rw [hstage k (by rw [this.2]; simp)]; exact this.2
    · subst h1 h2
      exact ⟨hm.2.1, upd_same _ _ _⟩
  case res_nd =>
    simp only [List.map_append, List.map_cons, List.map_nil]
    rw [List.nodup_append]
    refine ⟨hi.res_nd, by simp, ?_⟩
    intro a ha b hb2
    simp only [List.mem_map] at ha
    obtain ⟨⟨k2, v2⟩, hm2, e⟩ := ha
    simp at hb2; subst hb2; simp only at e; subst e
    intro e
    have h3 := hi.res_ok _ _ hm2
    rw [e, hm.2.2] at h3; simp at h3
  case task_ok => exact hi.task_ok
  case sout_ok => exact hi.sout_ok
  case sin_eq => exact hi.sin_eq



theorem inv_send (c : Cfg) (s : State) (hi : Inv c s) {ci x k rest cn r} (hp : s.pending = (x, k) :: rest)
    (hc : s.conns[ci]? = some cn) (hr : s.reqs[k]? = some r) :
    Inv c { s with pending := rest,
                   conns := s.conns.set ci { cn with wire := cn.wire ++ [⟨r.id, x, k⟩] },
                   active := insert s.active r.id k,
                   stage := upd s.stage k (.wire ci) } := by
  have hpk := hi.pend_ok x k (by rw [hp]; simp)
  obtain ⟨⟨r', hr', hx⟩, hst⟩ := hpk
  rw [hr] at hr'; cases hr'
  have hnd := hi.pend_nd
  rw [hp] at hnd
  simp only [List.map_cons, List.nodup_cons, List.mem_map, not_exists, not_and] at hnd
  have hnokey : ∀ k2, (r.id, k2) ∉ s.active := by
    intro k2 h
    obtain ⟨⟨r2, hr2, hid⟩, h1, h2⟩ := hi.act_ok _ _ h
    have := hi.ids_inj k2 k r2 r hr2 hr h2 (by rw [hst]; simp) hid
    subst this; exact h1 hst
  have hstage : ∀ k2, s.stage k2 ≠ .pending → upd s.stage k (.wire ci) k2 = s.stage k2 := by
    intro k2 hk; apply upd_other; intro e; subst e; exact hk hst
  have hins : ∀ rid2 k2, (rid2, k2) ∈ s.active → (rid2, k2) ∈ insert s.active r.id k := by
    intro rid2 k2 h
    simp only [insert, List.mem_cons]; right
    rw [mem_remove]; refine ⟨h, ?_⟩
    intro e; simp only at e; subst e; exact hnokey k2 h
  have hnew : (r.id, k) ∈ insert s.active r.id k := by simp [insert]
  constructor
  case act_keys => exact keys_nodup_insert _ _ hi.act_keys
  case act_ok =>
    intro rid2 k2 h
    simp only [insert, List.mem_cons, Prod.mk.injEq] at h
    rcases h with ⟨h1, h2⟩ | h
    · subst h1 h2
      refine ⟨⟨r, hr, rfl⟩, ?_, ?_⟩ <;> simp [upd]
    · rw [mem_remove] at h
      have h3 := hi.act_ok rid2 k2 h.1
      refine ⟨h3.1, ?_, ?_⟩ <;> (simp only; rw [hstage _ h3.2.1])
      · exact h3.2.1
      · exact h3.2.2
  case ids_inj =>
    intro k1 k2 r1 r2 h1 h2 s1 s2 he
    apply hi.ids_inj k1 k2 r1 r2 h1 h2 _ _ he
    · intro h; apply s1; simp only [upd]; split
      · rename_i e; subst e; rw [hst] at h; cases h
      · exact h
    · intro h; apply s2; simp only [upd]; split
      · rename_i e; subst e; rw [hst] at h; cases h
      · exact h
  case pend_ok =>
    intro x2 k2 h
    have h3 := hi.pend_ok x2 k2 (by rw [hp]; simp [h])
    refine ⟨h3.1, ?_⟩
    have hne : k2 ≠ k := fun e => hnd.1 (x2, k2) h e
    simp only; rw [upd_other _ _ hne]; exact h3.2
  case pend_nd => exact hnd.2
  case wire_ok =>
    intro cj cn2 h m2 hm2
    rcases conn_cases h with ⟨h1, h2⟩ | ⟨h1, h2⟩
    · subst h1 h2
      simp only [List.mem_append, List.mem_singleton] at hm2
      rcases hm2 with hm2 | hm2
      · have h3 := hi.wire_ok _ cn hc m2 hm2
        refine ⟨hins _ _ h3.1, h3.2.1, ?_⟩
        simp only; rw [hstage _ (by rw [h3.2.2]; simp)]; exact h3.2.2
      · subst hm2
        exact ⟨hnew, ⟨r, hr, hx⟩, upd_same _ _ _⟩
    · have h3 := hi.wire_ok cj cn2 h2 m2 hm2
      refine ⟨hins _ _ h3.1, h3.2.1, ?_⟩
      simp only; rw [hstage _ (by rw [h3.2.2]; simp)]; exact h3.2.2
  case srv_ok =>
    intro cj cn2 h m2 hm2
    have h3 : (m2.rid, m2.gk) ∈ s.active ∧ (∃ r, s.reqs[m2.gk]? = some r ∧ r.data = m2.data) ∧ s.stage m2.gk = .srv cj := by
      rcases conn_cases h with ⟨h1, h2⟩ | ⟨h1, h2⟩
      · subst h1 h2; exact hi.srv_ok _ cn hc m2 hm2
      · exact hi.srv_ok cj cn2 h2 m2 hm2
    refine ⟨hins _ _ h3.1, h3.2.1, ?_⟩
    simp only; rw [hstage _ (by rw [h3.2.2]; simp)]; exact h3.2.2
  case back_ok =>
    intro cj cn2 h m2 hm2
    have h3 : (m2.rid, m2.gk) ∈ s.active ∧ (∃ r, s.reqs[m2.gk]? = some r ∧ m2.resp = c.handler r.data) ∧ s.stage m2.gk = .back cj := by
      rcases conn_cases h with ⟨h1, h2⟩ | ⟨h1, h2⟩
      · subst h1 h2; exact hi.back_ok _ cn hc m2 hm2
      · exact hi.back_ok cj cn2 h2 m2 hm2
    refine ⟨hins _ _ h3.1, h3.2.1, ?_⟩
    simp only; rw [hstage _ (by rw [h3.2.2]; simp)]; exact h3.2.2
  case wire_nd =>
    intro cj cn2 h
    rcases conn_cases h with ⟨h1, h2⟩ | ⟨h1, h2⟩
    · subst h1 h2
      simp only [List.map_append, List.map_cons, List.map_nil]
      rw [List.nodup_append]
      refine ⟨hi.wire_nd _ cn hc, by simp, ?_⟩
      intro a ha b hb
      simp only [List.mem_map] at ha
      obtain ⟨m2, hm2, e⟩ := ha
      simp at hb; subst hb; subst e
      intro e
      have h3 := hi.wire_ok _ cn hc m2 hm2
      rw [e, hst] at h3; simp at h3
    · exact hi.wire_nd cj cn2 h2
  case srv_nd =>
    intro cj cn2 h
    rcases conn_cases h with ⟨h1, h2⟩ | ⟨h1, h2⟩
    · subst h1 h2; exact hi.srv_nd _ cn hc
    · exact hi.srv_nd cj cn2 h2
  case back_nd =>
    intro cj cn2 h
    rcases conn_cases h with ⟨h1, h2⟩ | ⟨h1, h2⟩
    · subst h1 h2; exact hi.back_nd _ cn hc
    · exact hi.back_nd cj cn2 h2
  case res_ok =>
    intro k2 v h
    have := hi.res_ok k2 v h
    refine ⟨this.1, ?_⟩
    simp only; rw [hstage k2 (by rw [this.2]; simp)]; exact this.2
  case res_nd => exact hi.res_nd
  case task_ok => exact hi.task_ok
  case sout_ok => exact hi.sout_ok
  case sin_eq => exact hi.sin_eq



theorem getElem?_snoc {α} {l : List α} {a r : α} {k : Nat} (h : (l ++ [a])[k]? = some r) :
    (k < l.length ∧ l[k]? = some r) ∨ (k = l.length ∧ r = a) := by
  by_cases hk : k < l.length
  · rw [List.getElem?_append_left hk] at h; exact Or.inl ⟨hk, h⟩
  · have hk' : l.length ≤ k := by omega
    rw [List.getElem?_append_right hk'] at h
    by_cases h0 : k - l.length = 0
    · rw [h0] at h; simp at h; exact Or.inr ⟨by omega, h.symm⟩
    · have : 1 ≤ k - l.length := by omega
      rw [List.getElem?_eq_none (by simpa using this)] at h; simp at h

theorem getElem?_snoc_old {α} {l : List α} {a r : α} {k : Nat} (h : l[k]? = some r) : (l ++ [a])[k]? = some r := by
  have hk : k < l.length := by
    by_cases hk : k < l.length
    · exact hk
    · rw [List.getElem?_eq_none (by omega)] at h; simp at h
  rw [List.getElem?_append_left hk]; exact h

theorem lt_of_getElem? {α} {l : List α} {r : α} {k : Nat} (h : l[k]? = some r) : k < l.length := by
  by_cases hk : k < l.length
  · exact hk
  · rw [List.getElem?_eq_none (by omega)] at h; simp at h

theorem inv_new (c : Cfg) (s : State) (hi : Inv c s) {x id : Nat} (hf : Fresh s id) (T : List (Nat × Nat)) (S : List Nat)
    (hT : ∀ x' k, (x', k) ∈ T → ∃ r, (s.reqs ++ [⟨x, id⟩])[k]? = some r ∧ r.data = x')
    (hS : s.sout.map Prod.fst ++ T.map Prod.fst = S) :
    Inv c { s with reqs := s.reqs ++ [⟨x, id⟩], pending := s.pending ++ [(x, s.reqs.length)],
                   tasks := T, sin := S, stage := upd s.stage s.reqs.length .pending } := by
  have hold : ∀ k r, s.reqs[k]? = some r → upd s.stage s.reqs.length .pending k = s.stage k := by
    intro k r h; apply upd_other; have := lt_of_getElem? h; omega
  constructor
  case act_keys => exact hi.act_keys
  case act_ok =>
    intro rid k h
    obtain ⟨⟨r, hr, hid⟩, h1, h2⟩ := hi.act_ok rid k h
    refine ⟨⟨r, getElem?_snoc_old hr, hid⟩, ?_, ?_⟩ <;> (simp only; rw [hold k r hr]) <;> assumption
  case ids_inj =>
    intro k1 k2 r1 r2 h1 h2 s1 s2 he
    simp only at h1 h2 s1 s2
    rcases getElem?_snoc h1 with ⟨l1, o1⟩ | ⟨e1, n1⟩ <;> rcases getElem?_snoc h2 with ⟨l2, o2⟩ | ⟨e2, n2⟩
    · rw [hold k1 r1 o1] at s1; rw [hold k2 r2 o2] at s2
      exact hi.ids_inj k1 k2 r1 r2 o1 o2 s1 s2 he
    · rw [hold k1 r1 o1] at s1
      rcases hf k1 l1 with h | h
      · exact absurd h s1
      · exfalso; apply h
        have : s.reqs[k1] = r1 := by
          have := List.getElem?_eq_getElem l1; rw [this] at o1; simpa using o1
        rw [this, he, n2]
    · rw [hold k2 r2 o2] at s2
      rcases hf k2 l2 with h | h
      · exact absurd h s2
      · exfalso; apply h
        have : s.reqs[k2] = r2 := by
          have := List.getElem?_eq_getElem l2; rw [this] at o2; simpa using o2
        rw [this, ← he, n1]
    · omega
  case pend_ok =>
    intro x2 k2 h
    simp only [List.mem_append, List.mem_singleton, Prod.mk.injEq] at h
    rcases h with h | ⟨h1, h2⟩
    · obtain ⟨⟨r, hr, hd⟩, h3⟩ := hi.pend_ok x2 k2 h
      refine ⟨⟨r, getElem?_snoc_old hr, hd⟩, ?_⟩
      simp only; rw [hold k2 r hr]; exact h3
    · subst h1 h2
      refine ⟨⟨⟨x2, id⟩, by simp, rfl⟩, upd_same _ _ _⟩
  case pend_nd =>
    simp only [List.map_append, List.map_cons, List.map_nil]
    rw [List.nodup_append]
    refine ⟨hi.pend_nd, by simp, ?_⟩
    intro a ha b hb
    simp only [List.mem_map] at ha
    obtain ⟨⟨x2, k2⟩, hm2, e⟩ := ha
    simp at hb; subst hb; simp only at e; subst e
    obtain ⟨⟨r, hr, _⟩, _⟩ := hi.pend_ok x2 k2 hm2
    have := lt_of_getElem? hr; omega
  case wire_ok =>
    intro cj cn2 h m2 hm2
    obtain ⟨h1, ⟨r, hr, hd⟩, h3⟩ := hi.wire_ok cj cn2 h m2 hm2
    refine ⟨h1, ⟨r, getElem?_snoc_old hr, hd⟩, ?_⟩
    simp only; rw [hold _ r hr]; exact h3
  case srv_ok =>
    intro cj cn2 h m2 hm2
    obtain ⟨h1, ⟨r, hr, hd⟩, h3⟩ := hi.srv_ok cj cn2 h m2 hm2
    refine ⟨h1, ⟨r, getElem?_snoc_old hr, hd⟩, ?_⟩
    simp only; rw [hold _ r hr]; exact h3
  case back_ok =>
    intro cj cn2 h m2 hm2
    obtain ⟨h1, ⟨r, hr, hd⟩, h3⟩ := hi.back_ok cj cn2 h m2 hm2
    refine ⟨h1, ⟨r, getElem?_snoc_old hr, hd⟩, ?_⟩
    simp only; rw [hold _ r hr]; exact h3
  case wire_nd => exact hi.wire_nd
  case srv_nd => exact hi.srv_nd
  case back_nd => exact hi.back_nd
  case res_ok =>
    intro k v h
    obtain ⟨⟨r, hr, hd⟩, h3⟩ := hi.res_ok k v h
    refine ⟨⟨r, getElem?_snoc_old hr, hd⟩, ?_⟩
    simp only; rw [hold _ r hr]; exact h3
  case res_nd => exact hi.res_nd
  case task_ok => exact hT
  case sout_ok => exact hi.sout_ok
  case sin_eq => exact hS

theorem inv_submit (c : Cfg) (s : State) (hi : Inv c s) {x id : Nat} (hf : Fresh s id) :
    Inv c { s with reqs := s.reqs ++ [⟨x, id⟩], pending := s.pending ++ [(x, s.reqs.length)],
                   stage := upd s.stage s.reqs.length .pending } :=
  inv_new c s hi hf s.tasks s.sin
    (fun x' k h => by obtain ⟨r, hr, hd⟩ := hi.task_ok x' k h; exact ⟨r, getElem?_snoc_old hr, hd⟩) hi.sin_eq

theorem inv_ssubmit (c : Cfg) (s : State) (hi : Inv c s) {x id : Nat} (hf : Fresh s id) :
    Inv c { s with reqs := s.reqs ++ [⟨x, id⟩], pending := s.pending ++ [(x, s.reqs.length)],
                   tasks := s.tasks ++ [(x, s.reqs.length)], sin := s.sin ++ [x],
                   stage := upd s.stage s.reqs.length .pending } :=
  inv_new c s hi hf _ _
    (fun x' k h => by
      simp only [List.mem_append, List.mem_singleton, Prod.mk.injEq] at h
      rcases h with h | ⟨h1, h2⟩
      · obtain ⟨r, hr, hd⟩ := hi.task_ok x' k h; exact ⟨r, getElem?_snoc_old hr, hd⟩
      · subst h1 h2; exact ⟨⟨x', id⟩, by simp, rfl⟩)
    (by rw [← hi.sin_eq]; simp)


/-- the invariant is preserved by every step -/
theorem inv_step (c : Cfg) (s : State) (a : Act) (s' : State) (hi : Inv c s) (hs : Step c s a s') : Inv c s' := by
  cases hs with
  | submit hf _ => exact inv_submit c s hi hf
  | ssubmit hf _ => exact inv_ssubmit c s hi hf
  | send hp hc hr _ => exact inv_send c s hi hp hc hr
  | srvRecv hc hw _ => exact inv_srvRecv c s hi hc hw
  | finish hc ht _ => exact inv_finish c s hi hc ht
  | respond hc hq _ _ => exact inv_respond c s hi hc hq
  | recv hc hb hl => exact inv_recv c s hi hc hb hl
  | syield ht hv => exact inv_syield c s hi ht hv

theorem all_reachable (c : Cfg) {s : State} (hr : Reachable c s) : Inv c s :=
  reachable_inv c (inv_init c) (fun s a s' hi hs => inv_step c s a s' hi hs) hr

end Mux
