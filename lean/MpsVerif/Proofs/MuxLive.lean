import MpsVerif.Proofs.MuxInv
/-!
Liveness side of the multiplexing model: no request is ever lost (every request that exists is in
exactly the place its ghost stage says: `Located`), progress (an unresolved request always has an
enabled internal action) and a measure that every internal action decreases.
-/
namespace Mux

/-- some record of queue `proj` of connection `ci` descends from request `k` -/
def InQ {α : Type} (proj : Conn → List α) (gk : α → Nat) (conns : List Conn) (ci k : Nat) : Prop :=
  ∃ cn m, conns[ci]? = some cn ∧ m ∈ proj cn ∧ gk m = k

theorem get_set_same {l : List Conn} {ci : Nat} {cn cn' : Conn} (h : l[ci]? = some cn) :
    (l.set ci cn')[ci]? = some cn' := by
  have := lt_of_getElem? h
  simp [this]

theorem get_set_other {l : List Conn} {ci cj : Nat} {cn' : Conn} (h : cj ≠ ci) :
    (l.set ci cn')[cj]? = l[cj]? := by
  rw [List.getElem?_set]; simp [Ne.symm h]

theorem inQ_set {α : Type} {proj : Conn → List α} {gk : α → Nat} {conns : List Conn} {ci : Nat} {cn cn' : Conn}
    (hc : conns[ci]? = some cn) {cj k : Nat}
    (hsub : ∀ m ∈ proj cn, gk m = k → ∃ m' ∈ proj cn', gk m' = k) :
    InQ proj gk conns cj k → InQ proj gk (conns.set ci cn') cj k := by
  rintro ⟨cn2, m, h1, h2, h3⟩
  by_cases hj : cj = ci
  · subst hj
    rw [hc] at h1; cases h1
    obtain ⟨m', hm', hk'⟩ := hsub m h2 h3
    exact ⟨cn', m', get_set_same hc, hm', hk'⟩
  · exact ⟨cn2, m, by rw [get_set_other hj]; exact h1, h2, h3⟩

theorem inQ_new {α : Type} {proj : Conn → List α} {gk : α → Nat} {conns : List Conn} {ci : Nat} {cn cn' : Conn}
    (hc : conns[ci]? = some cn) {m : α} (hm : m ∈ proj cn') : InQ proj gk (conns.set ci cn') ci (gk m) :=
  ⟨cn', m, get_set_same hc, hm, rfl⟩

def InPend (s : State) (k : Nat) : Prop := ∃ x, (x, k) ∈ s.pending
def InRes (s : State) (k : Nat) : Prop := ∃ v, (k, v) ∈ s.results

def LocatedAt (s : State) (k : Nat) : Stage → Prop
  | .pending => InPend s k
  | .wire ci => InQ Conn.wire Msg.gk s.conns ci k
  | .srv ci => InQ Conn.srvq Task.gk s.conns ci k
  | .back ci => InQ Conn.back Rsp.gk s.conns ci k
  | .resolved => InRes s k

/-- every request that exists is where its stage says -/
def Located (s : State) : Prop := ∀ k r, s.reqs[k]? = some r → LocatedAt s k (s.stage k)

theorem locatedAt_mono {s s' : State} {k : Nat} {st : Stage}
    (hp : InPend s k → InPend s' k)
    (hw : ∀ ci, InQ Conn.wire Msg.gk s.conns ci k → InQ Conn.wire Msg.gk s'.conns ci k)
    (hs : ∀ ci, InQ Conn.srvq Task.gk s.conns ci k → InQ Conn.srvq Task.gk s'.conns ci k)
    (hb : ∀ ci, InQ Conn.back Rsp.gk s.conns ci k → InQ Conn.back Rsp.gk s'.conns ci k)
    (hr : InRes s k → InRes s' k) : LocatedAt s k st → LocatedAt s' k st := by
  cases st with
  | pending => exact hp
  | wire ci => exact hw ci
  | srv ci => exact hs ci
  | back ci => exact hb ci
  | resolved => exact hr

theorem located_init (c : Cfg) : Located (init c) := by
  intro k r h; simp [init] at h

theorem keep {α : Type} {l : List α} {gk : α → Nat} {k : Nat} :
    ∀ m ∈ l, gk m = k → ∃ m' ∈ l, gk m' = k := fun m hm hk => ⟨m, hm, hk⟩

theorem loc_step (c : Cfg) (s : State) (a : Act) (s' : State) (hi : Inv c s) (hl : Located s)
    (hs : Step c s a s') : Located s' := by
  cases hs with
  | @submit x id hf _ =>
    intro k r hk
    rcases getElem?_snoc hk with ⟨hlt, hold⟩ | ⟨he, _⟩
    · have hne : k ≠ s.reqs.length := by omega
      have := hl k r hold
      simp only [upd_other _ _ hne]
      refine locatedAt_mono (s := s) ?_ (fun _ h => h) (fun _ h => h) (fun _ h => h) (fun h => h) this
      rintro ⟨x', hx'⟩; exact ⟨x', by simp [hx']⟩
    · subst he
      simp only [upd_same]
      exact ⟨x, by simp⟩
  | @ssubmit x id hf _ =>
    intro k r hk
    rcases getElem?_snoc hk with ⟨hlt, hold⟩ | ⟨he, _⟩
    · have hne : k ≠ s.reqs.length := by omega
      have := hl k r hold
      simp only [upd_other _ _ hne]
      refine locatedAt_mono (s := s) ?_ (fun _ h => h) (fun _ h => h) (fun _ h => h) (fun h => h) this
      rintro ⟨x', hx'⟩; exact ⟨x', by simp [hx']⟩
    · subst he
      simp only [upd_same]
      exact ⟨x, by simp⟩
  | @send ci x k0 rest cn r0 hp hc hr _ =>
    intro k r hk
    by_cases hk0 : k = k0
    · subst hk0
      simp only [upd_same]
      exact inQ_new (gk := Msg.gk) (m := ⟨r0.id, x, k⟩) hc (by simp)
    · simp only [upd_other _ _ hk0]
      refine locatedAt_mono (s := s) ?_ ?_ ?_ ?_ (fun h => h) (hl k r hk)
      · rintro ⟨x', hx'⟩
        rw [hp] at hx'
        simp only [List.mem_cons, Prod.mk.injEq] at hx'
        rcases hx' with ⟨_, h2⟩ | h
        · exact absurd h2 hk0
        · exact ⟨x', h⟩
      · intro cj; exact inQ_set hc (fun m hm hk => ⟨m, by simp [hm], hk⟩)
      · intro cj; exact inQ_set hc keep
      · intro cj; exact inQ_set hc keep
  | @srvRecv ci cn m rest hc hw _ =>
    intro k r hk
    by_cases hk0 : k = m.gk
    · subst hk0
      simp only [upd_same]
      exact inQ_new (gk := Task.gk) (m := ⟨m.rid, m.data, false, m.gk⟩) hc (by simp)
    · simp only [upd_other _ _ hk0]
      refine locatedAt_mono (s := s) (fun h => h) ?_ ?_ ?_ (fun h => h) (hl k r hk)
      · intro cj
        refine inQ_set hc (fun m2 hm2 hk2 => ?_)
        rw [hw] at hm2
        simp only [List.mem_cons] at hm2
        rcases hm2 with h | h
        · subst h; exact absurd hk2.symm hk0
        · exact ⟨m2, h, hk2⟩
      · intro cj; exact inQ_set hc (fun m2 hm2 hk2 => ⟨m2, by simp [hm2], hk2⟩)
      · intro cj; exact inQ_set hc keep
  | @finish ci j cn t hc ht hd =>
    intro k r hk
    refine locatedAt_mono (s := s) (fun h => h) ?_ ?_ ?_ (fun h => h) (hl k r hk)
    · intro cj; exact inQ_set hc keep
    · intro cj
      refine inQ_set hc (fun m2 hm2 hk2 => ?_)
      obtain ⟨i, hi2⟩ := List.getElem?_of_mem hm2
      have hilt := lt_of_getElem? hi2
      by_cases hij : i = j
      · subst hij
        rw [ht] at hi2; cases hi2
        refine ⟨{ t with done := true }, ?_, hk2⟩
        apply List.mem_of_getElem? (i := i)
        simp [hilt]
      · refine ⟨m2, ?_, hk2⟩
        apply List.mem_of_getElem? (i := i)
        rw [List.getElem?_set]; simp [Ne.symm hij, hi2]
    · intro cj; exact inQ_set hc keep
  | @respond ci cn t rest hc hq hd _ =>
    intro k r hk
    by_cases hk0 : k = t.gk
    · subst hk0
      simp only [upd_same]
      exact inQ_new (gk := Rsp.gk) (m := ⟨t.rid, c.handler t.data, t.gk⟩) hc (by simp)
    · simp only [upd_other _ _ hk0]
      refine locatedAt_mono (s := s) (fun h => h) ?_ ?_ ?_ (fun h => h) (hl k r hk)
      · intro cj; exact inQ_set hc keep
      · intro cj
        refine inQ_set hc (fun m2 hm2 hk2 => ?_)
        rw [hq] at hm2
        simp only [List.mem_cons] at hm2
        rcases hm2 with h | h
        · subst h; exact absurd hk2.symm hk0
        · exact ⟨m2, h, hk2⟩
      · intro cj; exact inQ_set hc (fun m2 hm2 hk2 => ⟨m2, by simp [hm2], hk2⟩)
  | @recv ci cn r0 rest k0 hc hb hlk =>
    have hm := hi.back_ok ci cn hc r0 (by rw [hb]; simp)
    have hk0 : k0 = r0.gk := mem_unique hi.act_keys (mem_of_lookup hlk) hm.1
    intro k r hk
    by_cases hkk : k = k0
    · subst hkk
      simp only [upd_same]
      exact ⟨r0.resp, by simp⟩
    · simp only [upd_other _ _ hkk]
      refine locatedAt_mono (s := s) (fun h => h) ?_ ?_ ?_ ?_ (hl k r hk)
      · intro cj; exact inQ_set hc keep
      · intro cj; exact inQ_set hc keep
      · intro cj
        refine inQ_set hc (fun m2 hm2 hk2 => ?_)
        rw [hb] at hm2
        simp only [List.mem_cons] at hm2
        rcases hm2 with h | h
        · subst h; rw [← hk0] at hk2; exact absurd hk2.symm hkk
        · exact ⟨m2, h, hk2⟩
      · rintro ⟨v, hv⟩; exact ⟨v, by simp [hv]⟩
  | @syield x k0 rest v ht hv =>
    intro k r hk
    exact locatedAt_mono (s := s) (fun h => h) (fun _ h => h) (fun _ h => h) (fun _ h => h) (fun h => h) (hl k r hk)

/-- both invariants together, plus the number of connections -/
structure Inv2 (c : Cfg) (s : State) : Prop where
  inv : Inv c s
  loc : Located s
  nconn : s.conns.length = c.nconn

theorem step_conns_length (c : Cfg) {s s' : State} {a : Act} (hs : Step c s a s') :
    s'.conns.length = s.conns.length := by
  cases hs <;> simp

theorem all_reachable2 (c : Cfg) {s : State} (hr : Reachable c s) : Inv2 c s :=
  reachable_inv c (Inv := Inv2 c)
    ⟨inv_init c, located_init c, by simp [init]⟩
    (fun s a s' hi hs =>
      ⟨inv_step c s a s' hi.inv hs, loc_step c s a s' hi.inv hi.loc hs,
       by rw [step_conns_length c hs]; exact hi.nconn⟩) hr

/-! ### measure -/

def notDone (l : List Task) : Nat := (l.filter (fun t => !t.done)).length

def connMeasure (cn : Conn) : Nat := 4 * cn.wire.length + 2 * cn.srvq.length + notDone cn.srvq + cn.back.length

/-- internal work left: every internal action decreases it by at least one -/
def measure (s : State) : Nat :=
  5 * s.pending.length + (s.conns.map connMeasure).sum + s.tasks.length

/-- everything except the creation of new requests -/
def Act.internal : Act → Bool
  | .submit .. | .ssubmit .. => false
  | _ => true

/-- the actions of the transport itself (client senders/receivers, server, handlers) -/
def Act.transport : Act → Bool
  | .send .. | .srvRecv .. | .finish .. | .respond .. | .recv .. => true
  | _ => false

theorem sum_map_set {f : Conn → Nat} {l : List Conn} {i : Nat} {a : Conn} (b : Conn) (h : l[i]? = some a) :
    ((l.set i b).map f).sum + f a = (l.map f).sum + f b := by
  induction l generalizing i with
  | nil => simp at h
  | cons x l ih =>
    cases i with
    | zero =>
      simp only [List.getElem?_cons_zero, Option.some.injEq] at h; subst h
      simp only [List.set_cons_zero, List.map_cons, List.sum_cons]; omega
    | succ i =>
      simp only [List.getElem?_cons_succ] at h
      have := ih h
      simp only [List.set_cons_succ, List.map_cons, List.sum_cons]; omega

theorem notDone_cons (x : Task) (l : List Task) :
    notDone (x :: l) = (if x.done then 0 else 1) + notDone l := by
  simp only [notDone, List.filter_cons]
  cases x.done <;> simp <;> omega

theorem notDone_append (l1 l2 : List Task) : notDone (l1 ++ l2) = notDone l1 + notDone l2 := by
  simp [notDone, List.filter_append]

theorem notDone_set {l : List Task} {j : Nat} {t : Task} (h : l[j]? = some t) (hd : t.done = false) :
    notDone (l.set j { t with done := true }) + 1 = notDone l := by
  induction l generalizing j with
  | nil => simp at h
  | cons x l ih =>
    cases j with
    | zero =>
      simp only [List.getElem?_cons_zero, Option.some.injEq] at h; subst h
      simp only [List.set_cons_zero, notDone_cons, hd]; simp; omega
    | succ j =>
      simp only [List.getElem?_cons_succ] at h
      have := ih h
      simp only [List.set_cons_succ, notDone_cons]; omega

theorem measure_step (c : Cfg) {s s' : State} {a : Act} (hs : Step c s a s') (hint : a.internal = true) :
    measure s' + 1 ≤ measure s := by
  cases hs with
  | submit hf _ => simp [Act.internal] at hint
  | ssubmit hf _ => simp [Act.internal] at hint
  | @send ci x k0 rest cn r0 hp hc hr _ =>
    have := sum_map_set (f := connMeasure) { cn with wire := cn.wire ++ [⟨r0.id, x, k0⟩] } hc
    have h2 : connMeasure { cn with wire := cn.wire ++ [⟨r0.id, x, k0⟩] } = connMeasure cn + 4 := by
      simp [connMeasure]; omega
    simp only [measure, hp, List.length_cons]; omega
  | @srvRecv ci cn m rest hc hw _ =>
    have := sum_map_set (f := connMeasure)
      { cn with wire := rest, srvq := cn.srvq ++ [⟨m.rid, m.data, false, m.gk⟩] } hc
    have h2 : connMeasure { cn with wire := rest, srvq := cn.srvq ++ [⟨m.rid, m.data, false, m.gk⟩] } + 1
        = connMeasure cn := by
      simp [connMeasure, hw, notDone]; omega
    simp only [measure]; omega
  | @finish ci j cn t hc ht hd =>
    have h1 := notDone_set ht hd
    have := sum_map_set (f := connMeasure) { cn with srvq := cn.srvq.set j { t with done := true } } hc
    have h2 : connMeasure { cn with srvq := cn.srvq.set j { t with done := true } } + 1 = connMeasure cn := by
      simp only [connMeasure, List.length_set]; omega
    simp only [measure]; omega
  | @respond ci cn t rest hc hq hd _ =>
    have := sum_map_set (f := connMeasure)
      { cn with srvq := rest, back := cn.back ++ [⟨t.rid, c.handler t.data, t.gk⟩] } hc
    have h2 : connMeasure { cn with srvq := rest, back := cn.back ++ [⟨t.rid, c.handler t.data, t.gk⟩] } + 1
        = connMeasure cn := by
      simp [connMeasure, hq, notDone_cons, hd]; omega
    simp only [measure]; omega
  | @recv ci cn r0 rest k0 hc hb hlk =>
    have := sum_map_set (f := connMeasure) { cn with back := rest } hc
    have h2 : connMeasure { cn with back := rest } + 1 = connMeasure cn := by
      simp [connMeasure, hb]; omega
    simp only [measure]; omega
  | @syield x k0 rest v ht hv =>
    simp only [measure, ht, List.length_cons]; omega

/-- any execution consisting of internal actions only is at most `measure s` steps long -/
theorem internal_run_bounded (c : Cfg) :
    ∀ (as : List Act) (s s' : State), (∀ a ∈ as, a.internal = true) → Core.run (step c) s as = some s' →
      as.length + measure s' ≤ measure s := by
  intro as
  induction as with
  | nil => intro s s' _ hr; simp at hr; subst hr; simp
  | cons a as ih =>
    intro s s' hall hr
    rw [Core.run_cons] at hr
    cases hst : step c s a with
    | none => simp [hst] at hr
    | some s1 =>
      simp [hst] at hr
      have h1 := ih s1 s' (fun b hb => hall b (by simp [hb])) hr
      have h2 := measure_step c (step_sound c s s1 a hst) (hall a (by simp))
      simp only [List.length_cons]; omega

/-- the configurations in which the transport can make progress: a connection, and room for at least
    one record in every buffer -/
def Cfg.Live (c : Cfg) : Prop := 0 < c.nconn ∧ 0 < c.wireCap ∧ 0 < c.srvCap ∧ 0 < c.backCap

/-- a connection that holds any record has an enabled transport action: the client can always take
    the next response; otherwise the head task can complete or (the return direction being empty) be
    answered; otherwise (the server queue being empty) the server can read the next record -/
theorem conn_progress (c : Cfg) (s : State) (h : Inv c s) (hsc : 0 < c.srvCap) (hbc : 0 < c.backCap)
    (ci : Nat) (cn : Conn) (hc : s.conns[ci]? = some cn)
    (hne : cn.wire ≠ [] ∨ cn.srvq ≠ [] ∨ cn.back ≠ []) :
    ∃ a, a.transport = true ∧ (step c s a).isSome = true := by
  cases hb : cn.back with
  | cons r0 rest =>
    have h1 := (h.back_ok ci cn hc r0 (by rw [hb]; simp)).1
    have hl := lookup_of_mem h.act_keys h1
    exact ⟨.recv ci, rfl, by simp [step, hc, hb, hl]⟩
  | nil =>
    cases hq : cn.srvq with
    | cons t rest =>
      by_cases hd : t.done = true
      · exact ⟨.respond ci, rfl, by simp [step, hc, hq, hd, hb, hbc]⟩
      · exact ⟨.finish ci 0, rfl, by simp [step, hc, hq, hd]⟩
    | nil =>
      cases hw : cn.wire with
      | cons m0 rest => exact ⟨.srvRecv ci, rfl, by simp [step, hc, hw, hq, hsc]⟩
      | nil => simp [hb, hq, hw] at hne

/-- an unresolved request always has an enabled transport action (somewhere on its way), whatever
    the capacities of the buffers (≥ 1): flow control cannot wedge the transport -/
theorem progress (c : Cfg) (s : State) (h : Inv2 c s) (hn : 0 < c.nconn) (hwc : 0 < c.wireCap)
    (hsc : 0 < c.srvCap) (hbc : 0 < c.backCap) (k : Nat) (r : Req)
    (hk : s.reqs[k]? = some r) (hu : ∀ v, (k, v) ∉ s.results) :
    ∃ a, a.transport = true ∧ (step c s a).isSome = true := by
  have hloc := h.loc k r hk
  cases hst : s.stage k with
  | resolved =>
    rw [hst] at hloc
    obtain ⟨v, hv⟩ := hloc
    exact absurd hv (hu v)
  | pending =>
    rw [hst] at hloc
    obtain ⟨x, hx⟩ := hloc
    cases hp : s.pending with
    | nil => rw [hp] at hx; simp at hx
    | cons e rest =>
      obtain ⟨x0, k0⟩ := e
      have hlen : 0 < s.conns.length := by rw [h.nconn]; exact hn
      obtain ⟨⟨r0, hr0, _⟩, _⟩ := h.inv.pend_ok x0 k0 (by rw [hp]; simp)
      have hc : s.conns[0]? = some s.conns[0] := List.getElem?_eq_getElem hlen
      by_cases hempty : s.conns[0].wire = [] ∧ s.conns[0].srvq = [] ∧ s.conns[0].back = []
      · exact ⟨.send 0, rfl, by simp [step, hp, hc, hr0, hempty.1, hwc]⟩
      · apply conn_progress c s h.inv hsc hbc 0 _ hc
        by_cases h1 : s.conns[0].wire = []
        · by_cases h2 : s.conns[0].srvq = []
          · right; right; intro h3; exact hempty ⟨h1, h2, h3⟩
          · right; left; exact h2
        · left; exact h1
  | wire ci =>
    rw [hst] at hloc
    obtain ⟨cn, m, hc, hm, _⟩ := hloc
    exact conn_progress c s h.inv hsc hbc ci cn hc (Or.inl (List.ne_nil_of_mem hm))
  | srv ci =>
    rw [hst] at hloc
    obtain ⟨cn, m, hc, hm, _⟩ := hloc
    exact conn_progress c s h.inv hsc hbc ci cn hc (Or.inr (Or.inl (List.ne_nil_of_mem hm)))
  | back ci =>
    rw [hst] at hloc
    obtain ⟨cn, m, hc, hm, _⟩ := hloc
    exact conn_progress c s h.inv hsc hbc ci cn hc (Or.inr (Or.inr (List.ne_nil_of_mem hm)))

theorem resultOf_of_mem {rs : List (Nat × Resp)} {k : Nat} {v : Resp} (h : (k, v) ∈ rs) :
    (resultOf rs k).isSome = true := by
  simp only [resultOf, Option.isSome_map, List.find?_isSome]
  exact ⟨(k, v), h, by simp⟩

/-! ### the server is local to a connection -/
/-- the server's actions on connection `ci` -/
def Act.server (ci : Nat) : Act → Bool
  | .srvRecv c | .finish c _ | .respond c => c == ci
  | _ => false

/-- The server keeps no state across connections and none about the client: a server action on
    connection `ci` changes nothing but that connection (and ghost state) … -/
theorem server_local_effect (c : Cfg) (s s' : State) (a : Act) (ci : Nat) (ha : a.server ci = true)
    (hs : step c s a = some s') :
    s'.pending = s.pending ∧ s'.active = s.active ∧ s'.results = s.results ∧ s'.reqs = s.reqs ∧
    s'.tasks = s.tasks ∧ s'.sout = s.sout ∧ ∀ cj, cj ≠ ci → s'.conns[cj]? = s.conns[cj]? := by
  have hst := step_sound c s s' a hs
  cases hst <;> simp [Act.server] at ha <;> subst ha <;>
    exact ⟨rfl, rfl, rfl, rfl, rfl, rfl, fun cj hj => get_set_other hj⟩

/-- … and whether it is enabled and what it does to the connection depends on that connection only. -/
theorem server_local_cause (c : Cfg) (s1 s2 : State) (a : Act) (ci : Nat) (ha : a.server ci = true)
    (heq : s1.conns[ci]? = s2.conns[ci]?) :
    (step c s1 a).bind (fun s => s.conns[ci]?) = (step c s2 a).bind (fun s => s.conns[ci]?) := by
  cases hc : s1.conns[ci]? with
  | none =>
    have hc2 : s2.conns[ci]? = none := by rw [← heq, hc]
    cases a <;> simp [Act.server] at ha <;> subst ha <;> simp [step, hc, hc2]
  | some cn =>
    have hc2 : s2.conns[ci]? = some cn := by rw [← heq, hc]
    cases a <;> simp [Act.server] at ha <;> subst ha
    · -- srvRecv
      simp only [step, hc, hc2]
      cases cn.wire with
      | nil => simp
      | cons m rest =>
        by_cases hcap : cn.srvq.length < c.srvCap
        · simp [hcap, get_set_same hc, get_set_same hc2]
        · simp [hcap]
    · -- finish
      rename_i j
      simp only [step, hc, hc2]
      cases cn.srvq[j]? with
      | none => simp
      | some t =>
        by_cases hd : t.done = true
        · simp [hd]
        · simp [hd, get_set_same hc, get_set_same hc2]
    · -- respond
      simp only [step, hc, hc2]
      cases cn.srvq with
      | nil => simp
      | cons t rest =>
        by_cases hd : t.done = true ∧ cn.back.length < c.backCap
        · simp [hd, get_set_same hc, get_set_same hc2]
        · simp [hd]

end Mux
