import MpsVerif.Model.Mux
import MpsVerif.Core.Sys
/-! Relational presentation of `Mux.step` and its soundness; `Reachable`; invariant lifting. -/
namespace Mux

inductive Step (c : Cfg) : State → Act → State → Prop where
  | submit {s x id} : Fresh s id → s.pending.length < c.pendCap →
      Step c s (.submit x id)
        { s with reqs := s.reqs ++ [⟨x, id⟩], pending := s.pending ++ [(x, s.reqs.length)],
                 stage := upd s.stage s.reqs.length .pending }
  | ssubmit {s x id} : Fresh s id → s.pending.length < c.pendCap →
      Step c s (.ssubmit x id)
        { s with reqs := s.reqs ++ [⟨x, id⟩], pending := s.pending ++ [(x, s.reqs.length)],
                 tasks := s.tasks ++ [(x, s.reqs.length)], sin := s.sin ++ [x],
                 stage := upd s.stage s.reqs.length .pending }
  | send {s ci x k rest cn r} : s.pending = (x, k) :: rest → s.conns[ci]? = some cn → s.reqs[k]? = some r →
      cn.wire.length < c.wireCap →
      Step c s (.send ci)
        { s with pending := rest,
                 conns := s.conns.set ci { cn with wire := cn.wire ++ [⟨r.id, x, k⟩] },
                 active := insert s.active r.id k,
                 stage := upd s.stage k (.wire ci) }
  | srvRecv {s ci cn m rest} : s.conns[ci]? = some cn → cn.wire = m :: rest → cn.srvq.length < c.srvCap →
      Step c s (.srvRecv ci)
        { s with conns := s.conns.set ci { cn with wire := rest, srvq := cn.srvq ++ [⟨m.rid, m.data, false, m.gk⟩] },
                 stage := upd s.stage m.gk (.srv ci) }
  | finish {s ci j cn t} : s.conns[ci]? = some cn → cn.srvq[j]? = some t → t.done = false →
      Step c s (.finish ci j)
        { s with conns := s.conns.set ci { cn with srvq := cn.srvq.set j { t with done := true } } }
  | respond {s ci cn t rest} : s.conns[ci]? = some cn → cn.srvq = t :: rest → t.done = true →
      cn.back.length < c.backCap →
      Step c s (.respond ci)
        { s with conns := s.conns.set ci { cn with srvq := rest, back := cn.back ++ [⟨t.rid, c.handler t.data, t.gk⟩] },
                 stage := upd s.stage t.gk (.back ci) }
  | recv {s ci cn r rest k} : s.conns[ci]? = some cn → cn.back = r :: rest → lookup s.active r.rid = some k →
      Step c s (.recv ci)
        { s with conns := s.conns.set ci { cn with back := rest },
                 active := remove s.active r.rid,
                 results := s.results ++ [(k, r.resp)],
                 stage := upd s.stage k .resolved }
  | syield {s x k rest v} : s.tasks = (x, k) :: rest → resultOf s.results k = some v →
      Step c s .syield { s with tasks := rest, sout := s.sout ++ [(x, v)] }

theorem step_sound (c : Cfg) (s s' : State) (a : Act) (h : step c s a = some s') : Step c s a s' := by
  cases a <;> simp only [step] at h
  case submit x id => split at h <;> simp at h; subst h; rename_i hf; exact .submit hf.1 hf.2
  case ssubmit x id => split at h <;> simp at h; subst h; rename_i hf; exact .ssubmit hf.1 hf.2
  case send ci =>
    split at h
    · rename_i x k rest cn hp hc
      split at h
      · rename_i r hr
        split at h
        · rename_i hcap; simp at h; subst h; exact .send hp hc hr hcap
        · simp at h
      · simp at h
    · simp at h
  case srvRecv ci =>
    split at h
    · rename_i cn hc
      split at h
      · rename_i m rest hw
        split at h
        · rename_i hcap; simp at h; subst h; exact .srvRecv hc hw hcap
        · simp at h
      · simp at h
    · simp at h
  case finish ci j =>
    split at h
    · rename_i cn hc
      split at h
      · rename_i t ht
        split at h
        · simp at h
        · rename_i hd; simp at h; subst h; exact .finish hc ht (by simpa using hd)
      · simp at h
    · simp at h
  case respond ci =>
    split at h
    · rename_i cn hc
      split at h
      · rename_i t rest hq
        split at h
        · rename_i hd; simp at h; subst h; exact .respond hc hq hd.1 hd.2
        · simp at h
      · simp at h
    · simp at h
  case recv ci =>
    split at h
    · rename_i cn hc
      split at h
      · rename_i r rest hb
        split at h
        · rename_i k hl; simp at h; subst h; exact .recv hc hb hl
        · simp at h
      · simp at h
    · simp at h
  case syield =>
    split at h
    · rename_i x k rest ht
      split at h
      · rename_i v hv; simp at h; subst h; exact .syield ht hv
      · simp at h
    · simp at h

/-- reachable states of the model for configuration `c` -/
def Reachable (c : Cfg) (s : State) : Prop := Core.Reach (step c) (init c) s

theorem reachable_inv (c : Cfg) {Inv : State → Prop} (h0 : Inv (init c))
    (hstep : ∀ s a s', Inv s → Step c s a s' → Inv s') {s : State} (hr : Reachable c s) : Inv s :=
  Core.invariant_reach (fun s a s' hi hs => hstep s a s' hi (step_sound c s s' a hs)) h0 hr

end Mux
