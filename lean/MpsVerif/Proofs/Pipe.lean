import MpsVerif.Model.Pipe
/-! Lemmas and the invariant of the named-pipe model. -/
namespace Pipe

theorem dec_be32 (n : Nat) (h : n < 4294967296) : dec (be32 n) = n := by
  simp only [dec, be32, List.foldl_cons, List.foldl_nil, UInt8.toNat_ofNat']
  omega

theorem dec_append_be32 (a : Bytes) (k : Nat) : dec (a ++ be32 k) = dec a * 4294967296 + dec (be32 k) := by
  simp only [dec, be32, List.foldl_append, List.foldl_cons, List.foldl_nil]
  omega

theorem dec_be64 (n : Nat) (h : n < 18446744073709551616) : dec (be64 n) = n := by
  unfold be64
  rw [dec_append_be32, dec_be32 _ (by omega), dec_be32 _ (by omega)]
  omega

theorem be32_length (n : Nat) : (be32 n).length = 4 := rfl
theorem be64_length (n : Nat) : (be64 n).length = 8 := rfl

theorem readN_append (a rest : Bytes) : readN a.length (a ++ rest) = some (a, rest) := by
  simp [readN]

/-- more bytes arriving later never change what a read returns -/
theorem readN_mono {n : Nat} {bs a r : Bytes} (x : Bytes) (h : readN n bs = some (a, r)) :
    readN n (bs ++ x) = some (a, r ++ x) := by
  unfold readN at h ⊢
  split at h
  · simp at h
  · rename_i hl
    simp only [Option.some.injEq, Prod.mk.injEq] at h
    have hle : n ≤ bs.length := by omega
    have : ¬ (bs ++ x).length < n := by simp; omega
    simp only [this, if_false, Option.some.injEq, Prod.mk.injEq]
    rw [List.take_append_of_le_length hle, List.drop_append_of_le_length hle, h.1, h.2]
    exact ⟨rfl, rfl⟩

theorem readFrame_mono {bs m r : Bytes} (x : Bytes) (h : readFrame bs = some (m, r)) :
    readFrame (bs ++ x) = some (m, r ++ x) := by
  unfold readFrame at h ⊢
  cases h4 : readN 4 bs with
  | none => simp [h4] at h
  | some p =>
    obtain ⟨hd, rest⟩ := p
    rw [h4] at h
    rw [readN_mono x h4]
    simp only at h ⊢
    split at h
    · rename_i hm
      simp only [hm, if_true]
      cases h8 : readN 8 rest with
      | none => simp [h8] at h
      | some q =>
        obtain ⟨h2, rest2⟩ := q
        rw [h8] at h
        rw [readN_mono x h8]
        simp only at h ⊢
        exact readN_mono x h
    · rename_i hm
      simp only [hm, if_false]
      exact readN_mono x h

/-- `recv_bytes` on a stream that starts with `send_bytes(m)` returns `m` and leaves what followed -/
theorem readFrame_frame (m rest : Bytes) (hm : m.length < 18446744073709551616) :
    readFrame (frame m ++ rest) = some (m, rest) := by
  unfold frame
  split
  · rename_i hs
    have h4 : readN 4 (be32 m.length ++ m ++ rest) = some (be32 m.length, m ++ rest) := by
      have := readN_append (be32 m.length) (m ++ rest)
      rw [be32_length] at this; simpa using this
    unfold readFrame
    rw [h4]
    have hd : dec (be32 m.length) = m.length := dec_be32 _ (by omega)
    have hne : ¬ m.length = minusOne := by simp [minusOne]; omega
    simp only [hd, hne, if_false]
    exact readN_append m rest
  · rename_i hs
    have h4 : readN 4 (be32 minusOne ++ (be64 m.length ++ m) ++ rest) = some (be32 minusOne, be64 m.length ++ (m ++ rest)) := by
      have := readN_append (be32 minusOne) (be64 m.length ++ (m ++ rest))
      rw [be32_length] at this; simpa using this
    unfold readFrame
    rw [h4]
    have hd : dec (be32 minusOne) = minusOne := dec_be32 _ (by simp [minusOne])
    simp only [hd, if_true]
    have h8 : readN 8 (be64 m.length ++ (m ++ rest)) = some (be64 m.length, m ++ rest) := by
      have := readN_append (be64 m.length) (m ++ rest)
      rw [be64_length] at this; exact this
    rw [h8]
    simp only [dec_be64 _ hm]
    exact readN_append m rest

/-- invariant of one FIFO: what is buffered plus what is still being written is exactly the framing of
    the messages sent and not yet received; what was received is a prefix of what was sent -/
structure ChanInv (c : Chan) : Prop where
  bytes : c.fifo ++ c.outbuf = (c.sent.drop c.rcvd.length).flatMap frame
  pref : c.rcvd = c.sent.take c.rcvd.length
  len : ∀ m ∈ c.sent, m.length < 18446744073709551616

theorem ChanInv.le {c : Chan} (h : ChanInv c) : c.rcvd.length ≤ c.sent.length := by
  have := congrArg List.length h.pref
  simp only [List.length_take] at this
  omega

theorem chanInv_empty : ChanInv emptyChan := by
  constructor <;> simp [emptyChan]

theorem chanInv_send {c : Chan} (h : ChanInv c) (m : Bytes) (ho : c.outbuf = [])
    (hm : m.length < 18446744073709551616) :
    ChanInv { c with outbuf := frame m, sent := c.sent ++ [m] } := by
  have hle := h.le
  constructor
  · simp only
    rw [List.drop_append_of_le_length hle, List.flatMap_append, ← h.bytes, ho]
    simp
  · simp only
    rw [List.take_append_of_le_length hle]; exact h.pref
  · intro x hx
    simp only [List.mem_append, List.mem_singleton] at hx
    rcases hx with hx | hx
    · exact h.len x hx
    · subst hx; exact hm

theorem chanInv_flush {c : Chan} (h : ChanInv c) (n : Nat) :
    ChanInv { c with fifo := c.fifo ++ c.outbuf.take (n + 1), outbuf := c.outbuf.drop (n + 1) } := by
  constructor
  · simp only [List.append_assoc, List.take_append_drop]; exact h.bytes
  · exact h.pref
  · exact h.len

theorem chanInv_recv {c : Chan} (h : ChanInv c) {m rest : Bytes} (hr : readFrame c.fifo = some (m, rest)) :
    ChanInv { c with fifo := rest, rcvd := c.rcvd ++ [m] } ∧ c.sent[c.rcvd.length]? = some m := by
  have hle := h.le
  have hb := h.bytes
  by_cases hlt : c.rcvd.length < c.sent.length
  · have hdrop : c.sent.drop c.rcvd.length = c.sent[c.rcvd.length] :: c.sent.drop (c.rcvd.length + 1) :=
      List.drop_eq_getElem_cons hlt
    rw [hdrop, List.flatMap_cons] at hb
    have h1 := readFrame_mono c.outbuf hr
    rw [hb, readFrame_frame _ _ (h.len _ (List.getElem_mem hlt))] at h1
    simp only [Option.some.injEq, Prod.mk.injEq] at h1
    obtain ⟨hm, htail⟩ := h1
    refine ⟨?_, ?_⟩
    · constructor
      · simp only [List.length_append, List.length_cons, List.length_nil]
        rw [← htail]
      · simp only [List.length_append, List.length_cons, List.length_nil]
        rw [List.take_add_one, ← h.pref, List.getElem?_eq_getElem hlt, hm]; rfl
      · exact h.len
    · rw [List.getElem?_eq_getElem hlt, hm]
  · have : c.sent.drop c.rcvd.length = [] := List.drop_eq_nil_of_le (by omega)
    rw [this] at hb
    simp only [List.flatMap_nil, List.append_eq_nil_iff] at hb
    rw [hb.1] at hr
    simp [readFrame, readN] at hr

def Inv (s : State) : Prop := ChanInv s.f1 ∧ ChanInv s.f2

theorem inv_init : Inv init := ⟨chanInv_empty, chanInv_empty⟩

theorem inv_chan {s : State} (h : Inv s) (b : Bool) : ChanInv (s.chan b) := by
  cases b
  · exact h.1
  · exact h.2

theorem inv_setChan {s : State} (h : Inv s) (b : Bool) {c : Chan} (hc : ChanInv c) : Inv (s.setChan b c) := by
  cases b
  · exact ⟨hc, h.2⟩
  · exact ⟨h.1, hc⟩

theorem inv_step (s : State) (a : Act) (s' : State) (h : Inv s) (hs : step s a = some s') : Inv s' := by
  cases a with
  | send r m =>
    simp only [step] at hs
    split at hs
    · rename_i hg
      simp only [Bool.and_eq_true, List.isEmpty_iff, decide_eq_true_eq] at hg
      simp only [Option.some.injEq] at hs; subst hs
      exact inv_setChan h _ (chanInv_send (inv_chan h _) m hg.1 hg.2)
    · simp at hs
  | flush r n =>
    simp only [step] at hs
    split at hs
    · simp only [Option.some.injEq] at hs; subst hs
      exact inv_setChan h _ (chanInv_flush (inv_chan h _) n)
    · simp at hs
  | recv r =>
    simp only [step] at hs
    split at hs
    · rename_i m rest hr
      simp only [Option.some.injEq] at hs; subst hs
      exact inv_setChan h _ (chanInv_recv (inv_chan h _) hr).1
    · simp at hs

def Reachable (s : State) : Prop := Core.Reach step init s

theorem all_reachable {s : State} (hr : Reachable s) : Inv s :=
  Core.invariant_reach (fun s a s' hi hs => inv_step s a s' hi hs) inv_init hr

end Pipe
