import MpsVerif.Proofs.PipelineNext
/-!
# Incremental consumption: bounded look-ahead of chains of one-to-one operators

Ghost counters: `Stage.recv` (answers — values or the error — taken from below), `Stage.hand`
(answers handed on), `Src.hand`.  For a one-to-one operator every answer taken is either handed
on, or still owed (pending value, exception on its way out, fetched ahead in `inq`), or — `head`
only, once — the element `n+1` that `Header` pulls to find out that it is done.
-/
namespace Pipeline

def failBit : Mode → Nat
  | .fail _ => 1
  | _ => 0

/-- `Header` has consumed the element that told it to stop -/
def headBit (g : Stage) : Nat := if g.op.isHead && g.mode != .run then 1 else 0

def inqc (g : Stage) : Nat := g.inq.countP Resp.counts

def due (g : Stage) : Nat := g.pend.length + failBit g.mode + headBit g

structure Good (g : Stage) : Prop where
  one : g.op.oneOne = true
  cap : g.inq.length ≤ lookahead g.op
  bal : g.recv ≤ g.hand + due g + inqc g
  pend1 : g.pend.length ≤ 1
  pendRun : g.pend = [] ∨ g.mode = .run

def topHand : List Stage → World → Nat
  | [], w => w.src.hand
  | g :: _, _ => g.hand

def Linked : List Stage → World → Prop
  | [], _ => True
  | g :: up, w => g.recv = topHand up w ∧ Linked up w

structure Inv (ss : List Stage) (w : World) : Prop where
  good : ∀ g ∈ ss, Good g
  linked : Linked ss w
  src : w.src.pulled ≤ w.src.hand

def Rest (g : Stage) : Prop := g.pend = [] ∧ failBit g.mode = 0

def cnt (r : Resp) : Nat := if r.counts then 1 else 0

theorem feed_oneOne (op : Op) (st : OpSt) (v : Val) (h : op.oneOne = true) :
    match feed op st v with
    | (outs, .cont _) => outs.length = 1
    | (outs, .stop) => outs = [] ∧ op.isHead = true
    | (outs, .raise _) => outs = [] := by
  cases op with
  | map f => simp only [feed]; cases f v <;> rfl
  | peek => simp [feed]
  | accumulate g i =>
    simp only [feed]
    cases st.acc with
    | none => simp
    | some z => simp only; cases g z v <;> simp
  | head n => simp only [feed]; by_cases hc : st.cnt ≥ n <;> simp [hc, Op.isHead]
  | buffer n => simp [feed]
  | parmap f c rx re =>
    simp only [feed]
    cases f v with
    | ok y => simp
    | raise e => cases re <;> simp
  | _ => simp [Op.oneOne] at h

theorem flush_oneOne (op : Op) (st : OpSt) (h : op.oneOne = true) : flush op st = [] := by
  cases op <;> simp [Op.oneOne] at h <;> rfl

@[simp] theorem take_op (g : Stage) (r : Resp) : (g.take r).op = g.op := by
  cases r with
  | val v =>
    simp only [Stage.take]
    rcases feed g.op g.st v with ⟨outs, nx⟩
    cases nx <;> rfl
  | _ => rfl

@[simp] theorem take_recv (g : Stage) (r : Resp) : (g.take r).recv = g.recv := by
  cases r with
  | val v =>
    simp only [Stage.take]
    rcases feed g.op g.st v with ⟨outs, nx⟩
    cases nx <;> rfl
  | _ => rfl

@[simp] theorem take_hand (g : Stage) (r : Resp) : (g.take r).hand = g.hand := by
  cases r with
  | val v =>
    simp only [Stage.take]
    rcases feed g.op g.st v with ⟨outs, nx⟩
    cases nx <;> rfl
  | _ => rfl

/-- running the body on an answer: what was taken is now owed -/
theorem take_due (g : Stage) (r : Resp) (h1 : g.op.oneOne = true) (hp : g.pend = []) (hm : g.mode = .run) :
    cnt r ≤ due (g.take r) ∧ (g.take r).pend.length ≤ 1 ∧ ((g.take r).pend = [] ∨ (g.take r).mode = .run) := by
  cases r with
  | val v =>
    have hf := feed_oneOne g.op g.st v h1
    simp only [Stage.take]
    rcases hfe : feed g.op g.st v with ⟨outs, nx⟩
    rw [hfe] at hf
    cases nx with
    | cont st' =>
      simp only at hf ⊢
      refine ⟨?_, by simp [hf], Or.inr (by simpa using hm)⟩
      simp only [due, hf, cnt]
      split <;> omega
    | stop =>
      simp only at hf ⊢
      simp [due, cnt, Resp.counts, hf.1, hf.2, headBit, failBit]
    | raise e =>
      simp only at hf ⊢
      simp [due, cnt, Resp.counts, hf, failBit]
  | done => simp [Stage.take, cnt, Resp.counts, flush_oneOne _ _ h1]
  | err e => simp [Stage.take, cnt, Resp.counts, due, failBit, hp]
  | fuel => simp [Stage.take, cnt, Resp.counts, hp]

theorem noteRecv_recv (g : Stage) (r : Resp) : (g.noteRecv r).recv = g.recv + cnt r := by
  simp only [Stage.noteRecv, cnt]; split <;> rfl

theorem choose_true_may (g : Stage) (w : World) (h : (g.choose w).1 = true) : g.mayPrefetch = true := by
  unfold Stage.choose at h
  split at h
  · assumption
  · simp at h

theorem good_prefetch (g : Stage) (r1 : Resp) (hg : Good g) (hm : g.mayPrefetch = true) :
    Good { g.noteRecv r1 with inq := g.inq ++ [r1] } := by
  obtain ⟨one, cap, bal, pend1, pendRun⟩ := hg
  simp only [Stage.mayPrefetch, Bool.and_eq_true, decide_eq_true_eq] at hm
  refine ⟨one, ?_, ?_, pend1, pendRun⟩
  · simp only [Stage.noteRecv, List.length_append, List.length_cons, List.length_nil]; omega
  · have e1 : ({ g.noteRecv r1 with inq := g.inq ++ [r1] } : Stage).recv = g.recv + cnt r1 := noteRecv_recv g r1
    have e2 : inqc { g.noteRecv r1 with inq := g.inq ++ [r1] } = inqc g + cnt r1 := by
      simp only [inqc, List.countP_append, List.countP_cons, List.countP_nil, cnt]
      split <;> simp
    have e3 : due { g.noteRecv r1 with inq := g.inq ++ [r1] } = due g := rfl
    rw [e1, e2, e3]
    show g.recv + cnt r1 ≤ g.hand + due g + (inqc g + cnt r1)
    omega

theorem good_deliver (g : Stage) (v : Val) (rest : List Val) (hg : Good g) (hp : g.pend = v :: rest) :
    Good { g with pend := rest, hand := g.hand + 1 } ∧ rest = [] := by
  obtain ⟨one, cap, bal, pend1, pendRun⟩ := hg
  have hr : rest = [] := by
    rw [hp] at pend1
    simp only [List.length_cons] at pend1
    exact List.eq_nil_of_length_eq_zero (by omega)
  subst hr
  refine ⟨⟨one, cap, ?_, by simp, Or.inl rfl⟩, rfl⟩
  simp only [due, hp, List.length_cons, List.length_nil, inqc, headBit] at bal ⊢
  omega

theorem good_failed (g : Stage) (e : Err) (hg : Good g) (hp : g.pend = []) (hm : g.mode = .fail e) :
    Good { g with mode := .stop, hand := g.hand + 1 } := by
  obtain ⟨one, cap, bal, pend1, pendRun⟩ := hg
  refine ⟨one, cap, ?_, pend1, Or.inl hp⟩
  simp only [due, hp, hm, failBit, List.length_nil, inqc, headBit] at bal ⊢
  have : (g.op.isHead && (Mode.fail e != Mode.run)) = (g.op.isHead && (Mode.stop != Mode.run)) := by
    cases g.op.isHead <;> rfl
  rw [this] at bal
  omega

theorem due_run (g : Stage) (hp : g.pend = []) (hm : g.mode = .run) : due g = 0 := by
  simp [due, hp, hm, failBit, headBit]

theorem good_take_inq (g : Stage) (r1 : Resp) (q : List Resp) (hg : Good g) (hp : g.pend = [])
    (hm : g.mode = .run) (hq : g.inq = r1 :: q) : Good (({ g with inq := q } : Stage).take r1) := by
  obtain ⟨one, cap, bal, pend1, pendRun⟩ := hg
  have td := take_due ({ g with inq := q } : Stage) r1 one hp hm
  refine ⟨by simpa using one, ?_, ?_, td.2.1, td.2.2⟩
  · simp only [take_inq, take_op]
    rw [hq] at cap
    simp only [List.length_cons] at cap
    omega
  · have d0 := due_run g hp hm
    simp only [take_recv, take_hand, inqc, take_inq]
    simp only [inqc, hq, List.countP_cons, d0] at bal
    have : (if r1.counts = true then 1 else 0) = cnt r1 := rfl
    rw [this] at bal
    omega

theorem good_take_fresh (g : Stage) (r1 : Resp) (hg : Good g) (hp : g.pend = [])
    (hm : g.mode = .run) (hq : g.inq = []) : Good ((g.noteRecv r1).take r1) := by
  obtain ⟨one, cap, bal, pend1, pendRun⟩ := hg
  have td := take_due (g.noteRecv r1) r1 one hp hm
  refine ⟨by rw [take_op]; exact one, ?_, ?_, td.2.1, td.2.2⟩
  · simp only [take_inq, take_op]
    simp [Stage.noteRecv, hq]
  · have d0 := due_run g hp hm
    simp only [take_recv, take_hand, inqc, take_inq, noteRecv_recv]
    simp only [inqc, hq, List.countP_nil, d0] at bal
    have : (g.noteRecv r1).hand = g.hand := rfl
    rw [this]
    have : (g.noteRecv r1).inq = [] := hq
    rw [this]
    simp only [List.countP_nil]
    omega

theorem topHand_congr (ss : List Stage) (w w1 : World) (h : w1.src = w.src) : topHand ss w1 = topHand ss w := by
  cases ss <;> simp [topHand, h]

theorem linked_congr (ss : List Stage) (w w1 : World) (h : w1.src = w.src) : Linked ss w1 ↔ Linked ss w := by
  induction ss with
  | nil => simp [Linked]
  | cons g up ih => simp [Linked, ih, topHand_congr up w w1 h]

theorem inv_congr (ss : List Stage) (w w1 : World) (h : w1.src = w.src) (hi : Inv ss w) : Inv ss w1 :=
  ⟨hi.good, (linked_congr ss w w1 h).mpr hi.linked, by rw [h]; exact hi.src⟩

theorem src_next_inv (s : Src) (h : s.pulled ≤ s.hand) :
    s.next.2.pulled ≤ s.next.2.hand ∧ s.next.2.hand = s.hand + cnt s.next.1 := by
  unfold Src.next
  split
  · simp [cnt, Resp.counts]; omega
  · split
    · simp [cnt, Resp.counts]; omega
    · split <;> simp [cnt, Resp.counts] <;> omega

/-- `next` preserves the bookkeeping invariant, advances the outermost `hand` counter exactly when
    it hands over a value or an error, and leaves every stage at rest -/
theorem next_inv : ∀ (f : Nat) (ss : List Stage) (w : World) (r : Resp) (ss' : List Stage) (w' : World),
    next f ss w = (r, ss', w') → r ≠ .fuel → Inv ss w →
    Inv ss' w' ∧ topHand ss' w' = topHand ss w + cnt r ∧
      ((∀ g ∈ ss.tail, Rest g) → ∀ g ∈ ss', Rest g) := by
  intro f
  induction f with
  | zero =>
    intro ss w r ss' w' h hr hi
    cases ss with
    | nil =>
      rw [next_nil] at h
      simp at h
      obtain ⟨rfl, rfl, rfl⟩ := h
      have := src_next_inv w.src hi.src
      exact ⟨⟨by simp, trivial, this.1⟩, this.2, by simp⟩
    | cons g up =>
      rw [next_zero] at h
      simp at h
      exact absurd h.1.symm hr
  | succ f ih =>
    intro ss w r ss' w' h hr hi
    cases ss with
    | nil =>
      rw [next_nil] at h
      simp at h
      obtain ⟨rfl, rfl, rfl⟩ := h
      have := src_next_inv w.src hi.src
      exact ⟨⟨by simp, trivial, this.1⟩, this.2, by simp⟩
    | cons g up =>
      simp only [next] at h
      have hsrc := choose_src g w
      have hmay := choose_true_may g w
      generalize g.choose w = c at h hsrc hmay
      obtain ⟨c1, w1⟩ := c
      simp only at h hsrc hmay
      have hi1 : Inv (g :: up) w1 := inv_congr _ w w1 hsrc hi
      have hgood := hi.good
      simp only [List.forall_mem_cons] at hgood
      have hlink := hi1.linked
      have hth : topHand (g :: up) w = g.hand := rfl
      cases c1 with
      | true =>
        simp only [if_true] at h
        rcases h1 : next f up w1 with ⟨r1, up1, w2⟩
        rw [h1] at h
        simp only at h
        by_cases hf : r1 = .fuel
        · simp only [hf, if_true] at h
          simp at h
          exact absurd h.1.symm hr
        · simp only [hf, if_false] at h
          obtain ⟨inv1, th1, rest1⟩ := ih up w1 r1 up1 w2 h1 hf ⟨hgood.2, hlink.2, hi1.src⟩
          have inv2 : Inv ({ g.noteRecv r1 with inq := g.inq ++ [r1] } :: up1) w2 := by
            refine ⟨?_, ⟨?_, inv1.linked⟩, inv1.src⟩
            · simp only [List.forall_mem_cons]
              exact ⟨good_prefetch g r1 hgood.1 (hmay rfl), inv1.good⟩
            · rw [th1, ← hlink.1]; exact noteRecv_recv g r1
          obtain ⟨inv3, th3, rest3⟩ := ih _ w2 r ss' w' h hr inv2
          refine ⟨inv3, ?_, ?_⟩
          · rw [th3, hth]; rfl
          · intro hrest
            exact rest3 (rest1 (fun g hg => hrest g (List.mem_of_mem_tail hg)))
      | false =>
        simp only [Bool.false_eq_true, if_false] at h
        obtain ⟨op, st, pend, mode, inq, upDone, recv, hand⟩ := g
        simp only at h
        cases pend with
        | cons v rest =>
          simp at h
          obtain ⟨rfl, rfl, rfl⟩ := h
          have gd := good_deliver _ v rest hgood.1 rfl
          refine ⟨⟨?_, ⟨hlink.1, hlink.2⟩, hi1.src⟩, by simp [topHand, cnt, Resp.counts], ?_⟩
          · simp only [List.forall_mem_cons]; exact ⟨gd.1, hgood.2⟩
          · intro hrest
            simp only [List.forall_mem_cons]
            refine ⟨⟨gd.2, ?_⟩, hrest⟩
            have := hgood.1.pendRun
            simp only [reduceCtorEq, false_or] at this
            simp [this, failBit]
        | nil =>
          cases mode with
          | stop =>
            simp at h
            obtain ⟨rfl, rfl, rfl⟩ := h
            refine ⟨hi1, by simp [topHand, cnt, Resp.counts], ?_⟩
            intro hrest
            simp only [List.forall_mem_cons]
            exact ⟨⟨rfl, rfl⟩, hrest⟩
          | fail e =>
            simp at h
            obtain ⟨rfl, rfl, rfl⟩ := h
            have gd := good_failed _ e hgood.1 rfl rfl
            refine ⟨⟨?_, ⟨hlink.1, hlink.2⟩, hi1.src⟩, by simp [topHand, cnt, Resp.counts], ?_⟩
            · simp only [List.forall_mem_cons]; exact ⟨gd, hgood.2⟩
            · intro hrest
              simp only [List.forall_mem_cons]
              exact ⟨⟨rfl, rfl⟩, hrest⟩
          | run =>
            cases inq with
            | cons r1 q =>
              simp only at h
              have gq := good_take_inq _ r1 q hgood.1 rfl rfl rfl
              have inv2 : Inv ((Stage.mk op st [] .run q upDone recv hand).take r1 :: up) w1 := by
                refine ⟨?_, ⟨?_, hlink.2⟩, hi1.src⟩
                · simp only [List.forall_mem_cons]; exact ⟨gq, hgood.2⟩
                · rw [take_recv]; exact hlink.1
              obtain ⟨inv3, th3, rest3⟩ := ih _ w1 r ss' w' h hr inv2
              refine ⟨inv3, ?_, fun hrest => rest3 hrest⟩
              rw [th3]; simp [topHand]
            | nil =>
              simp only at h
              rcases h1 : next f up w1 with ⟨r1, up1, w2⟩
              rw [h1] at h
              simp only at h
              by_cases hf : r1 = .fuel
              · simp only [hf, if_true] at h
                simp at h
                exact absurd h.1.symm hr
              · simp only [hf, if_false] at h
                obtain ⟨inv1, th1, rest1⟩ := ih up w1 r1 up1 w2 h1 hf ⟨hgood.2, hlink.2, hi1.src⟩
                have gq := good_take_fresh _ r1 hgood.1 rfl rfl rfl
                have inv2 : Inv (((Stage.mk op st [] .run [] upDone recv hand).noteRecv r1).take r1 :: up1) w2 := by
                  refine ⟨?_, ⟨?_, inv1.linked⟩, inv1.src⟩
                  · simp only [List.forall_mem_cons]; exact ⟨gq, inv1.good⟩
                  · rw [take_recv, noteRecv_recv, th1, ← hlink.1]
                obtain ⟨inv3, th3, rest3⟩ := ih _ w2 r ss' w' h hr inv2
                refine ⟨inv3, ?_, ?_⟩
                · rw [th3]; simp [topHand, Stage.noteRecv]
                · intro hrest
                  exact rest3 (rest1 (fun g hg => hrest g (List.mem_of_mem_tail hg)))

/-- `next` never changes which operator a stage runs -/
theorem next_ops : ∀ (f : Nat) (ss : List Stage) (w : World),
    (next f ss w).2.1.map Stage.op = ss.map Stage.op := by
  intro f
  induction f with
  | zero =>
    intro ss w
    cases ss with
    | nil => simp [next_nil]
    | cons g up => simp [next_zero]
  | succ f ih =>
    intro ss w
    cases ss with
    | nil => simp [next_nil]
    | cons g up =>
      simp only [next]
      generalize g.choose w = c
      obtain ⟨c1, w1⟩ := c
      simp only
      cases c1 with
      | true =>
        simp only [if_true]
        have i1 := ih up w1
        rcases h1 : next f up w1 with ⟨r1, up1, w2⟩
        rw [h1] at i1
        simp only at i1 ⊢
        by_cases hf : r1 = .fuel
        · simp [hf, i1]
        · simp only [hf, if_false]
          rw [ih]
          simp [i1, Stage.noteRecv]
      | false =>
        simp only [Bool.false_eq_true, if_false]
        obtain ⟨op, st, pend, mode, inq, upDone, recv, hand⟩ := g
        simp only
        cases pend with
        | cons v rest => simp
        | nil =>
          cases mode with
          | stop => simp
          | fail e => simp
          | run =>
            cases inq with
            | cons r1 q =>
              simp only
              rw [ih]
              simp
            | nil =>
              simp only
              have i1 := ih up w1
              rcases h1 : next f up w1 with ⟨r1, up1, w2⟩
              rw [h1] at i1
              simp only at i1 ⊢
              by_cases hf : r1 = .fuel
              · simp [hf, i1]
              · simp only [hf, if_false]
                rw [ih]
                simp [i1, Stage.noteRecv]

def stageSlack : List Stage → Nat
  | [] => 0
  | g :: up => slack g.op + stageSlack up

theorem stageSlack_eq (ss : List Stage) : stageSlack ss = ((ss.map Stage.op).map slack).sum := by
  induction ss with
  | nil => rfl
  | cons g up ih => simp [stageSlack, ih]

theorem slackAll_eq (ops : List Op) : slackAll ops = (ops.map slack).sum := by
  induction ops with
  | nil => rfl
  | cons op ops ih => simp [slackAll, ih]

theorem isHead_lookahead (op : Op) (h : op.isHead = true) : lookahead op = 0 := by
  cases op <;> simp [Op.isHead] at h <;> rfl

/-- at rest, everything pulled from the source is accounted for by what the consumer was handed
    plus the stages' look-ahead constants -/
theorem pulled_le : ∀ (ss : List Stage) (w : World), Inv ss w → (∀ g ∈ ss, Rest g) →
    w.src.pulled ≤ topHand ss w + stageSlack ss := by
  intro ss
  induction ss with
  | nil => intro w hi _; simpa [topHand, stageSlack] using hi.src
  | cons g up ih =>
    intro w hi hrest
    simp only [List.forall_mem_cons] at hrest
    have hg := hi.good
    simp only [List.forall_mem_cons] at hg
    have i1 := ih w ⟨hg.2, hi.linked.2, hi.src⟩ hrest.2
    have hl := hi.linked.1
    obtain ⟨one, cap, bal, pend1, pendRun⟩ := hg.1
    obtain ⟨rp, rf⟩ := hrest.1
    have hc : inqc g ≤ g.inq.length := List.countP_le_length
    have hs : headBit g + inqc g ≤ slack g.op := by
      unfold slack headBit
      cases hh : g.op.isHead with
      | true =>
        have := isHead_lookahead g.op hh
        simp only [Bool.true_and, if_true]
        split <;> omega
      | false => simp; omega
    simp only [due, rp, rf, List.length_nil] at bal
    simp only [topHand, stageSlack]
    omega

theorem build_inv (ops : List Op) (hone : ∀ op ∈ ops, op.oneOne = true) (vals : List Val) (err : Option Err)
    (orc : List Bool) :
    Inv (build ops) (World.init vals err orc) ∧ (∀ g ∈ build ops, Rest g) ∧
      topHand (build ops) (World.init vals err orc) = 0 := by
  have hmem : ∀ g ∈ build ops, ∃ op ∈ ops, g = Stage.init op := by
    intro g hg
    simp only [build, List.mem_reverse, List.mem_map] at hg
    obtain ⟨op, h1, rfl⟩ := hg
    exact ⟨op, h1, rfl⟩
  have hlinked : ∀ (ss : List Stage), (∀ g ∈ ss, g.recv = 0 ∧ g.hand = 0) →
      Linked ss (World.init vals err orc) ∧ topHand ss (World.init vals err orc) = 0 := by
    intro ss
    induction ss with
    | nil => intro _; exact ⟨trivial, rfl⟩
    | cons g up ih =>
      intro h
      simp only [List.forall_mem_cons] at h
      have := ih h.2
      exact ⟨⟨by rw [this.2]; exact h.1.1, this.1⟩, h.1.2⟩
  have h0 := hlinked (build ops) (fun g hg => by
    obtain ⟨op, _, rfl⟩ := hmem g hg
    exact ⟨rfl, rfl⟩)
  refine ⟨⟨?_, h0.1, Nat.le_refl _⟩, ?_, h0.2⟩
  · intro g hg
    obtain ⟨op, hop, rfl⟩ := hmem g hg
    exact ⟨hone op hop, by simp [Stage.init], by simp [Stage.init], by simp [Stage.init], Or.inl rfl⟩
  · intro g hg
    obtain ⟨op, _, rfl⟩ := hmem g hg
    exact ⟨rfl, rfl⟩

/-- `k` requests: invariant, rest, and the consumer's count of what it was handed -/
theorem takeK_inv : ∀ (k fuel : Nat) (ss : List Stage) (w : World),
    Inv ss w → (∀ g ∈ ss, Rest g) → (takeK fuel k ss w).2.1 ≠ some .fuel →
    Inv (takeK fuel k ss w).2.2.1 (takeK fuel k ss w).2.2.2 ∧
    (∀ g ∈ (takeK fuel k ss w).2.2.1, Rest g) ∧
    (takeK fuel k ss w).2.2.1.map Stage.op = ss.map Stage.op ∧
    topHand (takeK fuel k ss w).2.2.1 (takeK fuel k ss w).2.2.2 =
      topHand ss w + (takeK fuel k ss w).1.length +
        (match (takeK fuel k ss w).2.1 with
          | some r => cnt r
          | Option.none => 0) := by
  intro k
  induction k with
  | zero => intro fuel ss w hi hr _; exact ⟨by simpa [takeK] using hi, by simpa [takeK] using hr, by simp [takeK], by simp [takeK]⟩
  | succ k ih =>
    intro fuel ss w hi hr h
    rcases h1 : next fuel ss w with ⟨r, ss', w'⟩
    have hops := next_ops fuel ss w
    rw [h1] at hops
    simp only at hops
    simp only [takeK, h1] at h ⊢
    cases r with
    | val v =>
      simp only at h ⊢
      obtain ⟨inv1, th1, rest1⟩ := next_inv fuel ss w _ ss' w' h1 (by simp) hi
      have r1 := rest1 (fun g hg => hr g (List.mem_of_mem_tail hg))
      obtain ⟨a, b, c, d⟩ := ih fuel ss' w' inv1 r1 h
      refine ⟨a, b, by rw [c, hops], ?_⟩
      rw [d, th1]
      have : cnt (Resp.val v) = 1 := rfl
      rw [this, Nat.add_assoc (topHand ss w) 1 _, Nat.add_comm 1 _]
      rfl
    | done =>
      obtain ⟨inv1, th1, rest1⟩ := next_inv fuel ss w _ ss' w' h1 (by simp) hi
      exact ⟨inv1, rest1 (fun g hg => hr g (List.mem_of_mem_tail hg)), hops, by simpa using th1⟩
    | err e =>
      obtain ⟨inv1, th1, rest1⟩ := next_inv fuel ss w _ ss' w' h1 (by simp) hi
      exact ⟨inv1, rest1 (fun g hg => hr g (List.mem_of_mem_tail hg)), hops, by simpa using th1⟩
    | fuel => simp at h

theorem stageSlack_append (a b : List Stage) : stageSlack (a ++ b) = stageSlack a + stageSlack b := by
  induction a with
  | nil => simp [stageSlack]
  | cons g a ih => simp [stageSlack, ih]; omega

theorem stageSlack_build (ops : List Op) : stageSlack (build ops) = slackAll ops := by
  induction ops with
  | nil => rfl
  | cons op ops ih =>
    have : build (op :: ops) = build ops ++ [Stage.init op] := by simp [build]
    rw [this, stageSlack_append, ih]
    simp [stageSlack, slackAll, Stage.init]
    omega

theorem stageSlack_congr (a b : List Stage) (h : a.map Stage.op = b.map Stage.op) : stageSlack a = stageSlack b := by
  rw [stageSlack_eq, stageSlack_eq, h]

theorem takeK_len : ∀ (k fuel : Nat) (ss : List Stage) (w : World),
    (takeK fuel k ss w).2.1 = Option.none → (takeK fuel k ss w).1.length = k := by
  intro k
  induction k with
  | zero => intro fuel ss w _; simp [takeK]
  | succ k ih =>
    intro fuel ss w h
    rcases h1 : next fuel ss w with ⟨r, ss', w'⟩
    simp only [takeK, h1] at h ⊢
    cases r with
    | val v => simp only at h ⊢; simp [ih fuel ss' w' h]
    | done => simp at h
    | err e => simp at h
    | fuel => simp at h

theorem takeK_ops : ∀ (k fuel : Nat) (ss : List Stage) (w : World),
    (takeK fuel k ss w).2.2.1.map Stage.op = ss.map Stage.op := by
  intro k
  induction k with
  | zero => intro fuel ss w; simp [takeK]
  | succ k ih =>
    intro fuel ss w
    rcases h1 : next fuel ss w with ⟨r, ss', w'⟩
    have hops := next_ops fuel ss w
    rw [h1] at hops
    simp only at hops
    simp only [takeK, h1]
    cases r with
    | val v => simp only; rw [ih, hops]
    | done => exact hops
    | err e => exact hops
    | fuel => exact hops

theorem map_op_init (ops : List Op) : ops.map (Stage.op ∘ Stage.init) = ops := by
  induction ops with
  | nil => rfl
  | cons op ops ih => simp [Stage.init, ih]

theorem rebuild_eq (ops : List Op) (ss : List Stage) (h : ss.map Stage.op = (build ops).map Stage.op) :
    rebuild ss = build ops := by
  have e1 : rebuild ss = (ss.map Stage.op).map Stage.init := by simp [rebuild]
  have e2 : (build ops).map Stage.op = ops.reverse := by
    simp only [build, List.map_reverse, List.map_map, map_op_init]
  rw [e1, h, e2]
  simp [build]

end Pipeline
