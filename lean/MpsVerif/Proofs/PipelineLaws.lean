import MpsVerif.Proofs.PipelineSem
/-!
# Operator laws: `sem` against the list library

Each lemma relates the sequential meaning of one operator to a standard list function
(`List.map`, `filter`, `take`, `drop`, `flatten`, `Perm`), which is what the documentation of the
operator promises.
-/
namespace Pipeline

/-! ### map / filter / parmap / buffer -/

theorem semMap_total (f : Val → Res) (g : Val → Val) (l : List Val) (e : Option Err)
    (h : ∀ v ∈ l, f v = .ok (g v)) : semMap f l e = ⟨l.map g, e⟩ := by
  induction l with
  | nil => rfl
  | cons v r ih =>
    simp only [List.forall_mem_cons] at h
    simp [semMap, h.1, ih h.2, Strm.cons]

theorem semMap_cut (f : Val → Res) (g : Val → Val) (pre post : List Val) (x : Val) (e : Option Err) (x' : Err)
    (h : ∀ v ∈ pre, f v = .ok (g v)) (hx : f x = .raise x') :
    semMap f (pre ++ x :: post) e = ⟨pre.map g, some x'⟩ := by
  induction pre with
  | nil => simp [semMap, hx, Strm.fail]
  | cons v r ih =>
    simp only [List.forall_mem_cons] at h
    simp [semMap, h.1, ih h.2, Strm.cons]

theorem semFilter_total (p : Val → Res) (b : Val → Val) (l : List Val) (e : Option Err)
    (h : ∀ v ∈ l, p v = .ok (b v)) : semFilter p l e = ⟨l.filter (fun v => (b v).truthy), e⟩ := by
  induction l with
  | nil => rfl
  | cons v r ih =>
    simp only [List.forall_mem_cons] at h
    simp only [semFilter, h.1, ih h.2, List.filter_cons]
    cases (b v).truthy <;> simp [Strm.cons]

theorem semParmap_plain (f : Val → Res) (l : List Val) (e : Option Err) :
    semParmap f false false l e = semMap f l e := by
  induction l with
  | nil => rfl
  | cons v r ih =>
    simp only [semParmap, semMap]
    cases f v <;> simp [ih, wrapX]

/-! ### filter_exceptions -/

def ExcVerdict.isRaise : ExcVerdict → Bool
  | .raise _ => true
  | _ => false

def ExcVerdict.isKeep : ExcVerdict → Bool
  | .keep => true
  | _ => false

theorem excVerdict_raise_iff (d k : ExcSel) (v : Val) (e : Err) :
    excVerdict d k v = .raise e ↔
      ∃ t a, v = .exc t a ∧ k.has t = false ∧ d.has t = false ∧ e = ⟨t, a⟩ := by
  cases v with
  | exc t a =>
    simp only [excVerdict]
    cases hk : k.has t <;> cases hd : d.has t <;> simp [hk, hd]
    constructor
    · intro h; exact ⟨t, a, ⟨rfl, rfl⟩, hk, hd, h.symm⟩
    · rintro ⟨t', a', ⟨rfl, rfl⟩, _, _, rfl⟩; rfl
  | _ => simp [excVerdict]

theorem semFilterExc_clean (d k : ExcSel) (l : List Val) (e : Option Err)
    (h : ∀ v ∈ l, (excVerdict d k v).isRaise = false) :
    semFilterExc d k l e = ⟨l.filter (fun v => (excVerdict d k v).isKeep), e⟩ := by
  induction l with
  | nil => rfl
  | cons v r ih =>
    simp only [List.forall_mem_cons] at h
    simp only [semFilterExc, List.filter_cons]
    cases hv : excVerdict d k v with
    | keep => simp [ih h.2, ExcVerdict.isKeep, Strm.cons]
    | drop => simp [ih h.2, ExcVerdict.isKeep]
    | raise x => simp [hv, ExcVerdict.isRaise] at h

theorem semFilterExc_first (d k : ExcSel) (pre post : List Val) (x : Val) (e : Option Err) (x' : Err)
    (h : ∀ v ∈ pre, (excVerdict d k v).isRaise = false) (hx : excVerdict d k x = .raise x') :
    semFilterExc d k (pre ++ x :: post) e = ⟨pre.filter (fun v => (excVerdict d k v).isKeep), some x'⟩ := by
  induction pre with
  | nil => simp [semFilterExc, hx, Strm.fail]
  | cons v r ih =>
    simp only [List.forall_mem_cons] at h
    simp only [List.cons_append, semFilterExc, List.filter_cons]
    cases hv : excVerdict d k v with
    | keep => simp [ih h.2, ExcVerdict.isKeep, Strm.cons]
    | drop => simp [ih h.2, ExcVerdict.isKeep]
    | raise y => simp [hv, ExcVerdict.isRaise] at h

/-! ### batch / unbatch -/

@[simp] theorem elems_ofList (l : List Val) : (Val.ofList l).elems = some l := by
  induction l with
  | nil => rfl
  | cons v r ih => simp [Val.ofList, Val.elems, ih]

theorem semUnbatch_ofLists (ls : List (List Val)) (e : Option Err) :
    semUnbatch (ls.map Val.ofList) e = ⟨ls.flatten, e⟩ := by
  induction ls with
  | nil => rfl
  | cons l r ih => simp [semUnbatch, ih, Strm.prepend]

theorem dropLast_cons_forall {α : Type} (p : α → Prop) (a : α) (l : List α) (ha : p a)
    (hl : ∀ x ∈ l.dropLast, p x) : ∀ x ∈ (a :: l).dropLast, p x := by
  cases l with
  | nil => simp
  | cons b t =>
    simp only [List.dropLast_cons_cons, List.forall_mem_cons]
    exact ⟨ha, hl⟩

/-- the batches: a partition of the input into consecutive non-empty lists of size ≤ n, all but
    the last of size exactly n (when the source fails, only the complete batches, which are a
    prefix partition) -/
theorem semBatch_shape (n : Nat) (hn : 0 < n) (l : List Val) (e : Option Err) :
    ∀ cur : List Val, cur.length < n →
    ∃ ls : List (List Val),
      (semBatch n cur l e).vals = ls.map Val.ofList ∧ (semBatch n cur l e).err = e ∧
      (e = Option.none → ls.flatten = cur ++ l) ∧
      (∀ b ∈ ls, 0 < b.length ∧ b.length ≤ n) ∧ (∀ b ∈ ls.dropLast, b.length = n) := by
  induction l with
  | nil =>
    intro cur hc
    cases e with
    | none =>
      cases cur with
      | nil => exact ⟨[], by simp [semBatch]⟩
      | cons a t =>
        refine ⟨[a :: t], by simp [semBatch], by simp [semBatch], by simp, ?_, by simp⟩
        simp only [List.mem_singleton, forall_eq]
        simp only [List.length_cons] at hc ⊢
        omega
    | some x => exact ⟨[], by simp [semBatch, Strm.fail]⟩
  | cons v r ih =>
    intro cur hc
    simp only [semBatch]
    by_cases hfull : (cur ++ [v]).length = n
    · simp only [hfull, if_true]
      obtain ⟨ls, h1, h2, h3, h4, h5⟩ := ih [] hn
      refine ⟨(cur ++ [v]) :: ls, by simp [Strm.cons, h1], by simpa [Strm.cons] using h2, ?_, ?_, ?_⟩
      · intro he; simp [h3 he]
      · simp only [List.forall_mem_cons]
        exact ⟨by omega, h4⟩
      · exact dropLast_cons_forall _ _ _ hfull h5
    · simp only [hfull, if_false]
      have : (cur ++ [v]).length < n := by
        simp only [List.length_append, List.length_cons, List.length_nil] at hfull ⊢
        omega
      obtain ⟨ls, h1, h2, h3, h4, h5⟩ := ih (cur ++ [v]) this
      exact ⟨ls, h1, h2, fun he => by simp [h3 he], h4, h5⟩

/-! ### shuffle -/

theorem applyShuffle_perm (cs : List Nat) (l : List Val) : (applyShuffle cs l).Perm l := by
  induction l generalizing cs with
  | nil => simp [applyShuffle]
  | cons x xs ih =>
    simp only [applyShuffle]
    refine (List.perm_insertIdx x _ ?_).trans (List.Perm.cons x (ih cs.tail))
    exact Nat.le_of_lt_succ (Nat.mod_lt _ (Nat.succ_pos _))

theorem getD_cons_set_perm (buf : List Val) (i : Nat) (v d : Val) (hi : i < buf.length) :
    (buf.getD i d :: buf.set i v).Perm (v :: buf) := by
  induction buf generalizing i with
  | nil => simp at hi
  | cons a t ih =>
    cases i with
    | zero => simpa using List.Perm.swap v a t
    | succ i =>
      simp only [List.length_cons] at hi
      have := ih i (by omega)
      simp only [List.getD_cons_succ, List.set_cons_succ]
      exact (List.Perm.swap a (t.getD i d) (t.set i v)).trans
        ((List.Perm.cons a this).trans (List.Perm.swap v a t))

theorem semShuffle_perm (n : Nat) (hn : 0 < n) (perm : List Nat) (l : List Val) :
    ∀ (buf : List Val) (rnd : List Nat), buf.length ≤ n →
      (semShuffle n perm buf rnd l Option.none).vals.Perm (buf ++ l) ∧
      (semShuffle n perm buf rnd l Option.none).err = Option.none := by
  induction l with
  | nil =>
    intro buf rnd _
    simp [semShuffle, applyShuffle_perm]
  | cons v r ih =>
    intro buf rnd hb
    simp only [semShuffle]
    by_cases hlt : buf.length < n
    · simp only [hlt, if_true]
      have := ih (buf ++ [v]) rnd (by simp; omega)
      simpa using this
    · simp only [hlt, if_false]
      have hi : rnd.headD 0 % n < buf.length := by
        have := Nat.mod_lt (rnd.headD 0) hn
        omega
      have := ih (buf.set (rnd.headD 0 % n) v) rnd.tail (by simpa using hb)
      refine ⟨?_, by simpa [Strm.cons] using this.2⟩
      simp only [Strm.cons]
      refine (List.Perm.cons _ this.1).trans ?_
      have p1 := getD_cons_set_perm buf (rnd.headD 0 % n) v .none hi
      have : (buf.getD (rnd.headD 0 % n) Val.none :: (buf.set (rnd.headD 0 % n) v ++ r)).Perm ((v :: buf) ++ r) := by
        simpa using List.Perm.append_right r p1
      refine this.trans ?_
      simpa using (List.perm_middle (a := v) (l₁ := buf) (l₂ := r)).symm

/-! ### groupby -/

/-- no two neighbouring groups have the same key -/
def adjDistinct : List (Val × List Val) → Prop
  | [] => True
  | [_] => True
  | a :: b :: r => a.1 ≠ b.1 ∧ adjDistinct (b :: r)

/-- groups: consecutive non-empty runs with constant key whose concatenation is the input, and
    neighbouring groups have different keys (so the runs are maximal) -/
theorem semGroup_shape (key : Val → Res) (k : Val → Val) (l : List Val)
    (hk : ∀ v ∈ l, key v = .ok (k v)) :
    ∀ cur : Option (Val × List Val),
    (∀ c, cur = some c → c.2 ≠ [] ∧ ∀ x ∈ c.2, k x = c.1) →
    ∃ gs : List (Val × List Val),
      (semGroup key cur l Option.none).vals = gs.map (fun g => Val.pair g.1 (Val.ofList g.2)) ∧
      (semGroup key cur l Option.none).err = Option.none ∧
      (gs.map (·.2)).flatten = (match cur with
        | some c => c.2
        | Option.none => []) ++ l ∧
      (∀ g ∈ gs, g.2 ≠ [] ∧ ∀ x ∈ g.2, k x = g.1) ∧
      adjDistinct gs ∧
      (∀ c, cur = some c → ∃ g0 rest, gs = g0 :: rest ∧ g0.1 = c.1) := by
  induction l with
  | nil =>
    intro cur hc
    cases cur with
    | none => exact ⟨[], by simp [semGroup, Strm.empty, adjDistinct]⟩
    | some c =>
      obtain ⟨ck, cl⟩ := c
      refine ⟨[(ck, cl)], by simp [semGroup], by simp [semGroup], by simp, ?_, trivial, ?_⟩
      · simp only [List.mem_singleton, forall_eq]
        exact hc _ rfl
      · intro c hcs
        simp only [Option.some.injEq] at hcs
        subst hcs
        exact ⟨_, _, rfl, rfl⟩
  | cons v r ih =>
    intro cur hc
    simp only [List.forall_mem_cons] at hk
    simp only [semGroup, hk.1]
    cases cur with
    | none =>
      simp only
      obtain ⟨gs, h1, h2, h3, h4, h5, _⟩ := ih hk.2 (some (k v, [v])) (by
        intro c hcs
        simp only [Option.some.injEq] at hcs
        subst hcs
        simp)
      exact ⟨gs, h1, h2, by simpa using h3, h4, h5, by simp⟩
    | some c =>
      obtain ⟨ck, cl⟩ := c
      have hc' := hc _ rfl
      simp only at hc' ⊢
      by_cases heq : k v = ck
      · simp only [heq, if_true]
        obtain ⟨gs, h1, h2, h3, h4, h5, h6⟩ := ih hk.2 (some (ck, cl ++ [v])) (by
          intro c hcs
          simp only [Option.some.injEq] at hcs
          subst hcs
          refine ⟨by simp, ?_⟩
          intro x hx
          simp only [List.mem_append, List.mem_singleton] at hx
          rcases hx with hx | rfl
          · exact hc'.2 x hx
          · exact heq)
        refine ⟨gs, h1, h2, by simpa using h3, h4, h5, ?_⟩
        intro c hcs
        simp only [Option.some.injEq] at hcs
        subst hcs
        exact h6 (ck, cl ++ [v]) rfl
      · simp only [heq, if_false]
        obtain ⟨gs, h1, h2, h3, h4, h5, h6⟩ := ih hk.2 (some (k v, [v])) (by
          intro c hcs
          simp only [Option.some.injEq] at hcs
          subst hcs
          simp)
        obtain ⟨g0, rest, hgs, hg0⟩ := h6 _ rfl
        refine ⟨(ck, cl) :: gs, by simp [Strm.cons, h1], by simpa [Strm.cons] using h2, ?_, ?_, ?_, ?_⟩
        · simp only [List.map_cons, List.flatten_cons, h3]
          simp
        · simp only [List.forall_mem_cons]
          exact ⟨hc', h4⟩
        · rw [hgs] at h5 ⊢
          refine ⟨?_, h5⟩
          simp only at hg0 ⊢
          rw [hg0]
          exact fun h => heq h.symm
        · intro c hcs
          simp only [Option.some.injEq] at hcs
          subst hcs
          exact ⟨_, _, rfl, rfl⟩

/-! ### accumulate -/

theorem semAcc_total (g : Val → Val → Res) (h : Val → Val → Val) (hg : ∀ z v, g z v = .ok (h z v))
    (l : List Val) (e : Option Err) (z : Val) :
    semAcc g (some z) l e = ⟨(l.scanl h z).tail, e⟩ := by
  induction l generalizing z with
  | nil => rfl
  | cons v r ih =>
    simp only [semAcc, hg, ih, List.scanl_cons, List.tail_cons, Strm.cons]
    cases r with
    | nil => rfl
    | cons w r' => simp [List.scanl_cons]

end Pipeline
