import MpsVerif.Proofs.PipelineSem
/-!
# The generator protocol (`next`) computes the generators' list meaning

`denote ss src` is what the rest of the run will deliver, read off the state: for every stage its
pending values, then its generator body folded over what is still to come from below.
`next_spec`: every answer of `next` is the head of `denote`, and the new state denotes the rest.
`next_mono`: more fuel never changes a non-`fuel` answer.  `next_total`: enough fuel exists.
-/
namespace Pipeline

/-- the stream that a queue of fetched-ahead upstream answers, followed by the rest `s`, stands for -/
def inqStrm : List Resp → Strm → Strm
  | [], s => s
  | .val v :: q, s => (inqStrm q s).cons v
  | .done :: _, _ => .empty
  | .err e :: _, _ => .fail e
  | .fuel :: q, s => inqStrm q s

def Stage.denote (g : Stage) (s : Strm) : Strm :=
  (match g.mode with
   | .run => fold g.op g.st (inqStrm g.inq s).vals (inqStrm g.inq s).err
   | .stop => Strm.empty
   | .fail e => Strm.fail e).prepend g.pend

def Src.denote (s : Src) : Strm := ⟨s.rest, if s.ended then Option.none else s.err⟩

def denote : List Stage → Src → Strm
  | [], src => src.denote
  | g :: up, src => g.denote (denote up src)

/-- answer `r` is the head of stream `d`, and `d'` is what remains -/
def Spec (r : Resp) (d d' : Strm) : Prop :=
  match r with
  | .val v => d = d'.cons v
  | .done => d = Strm.empty ∧ d' = Strm.empty
  | .err e => d = Strm.fail e ∧ d' = Strm.empty
  | .fuel => True

theorem src_next_spec (s : Src) : Spec s.next.1 s.denote s.next.2.denote := by
  unfold Src.next
  cases hr : s.rest with
  | cons v r => simp [Spec, Src.denote, Strm.cons, hr]
  | nil =>
    cases he : s.ended with
    | true => simp [Spec, Src.denote, Strm.empty, hr, he]
    | false =>
      cases hx : s.err with
      | none => simp [Spec, Src.denote, Strm.empty, hr, he, hx]
      | some e => simp [Spec, Src.denote, Strm.empty, Strm.fail, hr, he, hx]

theorem inqStrm_snoc (q : List Resp) (r : Resp) (d d' : Strm) (hs : Spec r d d') (hr : r ≠ .fuel) :
    inqStrm (q ++ [r]) d' = inqStrm q d := by
  induction q with
  | nil =>
    cases r with
    | val v => simpa [inqStrm, Spec] using hs.symm
    | done => simpa [inqStrm, Spec] using hs.1.symm
    | err e => simpa [inqStrm, Spec] using hs.1.symm
    | fuel => exact absurd rfl hr
  | cons a q ih =>
    cases a <;> simp [inqStrm, ih]

/-- taking answer `r` and running the body on it does not change what the stage denotes -/
theorem take_denote (g : Stage) (r : Resp) (t : Strm) (hp : g.pend = []) (hm : g.mode = .run) :
    (g.take r).denote t =
      match r with
      | .val v => fold g.op g.st (v :: (inqStrm g.inq t).vals) (inqStrm g.inq t).err
      | .done => fold g.op g.st [] Option.none
      | .err e => fold g.op g.st [] (some e)
      | .fuel => g.denote t := by
  cases r with
  | val v =>
    simp only [Stage.take, fold]
    rcases hf : feed g.op g.st v with ⟨outs, nx⟩
    cases nx <;> simp [Stage.denote, hm, Strm.prepend, Strm.empty, Strm.fail]
  | done => simp [Stage.take, Stage.denote, fold, Strm.prepend, Strm.empty]
  | err e => simp [Stage.take, Stage.denote, fold, hp, Strm.prepend, Strm.fail]
  | fuel => simp [Stage.take]

theorem choose_src (g : Stage) (w : World) : (g.choose w).2.src = w.src := by
  unfold Stage.choose
  split
  · split <;> rfl
  · rfl

theorem next_nil (f : Nat) (w : World) :
    next f [] w = (w.src.next.1, [], { w with src := w.src.next.2 }) := by
  cases f <;> simp [next]

theorem next_zero (g : Stage) (up : List Stage) (w : World) : next 0 (g :: up) w = (.fuel, g :: up, w) := by
  simp [next]

theorem next_spec : ∀ (f : Nat) (ss : List Stage) (w : World) (r : Resp) (ss' : List Stage) (w' : World),
    next f ss w = (r, ss', w') → Spec r (denote ss w.src) (denote ss' w'.src) := by
  intro f
  induction f with
  | zero =>
    intro ss w r ss' w' h
    cases ss with
    | nil =>
      rw [next_nil] at h
      simp at h
      obtain ⟨rfl, rfl, rfl⟩ := h
      exact src_next_spec w.src
    | cons g up =>
      rw [next_zero] at h
      simp at h
      obtain ⟨rfl, _, _⟩ := h
      trivial
  | succ f ih =>
    intro ss w r ss' w' h
    cases ss with
    | nil =>
      rw [next_nil] at h
      simp at h
      obtain ⟨rfl, rfl, rfl⟩ := h
      exact src_next_spec w.src
    | cons g up =>
      simp only [next] at h
      have hsrc := choose_src g w
      generalize g.choose w = c at h hsrc
      obtain ⟨c1, w1⟩ := c
      simp only at h hsrc
      cases c1 with
      | true =>
        simp only [if_true] at h
        rcases h1 : next f up w1 with ⟨r1, up1, w2⟩
        rw [h1] at h
        simp only at h
        have s1 := ih up w1 r1 up1 w2 h1
        rw [hsrc] at s1
        by_cases hf : r1 = .fuel
        · simp only [hf, if_true] at h
          simp at h
          obtain ⟨rfl, _, _⟩ := h
          trivial
        · simp only [hf, if_false] at h
          have s2 := ih _ w2 r ss' w' h
          refine Eq.mp ?_ s2
          congr 1
          simp only [denote, Stage.denote, Stage.noteRecv]
          rw [inqStrm_snoc g.inq r1 _ _ s1 hf]
      | false =>
        simp only [Bool.false_eq_true, if_false] at h
        obtain ⟨op, st, pend, mode, inq, upDone, recv, hand⟩ := g
        simp only at h
        cases pend with
        | cons v rest =>
          simp at h
          obtain ⟨rfl, rfl, rfl⟩ := h
          simp [Spec, denote, Stage.denote, hsrc, Strm.prepend, Strm.cons]
        | nil =>
          cases mode with
          | stop =>
            simp at h
            obtain ⟨rfl, rfl, rfl⟩ := h
            simp [Spec, denote, Stage.denote, Strm.prepend, Strm.empty]
          | fail e =>
            simp at h
            obtain ⟨rfl, rfl, rfl⟩ := h
            simp [Spec, denote, Stage.denote, Strm.prepend, Strm.empty, Strm.fail]
          | run =>
            cases inq with
            | cons r1 q =>
              simp only at h
              have s2 := ih _ w1 r ss' w' h
              refine Eq.mp ?_ s2
              congr 1
              simp only [denote]
              rw [take_denote _ _ _ rfl rfl, hsrc]
              cases r1 <;> simp [Stage.denote, inqStrm, Strm.cons, Strm.empty, Strm.fail, fold]
            | nil =>
              simp only at h
              rcases h1 : next f up w1 with ⟨r1, up1, w2⟩
              rw [h1] at h
              simp only at h
              have s1 := ih up w1 r1 up1 w2 h1
              rw [hsrc] at s1
              by_cases hf : r1 = .fuel
              · simp only [hf, if_true] at h
                simp at h
                obtain ⟨rfl, _, _⟩ := h
                trivial
              · simp only [hf, if_false] at h
                have s2 := ih _ w2 r ss' w' h
                refine Eq.mp ?_ s2
                congr 1
                simp only [denote]
                rw [take_denote _ _ _ rfl rfl]
                cases r1 with
                | val v =>
                  simp only [Spec] at s1
                  simp [Stage.denote, Stage.noteRecv, inqStrm, s1, Strm.cons]
                | done =>
                  simp only [Spec] at s1
                  simp [Stage.denote, Stage.noteRecv, inqStrm, s1.1, Strm.empty]
                | err e =>
                  simp only [Spec] at s1
                  simp [Stage.denote, Stage.noteRecv, inqStrm, s1.1, Strm.fail]
                | fuel => exact absurd rfl hf

/-! ## fuel: more never changes an answer -/

theorem next_mono : ∀ (f : Nat) (ss : List Stage) (w : World),
    (next f ss w).1 ≠ .fuel → next (f + 1) ss w = next f ss w := by
  intro f
  induction f with
  | zero =>
    intro ss w h
    cases ss with
    | nil => simp [next_nil]
    | cons g up => simp [next_zero] at h
  | succ f ih =>
    intro ss w h
    cases ss with
    | nil => simp [next_nil]
    | cons g up =>
      simp only [next] at h ⊢
      generalize g.choose w = c at h ⊢
      obtain ⟨c1, w1⟩ := c
      simp only at h ⊢
      cases c1 with
      | true =>
        simp only [if_true] at h ⊢
        by_cases hf : (next f up w1).1 = .fuel
        · rcases h1 : next f up w1 with ⟨r1, up1, w2⟩
          rw [h1] at h hf
          simp only at hf
          simp [hf] at h
        · rw [ih up w1 hf]
          rcases h1 : next f up w1 with ⟨r1, up1, w2⟩
          rw [h1] at h hf
          simp only at hf
          simp only [hf, if_false] at h ⊢
          exact ih _ _ h
      | false =>
        simp only [Bool.false_eq_true, if_false] at h ⊢
        obtain ⟨op, st, pend, mode, inq, upDone, recv, hand⟩ := g
        simp only at h ⊢
        cases pend with
        | cons v rest => rfl
        | nil =>
          cases mode with
          | stop => rfl
          | fail e => rfl
          | run =>
            cases inq with
            | cons r1 q =>
              simp only at h ⊢
              exact ih _ _ h
            | nil =>
              simp only at h ⊢
              by_cases hf : (next f up w1).1 = .fuel
              · rcases h1 : next f up w1 with ⟨r1, up1, w2⟩
                rw [h1] at h hf
                simp only at hf
                simp [hf] at h
              · rw [ih up w1 hf]
                rcases h1 : next f up w1 with ⟨r1, up1, w2⟩
                rw [h1] at h hf
                simp only at hf
                simp only [hf, if_false] at h ⊢
                exact ih _ _ h

theorem next_mono_add (f k : Nat) (ss : List Stage) (w : World)
    (h : (next f ss w).1 ≠ .fuel) : next (f + k) ss w = next f ss w := by
  induction k with
  | zero => rfl
  | succ k ih =>
    have := next_mono (f + k) ss w (by rw [ih]; exact h)
    rw [← Nat.add_assoc, this, ih]

theorem next_mono_le (f f' : Nat) (hle : f ≤ f') (ss : List Stage) (w : World)
    (h : (next f ss w).1 ≠ .fuel) : next f' ss w = next f ss w := by
  obtain ⟨k, rfl⟩ := Nat.exists_eq_add_of_le hle
  exact next_mono_add f k ss w h

/-! ## fuel: enough exists -/

theorem choose_orc_le (g : Stage) (w : World) : (g.choose w).2.orc.length ≤ w.orc.length := by
  unfold Stage.choose
  split
  · split <;> simp_all
  · simp

theorem choose_orc_lt (g : Stage) (w : World) (h : (g.choose w).1 = true) :
    (g.choose w).2.orc.length < w.orc.length := by
  unfold Stage.choose at h ⊢
  split
  · split <;> simp_all
  · simp_all

/-- `next` keeps the number of stages and only ever consumes oracle bits -/
theorem next_frame : ∀ (f : Nat) (ss : List Stage) (w : World),
    (next f ss w).2.1.length = ss.length ∧ (next f ss w).2.2.orc.length ≤ w.orc.length := by
  intro f
  induction f with
  | zero =>
    intro ss w
    cases ss with
    | nil => simp [next_nil]
    | cons g up => simp [next_zero]
  | succ f ih =>
    intro ss w
    cases ss with
    | nil => simp [next_nil]
    | cons g up =>
      simp only [next]
      have hle := choose_orc_le g w
      generalize g.choose w = c at hle ⊢
      obtain ⟨c1, w1⟩ := c
      simp only at hle ⊢
      cases c1 with
      | true =>
        simp only [if_true]
        have i1 := ih up w1
        rcases h1 : next f up w1 with ⟨r1, up1, w2⟩
        rw [h1] at i1
        simp only at i1 ⊢
        by_cases hf : r1 = .fuel
        · simp only [hf, if_true, List.length_cons]; omega
        · simp only [hf, if_false]
          have i2 := ih ({ g.noteRecv r1 with inq := g.inq ++ [r1] } :: up1) w2
          simp only [List.length_cons] at i2 ⊢
          omega
      | false =>
        simp only [Bool.false_eq_true, if_false]
        obtain ⟨op, st, pend, mode, inq, upDone, recv, hand⟩ := g
        simp only
        cases pend with
        | cons v rest => simpa using hle
        | nil =>
          cases mode with
          | stop => simpa using hle
          | fail e => simpa using hle
          | run =>
            cases inq with
            | cons r1 q =>
              simp only
              have i2 := ih ((Stage.mk op st [] .run q upDone recv hand).take r1 :: up) w1
              simp only [List.length_cons] at i2 ⊢
              omega
            | nil =>
              simp only
              have i1 := ih up w1
              rcases h1 : next f up w1 with ⟨r1, up1, w2⟩
              rw [h1] at i1
              simp only at i1 ⊢
              by_cases hf : r1 = .fuel
              · simp only [hf, if_true, List.length_cons]; omega
              · simp only [hf, if_false]
                have i2 := ih (((Stage.mk op st [] .run [] upDone recv hand).noteRecv r1).take r1 :: up1) w2
                simp only [List.length_cons] at i2 ⊢
                omega

theorem src_next_ne_fuel (s : Src) : s.next.1 ≠ .fuel := by
  unfold Src.next
  split
  · simp
  · split
    · simp
    · split <;> simp

theorem Spec.vals_le {r : Resp} {d d' : Strm} (h : Spec r d d') (hr : r ≠ .fuel) :
    d'.vals.length ≤ d.vals.length := by
  cases r with
  | val v => simp only [Spec] at h; simp [h, Strm.cons]
  | done => simp only [Spec] at h; simp [h.1, h.2]
  | err e => simp only [Spec] at h; simp [h.1, h.2, Strm.empty, Strm.fail]
  | fuel => exact absurd rfl hr

def runBit : Mode → Nat
  | .run => 1
  | _ => 0

@[simp] theorem runBit_run : runBit .run = 1 := rfl
@[simp] theorem runBit_stop : runBit .stop = 0 := rfl
@[simp] theorem runBit_fail (e : Err) : runBit (.fail e) = 0 := rfl

theorem runBit_le (m : Mode) : runBit m ≤ 1 := by cases m <;> simp [runBit]

@[simp] theorem take_inq (g : Stage) (r : Resp) : (g.take r).inq = g.inq := by
  cases r with
  | val v =>
    simp only [Stage.take]
    rcases feed g.op g.st v with ⟨outs, nx⟩
    cases nx <;> rfl
  | done => rfl
  | err e => rfl
  | fuel => rfl

/-- the loop at the outermost stage goes round at most this many times more -/
def loopMeasure (g : Stage) (d o : Nat) : Nat := 2 * o + g.inq.length + d + runBit g.mode

theorem next_total : ∀ (n : Nat) (ss : List Stage), ss.length = n → ∀ w : World,
    ∃ F, (next F ss w).1 ≠ .fuel := by
  intro n
  induction n with
  | zero =>
    intro ss hl w
    have : ss = [] := List.eq_nil_of_length_eq_zero hl
    subst this
    exact ⟨0, by rw [next_nil]; exact src_next_ne_fuel _⟩
  | succ n ihn =>
    have key : ∀ (m : Nat) (g : Stage) (up : List Stage) (w : World), up.length = n →
        loopMeasure g (denote up w.src).vals.length w.orc.length < m →
        ∃ F, (next F (g :: up) w).1 ≠ .fuel := by
      intro m
      induction m with
      | zero => intro g up w _ h; omega
      | succ m ihm =>
        intro g up w hlen hM
        have hsrc := choose_src g w
        have hole := choose_orc_le g w
        have holt := choose_orc_lt g w
        rcases hc : g.choose w with ⟨c1, w1⟩
        rw [hc] at hsrc hole holt
        simp only at hsrc hole holt
        cases c1 with
        | true =>
          have holt := holt rfl
          obtain ⟨F1, hF1⟩ := ihn up hlen w1
          rcases h1 : next F1 up w1 with ⟨r1, up1, w2⟩
          have hr1 : r1 ≠ .fuel := by rw [h1] at hF1; exact hF1
          have sp := next_spec F1 up w1 r1 up1 w2 h1
          rw [hsrc] at sp
          have fr := next_frame F1 up w1
          rw [h1] at fr
          simp only at fr
          have hd := sp.vals_le hr1
          obtain ⟨F2, hF2⟩ := ihm ({ g.noteRecv r1 with inq := g.inq ++ [r1] }) up1 w2 (by omega) (by
            simp only [loopMeasure, Stage.noteRecv, List.length_append, List.length_cons, List.length_nil] at hM ⊢
            omega)
          refine ⟨max F1 F2 + 1, ?_⟩
          simp only [next, hc, if_true]
          rw [next_mono_le F1 (max F1 F2) (Nat.le_max_left ..) up w1 hF1, h1]
          simp only [hr1, if_false]
          rw [next_mono_le F2 (max F1 F2) (Nat.le_max_right ..) _ _ hF2]
          exact hF2
        | false =>
          obtain ⟨op, st, pend, mode, inq, upDone, recv, hand⟩ := g
          cases pend with
          | cons v rest => exact ⟨1, by simp [next, hc]⟩
          | nil =>
            cases mode with
            | stop => exact ⟨1, by simp [next, hc]⟩
            | fail e => exact ⟨1, by simp [next, hc]⟩
            | run =>
              cases inq with
              | cons r1 q =>
                obtain ⟨F2, hF2⟩ := ihm ((Stage.mk op st [] .run q upDone recv hand).take r1) up w1 hlen (by
                  have := runBit_le ((Stage.mk op st [] .run q upDone recv hand).take r1).mode
                  simp only [loopMeasure, take_inq, List.length_cons, runBit_run, hsrc] at hM ⊢
                  omega)
                refine ⟨F2 + 1, ?_⟩
                simp only [next, hc]
                exact hF2
              | nil =>
                obtain ⟨F1, hF1⟩ := ihn up hlen w1
                rcases h1 : next F1 up w1 with ⟨r1, up1, w2⟩
                have hr1 : r1 ≠ .fuel := by rw [h1] at hF1; exact hF1
                have sp := next_spec F1 up w1 r1 up1 w2 h1
                rw [hsrc] at sp
                have fr := next_frame F1 up w1
                rw [h1] at fr
                simp only at fr
                obtain ⟨F2, hF2⟩ := ihm (((Stage.mk op st [] .run [] upDone recv hand).noteRecv r1).take r1) up1 w2
                    (by omega) (by
                  simp only [loopMeasure, take_inq, Stage.noteRecv, List.length_nil, runBit_run] at hM ⊢
                  cases r1 with
                  | val v =>
                    have := runBit_le ((Stage.mk op st [] .run [] upDone (if (Resp.val v).counts = true then recv + 1 else recv) hand).take (.val v)).mode
                    simp only [Spec] at sp
                    simp only [sp, Strm.cons, List.length_cons] at hM
                    simp only [Resp.isVal, Bool.not_true, Bool.or_false] at this ⊢
                    omega
                  | done =>
                    simp only [Spec] at sp
                    simp only [sp.1, sp.2, Strm.empty, List.length_nil] at hM ⊢
                    simp only [Stage.take, runBit_stop]
                    omega
                  | err e =>
                    simp only [Spec] at sp
                    simp only [sp.1, sp.2, Strm.empty, Strm.fail, List.length_nil] at hM ⊢
                    simp only [Stage.take, runBit_fail]
                    omega
                  | fuel => exact absurd rfl hr1)
                refine ⟨max F1 F2 + 1, ?_⟩
                simp only [next, hc]
                rw [next_mono_le F1 (max F1 F2) (Nat.le_max_left ..) up w1 hF1, h1]
                simp only [hr1, if_false]
                rw [next_mono_le F2 (max F1 F2) (Nat.le_max_right ..) _ _ hF2]
                exact hF2
    intro ss hl w
    cases ss with
    | nil => simp at hl
    | cons g up =>
      exact key _ g up w (by simpa using hl) (Nat.lt_succ_self _)

/-! ## consuming `k` items -/

/-- what a consumer that asks `k` times sees of the terminated stream `d`: its first `k` values,
    and — only if it asks beyond the last value — the ending -/
def expectK (k : Nat) (d : Strm) : List Val × Option Resp :=
  (d.vals.take k,
   if k ≤ d.vals.length then Option.none
   else some (match d.err with
     | Option.none => Resp.done
     | some e => Resp.err e))

theorem takeK_spec : ∀ (k fuel : Nat) (ss : List Stage) (w : World),
    (takeK fuel k ss w).2.1 ≠ some .fuel →
    ((takeK fuel k ss w).1, (takeK fuel k ss w).2.1) = expectK k (denote ss w.src) := by
  intro k
  induction k with
  | zero => intro fuel ss w _; simp [takeK, expectK]
  | succ k ih =>
    intro fuel ss w h
    rcases h1 : next fuel ss w with ⟨r, ss', w'⟩
    have sp := next_spec fuel ss w r ss' w' h1
    simp only [takeK, h1] at h ⊢
    cases r with
    | val v =>
      simp only at h ⊢
      have i := ih fuel ss' w' h
      simp only [Spec] at sp
      simp only [expectK, Prod.mk.injEq] at i ⊢
      simp [sp, Strm.cons, i.1, i.2]
    | done =>
      simp only [Spec] at sp
      simp [expectK, sp.1, Strm.empty]
    | err e =>
      simp only [Spec] at sp
      simp [expectK, sp.1, Strm.fail]
    | fuel => simp at h

theorem takeK_total : ∀ (k : Nat) (ss : List Stage) (w : World),
    ∃ F, ∀ fuel, F ≤ fuel → (takeK fuel k ss w).2.1 ≠ some .fuel := by
  intro k
  induction k with
  | zero => intro ss w; exact ⟨0, by simp [takeK]⟩
  | succ k ih =>
    intro ss w
    obtain ⟨F1, hF1⟩ := next_total ss.length ss rfl w
    rcases h1 : next F1 ss w with ⟨r, ss', w'⟩
    have hr : r ≠ .fuel := by rw [h1] at hF1; exact hF1
    obtain ⟨F2, hF2⟩ := ih ss' w'
    refine ⟨max F1 F2, ?_⟩
    intro fuel hle
    have e1 : next fuel ss w = (r, ss', w') := by
      rw [next_mono_le F1 fuel (by omega) ss w hF1, h1]
    simp only [takeK, e1]
    cases r with
    | val v => exact hF2 fuel (by omega)
    | done => simp
    | err e => simp
    | fuel => exact absurd rfl hr

/-! ## the freshly built pipeline denotes `semAll` -/

def denoteOver : List Stage → Strm → Strm
  | [], s => s
  | g :: up, s => g.denote (denoteOver up s)

theorem denote_eq_over (ss : List Stage) (src : Src) : denote ss src = denoteOver ss src.denote := by
  induction ss with
  | nil => rfl
  | cons g up ih => simp [denote, denoteOver, ih]

theorem denoteOver_append (a b : List Stage) (s : Strm) :
    denoteOver (a ++ b) s = denoteOver a (denoteOver b s) := by
  induction a with
  | nil => rfl
  | cons g a ih => simp [denoteOver, ih]

theorem init_denote (op : Op) (s : Strm) : (Stage.init op).denote s = sem op s := by
  simp [Stage.denote, Stage.init, inqStrm, fold_init]

theorem denoteOver_build (ops : List Op) (s : Strm) : denoteOver (build ops) s = semAll ops s := by
  induction ops generalizing s with
  | nil => rfl
  | cons op ops ih =>
    have : build (op :: ops) = build ops ++ [Stage.init op] := by simp [build]
    rw [this, denoteOver_append]
    simp [denoteOver, init_denote, semAll, ih]

theorem denote_build (ops : List Op) (vals : List Val) (err : Option Err) (orc : List Bool) :
    denote (build ops) (World.init vals err orc).src = semAll ops ⟨vals, err⟩ := by
  rw [denote_eq_over, denoteOver_build]
  simp [World.init, Src.denote]

end Pipeline
