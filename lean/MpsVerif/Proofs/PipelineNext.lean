import MpsVerif.Proofs.PipelineSem
/-!
# The generator protocol (`next`) computes the generators' list meaning

`denote ss src` is what the rest of the run will deliver, read off the state: for every stage its
pending values, then its generator body folded over what is still to come from below.
`next_spec`: every answer of `next` is the head of `denote`, and the new state denotes the rest.
`next_mono`: more fuel never changes a non-`fuel` answer.  `next_total`: enough fuel exists.
-/
namespace Pipeline

/-- the stream that a queue of fetched-ahead upstream answers, followed by the rest `s`, stands for -/
def inqStrm : List Resp → Strm → Strm
  | [], s => s
  | .val v :: q, s => (inqStrm q s).cons v
  | .done :: _, _ => .empty
  | .err e :: _, _ => .fail e
  | .fuel :: q, s => inqStrm q s

def Stage.denote (g : Stage) (s : Strm) : Strm :=
  (match g.mode with
   | .run => fold g.op g.st (inqStrm g.inq s).vals (inqStrm g.inq s).err
   | .stop => Strm.empty
   | .fail e => Strm.fail e).prepend g.pend

def Src.denote (s : Src) : Strm := ⟨s.rest, if s.ended then Option.none else s.err⟩

def denote : List Stage → Src → Strm
  | [], src => src.denote
  | g :: up, src => g.denote (denote up src)

/-- answer `r` is the head of stream `d`, and `d'` is what remains -/
def Spec (r : Resp) (d d' : Strm) : Prop :=
  match r with
  | .val v => d = d'.cons v
  | .done => d = Strm.empty ∧ d' = Strm.empty
  | .err e => d = Strm.fail e ∧ d' = Strm.empty
  | .fuel => True

theorem src_next_spec (s : Src) : Spec s.next.1 s.denote s.next.2.denote := by
  unfold Src.next
  cases hr : s.rest with
  | cons v r => simp [Spec, Src.denote, Strm.cons, hr]
  | nil =>
    cases he : s.ended with
    | true => simp [Spec, Src.denote, Strm.empty, hr, he]
    | false =>
      cases hx : s.err with
      | none => simp [Spec, Src.denote, Strm.empty, hr, he, hx]
      | some e => simp [Spec, Src.denote, Strm.empty, Strm.fail, hr, he, hx]

theorem inqStrm_snoc (q : List Resp) (r : Resp) (d d' : Strm) (hs : Spec r d d') (hr : r ≠ .fuel) :
    inqStrm (q ++ [r]) d' = inqStrm q d := by
  induction q with
  | nil =>
    cases r with
    | val v => simpa [inqStrm, Spec] using hs.symm
    | done => simpa [inqStrm, Spec] using hs.1.symm
    | err e => simpa [inqStrm, Spec] using hs.1.symm
    | fuel => exact absurd rfl hr
  | cons a q ih =>
    cases a <;> simp [inqStrm, ih]

/-- taking answer `r` and running the body on it does not change what the stage denotes -/
theorem take_denote (g : Stage) (r : Resp) (t : Strm) (hp : g.pend = []) (hm : g.mode = .run) :
    (g.take r).denote t =
      match r with
      | .val v => fold g.op g.st (v :: (inqStrm g.inq t).vals) (inqStrm g.inq t).err
      | .done => fold g.op g.st [] Option.none
      | .err e => fold g.op g.st [] (some e)
      | .fuel => g.denote t := by
  cases r with
  | val v =>
    simp only [Stage.take, fold]
    rcases hf : feed g.op g.st v with ⟨outs, nx⟩
    cases nx <;> simp [Stage.denote, hm, Strm.prepend, Strm.empty, Strm.fail]
  | done => simp [Stage.take, Stage.denote, fold, Strm.prepend, Strm.empty]
  | err e => simp [Stage.take, Stage.denote, fold, hp, Strm.prepend, Strm.fail]
  | fuel => simp [Stage.take]

theorem choose_src (g : Stage) (w : World) : (g.choose w).2.src = w.src := by
  unfold Stage.choose
  split
  · split <;> rfl
  · rfl

theorem next_nil (f : Nat) (w : World) :
    next f [] w = (w.src.next.1, [], { w with src := w.src.next.2 }) := by
  cases f <;> simp [next]

theorem next_zero (g : Stage) (up : List Stage) (w : World) : next 0 (g :: up) w = (.fuel, g :: up, w) := by
  simp [next]

theorem next_spec : ∀ (f : Nat) (ss : List Stage) (w : World) (r : Resp) (ss' : List Stage) (w' : World),
    next f ss w = (r, ss', w') → Spec r (denote ss w.src) (denote ss' w'.src) := by
  intro f
  induction f with
  | zero =>
    intro ss w r ss' w' h
    cases ss with
    | nil =>
      rw [next_nil] at h
      simp at h
      obtain ⟨rfl, rfl, rfl⟩ := h
      exact src_next_spec w.src
    | cons g up =>
      rw [next_zero] at h
      simp at h
      obtain ⟨rfl, _, _⟩ := h
      trivial
  | succ f ih =>
    intro ss w r ss' w' h
    cases ss with
    | nil =>
      rw [next_nil] at h
      simp at h
      obtain ⟨rfl, rfl, rfl⟩ := h
      exact src_next_spec w.src
    | cons g up =>
      simp only [next] at h
      have hsrc := choose_src g w
      generalize g.choose w = c at h hsrc
      obtain ⟨c1, w1⟩ := c
      simp only at h hsrc
      cases c1 with
      | true =>
        simp only [if_true] at h
        rcases h1 : next f up w1 with ⟨r1, up1, w2⟩
        rw [h1] at h
        simp only at h
        have s1 := ih up w1 r1 up1 w2 h1
        rw [hsrc] at s1
        by_cases hf : r1 = .fuel
        · simp only [hf, if_true] at h
          simp at h
          obtain ⟨rfl, _, _⟩ := h
          trivial
        · simp only [hf, if_false] at h
          have s2 := ih _ w2 r ss' w' h
          refine Eq.mp ?_ s2
          congr 1
          simp only [denote, Stage.denote, Stage.noteRecv]
          rw [inqStrm_snoc g.inq r1 _ _ s1 hf]
      | false =>
        simp only [Bool.false_eq_true, if_false] at h
        obtain ⟨op, st, pend, mode, inq, upDone, recv, hand⟩ := g
        simp only at h
        cases pend with
        | cons v rest =>
          simp at h
          obtain ⟨rfl, rfl, rfl⟩ := h
          simp [Spec, denote, Stage.denote, hsrc, Strm.prepend, Strm.cons]
        | nil =>
          cases mode with
          | stop =>
            simp at h
            obtain ⟨rfl, rfl, rfl⟩ := h
            simp [Spec, denote, Stage.denote, Strm.prepend, Strm.empty]
          | fail e =>
            simp at h
            obtain ⟨rfl, rfl, rfl⟩ := h
            simp [Spec, denote, Stage.denote, Strm.prepend, Strm.empty, Strm.fail]
          | run =>
            cases inq with
            | cons r1 q =>
              simp only at h
              have s2 := ih _ w1 r ss' w' h
              refine Eq.mp ?_ s2
              congr 1
              simp only [denote]
              rw [take_denote _ _ _ rfl rfl, hsrc]
              cases r1 <;> simp [Stage.denote, inqStrm, Strm.cons, Strm.empty, Strm.fail, fold]
            | nil =>
              simp only at h
              rcases h1 : next f up w1 with ⟨r1, up1, w2⟩
              rw [h1] at h
              simp only at h
              have s1 := ih up w1 r1 up1 w2 h1
              rw [hsrc] at s1
              by_cases hf : r1 = .fuel
              · simp only [hf, if_true] at h
                simp at h
                obtain ⟨rfl, _, _⟩ := h
                trivial
              · simp only [hf, if_false] at h
                have s2 := ih _ w2 r ss' w' h
                refine Eq.mp ?_ s2
                congr 1
                simp only [denote]
                rw [take_denote _ _ _ rfl rfl]
                cases r1 with
                | val v =>
                  simp only [Spec] at s1
                  simp [Stage.denote, Stage.noteRecv, inqStrm, s1, Strm.cons]
                | done =>
                  simp only [Spec] at s1
                  simp [Stage.denote, Stage.noteRecv, inqStrm, s1.1, Strm.empty]
                | err e =>
                  simp only [Spec] at s1
                  simp [Stage.denote, Stage.noteRecv, inqStrm, s1.1, Strm.fail]
                | fuel => exact absurd rfl hf

end Pipeline
