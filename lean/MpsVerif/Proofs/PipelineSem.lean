import MpsVerif.Model.Pipeline
/-!
# Generator bodies run to exhaustion = sequential meaning, operator by operator

`fold op st vals err` (the `for`-loop of the generator, from state `st`) equals the list-level
meaning `sem op`, generalised over the state where the operator has one.
-/
namespace Pipeline

@[simp] theorem Strm.prepend_nil (s : Strm) : s.prepend [] = s := by cases s; rfl
@[simp] theorem Strm.prepend_single (v : Val) (s : Strm) : s.prepend [v] = s.cons v := rfl
theorem Strm.prepend_append (a b : List Val) (s : Strm) : s.prepend (a ++ b) = (s.prepend b).prepend a := by
  simp [Strm.prepend]
theorem Strm.prepend_cons (v : Val) (a : List Val) (s : Strm) : s.prepend (v :: a) = (s.prepend a).cons v := rfl

theorem fold_map (f : Val → Res) (st : OpSt) (l : List Val) (e : Option Err) :
    fold (.map f) st l e = semMap f l e := by
  induction l with
  | nil => cases e <;> simp [fold, flush, semMap, Strm.fail]
  | cons v r ih =>
    simp only [fold, feed, semMap]
    cases f v <;> simp [ih, Strm.fail]

theorem fold_filter (p : Val → Res) (st : OpSt) (l : List Val) (e : Option Err) :
    fold (.filter p) st l e = semFilter p l e := by
  induction l with
  | nil => cases e <;> simp [fold, flush, semFilter, Strm.fail]
  | cons v r ih =>
    simp only [fold, feed, semFilter]
    cases p v with
    | ok b => cases hb : b.truthy <;> simp [ih, hb]
    | raise x => simp [Strm.fail]

theorem fold_filterExc (d k : ExcSel) (st : OpSt) (l : List Val) (e : Option Err) :
    fold (.filterExc d k) st l e = semFilterExc d k l e := by
  induction l with
  | nil => cases e <;> simp [fold, flush, semFilterExc, Strm.fail]
  | cons v r ih =>
    simp only [fold, feed, semFilterExc]
    cases excVerdict d k v <;> simp [ih, Strm.fail]

theorem fold_peek (st : OpSt) (l : List Val) (e : Option Err) :
    fold .peek st l e = ⟨l, e⟩ := by
  induction l with
  | nil => cases e <;> simp [fold, flush, Strm.fail]
  | cons v r ih => simp [fold, feed, ih, Strm.cons]

theorem fold_buffer (n : Nat) (st : OpSt) (l : List Val) (e : Option Err) :
    fold (.buffer n) st l e = ⟨l, e⟩ := by
  induction l with
  | nil => cases e <;> simp [fold, flush, Strm.fail]
  | cons v r ih => simp [fold, feed, ih, Strm.cons]

theorem fold_unbatch (st : OpSt) (l : List Val) (e : Option Err) :
    fold .unbatch st l e = semUnbatch l e := by
  induction l with
  | nil => cases e <;> simp [fold, flush, semUnbatch, Strm.fail]
  | cons v r ih =>
    simp only [fold, feed, semUnbatch]
    cases v.elems <;> simp [ih, Strm.fail]

theorem fold_parmap (f : Val → Res) (c : Nat) (rx re : Bool) (st : OpSt) (l : List Val) (e : Option Err) :
    fold (.parmap f c rx re) st l e = semParmap f rx re l e := by
  induction l with
  | nil => cases e <;> simp [fold, flush, semParmap, Strm.fail]
  | cons v r ih =>
    simp only [fold, feed, semParmap]
    cases f v with
    | ok y => simp [ih]
    | raise x => cases re <;> simp [ih, Strm.fail]

theorem fold_accumulate (g : Val → Val → Res) (i : Option Val) (st : OpSt) (l : List Val) (e : Option Err) :
    fold (.accumulate g i) st l e = semAcc g st.acc l e := by
  induction l generalizing st with
  | nil => cases e <;> cases h : st.acc <;> simp [fold, flush, semAcc, Strm.fail]
  | cons v r ih =>
    cases h : st.acc with
    | none => simp [fold, feed, semAcc, h, ih]
    | some z =>
      simp only [fold, feed, semAcc, h]
      cases g z v <;> simp [ih, Strm.fail]

theorem fold_head (n : Nat) (st : OpSt) (l : List Val) (e : Option Err) :
    fold (.head n) st l e =
      if n - st.cnt < l.length then ⟨l.take (n - st.cnt), Option.none⟩ else ⟨l, e⟩ := by
  induction l generalizing st with
  | nil => cases e <;> simp [fold, flush, Strm.fail]
  | cons v r ih =>
    simp only [fold, feed]
    by_cases hc : st.cnt ≥ n
    · have : n - st.cnt = 0 := by omega
      simp [hc, this]
    · simp only [hc, if_false, ih]
      have h1 : n - st.cnt = (n - (st.cnt + 1)) + 1 := by omega
      rw [h1]
      by_cases h2 : n - (st.cnt + 1) < r.length
      · simp [h2, Strm.cons]
      · simp [h2, Strm.cons]

theorem keepLast_keepLast_append (n : Nat) (a r : List Val) :
    keepLast n (keepLast n a ++ r) = keepLast n (a ++ r) := by
  unfold keepLast
  by_cases h : a.length ≤ n
  · have : a.length - n = 0 := by omega
    simp [this]
  · have hk : (List.drop (a.length - n) a).length = n := by simp; omega
    rw [List.length_append, hk, List.length_append]
    have e1 : n + r.length - n = r.length := by omega
    have e2 : a.length + r.length - n = (a.length - n) + r.length := by omega
    rw [e1, e2]
    have h3 : List.drop (a.length - n + r.length) (a ++ r)
        = List.drop r.length (List.drop (a.length - n) (a ++ r)) := by rw [List.drop_drop]
    have h4 : List.drop (a.length - n) (a ++ r) = List.drop (a.length - n) a ++ r :=
      List.drop_append_of_le_length (by omega)
    rw [h3, h4]

theorem fold_tail (n : Nat) (st : OpSt) (l : List Val) (e : Option Err) :
    fold (.tail n) st l e =
      match e with
      | Option.none =>
        ⟨match l with
          | [] => st.buf
          | _ :: _ => keepLast n (st.buf ++ l), Option.none⟩
      | some x => .fail x := by
  induction l generalizing st with
  | nil => cases e <;> simp [fold, flush]
  | cons v r ih =>
    simp only [fold, feed, ih, Strm.prepend_nil]
    cases e with
    | none =>
      cases r with
      | nil => simp
      | cons w r' =>
        simp only [keepLast_keepLast_append]
        simp
    | some x => rfl

theorem fold_batch (n : Nat) (st : OpSt) (l : List Val) (e : Option Err) :
    fold (.batch n) st l e = semBatch n st.buf l e := by
  induction l generalizing st with
  | nil => cases e <;> simp [fold, flush, semBatch]
  | cons v r ih =>
    simp only [fold, feed, semBatch]
    by_cases h : st.buf.length + 1 = n <;> simp [h, ih]

theorem fold_groupby (key : Val → Res) (st : OpSt) (l : List Val) (e : Option Err) :
    fold (.groupby key) st l e = semGroup key (st.acc.map (fun k => (k, st.buf))) l e := by
  induction l generalizing st with
  | nil => cases e <;> cases h : st.acc <;> simp [fold, flush, semGroup, h, Strm.empty]
  | cons v r ih =>
    simp only [fold, feed, semGroup]
    cases key v with
    | raise x => simp [Strm.fail]
    | ok k =>
      cases h : st.acc with
      | none => simp [ih]
      | some k0 =>
        simp only [Option.map_some]
        by_cases hk : k = k0
        · simp [hk, ih]
        · simp [hk, ih]

theorem fold_shuffle (n : Nat) (idx perm : List Nat) (st : OpSt) (l : List Val) (e : Option Err) :
    fold (.shuffle n idx perm) st l e = semShuffle n perm st.buf st.rnd l e := by
  induction l generalizing st with
  | nil => cases e <;> simp [fold, flush, semShuffle]
  | cons v r ih =>
    simp only [fold, feed, semShuffle]
    by_cases h : st.buf.length < n <;> simp [h, ih]

/-- every generator, run to exhaustion from its initial state, computes the operator's
    sequential meaning -/
theorem fold_init (op : Op) (s : Strm) : fold op (initSt op) s.vals s.err = sem op s := by
  cases op with
  | map f => simp [fold_map, sem]
  | filter p => simp [fold_filter, sem]
  | filterExc d k => simp [fold_filterExc, sem]
  | peek => simp [fold_peek, sem]
  | head n => simp [fold_head, sem, initSt]
  | tail n =>
    simp only [fold_tail, sem, initSt]
    cases s.err with
    | none => cases s.vals <;> simp [keepLast]
    | some x => rfl
  | batch n => simp [fold_batch, sem, initSt]
  | unbatch => simp [fold_unbatch, sem]
  | groupby key => simp [fold_groupby, sem, initSt]
  | accumulate g i => simp [fold_accumulate, sem, initSt]
  | buffer n => simp [fold_buffer, sem]
  | parmap f c rx re => simp [fold_parmap, sem]
  | shuffle n idx perm => simp [fold_shuffle, sem, initSt]

end Pipeline
