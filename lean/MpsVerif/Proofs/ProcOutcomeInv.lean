import MpsVerif.Model.ProcOutcome
/-! Inductive invariant of the `ProcOutcome` model: what the child has sent, what is in the pipe,
    what the collector holds, and that every recorded accessor answer is the table's. -/
namespace ProcOutcome

def allMsgs (o : Outcome) : List Obj := [firstMsg o, secondMsg o]

structure Inv (c : Cfg) (s : State) : Prop where
  c0 : s.sent ≤ 2
  c1 : s.cpc = .boot ∨ s.cpc = .target ∨ s.cpc = .send1 → s.sent = 0
  c2 : s.cpc = .send2 → s.sent = 1
  c3 : s.cpc = .closing → s.sent = 2
  c4 : s.cpc ≠ .exited → s.killed = none ∧ s.exitcode = none ∧ s.wclosed = false
  c5 : s.cpc = .exited → s.wclosed = true ∧ s.exitcode = some (finalCode c.outcome s.killed)
  c6 : s.cpc = .exited → s.killed = none → s.sent = sentTotal c.outcome
  c7 : ∀ sig ph, s.killed = some (sig, ph) →
        1 ≤ sig ∧ (ph = .before ∨ ph = .during → s.sent = 0) ∧ (ph = .between → s.sent = 1) ∧
        (ph = .after → s.sent = 2)
  k1 : s.kpc = .recv1 → s.pipe = (allMsgs c.outcome).take s.sent ∧ s.result = .none ∧ s.error = .none ∧
        s.terminated = false
  k2 : s.kpc = .recv2 → 1 ≤ s.sent ∧ s.result = firstMsg c.outcome ∧
        s.pipe = ((allMsgs c.outcome).take s.sent).drop 1 ∧ s.error = .none ∧ s.terminated = false
  k3 : s.kpc = .eof → s.cpc = .exited ∧ s.terminated = true ∧ s.error = .none ∧
        ((∃ sig ph, s.killed = some (sig, ph) ∧ ph ≠ .after ∧
          s.result = (if ph = .between then firstMsg c.outcome else .none)) ∨
         (s.killed = none ∧ sentTotal c.outcome < 2))
  k4 : s.kpc = .waitExit ∨ s.kpc = .endLog ∨ s.kpc = .joinLog ∨ s.kpc = .resolve ∨ s.kpc = .done →
        resolveWith s.result s.error = verdict c.outcome s.killed ∧
        (s.terminated = false → s.sent = 2) ∧ (s.terminated = true → s.cpc = .exited)
  k5 : s.kpc = .endLog ∨ s.kpc = .joinLog ∨ s.kpc = .resolve ∨ s.kpc = .done → s.cpc = .exited
  k6 : (s.kpc = .done → s.fut = some (resolveWith s.result s.error)) ∧ (s.kpc ≠ .done → s.fut = none)
  k7 : s.kpc = .joinLog ∨ s.kpc = .resolve ∨ s.kpc = .done → s.logEnd = true
  a1 : ∀ a r, (a, r) ∈ s.answers →
        pendingAns a = some r ∨ (s.cpc = .exited ∧ r = finalAns c.outcome s.killed a)
  c8 : s.sent ≤ sentTotal c.outcome

theorem sentTotal_le (o : Outcome) : sentTotal o ≤ 2 := by cases o <;> simp [sentTotal]

theorem canSend1_false {o : Outcome} (h : canSend1 o = false) :
    sentTotal o = 0 ∧ osStatus (mpExit o) = 1 := by
  cases o <;> simp_all [canSend1, sentTotal, mpExit, osStatus]

theorem canSend2_false {o : Outcome} (h : canSend2 o = false) :
    sentTotal o = 1 ∧ osStatus (mpExit o) = 1 := by
  cases o <;> simp_all [canSend2, sentTotal, mpExit, osStatus]

theorem canSend1_true {o : Outcome} (h : canSend1 o = true) : 1 ≤ sentTotal o := by
  cases o <;> simp_all [canSend1, sentTotal]

theorem canSend2_true {o : Outcome} (h : canSend2 o = true) (h1 : 1 ≤ sentTotal o) : sentTotal o = 2 := by
  cases o <;> simp_all [canSend2, sentTotal]

theorem own_short {o : Outcome} (h : sentTotal o < 2) :
    ownFut o = .err (.exc (.osErr (-1))) ∧ osStatus (mpExit o) = 1 := by
  cases o <;> simp_all [sentTotal, ownFut, mpExit, osStatus]

theorem own_full {o : Outcome} (h : sentTotal o = 2) : ownFut o = resolveWith (firstMsg o) (secondMsg o) := by
  simp [ownFut, h]

theorem inv_init (c : Cfg) : Inv c init := by
  constructor <;> simp [init, allMsgs]

theorem verdict_after (o : Outcome) (sig : Nat) : verdict o (some (sig, .after)) = verdict o none := by
  simp [verdict]

/-! one lemma per action (each with its own elaboration budget) -/

theorem inv_cBoot (c : Cfg) (s : State) (hi : Inv c s) (hc : s.cpc = .boot) :
    Inv c { s with cpc := .target } := by
  obtain ⟨c0, c1, c2, c3, c4, c5, c6, c7, k1, k2, k3, k4, k5, k6, k7, a1, c8⟩ := hi
  constructor
  case a1 => intro a r hm; rcases a1 a r hm with h1 | h1 <;> simp_all
  all_goals simp_all

theorem inv_cTargetEnd (c : Cfg) (s : State) (hi : Inv c s) (hc : s.cpc = .target) :
    Inv c { s with cpc := .send1 } := by
  obtain ⟨c0, c1, c2, c3, c4, c5, c6, c7, k1, k2, k3, k4, k5, k6, k7, a1, c8⟩ := hi
  constructor
  case a1 => intro a r hm; rcases a1 a r hm with h1 | h1 <;> simp_all
  all_goals simp_all

theorem inv_cSend1 (c : Cfg) (s : State) (hi : Inv c s) (hc : s.cpc = .send1)
    (hcan : canSend1 c.outcome = true) :
    Inv c { s with cpc := .send2, sent := s.sent + 1, pipe := s.pipe ++ [firstMsg c.outcome] } := by
  obtain ⟨c0, c1, c2, c3, c4, c5, c6, c7, k1, k2, k3, k4, k5, k6, k7, a1, c8⟩ := hi
  have h0 : s.sent = 0 := c1 (Or.inr (Or.inr hc))
  have ht := canSend1_true hcan
  constructor
  case a1 => intro a r hm; rcases a1 a r hm with h1 | h1 <;> simp_all
  case c8 => show s.sent + 1 ≤ sentTotal c.outcome; omega
  all_goals simp_all [allMsgs]

theorem inv_cSend2 (c : Cfg) (s : State) (hi : Inv c s) (hc : s.cpc = .send2)
    (hcan : canSend2 c.outcome = true) :
    Inv c { s with cpc := .closing, sent := s.sent + 1, pipe := s.pipe ++ [secondMsg c.outcome] } := by
  obtain ⟨c0, c1, c2, c3, c4, c5, c6, c7, k1, k2, k3, k4, k5, k6, k7, a1, c8⟩ := hi
  have h1s : s.sent = 1 := c2 hc
  have ht := canSend2_true hcan (by omega)
  constructor
  case a1 => intro a r hm; rcases a1 a r hm with h1 | h1 <;> simp_all
  case c8 => show s.sent + 1 ≤ sentTotal c.outcome; omega
  all_goals simp_all [allMsgs]

theorem inv_cSendFail (c : Cfg) (s : State) (hi : Inv c s)
    (hc : (s.cpc = .send1 ∧ canSend1 c.outcome = false) ∨ (s.cpc = .send2 ∧ canSend2 c.outcome = false)) :
    Inv c { s with cpc := .exited, wclosed := true, exitcode := some 1 } := by
  obtain ⟨c0, c1, c2, c3, c4, c5, c6, c7, k1, k2, k3, k4, k5, k6, k7, a1, c8⟩ := hi
  have hne : s.cpc ≠ .exited := by rcases hc with h | h <;> simp [h.1]
  obtain ⟨hk1, hk2, hk3⟩ := c4 hne
  have hfacts : s.sent = sentTotal c.outcome ∧ osStatus (mpExit c.outcome) = 1 := by
    rcases hc with h | h
    · have := canSend1_false h.2; have := c1 (Or.inr (Or.inr h.1)); omega
    · have := canSend2_false h.2; have := c2 h.1; omega
  have hlt : sentTotal c.outcome < 2 := by
    rcases hc with h | h
    · have := (canSend1_false h.2).1; omega
    · have := (canSend2_false h.2).1; omega
  constructor
  case c0 => exact c0
  case c1 => simp
  case c2 => simp
  case c3 => simp
  case c4 => simp
  case c5 => intro _; exact ⟨rfl, by show some (1 : Int) = some (finalCode c.outcome s.killed); rw [hk1]; simp [finalCode, hfacts.2]⟩
  case c6 => intro _ _; exact hfacts.1
  case c7 => intro sig ph h; rw [hk1] at h; cases h
  case k1 => simpa using k1
  case k2 => simpa using k2
  case k3 => intro hk; exact absurd (k3 hk).1 hne
  case k4 =>
    intro hk
    obtain ⟨h1, h2, h3⟩ := k4 hk
    cases ht : s.terminated with
    | true => exact absurd (h3 ht) hne
    | false => have := h2 ht; omega
  case k5 => simp
  case k6 => simpa using k6
  case k7 => simpa using k7
  case a1 =>
    intro a r hm
    rcases a1 a r hm with h1 | h1
    · exact Or.inl h1
    · exact absurd h1.1 hne
  case c8 => exact c8

theorem inv_cExit (c : Cfg) (s : State) (hi : Inv c s) (hc : s.cpc = .closing) :
    Inv c { s with cpc := .exited, wclosed := true, exitcode := some (osStatus (mpExit c.outcome)) } := by
  obtain ⟨c0, c1, c2, c3, c4, c5, c6, c7, k1, k2, k3, k4, k5, k6, k7, a1, c8⟩ := hi
  constructor
  case a1 => intro a r hm; rcases a1 a r hm with h1 | h1 <;> simp_all
  case c6 => intro _ _; have := c3 hc; have := sentTotal_le c.outcome; show s.sent = sentTotal c.outcome; omega
  all_goals simp_all [finalCode]

theorem inv_kill (c : Cfg) (s : State) (sig : Nat) (hi : Inv c s) (hc : s.cpc ≠ .exited) (hs : 1 ≤ sig) :
    Inv c { s with cpc := .exited, wclosed := true, exitcode := some (-(sig : Int)),
                   killed := some (sig, s.cpc.phase) } := by
  obtain ⟨c0, c1, c2, c3, c4, c5, c6, c7, k1, k2, k3, k4, k5, k6, k7, a1, c8⟩ := hi
  obtain ⟨hk1, hk2, hk3⟩ := c4 hc
  constructor
  case c0 => exact c0
  case c1 => simp
  case c2 => simp
  case c3 => simp
  case c4 => simp
  case c5 => simp [finalCode]
  case c6 => simp
  case c7 =>
    intro sig' ph' heq
    simp only [Option.some.injEq, Prod.mk.injEq] at heq
    obtain ⟨rfl, rfl⟩ := heq
    refine ⟨hs, ?_, ?_, ?_⟩ <;> cases hcp : s.cpc <;> simp_all [CPc.phase]
  case k1 => simpa using k1
  case k2 => simpa using k2
  case k3 => intro hk; exact absurd (k3 hk).1 hc
  case k4 =>
    intro hk
    obtain ⟨h1, h2, h3⟩ := k4 hk
    cases ht : s.terminated with
    | true => exact absurd (h3 ht) hc
    | false =>
      have hs2 := h2 ht
      have hcl : s.cpc = .closing := by
        cases hcp : s.cpc <;> simp_all
      refine ⟨?_, fun _ => hs2, fun _ => rfl⟩
      simp only [hcl, CPc.phase, verdict_after]
      rw [← hk1]; exact h1
  case k5 => simp
  case k6 => simpa using k6
  case k7 => simpa using k7
  case a1 =>
    intro a r hm
    rcases a1 a r hm with h1 | h1
    · exact Or.inl h1
    · exact absurd h1.1 hc
  case c8 => exact c8

theorem take_cons {o : Outcome} {n : Nat} {m : Obj} {rest : List Obj}
    (h : (allMsgs o).take n = m :: rest) :
    1 ≤ n ∧ m = firstMsg o ∧ rest = ((allMsgs o).take n).drop 1 := by
  refine ⟨?_, ?_, by rw [h]; rfl⟩
  · cases n with
    | zero => simp [allMsgs] at h
    | succ k => omega
  · cases n with
    | zero => simp [allMsgs] at h
    | succ k => simp [allMsgs] at h; exact h.1.symm

theorem drop_cons {o : Outcome} {n : Nat} {m : Obj} {rest : List Obj} (hn : n ≤ 2)
    (h : ((allMsgs o).take n).drop 1 = m :: rest) : n = 2 ∧ m = secondMsg o ∧ rest = [] := by
  match n, hn with
  | 0, _ => simp [allMsgs] at h
  | 1, _ => simp [allMsgs] at h
  | 2, _ => simp [allMsgs] at h; simp [h]

theorem inv_kRecv1 (c : Cfg) (s : State) (m : Obj) (rest : List Obj) (hi : Inv c s)
    (hk : s.kpc = .recv1) (hp : s.pipe = m :: rest) :
    Inv c { s with kpc := .recv2, result := m, pipe := rest } := by
  obtain ⟨c0, c1, c2, c3, c4, c5, c6, c7, k1, k2, k3, k4, k5, k6, k7, a1, c8⟩ := hi
  obtain ⟨h1, h2, h3, h4⟩ := k1 hk
  rw [hp] at h1
  obtain ⟨t1, t2, t3⟩ := take_cons h1.symm
  refine ⟨c0, c1, c2, c3, c4, c5, c6, c7, ?_, ?_, ?_, ?_, ?_, ?_, ?_, a1, c8⟩
  · intro h; simp at h
  · intro _; exact ⟨t1, t2, t3, h3, h4⟩
  · intro h; simp at h
  · intro h; simp at h
  · intro h; simp at h
  · refine ⟨fun h => by simp at h, fun _ => k6.2 (by simp [hk])⟩
  · intro h; simp at h

theorem inv_kRecv2 (c : Cfg) (s : State) (m : Obj) (rest : List Obj) (hi : Inv c s)
    (hk : s.kpc = .recv2) (hp : s.pipe = m :: rest) :
    Inv c { s with kpc := .waitExit, error := m, pipe := rest } := by
  obtain ⟨c0, c1, c2, c3, c4, c5, c6, c7, k1, k2, k3, k4, k5, k6, k7, a1, c8⟩ := hi
  obtain ⟨h1, h2, h3, h4, h5⟩ := k2 hk
  rw [hp] at h3
  obtain ⟨t1, t2, t3⟩ := drop_cons c0 h3.symm
  refine ⟨c0, c1, c2, c3, c4, c5, c6, c7, ?_, ?_, ?_, ?_, ?_, ?_, ?_, a1, c8⟩
  · intro h; simp at h
  · intro h; simp at h
  · intro h; simp at h
  · intro _
    refine ⟨?_, fun _ => t1, fun h => by simp [h5] at h⟩
    show resolveWith s.result m = verdict c.outcome s.killed
    rw [h2, t2]
    have hfull : sentTotal c.outcome = 2 := by have := sentTotal_le c.outcome; omega
    cases hkl : s.killed with
    | none => simp [verdict, own_full hfull]
    | some p =>
      obtain ⟨sig, ph⟩ := p
      obtain ⟨_, q1, q2, q3⟩ := c7 sig ph hkl
      cases ph
      · have := q1 (Or.inl rfl); omega
      · have := q1 (Or.inr rfl); omega
      · have := q2 rfl; omega
      · simp [verdict, own_full hfull]
  · intro h; simp at h
  · refine ⟨fun h => by simp at h, fun _ => k6.2 (by simp [hk])⟩
  · intro h; simp at h

theorem inv_kEof (c : Cfg) (s : State) (hi : Inv c s)
    (hk : s.kpc = .recv1 ∨ s.kpc = .recv2) (hp : s.pipe = []) (hw : s.wclosed = true) :
    Inv c { s with kpc := .eof, terminated := true } := by
  obtain ⟨c0, c1, c2, c3, c4, c5, c6, c7, k1, k2, k3, k4, k5, k6, k7, a1, c8⟩ := hi
  have hex : s.cpc = .exited := by
    by_cases h : s.cpc = .exited
    · exact h
    · have := (c4 h).2.2; rw [hw] at this; simp at this
  have hnd : s.kpc ≠ .done := by rcases hk with hk | hk <;> simp [hk]
  refine ⟨c0, c1, c2, c3, c4, c5, c6, c7, ?_, ?_, ?_, ?_, ?_, ?_, ?_, a1, c8⟩
  · intro h; simp at h
  · intro h; simp at h
  · intro _
    rcases hk with hk | hk
    · obtain ⟨h1, h2, h3, h4⟩ := k1 hk
      rw [hp] at h1
      have hs0 : s.sent = 0 := by
        match hs : s.sent, c0 with
        | 0, _ => rfl
        | 1, _ => simp [hs, allMsgs] at h1
        | 2, _ => simp [hs, allMsgs] at h1
      refine ⟨hex, rfl, h3, ?_⟩
      cases hkl : s.killed with
      | none => right; have := c6 hex hkl; exact ⟨rfl, by omega⟩
      | some p =>
        obtain ⟨sig, ph⟩ := p
        obtain ⟨_, q1, q2, q3⟩ := c7 sig ph hkl
        left
        refine ⟨sig, ph, rfl, ?_, ?_⟩
        · intro h; have := q3 h; omega
        · have : ph ≠ .between := by intro h; have := q2 h; omega
          simp [this, h2]
    · obtain ⟨h1, h2, h3, h4, h5⟩ := k2 hk
      rw [hp] at h3
      have hs1 : s.sent = 1 := by
        match hs : s.sent, c0 with
        | 0, _ => omega
        | 1, _ => rfl
        | 2, _ => simp [hs, allMsgs] at h3
      refine ⟨hex, rfl, h4, ?_⟩
      cases hkl : s.killed with
      | none => right; have := c6 hex hkl; exact ⟨rfl, by omega⟩
      | some p =>
        obtain ⟨sig, ph⟩ := p
        obtain ⟨_, q1, q2, q3⟩ := c7 sig ph hkl
        left
        refine ⟨sig, ph, rfl, ?_, ?_⟩
        · intro h; have := q3 h; omega
        · have : ph = .between := by
            cases ph
            · have := q1 (Or.inl rfl); omega
            · have := q1 (Or.inr rfl); omega
            · rfl
            · have := q3 rfl; omega
          simp [this, h2]
  · intro h; simp at h
  · intro h; simp at h
  · exact ⟨fun h => by simp at h, fun _ => k6.2 hnd⟩
  · intro h; simp at h

theorem inv_kEofCode (c : Cfg) (s : State) (x : Int) (hi : Inv c s)
    (hk : s.kpc = .eof) (hx : s.exitcode = some x) :
    Inv c (if -x = 15 then { s with kpc := .waitExit }
           else { s with kpc := .waitExit, error := .exc (.osErr (-x)) }) := by
  obtain ⟨c0, c1, c2, c3, c4, c5, c6, c7, k1, k2, k3, k4, k5, k6, k7, a1, c8⟩ := hi
  obtain ⟨h1, h2, h3, hcase⟩ := k3 hk
  have hnd : s.kpc ≠ .done := by simp [hk]
  -- what the collector's two locals amount to after this step
  have key : (-x = 15 → resolveWith s.result s.error = verdict c.outcome s.killed) ∧
      (¬ -x = 15 → resolveWith s.result (.exc (.osErr (-x))) = verdict c.outcome s.killed) := by
    rcases hcase with ⟨sig, ph, h4, h5, h6⟩ | ⟨h4, hlt⟩
    · have hx' : x = -(sig : Int) := by
        have := (c5 h1).2; rw [hx, h4] at this; simpa [finalCode] using this
      have hnx : -x = (sig : Int) := by omega
      constructor
      · intro h15
        rw [h4, h3, h6]
        have : (sig : Int) = 15 := by omega
        cases ph <;> simp_all [verdict, resolveWith]
      · intro h15
        rw [h4, hnx]
        have : ¬ (sig : Int) = 15 := by omega
        cases ph <;> simp_all [verdict, resolveWith]
    · -- the child ended by itself with status 1 (its outcome could not be pickled)
      obtain ⟨ho, hst⟩ := own_short hlt
      have hx' : x = 1 := by
        have := (c5 h1).2; rw [hx, h4] at this; simp [finalCode, hst] at this; exact this
      constructor
      · intro h15; omega
      · intro _
        rw [h4, hx']
        simp [verdict, ho, resolveWith]
  split
  · rename_i h15
    refine ⟨c0, c1, c2, c3, c4, c5, c6, c7, ?_, ?_, ?_, ?_, ?_, ?_, ?_, a1, c8⟩
    · intro h; simp at h
    · intro h; simp at h
    · intro h; simp at h
    · intro _; exact ⟨key.1 h15, fun h => by simp [h2] at h, fun _ => h1⟩
    · intro h; simp at h
    · exact ⟨fun h => by simp at h, fun _ => k6.2 hnd⟩
    · intro h; simp at h
  · rename_i h15
    refine ⟨c0, c1, c2, c3, c4, c5, c6, c7, ?_, ?_, ?_, ?_, ?_, ?_, ?_, a1, c8⟩
    · intro h; simp at h
    · intro h; simp at h
    · intro h; simp at h
    · intro _; exact ⟨key.2 h15, fun h => by simp [h2] at h, fun _ => h1⟩
    · intro h; simp at h
    · exact ⟨fun h => by simp at h, fun _ => k6.2 hnd⟩
    · intro h; simp at h

theorem inv_kSentinel (c : Cfg) (s : State) (hi : Inv c s) (hk : s.kpc = .waitExit) (hc : s.cpc = .exited) :
    Inv c { s with kpc := .endLog } := by
  obtain ⟨c0, c1, c2, c3, c4, c5, c6, c7, k1, k2, k3, k4, k5, k6, k7, a1, c8⟩ := hi
  refine ⟨c0, c1, c2, c3, c4, c5, c6, c7, ?_, ?_, ?_, ?_, ?_, ?_, ?_, a1, c8⟩
  · intro h; simp at h
  · intro h; simp at h
  · intro h; simp at h
  · intro _; exact k4 (by simp [hk])
  · intro _; exact hc
  · exact ⟨fun h => by simp at h, fun _ => k6.2 (by simp [hk])⟩
  · intro h; simp at h

theorem inv_kPutEnd (c : Cfg) (s : State) (hi : Inv c s) (hk : s.kpc = .endLog) :
    Inv c { s with kpc := .joinLog, logEnd := true } := by
  obtain ⟨c0, c1, c2, c3, c4, c5, c6, c7, k1, k2, k3, k4, k5, k6, k7, a1, c8⟩ := hi
  refine ⟨c0, c1, c2, c3, c4, c5, c6, c7, ?_, ?_, ?_, ?_, ?_, ?_, ?_, a1, c8⟩
  · intro h; simp at h
  · intro h; simp at h
  · intro h; simp at h
  · intro _; exact k4 (by simp [hk])
  · intro _; exact k5 (by simp [hk])
  · exact ⟨fun h => by simp at h, fun _ => k6.2 (by simp [hk])⟩
  · intro _; rfl

theorem inv_logStop (c : Cfg) (s : State) (hi : Inv c s) : Inv c { s with logStopped := true } := by
  obtain ⟨c0, c1, c2, c3, c4, c5, c6, c7, k1, k2, k3, k4, k5, k6, k7, a1, c8⟩ := hi
  exact ⟨c0, c1, c2, c3, c4, c5, c6, c7, k1, k2, k3, k4, k5, k6, k7, a1, c8⟩

theorem inv_kJoinLog (c : Cfg) (s : State) (hi : Inv c s) (hk : s.kpc = .joinLog) :
    Inv c { s with kpc := .resolve } := by
  obtain ⟨c0, c1, c2, c3, c4, c5, c6, c7, k1, k2, k3, k4, k5, k6, k7, a1, c8⟩ := hi
  refine ⟨c0, c1, c2, c3, c4, c5, c6, c7, ?_, ?_, ?_, ?_, ?_, ?_, ?_, a1, c8⟩
  · intro h; simp at h
  · intro h; simp at h
  · intro h; simp at h
  · intro _; exact k4 (by simp [hk])
  · intro _; exact k5 (by simp [hk])
  · exact ⟨fun h => by simp at h, fun _ => k6.2 (by simp [hk])⟩
  · intro _; exact k7 (by simp [hk])

theorem inv_kResolve (c : Cfg) (s : State) (hi : Inv c s) (hk : s.kpc = .resolve) :
    Inv c { s with kpc := .done, fut := some (resolveWith s.result s.error) } := by
  obtain ⟨c0, c1, c2, c3, c4, c5, c6, c7, k1, k2, k3, k4, k5, k6, k7, a1, c8⟩ := hi
  refine ⟨c0, c1, c2, c3, c4, c5, c6, c7, ?_, ?_, ?_, ?_, ?_, ?_, ?_, a1, c8⟩
  · intro h; simp at h
  · intro h; simp at h
  · intro h; simp at h
  · intro _; exact k4 (by simp [hk])
  · intro _; exact k5 (by simp [hk])
  · exact ⟨fun _ => rfl, fun h => by simp at h⟩
  · intro _; exact k7 (by simp [hk])

theorem inv_ask (c : Cfg) (s : State) (a : Acc) (hi : Inv c s) (hcan : canAnswer a s = true) :
    Inv c { s with answers := s.answers ++ [(a, answer a s)] } := by
  obtain ⟨c0, c1, c2, c3, c4, c5, c6, c7, k1, k2, k3, k4, k5, k6, k7, a1, c8⟩ := hi
  refine ⟨c0, c1, c2, c3, c4, c5, c6, c7, k1, k2, k3, k4, k5, k6, k7, ?_, c8⟩
  intro a' r hm
  simp only [List.mem_append, List.mem_singleton, Prod.mk.injEq] at hm
  rcases hm with hm | ⟨rfl, rfl⟩
  · exact a1 a' r hm
  · -- the new answer
    by_cases hex : s.cpc = .exited
    · right
      refine ⟨hex, ?_⟩
      obtain ⟨_, hcode⟩ := c5 hex
      have hfut : ∀ f, s.fut = some f → f = verdict c.outcome s.killed := by
        intro f hf
        by_cases hd : s.kpc = .done
        · have := k6.1 hd; rw [hf] at this
          rw [← (k4 (by simp [hd])).1]; simpa using this
        · have := k6.2 hd; rw [hf] at this; simp at this
      cases a' <;> simp only [answer, finalAns, ansOfFut, hcode, Option.isSome_some]
      all_goals
        simp only [canAnswer, Bool.and_eq_true, Option.isSome_iff_exists] at hcan
      · obtain ⟨_, f, hf⟩ := hcan; rw [hf, ← hfut f hf]
      · obtain ⟨_, f, hf⟩ := hcan; rw [hf, ← hfut f hf]
      · obtain ⟨_, f, hf⟩ := hcan; rw [hf, ← hfut f hf]
      · obtain ⟨f, hf⟩ := hcan; rw [hf]
      · obtain ⟨f, hf⟩ := hcan; rw [hf]
    · obtain ⟨_, hcode, _⟩ := c4 hex
      have hnf : s.fut = none := by
        by_cases hd : s.kpc = .done
        · exact absurd (k5 (by simp [hd])) hex
        · exact k6.2 hd
      cases a' <;> simp [canAnswer, hcode, hnf] at hcan
      · left; simp [answer, pendingAns, hcode]
      · left; simp [answer, pendingAns, hcode]

theorem inv_step (c : Cfg) (s s' : State) (a : Act) (hi : Inv c s) (h : step c s a = some s') :
    Inv c s' := by
  cases a <;> simp only [step] at h
  case cBoot => split at h <;> simp at h; subst h; exact inv_cBoot c s hi (by assumption)
  case cTargetEnd => split at h <;> simp at h; subst h; exact inv_cTargetEnd c s hi (by assumption)
  case cSend1 => split at h <;> simp at h; subst h; rename_i hc; exact inv_cSend1 c s hi hc.1 hc.2
  case cSend2 => split at h <;> simp at h; subst h; rename_i hc; exact inv_cSend2 c s hi hc.1 hc.2
  case cSendFail => split at h <;> simp at h; subst h; rename_i hc; exact inv_cSendFail c s hi hc
  case cExit => split at h <;> simp at h; subst h; exact inv_cExit c s hi (by assumption)
  case kill sig =>
    split at h <;> simp at h; subst h
    rename_i hc; exact inv_kill c s sig hi hc.1 hc.2
  case kRecv =>
    split at h <;> simp at h
    · subst h; rename_i m rest hk hp; exact inv_kRecv1 c s m rest hi hk hp
    · subst h; rename_i m rest hk hp; exact inv_kRecv2 c s m rest hi hk hp
  case kEof =>
    split at h <;> simp at h; subst h
    rename_i hc; exact inv_kEof c s hi hc.1 hc.2.1 hc.2.2
  case kEofCode =>
    split at h
    · rename_i hk
      split at h
      · rename_i x hx
        have := inv_kEofCode c s x hi hk hx
        split at h <;> simp at h <;> subst h <;> simp_all
      · simp at h
    · simp at h
  case kSentinel =>
    split at h <;> simp at h; subst h
    rename_i hc; exact inv_kSentinel c s hi hc.1 hc.2
  case kPutEnd => split at h <;> simp at h; subst h; exact inv_kPutEnd c s hi (by assumption)
  case logStop => split at h <;> simp at h; subst h; exact inv_logStop c s hi
  case kJoinLog =>
    split at h <;> simp at h; subst h
    rename_i hc; exact inv_kJoinLog c s hi hc.1
  case kResolve => split at h <;> simp at h; subst h; exact inv_kResolve c s hi (by assumption)
  case ask a =>
    split at h <;> simp at h; subst h
    exact inv_ask c s a hi (by assumption)

theorem reachable_inv (c : Cfg) {s : State} (hr : Reachable c s) : Inv c s :=
  Core.invariant_reach (fun s a s' => inv_step c s s' a) (inv_init c) hr

end ProcOutcome
