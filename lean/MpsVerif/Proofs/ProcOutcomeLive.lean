import MpsVerif.Proofs.ProcOutcomeInv
/-! Progress and termination measure of the `ProcOutcome` model. -/
namespace ProcOutcome

def crank : CPc → Nat
  | .boot => 5 | .target => 4 | .send1 => 3 | .send2 => 2 | .closing => 1 | .exited => 0

def krank : KPc → Nat
  | .recv1 => 7 | .recv2 => 6 | .eof => 5 | .waitExit => 4 | .endLog => 3 | .joinLog => 2
  | .resolve => 1 | .done => 0

def mu (s : State) : Nat := crank s.cpc + krank s.kpc + (if s.logStopped then 0 else 1)

/-- every action other than an accessor call strictly decreases `mu`; accessor calls leave it -/
theorem mu_step (c : Cfg) (s s' : State) (a : Act) (h : step c s a = some s') :
    (a.isAsk = false → mu s' < mu s) ∧ (a.isAsk = true → mu s' = mu s) := by
  cases a <;> simp only [step] at h
  case cBoot => split at h <;> simp at h; subst h; simp_all [mu, crank, Act.isAsk]
  case cTargetEnd => split at h <;> simp at h; subst h; simp_all [mu, crank, Act.isAsk]
  case cSend1 => split at h <;> simp at h; subst h; simp_all [mu, crank, Act.isAsk]
  case cSend2 => split at h <;> simp at h; subst h; simp_all [mu, crank, Act.isAsk]
  case cSendFail =>
    split at h <;> simp at h; subst h
    rename_i hc
    refine ⟨fun _ => ?_, fun h => by simp [Act.isAsk] at h⟩
    show crank CPc.exited + krank s.kpc + (if s.logStopped then 0 else 1)
        < crank s.cpc + krank s.kpc + (if s.logStopped then 0 else 1)
    have : 0 < crank s.cpc := by rcases hc with h | h <;> simp [h.1, crank]
    have : crank CPc.exited = 0 := rfl
    omega
  case cExit => split at h <;> simp at h; subst h; simp_all [mu, crank, Act.isAsk]
  case kill sig =>
    split at h <;> simp at h; subst h
    rename_i hc
    have : 0 < crank s.cpc := by cases hcp : s.cpc <;> simp_all [crank]
    refine ⟨fun _ => ?_, fun h => by simp [Act.isAsk] at h⟩
    show crank CPc.exited + krank s.kpc + (if s.logStopped then 0 else 1)
        < crank s.cpc + krank s.kpc + (if s.logStopped then 0 else 1)
    have : crank CPc.exited = 0 := rfl
    omega
  case kRecv =>
    split at h <;> simp at h <;> subst h <;> simp_all [mu, krank, Act.isAsk]
  case kEof =>
    split at h <;> simp at h; subst h
    rename_i hc
    rcases hc.1 with hk | hk <;> simp [mu, krank, Act.isAsk, hk]
  case kEofCode =>
    split at h
    · split at h
      · split at h <;> simp at h <;> subst h <;> simp_all [mu, krank, Act.isAsk]
      · simp at h
    · simp at h
  case kSentinel => split at h <;> simp at h; subst h; simp_all [mu, krank, Act.isAsk]
  case kPutEnd => split at h <;> simp at h; subst h; simp_all [mu, krank, Act.isAsk]
  case logStop => split at h <;> simp at h; subst h; simp_all [mu, Act.isAsk]
  case kJoinLog => split at h <;> simp at h; subst h; simp_all [mu, krank, Act.isAsk]
  case kResolve => split at h <;> simp at h; subst h; simp_all [mu, krank, Act.isAsk]
  case ask a => split at h <;> simp at h; subst h; simp [mu, Act.isAsk]

/-- the number of non-accessor actions of any run is bounded by the measure it consumes -/
theorem work_le_measure (c : Cfg) :
    ∀ (as : List Act) (s s' : State), Core.run (step c) s as = some s' →
      (as.filter (fun a => !a.isAsk)).length + mu s' ≤ mu s := by
  intro as
  induction as with
  | nil => intro s s' hr; simp at hr; subst hr; simp
  | cons a as ih =>
    intro s s' hr
    rw [Core.run_cons] at hr
    cases hst : step c s a with
    | none => simp [hst] at hr
    | some s1 =>
      simp [hst] at hr
      have h1 := ih s1 s' hr
      have h2 := mu_step c s s1 a hst
      cases hq : a.isAsk with
      | true => have := h2.2 hq; simp [List.filter, hq]; omega
      | false => have := h2.1 hq; simp [List.filter, hq]; omega

/-- progress: in every reachable state that is not final, the system itself (child, collector or
    logger — neither a signal nor an accessor call) can move -/
theorem progress_of_inv (c : Cfg) (s : State) (hi : Inv c s) (hnf : ¬ Final s) :
    ∃ a, a.isAsk = false ∧ a.isKill = false ∧ (step c s a).isSome = true := by
  obtain ⟨c0, c1, c2, c3, c4, c5, c6, c7, k1, k2, k3, k4, k5, k6, k7, a1⟩ := hi
  cases hcp : s.cpc with
  | boot => exact ⟨.cBoot, rfl, rfl, by simp [step, hcp]⟩
  | target => exact ⟨.cTargetEnd, rfl, rfl, by simp [step, hcp]⟩
  | send1 =>
    cases hcan : canSend1 c.outcome with
    | true => exact ⟨.cSend1, rfl, rfl, by simp [step, hcp, hcan]⟩
    | false => exact ⟨.cSendFail, rfl, rfl, by simp [step, hcp, hcan]⟩
  | send2 =>
    cases hcan : canSend2 c.outcome with
    | true => exact ⟨.cSend2, rfl, rfl, by simp [step, hcp, hcan]⟩
    | false => exact ⟨.cSendFail, rfl, rfl, by simp [step, hcp, hcan]⟩
  | closing => exact ⟨.cExit, rfl, rfl, by simp [step, hcp]⟩
  | exited =>
    obtain ⟨hw, hcode⟩ := c5 hcp
    cases hkp : s.kpc with
    | recv1 =>
      cases hpp : s.pipe with
      | nil => exact ⟨.kEof, rfl, rfl, by simp [step, hkp, hpp, hw]⟩
      | cons m rest => exact ⟨.kRecv, rfl, rfl, by simp [step, hkp, hpp]⟩
    | recv2 =>
      cases hpp : s.pipe with
      | nil => exact ⟨.kEof, rfl, rfl, by simp [step, hkp, hpp, hw]⟩
      | cons m rest => exact ⟨.kRecv, rfl, rfl, by simp [step, hkp, hpp]⟩
    | eof =>
      refine ⟨.kEofCode, rfl, rfl, ?_⟩
      simp only [step, hkp, hcode, if_true]
      split <;> simp
    | waitExit => exact ⟨.kSentinel, rfl, rfl, by simp [step, hkp, hcp]⟩
    | endLog => exact ⟨.kPutEnd, rfl, rfl, by simp [step, hkp]⟩
    | joinLog =>
      cases hls : s.logStopped with
      | true => exact ⟨.kJoinLog, rfl, rfl, by simp [step, hkp, hls]⟩
      | false =>
        have := k7 (by simp [hkp])
        exact ⟨.logStop, rfl, rfl, by simp [step, this, hls]⟩
    | resolve => exact ⟨.kResolve, rfl, rfl, by simp [step, hkp]⟩
    | done => exact absurd ⟨hcp, hkp⟩ hnf

/-- in a final state every accessor returns -/
theorem final_answers (c : Cfg) (s : State) (hi : Inv c s) (hf : Final s) (a : Acc) :
    canAnswer a s = true := by
  obtain ⟨hc, hk⟩ := hf
  have h5 := (hi.c5 hc).2
  have h6 := hi.k6.1 hk
  cases a <;> simp [canAnswer, h5, h6, hk]

end ProcOutcome
