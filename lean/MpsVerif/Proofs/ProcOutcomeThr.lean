import MpsVerif.Model.ProcOutcome
/-! Invariant and progress of the thread variant (`ProcOutcome.Thr`). -/
namespace ProcOutcome.Thr

/-- the final answer of every accessor of a `Thread`, from the outcome alone -/
def finalAns (o : Outcome) (a : Acc) : Ans :=
  match a with
  | .done => .flag true
  | .exitcode => .code none
  | _ => ansOfFut a (threadFut o) none

structure Inv (c : Cfg) (s : State) : Prop where
  f1 : s.tpc = .run → s.fut = none
  f2 : s.tpc ≠ .run → s.fut = some (threadFut c.outcome)
  a1 : ∀ a r, (a, r) ∈ s.answers → pendingAns a = some r ∨ r = finalAns c.outcome a

theorem inv_init (c : Cfg) : Inv c init := by
  constructor <;> simp [init]

theorem inv_step (c : Cfg) (s s' : State) (a : Act) (hi : Inv c s) (h : step c s a = some s') :
    Inv c s' := by
  obtain ⟨f1, f2, a1⟩ := hi
  cases a <;> simp only [step] at h
  case tSet =>
    split at h <;> simp at h; subst h
    exact ⟨by simp, by simp, a1⟩
  case tEnd =>
    split at h <;> simp at h; subst h
    rename_i ht
    exact ⟨by simp, fun _ => f2 (by simp [ht]), a1⟩
  case ask a =>
    split at h <;> simp at h; subst h
    rename_i hcan
    refine ⟨f1, f2, ?_⟩
    intro a' r hm
    simp only [List.mem_append, List.mem_singleton, Prod.mk.injEq] at hm
    rcases hm with hm | ⟨rfl, rfl⟩
    · exact a1 a' r hm
    · have hfut : ∀ f, s.fut = some f → f = threadFut c.outcome := by
        intro f hf
        by_cases hr : s.tpc = .run
        · rw [f1 hr] at hf; simp at hf
        · rw [f2 hr] at hf; simpa using hf.symm
      cases a' <;> simp only [canAnswer, Bool.and_eq_true, Option.isSome_iff_exists] at hcan
      · obtain ⟨_, f, hf⟩ := hcan; right; simp [answer, finalAns, hf, hfut f hf]
      · obtain ⟨_, f, hf⟩ := hcan; right; simp [answer, finalAns, hf, hfut f hf]
      · obtain ⟨_, f, hf⟩ := hcan; right; simp [answer, finalAns, hf, hfut f hf]
      · cases ht : s.tpc <;> simp [answer, finalAns, pendingAns, ht]
      · left; simp [answer, pendingAns]
      · obtain ⟨f, hf⟩ := hcan; right; simp [answer, finalAns, hf, ansOfFut]
      · obtain ⟨f, hf⟩ := hcan; right; simp [answer, finalAns, hf, ansOfFut]

theorem reachable_inv (c : Cfg) {s : State} (hr : Reachable c s) : Inv c s :=
  Core.invariant_reach (fun s a s' => inv_step c s s' a) (inv_init c) hr

def trank : TPc → Nat
  | .run => 2 | .set => 1 | .dead => 0

def isAsk : Act → Bool
  | .ask _ => true
  | _ => false

theorem mu_step (c : Cfg) (s s' : State) (a : Act) (h : step c s a = some s') :
    (isAsk a = false → trank s'.tpc < trank s.tpc) ∧ (isAsk a = true → trank s'.tpc = trank s.tpc) := by
  cases a <;> simp only [step] at h
  case tSet => split at h <;> simp at h; subst h; simp_all [trank, isAsk]
  case tEnd => split at h <;> simp at h; subst h; simp_all [trank, isAsk]
  case ask a => split at h <;> simp at h; subst h; simp [isAsk]

theorem work_le_measure (c : Cfg) :
    ∀ (as : List Act) (s s' : State), Core.run (step c) s as = some s' →
      (as.filter (fun a => !isAsk a)).length + trank s'.tpc ≤ trank s.tpc := by
  intro as
  induction as with
  | nil => intro s s' hr; simp at hr; subst hr; simp
  | cons a as ih =>
    intro s s' hr
    rw [Core.run_cons] at hr
    cases hst : step c s a with
    | none => simp [hst] at hr
    | some s1 =>
      simp [hst] at hr
      have h1 := ih s1 s' hr
      have h2 := mu_step c s s1 a hst
      cases hq : isAsk a with
      | true => have := h2.2 hq; simp [List.filter, hq]; omega
      | false => have := h2.1 hq; simp [List.filter, hq]; omega

end ProcOutcome.Thr
