import MpsVerif.Proofs.ProxyCallRefine
import MpsVerif.Core.Sys
/-! Concurrent clients: every interleaving is a sequential proxy run over its linearisation `hist`. -/
namespace ProxyCall

variable {H Op : Type}

theorem proxyRun_snoc (sem : Sem H Op) : ∀ (rs : List (Req Op)) (P : PState H) (r : Req Op),
    proxyRun sem P (rs ++ [r]) =
      ((proxyStep sem (proxyRun sem P rs).1 r).1, (proxyRun sem P rs).2 ++ [(proxyStep sem (proxyRun sem P rs).1 r).2]) := by
  intro rs
  induction rs with
  | nil => intro P r; simp [proxyRun]
  | cons a rs ih =>
    intro P r
    simp only [List.cons_append, proxyRun]
    rw [ih]

/-- the server part of `proxyStep` does not depend on the connection table -/
theorem proxyStep_srv (sem : Sem H Op) (P : PState H) (r : Req Op) :
    (proxyStep sem P r).1.srv = (serverCall sem P.srv r.i r.op).1 ∧
    (proxyStep sem P r).2 = clientRecv (serverCall sem P.srv r.i r.op).2 := by
  unfold proxyStep
  rcases serverCall sem P.srv r.i r.op with ⟨S', m⟩
  exact ⟨rfl, rfl⟩

/-- outcomes of client `c`'s requests, in execution order -/
def outsOf (c : Nat) : List (Req Op) → List Outcome → List Outcome
  | r :: rs, o :: os => if r.c = c then o :: outsOf c rs os else outsOf c rs os
  | _, _ => []

theorem outsOf_snoc (c : Nat) : ∀ (rs : List (Req Op)) (os : List Outcome) (r : Req Op) (o : Outcome),
    rs.length = os.length →
    outsOf c (rs ++ [r]) (os ++ [o]) = outsOf c rs os ++ (if r.c = c then [o] else []) := by
  intro rs
  induction rs with
  | nil =>
    intro os r o hl
    cases os with
    | nil => simp [outsOf]
    | cons _ _ => simp at hl
  | cons a rs ih =>
    intro os r o hl
    cases os with
    | nil => simp at hl
    | cons b os =>
      simp only [List.length_cons, Nat.add_right_cancel_iff] at hl
      simp only [List.cons_append, outsOf]
      rw [ih os r o hl]
      split <;> simp

def gotOf (c : Nat) (got : List (Nat × Outcome)) : List Outcome := (got.filter (fun x => x.1 == c)).map (·.2)

structure CInv (sem : Sem H Op) (S0 : Server H) (conn0 : Nat → Bool) (s : CState H Op) : Prop where
  lin : (proxyRun sem ⟨S0, conn0⟩ s.hist).1.srv = s.srv ∧ (proxyRun sem ⟨S0, conn0⟩ s.hist).2 = s.execOuts
  len : s.hist.length = s.execOuts.length
  fifo : ∀ c, outsOf c s.hist s.execOuts = gotOf c s.got ++ (s.reply c).toList
  one : ∀ c, s.pending c ≠ none → s.reply c = none

theorem cinv_init (sem : Sem H Op) (S0 : Server H) (conn0 : Nat → Bool) :
    CInv sem S0 conn0 (cinit S0 : CState H Op) := by
  constructor <;> simp [cinit, proxyRun, outsOf, gotOf]

theorem cinv_step (sem : Sem H Op) (S0 : Server H) (conn0 : Nat → Bool) {s s' : CState H Op} {a : CAct Op}
    (h : CInv sem S0 conn0 s) (hs : cstep sem s a = some s') : CInv sem S0 conn0 s' := by
  cases a with
  | send c i op =>
    simp only [cstep] at hs
    split at hs
    · rename_i hg
      simp at hs; subst hs
      refine ⟨h.lin, h.len, h.fifo, ?_⟩
      intro d hd
      by_cases hdc : d = c
      · subst hdc; exact hg.2
      · simp [hdc] at hd; exact h.one d hd
    · cases hs
  | exec c =>
    simp only [cstep] at hs
    split at hs
    · rename_i i op hp
      split at hs
      · rename_i hr
        simp at hs; subst hs
        have hps := proxyStep_srv sem (proxyRun sem ⟨S0, conn0⟩ s.hist).1 ⟨c, i, op⟩
        rw [h.lin.1] at hps
        refine ⟨?_, ?_, ?_, ?_⟩
        · simp only
          rw [proxyRun_snoc]
          exact ⟨hps.1, by rw [h.lin.2, hps.2]⟩
        · simp [h.len]
        · intro d
          simp only
          rw [outsOf_snoc d s.hist s.execOuts _ _ h.len, h.fifo d]
          by_cases hdc : d = c
          · subst hdc; simp [hr]
          · have : ¬ c = d := fun e => hdc e.symm
            simp [hdc, this]
        · intro d hd
          by_cases hdc : d = c
          · subst hdc; simp at hd
          · simp [hdc] at hd ⊢; exact h.one d hd
      · cases hs
    · cases hs
  | recv c =>
    simp only [cstep] at hs
    split at hs
    · rename_i o hr
      simp at hs; subst hs
      refine ⟨h.lin, h.len, ?_, ?_⟩
      · intro d
        simp only
        rw [h.fifo d]
        by_cases hdc : d = c
        · subst hdc; simp [gotOf, hr]
        · have : ¬ c = d := fun e => hdc e.symm
          simp [gotOf, hdc, this]
      · intro d hd
        by_cases hdc : d = c
        · subst hdc
          have := h.one d hd
          rw [hr] at this; cases this
        · simp [hdc]; exact h.one d hd
    · cases hs

theorem cinv_reach (sem : Sem H Op) (S0 : Server H) (conn0 : Nat → Bool) {s : CState H Op}
    (hr : Core.Reach (cstep sem) (cinit S0) s) : CInv sem S0 conn0 s :=
  Core.invariant_reach (fun _ _ _ h hs => cinv_step sem S0 conn0 h hs) (cinv_init sem S0 conn0) hr

end ProxyCall
