import MpsVerif.Model.ProxyCall
/-! Step lemmas for the proxy machinery (`Model/ProxyCall.lean`). -/
namespace ProxyCall

variable {H Op : Type}

/-- the table after a call: `managed()` / a typed method adds the entry of the returned object -/
def hostedAfter (hosted : Nat → Bool) : Res → Nat → Bool
  | .alias a => fun j => if j = a then true else hosted j
  | .typed a => fun j => if j = a then true else hosted j
  | _ => hosted

theorem serverCall_hosted (sem : Sem H Op) (S : Server H) (i : Nat) (op : Op) (hh : S.hosted i = true) :
    serverCall sem S i op =
      ({ heap := (sem.call S.heap i op).1, hosted := hostedAfter S.hosted (sem.call S.heap i op).2 },
       match (sem.call S.heap i op).2 with
       | .val v => .ret v | .vals vs => .retVals vs | .alias a => .retProxy a | .typed a => .proxy a
       | .raised e => .error e) := by
  unfold serverCall
  rw [if_pos hh]
  rcases hc : sem.call S.heap i op with ⟨h, r⟩
  cases r <;> simp [hostedAfter]

theorem proxyStep_hosted (sem : Sem H Op) (P : PState H) (r : Req Op) (hh : P.srv.hosted r.i = true) :
    proxyStep sem P r =
      ({ srv := { heap := (sem.call P.srv.heap r.i r.op).1,
                  hosted := hostedAfter P.srv.hosted (sem.call P.srv.heap r.i r.op).2 },
         conn := fun c => if c = r.c then true else P.conn c },
       view (sem.call P.srv.heap r.i r.op).2) := by
  unfold proxyStep
  rw [serverCall_hosted sem P.srv r.i r.op hh]
  rcases hc : sem.call P.srv.heap r.i r.op with ⟨h, res⟩
  cases res <;> simp [clientRecv, view]

theorem proxyStep_unhosted (sem : Sem H Op) (P : PState H) (r : Req Op) (hh : P.srv.hosted r.i = false) :
    proxyStep sem P r =
      ({ srv := P.srv, conn := fun c => if c = r.c then true else P.conn c }, .remoteError) := by
  unfold proxyStep serverCall
  simp [hh, clientRecv]

theorem hostedAfter_mono (hosted : Nat → Bool) (r : Res) (j : Nat) (h : hosted j = true) :
    hostedAfter hosted r j = true := by
  cases r <;> simp [hostedAfter, h]
  all_goals (split <;> simp_all)

/-- entries are never removed by calls (removal is reference counting, C13) and connections stay open -/
theorem proxyStep_mono (sem : Sem H Op) (P : PState H) (r : Req Op) :
    (∀ j, P.srv.hosted j = true → (proxyStep sem P r).1.srv.hosted j = true) ∧
    (∀ c, P.conn c = true → (proxyStep sem P r).1.conn c = true) ∧
    (proxyStep sem P r).1.conn r.c = true := by
  cases hh : P.srv.hosted r.i with
  | true =>
    rw [proxyStep_hosted sem P r hh]
    refine ⟨fun j hj => hostedAfter_mono _ _ j hj, ?_, by simp⟩
    intro c hc; simp [hc]
  | false =>
    rw [proxyStep_unhosted sem P r hh]
    refine ⟨fun j hj => hj, ?_, by simp⟩
    intro c hc; simp [hc]

theorem proxyRun_mono (sem : Sem H Op) : ∀ (rs : List (Req Op)) (P : PState H),
    (∀ j, P.srv.hosted j = true → (proxyRun sem P rs).1.srv.hosted j = true) ∧
    (∀ c, P.conn c = true → (proxyRun sem P rs).1.conn c = true) ∧
    (∀ r ∈ rs, (proxyRun sem P rs).1.conn r.c = true) := by
  intro rs
  induction rs with
  | nil => intro P; simp [proxyRun]
  | cons r rs ih =>
    intro P
    have h1 := proxyStep_mono sem P r
    have h2 := ih (proxyStep sem P r).1
    simp only [proxyRun]
    refine ⟨fun j hj => h2.1 j (h1.1 j hj), fun c hc => h2.2.1 c (h1.2.1 c hc), ?_⟩
    intro r' hr'
    rcases List.mem_cons.mp hr' with rfl | hr'
    · exact h2.2.1 _ h1.2.2
    · exact h2.2.2 r' hr'

theorem refines (sem : Sem H Op) : ∀ (rs : List (Req Op)) (P : PState H), Valid sem P rs →
    (proxyRun sem P rs).2 = (directRun sem P.srv.heap (rs.map fun r => (r.i, r.op))).2.map view ∧
    (proxyRun sem P rs).1.srv.heap = (directRun sem P.srv.heap (rs.map fun r => (r.i, r.op))).1 := by
  intro rs
  induction rs with
  | nil => intro P _; simp [proxyRun, directRun]
  | cons r rs ih =>
    intro P hv
    obtain ⟨hh, hv'⟩ := hv
    have hstep := proxyStep_hosted sem P r hh
    have := ih (proxyStep sem P r).1 hv'
    simp only [proxyRun, List.map_cons, directRun]
    rw [hstep] at this ⊢
    simp only at this ⊢
    exact ⟨by rw [this.1], this.2⟩

end ProxyCall
