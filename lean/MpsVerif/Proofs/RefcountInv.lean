import MpsVerif.Model.Refcount
import MpsVerif.Core.Sys
/-!
# Invariants of the reference-counting model

`Inv` is inductive over `step`; everything in `Props/C13.lean` is read off it.
-/
namespace Refcount

/-! ## list lemmas -/

theorem countP_erase_mem {α : Type} [BEq α] [LawfulBEq α] (p : α → Bool) (a : α) :
    ∀ (l : List α), a ∈ l → (l.erase a).countP p + (if p a then 1 else 0) = l.countP p := by
  intro l
  induction l with
  | nil => intro h; simp at h
  | cons b l ih =>
    intro h
    rw [List.erase_cons]
    by_cases hb : b = a
    · subst hb; simp [List.countP_cons]
    · have hb' : (b == a) = false := by simpa using hb
      have hm : a ∈ l := by
        rcases List.mem_cons.mp h with h | h
        · exact absurd h.symm hb
        · exact h
      simp only [hb', Bool.false_eq_true, ↓reduceIte, List.countP_cons]
      have := ih hm
      omega

theorem orphan_snd (c : Nat) (r : Ref) : (orphan c r).2 = r.2 := by
  unfold orphan; split <;> rfl

theorem countP_map_orphan (c i : Nat) (l : List Ref) :
    (l.map (orphan c)).countP (fun r => r.2 == i) = l.countP (fun r => r.2 == i) := by
  rw [List.countP_map]
  congr 1
  funext r
  simp [orphan_snd]

theorem mem_map_orphan {c : Nat} {l : List Ref} {h : Holder} {i : Nat}
    (hm : (h, i) ∈ l.map (orphan c)) :
    (h ≠ .item c ∧ (h, i) ∈ l) ∨ (h = .temp ∧ (Holder.item c, i) ∈ l) := by
  obtain ⟨r, hr, he⟩ := List.mem_map.mp hm
  unfold orphan at he
  split at he
  · rename_i h1
    right
    have : r = (Holder.item c, i) := by
      cases r; simp at h1 he; simp [h1, he.2]
    simp at he
    exact ⟨he.1.symm, this ▸ hr⟩
  · rename_i h1
    left
    subst he
    exact ⟨h1, hr⟩

/-! ## the invariant -/

structure Inv (s : State) : Prop where
  count : ∀ i, s.rc i = s.refs.countP (fun r => r.2 == i)
  hosted : ∀ i, s.hosted i = true ↔ 0 < s.rc i
  item : ∀ c i, (Holder.item c, i) ∈ s.refs → s.hosted c = true ∧ s.kind c = .cont
  shm : ∀ i, s.shm i = true ↔ (s.hosted i = true ∧ s.kind i = .mem)
  exited : ∀ p i, s.stat p = .exited → (Holder.client p, i) ∉ s.refs

theorem inv_init : Inv init := by
  constructor <;> simp [init]

/-- `decref` restores the invariant in a state whose count of `i` is one too high -/
theorem decref_inv (t : State) (i : Nat)
    (hc : ∀ j, j ≠ i → t.rc j = t.refs.countP (fun r => r.2 == j))
    (hi : t.rc i = t.refs.countP (fun r => r.2 == i) + 1)
    (hh : ∀ j, t.hosted j = true ↔ 0 < t.rc j)
    (hitem : ∀ c j, (Holder.item c, j) ∈ t.refs → t.hosted c = true ∧ t.kind c = .cont)
    (hshm : ∀ j, t.shm j = true ↔ (t.hosted j = true ∧ t.kind j = .mem))
    (hex : ∀ p j, t.stat p = .exited → (Holder.client p, j) ∉ t.refs) :
    Inv (decref t i) := by
  unfold decref
  split
  · rename_i h1
    have h0 : t.refs.countP (fun r => r.2 == i) = 0 := by omega
    constructor
    · intro j
      simp only [countP_map_orphan]
      by_cases hj : j = i
      · subst hj; simp [h0]
      · simp [hj, hc j hj]
    · intro j
      by_cases hj : j = i
      · subst hj; simp
      · simp [hj, hh j]
    · intro c j hm
      rcases mem_map_orphan hm with ⟨hne, hm'⟩ | ⟨hne, _⟩
      · have hci : c ≠ i := by intro h; subst h; exact hne rfl
        have := hitem c j hm'
        simp [hci, this]
      · cases hne
    · intro j
      by_cases hj : j = i
      · subst hj; simp
      · simp [hj, hshm j]
    · intro p j hp hm
      rcases mem_map_orphan hm with ⟨_, hm'⟩ | ⟨hne, _⟩
      · exact hex p j hp hm'
      · cases hne
  · rename_i h1
    constructor
    · intro j
      by_cases hj : j = i
      · subst hj; simp; omega
      · simp [hj, hc j hj]
    · intro j
      by_cases hj : j = i
      · subst hj
        have := hh j
        simp; constructor
        · intro _; omega
        · intro _; exact this.mpr (by omega)
      · simp [hj, hh j]
    · exact hitem
    · exact hshm
    · exact hex

theorem pos_of_mem {s : State} (h : Inv s) {hd : Holder} {i : Nat} (hm : (hd, i) ∈ s.refs) :
    0 < s.rc i := by
  rw [h.count i]
  exact List.countP_pos_iff.mpr ⟨(hd, i), hm, by simp⟩

/-- erasing one reference to `i` leaves the count of `i` one too high -/
theorem erase_counts {s : State} (h : Inv s) {hd : Holder} {i : Nat} (hm : (hd, i) ∈ s.refs) :
    (∀ j, j ≠ i → s.rc j = (s.refs.erase (hd, i)).countP (fun r => r.2 == j)) ∧
    s.rc i = (s.refs.erase (hd, i)).countP (fun r => r.2 == i) + 1 := by
  constructor
  · intro j hj
    have := countP_erase_mem (fun r : Ref => r.2 == j) (hd, i) s.refs hm
    have hji : (i == j) = false := by simpa using (Ne.symm hj)
    simp only [hji, Bool.false_eq_true, ↓reduceIte] at this
    rw [h.count j]; omega
  · have := countP_erase_mem (fun r : Ref => r.2 == i) (hd, i) s.refs hm
    simp at this
    rw [h.count i]; omega

theorem inv_step {s s' : State} {a : Act} (h : Inv s) (hs : step s a = some s') : Inv s' := by
  cases a with
  | create k i =>
    simp only [step] at hs
    split at hs
    · rename_i hg
      simp at hs; subst hs
      have hrc : s.rc i = 0 := by
        have := h.hosted i
        rcases Nat.eq_zero_or_pos (s.rc i) with h0 | h0
        · exact h0
        · rw [this.mpr h0] at hg; cases hg
      constructor
      · intro j
        by_cases hj : j = i
        · subst hj; simp [← h.count j, hrc]
        · have : (i == j) = false := by simpa using (Ne.symm hj)
          simp [hj, this, h.count j]
      · intro j
        by_cases hj : j = i
        · subst hj; simp
        · simp [hj, h.hosted j]
      · intro c j hm
        simp at hm
        have := h.item c j hm
        have hci : c ≠ i := by intro hc; subst hc; rw [this.1] at hg; cases hg
        simp [hci, this]
      · intro j
        by_cases hj : j = i
        · subst hj; simp
        · simp [hj, h.shm j]
      · intro p j hp hm
        simp at hm
        exact h.exited p j hp hm
    · cases hs
  | manage i =>
    simp only [step] at hs
    split at hs
    · rename_i hg
      simp at hs; subst hs
      constructor
      · intro j
        by_cases hj : j = i
        · subst hj; simp [incref, ← h.count j]
        · have : (i == j) = false := by simpa using (Ne.symm hj)
          simp [incref, hj, this, h.count j]
      · intro j
        by_cases hj : j = i
        · subst hj; simp [incref, hg]
        · simp [incref, hj, h.hosted j]
      · intro c j hm
        simp at hm
        simpa [incref] using h.item c j hm
      · intro j; simpa [incref] using h.shm j
      · intro p j hp hm
        simp [incref] at hm hp
        exact h.exited p j hp hm
    · cases hs
  | pickle hd i =>
    simp only [step] at hs
    split at hs
    · rename_i hg
      simp at hs; subst hs
      constructor
      · intro j
        by_cases hj : j = i
        · subst hj; simp [incref, ← h.count j]
        · have : (i == j) = false := by simpa using (Ne.symm hj)
          simp [incref, hj, this, h.count j]
      · intro j
        by_cases hj : j = i
        · subst hj; simp [incref, hg.2.2.2.2]
        · simp [incref, hj, h.hosted j]
      · intro c j hm
        simp at hm
        simpa [incref] using h.item c j hm
      · intro j; simpa [incref] using h.shm j
      · intro p j hp hm
        simp [incref] at hm hp
        exact h.exited p j hp hm
    · cases hs
  | unpickle dst i =>
    simp only [step] at hs
    split at hs
    · rename_i hg
      simp at hs; subst hs
      obtain ⟨hm, hho, hd⟩ := hg
      have hec := erase_counts h hm
      constructor
      · intro j
        by_cases hj : j = i
        · subst hj; simp [incref]; omega
        · have : (i == j) = false := by simpa using (Ne.symm hj)
          simp [incref, hj, this, hec.1 j hj]
      · intro j
        by_cases hj : j = i
        · subst hj; simp [incref, hho]
        · simp [incref, hj, h.hosted j]
      · intro c j hmem
        simp at hmem
        rcases hmem with ⟨rfl, rfl⟩ | hmem
        · simp [dstOk] at hd
        · simpa [incref] using h.item c j (by first | exact hmem | exact List.mem_of_mem_erase hmem)
      · intro j; simpa [incref] using h.shm j
      · intro p j hp hmem
        simp [incref] at hmem hp
        rcases hmem with ⟨rfl, rfl⟩ | hmem
        · simp [dstOk, hp] at hd
        · exact h.exited p j hp (by first | exact hmem | exact List.mem_of_mem_erase hmem)
    · cases hs
  | drop hd i =>
    simp only [step] at hs
    split at hs
    · rename_i hg
      simp at hs; subst hs
      obtain ⟨hm, _, _⟩ := hg
      have hec := erase_counts h hm
      apply decref_inv
      · exact hec.1
      · exact hec.2
      · exact h.hosted
      · intro c j hmem; exact h.item c j (by first | exact hmem | exact List.mem_of_mem_erase hmem)
      · exact h.shm
      · intro p j hp hmem; exact h.exited p j hp (by first | exact hmem | exact List.mem_of_mem_erase hmem)
    · cases hs
  | store c i =>
    simp only [step] at hs
    split at hs
    · rename_i hg
      simp at hs; subst hs
      obtain ⟨hm, hc, hk⟩ := hg
      have hec := erase_counts h hm
      constructor
      · intro j
        by_cases hj : j = i
        · subst hj; simp; omega
        · have : (i == j) = false := by simpa using (Ne.symm hj)
          simp [this, hec.1 j hj]
      · exact h.hosted
      · intro c' j hmem
        simp at hmem
        rcases hmem with ⟨rfl, rfl⟩ | hmem
        · exact ⟨hc, hk⟩
        · exact h.item c' j (by first | exact hmem | exact List.mem_of_mem_erase hmem)
      · exact h.shm
      · intro p j hp hmem
        simp at hmem
        exact h.exited p j hp (by first | exact hmem | exact List.mem_of_mem_erase hmem)
    · cases hs
  | unstore c i =>
    simp only [step] at hs
    split at hs
    · rename_i hm
      simp at hs; subst hs
      have hec := erase_counts h hm
      constructor
      · intro j
        by_cases hj : j = i
        · subst hj; simp; omega
        · have : (i == j) = false := by simpa using (Ne.symm hj)
          simp [this, hec.1 j hj]
      · exact h.hosted
      · intro c' j hmem
        simp at hmem
        exact h.item c' j (by first | exact hmem | exact List.mem_of_mem_erase hmem)
      · exact h.shm
      · intro p j hp hmem
        simp at hmem
        exact h.exited p j hp (by first | exact hmem | exact List.mem_of_mem_erase hmem)
    · cases hs
  | fork p q i =>
    simp only [step] at hs
    split at hs
    · rename_i hg
      simp at hs; subst hs
      constructor
      · intro j
        by_cases hj : j = i
        · subst hj; simp [incref, ← h.count j]
        · have : (i == j) = false := by simpa using (Ne.symm hj)
          simp [incref, hj, this, h.count j]
      · intro j
        by_cases hj : j = i
        · subst hj; simp [incref, hg.2.2.2]
        · simp [incref, hj, h.hosted j]
      · intro c j hm
        simp at hm
        simpa [incref] using h.item c j hm
      · intro j; simpa [incref] using h.shm j
      · intro p' j hp hm
        simp [incref] at hm hp
        rcases hm with ⟨rfl, rfl⟩ | hm
        · rw [hg.2.2.1] at hp; cases hp
        · exact h.exited p' j hp hm
    · cases hs
  | call p i =>
    simp only [step] at hs
    split at hs
    · simp at hs; subst hs; exact h
    · cases hs
  | exitBegin p =>
    simp only [step] at hs
    split at hs
    · rename_i hg
      simp at hs; subst hs
      refine ⟨h.count, h.hosted, h.item, h.shm, ?_⟩
      intro q j hq
      by_cases hqp : q = p
      · subst hqp; simp at hq
      · simp [hqp] at hq; exact h.exited q j hq
    · cases hs
  | exitEnd p =>
    simp only [step] at hs
    split at hs
    · rename_i hg
      simp at hs; subst hs
      refine ⟨h.count, h.hosted, h.item, h.shm, ?_⟩
      intro q j hq hm
      by_cases hqp : q = p
      · subst hqp; exact hg.2 _ hm rfl
      · simp [hqp] at hq; exact h.exited q j hq hm
    · cases hs

def Reachable (s : State) : Prop := Core.Reach step init s

theorem inv_reachable {s : State} (hr : Reachable s) : Inv s :=
  Core.invariant_reach (fun _ _ _ h hs => inv_step h hs) inv_init hr

end Refcount
