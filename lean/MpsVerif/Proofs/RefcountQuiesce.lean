import MpsVerif.Proofs.RefcountInv
/-!
# The server gives its temporaries back on its own (no client action needed)

`quiesce` (Model/Refcount.lean) is a run of server-internal `drop .temp` steps; with fuel
`refs.length` it ends in a state without temporaries, and it never touches a client's proxies,
a pickle in transit or — except by destroying a dead container — a nested proxy.
-/
namespace Refcount

theorem decref_refs_length (t : State) (i : Nat) : (decref t i).refs.length = t.refs.length := by
  unfold decref; split <;> simp

theorem cnt_partition (l : List Ref) (i : Nat) :
    l.countP (fun r => r.2 == i) =
      l.countP (fun r => Holder.isClient r.1 && r.2 == i) +
      l.countP (fun r => Holder.isTransit r.1 && r.2 == i) +
      l.countP (fun r => Holder.isNested r.1 && r.2 == i) +
      l.countP (fun r => Holder.isTemp r.1 && r.2 == i) := by
  induction l with
  | nil => simp
  | cons r l ih =>
    simp only [List.countP_cons, ih]
    obtain ⟨h, j⟩ := r
    by_cases hj : j = i
    · subst hj
      cases h <;> simp [Holder.isClient, Holder.isTransit, Holder.isNested, Holder.isTemp] <;> omega
    · have : (j == i) = false := by simpa using hj
      simp [this]

/-- holder classes that neither `erase (.temp, _)` nor `orphan` can change -/
def Stable (f : Holder → Bool) : Prop := f .temp = false ∧ ∀ c, f (.item c) = false

theorem countP_orphan_stable {f : Holder → Bool} (hf : Stable f) (c i : Nat) (l : List Ref) :
    (l.map (orphan c)).countP (fun r => f r.1 && r.2 == i) = l.countP (fun r => f r.1 && r.2 == i) := by
  rw [List.countP_map]
  congr 1
  funext r
  simp only [Function.comp, orphan]
  split
  · rename_i h; simp [h, hf.1, hf.2]
  · rfl

theorem cnt_decref_stable {f : Holder → Bool} (hf : Stable f) (t : State) (x i : Nat) :
    cnt f (decref t x) i = cnt f t i := by
  unfold decref cnt
  split
  · simp only; exact countP_orphan_stable hf x i t.refs
  · rfl

theorem cnt_dropTemp_stable {f : Holder → Bool} (hf : Stable f) {s s' : State} {x : Nat}
    (hs : step s (.drop .temp x) = some s') (i : Nat) : cnt f s' i = cnt f s i := by
  simp only [step] at hs
  split at hs
  · rename_i hg
    simp at hs; subst hs
    rw [cnt_decref_stable hf]
    unfold cnt
    have := countP_erase_mem (fun r : Ref => f r.1 && r.2 == i) (.temp, x) s.refs hg.1
    simp [hf.1] at this
    simpa using this
  · cases hs

theorem stable_isClient : Stable Holder.isClient := ⟨rfl, fun _ => rfl⟩
theorem stable_isTransit : Stable Holder.isTransit := ⟨rfl, fun _ => rfl⟩

theorem dropTemp_enabled {s : State} (h : Inv s) {i : Nat} (hm : (Holder.temp, i) ∈ s.refs) :
    ∃ s', step s (.drop .temp i) = some s' ∧ s'.refs.length + 1 = s.refs.length := by
  have hpos := pos_of_mem h hm
  refine ⟨decref { s with refs := s.refs.erase (.temp, i) } i, ?_, ?_⟩
  · simp [step, hm, hpos]
  · rw [decref_refs_length]
    simp only
    rw [List.length_erase_of_mem hm]
    have : 0 < s.refs.length := List.length_pos_of_mem hm
    omega

theorem quiesce_spec : ∀ (n : Nat) (s : State), Inv s → s.refs.length ≤ n →
    ∃ as, (∀ a ∈ as, serverInternal a = true) ∧ as.length ≤ s.refs.length ∧
      Core.run step s as = some (quiesce n s) ∧
      (∀ r ∈ (quiesce n s).refs, r.1 ≠ .temp) ∧
      (∀ (f : Holder → Bool), Stable f → ∀ i, cnt f (quiesce n s) i = cnt f s i) := by
  intro n
  induction n with
  | zero =>
    intro s _ hn
    have : s.refs = [] := List.eq_nil_of_length_eq_zero (by omega)
    refine ⟨[], by simp, by simp, rfl, ?_, ?_⟩
    · simp [quiesce, this]
    · intro f _ i; rfl
  | succ n ih =>
    intro s hinv hn
    simp only [quiesce]
    cases hf : s.refs.find? (fun r => r.1 == .temp) with
    | none =>
      refine ⟨[], by simp, by simp, rfl, ?_, ?_⟩
      · intro r hr
        have := List.find?_eq_none.mp hf r hr
        simpa using this
      · intro f _ i; rfl
    | some r =>
      have hr : r ∈ s.refs := List.mem_of_find?_eq_some hf
      have ht : r.1 = .temp := by simpa using List.find?_some hf
      have hm : (Holder.temp, r.2) ∈ s.refs := by rw [← ht]; exact hr
      obtain ⟨s', hs', hlen⟩ := dropTemp_enabled hinv hm
      simp only [hs']
      obtain ⟨as, h1, h2, h3, h4, h5⟩ := ih s' (inv_step hinv hs') (by omega)
      refine ⟨.drop .temp r.2 :: as, ?_, ?_, ?_, h4, ?_⟩
      · intro a ha
        rcases List.mem_cons.mp ha with rfl | ha
        · rfl
        · exact h1 a ha
      · simp only [List.length_cons]; omega
      · rw [Core.run_cons, hs']; exact h3
      · intro f hf' i
        rw [h5 f hf' i, cnt_dropTemp_stable hf' hs' i]

end Refcount
