import MpsVerif.Model.RemoteExc
/-!
# Lemmas about the `RemoteException` model

* `wrap_recv` / `hop_recv`   : a received exception that is only forwarded is a fixed point of a hop;
* `hop_reraised`             : raising it again before the next hop only extends the top-level text;
* `wrap_ok` / `pk_sent`      : the first hop of an exception that carries tracebacks succeeds and
                               yields a received exception;
* `Img`                      : the specification relation "faithful received image", and `hop_img`.
-/
namespace RemoteExc

deriving instance DecidableEq for Exc, Mems

variable (F : Fmt) (p : Text)

mutual
theorem wrap_recv : ∀ e : Exc, e.recv = true →
    ∃ w t, wrapWith F p .dflt e = some (w, t) ∧ e.remoteTb = some t ∧ rebuild t (pk w) = e
  | .mk c a l k m, h => by
    simp only [Exc.recv, Bool.and_eq_true, Option.isNone_iff_eq_none] at h
    obtain ⟨⟨hl, hk⟩, hm⟩ := h
    obtain ⟨m', hw, hp⟩ := wrapMems_recv m hm
    subst hl
    cases k with
    | remote t =>
      exact ⟨.mk c a none (.remote t) m', t, by simp [wrapWith, wrapText, hw], rfl,
        by simp [pk, rebuild, hp]⟩
    | none => simp at hk
    | other _ => simp at hk
theorem wrapMems_recv : ∀ m : Mems, m.recv = true → ∃ m', wrapMems F p m = some m' ∧ pkMems m' = m
  | .nil, _ => ⟨.nil, by simp [wrapMems], by simp [pkMems]⟩
  | .val v r, h => by
    simp only [Mems.recv] at h
    obtain ⟨r', hw, hp⟩ := wrapMems_recv r h
    exact ⟨.val v r', by simp [wrapMems, hw], by simp [pkMems, hp]⟩
  | .exc e r, h => by
    simp only [Mems.recv, Bool.and_eq_true] at h
    obtain ⟨r', hw, hp⟩ := wrapMems_recv r h.2
    obtain ⟨w, t, hw2, _, hp2⟩ := wrap_recv e h.1
    exact ⟨.rem w t r', by simp [wrapMems, hw, hw2], by simp [pkMems, hp, hp2]⟩
  | .rem _ _ _, h => by simp [Mems.recv] at h
end

/-- a received exception that is only forwarded comes out of the next hop unchanged -/
theorem hop_recv (e : Exc) (h : e.recv = true) : hop F p e = some e := by
  obtain ⟨w, t, hw, _, hp⟩ := wrap_recv F p e h
  simp [hop, hopWith, hw, hp]

/-- a received exception that is raised again (own text `own`) and wrapped in a process with
    prefix `p`: only the top-level text changes, to `p ++ format(...)` -/
theorem hop_reraised (c : Nat) (a : List Nat) (t : Text) (m : Mems) (hm : m.recv = true) (own : Text) :
    hop F p ((Exc.mk c a none (.remote t) m).raised own)
      = some (.mk c a none (.remote (p ++ fmtChain F own (.remote t))) m) := by
  obtain ⟨m', hw, hp⟩ := wrapMems_recv F p m hm
  simp [hop, hopWith, Exc.raised, wrapWith, wrapText, hw, pk, rebuild, hp]

mutual
theorem pk_sent : ∀ e : Exc, e.sent = true → ∀ t, (rebuild t (pk e)).recv = true
  | .mk c a l k m, h, t => by
    simp only [Exc.sent] at h
    simp [pk, rebuild, Exc.recv, pkMems_sent m h]
theorem pkMems_sent : ∀ m : Mems, m.sent = true → (pkMems m).recv = true
  | .nil, _ => by simp [pkMems, Mems.recv]
  | .val v r, h => by
    simp only [Mems.sent] at h
    simp [pkMems, Mems.recv, pkMems_sent r h]
  | .exc _ _, h => by simp [Mems.sent] at h
  | .rem e t r, h => by
    simp only [Mems.sent, Bool.and_eq_true] at h
    simp [pkMems, Mems.recv, pkMems_sent r h.2, pk_sent e h.1 t]
end

mutual
/-- wrapping an exception whose nested exceptions all carry tracebacks succeeds, whatever the
    `tb` argument, provided the text itself is defined -/
theorem wrap_ok : ∀ (e : Exc) (ar : TbArg), e.mem.ok = true → ∀ t, wrapText F p e.live e.cause ar = some t →
    ∃ w, wrapWith F p ar e = some (w, t) ∧ w.sent = true ∧ w.cls = e.cls ∧ w.args = e.args
  | .mk c a l k m, ar, h, t, ht => by
    simp only [Exc.mem] at h
    simp only [Exc.live, Exc.cause] at ht
    obtain ⟨m', hw, hs⟩ := wrapMems_ok m h
    exact ⟨.mk c a l k m', by simp [wrapWith, ht, hw], by simp [Exc.sent, hs], rfl, rfl⟩
theorem wrapMems_ok : ∀ m : Mems, m.ok = true → ∃ m', wrapMems F p m = some m' ∧ m'.sent = true
  | .nil, _ => ⟨.nil, by simp [wrapMems], by simp [Mems.sent]⟩
  | .val v r, h => by
    simp only [Mems.ok] at h
    obtain ⟨r', hw, hs⟩ := wrapMems_ok r h
    exact ⟨.val v r', by simp [wrapMems, hw], by simp [Mems.sent, hs]⟩
  | .rem e t r, h => by
    simp only [Mems.ok, Bool.and_eq_true] at h
    obtain ⟨r', hw, hs⟩ := wrapMems_ok r h.2
    exact ⟨.rem e t r', by simp [wrapMems, hw], by simp [Mems.sent, hs, h.1]⟩
  | .exc (.mk c a l k m) r, h => by
    simp only [Mems.ok, Exc.ok, Bool.and_eq_true] at h
    obtain ⟨r', hw, hs⟩ := wrapMems_ok r h.2
    have ht : ∃ t, wrapText F p l k .dflt = some t := by
      cases l with
      | some own => exact ⟨_, rfl⟩
      | none =>
        cases k with
        | remote t => exact ⟨t, rfl⟩
        | none => simp at h
        | other _ => simp at h
    obtain ⟨t, ht⟩ := ht
    obtain ⟨w, hw2, hs2, _, _⟩ := wrap_ok (.mk c a l k m) .dflt h.1.2 t ht
    exact ⟨.rem w t r', by simp [wrapMems, hw, hw2], by simp [Mems.sent, hs, hs2]⟩
end

theorem ok_mem (e : Exc) (h : e.ok = true) : e.mem.ok = true := by
  cases e with
  | mk c a l k m => simp only [Exc.ok, Bool.and_eq_true] at h; exact h.2

/-! ### the specification relation -/

mutual
/-- `e'` is a faithful received image of `e` with remote text `t`: same class, same arguments,
    no live traceback, `is_remote_exception`, `get_remote_traceback = t`, and the nested
    results are faithful images (`ImgMems`) -/
def ImgT : Exc → Text → Exc → Prop
  | .mk c a _ _ m, t, e' =>
    e'.cls = c ∧ e'.args = a ∧ e'.live = none ∧ e'.cause = .remote t ∧ ImgMems m e'.mem
/-- entry by entry: a plain value is the same value; a `RemoteException(e)` holding text `t` has
    become an image of `e` with text exactly `t`; a bare exception object has become an image
    with the text `RemoteException.__init__` computes for it (prefix ++ its formatted traceback,
    or the remote text it already carried) -/
def ImgMems : Mems → Mems → Prop
  | .nil, m' => m' = .nil
  | .val v r, m' => ∃ r', m' = .val v r' ∧ ImgMems r r'
  | .exc e r, m' => ∃ e' r' t, m' = .exc e' r' ∧ wrapText F p e.live e.cause .dflt = some t ∧
      ImgT e t e' ∧ ImgMems r r'
  | .rem e t r, m' => ∃ e' r', m' = .exc e' r' ∧ ImgT e t e' ∧ ImgMems r r'
end

mutual
theorem img_sent : ∀ e : Exc, e.sent = true → ∀ t, ImgT F p e t (rebuild t (pk e))
  | .mk c a l k m, h, t => by
    simp only [Exc.sent] at h
    simp only [ImgT, pk, rebuild, Exc.cls, Exc.args, Exc.live, Exc.cause, Exc.mem, true_and]
    exact imgMems_sent m h
theorem imgMems_sent : ∀ m : Mems, m.sent = true → ImgMems F p m (pkMems m)
  | .nil, _ => by simp [ImgMems, pkMems]
  | .val v r, h => by
    simp only [Mems.sent] at h
    simp only [ImgMems, pkMems]
    exact ⟨_, rfl, imgMems_sent r h⟩
  | .exc _ _, h => by simp [Mems.sent] at h
  | .rem e t r, h => by
    simp only [Mems.sent, Bool.and_eq_true] at h
    simp only [ImgMems, pkMems]
    exact ⟨_, _, rfl, img_sent e h.1 t, imgMems_sent r h.2⟩
end

mutual
theorem img_wrap : ∀ (e : Exc) (ar : TbArg), e.mem.ok = true → ∀ w t, wrapWith F p ar e = some (w, t) →
    wrapText F p e.live e.cause ar = some t ∧ ImgT F p e t (rebuild t (pk w))
  | .mk c a l k m, ar, h, w, t, hw => by
    simp only [Exc.mem] at h
    simp only [wrapWith] at hw
    split at hw
    · rename_i t0 m' ht hm
      simp only [Option.some.injEq, Prod.mk.injEq] at hw
      obtain ⟨rfl, rfl⟩ := hw
      refine ⟨ht, ?_⟩
      simp only [ImgT, pk, rebuild, Exc.cls, Exc.args, Exc.live, Exc.cause, Exc.mem, true_and]
      exact imgMems_wrap m h m' hm
    · simp at hw
theorem imgMems_wrap : ∀ m : Mems, m.ok = true → ∀ m', wrapMems F p m = some m' → ImgMems F p m (pkMems m')
  | .nil, _, m', hw => by
    simp only [wrapMems, Option.some.injEq] at hw
    subst hw
    simp [ImgMems, pkMems]
  | .val v r, h, m', hw => by
    simp only [Mems.ok] at h
    simp only [wrapMems, Option.map_eq_some_iff] at hw
    obtain ⟨r', hr, rfl⟩ := hw
    simp only [ImgMems, pkMems]
    exact ⟨_, rfl, imgMems_wrap r h r' hr⟩
  | .rem e t r, h, m', hw => by
    simp only [Mems.ok, Bool.and_eq_true] at h
    simp only [wrapMems, Option.map_eq_some_iff] at hw
    obtain ⟨r', hr, rfl⟩ := hw
    simp only [ImgMems, pkMems]
    exact ⟨_, _, rfl, img_sent F p e h.1 t, imgMems_wrap r h.2 r' hr⟩
  | .exc e r, h, m', hw => by
    simp only [Mems.ok, Bool.and_eq_true] at h
    simp only [wrapMems] at hw
    split at hw
    · rename_i w t r' hw2 hr
      simp only [Option.some.injEq] at hw
      subst hw
      simp only [ImgMems, pkMems]
      obtain ⟨ht, hi⟩ := img_wrap e .dflt (ok_mem e h.1) w t hw2
      exact ⟨_, _, t, rfl, ht, hi, imgMems_wrap r h.2 r' hr⟩
    · simp at hw
end

/-- the text of the default branch is defined for an exception that carries a traceback -/
theorem wrapText_ok (e : Exc) (h : e.ok = true) : ∃ t, wrapText F p e.live e.cause .dflt = some t := by
  cases e with
  | mk c a l k m =>
    simp only [Exc.ok, Bool.and_eq_true] at h
    cases l with
    | some own => exact ⟨_, rfl⟩
    | none =>
      cases k with
      | remote t => exact ⟨t, rfl⟩
      | none => simp at h
      | other _ => simp at h

end RemoteExc
