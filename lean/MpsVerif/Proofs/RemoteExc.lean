import MpsVerif.Model.RemoteExc
/-!
# Lemmas about the `RemoteException` model

* `wrap_recv` / `hop_recv`   : a received exception that is only forwarded is a fixed point of a hop;
* `hop_reraised`             : raising it again before the next hop only extends the top-level text;
* `wrap_ok` / `pk_sent`      : the first hop of an exception that carries tracebacks succeeds and
                               yields a received exception;
* `Img`                      : the specification relation "faithful received image", and `hop_img`.
-/
namespace RemoteExc

deriving instance DecidableEq for Exc, Mems

variable (F : Fmt) (p : Text)

mutual
theorem wrap_recv : ∀ e : Exc, e.recv = true →
    ∃ w t, wrapWith F p .dflt e = some (w, t) ∧ e.remoteTb = some t ∧ rebuild t (pk w) = e
  | .mk c a l k m, h => by
    simp only [Exc.recv, Bool.and_eq_true, Option.isNone_iff_eq_none] at h
    obtain ⟨⟨hl, hk⟩, hm⟩ := h
    obtain ⟨m', hw, hp⟩ := wrapMems_recv m hm
    subst hl
    cases k with
    | remote t =>
      exact ⟨.mk c a none (.remote t) m', t, by simp [wrapWith, wrapText, hw], rfl,
        by simp [pk, rebuild, hp]⟩
    | none => simp at hk
    | other _ => simp at hk
theorem wrapMems_recv : ∀ m : Mems, m.recv = true → ∃ m', wrapMems F p m = some m' ∧ pkMems m' = m
  | .nil, _ => ⟨.nil, by simp [wrapMems], by simp [pkMems]⟩
  | .val v r, h => by
    simp only [Mems.recv] at h
    obtain ⟨r', hw, hp⟩ := wrapMems_recv r h
    exact ⟨.val v r', by simp [wrapMems, hw], by simp [pkMems, hp]⟩
  | .exc e r, h => by
    simp only [Mems.recv, Bool.and_eq_true] at h
    obtain ⟨r', hw, hp⟩ := wrapMems_recv r h.2
    obtain ⟨w, t, hw2, _, hp2⟩ := wrap_recv e h.1
    exact ⟨.rem w t r', by simp [wrapMems, hw, hw2], by simp [pkMems, hp, hp2]⟩
  | .rem _ _ _, h => by simp [Mems.recv] at h
end

/-- a received exception that is only forwarded comes out of the next hop unchanged -/
theorem hop_recv (e : Exc) (h : e.recv = true) : hop F p e = some e := by
  obtain ⟨w, t, hw, _, hp⟩ := wrap_recv F p e h
  simp [hop, hopWith, hw, hp]

/-- a received exception that is raised again (own text `own`) and wrapped in a process with
    prefix `p`: only the top-level text changes, to `p ++ format(...)` -/
theorem hop_reraised (c : Nat) (a : List Nat) (t : Text) (m : Mems) (hm : m.recv = true) (own : Text) :
    hop F p ((Exc.mk c a none (.remote t) m).raised own)
      = some (.mk c a none (.remote (p ++ fmtChain F own (.remote t))) m) := by
  obtain ⟨m', hw, hp⟩ := wrapMems_recv F p m hm
  simp [hop, hopWith, Exc.raised, wrapWith, wrapText, hw, pk, rebuild, hp]

mutual
theorem pk_sent : ∀ e : Exc, e.sent = true → ∀ t, (rebuild t (pk e)).recv = true
  | .mk c a l k m, h, t => by
    simp only [Exc.sent] at h
    simp [pk, rebuild, Exc.recv, pkMems_sent m h]
theorem pkMems_sent : ∀ m : Mems, m.sent = true → (pkMems m).recv = true
  | .nil, _ => by simp [pkMems, Mems.recv]
  | .val v r, h => by
    simp only [Mems.sent] at h
    simp [pkMems, Mems.recv, pkMems_sent r h]
  | .exc _ _, h => by simp [Mems.sent] at h
  | .rem e t r, h => by
    simp only [Mems.sent, Bool.and_eq_true] at h
    simp [pkMems, Mems.recv, pkMems_sent r h.2, pk_sent e h.1 t]
end

mutual
/-- wrapping an exception whose nested exceptions all carry tracebacks succeeds, whatever the
    `tb` argument, provided the text itself is defined -/
theorem wrap_ok : ∀ (e : Exc) (ar : TbArg), e.mem.ok = true → ∀ t, wrapText F p e.live e.cause ar = some t →
    ∃ w, wrapWith F p ar e = some (w, t) ∧ w.sent = true ∧ w.cls = e.cls ∧ w.args = e.args
  | .mk c a l k m, ar, h, t, ht => by
    simp only [Exc.mem] at h
    simp only [Exc.live, Exc.cause] at ht
    obtain ⟨m', hw, hs⟩ := wrapMems_ok m h
    exact ⟨.mk c a l k m', by simp [wrapWith, ht, hw], by simp [Exc.sent, hs], rfl, rfl⟩
theorem wrapMems_ok : ∀ m : Mems, m.ok = true → ∃ m', wrapMems F p m = some m' ∧ m'.sent = true
  | .nil, _ => ⟨.nil, by simp [wrapMems], by simp [Mems.sent]⟩
  | .val v r, h => by
    simp only [Mems.ok] at h
    obtain ⟨r', hw, hs⟩ := wrapMems_ok r h
    exact ⟨.val v r', by simp [wrapMems, hw], by simp [Mems.sent, hs]⟩
  | .rem e t r, h => by
    simp only [Mems.ok, Bool.and_eq_true] at h
    obtain ⟨r', hw, hs⟩ := wrapMems_ok r h.2
    exact ⟨.rem e t r', by simp [wrapMems, hw], by simp [Mems.sent, hs, h.1]⟩
  | .exc (.mk c a l k m) r, h => by
    simp only [Mems.ok, Exc.ok, Bool.and_eq_true] at h
    obtain ⟨r', hw, hs⟩ := wrapMems_ok r h.2
    have ht : ∃ t, wrapText F p l k .dflt = some t := by
      cases l with
      | some own => exact ⟨_, rfl⟩
      | none =>
        cases k with
        | remote t => exact ⟨t, rfl⟩
        | none => simp at h
        | other _ => simp at h
    obtain ⟨t, ht⟩ := ht
    obtain ⟨w, hw2, hs2, _, _⟩ := wrap_ok (.mk c a l k m) .dflt h.1.2 t ht
    exact ⟨.rem w t r', by simp [wrapMems, hw, hw2], by simp [Mems.sent, hs, hs2]⟩
end

theorem ok_mem (e : Exc) (h : e.ok = true) : e.mem.ok = true := by
  cases e with
  | mk c a l k m => simp only [Exc.ok, Bool.and_eq_true] at h; exact h.2

/-! ### the specification relation -/

mutual
/-- `e'` is a faithful received image of `e` with remote text `t`: same class, same arguments,
    no live traceback, `is_remote_exception`, `get_remote_traceback = t`, and the nested
    results are faithful images (`ImgMems`) -/
def ImgT : Exc → Text → Exc → Prop
  | .mk c a _ _ m, t, e' =>
    e'.cls = c ∧ e'.args = a ∧ e'.live = none ∧ e'.cause = .remote t ∧ ImgMems m e'.mem
/-- entry by entry: a plain value is the same value; a `RemoteException(e)` holding text `t` has
    become an image of `e` with text exactly `t`; a bare exception object has become an image
    with the text `RemoteException.__init__` computes for it (prefix ++ its formatted traceback,
    or the remote text it already carried) -/
def ImgMems : Mems → Mems → Prop
  | .nil, m' => m' = .nil
  | .val v r, m' => ∃ r', m' = .val v r' ∧ ImgMems r r'
  | .exc e r, m' => ∃ e' r' t, m' = .exc e' r' ∧ wrapText F p e.live e.cause .dflt = some t ∧
      ImgT e t e' ∧ ImgMems r r'
  | .rem e t r, m' => ∃ e' r', m' = .exc e' r' ∧ ImgT e t e' ∧ ImgMems r r'
end

mutual
theorem img_sent : ∀ e : Exc, e.sent = true → ∀ t, ImgT F p e t (rebuild t (pk e))
  | .mk c a l k m, h, t => by
    simp only [Exc.sent] at h
    simp only [ImgT, pk, rebuild, Exc.cls, Exc.args, Exc.live, Exc.cause, Exc.mem, true_and]
    exact imgMems_sent m h
theorem imgMems_sent : ∀ m : Mems, m.sent = true → ImgMems F p m (pkMems m)
  | .nil, _ => by simp [ImgMems, pkMems]
  | .val v r, h => by
    simp only [Mems.sent] at h
    simp only [ImgMems, pkMems]
    exact ⟨_, rfl, imgMems_sent r h⟩
  | .exc _ _, h => by simp [Mems.sent] at h
  | .rem e t r, h => by
    simp only [Mems.sent, Bool.and_eq_true] at h
    simp only [ImgMems, pkMems]
    exact ⟨_, _, rfl, img_sent e h.1 t, imgMems_sent r h.2⟩
end

mutual
theorem img_wrap : ∀ (e : Exc) (ar : TbArg), e.mem.ok = true → ∀ w t, wrapWith F p ar e = some (w, t) →
    wrapText F p e.live e.cause ar = some t ∧ ImgT F p e t (rebuild t (pk w))
  | .mk c a l k m, ar, h, w, t, hw => by
    simp only [Exc.mem] at h
    simp only [wrapWith] at hw
    split at hw
    · rename_i t0 m' ht hm
      simp only [Option.some.injEq, Prod.mk.injEq] at hw
      obtain ⟨rfl, rfl⟩ := hw
      refine ⟨ht, ?_⟩
      simp only [ImgT, pk, rebuild, Exc.cls, Exc.args, Exc.live, Exc.cause, Exc.mem, true_and]
      exact imgMems_wrap m h m' hm
    · simp at hw
theorem imgMems_wrap : ∀ m : Mems, m.ok = true → ∀ m', wrapMems F p m = some m' → ImgMems F p m (pkMems m')
  | .nil, _, m', hw => by
    simp only [wrapMems, Option.some.injEq] at hw
    subst hw
    simp [ImgMems, pkMems]
  | .val v r, h, m', hw => by
    simp only [Mems.ok] at h
    simp only [wrapMems, Option.map_eq_some_iff] at hw
    obtain ⟨r', hr, rfl⟩ := hw
    simp only [ImgMems, pkMems]
    exact ⟨_, rfl, imgMems_wrap r h r' hr⟩
  | .rem e t r, h, m', hw => by
    simp only [Mems.ok, Bool.and_eq_true] at h
    simp only [wrapMems, Option.map_eq_some_iff] at hw
    obtain ⟨r', hr, rfl⟩ := hw
    simp only [ImgMems, pkMems]
    exact ⟨_, _, rfl, img_sent F p e h.1 t, imgMems_wrap r h.2 r' hr⟩
  | .exc e r, h, m', hw => by
    simp only [Mems.ok, Bool.and_eq_true] at h
    simp only [wrapMems] at hw
    split at hw
    · rename_i w t r' hw2 hr
      simp only [Option.some.injEq] at hw
      subst hw
      simp only [ImgMems, pkMems]
      obtain ⟨ht, hi⟩ := img_wrap e .dflt (ok_mem e h.1) w t hw2
      exact ⟨_, _, t, rfl, ht, hi, imgMems_wrap r h.2 r' hr⟩
    · simp at hw
end

/-- the text of the default branch is defined for an exception that carries a traceback -/
theorem wrapText_ok (e : Exc) (h : e.ok = true) : ∃ t, wrapText F p e.live e.cause .dflt = some t := by
  cases e with
  | mk c a l k m =>
    simp only [Exc.ok, Bool.and_eq_true] at h
    cases l with
    | some own => exact ⟨_, rfl⟩
    | none =>
      cases k with
      | remote t => exact ⟨t, rfl⟩
      | none => simp at h
      | other _ => simp at h

/-! ### one hop and many hops -/

/-- the first hop of an exception whose nested exceptions carry tracebacks: if the text is
    defined the hop succeeds, yields a received exception, and that is a faithful image -/
theorem hop_first (e : Exc) (ar : TbArg) (hm : e.mem.ok = true) (t : Text)
    (ht : wrapText F p e.live e.cause ar = some t) :
    ∃ e1, hopWith F p ar e = some e1 ∧ e1.recv = true ∧ ImgT F p e t e1 := by
  obtain ⟨w, hw, hs, _, _⟩ := wrap_ok F p e ar hm t ht
  refine ⟨rebuild t (pk w), by simp [hopWith, hw], pk_sent w hs t, ?_⟩
  exact (img_wrap F p e ar hm w t hw).2

theorem recv_shape (e : Exc) (h : e.recv = true) :
    ∃ c a t m, e = .mk c a none (.remote t) m ∧ m.recv = true := by
  cases e with
  | mk c a l k m =>
    simp only [Exc.recv, Bool.and_eq_true, Option.isNone_iff_eq_none] at h
    obtain ⟨⟨rfl, hk⟩, hm⟩ := h
    cases k with
    | remote t => exact ⟨c, a, t, m, rfl, hm⟩
    | none => simp at hk
    | other _ => simp at hk

theorem infix_fmt_remote (own t : Text) : t <:+: p ++ fmtChain F own (.remote t) :=
  ⟨p ++ F.rtbHead, F.rtbTail ++ F.causeSep ++ own, by simp [fmtChain, List.append_assoc]⟩

/-- any further hops of a received exception: everything but the top-level text stays the same;
    the text only grows around the old one, and stays identical when no hop raises it again -/
theorem run_recv (c : Nat) (a : List Nat) (m : Mems) (hm : m.recv = true) :
    ∀ (hs : List Hop) (t : Text), ∃ t', run F (.mk c a none (.remote t) m) hs = some (.mk c a none (.remote t') m)
      ∧ t <:+: t' ∧ ((∀ h ∈ hs, h.reraise = none) → t' = t) := by
  intro hs
  induction hs with
  | nil => intro t; exact ⟨t, rfl, List.infix_refl _, fun _ => rfl⟩
  | cons h hs ih =>
    intro t
    cases hr : h.reraise with
    | none =>
      obtain ⟨t', h1, h2, h3⟩ := ih t
      refine ⟨t', ?_, h2, fun hall => h3 (fun x hx => hall x (List.mem_cons_of_mem _ hx))⟩
      have : step F (.mk c a none (.remote t) m) h = some (.mk c a none (.remote t) m) := by
        simp only [step, hr]
        exact hop_recv F h.proc _ (by simp [Exc.recv, hm])
      simp only [run, Core.run_cons, this, Option.bind_some] at h1 ⊢
      exact h1
    | some own =>
      obtain ⟨t', h1, h2, _⟩ := ih (h.proc ++ fmtChain F own (.remote t))
      refine ⟨t', ?_, List.IsInfix.trans (infix_fmt_remote F h.proc own t) h2, ?_⟩
      · have : step F (.mk c a none (.remote t) m) h
            = some (.mk c a none (.remote (h.proc ++ fmtChain F own (.remote t))) m) := by
          simp only [step, hr]
          exact hop_reraised F h.proc c a t m hm own
        simp only [run, Core.run_cons, this, Option.bind_some] at h1 ⊢
        exact h1
      · intro hall
        have := hall h (List.mem_cons_self ..)
        simp [hr] at this

/-- `ImgT` only constrains the top-level text through its `t` -/
theorem imgT_retext (e : Exc) (t t' : Text) (c : Nat) (a : List Nat) (m : Mems)
    (h : ImgT F p e t (.mk c a none (.remote t) m)) : ImgT F p e t' (.mk c a none (.remote t') m) := by
  cases e with
  | mk c0 a0 l k m0 =>
    simp only [ImgT, Exc.cls, Exc.args, Exc.live, Exc.cause, Exc.mem, true_and] at h ⊢
    exact ⟨h.1, h.2.1, h.2.2⟩

/-- the exception a hop wraps: the holder's exception, possibly raised again first -/
def Hop.pre (h : Hop) (e : Exc) : Exc := match h.reraise with | none => e | some own => e.raised own

theorem step_eq (e : Exc) (h : Hop) : step F e h = hop F h.proc (h.pre e) := rfl

theorem ok_of_live (e : Exc) (own : Text) (hl : e.live = some own) (hn : e.mem.ok = true) : e.ok = true := by
  cases e with
  | mk c a l k m =>
    simp only [Exc.live] at hl
    simp only [Exc.mem] at hn
    simp [Exc.ok, hl, hn]

theorem pre_ok (e : Exc) (h : Hop) (hok : e.ok = true) : (h.pre e).ok = true := by
  cases e with
  | mk c a l k m =>
    simp only [Hop.pre]
    cases h.reraise with
    | none => exact hok
    | some own =>
      simp only [Exc.ok, Bool.and_eq_true] at hok
      simp [Exc.raised, Exc.ok, hok.2]

theorem run_cons_eq (e e1 : Exc) (h : Hop) (hs : List Hop) (h1 : step F e h = some e1) :
    run F e (h :: hs) = run F e1 hs := by
  simp [run, Core.run_cons, h1]

/-- the first hop of an exception that carries tracebacks -/
theorem step_first (e : Exc) (hok : e.ok = true) (h : Hop) :
    ∃ c a t m, step F e h = some (.mk c a none (.remote t) m) ∧ m.recv = true ∧
      wrapText F h.proc (h.pre e).live (h.pre e).cause .dflt = some t ∧
      ImgT F h.proc (h.pre e) t (.mk c a none (.remote t) m) := by
  have hok0 := pre_ok e h hok
  obtain ⟨t, ht⟩ := wrapText_ok F h.proc (h.pre e) hok0
  obtain ⟨e1, h1, hr, hi⟩ := hop_first F h.proc (h.pre e) .dflt (ok_mem _ hok0) t ht
  obtain ⟨c, a, t1, m, rfl, hm⟩ := recv_shape e1 hr
  have : t1 = t := by
    cases hpe : h.pre e with
    | mk c0 a0 l k m0 =>
      rw [hpe] at hi
      simp only [ImgT, Exc.cause, Cause.remote.injEq] at hi
      exact hi.2.2.2.1
  subst this
  exact ⟨c, a, t1, m, h1, hm, ht, hi⟩

end RemoteExc
