import MpsVerif.Proofs.ServletEns
import MpsVerif.Proofs.ServletSwitch
/-!
# The node contract on histories, per node kind, and its composition along a sequence

`Contract o recv sentG`: every message put on `q_out` is `(u, y)` for a received `(u, x)` with
`y ∈ o x` (an allowed outcome of that request's own input), and no received message is answered
more often than it was received.  `Complete`: sent = received as multisets of (uid, input).
-/
namespace Servlet

structure Contract (o : Val → List Val) (recv : List Msg) (sentG : List GMsg) : Prop where
  own  : ∀ t ∈ sentG, gkey t ∈ recv ∧ t.2.2 ∈ o t.2.1
  once : ∀ m, (sentG.map gkey).count m ≤ recv.count m

def Complete (recv : List Msg) (sentG : List GMsg) : Prop := (sentG.map gkey).Perm recv

theorem nodup_of_nodup_fst {l : List Msg} (h : (l.map (·.1)).Nodup) : l.Nodup := by
  rw [List.nodup_iff_count] at h ⊢
  intro a
  exact Nat.le_trans List.count_le_count_map (h a.1)

theorem nodup_fst_of_count_le (l l' : List Msg) (h : ∀ m, l.count m ≤ l'.count m)
    (hn : (l'.map (·.1)).Nodup) : (l.map (·.1)).Nodup := by
  induction l with
  | nil => simp
  | cons a l1 ih =>
    have h1 : ∀ m, l1.count m ≤ l'.count m := fun m => Nat.le_trans List.count_le_count_cons (h m)
    rw [List.map_cons, List.nodup_cons]
    refine ⟨?_, ih h1⟩
    intro hmem
    obtain ⟨b, hb, hab⟩ := List.mem_map.mp hmem
    have ha' : a ∈ l' := by
      have := h a; rw [List.count_cons_self] at this
      exact List.count_pos_iff.mp (by omega)
    have hb' : b ∈ l' := by
      have := h1 b; have := List.count_pos_iff.mpr hb
      exact List.count_pos_iff.mp (by omega)
    have hba : b = a := by
      have : a.2 = b.2 := fst_unique hn (u := a.1) (x := a.2) (y := b.2) ha' (by
        have : (a.1, b.2) = b := by rw [← hab]
        rw [this]; exact hb')
      exact Prod.ext hab this.symm
    subst hba
    have h2 := h b
    rw [List.count_cons_self] at h2
    have h3 := List.count_pos_iff.mpr hb
    have h4 := (List.nodup_iff_count.mp (nodup_of_nodup_fst hn)) b
    omega

/-- with pairwise distinct uids in, at most one answer per uid out -/
theorem Contract.sent_nodup {o : Val → List Val} {recv : List Msg} {sentG : List GMsg}
    (h : Contract o recv sentG) (hn : (recv.map (·.1)).Nodup) : (sentG.map (·.1)).Nodup := by
  have := nodup_fst_of_count_le (sentG.map gkey) recv h.once hn
  simpa [List.map_map, Function.comp_def, gkey] using this

/-- … and the answer for uid `u` is an allowed outcome of THE input received under `u` -/
theorem Contract.no_crosstalk {o : Val → List Val} {recv : List Msg} {sentG : List GMsg}
    (h : Contract o recv sentG) (hn : (recv.map (·.1)).Nodup) (u : Nat) (x y : Val)
    (hx : (u, x) ∈ recv) (hy : (u, y) ∈ sentG.map gmsg) : y ∈ o x := by
  obtain ⟨t, ht, hty⟩ := List.mem_map.mp hy
  obtain ⟨h1, h2⟩ := h.own t ht
  have htu : t.1 = u := (Prod.mk.inj hty).1
  have hty' : t.2.2 = y := (Prod.mk.inj hty).2
  have : t.2.1 = x := fst_unique hn (u := u) (by rw [← htu]; exact h1) hx
  rw [← this, ← hty']; exact h2

/-- at completion every received message has its answer -/
theorem Complete.answered {recv : List Msg} {sentG : List GMsg} (h : Complete recv sentG) :
    ∀ m ∈ recv, ∃ t ∈ sentG, gkey t = m := by
  intro m hm
  have := (h.mem_iff).mpr hm
  obtain ⟨t, ht, rfl⟩ := List.mem_map.mp this
  exact ⟨t, ht, rfl⟩

/-! ## per node kind -/

theorem Wk.contract (w : WSpec) (hb : Wk.BerrsOk w) (as : List Wk.Act) (s : Wk.State)
    (hr : Core.run (Wk.step w) Wk.init as = some s) :
    Contract (wouts w) s.recv s.sentG ∧ (Wk.Quiescent s → Complete s.recv s.sentG) := by
  have h := (Wk.inv_reach w hb as s hr).1
  refine ⟨⟨?_, fun m => Wk.sent_le_recv w s h m⟩, fun hq => Wk.sent_perm_of_quiescent w s h hq⟩
  intro t ht
  refine ⟨?_, h.good t (List.mem_append_left _ ht)⟩
  have h1 := Wk.sent_le_recv w s h (gkey t)
  have h2 : 0 < (s.sentG.map gkey).count (gkey t) :=
    List.count_pos_iff.mpr (List.mem_map.mpr ⟨t, ht, rfl⟩)
  exact List.count_pos_iff.mp (by omega)

theorem Sw.contract (ms : List (Val → List Val)) (sel : Val → Nat) (as : List Sw.Act) (s : Sw.State)
    (hr : Core.run (Sw.step ms sel) Sw.init as = some s) :
    Contract (souts ms sel) s.recv s.sentG ∧ (Sw.Quiescent s → Complete s.recv s.sentG) := by
  have h := Sw.inv_run ms sel as s hr
  have hle : ∀ m, (s.sentG.map gkey).count m ≤ s.recv.count m := by
    intro m; have := h.cons m; simp only [kc] at this; omega
  refine ⟨⟨?_, hle⟩, ?_⟩
  · intro t ht
    refine ⟨?_, h.good t (List.mem_append_left _ ht)⟩
    have h2 : 0 < (s.sentG.map gkey).count (gkey t) :=
      List.count_pos_iff.mpr (List.mem_map.mpr ⟨t, ht, rfl⟩)
    have := hle (gkey t)
    exact List.count_pos_iff.mp (by omega)
  · rintro ⟨_, q2, q3⟩
    unfold Complete
    rw [List.perm_iff_count]
    intro m; have := h.cons m
    simp only [kc, q2, q3, List.map_nil, List.count_nil] at this; omega

theorem Ens.quiescent_cat {ms : List (Val → List Val)} {ff : Bool} {s : Ens.State}
    (h : Ens.Inv ms ff s) (hq : Ens.Quiescent s) : ∀ u, Ens.lookup u s.cat = none := by
  intro u
  cases hl : Ens.lookup u s.cat with
  | none => rfl
  | some e =>
    exfalso
    obtain ⟨_, _, _, a4, a5, a6, _, a8⟩ := h.cat u e hl
    obtain ⟨_, q2, q3, _⟩ := hq
    have hik : Ens.ik s = [] := by simp [Ens.ik, q2, q3]
    have := filled_of_no_hole e.ys (by
      intro i hi hc
      have := (a8 i (a4 ▸ hi)).mp hc
      rw [hik] at this; cases this)
    omega

theorem Ens.contract (ms : List (Val → List Val)) (ff : Bool) (hpos : 0 < ms.length)
    (as : List Ens.Act) (s : Ens.State) (hr : Core.run (Ens.step ms ff) Ens.init as = some s)
    (hn : (s.recv.map (·.1)).Nodup) :
    Contract (eouts ms ff) s.recv s.sentG ∧ (Ens.Quiescent s → Complete s.recv s.sentG) := by
  have h := Ens.inv_run hpos as s hr hn
  have hsn : (s.sentG.map gkey).Nodup := by
    have h1 : (s.sentG.map (·.1)).Nodup := by
      have := h.once; simp only [Ens.su, List.map_append, List.nodup_append] at this; exact this.1
    have : (s.sentG.map gkey).map (·.1) = s.sentG.map (·.1) := by simp [List.map_map, Function.comp_def, gkey]
    exact nodup_of_nodup_fst (this ▸ h1)
  have hown : ∀ t ∈ s.sentG, gkey t ∈ s.recv ∧ t.2.2 ∈ eouts ms ff t.2.1 :=
    fun t ht => h.good t (List.mem_append_left _ ht)
  refine ⟨⟨hown, ?_⟩, ?_⟩
  · intro m
    rw [hsn.count]
    split
    · rename_i hm
      obtain ⟨t, ht, rfl⟩ := List.mem_map.mp hm
      exact List.count_pos_iff.mpr (hown t ht).1
    · omega
  · intro hq
    unfold Complete
    rw [List.perm_ext_iff_of_nodup hsn (nodup_of_nodup_fst hn)]
    intro m
    constructor
    · intro hm; obtain ⟨t, ht, rfl⟩ := List.mem_map.mp hm; exact (hown t ht).1
    · intro hm
      rcases h.compl m hm with h1 | ⟨e, h1, _⟩
      · obtain ⟨_, _, _, q4⟩ := hq
        simp only [Ens.su, q4, List.append_nil, List.mem_map] at h1
        obtain ⟨t, ht, htu⟩ := h1
        have : gkey t = m := by
          have h2 := (hown t ht).1
          have : t.2.1 = m.2 := fst_unique hn (u := m.1) (by rw [← htu]; exact h2) hm
          exact Prod.ext htu this
        exact List.mem_map.mpr ⟨t, ht, this⟩
      · rw [Ens.quiescent_cat h hq] at h1; cases h1

/-! ## sequential composition: stage B reads what stage A wrote -/

/-- If `A` and `B` satisfy their contracts and `B` has received (as a multiset) only messages `A`
    has sent, then every output of `B` is an allowed outcome of the composition for the input `A`
    received under the same uid — provided the uids `A` received are pairwise distinct — and the
    proviso is passed on: the uids `B` receives are pairwise distinct too. -/
theorem seq_compose {oA oB : Val → List Val} {recvA recvB : List Msg} {sentA sentB : List GMsg}
    (hA : Contract oA recvA sentA) (hB : Contract oB recvB sentB)
    (hlink : ∀ m, recvB.count m ≤ (sentA.map gmsg).count m) (hn : (recvA.map (·.1)).Nodup) :
    (recvB.map (·.1)).Nodup ∧ (sentB.map (·.1)).Nodup ∧
    ∀ tb ∈ sentB, ∃ x, (tb.1, x) ∈ recvA ∧ tb.2.2 ∈ (oA x).flatMap oB := by
  have hsa : ((sentA.map gmsg).map (·.1)).Nodup := by
    have := hA.sent_nodup hn
    simpa [List.map_map, Function.comp_def, gmsg] using this
  have hrb := nodup_fst_of_count_le recvB (sentA.map gmsg) hlink hsa
  refine ⟨hrb, hB.sent_nodup hrb, ?_⟩
  intro tb htb
  obtain ⟨h1, h2⟩ := hB.own tb htb
  have : gkey tb ∈ sentA.map gmsg := by
    have := hlink (gkey tb); have := List.count_pos_iff.mpr h1
    exact List.count_pos_iff.mp (by omega)
  obtain ⟨ta, hta, hk⟩ := List.mem_map.mp this
  obtain ⟨h3, h4⟩ := hA.own ta hta
  refine ⟨ta.2.1, ?_, List.mem_flatMap.mpr ⟨ta.2.2, h4, ?_⟩⟩
  · have : ta.1 = tb.1 := (Prod.mk.inj hk).1
    rw [← this]; exact h3
  · have : ta.2.2 = tb.2.1 := (Prod.mk.inj hk).2
    rw [this]; exact h2

/-- completeness composes: if both stages are complete and `B` received everything `A` sent, every
    message `A` received has an answer from `B` -/
theorem seq_complete {recvA recvB : List Msg} {sentA sentB : List GMsg}
    (hA : Complete recvA sentA) (hB : Complete recvB sentB)
    (hlink : recvB.Perm (sentA.map gmsg)) :
    ∀ m ∈ recvA, ∃ tb ∈ sentB, tb.1 = m.1 := by
  intro m hm
  obtain ⟨ta, hta, hk⟩ := hA.answered m hm
  have : gmsg ta ∈ recvB := hlink.mem_iff.mpr (List.mem_map.mpr ⟨ta, hta, rfl⟩)
  obtain ⟨tb, htb, hkb⟩ := hB.answered _ this
  refine ⟨tb, htb, ?_⟩
  have h1 : tb.1 = ta.1 := (Prod.mk.inj hkb).1
  have h2 : ta.1 = m.1 := (Prod.mk.inj hk).1
  rw [h1, h2]

end Servlet
