import MpsVerif.Proofs.ServletVal
/-!
# Ensemble servlet: invariant and contract

Proviso: the uids received by the node are pairwise distinct (`(s.recv.map (·.1)).Nodup`) — what the
counter-minted request ids guarantee.  `Props/C02.lean` has the witness that the proviso is needed.
-/
namespace Servlet

/-- allowed outcomes of an ensemble node whose members have the outcome functions `ms` -/
def eouts (ms : List (Val → List Val)) (ff : Bool) (x : Val) : List Val :=
  if x.isExc then [x] else ensOuts ff (ms.map (· x))

theorem eraseIdx_perm {α : Type} (l : List α) (k : Nat) (x : α) (h : l[k]? = some x) :
    l.Perm (x :: l.eraseIdx k) := by
  induction l generalizing k with
  | nil => simp at h
  | cons y ys ih =>
    cases k with
    | zero => simp at h; subst h; simp
    | succ k =>
      simp at h
      have := ih k h
      simp only [List.eraseIdx_cons_succ]
      exact (List.Perm.cons y this).trans (List.Perm.swap x y _)

theorem fst_unique {l : List Msg} (h : (l.map (·.1)).Nodup) {u : Nat} {x y : Val}
    (hx : (u, x) ∈ l) (hy : (u, y) ∈ l) : x = y := by
  induction l with
  | nil => simp at hx
  | cons a l ih =>
    simp only [List.map_cons, List.nodup_cons, List.mem_map, not_exists, not_and] at h
    simp only [List.mem_cons] at hx hy
    rcases hx with hx | hx <;> rcases hy with hy | hy
    · rw [← hy] at hx; exact (Prod.mk.inj hx).2
    · exact absurd (by rw [← hx]) (h.1 (u, y) hy)
    · exact absurd (by rw [← hy]) (h.1 (u, x) hx)
    · exact ih h.2 hx hy

theorem perm_move {α β : Type} (f : α → β) (l r : List α) (k : Nat) (m m' : α)
    (hk : l[k]? = some m) (hf : f m' = f m) :
    ((l.eraseIdx k ++ (r ++ [m'])).map f).Perm ((l ++ r).map f) := by
  have h1 := (eraseIdx_perm l k m hk).map f
  simp only [List.map_append, List.map_cons, List.map_nil, hf]
  rw [← List.append_assoc]
  exact (List.perm_append_singleton _ _).trans (List.Perm.append_right (r.map f) h1.symm)

theorem perm_drop {α β : Type} (f : α → β) (l r : List α) (k : Nat) (m : α) (hk : r[k]? = some m) :
    ((l ++ r).map f).Perm (f m :: (l ++ r.eraseIdx k).map f) := by
  have h1 := (eraseIdx_perm r k m hk).map f
  simp only [List.map_append, List.map_cons] at h1 ⊢
  exact (List.Perm.append_left (l.map f) h1).trans List.perm_middle

namespace Ens

theorem lookup_nil (u : Nat) : lookup u [] = none := rfl

theorem lookup_cons (u a : Nat) (e : Entry) (cat : List (Nat × Entry)) :
    lookup u ((a, e) :: cat) = if a = u then some e else lookup u cat := by
  unfold lookup
  rw [List.find?_cons]
  by_cases h : a = u <;> simp [h]

theorem erase_nil (u : Nat) : erase u [] = [] := rfl

theorem erase_cons (u a : Nat) (e : Entry) (cat : List (Nat × Entry)) :
    erase u ((a, e) :: cat) = if a = u then erase u cat else (a, e) :: erase u cat := by
  unfold erase
  rw [List.filter_cons]
  by_cases h : a = u <;> simp [h]

theorem lookup_erase_self (u : Nat) (cat : List (Nat × Entry)) : lookup u (erase u cat) = none := by
  induction cat with
  | nil => rfl
  | cons a cat ih =>
    obtain ⟨a, e⟩ := a
    rw [erase_cons]
    by_cases h : a = u
    · simp [h, ih]
    · simp [h, lookup_cons, ih]

theorem lookup_erase_ne (u u' : Nat) (h : u' ≠ u) (cat : List (Nat × Entry)) :
    lookup u' (erase u cat) = lookup u' cat := by
  induction cat with
  | nil => rfl
  | cons a cat ih =>
    obtain ⟨a, e⟩ := a
    rw [erase_cons, lookup_cons]
    by_cases h1 : a = u
    · have : ¬ a = u' := by intro h2; exact h (h2 ▸ h1)
      simp [h1, ih]
      intro h3; exact absurd h3.symm h
    · by_cases h2 : a = u'
      · subst h2; simp [h, lookup_cons]
      · simp [h1, h2, lookup_cons, ih]

theorem lookup_insert_self (u : Nat) (e : Entry) (cat : List (Nat × Entry)) :
    lookup u (insert u e cat) = some e := by
  simp [insert, lookup_cons]

theorem lookup_insert_ne (u u' : Nat) (h : u' ≠ u) (e : Entry) (cat : List (Nat × Entry)) :
    lookup u' (insert u e cat) = lookup u' cat := by
  have : ¬ u = u' := fun h2 => h h2.symm
  simp [insert, lookup_cons, this, lookup_erase_ne u u' h]

/-- (member, uid) of every message inside a member or on a member's output queue -/
def ik (s : State) : List (Nat × Nat) := (s.pend ++ s.mout).map (fun m => (m.1, m.2.1))
/-- uids answered so far (put on `q_out` or about to be) -/
def su (s : State) : List Nat := (s.sentG ++ s.emitq).map (·.1)

def EntryOk (ms : List (Val → List Val)) (ff : Bool) (s : State) (u : Nat) (e : Entry) : Prop :=
  (u, e.x) ∈ s.recv ∧ e.x.isExc = false ∧ u ∉ su s ∧ e.ys.length = ms.length ∧ e.n = filled e.ys ∧
  e.n < ms.length ∧
  (∀ i y, e.ys[i]? = some (some y) → y ∈ (ms.getD i (fun _ => [])) e.x ∧ (ff = true → y.isExc = false)) ∧
  (∀ i, i < ms.length → (e.ys[i]? = some .none ↔ (i, u) ∈ ik s))

structure Inv (ms : List (Val → List Val)) (ff : Bool) (s : State) : Prop where
  good : ∀ t ∈ s.sentG ++ s.emitq, gkey t ∈ s.recv ∧ t.2.2 ∈ eouts ms ff t.2.1
  once : (su s).Nodup
  cat : ∀ u e, lookup u s.cat = some e → EntryOk ms ff s u e
  pend : ∀ m ∈ s.pend, m.1 < ms.length ∧ m.2 ∈ s.recv ∧ m.2.2.isExc = false
  mout : ∀ m ∈ s.mout, m.1 < ms.length ∧
    ∃ x, (m.2.1, x) ∈ s.recv ∧ x.isExc = false ∧ m.2.2 ∈ (ms.getD m.1 (fun _ => [])) x
  iknd : (ik s).Nodup
  compl : ∀ m ∈ s.recv, m.1 ∈ su s ∨ ∃ e, lookup m.1 s.cat = some e ∧ e.x = m.2

theorem inv_init (ms : List (Val → List Val)) (ff : Bool) : Inv ms ff init := by
  constructor <;> simp [init, su, ik, lookup]

theorem entryOk_mono {ms : List (Val → List Val)} {ff : Bool} {s s' : State} {u : Nat} {e : Entry}
    (h : EntryOk ms ff s u e) (h1 : ∀ m ∈ s.recv, m ∈ s'.recv) (h2 : u ∉ su s → u ∉ su s')
    (h3 : ∀ i, (i, u) ∈ ik s' ↔ (i, u) ∈ ik s) : EntryOk ms ff s' u e := by
  obtain ⟨a1, a2, a3, a4, a5, a6, a7, a8⟩ := h
  exact ⟨h1 _ a1, a2, h2 a3, a4, a5, a6, a7, fun i hi => (a8 i hi).trans (h3 i).symm⟩

theorem su_sub_recv {ms : List (Val → List Val)} {ff : Bool} {s : State} (h : Inv ms ff s) :
    ∀ u ∈ su s, u ∈ s.recv.map (·.1) := by
  intro u hu
  simp only [su, List.mem_map] at hu ⊢
  obtain ⟨t, ht, rfl⟩ := hu
  exact ⟨gkey t, (h.good t ht).1, rfl⟩

theorem ik_sub_recv {ms : List (Val → List Val)} {ff : Bool} {s : State} (h : Inv ms ff s) :
    ∀ k ∈ ik s, k.1 < ms.length ∧ k.2 ∈ s.recv.map (·.1) := by
  intro k hk
  simp only [ik, List.mem_map, List.mem_append] at hk
  obtain ⟨m, hm | hm, rfl⟩ := hk
  · obtain ⟨a, b, _⟩ := h.pend m hm
    exact ⟨a, List.mem_map.mpr ⟨m.2, b, rfl⟩⟩
  · obtain ⟨a, x, b, _⟩ := h.mout m hm
    exact ⟨a, List.mem_map.mpr ⟨(m.2.1, x), b, rfl⟩⟩

theorem nodup_snoc {l : List Msg} {m : Msg} (h : ((l ++ [m]).map (·.1)).Nodup) :
    (l.map (·.1)).Nodup ∧ m.1 ∉ l.map (·.1) := by
  rw [List.map_append, List.nodup_append] at h
  refine ⟨h.1, fun hm => ?_⟩
  exact h.2.2 _ hm m.1 (by simp) rfl

variable {ms : List (Val → List Val)} {ff : Bool} {s : State}

theorem inv_enq_exc (h : Inv ms ff s) (u : Nat) (x : Val) (rest : List Msg) (hx : x.isExc = true)
    (hN : ((s.recv ++ [(u, x)]).map (·.1)).Nodup) :
    Inv ms ff { s with qin := rest, recv := s.recv ++ [(u, x)], emitq := s.emitq ++ [(u, x, x)] } := by
  obtain ⟨_, hfresh⟩ := nodup_snoc hN
  have hsu : u ∉ su s := fun hu => hfresh (su_sub_recv h u hu)
  have hsu' : ∀ v, v ∈ su { s with qin := rest, recv := s.recv ++ [(u, x)], emitq := s.emitq ++ [(u, x, x)] } ↔
      v ∈ su s ∨ v = u := by
    intro v; simp only [su, List.map_append, List.mem_append, List.map_cons, List.map_nil, List.mem_singleton]
    constructor
    · rintro (h1 | h1 | h1) <;> simp [h1]
    · rintro ((h1 | h1) | h1) <;> simp [h1]
  constructor
  · intro t ht
    simp only [List.mem_append, List.mem_singleton] at ht
    rcases ht with ht | ht | ht
    · exact ⟨List.mem_append_left _ (h.good t (List.mem_append_left _ ht)).1, (h.good t (List.mem_append_left _ ht)).2⟩
    · exact ⟨List.mem_append_left _ (h.good t (List.mem_append_right _ ht)).1, (h.good t (List.mem_append_right _ ht)).2⟩
    · subst ht; exact ⟨by simp [gkey], by simp [eouts, hx]⟩
  · have : su { s with qin := rest, recv := s.recv ++ [(u, x)], emitq := s.emitq ++ [(u, x, x)] } = su s ++ [u] := by
      simp [su]
    rw [this, List.nodup_append]
    refine ⟨h.once, by simp, ?_⟩
    intro a ha b hb; simp at hb; subst hb; intro hab; subst hab; exact hsu ha
  · intro v e he
    have hv := h.cat v e he
    refine entryOk_mono hv (fun m hm => List.mem_append_left _ hm) ?_ (fun i => Iff.rfl)
    intro hnv hc
    rcases (hsu' v).mp hc with h1 | h1
    · exact hnv h1
    · subst h1; exact hfresh (List.mem_map.mpr ⟨(v, e.x), hv.1, rfl⟩)
  · intro m hm; obtain ⟨a, b, c⟩ := h.pend m hm; exact ⟨a, List.mem_append_left _ b, c⟩
  · intro m hm; obtain ⟨a, y, b, c⟩ := h.mout m hm; exact ⟨a, y, List.mem_append_left _ b, c⟩
  · exact h.iknd
  · intro m hm
    simp only [List.mem_append, List.mem_singleton] at hm
    rcases hm with hm | hm
    · rcases h.compl m hm with h1 | h1
      · exact Or.inl ((hsu' _).mpr (Or.inl h1))
      · exact Or.inr h1
    · subst hm; exact Or.inl ((hsu' _).mpr (Or.inr rfl))

theorem getElem?_replicate_none (n i : Nat) (y : Val) :
    (List.replicate n (Option.none : Option Val))[i]? ≠ some (some y) := by
  simp [List.getElem?_replicate]

/-- the successor state of `enq` for a non-exception input -/
def enqNew (ms : List (Val → List Val)) (s : State) (u : Nat) (x : Val) (rest : List Msg) : State :=
  { s with qin := rest, recv := s.recv ++ [(u, x)],
           cat := insert u { x := x, ys := List.replicate ms.length .none, n := 0 } s.cat,
           pend := s.pend ++ (List.range ms.length).map (fun i => (i, (u, x))) }

theorem inv_enq_new (hpos : 0 < ms.length) (h : Inv ms ff s) (u : Nat) (x : Val) (rest : List Msg)
    (hx : x.isExc = false) (hN : ((s.recv ++ [(u, x)]).map (·.1)).Nodup) :
    Inv ms ff (enqNew ms s u x rest) := by
  obtain ⟨_, hfresh⟩ := nodup_snoc hN
  have hsu : u ∉ su s := fun hu => hfresh (su_sub_recv h u hu)
  have hikfresh : ∀ k ∈ ik s, k.2 ≠ u := fun k hk hku => hfresh (hku ▸ (ik_sub_recv h k hk).2)
  have hik' : ∀ k, k ∈ ik (enqNew ms s u x rest) ↔
      k ∈ ik s ∨ (k.2 = u ∧ k.1 < ms.length) := by
    intro k
    simp only [ik, enqNew, List.map_append, List.mem_append, List.mem_map, List.mem_range]
    constructor
    · rintro ((h1 | ⟨m, ⟨i, hi, rfl⟩, rfl⟩) | h1)
      · exact Or.inl (Or.inl h1)
      · exact Or.inr ⟨rfl, hi⟩
      · exact Or.inl (Or.inr h1)
    · rintro ((h1 | h1) | ⟨h1, h2⟩)
      · exact Or.inl (Or.inl h1)
      · exact Or.inr h1
      · exact Or.inl (Or.inr ⟨(k.1, (u, x)), ⟨k.1, h2, rfl⟩, by rw [← h1]⟩)
  constructor
  · intro t ht
    exact ⟨List.mem_append_left _ (h.good t ht).1, (h.good t ht).2⟩
  · exact h.once
  · intro v e he
    simp only [enqNew] at he
    by_cases hv : v = u
    · subst hv
      rw [lookup_insert_self] at he
      cases he
      refine ⟨by simp [enqNew], hx, hsu, by simp, by simp [filled_replicate], hpos, ?_, ?_⟩
      · intro i y hy; exact absurd hy (getElem?_replicate_none _ _ _)
      · intro i hi
        constructor
        · intro _; exact (hik' (i, v)).mpr (Or.inr ⟨rfl, hi⟩)
        · intro _; simp [List.getElem?_replicate, hi]
    · rw [lookup_insert_ne u v hv] at he
      refine entryOk_mono (h.cat v e he) (fun m hm => List.mem_append_left _ hm) id ?_
      intro i
      rw [hik']
      constructor
      · rintro (h1 | ⟨h1, _⟩)
        · exact h1
        · exact absurd h1 hv
      · exact Or.inl
  · intro m hm
    simp only [enqNew, List.mem_append, List.mem_map, List.mem_range] at hm
    rcases hm with hm | ⟨i, hi, rfl⟩
    · obtain ⟨a, b, c⟩ := h.pend m hm; exact ⟨a, List.mem_append_left _ b, c⟩
    · exact ⟨hi, by simp [enqNew], hx⟩
  · intro m hm; obtain ⟨a, y, b, c⟩ := h.mout m hm; exact ⟨a, y, List.mem_append_left _ b, c⟩
  · have hp : (ik (enqNew ms s u x rest)).Perm
        (ik s ++ (List.range ms.length).map (fun i => (i, u))) := by
      simp only [ik, enqNew, List.map_append, List.map_map, Function.comp_def, List.append_assoc]
      exact List.Perm.append_left _ List.perm_append_comm
    rw [hp.nodup_iff, List.nodup_append]
    refine ⟨h.iknd, ?_, ?_⟩
    · exact List.Pairwise.map _ (fun a b hab h => hab (Prod.mk.inj h).1) List.nodup_range
    · intro a ha b hb hab
      simp only [List.mem_map, List.mem_range] at hb
      obtain ⟨i, _, rfl⟩ := hb
      subst hab
      exact hikfresh _ ha rfl
  · intro m hm
    simp only [enqNew, List.mem_append, List.mem_singleton] at hm ⊢
    rcases hm with hm | hm
    · have hne : m.1 ≠ u := fun hmu => hfresh (hmu ▸ List.mem_map.mpr ⟨m, hm, rfl⟩)
      rcases h.compl m hm with h1 | h1
      · exact Or.inl h1
      · right; rw [lookup_insert_ne u m.1 hne]; exact h1
    · subst hm; right; exact ⟨_, lookup_insert_self _ _ _, rfl⟩

theorem inv_memberOut (h : Inv ms ff s) (k i u : Nat) (x y : Val) (hk : s.pend[k]? = some (i, (u, x)))
    (hy : y ∈ (ms.getD i (fun _ => [])) x) :
    Inv ms ff { s with pend := s.pend.eraseIdx k, mout := s.mout ++ [(i, (u, y))] } := by
  have hp : (ik { s with pend := s.pend.eraseIdx k, mout := s.mout ++ [(i, (u, y))] }).Perm (ik s) :=
    perm_move (fun m : Nat × Msg => (m.1, m.2.1)) s.pend s.mout k (i, (u, x)) (i, (u, y)) hk rfl
  have hm := h.pend _ (List.mem_of_getElem? hk)
  constructor
  · exact h.good
  · exact h.once
  · intro v e he
    exact entryOk_mono (h.cat v e he) (fun m hm => hm) id (fun j => hp.mem_iff)
  · intro m hm'; exact h.pend m (List.mem_of_mem_eraseIdx hm')
  · intro m hm'
    simp only [List.mem_append, List.mem_singleton] at hm'
    rcases hm' with hm' | hm'
    · exact h.mout m hm'
    · subst hm'; exact ⟨hm.1, x, hm.2.1, hm.2.2, hy⟩
  · exact hp.nodup_iff.mpr h.iknd
  · exact h.compl

theorem inv_emit (h : Inv ms ff s) (k : Nat) (t : GMsg) (hk : s.emitq[k]? = some t) :
    Inv ms ff { s with emitq := s.emitq.eraseIdx k, qout := s.qout ++ [gmsg t], sentG := s.sentG ++ [t] } := by
  have hp : (su { s with emitq := s.emitq.eraseIdx k, qout := s.qout ++ [gmsg t], sentG := s.sentG ++ [t] }).Perm
      (su s) := by
    have h1 := (eraseIdx_perm s.emitq k t hk).map (fun t : GMsg => t.1)
    simp only [su, List.map_append, List.map_cons, List.map_nil] at h1 ⊢
    rw [List.append_assoc]
    exact List.Perm.append_left _ h1.symm
  constructor
  · intro t' ht'
    simp only [List.mem_append, List.mem_singleton] at ht'
    rcases ht' with (ht' | ht') | ht'
    · exact h.good t' (List.mem_append_left _ ht')
    · subst ht'; exact h.good t' (List.mem_append_right _ (List.mem_of_getElem? hk))
    · exact h.good t' (List.mem_append_right _ (List.mem_of_mem_eraseIdx ht'))
  · exact hp.nodup_iff.mpr h.once
  · intro v e he
    exact entryOk_mono (h.cat v e he) (fun m hm => hm) (fun hn hc => hn (hp.mem_iff.mp hc)) (fun j => Iff.rfl)
  · exact h.pend
  · exact h.mout
  · exact h.iknd
  · intro m hm
    rcases h.compl m hm with h1 | h1
    · exact Or.inl (hp.mem_iff.mpr h1)
    · exact Or.inr h1

/-- facts shared by the four outcomes of a `deq` step -/
theorem deq_facts (h : Inv ms ff s) (k i u : Nat) (y : Val) (hk : s.mout[k]? = some (i, (u, y)))
    (s' : State) (hpend : s'.pend = s.pend) (hmout : s'.mout = s.mout.eraseIdx k) :
    (∀ a, a ∈ ik s ↔ a = (i, u) ∨ a ∈ ik s') ∧ (i, u) ∉ ik s' ∧ (ik s').Nodup := by
  have hp : (ik s).Perm ((i, u) :: ik s') := by
    have := perm_drop (fun m : Nat × Msg => (m.1, m.2.1)) s.pend s.mout k (i, (u, y)) hk
    simpa [ik, hpend, hmout] using this
  have hnd := hp.nodup_iff.mp h.iknd
  rw [List.nodup_cons] at hnd
  exact ⟨fun a => hp.mem_iff.trans List.mem_cons, hnd.1, hnd.2⟩

/-- `deq` of a late member result: the entry was removed by fail-fast, the result is ignored -/
theorem inv_deq_late (h : Inv ms ff s) (k i u : Nat) (y : Val) (hk : s.mout[k]? = some (i, (u, y)))
    (hl : lookup u s.cat = none) : Inv ms ff { s with mout := s.mout.eraseIdx k } := by
  obtain ⟨f1, f2, f3⟩ := deq_facts h k i u y hk { s with mout := s.mout.eraseIdx k } rfl rfl
  constructor
  · exact h.good
  · exact h.once
  · intro v e he
    have hv : v ≠ u := by intro hvu; subst hvu; rw [hl] at he; cases he
    refine entryOk_mono (h.cat v e he) (fun m hm => hm) id ?_
    intro j
    rw [f1]
    constructor
    · exact Or.inr
    · rintro (h1 | h1)
      · exact absurd (Prod.mk.inj h1).2 hv
      · exact h1
  · exact h.pend
  · intro m hm; exact h.mout m (List.mem_of_mem_eraseIdx hm)
  · exact f3
  · exact h.compl

/-- what is known about the slot a `deq` step fills -/
theorem deq_slot (h : Inv ms ff s) (hN : (s.recv.map (·.1)).Nodup) (k i u : Nat) (y : Val)
    (hk : s.mout[k]? = some (i, (u, y))) (e : Entry) (hl : lookup u s.cat = some e) :
    i < ms.length ∧ y ∈ (ms.getD i (fun _ => [])) e.x ∧ e.ys[i]? = some .none ∧
    filled (e.ys.set i (some y)) = e.n + 1 ∧ (e.ys.set i (some y)).length = ms.length ∧
    (∀ j o, (e.ys.set i (some y))[j]? = some (some o) →
      o ∈ (ms.getD j (fun _ => [])) e.x ∧ (o = y ∨ (ff = true → o.isExc = false))) := by
  obtain ⟨a1, a2, a3, a4, a5, a6, a7, a8⟩ := h.cat u e hl
  obtain ⟨b1, x', b2, _, b4⟩ := h.mout _ (List.mem_of_getElem? hk)
  have hx' : x' = e.x := fst_unique hN b2 a1
  subst hx'
  have hin : (i, u) ∈ ik s := by
    simp only [ik, List.map_append, List.mem_append, List.mem_map]
    exact Or.inr ⟨(i, (u, y)), List.mem_of_getElem? hk, rfl⟩
  have hslot := (a8 i b1).mpr hin
  refine ⟨b1, b4, hslot, by rw [filled_set _ _ _ hslot, a5], by simp [a4], ?_⟩
  intro j o hj
  by_cases hji : j = i
  · subst hji
    have hlt : j < e.ys.length := by rw [a4]; exact b1
    simp [List.getElem?_set, hlt] at hj
    subst hj
    exact ⟨b4, Or.inl rfl⟩
  · have : (e.ys.set i (some y))[j]? = e.ys[j]? := by
      simp [List.getElem?_set, Ne.symm hji]
    rw [this] at hj
    exact ⟨(a7 j o hj).1, Or.inr (a7 j o hj).2⟩

def deqEmit (s : State) (k u : Nat) (x r : Val) : State :=
  { s with mout := s.mout.eraseIdx k, cat := erase u s.cat, emitq := s.emitq ++ [(u, x, r)] }

def deqFill (s : State) (k i u : Nat) (y : Val) (e : Entry) : State :=
  { s with mout := s.mout.eraseIdx k, cat := insert u { e with ys := e.ys.set i (some y), n := e.n + 1 } s.cat }

/-- a `deq` step that completes request `u` (fail-fast error or all members in): the entry is
    popped and the result `r` goes to the output -/
theorem inv_deq_emit (h : Inv ms ff s) (k i u : Nat) (y : Val)
    (hk : s.mout[k]? = some (i, (u, y))) (e : Entry) (hl : lookup u s.cat = some e) (r : Val)
    (hr : r ∈ eouts ms ff e.x) :
    Inv ms ff (deqEmit s k u e.x r) := by
  obtain ⟨f1, f2, f3⟩ := deq_facts h k i u y hk (deqEmit s k u e.x r) rfl rfl
  obtain ⟨a1, a2, a3, _⟩ := h.cat u e hl
  have hsu' : ∀ v, v ∈ su (deqEmit s k u e.x r) ↔ v ∈ su s ∨ v = u := by
    intro v; simp only [su, deqEmit, List.map_append, List.mem_append, List.map_cons, List.map_nil, List.mem_singleton]
    constructor
    · rintro (h1 | h1 | h1) <;> simp [h1]
    · rintro ((h1 | h1) | h1) <;> simp [h1]
  have hcat : ∀ v e', lookup v (erase u s.cat) = some e' → v ≠ u ∧ lookup v s.cat = some e' := by
    intro v e' he'
    have hv : v ≠ u := by intro hvu; subst hvu; rw [lookup_erase_self] at he'; cases he'
    exact ⟨hv, by rw [lookup_erase_ne u v hv] at he'; exact he'⟩
  constructor
  · intro t ht
    simp only [deqEmit, List.mem_append, List.mem_singleton] at ht
    rcases ht with ht | ht | ht
    · exact h.good t (List.mem_append_left _ ht)
    · exact h.good t (List.mem_append_right _ ht)
    · subst ht; exact ⟨a1, hr⟩
  · have : su (deqEmit s k u e.x r) = su s ++ [u] := by simp [su, deqEmit]
    rw [this, List.nodup_append]
    refine ⟨h.once, by simp, ?_⟩
    intro a ha b hb; simp at hb; subst hb; intro hab; subst hab; exact a3 ha
  · intro v e' he'
    simp only [deqEmit] at he'
    obtain ⟨hv, hold⟩ := hcat v e' he'
    refine entryOk_mono (h.cat v e' hold) (fun m hm => hm) ?_ ?_
    · intro hn hc
      rcases (hsu' v).mp hc with h1 | h1
      · exact hn h1
      · exact hv h1
    · intro j
      rw [f1]
      constructor
      · exact Or.inr
      · rintro (h1 | h1)
        · exact absurd (Prod.mk.inj h1).2 hv
        · exact h1
  · exact h.pend
  · intro m hm; exact h.mout m (List.mem_of_mem_eraseIdx hm)
  · exact f3
  · intro m hm
    by_cases hmu : m.1 = u
    · exact Or.inl ((hsu' _).mpr (Or.inr hmu))
    · rcases h.compl m hm with h1 | ⟨e', h1, h2⟩
      · exact Or.inl ((hsu' _).mpr (Or.inl h1))
      · right
        refine ⟨e', ?_, h2⟩
        show lookup m.1 (erase u s.cat) = some e'
        rw [lookup_erase_ne u m.1 hmu]; exact h1

/-- a `deq` step that fills a slot without completing the request -/
theorem inv_deq_fill (h : Inv ms ff s) (hN : (s.recv.map (·.1)).Nodup) (k i u : Nat) (y : Val)
    (hk : s.mout[k]? = some (i, (u, y))) (e : Entry) (hl : lookup u s.cat = some e)
    (hnf : ¬ (ff = true ∧ y.isExc = true)) (hnn : e.n + 1 ≠ ms.length) :
    Inv ms ff (deqFill s k i u y e) := by
  obtain ⟨f1, f2, f3⟩ := deq_facts h k i u y hk (deqFill s k i u y e) rfl rfl
  obtain ⟨a1, a2, a3, a4, a5, a6, a7, a8⟩ := h.cat u e hl
  obtain ⟨g1, g2, g3, g4, g5, g6⟩ := deq_slot h hN k i u y hk e hl
  constructor
  · exact h.good
  · exact h.once
  · intro v e' he'
    simp only [deqFill] at he'
    by_cases hv : v = u
    · subst hv
      rw [lookup_insert_self] at he'
      cases he'
      refine ⟨a1, a2, a3, g5, g4.symm, by show e.n + 1 < ms.length; omega, ?_, ?_⟩
      · intro j o hj
        obtain ⟨q1, q2⟩ := g6 j o hj
        refine ⟨q1, ?_⟩
        rcases q2 with q2 | q2
        · subst q2; intro hff
          cases hb : o.isExc
          · rfl
          · exact absurd ⟨hff, hb⟩ hnf
        · exact q2
      · intro j hj
        by_cases hji : j = i
        · subst hji
          have hlt : j < e.ys.length := by rw [a4]; exact hj
          constructor
          · intro hc; simp [List.getElem?_set, hlt] at hc
          · intro hc; exact absurd hc f2
        · have : (e.ys.set i (some y))[j]? = e.ys[j]? := by simp [List.getElem?_set, Ne.symm hji]
          show (e.ys.set i (some y))[j]? = some .none ↔ _
          rw [this, a8 j hj, f1]
          constructor
          · rintro (h1 | h1)
            · exact absurd (Prod.mk.inj h1).1 hji
            · exact h1
          · exact Or.inr
    · rw [lookup_insert_ne u v hv] at he'
      refine entryOk_mono (h.cat v e' he') (fun m hm => hm) id ?_
      intro j
      rw [f1]
      constructor
      · exact Or.inr
      · rintro (h1 | h1)
        · exact absurd (Prod.mk.inj h1).2 hv
        · exact h1
  · exact h.pend
  · intro m hm; exact h.mout m (List.mem_of_mem_eraseIdx hm)
  · exact f3
  · intro m hm
    rcases h.compl m hm with h1 | ⟨e', h1, h2⟩
    · exact Or.inl h1
    · right
      by_cases hmu : m.1 = u
      · rw [hmu] at h1
        rw [hl] at h1; cases h1
        refine ⟨{ e with ys := e.ys.set i (some y), n := e.n + 1 }, ?_, h2⟩
        show lookup m.1 (insert u _ s.cat) = _
        rw [hmu]; exact lookup_insert_self _ _ _
      · refine ⟨e', ?_, h2⟩
        show lookup m.1 (insert u _ s.cat) = _
        rw [lookup_insert_ne u m.1 hmu]; exact h1

/-- fail-fast: the `EnsembleError` emitted at the first failing member result is an allowed outcome -/
theorem ff_err_mem (h : Inv ms ff s) (hN : (s.recv.map (·.1)).Nodup) (k i u : Nat) (y : Val)
    (hk : s.mout[k]? = some (i, (u, y))) (e : Entry) (hl : lookup u s.cat = some e)
    (hff : ff = true) (hx : y.isExc = true) :
    ensErr (e.ys.set i (some y)) (e.n + 1) ∈ eouts ms ff e.x := by
  obtain ⟨a1, a2, a3, a4, a5, a6, a7, a8⟩ := h.cat u e hl
  obtain ⟨g1, g2, g3, g4, g5, g6⟩ := deq_slot h hN k i u y hk e hl
  subst hff
  simp only [eouts, a2, Bool.false_eq_true, if_false]
  refine (mem_ensOuts_ff _ _).mpr (Or.inr ⟨e.ys, ?_, i, by simpa using g1, g3, y, ?_, hx, by rw [a5]⟩)
  · refine (mem_partials _ _).mpr ⟨by simp [a4], ?_⟩
    intro j o hj
    exact ⟨by rw [getD_map_apply]; exact (a7 j o hj).1, (a7 j o hj).2 rfl⟩
  · rw [getD_map_apply]; exact g2

/-- all members in: the emitted value is an allowed outcome -/
theorem full_mem (hpos : 0 < ms.length) (h : Inv ms ff s) (hN : (s.recv.map (·.1)).Nodup) (k i u : Nat)
    (y : Val) (hk : s.mout[k]? = some (i, (u, y))) (e : Entry) (hl : lookup u s.cat = some e)
    (hnf : ¬ (ff = true ∧ y.isExc = true)) (hnn : e.n + 1 = ms.length) :
    ensFull ((e.ys.set i (some y)).map (·.getD .none)) ∈ eouts ms ff e.x := by
  obtain ⟨a1, a2, a3, a4, a5, a6, a7, a8⟩ := h.cat u e hl
  obtain ⟨g1, g2, g3, g4, g5, g6⟩ := deq_slot h hN k i u y hk e hl
  have hall := all_some_of_filled (e.ys.set i (some y)) (by rw [g4, g5, hnn])
  -- every element of the result list is the content of a filled slot
  have hel : ∀ (j : Nat) (z : Val), ((e.ys.set i (some y)).map (·.getD .none))[j]? = some z →
      (e.ys.set i (some y))[j]? = some (some z) := by
    intro j z hj
    rw [List.getElem?_map] at hj
    cases hp : (e.ys.set i (some y))[j]? with
    | none => rw [hp] at hj; simp at hj
    | some sl =>
      have hlt : j < (e.ys.set i (some y)).length := by
        rcases Nat.lt_or_ge j (e.ys.set i (some y)).length with h1 | h1
        · exact h1
        · rw [List.getElem?_eq_none h1] at hp; cases hp
      obtain ⟨o, ho⟩ := hall j hlt
      rw [ho] at hp hj
      simp at hj; subst hj
      exact hp ▸ rfl
  have hzs : (e.ys.set i (some y)).map (·.getD .none) ∈ choices (ms.map (· e.x)) := by
    refine (mem_choices _ _).mpr ⟨by simp [a4], ?_⟩
    intro j z hj
    rw [getD_map_apply]
    exact (g6 j z (hel j z hj)).1
  simp only [eouts, a2, Bool.false_eq_true, if_false]
  cases hff : ff with
  | false => exact (mem_ensOuts_nff _ _).mpr ⟨_, hzs, rfl⟩
  | true =>
    have hy : y.isExc = false := by
      cases hb : y.isExc
      · rfl
      · exact absurd ⟨hff, hb⟩ hnf
    have hne : ∀ z ∈ (e.ys.set i (some y)).map (·.getD .none), z.isExc = false := by
      intro z hz
      obtain ⟨j, hj⟩ := List.getElem?_of_mem hz
      rcases (g6 j z (hel j z hj)).2 with h1 | h1
      · rw [h1]; exact hy
      · exact h1 hff
    have hany : ((e.ys.set i (some y)).map (·.getD .none)).any Val.isExc = false := by
      rw [List.any_eq_false]; intro z hz; simp [hne z hz]
    have hlen : 0 < ((e.ys.set i (some y)).map (·.getD .none)).length := by simp [a4, hpos]
    have hnall : ((e.ys.set i (some y)).map (·.getD .none)).all Val.isExc = false := by
      cases hb : ((e.ys.set i (some y)).map (·.getD .none)).all Val.isExc
      · rfl
      · rw [List.all_eq_true] at hb
        obtain ⟨z, hz⟩ := List.exists_mem_of_length_pos hlen
        have := hb z hz; rw [hne z hz] at this; cases this
    refine (mem_ensOuts_ff _ _).mpr (Or.inl ⟨_, hzs, hany, ?_⟩)
    simp only [ensFull, hnall, Bool.false_eq_true, if_false]

theorem inv_step (hpos : 0 < ms.length) (s' : State) (a : Act) (hN' : (s'.recv.map (·.1)).Nodup)
    (h : Inv ms ff s) (hs : step ms ff s a = some s') : Inv ms ff s' := by
  cases a with
  | arrive m =>
    simp [step] at hs; subst hs
    exact ⟨h.good, h.once, h.cat, h.pend, h.mout, h.iknd, h.compl⟩
  | enq =>
    simp only [step] at hs
    split at hs
    · rename_i u x rest hq
      split at hs
      · rename_i hx
        simp at hs; subst hs
        exact inv_enq_exc h u x rest hx hN'
      · rename_i hx
        simp at hs; subst hs
        exact inv_enq_new hpos h u x rest (by simpa using hx) hN'
    · simp at hs
  | memberOut k y =>
    simp only [step] at hs
    split at hs
    · rename_i i u x hk
      split at hs
      · rename_i hy
        simp at hs; subst hs
        exact inv_memberOut h k i u x y hk hy
      · simp at hs
    · simp at hs
  | deq k =>
    simp only [step] at hs
    split at hs
    · rename_i i u y hk
      split at hs
      · split at hs
        · rename_i hl
          simp at hs; subst hs
          exact inv_deq_late h k i u y hk hl
        · rename_i e hl
          split at hs
          · rename_i hc
            simp at hs; subst hs
            exact inv_deq_emit h k i u y hk e hl _ (ff_err_mem h hN' k i u y hk e hl hc.1 hc.2)
          · rename_i hc
            split at hs
            · rename_i hn
              simp at hs; subst hs
              exact inv_deq_emit h k i u y hk e hl _ (by
                have := full_mem hpos h hN' k i u y hk e hl hc hn
                simpa [List.map_set] using this)
            · rename_i hn
              simp at hs; subst hs
              exact inv_deq_fill h hN' k i u y hk e hl hc hn
      · simp at hs
    · simp at hs
  | emit k =>
    simp only [step] at hs
    split at hs
    · rename_i t hk
      simp at hs; subst hs
      exact inv_emit h k t hk
    · simp at hs
  | deliver =>
    simp only [step] at hs
    split at hs
    · simp at hs; subst hs
      exact ⟨h.good, h.once, h.cat, h.pend, h.mout, h.iknd, h.compl⟩
    · simp at hs

/-- `recv` only grows -/
theorem recv_prefix (s' : State) (a : Act) (hs : step ms ff s a = some s') : ∃ l, s'.recv = s.recv ++ l := by
  cases a with
  | arrive m => simp [step] at hs; subst hs; exact ⟨[], by simp⟩
  | enq =>
    simp only [step] at hs
    split at hs
    · split at hs <;> (simp at hs; subst hs; exact ⟨_, rfl⟩)
    · simp at hs
  | memberOut k y =>
    simp only [step] at hs
    split at hs
    · split at hs
      · simp at hs; subst hs; exact ⟨[], by simp⟩
      · simp at hs
    · simp at hs
  | deq k =>
    simp only [step] at hs
    split at hs
    · split at hs
      · split at hs
        · simp at hs; subst hs; exact ⟨[], by simp⟩
        · split at hs
          · simp at hs; subst hs; exact ⟨[], by simp⟩
          · split at hs <;> (simp at hs; subst hs; exact ⟨[], by simp⟩)
      · simp at hs
    · simp at hs
  | emit k =>
    simp only [step] at hs
    split at hs
    · simp at hs; subst hs; exact ⟨[], by simp⟩
    · simp at hs
  | deliver =>
    simp only [step] at hs
    split at hs
    · simp at hs; subst hs; exact ⟨[], by simp⟩
    · simp at hs

theorem nodup_of_prefix {l l' : List Msg} (h : ((l ++ l').map (·.1)).Nodup) : (l.map (·.1)).Nodup := by
  rw [List.map_append, List.nodup_append] at h; exact h.1

/-- the invariant holds after every action list, provided the uids received are pairwise distinct -/
theorem inv_run (hpos : 0 < ms.length) (as : List Act) (s : State)
    (hr : Core.run (step ms ff) init as = some s) : (s.recv.map (·.1)).Nodup → Inv ms ff s := by
  refine Core.invariant_run (Inv := fun s => (s.recv.map (·.1)).Nodup → Inv ms ff s) ?_ as init s
    (fun _ => inv_init ms ff) hr
  intro s a s' hJ hs hN'
  obtain ⟨l, hl⟩ := recv_prefix s' a hs
  exact inv_step hpos s' a hN' (hJ (nodup_of_prefix (hl ▸ hN'))) hs

end Ens
end Servlet
