import MpsVerif.Model.ServletTree
import MpsVerif.Proofs.ServletContract
/-!
# Lifting the node contracts to whole servlet trees

Main theorem (`tree_sat`): every boundary trace of a concrete tree `t` (`Tr t σ`: every node
operational, members arbitrary environments constrained only by being, recursively, behaviours of
the member subtrees) whose input uids are pairwise distinct satisfies the trace contract for the
denotation `outs t`.
-/
namespace Servlet

/-! ## trace contract: inversion and consequences -/

theorem snoc_inj {α : Type} {l l' : List α} {a b : α} (h : l ++ [a] = l' ++ [b]) : l = l' ∧ a = b := by
  have := List.append_inj' h rfl
  exact ⟨this.1, by simpa using this.2⟩

theorem Sat.snoc_inp_inv {o : Val → List Val} {σ : List Ev} {m : Msg} (h : Sat o (σ ++ [.inp m])) :
    Sat o σ := by
  generalize hτ : σ ++ [Ev.inp m] = τ at h
  cases h with
  | nil => simp at hτ
  | inp σ' m' h' => obtain ⟨h1, _⟩ := snoc_inj hτ; exact h1 ▸ h'
  | out σ' u x y h' _ _ _ => obtain ⟨_, h2⟩ := snoc_inj hτ; cases h2

theorem Sat.snoc_out_inv {o : Val → List Val} {σ : List Ev} {u : Nat} {y : Val}
    (h : Sat o (σ ++ [.out (u, y)])) :
    Sat o σ ∧ ∃ x, Ev.inp (u, x) ∈ σ ∧ y ∈ o x ∧ ∀ y', Ev.out (u, y') ∉ σ := by
  generalize hτ : σ ++ [Ev.out (u, y)] = τ at h
  cases h with
  | nil => simp at hτ
  | inp σ' m' h' => obtain ⟨_, h2⟩ := snoc_inj hτ; cases h2
  | out σ' u' x y' h' h1 h2 h3 =>
    obtain ⟨e1, e2⟩ := snoc_inj hτ
    cases e2
    subst e1
    exact ⟨h', x, h1, h2, h3⟩

theorem Sat.out_mem {o : Val → List Val} {σ : List Ev} (h : Sat o σ) :
    ∀ u y, Ev.out (u, y) ∈ σ → ∃ x, Ev.inp (u, x) ∈ σ ∧ y ∈ o x := by
  induction h with
  | nil => intro u y hm; simp at hm
  | inp σ m _ ih =>
    intro u y hm
    simp only [List.mem_append, List.mem_singleton] at hm
    rcases hm with hm | hm
    · obtain ⟨x, h1, h2⟩ := ih u y hm; exact ⟨x, List.mem_append_left _ h1, h2⟩
    · cases hm
  | out σ u' x y' _ h1 h2 _ ih =>
    intro u y hm
    simp only [List.mem_append, List.mem_singleton] at hm
    rcases hm with hm | hm
    · obtain ⟨x', q1, q2⟩ := ih u y hm; exact ⟨x', List.mem_append_left _ q1, q2⟩
    · cases hm; exact ⟨x, List.mem_append_left _ h1, h2⟩

/-- at most one answer per uid -/
theorem Sat.out_unique {o : Val → List Val} {σ : List Ev} (h : Sat o σ) :
    ((σ.filterMap Ev.outOf).map (·.1)).Nodup := by
  induction h with
  | nil => simp
  | inp σ m _ ih =>
    have : List.filterMap Ev.outOf [Ev.inp m] = [] := rfl
    simpa [List.filterMap_append, this] using ih
  | out σ u x y _ _ _ h3 ih =>
    simp only [List.filterMap_append, List.filterMap_cons, Ev.outOf, List.filterMap_nil, List.map_append,
      List.map_cons, List.map_nil]
    rw [List.nodup_append]
    refine ⟨ih, by simp, ?_⟩
    intro a ha b hb hab
    simp at hb; subst hb; subst hab
    simp only [List.mem_map, List.mem_filterMap] at ha
    obtain ⟨m, ⟨e, he, hem⟩, hm⟩ := ha
    cases e with
    | inp m' => simp [Ev.outOf] at hem
    | out m' =>
      simp [Ev.outOf] at hem; subst hem
      exact h3 m'.2 (by rw [← hm]; exact he)

theorem Sat.congr {o o' : Val → List Val} (h : ∀ x, o x = o' x) {σ : List Ev} (hs : Sat o σ) : Sat o' σ := by
  have : o = o' := funext h
  exact this ▸ hs

/-! ## member projections -/

theorem proj_append (i : Nat) (a b : List (Nat × Ev)) : proj i (a ++ b) = proj i a ++ proj i b := by
  simp [proj, List.filter_append]

theorem proj_single_same (i : Nat) (e : Ev) : proj i [(i, e)] = [e] := by simp [proj]

theorem proj_single_ne (i j : Nat) (e : Ev) (h : j ≠ i) : proj i [(j, e)] = [] := by
  simp [proj, h]

theorem mem_proj (i : Nat) (e : Ev) (mtr : List (Nat × Ev)) : e ∈ proj i mtr ↔ (i, e) ∈ mtr := by
  simp only [proj, List.mem_map, List.mem_filter]
  constructor
  · rintro ⟨p, ⟨h1, h2⟩, rfl⟩
    have : p.1 = i := by simpa using h2
    rw [← this]; exact h1
  · intro h; exact ⟨(i, e), ⟨h, by simp⟩, rfl⟩


theorem mem_filterMap_inpOf {σ : List Ev} {m : Msg} : m ∈ σ.filterMap Ev.inpOf ↔ Ev.inp m ∈ σ := by
  simp only [List.mem_filterMap]
  constructor
  · rintro ⟨e, he, hm⟩
    cases e with
    | inp m' => simp [Ev.inpOf] at hm; subst hm; exact he
    | out m' => simp [Ev.inpOf] at hm
  · intro h; exact ⟨_, h, rfl⟩

theorem mem_filterMap_outOf {σ : List Ev} {m : Msg} : m ∈ σ.filterMap Ev.outOf ↔ Ev.out m ∈ σ := by
  simp only [List.mem_filterMap]
  constructor
  · rintro ⟨e, he, hm⟩
    cases e with
    | inp m' => simp [Ev.outOf] at hm
    | out m' => simp [Ev.outOf] at hm; subst hm; exact he
  · intro h; exact ⟨_, h, rfl⟩

/-- the step every node kind shares: putting the next answer on the output queue keeps the trace
    contract, given the node contract on the histories after the step -/
theorem sat_emit_step {o : Val → List Val} {tr : List Ev} {recv qin : List Msg} {sentG : List GMsg}
    {t : GMsg} (hs : Sat o tr) (b0 : tr.filterMap Ev.inpOf = recv ++ qin)
    (b2 : tr.filterMap Ev.outOf = sentG.map gmsg) (hc : Contract o recv (sentG ++ [t]))
    (hn : (recv.map (·.1)).Nodup) : Sat o (tr ++ [.out (gmsg t)]) := by
  obtain ⟨h1, h2⟩ := hc.own t (by simp)
  have hin : Ev.inp (t.1, t.2.1) ∈ tr := by
    apply mem_filterMap_inpOf.mp
    rw [b0]; exact List.mem_append_left _ h1
  have hnd := hc.sent_nodup hn
  rw [List.map_append, List.nodup_append] at hnd
  refine Sat.out tr t.1 t.2.1 t.2.2 hs hin h2 ?_
  intro y' hy'
  have : (t.1, y') ∈ sentG.map gmsg := by rw [← b2]; exact mem_filterMap_outOf.mpr hy'
  obtain ⟨t', ht', hk⟩ := List.mem_map.mp this
  have hu : t'.1 = t.1 := (Prod.mk.inj hk).1
  exact hnd.2.2 t'.1 (List.mem_map.mpr ⟨t', ht', rfl⟩) t.1 (by simp) hu

theorem distinct_prefix {σ ρ : List Ev} (h : DistinctIn (σ ++ ρ)) : DistinctIn σ := by
  unfold DistinctIn at h ⊢
  rw [List.filterMap_append, List.map_append, List.nodup_append] at h
  exact h.1

theorem Sat.prefix {o : Val → List Val} {τ : List Ev} (h : Sat o τ) :
    ∀ σ ρ, τ = σ ++ ρ → Sat o σ := by
  induction h with
  | nil => intro σ ρ he; have := List.append_eq_nil_iff.mp he.symm; rw [this.1]; exact Sat.nil
  | inp τ' m h' ih =>
    intro σ ρ he
    rcases List.eq_nil_or_concat ρ with hr | ⟨ρ', e, hr⟩
    · subst hr; simp at he; rw [← he]; exact Sat.inp τ' m h'
    · subst hr
      rw [List.concat_eq_append, ← List.append_assoc] at he
      exact ih σ ρ' (snoc_inj he).1
  | out τ' u x y h' h1 h2 h3 ih =>
    intro σ ρ he
    rcases List.eq_nil_or_concat ρ with hr | ⟨ρ', e, hr⟩
    · subst hr; simp at he; rw [← he]; exact Sat.out τ' u x y h' h1 h2 h3
    · subst hr
      rw [List.concat_eq_append, ← List.append_assoc] at he
      exact ih σ ρ' (snoc_inj he).1

/-! ## leaf: simple servlet -/
namespace WkL

structure Link (s : State) : Prop where
  b0 : s.tr.filterMap Ev.inpOf = s.core.recv ++ s.core.qin
  b2 : s.tr.filterMap Ev.outOf = s.core.sentG.map gmsg

theorem step_core (w : WSpec) (s s' : State) (a : Wk.Act) (h : step w s a = some s') :
    Wk.step w s.core a = some s'.core := by
  unfold step at h
  cases hc : Wk.step w s.core a with
  | none => simp [hc] at h
  | some c =>
    simp only [hc] at h
    cases a with
    | arrive m => simp at h; subst h; rfl
    | emit k =>
      simp only at h
      split at h
      · simp at h; subst h; rfl
      · simp at h
    | take => simp at h; subst h; rfl
    | start mask => simp at h; subst h; rfl
    | finish k => simp at h; subst h; rfl
    | deliver => simp at h; subst h; rfl

/-- what a step appends to the boundary trace -/
def trDelta (s : State) : Wk.Act → List Ev
  | .arrive m => [.inp m]
  | .emit k => match s.core.emitq[k]? with
    | some t => [.out (gmsg t)]
    | .none => []
  | _ => []

theorem step_tr (w : WSpec) (s s' : State) (a : Wk.Act) (h : step w s a = some s') :
    s'.tr = s.tr ++ trDelta s a := by
  unfold step at h
  cases hc : Wk.step w s.core a with
  | none => simp [hc] at h
  | some c =>
    simp only [hc] at h
    cases a with
    | arrive m => simp at h; subst h; rfl
    | emit k =>
      simp only at h
      split at h
      · rename_i t ht; simp at h; subst h; simp [trDelta, ht]
      · simp at h
    | take => simp at h; subst h; simp [trDelta]
    | start mask => simp at h; subst h; simp [trDelta]
    | finish k => simp at h; subst h; simp [trDelta]
    | deliver => simp at h; subst h; simp [trDelta]

/-- reached core, linked traces -/
def Inv0 (w : WSpec) (s : State) : Prop :=
  (∃ as', Core.run (Wk.step w) Wk.init as' = some s.core) ∧ Link s

theorem inv0_step (w : WSpec) (s s' : State) (a : Wk.Act) (h0 : Inv0 w s) (hs : step w s a = some s') :
    Inv0 w s' := by
  obtain ⟨⟨as', hreach⟩, hl⟩ := h0
  have hcore := step_core w s s' a hs
  have htr := step_tr w s s' a hs
  refine ⟨⟨as' ++ [a], by rw [Core.run_append, hreach]; simp [Core.run_cons, hcore]⟩, ?_⟩
  obtain ⟨b0, b2⟩ := hl
  cases a with
  | arrive m =>
    simp [Wk.step] at hcore
    constructor
    · rw [htr, List.filterMap_append, b0, ← hcore]; simp [trDelta, Ev.inpOf]
    · rw [htr, List.filterMap_append, b2, ← hcore]; simp [trDelta, Ev.outOf]
  | emit k =>
    simp only [Wk.step] at hcore
    split at hcore
    · rename_i t ht
      simp at hcore
      constructor
      · rw [htr, List.filterMap_append, b0, ← hcore]; simp [trDelta, ht, Ev.inpOf]
      · rw [htr, List.filterMap_append, b2, ← hcore]; simp [trDelta, ht, Ev.outOf]
    · simp at hcore
  | take =>
    have htr' : s'.tr = s.tr := by simp [htr, trDelta]
    simp only [Wk.step] at hcore
    split at hcore
    · rename_i u x rest hq
      split at hcore
      · simp at hcore; exact ⟨by rw [htr', b0, ← hcore]; simp [hq], by rw [htr', b2, ← hcore]⟩
      · split at hcore <;>
          (simp at hcore; exact ⟨by rw [htr', b0, ← hcore]; simp [hq], by rw [htr', b2, ← hcore]⟩)
    · simp at hcore
  | start mask =>
    have htr' : s'.tr = s.tr := by simp [htr, trDelta]
    simp only [Wk.step] at hcore
    split at hcore
    · simp at hcore; exact ⟨by rw [htr', b0, ← hcore], by rw [htr', b2, ← hcore]⟩
    · simp at hcore
  | finish k =>
    have htr' : s'.tr = s.tr := by simp [htr, trDelta]
    simp only [Wk.step] at hcore
    split at hcore
    · simp at hcore; exact ⟨by rw [htr', b0, ← hcore], by rw [htr', b2, ← hcore]⟩
    · simp at hcore
  | deliver =>
    have htr' : s'.tr = s.tr := by simp [htr, trDelta]
    simp only [Wk.step] at hcore
    split at hcore
    · simp at hcore; exact ⟨by rw [htr', b0, ← hcore], by rw [htr', b2, ← hcore]⟩
    · simp at hcore

theorem nodup_recv_of_distinct {tr : List Ev} {recv qin : List Msg}
    (b0 : tr.filterMap Ev.inpOf = recv ++ qin) (hd : DistinctIn tr) : (recv.map (·.1)).Nodup := by
  unfold DistinctIn at hd
  rw [b0, List.map_append, List.nodup_append] at hd
  exact hd.1

/-- **leaf case**: every boundary trace of a simple servlet with distinct input uids satisfies the
    trace contract for `wouts w` -/
theorem sat (w : WSpec) (hb : Wk.BerrsOk w) (as : List Wk.Act) (s : State)
    (hr : Core.run (step w) init as = some s) : DistinctIn s.tr → Sat (wouts w) s.tr := by
  have key := Core.invariant_run
    (Inv := fun s => Inv0 w s ∧ (DistinctIn s.tr → Sat (wouts w) s.tr)) ?_ as init s
    ⟨⟨⟨[], rfl⟩, ⟨by simp [init, Wk.init], by simp [init, Wk.init]⟩⟩, fun _ => by simp [init]; exact Sat.nil⟩ hr
  · exact key.2
  intro s a s' ⟨h0, hsat⟩ hs
  have h0' := inv0_step w s s' a h0 hs
  refine ⟨h0', ?_⟩
  intro hd'
  have htr := step_tr w s s' a hs
  have hd : DistinctIn s.tr := distinct_prefix (htr ▸ hd')
  have hS := hsat hd
  obtain ⟨⟨as', hreach'⟩, _⟩ := h0'
  obtain ⟨_, ⟨b0, b2⟩⟩ := h0
  have hcore := step_core w s s' a hs
  cases a with
  | arrive m => rw [htr]; exact Sat.inp _ m hS
  | emit k =>
    simp only [Wk.step] at hcore
    split at hcore
    · rename_i t ht
      simp at hcore
      have hc := (Wk.contract w hb as' s'.core hreach').1
      rw [← hcore] at hc
      rw [htr]; simp only [trDelta, ht]
      exact sat_emit_step hS b0 b2 hc (nodup_recv_of_distinct b0 hd)
    · simp at hcore
  | take => rw [htr]; simpa [trDelta] using hS
  | start mask => rw [htr]; simpa [trDelta] using hS
  | finish k => rw [htr]; simpa [trDelta] using hS
  | deliver => rw [htr]; simpa [trDelta] using hS

end WkL

/-! ## ensemble with arbitrary members -/

theorem anyMs_length (nn : Nat) (y : Val) : (anyMs nn y).length = nn := by simp [anyMs]

theorem anyMs_getD (nn i : Nat) (y : Val) (h : i < nn) : (anyMs nn y).getD i (fun _ => []) = fun _ => [y] := by
  simp [anyMs, List.getD_eq_getElem?_getD, List.getElem?_replicate, h]

/-- only `memberOut` looks at the member outcome functions; everything else only at their number -/
theorem Ens.step_ms_irrel (ms ms' : List (Val → List Val)) (ff : Bool) (c : Ens.State) (a : Ens.Act)
    (hl : ms.length = ms'.length) (ha : ∀ k y, a ≠ .memberOut k y) :
    Ens.step ms ff c a = Ens.step ms' ff c a := by
  cases a with
  | arrive m => rfl
  | enq => simp only [Ens.step, hl]
  | memberOut k y => exact absurd rfl (ha k y)
  | deq k => simp only [Ens.step, hl]
  | emit k => rfl
  | deliver => rfl

theorem Ens.step_memberOut_eq (ms : List (Val → List Val)) (nn : Nat) (ff : Bool) (c : Ens.State)
    (k i u : Nat) (x y : Val) (hk : c.pend[k]? = some (i, (u, x))) (hi : i < nn)
    (hy : y ∈ (ms.getD i (fun _ => [])) x) :
    Ens.step ms ff c (.memberOut k y) = Ens.step (anyMs nn y) ff c (.memberOut k y) := by
  simp only [Ens.step, hk, hy, if_true, anyMs_getD nn i y hi, List.mem_singleton]

/-! frame lemmas: what each node step does to `recv`, `qin`, `pend`, `sentG` -/

theorem Ens.frame_arrive {ms : List (Val → List Val)} {ff : Bool} {c c' : Ens.State} {m : Msg}
    (h : Ens.step ms ff c (.arrive m) = some c') :
    c'.recv = c.recv ∧ c'.qin = c.qin ++ [m] ∧ c'.pend = c.pend ∧ c'.sentG = c.sentG := by
  simp [Ens.step] at h; subst h; exact ⟨rfl, rfl, rfl, rfl⟩

theorem Ens.frame_enq {ms : List (Val → List Val)} {ff : Bool} {c c' : Ens.State}
    (h : Ens.step ms ff c .enq = some c') :
    ∃ u x rest, c.qin = (u, x) :: rest ∧ c'.qin = rest ∧ c'.recv = c.recv ++ [(u, x)] ∧
      c'.sentG = c.sentG ∧
      c'.pend = c.pend ++ (if x.isExc then [] else (List.range ms.length).map (fun i => (i, (u, x)))) := by
  simp only [Ens.step] at h
  split at h
  · rename_i u x rest hq
    refine ⟨u, x, rest, hq, ?_⟩
    split at h
    · rename_i hx; simp at h; subst h; simp [hx]
    · rename_i hx; simp at h; subst h; simp [hx]
  · simp at h

theorem Ens.frame_memberOut {ms : List (Val → List Val)} {ff : Bool} {c c' : Ens.State} {k : Nat} {y : Val}
    (h : Ens.step ms ff c (.memberOut k y) = some c') :
    ∃ i u x, c.pend[k]? = some (i, (u, x)) ∧ c'.pend = c.pend.eraseIdx k ∧
      c'.recv = c.recv ∧ c'.qin = c.qin ∧ c'.sentG = c.sentG := by
  simp only [Ens.step] at h
  split at h
  · rename_i i u x hk
    split at h
    · simp at h; subst h; exact ⟨i, u, x, hk, rfl, rfl, rfl, rfl⟩
    · simp at h
  · simp at h

theorem Ens.frame_deq {ms : List (Val → List Val)} {ff : Bool} {c c' : Ens.State} {k : Nat}
    (h : Ens.step ms ff c (.deq k) = some c') :
    c'.recv = c.recv ∧ c'.qin = c.qin ∧ c'.pend = c.pend ∧ c'.sentG = c.sentG := by
  simp only [Ens.step] at h
  split at h
  · split at h
    · split at h
      · simp at h; subst h; exact ⟨rfl, rfl, rfl, rfl⟩
      · split at h
        · simp at h; subst h; exact ⟨rfl, rfl, rfl, rfl⟩
        · split at h <;> (simp at h; subst h; exact ⟨rfl, rfl, rfl, rfl⟩)
    · simp at h
  · simp at h

theorem Ens.frame_emit {ms : List (Val → List Val)} {ff : Bool} {c c' : Ens.State} {k : Nat}
    (h : Ens.step ms ff c (.emit k) = some c') :
    ∃ t, c.emitq[k]? = some t ∧ c'.sentG = c.sentG ++ [t] ∧
      c'.recv = c.recv ∧ c'.qin = c.qin ∧ c'.pend = c.pend := by
  simp only [Ens.step] at h
  split at h
  · rename_i t ht; simp at h; subst h; exact ⟨t, ht, rfl, rfl, rfl, rfl⟩
  · simp at h

theorem Ens.frame_deliver {ms : List (Val → List Val)} {ff : Bool} {c c' : Ens.State}
    (h : Ens.step ms ff c .deliver = some c') :
    c'.recv = c.recv ∧ c'.qin = c.qin ∧ c'.pend = c.pend ∧ c'.sentG = c.sentG := by
  simp only [Ens.step] at h
  split at h
  · simp at h; subst h; exact ⟨rfl, rfl, rfl, rfl⟩
  · simp at h

namespace EnsL

def trDelta (s : State) : Act → List Ev
  | .node (.arrive m) => [.inp m]
  | .node (.emit k) => match s.core.emitq[k]? with
    | some t => [.out (gmsg t)]
    | .none => []
  | _ => []

def mtrDelta (nn : Nat) (s : State) : Act → List (Nat × Ev)
  | .node .enq => match s.core.qin with
    | (u, x) :: _ => if x.isExc then [] else (List.range nn).map (fun i => (i, Ev.inp (u, x)))
    | [] => []
  | .node (.memberOut k y) => match s.core.pend[k]? with
    | some (i, (u, _)) => [(i, .out (u, y))]
    | .none => []
  | .junk i m => [(i, .out m)]
  | _ => []

/-- a wrapped step = the node step of `Model/Servlet.lean` (member guard vacuous) + ghost traces -/
theorem step_spec (nn : Nat) (ff : Bool) (s s' : State) (a : Act) (h : step nn ff s a = some s') :
    s'.tr = s.tr ++ trDelta s a ∧ s'.mtr = s.mtr ++ mtrDelta nn s a ∧
    match a with
    | .node (.memberOut k y) => Ens.step (anyMs nn y) ff s.core (.memberOut k y) = some s'.core
    | .node a' => Ens.step (anyMs nn .nil) ff s.core a' = some s'.core
    | .junk i m => i < nn ∧ (∀ p ∈ s.core.pend, ¬ (p.1 = i ∧ p.2.1 = m.1)) ∧
        s'.core = { s.core with mout := s.core.mout ++ [(i, m)] } := by
  cases a with
  | junk i m =>
    simp only [step] at h
    split at h
    · rename_i hg
      simp at h; subst h
      refine ⟨by simp [trDelta], by simp [mtrDelta], hg.1, ?_, rfl⟩
      intro p hp
      have := (List.all_eq_true.mp hg.2) p hp
      intro hc
      simp [hc.1, hc.2] at this
    · simp at h
  | node a' =>
    cases a' with
    | arrive m =>
      simp only [step, Option.map_eq_some_iff] at h
      obtain ⟨c, hc, rfl⟩ := h
      exact ⟨by simp [trDelta], by simp [mtrDelta], hc⟩
    | enq =>
      simp only [step] at h
      split at h
      · rename_i u x rest hq
        simp only [Option.map_eq_some_iff] at h
        obtain ⟨c, hc, rfl⟩ := h
        exact ⟨by simp [trDelta], by simp [mtrDelta, hq], hc⟩
      · simp at h
    | memberOut k y =>
      simp only [step] at h
      split at h
      · rename_i i u x hk
        simp only [Option.map_eq_some_iff] at h
        obtain ⟨c, hc, rfl⟩ := h
        exact ⟨by simp [trDelta], by simp [mtrDelta, hk], hc⟩
      · simp at h
    | deq k =>
      simp only [step, Option.map_eq_some_iff] at h
      obtain ⟨c, hc, rfl⟩ := h
      exact ⟨by simp [trDelta], by simp [mtrDelta], hc⟩
    | emit k =>
      simp only [step] at h
      split at h
      · rename_i t ht
        simp only [Option.map_eq_some_iff] at h
        obtain ⟨c, hc, rfl⟩ := h
        exact ⟨by simp [trDelta, ht], by simp [mtrDelta], hc⟩
      · simp at h
    | deliver =>
      simp only [step, Option.map_eq_some_iff] at h
      obtain ⟨c, hc, rfl⟩ := h
      exact ⟨by simp [trDelta], by simp [mtrDelta], hc⟩

theorem proj_range (i n : Nat) (e : Ev) :
    proj i ((List.range n).map (fun j => (j, e))) = if i < n then [e] else [] := by
  induction n with
  | zero => simp [proj]
  | succ n ih =>
    rw [List.range_succ, List.map_append, proj_append, ih]
    by_cases h1 : i < n
    · have : n ≠ i := by omega
      simp [h1, proj_single_ne i n e this, Nat.lt_succ_of_lt h1]
    · by_cases h2 : i = n
      · subst h2; simp [proj_single_same]
      · have : n ≠ i := fun h => h2 h.symm
        have h3 : ¬ i < n + 1 := by omega
        simp [h1, h3, proj_single_ne i n e this]

/-- invariants of the wrapped ensemble that do not depend on how the members behave -/
structure U (nn : Nat) (s : State) : Prop where
  b0 : s.tr.filterMap Ev.inpOf = s.core.recv ++ s.core.qin
  lt : ∀ e ∈ s.mtr, e.1 < nn
  pl : ∀ p ∈ s.core.pend, p.1 < nn
  inps : ∀ i, i < nn → (proj i s.mtr).filterMap Ev.inpOf = s.core.recv.filter (fun m => !m.2.isExc)

theorem u_init (nn : Nat) : U nn init := by
  constructor <;> simp [init, Ens.init, proj]

theorem u_step (nn : Nat) (ff : Bool) (s s' : State) (a : Act) (h : U nn s)
    (hs : step nn ff s a = some s') : U nn s' := by
  obtain ⟨htr, hmtr, hcore⟩ := step_spec nn ff s s' a hs
  obtain ⟨b0, lt, pl, inps⟩ := h
  cases a with
  | junk i m =>
    obtain ⟨hi, _, hc⟩ := hcore
    refine ⟨?_, ?_, ?_, ?_⟩
    · rw [htr, hc]; simpa [trDelta] using b0
    · intro e he; rw [hmtr] at he
      simp only [mtrDelta, List.mem_append, List.mem_singleton] at he
      rcases he with he | he
      · exact lt e he
      · subst he; exact hi
    · rw [hc]; exact pl
    · intro j hj
      rw [hmtr, proj_append, List.filterMap_append, inps j hj, hc]
      by_cases hji : i = j
      · subst hji; simp [mtrDelta, proj_single_same, Ev.inpOf]
      · simp [mtrDelta, proj_single_ne j i _ hji]
  | node a' =>
    cases a' with
    | arrive m =>
      obtain ⟨f1, f2, f3, _⟩ := Ens.frame_arrive hcore
      refine ⟨?_, ?_, ?_, ?_⟩
      · rw [htr, List.filterMap_append, b0, f1, f2]; simp [trDelta, Ev.inpOf]
      · rw [hmtr]; simpa [mtrDelta] using lt
      · rw [f3]; exact pl
      · intro j hj; rw [hmtr, f1]; simpa [mtrDelta] using inps j hj
    | enq =>
      obtain ⟨u, x, rest, hq, f1, f2, _, f4⟩ := Ens.frame_enq hcore
      rw [anyMs_length] at f4
      refine ⟨?_, ?_, ?_, ?_⟩
      · rw [htr, f1, f2]; simp [trDelta, b0, hq]
      · intro e he; rw [hmtr] at he
        simp only [mtrDelta, hq, List.mem_append] at he
        rcases he with he | he
        · exact lt e he
        · split at he
          · simp at he
          · simp only [List.mem_map, List.mem_range] at he
            obtain ⟨j, hj, rfl⟩ := he; exact hj
      · intro p hp; rw [f4] at hp
        simp only [List.mem_append] at hp
        rcases hp with hp | hp
        · exact pl p hp
        · split at hp
          · simp at hp
          · simp only [List.mem_map, List.mem_range] at hp
            obtain ⟨j, hj, rfl⟩ := hp; exact hj
      · intro j hj
        rw [hmtr, proj_append, List.filterMap_append, inps j hj, f2, List.filter_append]
        simp only [mtrDelta, hq]
        by_cases hx : x.isExc = true
        · simp [hx, proj]
        · have hx' : x.isExc = false := by simpa using hx
          simp [hx', proj_range, hj, Ev.inpOf]
    | memberOut k y =>
      obtain ⟨i, u, x, hk, f1, f2, f3, _⟩ := Ens.frame_memberOut hcore
      have hi := pl _ (List.mem_of_getElem? hk)
      refine ⟨?_, ?_, ?_, ?_⟩
      · rw [htr, f2, f3]; simpa [trDelta] using b0
      · intro e he; rw [hmtr] at he
        simp only [mtrDelta, hk, List.mem_append, List.mem_singleton] at he
        rcases he with he | he
        · exact lt e he
        · subst he; exact hi
      · intro p hp; rw [f1] at hp; exact pl p (List.mem_of_mem_eraseIdx hp)
      · intro j hj
        rw [hmtr, proj_append, List.filterMap_append, inps j hj, f2]
        simp only [mtrDelta, hk]
        by_cases hji : i = j
        · subst hji; simp [proj_single_same, Ev.inpOf]
        · simp [proj_single_ne j i _ hji]
    | deq k =>
      obtain ⟨f1, f2, f3, _⟩ := Ens.frame_deq hcore
      exact ⟨by rw [htr, f1, f2]; simpa [trDelta] using b0, by rw [hmtr]; simpa [mtrDelta] using lt,
        by rw [f3]; exact pl, fun j hj => by rw [hmtr, f1]; simpa [mtrDelta] using inps j hj⟩
    | emit k =>
      obtain ⟨t, ht, _, f1, f2, f3⟩ := Ens.frame_emit hcore
      refine ⟨?_, by rw [hmtr]; simpa [mtrDelta] using lt, by rw [f3]; exact pl,
        fun j hj => by rw [hmtr, f1]; simpa [mtrDelta] using inps j hj⟩
      rw [htr, List.filterMap_append, b0, f1, f2]; simp [trDelta, ht, Ev.inpOf]
    | deliver =>
      obtain ⟨f1, f2, f3, _⟩ := Ens.frame_deliver hcore
      exact ⟨by rw [htr, f1, f2]; simpa [trDelta] using b0, by rw [hmtr]; simpa [mtrDelta] using lt,
        by rw [f3]; exact pl, fun j hj => by rw [hmtr, f1]; simpa [mtrDelta] using inps j hj⟩

/-- hypothesis of the lifting: distinct input uids, and every member has so far behaved within
    its own trace contract -/
def Hyp (ms : List (Val → List Val)) (nn : Nat) (s : State) : Prop :=
  DistinctIn s.tr ∧ ∀ i, i < nn → Sat (ms.getD i (fun _ => [])) (proj i s.mtr)

theorem hyp_prefix (ms : List (Val → List Val)) (nn : Nat) (ff : Bool) (s s' : State) (a : Act)
    (hs : step nn ff s a = some s') (h : Hyp ms nn s') : Hyp ms nn s := by
  obtain ⟨htr, hmtr, _⟩ := step_spec nn ff s s' a hs
  refine ⟨distinct_prefix (htr ▸ h.1), fun i hi => ?_⟩
  have := h.2 i hi
  rw [hmtr, proj_append] at this
  exact this.prefix _ _ rfl

/-- what holds as long as the members behave: the core state is reachable in the node model with
    member boxes, the ghost traces are linked to it, the boundary trace satisfies the contract -/
structure C (ms : List (Val → List Val)) (ff : Bool) (s : State) : Prop where
  reach : ∃ as', Core.run (Ens.step ms ff) Ens.init as' = some s.core
  b2 : s.tr.filterMap Ev.outOf = s.core.sentG.map gmsg
  l1 : ∀ i u x, (i, Ev.inp (u, x)) ∈ s.mtr → (∃ y, (i, Ev.out (u, y)) ∈ s.mtr) ∨ (i, (u, x)) ∈ s.core.pend
  l2 : ∀ p ∈ s.core.pend, (p.1, Ev.inp p.2) ∈ s.mtr
  sat : Sat (eouts ms ff) s.tr

theorem extend_reach {ms : List (Val → List Val)} {ff : Bool} {c c' : Ens.State} {a : Ens.Act}
    (h : ∃ as', Core.run (Ens.step ms ff) Ens.init as' = some c) (hs : Ens.step ms ff c a = some c') :
    ∃ as', Core.run (Ens.step ms ff) Ens.init as' = some c' := by
  obtain ⟨as', h⟩ := h
  exact ⟨as' ++ [a], by rw [Core.run_append, h]; simp [Core.run_cons, hs]⟩

theorem c_init (ms : List (Val → List Val)) (ff : Bool) : C ms ff init :=
  ⟨⟨[], rfl⟩, by simp [init, Ens.init], by simp [init], by simp [init, Ens.init], by simp [init]; exact Sat.nil⟩

theorem mem_inp_recv {nn : Nat} {s : State} (hu : U nn s) {i u : Nat} {x : Val}
    (h : (i, Ev.inp (u, x)) ∈ s.mtr) : (u, x) ∈ s.core.recv := by
  have hi := hu.lt _ h
  have : (u, x) ∈ (proj i s.mtr).filterMap Ev.inpOf := mem_filterMap_inpOf.mpr ((mem_proj i _ _).mpr h)
  rw [hu.inps i hi] at this
  exact (List.mem_filter.mp this).1

theorem c_step (ms : List (Val → List Val)) (nn : Nat) (ff : Bool) (hms : ms.length = nn) (hpos : 0 < nn)
    (s s' : State) (a : Act) (hu : U nn s) (hc : C ms ff s) (hs : step nn ff s a = some s')
    (hh : Hyp ms nn s') : C ms ff s' := by
  have hh0 := hyp_prefix ms nn ff s s' a hs hh
  obtain ⟨htr, hmtr, hcore⟩ := step_spec nn ff s s' a hs
  obtain ⟨hreach, b2, l1, l2, hsat⟩ := hc
  have hnd : (s.core.recv.map (·.1)).Nodup := WkL.nodup_recv_of_distinct hu.b0 hh0.1
  have hlen : ms.length = (anyMs nn Val.nil).length := by rw [anyMs_length, hms]
  cases a with
  | junk i m =>
    exfalso
    obtain ⟨hi, hg, _⟩ := hcore
    have h1 := hh.2 i hi
    rw [hmtr, proj_append] at h1
    simp only [mtrDelta, proj_single_same] at h1
    obtain ⟨u, y⟩ := m
    obtain ⟨_, x', q1, _, q3⟩ := h1.snoc_out_inv
    rcases l1 i u x' ((mem_proj i _ _).mp q1) with ⟨y', h2⟩ | h2
    · exact q3 y' ((mem_proj i _ _).mpr h2)
    · exact hg _ h2 ⟨rfl, rfl⟩
  | node a' =>
    cases a' with
    | arrive m =>
      have hstrict : Ens.step ms ff s.core (.arrive m) = some s'.core := by
        rw [Ens.step_ms_irrel ms (anyMs nn .nil) ff _ _ hlen (by intro k y h; cases h)]; exact hcore
      obtain ⟨_, _, f3, f4⟩ := Ens.frame_arrive hcore
      refine ⟨extend_reach hreach hstrict, ?_, ?_, ?_, ?_⟩
      · rw [htr, List.filterMap_append, b2, f4]; simp [trDelta, Ev.outOf]
      · intro i u x h; rw [hmtr] at h ⊢; rw [f3]; simpa [mtrDelta] using l1 i u x (by simpa [mtrDelta] using h)
      · intro p hp; rw [f3] at hp; rw [hmtr]; simpa [mtrDelta] using l2 p hp
      · rw [htr]; exact Sat.inp _ m hsat
    | enq =>
      have hstrict : Ens.step ms ff s.core .enq = some s'.core := by
        rw [Ens.step_ms_irrel ms (anyMs nn .nil) ff _ _ hlen (by intro k y h; cases h)]; exact hcore
      obtain ⟨u, x, rest, hq, _, _, f3, f4⟩ := Ens.frame_enq hcore
      rw [anyMs_length] at f4
      refine ⟨extend_reach hreach hstrict, ?_, ?_, ?_, ?_⟩
      · rw [htr, f3]; simpa [trDelta] using b2
      · intro i u' x' h
        rw [hmtr] at h ⊢; rw [f4]
        simp only [mtrDelta, hq, List.mem_append] at h ⊢
        rcases h with h | h
        · rcases l1 i u' x' h with ⟨y, h1⟩ | h1
          · exact Or.inl ⟨y, Or.inl h1⟩
          · exact Or.inr (Or.inl h1)
        · right; right
          by_cases hx : x.isExc = true
          · simp [hx] at h
          · rw [if_neg hx] at h ⊢
            simp only [List.mem_map, List.mem_range] at h ⊢
            obtain ⟨j, hj, he⟩ := h
            cases he
            exact ⟨i, hj, rfl⟩
      · intro p hp
        rw [f4] at hp; rw [hmtr]
        simp only [mtrDelta, hq, List.mem_append] at hp ⊢
        rcases hp with hp | hp
        · exact Or.inl (l2 p hp)
        · right
          by_cases hx : x.isExc = true
          · simp [hx] at hp
          · rw [if_neg hx] at hp ⊢
            simp only [List.mem_map, List.mem_range] at hp ⊢
            obtain ⟨j, hj, rfl⟩ := hp
            exact ⟨j, hj, rfl⟩
      · rw [htr]; simpa [trDelta] using hsat
    | memberOut k y =>
      obtain ⟨i, u, x, hk, f1, _, _, f4⟩ := Ens.frame_memberOut hcore
      have hi := hu.pl _ (List.mem_of_getElem? hk)
      -- the member's own contract yields the guard of the box
      have h1 := hh.2 i hi
      rw [hmtr, proj_append] at h1
      simp only [mtrDelta, hk, proj_single_same] at h1
      obtain ⟨_, x', q1, q2, q3⟩ := h1.snoc_out_inv
      have hx : x' = x := by
        have r1 := mem_inp_recv hu ((mem_proj i _ _).mp q1)
        have r2 := mem_inp_recv hu (l2 _ (List.mem_of_getElem? hk))
        exact fst_unique hnd r1 r2
      subst hx
      have hstrict : Ens.step ms ff s.core (.memberOut k y) = some s'.core := by
        rw [Ens.step_memberOut_eq ms nn ff s.core k i u x' y hk hi q2]; exact hcore
      refine ⟨extend_reach hreach hstrict, ?_, ?_, ?_, ?_⟩
      · rw [htr, f4]; simpa [trDelta] using b2
      · intro j u' x'' h
        rw [hmtr] at h ⊢; rw [f1]
        simp only [mtrDelta, hk, List.mem_append, List.mem_singleton] at h ⊢
        rcases h with h | h
        · rcases l1 j u' x'' h with ⟨y', h2⟩ | h2
          · exact Or.inl ⟨y', Or.inl h2⟩
          · by_cases he : (j, (u', x'')) = (i, (u, x'))
            · cases he; exact Or.inl ⟨y, Or.inr rfl⟩
            · right
              obtain ⟨n, hn⟩ := List.getElem?_of_mem h2
              exact List.mem_eraseIdx_iff_getElem?.mpr ⟨n, by
                intro hnk; subst hnk; rw [hk] at hn; exact he (Option.some.inj hn).symm, hn⟩
        · cases h
      · intro p hp; rw [f1] at hp; rw [hmtr]
        exact List.mem_append_left _ (l2 p (List.mem_of_mem_eraseIdx hp))
      · rw [htr]; simpa [trDelta] using hsat
    | deq k =>
      have hstrict : Ens.step ms ff s.core (.deq k) = some s'.core := by
        rw [Ens.step_ms_irrel ms (anyMs nn .nil) ff _ _ hlen (by intro k y h; cases h)]; exact hcore
      obtain ⟨_, _, f3, f4⟩ := Ens.frame_deq hcore
      refine ⟨extend_reach hreach hstrict, by rw [htr, f4]; simpa [trDelta] using b2, ?_, ?_,
        by rw [htr]; simpa [trDelta] using hsat⟩
      · intro i u x h; rw [hmtr] at h ⊢; rw [f3]; simpa [mtrDelta] using l1 i u x (by simpa [mtrDelta] using h)
      · intro p hp; rw [f3] at hp; rw [hmtr]; simpa [mtrDelta] using l2 p hp
    | emit k =>
      have hstrict : Ens.step ms ff s.core (.emit k) = some s'.core := by
        rw [Ens.step_ms_irrel ms (anyMs nn .nil) ff _ _ hlen (by intro k y h; cases h)]; exact hcore
      obtain ⟨t, ht, f0, f1, _, f3⟩ := Ens.frame_emit hcore
      have hreach' := extend_reach hreach hstrict
      refine ⟨hreach', ?_, ?_, ?_, ?_⟩
      · rw [htr, List.filterMap_append, b2, f0]; simp [trDelta, ht, Ev.outOf]
      · intro i u x h; rw [hmtr] at h ⊢; rw [f3]; simpa [mtrDelta] using l1 i u x (by simpa [mtrDelta] using h)
      · intro p hp; rw [f3] at hp; rw [hmtr]; simpa [mtrDelta] using l2 p hp
      · obtain ⟨as'', hr''⟩ := hreach'
        have hcon := (Ens.contract ms ff (hms ▸ hpos) as'' s'.core hr'' (by rw [f1]; exact hnd)).1
        rw [f0, f1] at hcon
        rw [htr]; simp only [trDelta, ht]
        exact sat_emit_step hsat hu.b0 b2 hcon hnd
    | deliver =>
      have hstrict : Ens.step ms ff s.core .deliver = some s'.core := by
        rw [Ens.step_ms_irrel ms (anyMs nn .nil) ff _ _ hlen (by intro k y h; cases h)]; exact hcore
      obtain ⟨_, _, f3, f4⟩ := Ens.frame_deliver hcore
      refine ⟨extend_reach hreach hstrict, by rw [htr, f4]; simpa [trDelta] using b2, ?_, ?_,
        by rw [htr]; simpa [trDelta] using hsat⟩
      · intro i u x h; rw [hmtr] at h ⊢; rw [f3]; simpa [mtrDelta] using l1 i u x (by simpa [mtrDelta] using h)
      · intro p hp; rw [f3] at hp; rw [hmtr]; simpa [mtrDelta] using l2 p hp

/-- **ensemble case of the lifting**: a run of the ensemble with arbitrary members whose members
    have (so far) kept their own trace contracts, with distinct input uids, is a run of the node
    model with member boxes, and its boundary trace satisfies the contract for `eouts ms ff` -/
theorem lift (ms : List (Val → List Val)) (nn : Nat) (ff : Bool) (hms : ms.length = nn) (hpos : 0 < nn)
    (as : List Act) (s : State) (hr : Core.run (step nn ff) init as = some s) :
    U nn s ∧ (Hyp ms nn s → C ms ff s) := by
  refine Core.invariant_run (Inv := fun s => U nn s ∧ (Hyp ms nn s → C ms ff s)) ?_ as init s
    ⟨u_init nn, fun _ => c_init ms ff⟩ hr
  intro s a s' ⟨hu, hc⟩ hs
  refine ⟨u_step nn ff s s' a hu hs, fun hh => ?_⟩
  exact c_step ms nn ff hms hpos s s' a hu (hc (hyp_prefix ms nn ff s s' a hs hh)) hs hh

/-- the members' own proviso: each member is handed every uid at most once -/
theorem member_distinct (nn : Nat) (s : State) (hu : U nn s) (hd : DistinctIn s.tr) (i : Nat) (hi : i < nn) :
    DistinctIn (proj i s.mtr) := by
  unfold DistinctIn
  rw [hu.inps i hi]
  have hnd := WkL.nodup_recv_of_distinct hu.b0 hd
  exact List.Nodup.sublist (List.Sublist.map _ List.filter_sublist) hnd

/-- a message still pending at a member has not been answered by it -/
def L3 (s : State) : Prop := ∀ p ∈ s.core.pend, ∀ y, (p.1, Ev.out (p.2.1, y)) ∉ s.mtr

theorem l3_step (ms : List (Val → List Val)) (nn : Nat) (ff : Bool) (hms : ms.length = nn) (hpos : 0 < nn)
    (s s' : State) (a : Act) (hu : U nn s) (hc : C ms ff s) (h3 : L3 s) (hs : step nn ff s a = some s')
    (hh : Hyp ms nn s') : L3 s' := by
  have hh0 := hyp_prefix ms nn ff s s' a hs hh
  have hc' := c_step ms nn ff hms hpos s s' a hu hc hs hh
  have hu' := u_step nn ff s s' a hu hs
  obtain ⟨htr, hmtr, hcore⟩ := step_spec nn ff s s' a hs
  have hnd : (s.core.recv.map (·.1)).Nodup := WkL.nodup_recv_of_distinct hu.b0 hh0.1
  cases a with
  | junk i m =>
    exfalso
    obtain ⟨hi, hg, _⟩ := hcore
    have h1 := hh.2 i hi
    rw [hmtr, proj_append] at h1
    simp only [mtrDelta, proj_single_same] at h1
    obtain ⟨u, y⟩ := m
    obtain ⟨_, x', q1, _, q3⟩ := h1.snoc_out_inv
    rcases hc.l1 i u x' ((mem_proj i _ _).mp q1) with ⟨y', h2⟩ | h2
    · exact q3 y' ((mem_proj i _ _).mpr h2)
    · exact hg _ h2 ⟨rfl, rfl⟩
  | node a' =>
    cases a' with
    | arrive m =>
      obtain ⟨_, _, f3, _⟩ := Ens.frame_arrive hcore
      intro p hp y; rw [f3] at hp; rw [hmtr]; simpa [mtrDelta] using h3 p hp y
    | enq =>
      obtain ⟨u, x, rest, hq, _, f2, _, f4⟩ := Ens.frame_enq hcore
      rw [anyMs_length] at f4
      have hnd' : (s'.core.recv.map (·.1)).Nodup := WkL.nodup_recv_of_distinct hu'.b0 hh.1
      rw [f2] at hnd'
      have hfresh := (Ens.nodup_snoc hnd').2
      intro p hp y hmem
      rw [f4] at hp; rw [hmtr] at hmem
      simp only [mtrDelta, hq, List.mem_append] at hp hmem
      have hold : (p.1, Ev.out (p.2.1, y)) ∈ s.mtr := by
        rcases hmem with hmem | hmem
        · exact hmem
        · by_cases hx : x.isExc = true
          · simp [hx] at hmem
          · rw [if_neg hx] at hmem; simp only [List.mem_map, List.mem_range] at hmem
            obtain ⟨j, _, he⟩ := hmem; cases he
      rcases hp with hp | hp
      · exact h3 p hp y hold
      · by_cases hx : x.isExc = true
        · simp [hx] at hp
        · rw [if_neg hx] at hp; simp only [List.mem_map, List.mem_range] at hp
          obtain ⟨j, hj, rfl⟩ := hp
          -- an earlier answer of member j for the fresh uid u would need an earlier input with uid u
          have hsat := hh0.2 j hj
          obtain ⟨x', q1, _⟩ := hsat.out_mem u y ((mem_proj j _ _).mpr hold)
          have := mem_inp_recv hu ((mem_proj j _ _).mp q1)
          exact hfresh (List.mem_map.mpr ⟨(u, x'), this, rfl⟩)
    | memberOut k y =>
      obtain ⟨i, u, x, hk, f1, _, _, _⟩ := Ens.frame_memberOut hcore
      obtain ⟨as', hr'⟩ := hc.reach
      have hinv := Ens.inv_run (ms := ms) (ff := ff) (hms ▸ hpos) as' s.core hr' hnd
      -- no other pending entry has the key (i, u)
      have huniq : ∀ p ∈ s.core.pend.eraseIdx k, ¬ (p.1 = i ∧ p.2.1 = u) := by
        intro p hp hpk
        have hperm := (eraseIdx_perm s.core.pend k (i, (u, x)) hk).map (fun m : Nat × Msg => (m.1, m.2.1))
        have hnd2 : ((s.core.pend.map (fun m : Nat × Msg => (m.1, m.2.1)))).Nodup := by
          have := hinv.iknd; simp only [Ens.ik, List.map_append, List.nodup_append] at this; exact this.1
        rw [hperm.nodup_iff, List.map_cons, List.nodup_cons] at hnd2
        apply hnd2.1
        exact List.mem_map.mpr ⟨p, hp, by simp [hpk.1, hpk.2]⟩
      intro p hp y' hmem
      rw [f1] at hp; rw [hmtr] at hmem
      simp only [mtrDelta, hk, List.mem_append, List.mem_singleton] at hmem
      rcases hmem with hmem | hmem
      · exact h3 p (List.mem_of_mem_eraseIdx hp) y' hmem
      · have e1 : p.1 = i := (Prod.mk.inj hmem).1
        have e2 : p.2.1 = u := by
          have := (Prod.mk.inj hmem).2
          injection this with h4; exact (Prod.mk.inj h4).1
        exact huniq p hp ⟨e1, e2⟩
    | deq k =>
      obtain ⟨_, _, f3, _⟩ := Ens.frame_deq hcore
      intro p hp y; rw [f3] at hp; rw [hmtr]; simpa [mtrDelta] using h3 p hp y
    | emit k =>
      obtain ⟨t, _, _, _, _, f3⟩ := Ens.frame_emit hcore
      intro p hp y; rw [f3] at hp; rw [hmtr]; simpa [mtrDelta] using h3 p hp y
    | deliver =>
      obtain ⟨_, _, f3, _⟩ := Ens.frame_deliver hcore
      intro p hp y; rw [f3] at hp; rw [hmtr]; simpa [mtrDelta] using h3 p hp y

theorem lift3 (ms : List (Val → List Val)) (nn : Nat) (ff : Bool) (hms : ms.length = nn) (hpos : 0 < nn)
    (as : List Act) (s : State) (hr : Core.run (step nn ff) init as = some s) :
    U nn s ∧ (Hyp ms nn s → C ms ff s ∧ L3 s) := by
  refine Core.invariant_run (Inv := fun s => U nn s ∧ (Hyp ms nn s → C ms ff s ∧ L3 s)) ?_ as init s
    ⟨u_init nn, fun _ => ⟨c_init ms ff, by intro p hp; simp [init, Ens.init] at hp⟩⟩ hr
  intro s a s' ⟨hu, hc⟩ hs
  refine ⟨u_step nn ff s s' a hu hs, fun hh => ?_⟩
  obtain ⟨hc0, h30⟩ := hc (hyp_prefix ms nn ff s s' a hs hh)
  exact ⟨c_step ms nn ff hms hpos s s' a hu hc0 hs hh, l3_step ms nn ff hms hpos s s' a hu hc0 h30 hs hh⟩

end EnsL

/-! ## switch with arbitrary members -/

theorem Sw.step_ms_irrel (ms ms' : List (Val → List Val)) (sel : Val → Nat) (c : Sw.State) (a : Sw.Act)
    (hl : ms.length = ms'.length) (ha : ∀ k y, a ≠ .memberOut k y) :
    Sw.step ms sel c a = Sw.step ms' sel c a := by
  cases a with
  | arrive m => rfl
  | enq => simp only [Sw.step, hl]
  | memberOut k y => exact absurd rfl (ha k y)
  | emit k => rfl
  | deliver => rfl

theorem Sw.step_memberOut_eq (ms : List (Val → List Val)) (nn : Nat) (sel : Val → Nat) (c : Sw.State)
    (k i u : Nat) (x y : Val) (hk : c.pend[k]? = some (i, (u, x))) (hi : i < nn)
    (hy : y ∈ (ms.getD i (fun _ => [])) x) :
    Sw.step ms sel c (.memberOut k y) = Sw.step (anyMs nn y) sel c (.memberOut k y) := by
  simp only [Sw.step, hk, hy, if_true, anyMs_getD nn i y hi, List.mem_singleton]

theorem Sw.frame_arrive {ms : List (Val → List Val)} {sel : Val → Nat} {c c' : Sw.State} {m : Msg}
    (h : Sw.step ms sel c (.arrive m) = some c') :
    c'.recv = c.recv ∧ c'.qin = c.qin ++ [m] ∧ c'.pend = c.pend ∧ c'.sentG = c.sentG := by
  simp [Sw.step] at h; subst h; exact ⟨rfl, rfl, rfl, rfl⟩

theorem Sw.frame_enq {ms : List (Val → List Val)} {sel : Val → Nat} {c c' : Sw.State}
    (h : Sw.step ms sel c .enq = some c') :
    ∃ u x rest, c.qin = (u, x) :: rest ∧ c'.qin = rest ∧ c'.recv = c.recv ++ [(u, x)] ∧
      c'.sentG = c.sentG ∧ (x.isExc = false → sel x < ms.length) ∧
      c'.pend = c.pend ++ (if x.isExc then [] else [(sel x, (u, x))]) := by
  simp only [Sw.step] at h
  split at h
  · rename_i u x rest hq
    refine ⟨u, x, rest, hq, ?_⟩
    split at h
    · rename_i hx; simp at h; subst h; simp [hx]
    · rename_i hx
      split at h
      · rename_i hlt; simp at h; subst h; simp [hx, hlt]
      · simp at h
  · simp at h

theorem Sw.frame_memberOut {ms : List (Val → List Val)} {sel : Val → Nat} {c c' : Sw.State} {k : Nat} {y : Val}
    (h : Sw.step ms sel c (.memberOut k y) = some c') :
    ∃ i u x, c.pend[k]? = some (i, (u, x)) ∧ c'.pend = c.pend.eraseIdx k ∧
      c'.recv = c.recv ∧ c'.qin = c.qin ∧ c'.sentG = c.sentG ++ [(u, x, y)] := by
  simp only [Sw.step] at h
  split at h
  · rename_i i u x hk
    split at h
    · simp at h; subst h; exact ⟨i, u, x, hk, rfl, rfl, rfl, rfl⟩
    · simp at h
  · simp at h

theorem Sw.frame_emit {ms : List (Val → List Val)} {sel : Val → Nat} {c c' : Sw.State} {k : Nat}
    (h : Sw.step ms sel c (.emit k) = some c') :
    ∃ t, c.emitq[k]? = some t ∧ c'.sentG = c.sentG ++ [t] ∧
      c'.recv = c.recv ∧ c'.qin = c.qin ∧ c'.pend = c.pend := by
  simp only [Sw.step] at h
  split at h
  · rename_i t ht; simp at h; subst h; exact ⟨t, ht, rfl, rfl, rfl, rfl⟩
  · simp at h

theorem Sw.frame_deliver {ms : List (Val → List Val)} {sel : Val → Nat} {c c' : Sw.State}
    (h : Sw.step ms sel c .deliver = some c') :
    c'.recv = c.recv ∧ c'.qin = c.qin ∧ c'.pend = c.pend ∧ c'.sentG = c.sentG := by
  simp only [Sw.step] at h
  split at h
  · simp at h; subst h; exact ⟨rfl, rfl, rfl, rfl⟩
  · simp at h

namespace SwL

def trDelta (s : State) : Act → List Ev
  | .node (.arrive m) => [.inp m]
  | .node (.memberOut k y) => match s.core.pend[k]? with
    | some (_, (u, _)) => [.out (u, y)]
    | .none => []
  | .node (.emit k) => match s.core.emitq[k]? with
    | some t => [.out (gmsg t)]
    | .none => []
  | .junk _ m => [.out m]
  | _ => []

def mtrDelta (sel : Val → Nat) (s : State) : Act → List (Nat × Ev)
  | .node .enq => match s.core.qin with
    | (u, x) :: _ => if x.isExc then [] else [(sel x, Ev.inp (u, x))]
    | [] => []
  | .node (.memberOut k y) => match s.core.pend[k]? with
    | some (i, (u, _)) => [(i, .out (u, y))]
    | .none => []
  | .junk i m => [(i, .out m)]
  | _ => []

theorem step_spec (nn : Nat) (sel : Val → Nat) (s s' : State) (a : Act) (h : step nn sel s a = some s') :
    s'.tr = s.tr ++ trDelta s a ∧ s'.mtr = s.mtr ++ mtrDelta sel s a ∧
    match a with
    | .node (.memberOut k y) => Sw.step (anyMs nn y) sel s.core (.memberOut k y) = some s'.core
    | .node a' => Sw.step (anyMs nn .nil) sel s.core a' = some s'.core
    | .junk i m => i < nn ∧ (∀ p ∈ s.core.pend, ¬ (p.1 = i ∧ p.2.1 = m.1)) ∧
        s'.core = { s.core with qout := s.core.qout ++ [m] } := by
  cases a with
  | junk i m =>
    simp only [step] at h
    split at h
    · rename_i hg
      simp at h; subst h
      refine ⟨by simp [trDelta], by simp [mtrDelta], hg.1, ?_, rfl⟩
      intro p hp
      have := (List.all_eq_true.mp hg.2) p hp
      intro hc
      simp [hc.1, hc.2] at this
    · simp at h
  | node a' =>
    cases a' with
    | arrive m =>
      simp only [step, Option.map_eq_some_iff] at h
      obtain ⟨c, hc, rfl⟩ := h
      exact ⟨by simp [trDelta], by simp [mtrDelta], hc⟩
    | enq =>
      simp only [step] at h
      split at h
      · rename_i u x rest hq
        simp only [Option.map_eq_some_iff] at h
        obtain ⟨c, hc, rfl⟩ := h
        exact ⟨by simp [trDelta], by simp [mtrDelta, hq], hc⟩
      · simp at h
    | memberOut k y =>
      simp only [step] at h
      split at h
      · rename_i i u x hk
        simp only [Option.map_eq_some_iff] at h
        obtain ⟨c, hc, rfl⟩ := h
        exact ⟨by simp [trDelta, hk], by simp [mtrDelta, hk], hc⟩
      · simp at h
    | emit k =>
      simp only [step] at h
      split at h
      · rename_i t ht
        simp only [Option.map_eq_some_iff] at h
        obtain ⟨c, hc, rfl⟩ := h
        exact ⟨by simp [trDelta, ht], by simp [mtrDelta], hc⟩
      · simp at h
    | deliver =>
      simp only [step, Option.map_eq_some_iff] at h
      obtain ⟨c, hc, rfl⟩ := h
      exact ⟨by simp [trDelta], by simp [mtrDelta], hc⟩

structure U (nn : Nat) (sel : Val → Nat) (s : State) : Prop where
  b0 : s.tr.filterMap Ev.inpOf = s.core.recv ++ s.core.qin
  lt : ∀ e ∈ s.mtr, e.1 < nn
  pl : ∀ p ∈ s.core.pend, p.1 < nn
  inps : ∀ i, i < nn →
    (proj i s.mtr).filterMap Ev.inpOf = s.core.recv.filter (fun m => !m.2.isExc && decide (sel m.2 = i))

theorem u_init (nn : Nat) (sel : Val → Nat) : U nn sel init := by
  constructor <;> simp [init, Sw.init, proj]

theorem u_step (nn : Nat) (sel : Val → Nat) (s s' : State) (a : Act) (h : U nn sel s)
    (hs : step nn sel s a = some s') : U nn sel s' := by
  obtain ⟨htr, hmtr, hcore⟩ := step_spec nn sel s s' a hs
  obtain ⟨b0, lt, pl, inps⟩ := h
  cases a with
  | junk i m =>
    obtain ⟨hi, _, hc⟩ := hcore
    refine ⟨?_, ?_, ?_, ?_⟩
    · rw [htr, hc, List.filterMap_append, b0]; simp [trDelta, Ev.inpOf]
    · intro e he; rw [hmtr] at he
      simp only [mtrDelta, List.mem_append, List.mem_singleton] at he
      rcases he with he | he
      · exact lt e he
      · subst he; exact hi
    · rw [hc]; exact pl
    · intro j hj
      rw [hmtr, proj_append, List.filterMap_append, inps j hj, hc]
      by_cases hji : i = j
      · subst hji; simp [mtrDelta, proj_single_same, Ev.inpOf]
      · simp [mtrDelta, proj_single_ne j i _ hji]
  | node a' =>
    cases a' with
    | arrive m =>
      obtain ⟨f1, f2, f3, _⟩ := Sw.frame_arrive hcore
      refine ⟨?_, ?_, ?_, ?_⟩
      · rw [htr, List.filterMap_append, b0, f1, f2]; simp [trDelta, Ev.inpOf]
      · rw [hmtr]; simpa [mtrDelta] using lt
      · rw [f3]; exact pl
      · intro j hj; rw [hmtr, f1]; simpa [mtrDelta] using inps j hj
    | enq =>
      obtain ⟨u, x, rest, hq, f1, f2, _, f5, f4⟩ := Sw.frame_enq hcore
      rw [anyMs_length] at f5
      refine ⟨?_, ?_, ?_, ?_⟩
      · rw [htr, f1, f2]; simp [trDelta, b0, hq]
      · intro e he; rw [hmtr] at he
        simp only [mtrDelta, hq, List.mem_append] at he
        rcases he with he | he
        · exact lt e he
        · by_cases hx : x.isExc = true
          · simp [hx] at he
          · rw [if_neg hx] at he; simp at he; subst he; exact f5 (by simpa using hx)
      · intro p hp; rw [f4] at hp
        simp only [List.mem_append] at hp
        rcases hp with hp | hp
        · exact pl p hp
        · by_cases hx : x.isExc = true
          · simp [hx] at hp
          · rw [if_neg hx] at hp; simp at hp; subst hp; exact f5 (by simpa using hx)
      · intro j hj
        rw [hmtr, proj_append, List.filterMap_append, inps j hj, f2, List.filter_append]
        simp only [mtrDelta, hq]
        by_cases hx : x.isExc = true
        · simp [hx, proj]
        · have hx' : x.isExc = false := by simpa using hx
          by_cases hsj : sel x = j
          · subst hsj; simp [hx', proj_single_same, Ev.inpOf]
          · simp [hx', hsj, proj_single_ne j (sel x) _ hsj]
    | memberOut k y =>
      obtain ⟨i, u, x, hk, f1, f2, f3, _⟩ := Sw.frame_memberOut hcore
      have hi := pl _ (List.mem_of_getElem? hk)
      refine ⟨?_, ?_, ?_, ?_⟩
      · rw [htr, List.filterMap_append, b0, f2, f3]; simp [trDelta, hk, Ev.inpOf]
      · intro e he; rw [hmtr] at he
        simp only [mtrDelta, hk, List.mem_append, List.mem_singleton] at he
        rcases he with he | he
        · exact lt e he
        · subst he; exact hi
      · intro p hp; rw [f1] at hp; exact pl p (List.mem_of_mem_eraseIdx hp)
      · intro j hj
        rw [hmtr, proj_append, List.filterMap_append, inps j hj, f2]
        simp only [mtrDelta, hk]
        by_cases hji : i = j
        · subst hji; simp [proj_single_same, Ev.inpOf]
        · simp [proj_single_ne j i _ hji]
    | emit k =>
      obtain ⟨t, ht, _, f1, f2, f3⟩ := Sw.frame_emit hcore
      refine ⟨?_, by rw [hmtr]; simpa [mtrDelta] using lt, by rw [f3]; exact pl,
        fun j hj => by rw [hmtr, f1]; simpa [mtrDelta] using inps j hj⟩
      rw [htr, List.filterMap_append, b0, f1, f2]; simp [trDelta, ht, Ev.inpOf]
    | deliver =>
      obtain ⟨f1, f2, f3, _⟩ := Sw.frame_deliver hcore
      exact ⟨by rw [htr, f1, f2]; simpa [trDelta] using b0, by rw [hmtr]; simpa [mtrDelta] using lt,
        by rw [f3]; exact pl, fun j hj => by rw [hmtr, f1]; simpa [mtrDelta] using inps j hj⟩

def Hyp (ms : List (Val → List Val)) (nn : Nat) (s : State) : Prop :=
  DistinctIn s.tr ∧ ∀ i, i < nn → Sat (ms.getD i (fun _ => [])) (proj i s.mtr)

theorem hyp_prefix (ms : List (Val → List Val)) (nn : Nat) (sel : Val → Nat) (s s' : State) (a : Act)
    (hs : step nn sel s a = some s') (h : Hyp ms nn s') : Hyp ms nn s := by
  obtain ⟨htr, hmtr, _⟩ := step_spec nn sel s s' a hs
  refine ⟨distinct_prefix (htr ▸ h.1), fun i hi => ?_⟩
  have := h.2 i hi
  rw [hmtr, proj_append] at this
  exact this.prefix _ _ rfl

structure C (ms : List (Val → List Val)) (sel : Val → Nat) (s : State) : Prop where
  reach : ∃ as', Core.run (Sw.step ms sel) Sw.init as' = some s.core
  b2 : s.tr.filterMap Ev.outOf = s.core.sentG.map gmsg
  l1 : ∀ i u x, (i, Ev.inp (u, x)) ∈ s.mtr → (∃ y, (i, Ev.out (u, y)) ∈ s.mtr) ∨ (i, (u, x)) ∈ s.core.pend
  l2 : ∀ p ∈ s.core.pend, (p.1, Ev.inp p.2) ∈ s.mtr
  sat : Sat (souts ms sel) s.tr

theorem extend_reach {ms : List (Val → List Val)} {sel : Val → Nat} {c c' : Sw.State} {a : Sw.Act}
    (h : ∃ as', Core.run (Sw.step ms sel) Sw.init as' = some c) (hs : Sw.step ms sel c a = some c') :
    ∃ as', Core.run (Sw.step ms sel) Sw.init as' = some c' := by
  obtain ⟨as', h⟩ := h
  exact ⟨as' ++ [a], by rw [Core.run_append, h]; simp [Core.run_cons, hs]⟩

theorem c_init (ms : List (Val → List Val)) (sel : Val → Nat) : C ms sel init :=
  ⟨⟨[], rfl⟩, by simp [init, Sw.init], by simp [init], by simp [init, Sw.init], by simp [init]; exact Sat.nil⟩

theorem mem_inp_recv {nn : Nat} {sel : Val → Nat} {s : State} (hu : U nn sel s) {i u : Nat} {x : Val}
    (h : (i, Ev.inp (u, x)) ∈ s.mtr) : (u, x) ∈ s.core.recv := by
  have hi := hu.lt _ h
  have : (u, x) ∈ (proj i s.mtr).filterMap Ev.inpOf := mem_filterMap_inpOf.mpr ((mem_proj i _ _).mpr h)
  rw [hu.inps i hi] at this
  exact (List.mem_filter.mp this).1

theorem c_step (ms : List (Val → List Val)) (nn : Nat) (sel : Val → Nat) (hms : ms.length = nn)
    (s s' : State) (a : Act) (hu : U nn sel s) (hc : C ms sel s) (hs : step nn sel s a = some s')
    (hh : Hyp ms nn s') : C ms sel s' := by
  have hh0 := hyp_prefix ms nn sel s s' a hs hh
  obtain ⟨htr, hmtr, hcore⟩ := step_spec nn sel s s' a hs
  obtain ⟨hreach, b2, l1, l2, hsat⟩ := hc
  have hnd : (s.core.recv.map (·.1)).Nodup := WkL.nodup_recv_of_distinct hu.b0 hh0.1
  have hlen : ms.length = (anyMs nn Val.nil).length := by rw [anyMs_length, hms]
  cases a with
  | junk i m =>
    exfalso
    obtain ⟨hi, hg, _⟩ := hcore
    have h1 := hh.2 i hi
    rw [hmtr, proj_append] at h1
    simp only [mtrDelta, proj_single_same] at h1
    obtain ⟨u, y⟩ := m
    obtain ⟨_, x', q1, _, q3⟩ := h1.snoc_out_inv
    rcases l1 i u x' ((mem_proj i _ _).mp q1) with ⟨y', h2⟩ | h2
    · exact q3 y' ((mem_proj i _ _).mpr h2)
    · exact hg _ h2 ⟨rfl, rfl⟩
  | node a' =>
    cases a' with
    | arrive m =>
      have hstrict : Sw.step ms sel s.core (.arrive m) = some s'.core := by
        rw [Sw.step_ms_irrel ms (anyMs nn .nil) sel _ _ hlen (by intro k y h; cases h)]; exact hcore
      obtain ⟨_, _, f3, f4⟩ := Sw.frame_arrive hcore
      refine ⟨extend_reach hreach hstrict, ?_, ?_, ?_, ?_⟩
      · rw [htr, List.filterMap_append, b2, f4]; simp [trDelta, Ev.outOf]
      · intro i u x h; rw [hmtr] at h ⊢; rw [f3]; simpa [mtrDelta] using l1 i u x (by simpa [mtrDelta] using h)
      · intro p hp; rw [f3] at hp; rw [hmtr]; simpa [mtrDelta] using l2 p hp
      · rw [htr]; exact Sat.inp _ m hsat
    | enq =>
      have hstrict : Sw.step ms sel s.core .enq = some s'.core := by
        rw [Sw.step_ms_irrel ms (anyMs nn .nil) sel _ _ hlen (by intro k y h; cases h)]; exact hcore
      obtain ⟨u, x, rest, hq, _, _, f3, _, f4⟩ := Sw.frame_enq hcore
      refine ⟨extend_reach hreach hstrict, ?_, ?_, ?_, ?_⟩
      · rw [htr, f3]; simpa [trDelta] using b2
      · intro i u' x' h
        rw [hmtr] at h ⊢; rw [f4]
        simp only [mtrDelta, hq, List.mem_append] at h ⊢
        rcases h with h | h
        · rcases l1 i u' x' h with ⟨y, h1⟩ | h1
          · exact Or.inl ⟨y, Or.inl h1⟩
          · exact Or.inr (Or.inl h1)
        · right; right
          by_cases hx : x.isExc = true
          · simp [hx] at h
          · rw [if_neg hx] at h ⊢
            simp only [List.mem_singleton] at h ⊢
            cases h; rfl
      · intro p hp
        rw [f4] at hp; rw [hmtr]
        simp only [mtrDelta, hq, List.mem_append] at hp ⊢
        rcases hp with hp | hp
        · exact Or.inl (l2 p hp)
        · right
          by_cases hx : x.isExc = true
          · simp [hx] at hp
          · rw [if_neg hx] at hp ⊢
            simp only [List.mem_singleton] at hp ⊢
            subst hp; rfl
      · rw [htr]; simpa [trDelta] using hsat
    | memberOut k y =>
      obtain ⟨i, u, x, hk, f1, f2, _, f4⟩ := Sw.frame_memberOut hcore
      have hi := hu.pl _ (List.mem_of_getElem? hk)
      have h1 := hh.2 i hi
      rw [hmtr, proj_append] at h1
      simp only [mtrDelta, hk, proj_single_same] at h1
      obtain ⟨_, x', q1, q2, q3⟩ := h1.snoc_out_inv
      have hx : x' = x := by
        have r1 := mem_inp_recv hu ((mem_proj i _ _).mp q1)
        have r2 := mem_inp_recv hu (l2 _ (List.mem_of_getElem? hk))
        exact fst_unique hnd r1 r2
      subst hx
      have hstrict : Sw.step ms sel s.core (.memberOut k y) = some s'.core := by
        rw [Sw.step_memberOut_eq ms nn sel s.core k i u x' y hk hi q2]; exact hcore
      have hreach' := extend_reach hreach hstrict
      refine ⟨hreach', ?_, ?_, ?_, ?_⟩
      · rw [htr, List.filterMap_append, b2, f4]; simp [trDelta, hk, Ev.outOf, gmsg]
      · intro j u' x'' h
        rw [hmtr] at h ⊢; rw [f1]
        simp only [mtrDelta, hk, List.mem_append, List.mem_singleton] at h ⊢
        rcases h with h | h
        · rcases l1 j u' x'' h with ⟨y', h2⟩ | h2
          · exact Or.inl ⟨y', Or.inl h2⟩
          · by_cases he : (j, (u', x'')) = (i, (u, x'))
            · cases he; exact Or.inl ⟨y, Or.inr rfl⟩
            · right
              obtain ⟨n, hn⟩ := List.getElem?_of_mem h2
              exact List.mem_eraseIdx_iff_getElem?.mpr ⟨n, by
                intro hnk; subst hnk; rw [hk] at hn; exact he (Option.some.inj hn).symm, hn⟩
        · cases h
      · intro p hp; rw [f1] at hp; rw [hmtr]
        exact List.mem_append_left _ (l2 p (List.mem_of_mem_eraseIdx hp))
      · obtain ⟨as'', hr''⟩ := hreach'
        have hcon := (Sw.contract ms sel as'' s'.core hr'').1
        rw [f4, f2] at hcon
        rw [htr]; simp only [trDelta, hk]
        exact sat_emit_step (t := (u, x', y)) hsat hu.b0 b2 hcon hnd
    | emit k =>
      have hstrict : Sw.step ms sel s.core (.emit k) = some s'.core := by
        rw [Sw.step_ms_irrel ms (anyMs nn .nil) sel _ _ hlen (by intro k y h; cases h)]; exact hcore
      obtain ⟨t, ht, f0, f1, _, f3⟩ := Sw.frame_emit hcore
      have hreach' := extend_reach hreach hstrict
      refine ⟨hreach', ?_, ?_, ?_, ?_⟩
      · rw [htr, List.filterMap_append, b2, f0]; simp [trDelta, ht, Ev.outOf]
      · intro i u x h; rw [hmtr] at h ⊢; rw [f3]; simpa [mtrDelta] using l1 i u x (by simpa [mtrDelta] using h)
      · intro p hp; rw [f3] at hp; rw [hmtr]; simpa [mtrDelta] using l2 p hp
      · obtain ⟨as'', hr''⟩ := hreach'
        have hcon := (Sw.contract ms sel as'' s'.core hr'').1
        rw [f0, f1] at hcon
        rw [htr]; simp only [trDelta, ht]
        exact sat_emit_step hsat hu.b0 b2 hcon hnd
    | deliver =>
      have hstrict : Sw.step ms sel s.core .deliver = some s'.core := by
        rw [Sw.step_ms_irrel ms (anyMs nn .nil) sel _ _ hlen (by intro k y h; cases h)]; exact hcore
      obtain ⟨_, _, f3, f4⟩ := Sw.frame_deliver hcore
      refine ⟨extend_reach hreach hstrict, by rw [htr, f4]; simpa [trDelta] using b2, ?_, ?_,
        by rw [htr]; simpa [trDelta] using hsat⟩
      · intro i u x h; rw [hmtr] at h ⊢; rw [f3]; simpa [mtrDelta] using l1 i u x (by simpa [mtrDelta] using h)
      · intro p hp; rw [f3] at hp; rw [hmtr]; simpa [mtrDelta] using l2 p hp

/-- **switch case of the lifting** -/
theorem lift (ms : List (Val → List Val)) (nn : Nat) (sel : Val → Nat) (hms : ms.length = nn)
    (as : List Act) (s : State) (hr : Core.run (step nn sel) init as = some s) :
    U nn sel s ∧ (Hyp ms nn s → C ms sel s) := by
  refine Core.invariant_run (Inv := fun s => U nn sel s ∧ (Hyp ms nn s → C ms sel s)) ?_ as init s
    ⟨u_init nn sel, fun _ => c_init ms sel⟩ hr
  intro s a s' ⟨hu, hc⟩ hs
  refine ⟨u_step nn sel s s' a hu hs, fun hh => ?_⟩
  exact c_step ms nn sel hms s s' a hu (hc (hyp_prefix ms nn sel s s' a hs hh)) hs hh

theorem member_distinct (nn : Nat) (sel : Val → Nat) (s : State) (hu : U nn sel s) (hd : DistinctIn s.tr)
    (i : Nat) (hi : i < nn) : DistinctIn (proj i s.mtr) := by
  unfold DistinctIn
  rw [hu.inps i hi]
  have hnd := WkL.nodup_recv_of_distinct hu.b0 hd
  exact List.Nodup.sublist (List.Sublist.map _ List.filter_sublist) hnd

def L3 (s : State) : Prop := ∀ p ∈ s.core.pend, ∀ y, (p.1, Ev.out (p.2.1, y)) ∉ s.mtr

theorem l3_step (ms : List (Val → List Val)) (nn : Nat) (sel : Val → Nat) (hms : ms.length = nn)
    (s s' : State) (a : Act) (hu : U nn sel s) (hc : C ms sel s) (h3 : L3 s)
    (hs : step nn sel s a = some s') (hh : Hyp ms nn s') : L3 s' := by
  have hh0 := hyp_prefix ms nn sel s s' a hs hh
  have hu' := u_step nn sel s s' a hu hs
  obtain ⟨htr, hmtr, hcore⟩ := step_spec nn sel s s' a hs
  have hnd : (s.core.recv.map (·.1)).Nodup := WkL.nodup_recv_of_distinct hu.b0 hh0.1
  cases a with
  | junk i m =>
    exfalso
    obtain ⟨hi, hg, _⟩ := hcore
    have h1 := hh.2 i hi
    rw [hmtr, proj_append] at h1
    simp only [mtrDelta, proj_single_same] at h1
    obtain ⟨u, y⟩ := m
    obtain ⟨_, x', q1, _, q3⟩ := h1.snoc_out_inv
    rcases hc.l1 i u x' ((mem_proj i _ _).mp q1) with ⟨y', h2⟩ | h2
    · exact q3 y' ((mem_proj i _ _).mpr h2)
    · exact hg _ h2 ⟨rfl, rfl⟩
  | node a' =>
    cases a' with
    | arrive m =>
      obtain ⟨_, _, f3, _⟩ := Sw.frame_arrive hcore
      intro p hp y; rw [f3] at hp; rw [hmtr]; simpa [mtrDelta] using h3 p hp y
    | enq =>
      obtain ⟨u, x, rest, hq, _, f2, _, _, f4⟩ := Sw.frame_enq hcore
      have hnd' : (s'.core.recv.map (·.1)).Nodup := WkL.nodup_recv_of_distinct hu'.b0 hh.1
      rw [f2] at hnd'
      have hfresh := (Ens.nodup_snoc hnd').2
      intro p hp y hmem
      rw [f4] at hp; rw [hmtr] at hmem
      simp only [mtrDelta, hq, List.mem_append] at hp hmem
      have hold : (p.1, Ev.out (p.2.1, y)) ∈ s.mtr := by
        rcases hmem with hmem | hmem
        · exact hmem
        · by_cases hx : x.isExc = true
          · simp [hx] at hmem
          · rw [if_neg hx] at hmem; simp only [List.mem_singleton] at hmem
            have := (Prod.mk.inj hmem).2; cases this
      rcases hp with hp | hp
      · exact h3 p hp y hold
      · by_cases hx : x.isExc = true
        · simp [hx] at hp
        · rw [if_neg hx] at hp; simp only [List.mem_singleton] at hp
          subst hp
          have hj := hu.lt _ hold
          have hsat := hh0.2 (sel x) hj
          obtain ⟨x', q1, _⟩ := hsat.out_mem u y ((mem_proj (sel x) _ _).mpr hold)
          have := mem_inp_recv hu ((mem_proj (sel x) _ _).mp q1)
          exact hfresh (List.mem_map.mpr ⟨(u, x'), this, rfl⟩)
    | memberOut k y =>
      obtain ⟨i, u, x, hk, f1, _, _, _⟩ := Sw.frame_memberOut hcore
      obtain ⟨as', hr'⟩ := hc.reach
      have hinv := Sw.inv_run ms sel as' s.core hr'
      -- no other pending entry carries uid u: it would be the same message, counted twice
      have huniq : ∀ p ∈ s.core.pend.eraseIdx k, p.2.1 ≠ u := by
        intro p hp hpu
        have hcnt := fun m => hinv.cons m
        have hin : ∀ q ∈ s.core.pend, q.2 ∈ s.core.recv := by
          intro q hq
          have h1 := hcnt q.2
          have h2 : 0 < (s.core.pend.map (·.2)).count q.2 := List.count_pos_iff.mpr (List.mem_map.mpr ⟨q, hq, rfl⟩)
          exact List.count_pos_iff.mp (by omega)
        have r1 := hin p (List.mem_of_mem_eraseIdx hp)
        have r2 := hin _ (List.mem_of_getElem? hk)
        have hx : p.2.2 = x := fst_unique hnd (u := u) (by rw [← hpu]; exact r1) r2
        have hp2 : p.2 = (u, x) := Prod.ext hpu hx
        have h1 := count_map_eraseIdx (fun q : Nat × Msg => q.2) (u, x) s.core.pend k (i, (u, x)) hk
        have h2 : 0 < ((s.core.pend.eraseIdx k).map (·.2)).count (u, x) :=
          List.count_pos_iff.mpr (List.mem_map.mpr ⟨p, hp, hp2⟩)
        have h3' := hcnt (u, x)
        have h4 := (List.nodup_iff_count.mp (nodup_of_nodup_fst hnd)) (u, x)
        simp only [if_true] at h1
        omega
      intro p hp y' hmem
      rw [f1] at hp; rw [hmtr] at hmem
      simp only [mtrDelta, hk, List.mem_append, List.mem_singleton] at hmem
      rcases hmem with hmem | hmem
      · exact h3 p (List.mem_of_mem_eraseIdx hp) y' hmem
      · have e2 : p.2.1 = u := by
          have := (Prod.mk.inj hmem).2
          injection this with h4; exact (Prod.mk.inj h4).1
        exact huniq p hp e2
    | emit k =>
      obtain ⟨t, _, _, _, _, f3⟩ := Sw.frame_emit hcore
      intro p hp y; rw [f3] at hp; rw [hmtr]; simpa [mtrDelta] using h3 p hp y
    | deliver =>
      obtain ⟨_, _, f3, _⟩ := Sw.frame_deliver hcore
      intro p hp y; rw [f3] at hp; rw [hmtr]; simpa [mtrDelta] using h3 p hp y

theorem lift3 (ms : List (Val → List Val)) (nn : Nat) (sel : Val → Nat) (hms : ms.length = nn)
    (as : List Act) (s : State) (hr : Core.run (step nn sel) init as = some s) :
    U nn sel s ∧ (Hyp ms nn s → C ms sel s ∧ L3 s) := by
  refine Core.invariant_run (Inv := fun s => U nn sel s ∧ (Hyp ms nn s → C ms sel s ∧ L3 s)) ?_ as init s
    ⟨u_init nn sel, fun _ => ⟨c_init ms sel, by intro p hp; simp [init, Sw.init] at hp⟩⟩ hr
  intro s a s' ⟨hu, hc⟩ hs
  refine ⟨u_step nn sel s s' a hu hs, fun hh => ?_⟩
  obtain ⟨hc0, h30⟩ := hc (hyp_prefix ms nn sel s s' a hs hh)
  exact ⟨c_step ms nn sel hms s s' a hu hc0 hs hh, l3_step ms nn sel hms s s' a hu hc0 h30 hs hh⟩

end SwL
/-! ## sequences -/

theorem pA_append (a b : List Ev3) : pA (a ++ b) = pA a ++ pA b := by
  induction a with
  | nil => rfl
  | cons e a ih => cases e <;> simp [pA, ih]

theorem pB_append (a b : List Ev3) : pB (a ++ b) = pB a ++ pB b := by
  induction a with
  | nil => rfl
  | cons e a ih => cases e <;> simp [pB, ih]

theorem pE_append (a b : List Ev3) : pE (a ++ b) = pE a ++ pE b := by
  induction a with
  | nil => rfl
  | cons e a ih => cases e <;> simp [pE, ih]

theorem mem_pA_inp (τ : List Ev3) (m : Msg) : Ev.inp m ∈ pA τ ↔ Ev3.extIn m ∈ τ := by
  induction τ with
  | nil => simp [pA]
  | cons e τ ih => cases e <;> simp [pA, ih]

theorem mem_pA_out (τ : List Ev3) (m : Msg) : Ev.out m ∈ pA τ ↔ Ev3.mid m ∈ τ := by
  induction τ with
  | nil => simp [pA]
  | cons e τ ih => cases e <;> simp [pA, ih]

theorem mem_pB_inp (τ : List Ev3) (m : Msg) : Ev.inp m ∈ pB τ ↔ Ev3.mid m ∈ τ := by
  induction τ with
  | nil => simp [pB]
  | cons e τ ih => cases e <;> simp [pB, ih]

theorem mem_pB_out (τ : List Ev3) (m : Msg) : Ev.out m ∈ pB τ ↔ Ev3.extOut m ∈ τ := by
  induction τ with
  | nil => simp [pB]
  | cons e τ ih => cases e <;> simp [pB, ih]

theorem mem_pE_inp (τ : List Ev3) (m : Msg) : Ev.inp m ∈ pE τ ↔ Ev3.extIn m ∈ τ := by
  induction τ with
  | nil => simp [pE]
  | cons e τ ih => cases e <;> simp [pE, ih]

theorem mem_pE_out (τ : List Ev3) (m : Msg) : Ev.out m ∈ pE τ ↔ Ev3.extOut m ∈ τ := by
  induction τ with
  | nil => simp [pE]
  | cons e τ ih => cases e <;> simp [pE, ih]

@[simp] theorem inpOf_inp (m : Msg) : (Ev.inp m).inpOf = some m := rfl
@[simp] theorem inpOf_out (m : Msg) : (Ev.out m).inpOf = none := rfl
@[simp] theorem outOf_inp (m : Msg) : (Ev.inp m).outOf = none := rfl
@[simp] theorem outOf_out (m : Msg) : (Ev.out m).outOf = some m := rfl

theorem inps_pA_eq_pE (τ : List Ev3) : (pA τ).filterMap Ev.inpOf = (pE τ).filterMap Ev.inpOf := by
  induction τ with
  | nil => rfl
  | cons e τ ih => cases e <;> simp [pA, pE, List.filterMap_cons, ih]

theorem inps_pB_eq_outs_pA (τ : List Ev3) : (pB τ).filterMap Ev.inpOf = (pA τ).filterMap Ev.outOf := by
  induction τ with
  | nil => rfl
  | cons e τ ih => cases e <;> simp [pA, pB, List.filterMap_cons, ih]

/-- **sequence case of the lifting**: the first stage's and the rest's trace contracts compose -/
theorem seq_sat (oA oB : Val → List Val) : ∀ (n : Nat) (τ : List Ev3), τ.length = n →
    Sat oA (pA τ) → Sat oB (pB τ) → Sat (fun x => (oA x).flatMap oB) (pE τ) := by
  intro n
  induction n with
  | zero =>
    intro τ hl _ _
    have : τ = [] := List.eq_nil_of_length_eq_zero hl
    subst this; exact Sat.nil
  | succ n ih =>
    intro τ hl hA hB
    rcases List.eq_nil_or_concat τ with hτ | ⟨τ', e, hτ⟩
    · subst hτ; simp at hl
    · subst hτ
      rw [List.concat_eq_append] at hl hA hB ⊢
      have hl' : τ'.length = n := by simpa using hl
      rw [pA_append] at hA; rw [pB_append] at hB; rw [pE_append]
      cases e with
      | extIn m =>
        simp only [pA, pB, pE, List.append_nil] at hA hB ⊢
        exact Sat.inp _ m (ih τ' hl' hA.snoc_inp_inv hB)
      | mid m =>
        simp only [pA, pB, pE, List.append_nil] at hA hB ⊢
        obtain ⟨u, y⟩ := m
        exact ih τ' hl' hA.snoc_out_inv.1 hB.snoc_inp_inv
      | extOut m =>
        simp only [pA, pB, pE, List.append_nil] at hA hB ⊢
        obtain ⟨u, z⟩ := m
        obtain ⟨hB', y, q1, q2, q3⟩ := hB.snoc_out_inv
        have hE := ih τ' hl' hA hB'
        have hmid : Ev.out (u, y) ∈ pA τ' := (mem_pA_out τ' _).mpr ((mem_pB_inp τ' _).mp q1)
        obtain ⟨x, r1, r2⟩ := hA.out_mem u y hmid
        refine Sat.out _ u x z hE ((mem_pE_inp τ' _).mpr ((mem_pA_inp τ' _).mp r1))
          (List.mem_flatMap.mpr ⟨y, r2, q2⟩) ?_
        intro y' hy'
        exact q3 y' ((mem_pB_out τ' _).mpr ((mem_pE_out τ' _).mp hy'))

theorem seq_distinct (oA : Val → List Val) (τ : List Ev3) (hA : Sat oA (pA τ)) (hd : DistinctIn (pE τ)) :
    DistinctIn (pA τ) ∧ DistinctIn (pB τ) := by
  unfold DistinctIn at *
  refine ⟨by rw [inps_pA_eq_pE]; exact hd, ?_⟩
  rw [inps_pB_eq_outs_pA]; exact hA.out_unique

/-! ## the whole tree -/

mutual
/-- well-formed trees: every batched worker's `berrs` covers what its batched `call` may raise;
    an ensemble has at least one member (the code asserts more than one) -/
def WF : Tree → Prop
  | .worker w => Wk.BerrsOk w
  | .seq ts => WFs ts
  | .ens ts _ => 0 < ts.length ∧ WFs ts
  | .switch ts _ => WFs ts
def WFs : List Tree → Prop
  | [] => True
  | t :: ts => WF t ∧ WFs ts
end

theorem flatMap_pure {α : Type} (l : List α) : l.flatMap (fun y => [y]) = l := by
  induction l with
  | nil => rfl
  | cons a l ih => simp [List.flatMap_cons, ih]

mutual
/-- **Whole-tree theorem.**  Every boundary trace of a concrete servlet tree — every node
    operational, every interleaving, members constrained only by being behaviours of the member
    subtrees — whose input uids are pairwise distinct satisfies the trace contract for the
    denotation `outs t`: each message put on the tree's output queue is `(u, y)` for an earlier input
    `(u, x)` with `y ∈ outs t x`, and no uid is answered twice. -/
theorem tree_sat : (t : Tree) → WF t → ∀ σ, Tr t σ → DistinctIn σ → Sat (outs t) σ
  | .worker w, hw, σ, htr, hd => by
    simp only [Tr] at htr
    obtain ⟨as, s, hr, rfl⟩ := htr
    exact Sat.congr (fun x => by simp [outs]) (WkL.sat w hw as s hr hd)
  | .seq ts, hw, σ, htr, hd => by
    simp only [Tr] at htr
    exact Sat.congr (fun x => by simp [outs]) (seqs_sat ts hw σ htr hd)
  | .ens ts ff, hw, σ, htr, hd => by
    simp only [Tr] at htr
    obtain ⟨as, s, hr, rfl, hall⟩ := htr
    obtain ⟨hu, hc⟩ := EnsL.lift (ts.map outs) ts.length ff (by simp) hw.1 as s hr
    have hyp : EnsL.Hyp (ts.map outs) ts.length s := by
      refine ⟨hd, fun i hi => ?_⟩
      have := all_sat ts hw.2 0 s.mtr hall
        (fun j hj => by rw [Nat.zero_add]; exact EnsL.member_distinct ts.length s hu hd j hj) i hi
      rwa [Nat.zero_add] at this
    exact Sat.congr (fun x => by simp [outs, eouts, outsEach_eq]) (hc hyp).sat
  | .switch ts sel, hw, σ, htr, hd => by
    simp only [Tr] at htr
    obtain ⟨as, s, hr, rfl, hall⟩ := htr
    obtain ⟨hu, hc⟩ := SwL.lift (ts.map outs) ts.length sel (by simp) as s hr
    have hyp : SwL.Hyp (ts.map outs) ts.length s := by
      refine ⟨hd, fun i hi => ?_⟩
      have := all_sat ts hw 0 s.mtr hall
        (fun j hj => by rw [Nat.zero_add]; exact SwL.member_distinct ts.length sel s hu hd j hj) i hi
      rwa [Nat.zero_add] at this
    exact Sat.congr (fun x => by simp [outs, souts, outsNth_eq]) (hc hyp).sat
/-- members: the trace each member saw satisfies that member's contract -/
theorem all_sat : (ts : List Tree) → WFs ts → ∀ (k : Nat) (mtr : List (Nat × Ev)), TrAll ts k mtr →
    (∀ i, i < ts.length → DistinctIn (proj (k + i) mtr)) →
    ∀ i, i < ts.length → Sat ((ts.map outs).getD i (fun _ => [])) (proj (k + i) mtr)
  | [], _, _, _, _, _ => fun i hi => absurd hi (by simp)
  | t :: ts, hw, k, mtr, hall, hd => fun i hi => by
    simp only [TrAll] at hall
    cases i with
    | zero =>
      simp only [List.map_cons, List.getD_cons_zero, Nat.add_zero]
      exact tree_sat t hw.1 _ hall.1 (by simpa using hd 0 (by simp))
    | succ i =>
      have hi' : i < ts.length := by simpa using hi
      have := all_sat ts hw.2 (k + 1) mtr hall.2
        (fun j hj => by
          have := hd (j + 1) (by simpa using hj)
          rwa [show k + (j + 1) = k + 1 + j by omega] at this) i hi'
      simp only [List.map_cons, List.getD_cons_succ]
      rwa [show k + 1 + i = k + (i + 1) by omega] at this
/-- sequences -/
theorem seqs_sat : (ts : List Tree) → WFs ts → ∀ σ, TrSeq ts σ → DistinctIn σ → Sat (outsSeq ts) σ
  | [], _, _, htr, _ => by simp [TrSeq] at htr
  | [t], hw, σ, htr, hd => by
    simp only [TrSeq] at htr
    exact Sat.congr (fun x => by simp [outsSeq, flatMap_pure]) (tree_sat t hw.1 σ htr hd)
  | t :: t' :: ts, hw, σ, htr, hd => by
    simp only [TrSeq] at htr
    obtain ⟨τ, hA, hB, rfl⟩ := htr
    have hdA : DistinctIn (pA τ) := by
      unfold DistinctIn at hd ⊢; rw [inps_pA_eq_pE]; exact hd
    have sA := tree_sat t hw.1 (pA τ) hA hdA
    have hdB := (seq_distinct (outs t) τ sA hd).2
    have sB := seqs_sat (t' :: ts) hw.2 (pB τ) hB hdB
    exact Sat.congr (fun x => by simp [outsSeq]) (seq_sat (outs t) (outsSeq (t' :: ts)) τ.length τ rfl sA sB)
end

/-! ## completeness: a tree at rest has answered every request -/

mutual
theorem trq_tr : (t : Tree) → ∀ σ, TrQ t σ → Tr t σ
  | .worker w, σ, h => by
    simp only [TrQ] at h; simp only [Tr]
    obtain ⟨as, s, hr, hs, _⟩ := h; exact ⟨as, s, hr, hs⟩
  | .seq ts, σ, h => by
    simp only [TrQ] at h; simp only [Tr]; exact trqseq_trseq ts σ h
  | .ens ts ff, σ, h => by
    simp only [TrQ] at h; simp only [Tr]
    obtain ⟨as, s, hr, hs, _, _, _, hall⟩ := h
    exact ⟨as, s, hr, hs, trqall_trall ts 0 s.mtr hall⟩
  | .switch ts sel, σ, h => by
    simp only [TrQ] at h; simp only [Tr]
    obtain ⟨as, s, hr, hs, _, _, hall⟩ := h
    exact ⟨as, s, hr, hs, trqall_trall ts 0 s.mtr hall⟩
theorem trqall_trall : (ts : List Tree) → ∀ k mtr, TrQAll ts k mtr → TrAll ts k mtr
  | [], _, _, _ => by simp [TrAll]
  | t :: ts, k, mtr, h => by
    simp only [TrQAll] at h; simp only [TrAll]
    exact ⟨trq_tr t _ h.1, trqall_trall ts (k + 1) mtr h.2⟩
theorem trqseq_trseq : (ts : List Tree) → ∀ σ, TrQSeq ts σ → TrSeq ts σ
  | [], _, h => by simp [TrQSeq] at h
  | [t], σ, h => by simp only [TrQSeq] at h; simp only [TrSeq]; exact trq_tr t σ h
  | t :: t' :: ts, σ, h => by
    simp only [TrQSeq] at h; simp only [TrSeq]
    obtain ⟨τ, hA, hB, hs⟩ := h
    exact ⟨τ, trq_tr t _ hA, trqseq_trseq (t' :: ts) _ hB, hs⟩
end

/-- from the node-level completeness to the trace: every input has an output -/
theorem answered_in_trace {tr : List Ev} {recv : List Msg} {sentG : List GMsg}
    (b0 : tr.filterMap Ev.inpOf = recv) (b2 : tr.filterMap Ev.outOf = sentG.map gmsg)
    (hc : Complete recv sentG) (u : Nat) (x : Val) (h : Ev.inp (u, x) ∈ tr) : ∃ y, Ev.out (u, y) ∈ tr := by
  have : (u, x) ∈ recv := by rw [← b0]; exact mem_filterMap_inpOf.mpr h
  obtain ⟨t, ht, hk⟩ := hc.answered _ this
  refine ⟨t.2.2, mem_filterMap_outOf.mp ?_⟩
  rw [b2]
  have hu : t.1 = u := (Prod.mk.inj hk).1
  exact List.mem_map.mpr ⟨t, ht, by simp [gmsg, hu]⟩

mutual
/-- **Whole-tree completeness.**  In a behaviour of the concrete tree that has come to rest, with
    distinct input uids, every request that entered has been answered (and by `tree_sat` exactly once,
    with an allowed outcome of its own input). -/
theorem tree_complete : (t : Tree) → WF t → ∀ σ, TrQ t σ → DistinctIn σ →
    ∀ u x, Ev.inp (u, x) ∈ σ → ∃ y, Ev.out (u, y) ∈ σ
  | .worker w, hw, σ, htr, hd => by
    simp only [TrQ] at htr
    obtain ⟨as, s, hr, rfl, hq⟩ := htr
    have h0 : WkL.Inv0 w s := Core.invariant_run (Inv := WkL.Inv0 w)
      (fun s a s' h hs => WkL.inv0_step w s s' a h hs) as WkL.init s
      ⟨⟨[], rfl⟩, ⟨by simp [WkL.init, Wk.init], by simp [WkL.init, Wk.init]⟩⟩ hr
    obtain ⟨⟨as', hr'⟩, ⟨b0, b2⟩⟩ := h0
    have hc := (Wk.contract w hw as' s.core hr').2 hq
    intro u x h
    exact answered_in_trace (by rw [b0, hq.1, List.append_nil]) b2 hc u x h
  | .seq ts, hw, σ, htr, hd => by
    simp only [TrQ] at htr
    exact seqs_complete ts hw σ htr hd
  | .ens ts ff, hw, σ, htr, hd => by
    simp only [TrQ] at htr
    obtain ⟨as, s, hr, rfl, q1, q3, q4, hall⟩ := htr
    obtain ⟨hu, hc⟩ := EnsL.lift3 (ts.map outs) ts.length ff (by simp) hw.1 as s hr
    have hmd : ∀ j, j < ts.length → DistinctIn (proj (0 + j) s.mtr) :=
      fun j hj => by rw [Nat.zero_add]; exact EnsL.member_distinct ts.length s hu hd j hj
    have hyp : EnsL.Hyp (ts.map outs) ts.length s := by
      refine ⟨hd, fun i hi => ?_⟩
      have := all_sat ts hw.2 0 s.mtr (trqall_trall ts 0 s.mtr hall) hmd i hi
      rwa [Nat.zero_add] at this
    obtain ⟨hC, h3⟩ := hc hyp
    have hpend : s.core.pend = [] := by
      apply List.eq_nil_iff_forall_not_mem.mpr
      intro p hp
      have hi := hu.pl p hp
      have hin := hC.l2 p hp
      have := all_complete ts hw.2 0 s.mtr hall hmd p.1 hi p.2.1 p.2.2
        (by rw [Nat.zero_add]; exact (mem_proj _ _ _).mpr hin)
      obtain ⟨y, hy⟩ := this
      rw [Nat.zero_add] at hy
      exact h3 p hp y ((mem_proj _ _ _).mp hy)
    obtain ⟨as', hr'⟩ := hC.reach
    have hnd := WkL.nodup_recv_of_distinct hu.b0 hd
    have hcomp := (Ens.contract (ts.map outs) ff (by simpa using hw.1) as' s.core hr' hnd).2 ⟨q1, hpend, q3, q4⟩
    intro u x h
    exact answered_in_trace (by rw [hu.b0, q1, List.append_nil]) hC.b2 hcomp u x h
  | .switch ts sel, hw, σ, htr, hd => by
    simp only [TrQ] at htr
    obtain ⟨as, s, hr, rfl, q1, q4, hall⟩ := htr
    obtain ⟨hu, hc⟩ := SwL.lift3 (ts.map outs) ts.length sel (by simp) as s hr
    have hmd : ∀ j, j < ts.length → DistinctIn (proj (0 + j) s.mtr) :=
      fun j hj => by rw [Nat.zero_add]; exact SwL.member_distinct ts.length sel s hu hd j hj
    have hyp : SwL.Hyp (ts.map outs) ts.length s := by
      refine ⟨hd, fun i hi => ?_⟩
      have := all_sat ts hw 0 s.mtr (trqall_trall ts 0 s.mtr hall) hmd i hi
      rwa [Nat.zero_add] at this
    obtain ⟨hC, h3⟩ := hc hyp
    have hpend : s.core.pend = [] := by
      apply List.eq_nil_iff_forall_not_mem.mpr
      intro p hp
      have hi := hu.pl p hp
      have hin := hC.l2 p hp
      have := all_complete ts hw 0 s.mtr hall hmd p.1 hi p.2.1 p.2.2
        (by rw [Nat.zero_add]; exact (mem_proj _ _ _).mpr hin)
      obtain ⟨y, hy⟩ := this
      rw [Nat.zero_add] at hy
      exact h3 p hp y ((mem_proj _ _ _).mp hy)
    obtain ⟨as', hr'⟩ := hC.reach
    have hcomp := (Sw.contract (ts.map outs) sel as' s.core hr').2 ⟨q1, hpend, q4⟩
    intro u x h
    exact answered_in_trace (by rw [hu.b0, q1, List.append_nil]) hC.b2 hcomp u x h
theorem all_complete : (ts : List Tree) → WFs ts → ∀ (k : Nat) (mtr : List (Nat × Ev)), TrQAll ts k mtr →
    (∀ i, i < ts.length → DistinctIn (proj (k + i) mtr)) →
    ∀ i, i < ts.length → ∀ u x, Ev.inp (u, x) ∈ proj (k + i) mtr → ∃ y, Ev.out (u, y) ∈ proj (k + i) mtr
  | [], _, _, _, _, _ => fun i hi => absurd hi (by simp)
  | t :: ts, hw, k, mtr, hall, hd => fun i hi => by
    simp only [TrQAll] at hall
    cases i with
    | zero =>
      simp only [Nat.add_zero]
      exact tree_complete t hw.1 _ hall.1 (by simpa using hd 0 (by simp))
    | succ i =>
      have hi' : i < ts.length := by simpa using hi
      have := all_complete ts hw.2 (k + 1) mtr hall.2
        (fun j hj => by
          have := hd (j + 1) (by simpa using hj)
          rwa [show k + (j + 1) = k + 1 + j by omega] at this) i hi'
      rwa [show k + 1 + i = k + (i + 1) by omega] at this
theorem seqs_complete : (ts : List Tree) → WFs ts → ∀ σ, TrQSeq ts σ → DistinctIn σ →
    ∀ u x, Ev.inp (u, x) ∈ σ → ∃ y, Ev.out (u, y) ∈ σ
  | [], _, _, htr, _ => by simp [TrQSeq] at htr
  | [t], hw, σ, htr, hd => by
    simp only [TrQSeq] at htr
    exact tree_complete t hw.1 σ htr hd
  | t :: t' :: ts, hw, σ, htr, hd => by
    simp only [TrQSeq] at htr
    obtain ⟨τ, hA, hB, rfl⟩ := htr
    have hdA : DistinctIn (pA τ) := by
      unfold DistinctIn at hd ⊢; rw [inps_pA_eq_pE]; exact hd
    have sA := tree_sat t hw.1 (pA τ) (trq_tr t _ hA) hdA
    have hdB := (seq_distinct (outs t) τ sA hd).2
    intro u x h
    obtain ⟨y, hy⟩ := tree_complete t hw.1 (pA τ) hA hdA u x ((mem_pA_inp τ _).mpr ((mem_pE_inp τ _).mp h))
    have hmid : Ev.inp (u, y) ∈ pB τ := (mem_pB_inp τ _).mpr ((mem_pA_out τ _).mp hy)
    obtain ⟨z, hz⟩ := seqs_complete (t' :: ts) hw.2 (pB τ) hB hdB u y hmid
    exact ⟨z, (mem_pE_out τ _).mpr ((mem_pB_out τ _).mp hz)⟩
end

end Servlet
