import MpsVerif.Proofs.ServletWorker
import MpsVerif.Proofs.ServletVal
/-!
# Switch servlet: conservation invariant and contract (no proviso on uids needed)
-/
namespace Servlet

/-- allowed outcomes of a switch node whose members have the outcome functions `ms` -/
def souts (ms : List (Val → List Val)) (sel : Val → Nat) (x : Val) : List Val :=
  if x.isExc then [x] else (ms.getD (sel x) (fun _ => [])) x

theorem count_map_eraseIdx {α : Type} (f : α → Msg) (m : Msg) (l : List α) (k : Nat) (a : α)
    (h : l[k]? = some a) :
    ((l.eraseIdx k).map f).count m + (if f a = m then 1 else 0) = (l.map f).count m := by
  induction l generalizing k with
  | nil => simp at h
  | cons y ys ih =>
    cases k with
    | zero =>
      simp at h; subst h
      simp only [List.eraseIdx_cons_zero, List.map_cons, List.count_cons]
      by_cases hm : f y = m <;> simp [hm]
    | succ k =>
      simp at h
      have := ih k h
      simp only [List.eraseIdx_cons_succ, List.map_cons, List.count_cons]; omega

namespace Sw

structure Inv (ms : List (Val → List Val)) (sel : Val → Nat) (s : State) : Prop where
  cons : ∀ m, kc m s.sentG + kc m s.emitq + (s.pend.map (·.2)).count m = s.recv.count m
  good : ∀ t ∈ s.sentG ++ s.emitq, t.2.2 ∈ souts ms sel t.2.1
  pok  : ∀ p ∈ s.pend, p.1 = sel p.2.2 ∧ p.2.2.isExc = false ∧ p.1 < ms.length
  sw   : ∀ v ∈ s.switched, v.isExc = false

theorem inv_init (ms : List (Val → List Val)) (sel : Val → Nat) : Inv ms sel init := by
  constructor <;> simp [init]

theorem inv_step (ms : List (Val → List Val)) (sel : Val → Nat) (s s' : State) (a : Act)
    (h : Inv ms sel s) (hs : step ms sel s a = some s') : Inv ms sel s' := by
  obtain ⟨hc, hg, hp, hw⟩ := h
  cases a with
  | arrive m => simp [step] at hs; subst hs; exact ⟨hc, hg, hp, hw⟩
  | enq =>
    simp only [step] at hs
    split at hs
    · rename_i u x rest hq
      split at hs
      · rename_i hx
        simp at hs; subst hs
        refine ⟨?_, ?_, hp, hw⟩
        · intro m; have := hc m
          simp only [kc_append, kc_singleton, count_snoc, gkey]
          by_cases hm : (u, x) = m <;> simp [hm] <;> omega
        · intro t ht
          simp only [List.mem_append, List.mem_singleton] at ht hg
          rcases ht with ht | ht | ht
          · exact hg t (Or.inl ht)
          · exact hg t (Or.inr ht)
          · subst ht; simp [souts, hx]
      · rename_i hx
        split at hs
        · rename_i hlt
          simp at hs; subst hs
          refine ⟨?_, hg, ?_, ?_⟩
          · intro m; have := hc m
            simp only [List.map_append, List.map_cons, List.map_nil, count_snoc]
            by_cases hm : (u, x) = m <;> simp [hm] <;> omega
          · intro p hp'
            simp only [List.mem_append, List.mem_singleton] at hp'
            rcases hp' with hp' | hp'
            · exact hp p hp'
            · subst hp'; exact ⟨rfl, by simpa using hx, hlt⟩
          · intro v hv
            simp only [List.mem_append, List.mem_singleton] at hv
            rcases hv with hv | hv
            · exact hw v hv
            · subst hv; simpa using hx
        · simp at hs
    · simp at hs
  | memberOut k y =>
    simp only [step] at hs
    split at hs
    · rename_i i u x hk
      split at hs
      · rename_i hy
        simp at hs; subst hs
        obtain ⟨p1, p2, p3⟩ := hp _ (List.mem_of_getElem? hk)
        refine ⟨?_, ?_, fun p hp' => hp p (List.mem_of_mem_eraseIdx hp'), hw⟩
        · intro m; have := hc m
          have := count_map_eraseIdx (fun p : Nat × Msg => p.2) m s.pend k (i, (u, x)) hk
          simp only [kc_append, kc_singleton, gkey] at *
          by_cases hm : (u, x) = m <;> simp [hm] at * <;> omega
        · intro t ht
          simp only [List.mem_append, List.mem_singleton] at ht hg
          rcases ht with (ht | ht) | ht
          · exact hg t (Or.inl ht)
          · subst ht
            simp only at p1 p2
            simp only [souts, p2, Bool.false_eq_true, if_false, ← p1]
            exact hy
          · exact hg t (Or.inr ht)
      · simp at hs
    · simp at hs
  | emit k =>
    simp only [step] at hs
    split at hs
    · rename_i t htk
      simp at hs; subst hs
      refine ⟨?_, ?_, hp, hw⟩
      · intro m; have := hc m; have := kc_eraseIdx m s.emitq k t htk
        simp only [kc_append, kc_singleton]; omega
      · intro t' ht'
        simp only [List.mem_append, List.mem_singleton] at ht' hg
        rcases ht' with (ht' | ht') | ht'
        · exact hg t' (Or.inl ht')
        · subst ht'; exact hg t' (Or.inr (List.mem_of_getElem? htk))
        · exact hg t' (Or.inr (List.mem_of_mem_eraseIdx ht'))
    · simp at hs
  | deliver =>
    simp only [step] at hs
    split at hs
    · simp at hs; subst hs; exact ⟨hc, hg, hp, hw⟩
    · simp at hs

theorem inv_run (ms : List (Val → List Val)) (sel : Val → Nat) (as : List Act) (s : State)
    (hr : Core.run (step ms sel) init as = some s) : Inv ms sel s :=
  Core.invariant_run (Inv := Inv ms sel) (fun s a s' h hs => inv_step ms sel s s' a h hs) as init s
    (inv_init ms sel) hr

end Sw
end Servlet
