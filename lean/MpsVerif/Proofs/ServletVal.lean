import MpsVerif.Model.Servlet
/-!
# Lemmas on the denotation: membership in `choices`, `partials`, `ensOuts`; exception short-circuit
-/
namespace Servlet

theorem mem_choices (oss : List (List Val)) (ys : List Val) :
    ys ∈ choices oss ↔ ys.length = oss.length ∧ ∀ i y, ys[i]? = some y → y ∈ oss.getD i [] := by
  induction oss generalizing ys with
  | nil =>
    simp only [choices, List.mem_singleton, List.length_nil]
    constructor
    · rintro rfl; simp
    · rintro ⟨h, _⟩; exact List.eq_nil_of_length_eq_zero h
  | cons os rest ih =>
    simp only [choices, List.mem_flatMap, List.mem_map]
    constructor
    · rintro ⟨o, ho, zs, hzs, rfl⟩
      obtain ⟨h1, h2⟩ := (ih zs).mp hzs
      refine ⟨by simp [h1], ?_⟩
      intro i y hi
      cases i with
      | zero => simp at hi; subst hi; simpa using ho
      | succ i => simp at hi; simpa using h2 i y hi
    · rintro ⟨h1, h2⟩
      cases ys with
      | nil => simp at h1
      | cons y ys =>
        refine ⟨y, by simpa using h2 0 y (by simp), ys, (ih ys).mpr ⟨by simpa using h1, ?_⟩, rfl⟩
        intro i z hi
        simpa using h2 (i+1) z (by simpa using hi)

theorem mem_partials (oss : List (List Val)) (p : List (Option Val)) :
    p ∈ partials oss ↔ p.length = oss.length ∧
      ∀ i y, p[i]? = some (some y) → y ∈ oss.getD i [] ∧ y.isExc = false := by
  induction oss generalizing p with
  | nil =>
    simp only [partials, List.mem_singleton, List.length_nil]
    constructor
    · rintro rfl; simp
    · rintro ⟨h, _⟩; exact List.eq_nil_of_length_eq_zero h
  | cons os rest ih =>
    simp only [partials, List.mem_flatMap, List.mem_cons, List.mem_map, List.mem_filter]
    constructor
    · rintro ⟨q, hq, h⟩
      obtain ⟨h1, h2⟩ := (ih q).mp hq
      rcases h with rfl | ⟨o, ⟨ho, hne⟩, rfl⟩
      · refine ⟨by simp [h1], ?_⟩
        intro i y hi
        cases i with
        | zero => simp at hi
        | succ i => simp at hi; simpa using h2 i y hi
      · refine ⟨by simp [h1], ?_⟩
        intro i y hi
        cases i with
        | zero => simp at hi; subst hi; simp at hne; simpa using ⟨ho, hne⟩
        | succ i => simp at hi; simpa using h2 i y hi
    · rintro ⟨h1, h2⟩
      cases p with
      | nil => simp at h1
      | cons a q =>
        have hq : q ∈ partials rest := (ih q).mpr ⟨by simpa using h1, by
          intro i z hi; simpa using h2 (i+1) z (by simpa using hi)⟩
        refine ⟨q, hq, ?_⟩
        cases a with
        | none => exact Or.inl rfl
        | some o =>
          have := h2 0 o (by simp)
          exact Or.inr ⟨o, by simpa using this, rfl⟩

theorem filled_replicate (n : Nat) : filled (List.replicate n (Option.none : Option Val)) = 0 := by
  induction n with
  | zero => rfl
  | succ n ih => simp only [List.replicate_succ, filled, List.countP_cons] at ih ⊢; simpa using ih

theorem filled_le (p : List (Option Val)) : filled p ≤ p.length := List.countP_le_length

theorem filled_set (p : List (Option Val)) (i : Nat) (y : Val) (h : p[i]? = some .none) :
    filled (p.set i (some y)) = filled p + 1 := by
  induction p generalizing i with
  | nil => simp at h
  | cons a q ih =>
    cases i with
    | zero =>
      simp at h; subst h
      simp [filled, List.countP_cons]
    | succ i =>
      simp at h
      have := ih i h
      simp only [filled, List.set_cons_succ, List.countP_cons] at this ⊢
      omega

theorem all_some_of_filled (p : List (Option Val)) (h : filled p = p.length) :
    ∀ i, i < p.length → ∃ y, p[i]? = some (some y) := by
  induction p with
  | nil => intro i hi; simp at hi
  | cons a q ih =>
    have hle := filled_le q
    cases a with
    | none => simp [filled, List.countP_cons] at h hle; omega
    | some o =>
      have hq : filled q = q.length := by simp [filled, List.countP_cons] at h ⊢; exact h
      intro i hi
      cases i with
      | zero => exact ⟨o, by simp⟩
      | succ i => simpa using ih hq i (by simpa using hi)

theorem filled_of_no_hole (p : List (Option Val)) (h : ∀ i, i < p.length → p[i]? ≠ some .none) :
    filled p = p.length := by
  induction p with
  | nil => rfl
  | cons a q ih =>
    have hq : filled q = q.length := ih (fun i hi => by simpa using h (i+1) (by simpa using hi))
    cases a with
    | none => exact absurd (by simp) (h 0 (by simp))
    | some o => simp only [filled, List.countP_cons, List.length_cons] at hq ⊢; simp [hq]

theorem getD_map_apply (ms : List (Val → List Val)) (x : Val) (i : Nat) :
    (ms.map (· x)).getD i [] = (ms.getD i (fun _ => [])) x := by
  simp only [List.getD_eq_getElem?_getD, List.getElem?_map]
  cases ms[i]? <;> simp


/-- fail-fast ensemble: the allowed outcomes are exactly (a) the list of member results when none
    of them is an exception, (b) an `EnsembleError` carrying a partial result list `p` without
    exceptions plus ONE failing member result `y` (the first exception received), `n` = number of
    results received -/
theorem mem_ensOuts_ff (oss : List (List Val)) (r : Val) :
    r ∈ ensOuts true oss ↔
      (∃ ys, ys ∈ choices oss ∧ ys.any Val.isExc = false ∧ r = ofList ys) ∨
      (∃ p, p ∈ partials oss ∧ ∃ e, e < oss.length ∧ p[e]? = some .none ∧
        ∃ y, y ∈ oss.getD e [] ∧ y.isExc = true ∧ r = ensErr (p.set e (some y)) (filled p + 1)) := by
  simp only [ensOuts, if_true, List.mem_append, List.mem_map, List.mem_filter, List.mem_flatMap,
    List.mem_range]
  constructor
  · rintro (⟨ys, ⟨h1, h2⟩, rfl⟩ | ⟨p, hp, e, he, h⟩)
    · exact Or.inl ⟨ys, h1, by simpa using h2, rfl⟩
    · right
      split at h
      · rename_i hs
        simp only [List.mem_map, List.mem_filter] at h
        obtain ⟨y, ⟨hy, hx⟩, rfl⟩ := h
        exact ⟨p, hp, e, he, hs, y, hy, hx, rfl⟩
      · simp at h
  · rintro (⟨ys, h1, h2, rfl⟩ | ⟨p, hp, e, he, hs, y, hy, hx, rfl⟩)
    · exact Or.inl ⟨ys, ⟨h1, by simpa using h2⟩, rfl⟩
    · right
      refine ⟨p, hp, e, he, ?_⟩
      rw [if_pos hs]
      simp only [List.mem_map, List.mem_filter]
      exact ⟨y, ⟨hy, hx⟩, rfl⟩

/-- without fail-fast: the list of all member results, replaced by an `EnsembleError` iff ALL of
    them are exceptions -/
theorem mem_ensOuts_nff (oss : List (List Val)) (r : Val) :
    r ∈ ensOuts false oss ↔ ∃ ys, ys ∈ choices oss ∧ r = ensFull ys := by
  simp only [ensOuts, Bool.false_eq_true, if_false, List.mem_map]
  constructor
  · rintro ⟨ys, h, rfl⟩; exact ⟨ys, h, rfl⟩
  · rintro ⟨ys, h, rfl⟩; exact ⟨ys, h, rfl⟩


/-! ### the tree denotation -/

theorem outsEach_eq (ts : List Tree) (x : Val) : outsEach ts x = (ts.map outs).map (· x) := by
  induction ts with
  | nil => rfl
  | cons t ts ih => simp [outsEach, ih]

theorem outsNth_eq (ts : List Tree) (i : Nat) (x : Val) :
    outsNth ts i x = ((ts.map outs).getD i (fun _ => [])) x := by
  induction ts generalizing i with
  | nil => simp [outsNth]
  | cons t ts ih =>
    cases i with
    | zero => simp [outsNth]
    | succ i => simp [outsNth, ih]

/-- an exception value entering a simple servlet leaves it unchanged -/
theorem wouts_exc (w : WSpec) (x : Val) (h : x.isExc = true) : wouts w x = [x] := by
  simp [wouts, h]

/-- **exception short-circuit, whole tree**: an exception value entering any servlet tree leaves it
    unchanged (it is the only allowed outcome) -/
theorem outs_exc (t : Tree) (x : Val) (h : x.isExc = true) : outs t x = [x] := by
  refine outs.induct (motive_1 := fun t x => x.isExc = true → outs t x = [x])
    (motive_2 := fun _ _ _ => True) (motive_3 := fun _ _ => True)
    (motive_4 := fun ts x => x.isExc = true → outsSeq ts x = [x])
    ?_ ?_ ?_ ?_ ?_ ?_ ?_ ?_ ?_ ?_ ?_ ?_ ?_ t x h
  · intro w x h; simp [outs, wouts_exc w x h]
  · intro ts x ih h; simp [outs, ih h]
  · intro ts ff x hx _; simp [outs, hx]
  · intro ts ff x hx _ h; exact absurd h hx
  · intro ts sel x hx _; simp [outs, hx]
  · intro ts sel x hx _ h; exact absurd h hx
  · intros; trivial
  · intros; trivial
  · intros; trivial
  · intros; trivial
  · intros; trivial
  · intro x _; simp [outsSeq]
  · intro t ts x ih1 ih2 h
    simp [outsSeq, ih2 h, ih1 x h]

/-! ### when the denotation is a function -/

mutual
/-- no fail-fast ensemble, no batched worker whose `call` may fail as a whole, and `switch` returns
    a member index: then the outcome of a request is a function of its input -/
def Det : Tree → Prop
  | .worker w => w.bs = 0 ∨ w.berrs = []
  | .seq ts => Dets ts
  | .ens ts ff => ff = false ∧ Dets ts
  | .switch ts sel => (∀ x, sel x < ts.length) ∧ Dets ts
def Dets : List Tree → Prop
  | [] => True
  | t :: ts => Det t ∧ Dets ts
end

theorem choices_singletons (l : List Val) : choices (l.map (fun r => [r])) = [l] := by
  induction l with
  | nil => rfl
  | cons a l ih => simp [choices, ih]

mutual
theorem outs_det : (t : Tree) → Det t → ∀ x, ∃ r, outs t x = [r]
  | .worker w, hd, x => by
    simp only [Det] at hd
    simp only [outs, wouts]
    split
    · exact ⟨_, rfl⟩
    · split
      · exact ⟨_, rfl⟩
      · split
        · exact ⟨_, rfl⟩
        · rename_i hbs
          rcases hd with hd | hd
          · exact absurd hd hbs
          · exact ⟨_, by rw [hd]⟩
  | .seq ts, hd, x => by
    simp only [Det] at hd; simp only [outs]; exact outsSeq_det ts hd x
  | .ens ts ff, hd, x => by
    simp only [Det] at hd
    simp only [outs]
    split
    · exact ⟨_, rfl⟩
    · obtain ⟨l, hl⟩ := outsEach_det ts hd.2 x
      rw [hd.1, hl]
      simp [ensOuts, choices_singletons]
  | .switch ts sel, hd, x => by
    simp only [Det] at hd
    simp only [outs]
    split
    · exact ⟨_, rfl⟩
    · exact outsNth_det ts hd.2 (sel x) (hd.1 x) x
theorem outsSeq_det : (ts : List Tree) → Dets ts → ∀ x, ∃ r, outsSeq ts x = [r]
  | [], _, x => ⟨x, rfl⟩
  | t :: ts, hd, x => by
    simp only [Dets] at hd
    obtain ⟨r, hr⟩ := outs_det t hd.1 x
    obtain ⟨r', hr'⟩ := outsSeq_det ts hd.2 r
    exact ⟨r', by simp [outsSeq, hr, hr']⟩
theorem outsEach_det : (ts : List Tree) → Dets ts → ∀ x, ∃ l : List Val, outsEach ts x = l.map (fun r => [r])
  | [], _, _ => ⟨[], rfl⟩
  | t :: ts, hd, x => by
    simp only [Dets] at hd
    obtain ⟨r, hr⟩ := outs_det t hd.1 x
    obtain ⟨l, hl⟩ := outsEach_det ts hd.2 x
    exact ⟨r :: l, by simp [outsEach, hr, hl]⟩
theorem outsNth_det : (ts : List Tree) → Dets ts → ∀ i, i < ts.length → ∀ x, ∃ r, outsNth ts i x = [r]
  | [], _, i, hi, _ => absurd hi (by simp)
  | t :: ts, hd, i, hi, x => by
    simp only [Dets] at hd
    cases i with
    | zero => simp only [outsNth]; exact outs_det t hd.1 x
    | succ i => simp only [outsNth]; exact outsNth_det ts hd.2 i (by simpa using hi) x
end

end Servlet
