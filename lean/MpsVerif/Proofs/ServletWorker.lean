import MpsVerif.Model.Servlet
/-!
# Simple servlet (worker node): conservation invariant and contract

`kc m l` counts the ghost-annotated messages of `l` whose key (uid, input) is `m`.  The
conservation invariant says: what was sent, plus what is still inside (to be emitted, in a call,
held), is — as a multiset of keys — exactly what was received.
-/
namespace Servlet

def kc (m : Msg) (l : List GMsg) : Nat := (l.map gkey).count m

@[simp] theorem kc_nil (m : Msg) : kc m [] = 0 := rfl
@[simp] theorem kc_append (m : Msg) (a b : List GMsg) : kc m (a ++ b) = kc m a + kc m b := by
  simp [kc, List.count_append]
theorem kc_cons (m : Msg) (t : GMsg) (l : List GMsg) : kc m (t :: l) = kc m l + (if gkey t = m then 1 else 0) := by
  simp only [kc, List.map_cons, List.count_cons]
  by_cases h : gkey t = m <;> simp [h]
theorem count_snoc (m a : Msg) (l : List Msg) : (l ++ [a]).count m = l.count m + (if a = m then 1 else 0) := by
  rw [List.count_append, List.count_cons]; by_cases h : a = m <;> simp [h]
@[simp] theorem kc_singleton (m : Msg) (t : GMsg) : kc m [t] = (if gkey t = m then 1 else 0) := by
  simp [kc_cons]

theorem kc_eraseIdx (m : Msg) (l : List GMsg) (k : Nat) (t : GMsg) (h : l[k]? = some t) :
    kc m (l.eraseIdx k) + (if gkey t = m then 1 else 0) = kc m l := by
  induction l generalizing k with
  | nil => simp at h
  | cons y ys ih =>
    cases k with
    | zero => simp at h; subst h; simp [kc_cons]
    | succ k =>
      simp at h
      have := ih k h
      simp only [List.eraseIdx_cons_succ, kc_cons]; omega

theorem kc_flatten_eraseIdx (m : Msg) (l : List (List GMsg)) (k : Nat) (b : List GMsg) (h : l[k]? = some b) :
    kc m (l.eraseIdx k).flatten + kc m b = kc m l.flatten := by
  induction l generalizing k with
  | nil => simp at h
  | cons y ys ih =>
    cases k with
    | zero => simp at h; subst h; simp; omega
    | succ k =>
      simp at h
      have := ih k h
      simp only [List.eraseIdx_cons_succ, List.flatten_cons, kc_append]; omega

theorem mem_of_getElem?_eq {α : Type} {l : List α} {k : Nat} {a : α} (h : l[k]? = some a) : a ∈ l :=
  List.mem_of_getElem? h

theorem mem_eraseIdx_mem {α : Type} {l : List α} {k : Nat} {a : α} (h : a ∈ l.eraseIdx k) : a ∈ l :=
  List.mem_of_mem_eraseIdx h

namespace Wk

theorem kc_pick_unpick (m : Msg) (l : List GMsg) (mask : List Bool) (h : mask.length = l.length) :
    kc m (pick l mask) + kc m (unpick l mask) = kc m l := by
  induction l generalizing mask with
  | nil => cases mask <;> simp [pick, unpick]
  | cons a as ih =>
    cases mask with
    | nil => simp at h
    | cons b bs =>
      simp at h
      have := ih bs h
      cases b <;> simp only [pick, unpick, kc_cons] <;> omega

theorem mem_pick {α : Type} (l : List α) (mask : List Bool) : ∀ a ∈ pick l mask, a ∈ l := by
  induction l generalizing mask with
  | nil => cases mask <;> simp [pick]
  | cons a as ih =>
    cases mask with
    | nil => simp [pick]
    | cons b bs =>
      cases b
      · intro x hx; simp only [pick] at hx; exact List.mem_cons_of_mem _ (ih bs x hx)
      · intro x hx; simp only [pick, List.mem_cons] at hx
        rcases hx with h | h
        · subst h; simp
        · exact List.mem_cons_of_mem _ (ih bs x h)

theorem mem_unpick {α : Type} (l : List α) (mask : List Bool) : ∀ a ∈ unpick l mask, a ∈ l := by
  induction l generalizing mask with
  | nil => cases mask <;> simp [unpick]
  | cons a as ih =>
    cases mask with
    | nil => simp [unpick]
    | cons b bs =>
      cases b
      · intro x hx; simp only [unpick, List.mem_cons] at hx
        rcases hx with h | h
        · subst h; simp
        · exact List.mem_cons_of_mem _ (ih bs x h)
      · intro x hx; simp only [unpick] at hx; exact List.mem_cons_of_mem _ (ih bs x hx)

theorem results_key (w : WSpec) (b : List Item) : (results w b).map gkey = b.map gkey := by
  unfold results
  split
  · simp [gkey, Function.comp_def]
  · split <;> simp [gkey, Function.comp_def]

theorem mem_results (w : WSpec) (b : List Item) (t : GMsg) (h : t ∈ results w b) :
    ∃ t0 ∈ b, t.1 = t0.1 ∧ t.2.1 = t0.2.1 ∧
      (t.2.2 = w.f t0.2.2 ∨ (w.bs ≠ 0 ∧ ∃ err, w.bfail (b.map (·.2.2)) = some err ∧ t.2.2 = err)) := by
  unfold results at h
  split at h
  · simp only [List.mem_map] at h
    obtain ⟨t0, h0, rfl⟩ := h
    exact ⟨t0, h0, rfl, rfl, Or.inl rfl⟩
  · rename_i hbs
    split at h
    · rename_i err herr
      simp only [List.mem_map] at h
      obtain ⟨t0, h0, rfl⟩ := h
      exact ⟨t0, h0, rfl, rfl, Or.inr ⟨hbs, err, herr, rfl⟩⟩
    · simp only [List.mem_map] at h
      obtain ⟨t0, h0, rfl⟩ := h
      exact ⟨t0, h0, rfl, rfl, Or.inl rfl⟩

theorem kc_results (w : WSpec) (m : Msg) (b : List Item) : kc m (results w b) = kc m b := by
  simp [kc, results_key]


/-- the hypothesis on the worker spec: `berrs` covers what a batched call may raise -/
def BerrsOk (w : WSpec) : Prop := ∀ B e, w.bfail B = some e → e ∈ w.berrs

structure Inv (w : WSpec) (s : State) : Prop where
  cons : ∀ m, kc m s.sentG + kc m s.emitq + kc m s.busy.flatten + kc m s.held = s.recv.count m
  good : ∀ t ∈ s.sentG ++ s.emitq, t.2.2 ∈ wouts w t.2.1
  item : ∀ t ∈ s.held ++ s.busy.flatten, t.2.1.isExc = false ∧ t.2.2 = w.pre t.2.1 ∧ t.2.2.isExc = false
  bsz  : ∀ b ∈ s.busy, b ≠ [] ∧ b.length ≤ max 1 w.bs
  conc : s.busy.length ≤ w.nw
  call : ∀ c ∈ s.calls, c ≠ [] ∧ c.length ≤ max 1 w.bs ∧ ∀ v ∈ c, v.isExc = false
  blog : ∀ e ∈ s.blog, e.2 = results w e.1 ∧ e.1 ≠ [] ∧ e.1.length ≤ max 1 w.bs ∧ ∀ t ∈ e.2, t ∈ s.sentG ++ s.emitq

theorem inv_init (w : WSpec) : Inv w init := by
  constructor <;> simp [init]

theorem results_good (w : WSpec) (hb : BerrsOk w) (b : List Item)
    (hi : ∀ t ∈ b, t.2.1.isExc = false ∧ t.2.2 = w.pre t.2.1 ∧ t.2.2.isExc = false) :
    ∀ t ∈ results w b, t.2.2 ∈ wouts w t.2.1 := by
  intro t ht
  unfold results at ht
  split at ht
  · rename_i h0
    simp only [List.mem_map] at ht
    obtain ⟨t0, ht0, rfl⟩ := ht
    obtain ⟨h1, h2, h3⟩ := hi t0 ht0
    simp [wouts, h1, ← h2, h3, h0]
  · rename_i h0
    split at ht
    · rename_i e he
      simp only [List.mem_map] at ht
      obtain ⟨t0, ht0, rfl⟩ := ht
      obtain ⟨h1, h2, h3⟩ := hi t0 ht0
      have := hb _ _ he
      simp [wouts, h1, ← h2, h3, h0, this]
    · simp only [List.mem_map] at ht
      obtain ⟨t0, ht0, rfl⟩ := ht
      obtain ⟨h1, h2, h3⟩ := hi t0 ht0
      simp [wouts, h1, ← h2, h3, h0]

theorem inv_step (w : WSpec) (hb : BerrsOk w) (s s' : State) (a : Act) (h : Inv w s)
    (hs : step w s a = some s') : Inv w s' := by
  obtain ⟨hc, hg, hi, hz, hn, hcl, hl⟩ := h
  cases a with
  | arrive m =>
    simp [step] at hs; subst hs
    exact ⟨hc, hg, hi, hz, hn, hcl, hl⟩
  | take =>
    simp only [step] at hs
    split at hs
    · rename_i u x rest hq
      split at hs
      · rename_i hx
        simp at hs; subst hs
        refine ⟨?_, ?_, hi, hz, hn, hcl, ?_⟩
        · intro m; have := hc m
          simp only [kc_append, kc_singleton, count_snoc, gkey]
          by_cases hm : (u, x) = m <;> simp [hm] <;> omega
        · intro t ht
          simp only [List.mem_append, List.mem_singleton] at ht hg
          rcases ht with ht | ht | ht
          · exact hg t (Or.inl ht)
          · exact hg t (Or.inr ht)
          · subst ht; simp [wouts, hx]
        · intro e he; obtain ⟨h1, h2, h3, h4⟩ := hl e he
          refine ⟨h1, h2, h3, ?_⟩
          intro t ht; have := h4 t ht; simp only [List.mem_append, List.mem_singleton] at this ⊢; grind
      · rename_i hx
        split at hs
        · rename_i hp
          simp at hs; subst hs
          refine ⟨?_, ?_, hi, hz, hn, hcl, ?_⟩
          · intro m; have := hc m
            simp only [kc_append, kc_singleton, count_snoc, gkey]
            by_cases hm : (u, x) = m <;> simp [hm] <;> omega
          · intro t ht
            simp only [List.mem_append, List.mem_singleton] at ht hg
            rcases ht with ht | ht | ht
            · exact hg t (Or.inl ht)
            · exact hg t (Or.inr ht)
            · subst ht; simp [wouts, hx, hp]
          · intro e he; obtain ⟨h1, h2, h3, h4⟩ := hl e he
            refine ⟨h1, h2, h3, ?_⟩
            intro t ht; have := h4 t ht; simp only [List.mem_append, List.mem_singleton] at this ⊢; grind
        · rename_i hp
          simp at hs; subst hs
          refine ⟨?_, hg, ?_, hz, hn, hcl, hl⟩
          · intro m; have := hc m
            simp only [kc_append, kc_singleton, count_snoc, gkey]
            by_cases hm : (u, x) = m <;> simp [hm] <;> omega
          · intro t ht
            simp only [List.mem_append, List.mem_singleton] at ht hi
            rcases ht with (ht | ht) | ht
            · exact hi t (Or.inl ht)
            · subst ht; simp at hx hp; simp [hx, hp]
            · exact hi t (Or.inr ht)
    · simp at hs
  | start mask =>
    simp only [step] at hs
    split at hs
    · rename_i hgd
      obtain ⟨g1, g2, g3, g4⟩ := hgd
      simp at hs; subst hs
      have hpk : ∀ t ∈ pick s.held mask, t.2.1.isExc = false ∧ t.2.2 = w.pre t.2.1 ∧ t.2.2.isExc = false :=
        fun t ht => hi t (List.mem_append_left _ (mem_pick _ _ t ht))
      refine ⟨?_, hg, ?_, ?_, ?_, ?_, hl⟩
      · intro m; have := hc m; have := kc_pick_unpick m s.held mask g1
        simp only [List.flatten_append, List.flatten_cons, List.flatten_nil, List.append_nil, kc_append]; omega
      · intro t ht
        simp only [List.mem_append, List.flatten_append, List.flatten_cons, List.flatten_nil, List.append_nil] at ht
        rcases ht with ht | ht | ht
        · exact hi t (List.mem_append_left _ (mem_unpick _ _ t ht))
        · exact hi t (List.mem_append_right _ ht)
        · exact hpk t ht
      · intro b hb'
        simp only [List.mem_append, List.mem_singleton] at hb'
        rcases hb' with hb' | hb'
        · exact hz b hb'
        · subst hb'; exact ⟨g2, g3⟩
      · simp; omega
      · intro c hc'
        simp only [List.mem_append, List.mem_singleton] at hc'
        rcases hc' with hc' | hc'
        · exact hcl c hc'
        · subst hc'
          refine ⟨by simpa using g2, by simpa using g3, ?_⟩
          intro v hv
          simp only [List.mem_map] at hv
          obtain ⟨t, ht, rfl⟩ := hv
          exact (hpk t ht).2.2
    · simp at hs
  | finish k =>
    simp only [step] at hs
    split at hs
    · rename_i b hbk
      simp at hs; subst hs
      have hbm : b ∈ s.busy := List.mem_of_getElem? hbk
      have hbi : ∀ t ∈ b, t.2.1.isExc = false ∧ t.2.2 = w.pre t.2.1 ∧ t.2.2.isExc = false :=
        fun t ht => hi t (List.mem_append_right _ (List.mem_flatten.mpr ⟨b, hbm, ht⟩))
      refine ⟨?_, ?_, ?_, ?_, ?_, hcl, ?_⟩
      · intro m; have := hc m; have := kc_flatten_eraseIdx m s.busy k b hbk
        simp only [kc_append, kc_results]; omega
      · intro t ht
        simp only [List.mem_append] at ht hg
        rcases ht with ht | ht | ht
        · exact hg t (Or.inl ht)
        · exact hg t (Or.inr ht)
        · exact results_good w hb b hbi t ht
      · intro t ht
        simp only [List.mem_append, List.mem_flatten] at ht
        rcases ht with ht | ⟨b', hb', ht⟩
        · exact hi t (List.mem_append_left _ ht)
        · exact hi t (List.mem_append_right _ (List.mem_flatten.mpr ⟨b', List.mem_of_mem_eraseIdx hb', ht⟩))
      · intro b' hb'; exact hz b' (List.mem_of_mem_eraseIdx hb')
      · have := List.length_eraseIdx_le s.busy k
        show (s.busy.eraseIdx k).length ≤ w.nw
        omega
      · intro e he
        simp only [List.mem_append, List.mem_singleton] at he
        rcases he with he | he
        · obtain ⟨h1, h2, h3, h4⟩ := hl e he
          refine ⟨h1, h2, h3, ?_⟩
          intro t ht; have := h4 t ht; simp only [List.mem_append, List.mem_singleton] at this ⊢; grind
        · subst he
          refine ⟨rfl, (hz b hbm).1, (hz b hbm).2, ?_⟩
          intro t ht; simp only [List.mem_append]; grind
    · simp at hs
  | emit k =>
    simp only [step] at hs
    split at hs
    · rename_i t htk
      simp at hs; subst hs
      have htm : t ∈ s.emitq := List.mem_of_getElem? htk
      refine ⟨?_, ?_, hi, hz, hn, hcl, ?_⟩
      · intro m; have := hc m; have := kc_eraseIdx m s.emitq k t htk
        simp only [kc_append, kc_singleton]; omega
      · intro t' ht'
        simp only [List.mem_append, List.mem_singleton] at ht' hg
        rcases ht' with (ht' | ht') | ht'
        · exact hg t' (Or.inl ht')
        · subst ht'; exact hg t' (Or.inr htm)
        · exact hg t' (Or.inr (List.mem_of_mem_eraseIdx ht'))
      · intro e he; obtain ⟨h1, h2, h3, h4⟩ := hl e he
        refine ⟨h1, h2, h3, ?_⟩
        intro t' ht'
        have := h4 t' ht'
        simp only [List.mem_append, List.mem_singleton] at this ⊢
        rcases this with h5 | h5
        · exact Or.inl (Or.inl h5)
        · by_cases heq : t' = t
          · exact Or.inl (Or.inr heq)
          · right
            -- t' is still in the emit queue: it is a different element from the erased one
            exact (List.mem_eraseIdx_iff_getElem?.mpr (by
              obtain ⟨j, hj⟩ := List.getElem?_of_mem h5
              refine ⟨j, ?_, hj⟩
              intro hjk; subst hjk; rw [htk] at hj; exact heq (Option.some.inj hj).symm))
    · simp at hs
  | deliver =>
    simp only [step] at hs
    split at hs
    · simp at hs; subst hs; exact ⟨hc, hg, hi, hz, hn, hcl, hl⟩
    · simp at hs


/-- `sentG` is the ghost-annotated history of `q_out`: what was delivered downstream followed by
    what is still on the queue -/
def OutInv (s : State) : Prop := ∃ d, d ++ s.qout = s.sentG.map gmsg

theorem outinv_step (w : WSpec) (s s' : State) (a : Act) (h : OutInv s) (hs : step w s a = some s') :
    OutInv s' := by
  obtain ⟨d, hd⟩ := h
  cases a with
  | arrive m => simp [step] at hs; subst hs; exact ⟨d, hd⟩
  | take =>
    simp only [step] at hs
    split at hs
    · split at hs
      · simp at hs; subst hs; exact ⟨d, hd⟩
      · split at hs <;> (simp at hs; subst hs; exact ⟨d, hd⟩)
    · simp at hs
  | start mask =>
    simp only [step] at hs
    split at hs
    · simp at hs; subst hs; exact ⟨d, hd⟩
    · simp at hs
  | finish k =>
    simp only [step] at hs
    split at hs
    · simp at hs; subst hs; exact ⟨d, hd⟩
    · simp at hs
  | emit k =>
    simp only [step] at hs
    split at hs
    · simp at hs; subst hs; exact ⟨d, by simp [← hd]⟩
    · simp at hs
  | deliver =>
    simp only [step] at hs
    split at hs
    · rename_i m rest hq
      simp at hs; subst hs; exact ⟨d ++ [m], by simp [← hd, hq]⟩
    · simp at hs

/-- where a message on the way out comes from: the exception that entered (short-circuit), the
    failure of `preprocess` on its own input, or a finished `call` (recorded in `blog`) -/
def SrcInv (w : WSpec) (s : State) : Prop :=
  ∀ t ∈ s.sentG ++ s.emitq,
    (t.2.1.isExc = true ∧ t.2.2 = t.2.1) ∨
    (t.2.1.isExc = false ∧ (w.pre t.2.1).isExc = true ∧ t.2.2 = w.pre t.2.1) ∨
    ∃ e ∈ s.blog, t ∈ e.2

theorem srcinv_step (w : WSpec) (s s' : State) (a : Act) (h : SrcInv w s) (hs : step w s a = some s') :
    SrcInv w s' := by
  cases a with
  | arrive m => simp [step] at hs; subst hs; exact h
  | take =>
    simp only [step] at hs
    split at hs
    · rename_i u x rest hq
      split at hs
      · rename_i hx
        simp at hs; subst hs
        intro t ht
        simp only [List.mem_append, List.mem_singleton] at ht
        rcases ht with ht | ht | ht
        · exact h t (List.mem_append_left _ ht)
        · exact h t (List.mem_append_right _ ht)
        · subst ht; exact Or.inl ⟨hx, rfl⟩
      · rename_i hx
        split at hs
        · rename_i hp
          simp at hs; subst hs
          intro t ht
          simp only [List.mem_append, List.mem_singleton] at ht
          rcases ht with ht | ht | ht
          · exact h t (List.mem_append_left _ ht)
          · exact h t (List.mem_append_right _ ht)
          · subst ht; exact Or.inr (Or.inl ⟨by simpa using hx, hp, rfl⟩)
        · simp at hs; subst hs; exact h
    · simp at hs
  | start mask =>
    simp only [step] at hs
    split at hs
    · simp at hs; subst hs; exact h
    · simp at hs
  | finish k =>
    simp only [step] at hs
    split at hs
    · rename_i b hbk
      simp at hs; subst hs
      intro t ht
      simp only [List.mem_append] at ht
      have hmono : ∀ t, (∃ e ∈ s.blog, t ∈ e.2) → ∃ e ∈ s.blog ++ [(b, results w b)], t ∈ e.2 :=
        fun t ⟨e, he, hte⟩ => ⟨e, List.mem_append_left _ he, hte⟩
      rcases ht with ht | ht | ht
      · rcases h t (List.mem_append_left _ ht) with h1 | h1 | h1
        · exact Or.inl h1
        · exact Or.inr (Or.inl h1)
        · exact Or.inr (Or.inr (hmono t h1))
      · rcases h t (List.mem_append_right _ ht) with h1 | h1 | h1
        · exact Or.inl h1
        · exact Or.inr (Or.inl h1)
        · exact Or.inr (Or.inr (hmono t h1))
      · exact Or.inr (Or.inr ⟨(b, results w b), by simp, ht⟩)
    · simp at hs
  | emit k =>
    simp only [step] at hs
    split at hs
    · rename_i t htk
      simp at hs; subst hs
      intro t' ht'
      simp only [List.mem_append, List.mem_singleton] at ht'
      rcases ht' with (ht' | ht') | ht'
      · exact h t' (List.mem_append_left _ ht')
      · subst ht'; exact h t' (List.mem_append_right _ (List.mem_of_getElem? htk))
      · exact h t' (List.mem_append_right _ (List.mem_of_mem_eraseIdx ht'))
    · simp at hs
  | deliver =>
    simp only [step] at hs
    split at hs
    · simp at hs; subst hs; exact h
    · simp at hs

theorem srcinv_reach (w : WSpec) (as : List Act) (s : State)
    (hr : Core.run (step w) init as = some s) : SrcInv w s :=
  Core.invariant_run (Inv := SrcInv w) (fun s a s' h hs => srcinv_step w s s' a h hs) as init s
    (by intro t ht; simp [init] at ht) hr

theorem inv_reach (w : WSpec) (hb : BerrsOk w) (as : List Act) (s : State)
    (hr : Core.run (step w) init as = some s) : Inv w s ∧ OutInv s :=
  Core.invariant_run (Inv := fun s => Inv w s ∧ OutInv s)
    (fun s a s' h hs => ⟨inv_step w hb s s' a h.1 hs, outinv_step w s s' a h.2 hs⟩) as init s
    ⟨inv_init w, ⟨[], by simp [init]⟩⟩ hr

/-- conservation as a permutation: sent ++ inside = received (keys = (uid, input)) -/
theorem conserve_perm (w : WSpec) (s : State) (h : Inv w s) :
    ((s.sentG ++ s.emitq ++ s.busy.flatten ++ s.held).map gkey).Perm s.recv := by
  rw [List.perm_iff_count]
  intro m
  have := h.cons m
  simp only [kc] at this
  simp only [List.map_append, List.count_append]; omega

theorem sent_le_recv (w : WSpec) (s : State) (h : Inv w s) (m : Msg) :
    (s.sentG.map gkey).count m ≤ s.recv.count m := by
  have := h.cons m; simp only [kc] at this; omega

theorem sent_perm_of_quiescent (w : WSpec) (s : State) (h : Inv w s) (hq : Quiescent s) :
    (s.sentG.map gkey).Perm s.recv := by
  obtain ⟨_, q2, q3, q4⟩ := hq
  have := conserve_perm w s h
  simpa [q2, q3, q4] using this

end Wk
end Servlet
