import MpsVerif.Proofs.TeeInvAll
/-! Layer 2 of the `tee` invariants: the consumption counts count forks, and the window is popped
    exactly once per box, in order, by the last fork to count it. -/
namespace Tee

/-- number of `g < n` with `p g` -/
def countF : Nat → (Nat → Bool) → Nat
  | 0, _ => 0
  | n + 1, p => countF n p + (if p n then 1 else 0)

theorem countF_le (n : Nat) (p : Nat → Bool) : countF n p ≤ n := by
  induction n with
  | zero => simp [countF]
  | succ n ih => simp only [countF]; split <;> omega

theorem countF_congr (n : Nat) (p q : Nat → Bool) (h : ∀ g, g < n → p g = q g) : countF n p = countF n q := by
  induction n with
  | zero => rfl
  | succ n ih =>
    simp only [countF]
    rw [ih (fun g hg => h g (by omega)), h n (by omega)]

theorem countF_eq_n (n : Nat) (p : Nat → Bool) : countF n p = n ↔ ∀ g, g < n → p g = true := by
  induction n with
  | zero => simp [countF]
  | succ n ih =>
    simp only [countF]
    have := countF_le n p
    constructor
    · intro h g hg
      by_cases hp : p n = true
      · simp [hp] at h
        by_cases hgn : g = n
        · subst hgn; exact hp
        · exact ih.mp h g (by omega)
      · simp [hp] at h; omega
    · intro h
      rw [ih.mpr (fun g hg => h g (by omega)), h n (by omega)]; simp

theorem countF_update (n : Nat) (p q : Nat → Bool) (f : Nat) (hf : f < n) (hp : p f = false) (hq : q f = true)
    (h : ∀ g, g < n → g ≠ f → p g = q g) : countF n q = countF n p + 1 := by
  induction n with
  | zero => omega
  | succ n ih =>
    simp only [countF]
    by_cases hfn : f = n
    · subst hfn
      rw [countF_congr f q p (fun g hg => (h g (by omega) (by omega)).symm), hp, hq]; simp
    · rw [ih (by omega) (fun g hg hgf => h g (by omega) hgf), h n (by omega) (fun e => hfn e.symm)]; omega

structure Inv2 (c : Cfg) (s : State) : Prop where
  cnt_eq : ∀ j, s.cnt j = countF c.n (fun g => decide (j < (s.forks g).inc))
  pop_le : ∀ f, f < c.n → s.popped ≤ (s.forks f).inc
  mutex : ∀ f g j, f < c.n → g < c.n → holdsBox (s.forks f) j = true → holdsBox (s.forks g) j = true → f = g
  full_pop : ∀ j, (∀ g, g < c.n → j < (s.forks g).inc) →
    j < s.popped ∨ ∃ g, g < c.n ∧ ((s.forks g).pc = .bCmp ∨ (s.forks g).pc = .bGet) ∧ (s.forks g).inc = j + 1
  cmp_inv : ∀ f, f < c.n → ((s.forks f).pc = .bCmp ∨ (s.forks f).pc = .bGet) → s.popped < (s.forks f).inc
  get_inv : ∀ f, f < c.n → (s.forks f).pc = .bGet → ∀ g, g < c.n → (s.forks f).inc ≤ (s.forks g).inc
  tmp_ok : ∀ f, f < c.n → (s.forks f).pc = .bIncW → (s.forks f).tmp = s.cnt (s.forks f).inc

theorem countF_false (n : Nat) : countF n (fun _ => false) = 0 := by
  induction n with
  | zero => rfl
  | succ n ih => simp [countF, ih]

theorem inv2_init (c : Cfg) (hn : 0 < c.n) : Inv2 c init := by
  constructor
  · intro j; simp [init, fork0, countF_false]
  · intro f _; simp [init]
  · intro f g j _ _ h; simp [init, fork0, holdsBox] at h
  · intro j h
    have := h 0 hn; simp [init, fork0] at this
  · intro f _ h; simp [init, fork0] at h
  · intro f _ h; simp [init, fork0] at h
  · intro f _ h; simp [init, fork0] at h

/-- a step that touches neither the counts, nor `popped`, nor who is comparing / about to pop -/
structure Frame (s s' : State) : Prop where
  inc_eq : ∀ g, (s'.forks g).inc = (s.forks g).inc
  cmp_iff : ∀ g, (s'.forks g).pc = .bCmp ↔ (s.forks g).pc = .bCmp
  get_iff : ∀ g, (s'.forks g).pc = .bGet ↔ (s.forks g).pc = .bGet
  cnt_eq : s'.cnt = s.cnt
  popped_eq : s'.popped = s.popped

theorem inv2_frame (c : Cfg) (s s' : State) (hfr : Frame s s') (h : Inv2 c s)
    (hm : ∀ f g j, f < c.n → g < c.n → holdsBox (s'.forks f) j = true → holdsBox (s'.forks g) j = true → f = g)
    (ht : ∀ f, f < c.n → (s'.forks f).pc = .bIncW → (s'.forks f).tmp = s'.cnt (s'.forks f).inc) :
    Inv2 c s' := by
  obtain ⟨e1, e2, e3, e4, e5⟩ := hfr
  obtain ⟨h1, h2, _, h4, h5, h6, _⟩ := h
  constructor
  · intro j; simp only [e4, e1]; exact h1 j
  · intro f hf; simp only [e5, e1]; exact h2 f hf
  · exact hm
  · intro j hj; simp only [e5, e1, e2, e3] at hj ⊢; exact h4 j hj
  · intro f hf hp; simp only [e5, e1, e2, e3] at hp ⊢; exact h5 f hf hp
  · intro f hf hp; simp only [e1, e3] at hp ⊢; exact h6 f hf hp
  · exact ht

/-- the pending increments are untouched by a step that keeps counts, `inc` and who is mid-increment -/
theorem tmp_of_frame (c : Cfg) (s s' : State) (h : Inv2 c s) (e1 : ∀ g, (s'.forks g).inc = (s.forks g).inc)
    (e4 : s'.cnt = s.cnt)
    (hw : ∀ g, (s'.forks g).pc = .bIncW → (s.forks g).pc = .bIncW ∧ (s'.forks g).tmp = (s.forks g).tmp) :
    ∀ f, f < c.n → (s'.forks f).pc = .bIncW → (s'.forks f).tmp = s'.cnt (s'.forks f).inc := by
  intro f hf hp
  obtain ⟨h1, h2⟩ := hw f hp
  rw [h2, e1, e4]; exact h.tmp_ok f hf h1

theorem mutex_of_hold_eq (c : Cfg) (s s' : State) (h : Inv2 c s)
    (he : ∀ g j, holdsBox (s'.forks g) j = holdsBox (s.forks g) j) :
    ∀ f g j, f < c.n → g < c.n → holdsBox (s'.forks f) j = true → holdsBox (s'.forks g) j = true → f = g := by
  intro f g j hf hg h1 h2
  rw [he] at h1 h2
  exact h.mutex f g j hf hg h1 h2

theorem holdsBox_iff (fk : Fork) (j : Nat) : holdsBox fk j = true ↔
    fk.cur = some j ∧ (fk.pc = .bInc ∨ fk.pc = .bIncW ∨ fk.pc = .bCmp ∨ fk.pc = .bGet ∨ fk.pc = .bRel) := by
  simp [holdsBox, or_assoc]

theorem boxFree_spec (c : Cfg) (s : State) (f j g : Nat) (h : boxFree c s f j = true) (hg : g < c.n) (hgf : g ≠ f) :
    holdsBox (s.forks g) j = false := by
  simp only [boxFree, List.all_eq_true, List.mem_range] at h
  have := h g hg
  simp [hgf] at this
  exact this

set_option hygiene false in
macro "tee_frame" : tactic => `(tactic| (
    rename_i hp
    refine inv2_frame c s _ ⟨?_, ?_, ?_, ?_, ?_⟩ h2 (mutex_of_hold_eq c s _ h2 ?_) (tmp_of_frame c s _ h2 ?_ ?_ ?_)
    · intro g; by_cases hgf : g = f
      · subst hgf; simp
      · simp [setFork_ne _ _ _ _ hgf]
    · intro g; by_cases hgf : g = f
      · subst hgf; simp [hp]; try (repeat' split) <;> simp
      · simp [setFork_ne _ _ _ _ hgf]
    · intro g; by_cases hgf : g = f
      · subst hgf; simp [hp]; try (repeat' split) <;> simp
      · simp [setFork_ne _ _ _ _ hgf]
    · rfl
    · rfl
    · intro g j; by_cases hgf : g = f
      · subst hgf; rw [Bool.eq_iff_iff]; simp only [holdsBox_iff, setFork_same, hp]
        (repeat' split) <;> simp
      · simp [setFork_ne _ _ _ _ hgf]
    · intro g; by_cases hgf : g = f
      · subst hgf; simp
      · simp [setFork_ne _ _ _ _ hgf]
    · rfl
    · intro g; by_cases hgf : g = f
      · subst hgf; simp [hp]; try (repeat' split) <;> simp
      · simp [setFork_ne _ _ _ _ hgf]))

theorem inv2_step (c : Cfg) (s : State) (a : Act) (s' : State) (hi : Inv c s) (h2 : Inv2 c s)
    (hs : Step c s a s') : Inv2 c s' := by
  obtain ⟨f, k⟩ := a
  have hf := hs.lt
  cases hs
  case bacq j _ hc hb hp =>
    refine inv2_frame c s _ ⟨?_, ?_, ?_, rfl, rfl⟩ h2 ?_ ?_
    · intro g; by_cases hgf : g = f
      · subst hgf; simp
      · simp [setFork_ne _ _ _ _ hgf]
    · intro g; by_cases hgf : g = f
      · subst hgf; simp [hp]
      · simp [setFork_ne _ _ _ _ hgf]
    · intro g; by_cases hgf : g = f
      · subst hgf; simp [hp]
      · simp [setFork_ne _ _ _ _ hgf]
    · intro f1 f2 j' hf1 hf2 h1 h2'
      by_cases e1 : f1 = f <;> by_cases e2 : f2 = f
      · rw [e1, e2]
      · subst e1
        simp [holdsBox, hc] at h1
        subst h1
        rw [setFork_ne _ _ _ _ e2] at h2'
        have := boxFree_spec c s f1 j f2 hb hf2 e2
        simp [this] at h2'
      · subst e2
        simp [holdsBox, hc] at h2'
        subst h2'
        rw [setFork_ne _ _ _ _ e1] at h1
        have := boxFree_spec c s f2 j f1 hb hf1 e1
        simp [this] at h1
      · rw [setFork_ne _ _ _ _ e1] at h1; rw [setFork_ne _ _ _ _ e2] at h2'
        exact h2.mutex f1 f2 j' hf1 hf2 h1 h2'
    · intro g hg hpg
      by_cases hgf : g = f
      · subst hgf; simp at hpg
      · rw [setFork_ne _ _ _ _ hgf] at hpg ⊢; exact h2.tmp_ok g hg hpg
  case brel _ hp =>
    refine inv2_frame c s _ ⟨?_, ?_, ?_, rfl, rfl⟩ h2 ?_ ?_
    · intro g; by_cases hgf : g = f
      · subst hgf; simp
      · simp [setFork_ne _ _ _ _ hgf]
    · intro g; by_cases hgf : g = f
      · subst hgf; simp [hp]
      · simp [setFork_ne _ _ _ _ hgf]
    · intro g; by_cases hgf : g = f
      · subst hgf; simp [hp]
      · simp [setFork_ne _ _ _ _ hgf]
    · intro f1 f2 j' hf1 hf2 h1 h2'
      have e1 : f1 ≠ f := by intro e; subst e; simp [holdsBox] at h1
      have e2 : f2 ≠ f := by intro e; subst e; simp [holdsBox] at h2'
      rw [setFork_ne _ _ _ _ e1] at h1; rw [setFork_ne _ _ _ _ e2] at h2'
      exact h2.mutex f1 f2 j' hf1 hf2 h1 h2'
    · intro g hg hpg
      by_cases hgf : g = f
      · subst hgf; simp at hpg
      · rw [setFork_ne _ _ _ _ hgf] at hpg ⊢; exact h2.tmp_ok g hg hpg
  case inc j _ hc hp =>
    have hab := (hi.forks f hf).atBox (by simp [hp, Pc.atBox])
    have hj : (s.forks f).inc = j := by
      have := hab.1; rw [hc] at this; exact (Option.some.inj this).symm
    have h2' := h2
    have htmp : (s.forks f).tmp = s.cnt j := by rw [h2.tmp_ok f hf hp, hj]
    rw [htmp]
    obtain ⟨h1, h3, _, h4, h5, h6, h7⟩ := h2
    have hcnt : s.cnt j + 1 = countF c.n (fun g => decide (j < ((setFork s f { s.forks f with
          pc := .bCmp, inc := (s.forks f).inc + 1 }).forks g).inc)) := by
      rw [h1 j]
      refine (countF_update c.n _ _ f hf ?_ ?_ ?_).symm
      · simp [hj]
      · simp [hj]
      · intro g _ hgf; simp [setFork_ne _ _ _ _ hgf]
    constructor
    · intro i
      by_cases hij : i = j
      · subst hij; simpa using hcnt
      · simp only [hij, if_false]
        rw [h1 i]
        apply countF_congr
        intro g _
        by_cases hgf : g = f
        · subst hgf; simp [hj]; omega
        · simp [setFork_ne _ _ _ _ hgf]
    · intro g hg
      by_cases hgf : g = f
      · subst hgf; have := h3 g hg; simp; omega
      · simpa [setFork_ne _ _ _ _ hgf] using h3 g hg
    · refine mutex_of_hold_eq c s _ h2' ?_
      intro g j'; by_cases hgf : g = f
      · subst hgf; simp [holdsBox, hp]
      · simp [setFork_ne _ _ _ _ hgf]
    · intro i hfull
      by_cases hij : i = j
      · subst hij
        right
        exact ⟨f, hf, by simp, by simp [hj]⟩
      · have hfull' : ∀ g, g < c.n → i < (s.forks g).inc := by
          intro g hg
          have := hfull g hg
          by_cases hgf : g = f
          · subst hgf; simp [hj] at this; omega
          · simpa [setFork_ne _ _ _ _ hgf] using this
        rcases h4 i hfull' with h | ⟨g, hg, hpg, hig⟩
        · left; exact h
        · right
          have hgf : g ≠ f := by intro e; subst e; simp [hp] at hpg
          exact ⟨g, hg, by simpa [setFork_ne _ _ _ _ hgf] using hpg, by simpa [setFork_ne _ _ _ _ hgf] using hig⟩
    · intro h hh hph
      by_cases hhf : h = f
      · subst hhf; have := h3 h hh; simp; omega
      · simp only [setFork_ne _ _ _ _ hhf] at hph ⊢
        exact h5 h hh hph
    · intro h hh hph g hg
      have hhf : h ≠ f := by intro e; subst e; simp at hph
      simp only [setFork_ne _ _ _ _ hhf] at hph ⊢
      have := h6 h hh hph g hg
      by_cases hgf : g = f
      · subst hgf; simp; omega
      · simpa [setFork_ne _ _ _ _ hgf] using this
    · intro g hg hpg
      by_cases hgf : g = f
      · subst hgf; simp at hpg
      · rw [setFork_ne _ _ _ _ hgf] at hpg ⊢
        have hgab := (hi.forks g hg).atBox (by simp [hpg, Pc.atBox])
        have hne : (s.forks g).inc ≠ j := by
          intro e
          apply hgf
          refine h2'.mutex g f j hg hf ?_ ?_
          · rw [holdsBox_iff]; exact ⟨by rw [hgab.1, e], by simp [hpg]⟩
          · rw [holdsBox_iff]; exact ⟨hc, by simp [hp]⟩
        simp only [hne, if_false]
        exact h7 g hg hpg
  case cmp j _ hc hp =>
    have hpi := (hi.forks f hf).postInc (by simp [hp, Pc.postInc])
    have hj : (s.forks f).inc = j + 1 := by
      have := hpi.1; rw [hc] at this; have := Option.some.inj this; omega
    have h2' := h2
    obtain ⟨h1, h3, _, h4, h5, h6, h7⟩ := h2
    have hinc : ∀ g, ((setFork s f { s.forks f with pc := if s.cnt j = c.n then .bGet else .bRel }).forks g).inc
        = (s.forks g).inc := by
      intro g; by_cases hgf : g = f
      · subst hgf; simp
      · simp [setFork_ne _ _ _ _ hgf]
    have hfulliff : s.cnt j = c.n ↔ ∀ g, g < c.n → j < (s.forks g).inc := by
      rw [h1 j, countF_eq_n]; simp
    constructor
    · intro i; simp only [hinc]; exact h1 i
    · intro g hg; simp only [hinc]; exact h3 g hg
    · refine mutex_of_hold_eq c s _ h2' ?_
      intro g j'; by_cases hgf : g = f
      · subst hgf; by_cases hn : s.cnt j = c.n <;> simp [holdsBox, hp, hn]
      · simp [setFork_ne _ _ _ _ hgf]
    · intro i hfull
      simp only [hinc] at hfull ⊢
      rcases h4 i hfull with h | ⟨g, hg, hpg, hig⟩
      · left; exact h
      · right
        by_cases hgf : g = f
        · subst hgf
          have hij : i = j := by omega
          subst hij
          refine ⟨g, hg, ?_, hig⟩
          simp [hfulliff.mpr hfull]
        · exact ⟨g, hg, by simpa [setFork_ne _ _ _ _ hgf] using hpg, hig⟩
    · intro h hh hph
      simp only [hinc]
      by_cases hhf : h = f
      · subst hhf; exact h5 h hh (Or.inl hp)
      · simp only [setFork_ne _ _ _ _ hhf] at hph; exact h5 h hh hph
    · intro h hh hph g hg
      simp only [hinc]
      by_cases hhf : h = f
      · subst hhf
        simp at hph
        have hn : s.cnt j = c.n := by
          by_cases e : s.cnt j = c.n
          · exact e
          · simp [e] at hph
        have := hfulliff.mp hn g hg
        omega
      · simp only [setFork_ne _ _ _ _ hhf] at hph; exact h6 h hh hph g hg
    · intro g hg hpg
      by_cases hgf : g = f
      · subst hgf; simp at hpg; split at hpg <;> simp at hpg
      · rw [setFork_ne _ _ _ _ hgf] at hpg ⊢; exact h7 g hg hpg
  case get _ hl hp =>
    have h2' := h2
    have hmut := h2.mutex
    obtain ⟨h1, h3, _, h4, h5, h6, h7⟩ := h2
    have q1 := h6 f hf hp
    have q2 := h5 f hf (Or.inr hp)
    have hown : s.popped + 1 = (s.forks f).inc := by
      apply Classical.byContradiction
      intro hne
      have hfull : ∀ g, g < c.n → s.popped < (s.forks g).inc := fun g hg => Nat.lt_of_lt_of_le q2 (q1 g hg)
      rcases h4 s.popped hfull with h | ⟨g, hg, hpg, hig⟩
      · omega
      · have := q1 g hg; omega
    have hinc : ∀ g, ((setFork s f { s.forks f with pc := .bRel }).forks g).inc = (s.forks g).inc := by
      intro g; by_cases hgf : g = f
      · subst hgf; simp
      · simp [setFork_ne _ _ _ _ hgf]
    have hpc : ∀ g, g ≠ f → ((setFork s f { s.forks f with pc := .bRel }).forks g).pc = (s.forks g).pc := by
      intro g hgf; simp [setFork_ne _ _ _ _ hgf]
    have hpif := (hi.forks f hf).postInc (by simp [hp, Pc.postInc])
    constructor
    · intro j; simp only [hinc]; exact h1 j
    · intro g hg; simp only [hinc]; have := q1 g hg; show s.popped + 1 ≤ _; omega
    · refine mutex_of_hold_eq c s _ h2' ?_
      intro g j'; by_cases hgf : g = f
      · subst hgf; simp [holdsBox, hp]
      · simp [setFork_ne _ _ _ _ hgf]
    · intro i hfull
      simp only [hinc] at hfull ⊢
      rcases h4 i hfull with h | ⟨g, hg, hpg, hig⟩
      · left; show i < s.popped + 1; omega
      · by_cases hgf : g = f
        · subst hgf; left; show i < s.popped + 1; omega
        · right; exact ⟨g, hg, by rw [hpc g hgf]; exact hpg, hig⟩
    · intro h hh hph
      have hhf : h ≠ f := by intro e; subst e; simp at hph
      rw [hpc h hhf] at hph
      simp only [hinc]
      have r2 := h5 h hh hph
      show s.popped + 1 < _
      have hne : (s.forks h).inc ≠ (s.forks f).inc := by
        intro e
        have hpih := (hi.forks h hh).postInc (by rcases hph with h' | h' <;> simp [h', Pc.postInc])
        apply hhf
        refine hmut h f ((s.forks f).inc - 1) hh hf ?_ ?_
        · simp only [holdsBox, Bool.and_eq_true, Bool.or_eq_true, beq_iff_eq]
          refine ⟨by rw [hpih.1, e], ?_⟩
          rcases hph with h' | h' <;> simp [h']
        · simp only [holdsBox, Bool.and_eq_true, Bool.or_eq_true, beq_iff_eq]
          exact ⟨hpif.1, by simp [hp]⟩
      omega
    · intro h hh hph g hg
      have hhf : h ≠ f := by intro e; subst e; simp at hph
      rw [hpc h hhf] at hph
      simp only [hinc]
      exact h6 h hh hph g hg
    · intro g hg hpg
      by_cases hgf : g = f
      · subst hgf; simp at hpg
      · rw [setFork_ne _ _ _ _ hgf] at hpg ⊢; exact h7 g hg hpg
  case incRead j _ hc hp =>
    have hab := (hi.forks f hf).atBox (by simp [hp, Pc.atBox])
    have hj : (s.forks f).inc = j := by
      have := hab.1; rw [hc] at this; exact (Option.some.inj this).symm
    refine inv2_frame c s _ ⟨?_, ?_, ?_, rfl, rfl⟩ h2 (mutex_of_hold_eq c s _ h2 ?_) ?_
    · intro g; by_cases hgf : g = f
      · subst hgf; simp
      · simp [setFork_ne _ _ _ _ hgf]
    · intro g; by_cases hgf : g = f
      · subst hgf; simp [hp]
      · simp [setFork_ne _ _ _ _ hgf]
    · intro g; by_cases hgf : g = f
      · subst hgf; simp [hp]
      · simp [setFork_ne _ _ _ _ hgf]
    · intro g j'; by_cases hgf : g = f
      · subst hgf; rw [Bool.eq_iff_iff]; simp [holdsBox_iff, hp]
      · simp [setFork_ne _ _ _ _ hgf]
    · intro g hg hpg
      by_cases hgf : g = f
      · subst hgf; simp [hj]
      · rw [setFork_ne _ _ _ _ hgf] at hpg ⊢; exact h2.tmp_ok g hg hpg
  all_goals tee_frame

theorem inv12_reachable (c : Cfg) (hn : 0 < c.n) {s : State} (hr : Reachable c s) : Inv c s ∧ Inv2 c s :=
  reachable_inv c (Inv := fun s => Inv c s ∧ Inv2 c s) ⟨inv_init c, inv2_init c hn⟩
    (fun s a s' h hs => ⟨inv_step c s a s' h.1 hs, inv2_step c s a s' h.1 h.2 hs⟩) hr

/-- when the source lock is held, the window lags the chain only while the holder is about to
    put the box it has just linked -/
theorem linked_le_put (c : Cfg) (s : State) (hi : Inv c s) :
    s.linked ≤ s.put ∨ ∃ h, h < c.n ∧ (s.forks h).pc = .wPut ∧ s.put + 1 = s.linked ∧ s.linked = (s.forks h).inc + 2 := by
  cases hl : s.lock with
  | none => left; have := hi.quiet hl; have := hi.shape; omega
  | some h =>
    obtain ⟨hh, hlk⟩ := hi.lock_lt h hl
    have fi := hi.forks h hh
    have hs := hi.shape
    cases hpc : (s.forks h).pc <;> simp [hpc, Pc.locked] at hlk
    case hChk => left; have := fi.quiet (by simp [hpc, Pc.quiet]); omega
    case hPull => left; have := fi.quiet (by simp [hpc, Pc.quiet]); omega
    case hPut => left; have := fi.hPut hpc; omega
    case hSet => left; have := fi.hSet hpc; omega
    case hRel => left; have := fi.quiet (by simp [hpc, Pc.quiet]); omega
    case hRelStop => left; have := fi.quiet (by simp [hpc, Pc.quiet]); omega
    case wChk => left; have := fi.quiet (by simp [hpc, Pc.quiet]); omega
    case wPull => left; have := fi.quiet (by simp [hpc, Pc.quiet]); omega
    case wLink => left; have := fi.wLink hpc; omega
    case wPut => right; have := fi.wPut hpc; exact ⟨h, hh, hpc, by omega, by omega⟩
    case wRel => left; have := fi.quiet (by simp [hpc, Pc.quiet]); omega

/-- a fork about to pop the window pops its own box, which is the oldest box in the window -/
theorem get_own (c : Cfg) (s : State) (hi : Inv c s) (h2 : Inv2 c s) (f : Nat) (hf : f < c.n)
    (hp : (s.forks f).pc = .bGet) :
    (s.forks f).cur = some s.popped ∧ s.popped + 1 = (s.forks f).inc ∧ s.popped < s.put := by
  have q1 := h2.get_inv f hf hp
  have q2 := h2.cmp_inv f hf (Or.inr hp)
  have hown : s.popped + 1 = (s.forks f).inc := by
    apply Classical.byContradiction
    intro hne
    have hfull : ∀ g, g < c.n → s.popped < (s.forks g).inc := fun g hg => Nat.lt_of_lt_of_le q2 (q1 g hg)
    rcases h2.full_pop s.popped hfull with h | ⟨g, hg, hpg, hig⟩
    · omega
    · have := q1 g hg; omega
  have hpi := (hi.forks f hf).postInc (by simp [hp, Pc.postInc])
  refine ⟨by rw [hpi.1]; congr 1; omega, hown, ?_⟩
  rcases linked_le_put c s hi with h | ⟨h, hh, _, h3, h4⟩
  · omega
  · have := q1 h hh; omega

end Tee
