import MpsVerif.Proofs.TeeInvAll
/-! Layer 2 of the `tee` invariants: the consumption counts count forks, and the window is popped
    exactly once per box, in order, by the last fork to count it. -/
namespace Tee

/-- number of `g < n` with `p g` -/
def countF : Nat → (Nat → Bool) → Nat
  | 0, _ => 0
  | n + 1, p => countF n p + (if p n then 1 else 0)

theorem countF_le (n : Nat) (p : Nat → Bool) : countF n p ≤ n := by
  induction n with
  | zero => simp [countF]
  | succ n ih => simp only [countF]; split <;> omega

theorem countF_congr (n : Nat) (p q : Nat → Bool) (h : ∀ g, g < n → p g = q g) : countF n p = countF n q := by
  induction n with
  | zero => rfl
  | succ n ih =>
    simp only [countF]
    rw [ih (fun g hg => h g (by omega)), h n (by omega)]

theorem countF_eq_n (n : Nat) (p : Nat → Bool) : countF n p = n ↔ ∀ g, g < n → p g = true := by
  induction n with
  | zero => simp [countF]
  | succ n ih =>
    simp only [countF]
    have := countF_le n p
    constructor
    · intro h g hg
      by_cases hp : p n = true
      · simp [hp] at h
        by_cases hgn : g = n
        · subst hgn; exact hp
        · exact ih.mp h g (by omega)
      · simp [hp] at h; omega
    · intro h
      rw [ih.mpr (fun g hg => h g (by omega)), h n (by omega)]; simp

theorem countF_update (n : Nat) (p q : Nat → Bool) (f : Nat) (hf : f < n) (hp : p f = false) (hq : q f = true)
    (h : ∀ g, g < n → g ≠ f → p g = q g) : countF n q = countF n p + 1 := by
  induction n with
  | zero => omega
  | succ n ih =>
    simp only [countF]
    by_cases hfn : f = n
    · subst hfn
      rw [countF_congr f q p (fun g hg => (h g (by omega) (by omega)).symm), hp, hq]; simp
    · rw [ih (by omega) (fun g hg hgf => h g (by omega) hgf), h n (by omega) (fun e => hfn e.symm)]; omega

structure Inv2 (c : Cfg) (s : State) : Prop where
  cnt_eq : ∀ j, s.cnt j = countF c.n (fun g => decide (j < (s.forks g).inc))
  pop_le : ∀ f, f < c.n → s.popped ≤ (s.forks f).inc
  full_pop : ∀ j, (∀ g, g < c.n → j < (s.forks g).inc) →
    j < s.popped ∨ ∃ g, g < c.n ∧ (s.forks g).pc = .bGet ∧ (s.forks g).inc = j + 1
  get_inv : ∀ f, f < c.n → (s.forks f).pc = .bGet →
    (∀ g, g < c.n → (s.forks f).inc ≤ (s.forks g).inc) ∧ s.popped < (s.forks f).inc
  uniq : ∀ f g, f < c.n → g < c.n → (s.forks f).pc = .bGet → (s.forks g).pc = .bGet →
    (s.forks f).inc = (s.forks g).inc → f = g

theorem countF_false (n : Nat) : countF n (fun _ => false) = 0 := by
  induction n with
  | zero => rfl
  | succ n ih => simp [countF, ih]

theorem inv2_init (c : Cfg) (hn : 0 < c.n) : Inv2 c init := by
  constructor
  · intro j; simp [init, fork0, countF_false]
  · intro f _; simp [init]
  · intro j h
    have := h 0 hn; simp [init, fork0] at this
  · intro f _ h; simp [init, fork0] at h
  · intro f g _ _ h; simp [init, fork0] at h

/-- a step that touches neither the counts, nor `popped`, nor who is about to pop -/
structure Frame (s s' : State) : Prop where
  inc_eq : ∀ g, (s'.forks g).inc = (s.forks g).inc
  get_iff : ∀ g, (s'.forks g).pc = .bGet ↔ (s.forks g).pc = .bGet
  cnt_eq : s'.cnt = s.cnt
  popped_eq : s'.popped = s.popped

theorem inv2_frame (c : Cfg) (s s' : State) (hfr : Frame s s') (h : Inv2 c s) : Inv2 c s' := by
  obtain ⟨e1, e2, e3, e4⟩ := hfr
  obtain ⟨h1, h2, h3, h4, h5⟩ := h
  constructor
  · intro j; simp only [e3, e1]; exact h1 j
  · intro f hf; simp only [e4, e1]; exact h2 f hf
  · intro j hj; simp only [e4, e1, e2] at hj ⊢; exact h3 j hj
  · intro f hf hp; simp only [e4, e1, e2] at hp ⊢; exact h4 f hf hp
  · intro f g hf hg hp hq; simp only [e1, e2] at hp hq ⊢; exact h5 f g hf hg hp hq

set_option hygiene false in
macro "tee_frame" : tactic => `(tactic| (
    rename_i hp
    refine inv2_frame c _ _ ⟨?_, ?_, ?_, ?_⟩ h2
    · intro g; by_cases hgf : g = f
      · subst hgf; simp
      · simp [setFork_ne _ _ _ _ hgf]
    · intro g; by_cases hgf : g = f
      · subst hgf; simp [hp]; try (repeat' split) <;> simp
      · simp [setFork_ne _ _ _ _ hgf]
    · rfl
    · rfl))

theorem inv2_step (c : Cfg) (s : State) (a : Act) (s' : State) (hi : Inv c s) (h2 : Inv2 c s)
    (hs : Step c s a s') : Inv2 c s' := by
  obtain ⟨f, k⟩ := a
  have hf := hs.lt
  cases hs
  case inc j _ hc hp =>
    have hab := (hi.forks f hf).atBox (by simp [hp, Pc.atBox])
    have hj : (s.forks f).inc = j := by
      have := hab.1; rw [hc] at this; exact (Option.some.inj this).symm
    obtain ⟨h1, h3, h4, h5, h6⟩ := h2
    have hcnt : s.cnt j + 1 = countF c.n (fun g => decide (j < ((setFork s f { s.forks f with
          pc := if s.cnt j + 1 = c.n then .bGet else .bRel, inc := (s.forks f).inc + 1 }).forks g).inc)) := by
      rw [h1 j]
      refine (countF_update c.n _ _ f hf ?_ ?_ ?_).symm
      · simp [hj]
      · simp [hj]
      · intro g _ hgf; simp [setFork_ne _ _ _ _ hgf]
    constructor
    · intro i
      by_cases hij : i = j
      · subst hij; simpa using hcnt
      · simp only [hij, if_false]
        rw [h1 i]
        apply countF_congr
        intro g _
        by_cases hgf : g = f
        · subst hgf; simp [hj]; omega
        · simp [setFork_ne _ _ _ _ hgf]
    · intro g hg
      by_cases hgf : g = f
      · subst hgf; have := h3 g hg; simp; omega
      · simpa [setFork_ne _ _ _ _ hgf] using h3 g hg
    · intro i hfull
      by_cases hij : i = j
      · subst hij
        right
        refine ⟨f, hf, ?_, by simp [hj]⟩
        have hn : s.cnt i + 1 = c.n := by
          rw [hcnt]; exact (countF_eq_n _ _).mpr (fun g hg => by simpa using hfull g hg)
        simp [hn]
      · have hfull' : ∀ g, g < c.n → i < (s.forks g).inc := by
          intro g hg
          have := hfull g hg
          by_cases hgf : g = f
          · subst hgf; simp [hj] at this; omega
          · simpa [setFork_ne _ _ _ _ hgf] using this
        rcases h4 i hfull' with h | ⟨g, hg, hpg, hig⟩
        · left; exact h
        · right
          have hgf : g ≠ f := by intro e; subst e; simp [hp] at hpg
          exact ⟨g, hg, by simpa [setFork_ne _ _ _ _ hgf] using hpg, by simpa [setFork_ne _ _ _ _ hgf] using hig⟩
    · intro h hh hph
      by_cases hhf : h = f
      · subst hhf
        simp at hph
        have hn : s.cnt j + 1 = c.n := by
          by_cases e : s.cnt j + 1 = c.n
          · exact e
          · simp [e] at hph
        have hall := (countF_eq_n _ _).mp (hcnt.symm.trans hn)
        refine ⟨?_, ?_⟩
        · intro g hg
          have := hall g hg
          simp at this ⊢
          by_cases hgf : g = h
          · subst hgf; simp
          · simp [setFork_ne _ _ _ _ hgf] at this ⊢; omega
        · have := h3 h hh; simp; omega
      · simp only [setFork_ne _ _ _ _ hhf] at hph ⊢
        obtain ⟨q1, q2⟩ := h5 h hh hph
        refine ⟨?_, q2⟩
        intro g hg
        by_cases hgf : g = f
        · subst hgf; have := q1 g hg; simp; omega
        · simpa [setFork_ne _ _ _ _ hgf] using q1 g hg
    · intro f1 f2 hf1 hf2 hp1 hp2 he
      by_cases e1 : f1 = f <;> by_cases e2 : f2 = f
      · rw [e1, e2]
      · subst e1
        simp only [setFork_ne _ _ _ _ e2] at hp2 he
        have := (h5 f2 hf2 hp2).1 f1 hf1
        simp at he; omega
      · subst e2
        simp only [setFork_ne _ _ _ _ e1] at hp1 he
        have := (h5 f1 hf1 hp1).1 f2 hf2
        simp at he; omega
      · simp only [setFork_ne _ _ _ _ e1, setFork_ne _ _ _ _ e2] at hp1 hp2 he
        exact h6 f1 f2 hf1 hf2 hp1 hp2 he
  case get _ hl hp =>
    obtain ⟨h1, h3, h4, h5, h6⟩ := h2
    obtain ⟨q1, q2⟩ := h5 f hf hp
    have hown : s.popped + 1 = (s.forks f).inc := by
      apply Classical.byContradiction
      intro hne
      have hfull : ∀ g, g < c.n → s.popped < (s.forks g).inc := fun g hg => Nat.lt_of_lt_of_le q2 (q1 g hg)
      rcases h4 s.popped hfull with h | ⟨g, hg, hpg, hig⟩
      · omega
      · have := q1 g hg; omega
    have hinc : ∀ g, ((setFork s f { s.forks f with pc := .bRel }).forks g).inc = (s.forks g).inc := by
      intro g; by_cases hgf : g = f
      · subst hgf; simp
      · simp [setFork_ne _ _ _ _ hgf]
    have hpc : ∀ g, g ≠ f → ((setFork s f { s.forks f with pc := .bRel }).forks g).pc = (s.forks g).pc := by
      intro g hgf; simp [setFork_ne _ _ _ _ hgf]
    constructor
    · intro j; simp only [hinc]; exact h1 j
    · intro g hg; simp only [hinc]; have := q1 g hg; show s.popped + 1 ≤ _; omega
    · intro i hfull
      simp only [hinc] at hfull ⊢
      rcases h4 i hfull with h | ⟨g, hg, hpg, hig⟩
      · left; show i < s.popped + 1; omega
      · by_cases hgf : g = f
        · subst hgf; left; show i < s.popped + 1; omega
        · right; exact ⟨g, hg, by rw [hpc g hgf]; exact hpg, hig⟩
    · intro h hh hph
      have hhf : h ≠ f := by intro e; subst e; simp at hph
      rw [hpc h hhf] at hph
      simp only [hinc]
      obtain ⟨r1, r2⟩ := h5 h hh hph
      refine ⟨r1, ?_⟩
      show s.popped + 1 < _
      have : (s.forks h).inc ≠ (s.forks f).inc := fun e => hhf (h6 h f hh hf hph hp e)
      omega
    · intro f1 f2 hf1 hf2 hp1 hp2 he
      have e1 : f1 ≠ f := by intro e; subst e; simp at hp1
      have e2 : f2 ≠ f := by intro e; subst e; simp at hp2
      rw [hpc f1 e1] at hp1; rw [hpc f2 e2] at hp2
      simp only [hinc] at he
      exact h6 f1 f2 hf1 hf2 hp1 hp2 he
  all_goals tee_frame

theorem inv12_reachable (c : Cfg) (hn : 0 < c.n) {s : State} (hr : Reachable c s) : Inv c s ∧ Inv2 c s :=
  reachable_inv c (Inv := fun s => Inv c s ∧ Inv2 c s) ⟨inv_init c, inv2_init c hn⟩
    (fun s a s' h hs => ⟨inv_step c s a s' h.1 hs, inv2_step c s a s' h.1 h.2 hs⟩) hr

/-- when the source lock is held, the window lags the chain only while the holder is about to
    put the box it has just linked -/
theorem linked_le_put (c : Cfg) (s : State) (hi : Inv c s) :
    s.linked ≤ s.put ∨ ∃ h, h < c.n ∧ (s.forks h).pc = .wPut ∧ s.put + 1 = s.linked ∧ s.linked = (s.forks h).inc + 2 := by
  cases hl : s.lock with
  | none => left; have := hi.quiet hl; have := hi.shape; omega
  | some h =>
    obtain ⟨hh, hlk⟩ := hi.lock_lt h hl
    have fi := hi.forks h hh
    have hs := hi.shape
    cases hpc : (s.forks h).pc <;> simp [hpc, Pc.locked] at hlk
    case hChk => left; have := fi.quiet (by simp [hpc, Pc.quiet]); omega
    case hPull => left; have := fi.quiet (by simp [hpc, Pc.quiet]); omega
    case hPut => left; have := fi.hPut hpc; omega
    case hSet => left; have := fi.hSet hpc; omega
    case hRel => left; have := fi.quiet (by simp [hpc, Pc.quiet]); omega
    case hRelStop => left; have := fi.quiet (by simp [hpc, Pc.quiet]); omega
    case wChk => left; have := fi.quiet (by simp [hpc, Pc.quiet]); omega
    case wPull => left; have := fi.quiet (by simp [hpc, Pc.quiet]); omega
    case wLink => left; have := fi.wLink hpc; omega
    case wPut => right; have := fi.wPut hpc; exact ⟨h, hh, hpc, by omega, by omega⟩
    case wRel => left; have := fi.quiet (by simp [hpc, Pc.quiet]); omega

/-- a fork about to pop the window pops its own box, which is the oldest box in the window -/
theorem get_own (c : Cfg) (s : State) (hi : Inv c s) (h2 : Inv2 c s) (f : Nat) (hf : f < c.n)
    (hp : (s.forks f).pc = .bGet) :
    (s.forks f).cur = some s.popped ∧ s.popped + 1 = (s.forks f).inc ∧ s.popped < s.put := by
  obtain ⟨q1, q2⟩ := h2.get_inv f hf hp
  have hown : s.popped + 1 = (s.forks f).inc := by
    apply Classical.byContradiction
    intro hne
    have hfull : ∀ g, g < c.n → s.popped < (s.forks g).inc := fun g hg => Nat.lt_of_lt_of_le q2 (q1 g hg)
    rcases h2.full_pop s.popped hfull with h | ⟨g, hg, hpg, hig⟩
    · omega
    · have := q1 g hg; omega
  have hpi := (hi.forks f hf).postInc (by simp [hp, Pc.postInc])
  refine ⟨by rw [hpi.1]; congr 1; omega, hown, ?_⟩
  rcases linked_le_put c s hi with h | ⟨h, hh, _, h3, h4⟩
  · omega
  · have := q1 h hh; omega

end Tee
