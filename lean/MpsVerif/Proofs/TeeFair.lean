import MpsVerif.Proofs.TeeLive
/-! Fair termination of the `tee` model: no infinite execution is weakly fair. -/
namespace Tee

/-- program points of the timed lock retry loops -/
def Pc.spin : Pc → Bool
  | .hLoop | .hAcq | .wLoop | .wAcq => true
  | _ => false

/-- where a spin step leads -/
def spinNext : Pc → Pc
  | .hLoop => .hAcq | .hAcq => .hLoop | .wLoop => .wAcq | .wAcq => .wLoop | p => p

/-- a spin step only moves the spinner inside its retry loop (and nothing else) -/
theorem spin_shape' (c : Cfg) (s : State) (a : Act) (s' : State) (hsp : isSpin c s a = true)
    (hs : step c s a = some s') :
    s' = setFork s a.f { s.forks a.f with pc := spinNext (s.forks a.f).pc } ∧ (s.forks a.f).pc.spin = true ∧
      (spinNext (s.forks a.f).pc).spin = true ∧ mu c s' = mu c s := by
  have hst := step_sound c s s' a hs
  have hmu : ∀ (f : Nat) (p : Pc), rank c s.linked { s.forks f with pc := p } = rank c s.linked (s.forks f) →
      mu c (setFork s f { s.forks f with pc := p }) = mu c s := by
    intro f p hr
    unfold mu
    congr 1
    funext g
    by_cases hg : g = f
    · subst hg; simp [fmeasure, hr]
    · simp [setFork_ne _ _ _ _ hg]
  cases hst
  all_goals
    rename_i hp
    simp only [isSpin, hp] at hsp
    try (simp at hsp; done)
  case hgetLoop f _ =>
    simp at hsp
    refine ⟨by simp [hsp, hp, spinNext], by simp [hp, Pc.spin], by simp [hp, spinNext, Pc.spin], ?_⟩
    simp only [hsp, if_true]
    exact hmu f .hAcq (by simp [rank, hp, hsp])
  case acqFailH f _ _ =>
    simp at hsp
    refine ⟨by simp [hp, spinNext], by simp [hp, Pc.spin], by simp [hp, spinNext, Pc.spin], ?_⟩
    exact hmu f .hLoop (by simp [rank, hp, hsp])
  case acqFailW f _ _ =>
    refine ⟨by simp [hp, spinNext], by simp [hp, Pc.spin], by simp [hp, spinNext, Pc.spin], ?_⟩
    refine hmu f .wLoop ?_
    cases hc : (s.forks f).cur with
    | none => simp [hc] at hsp
    | some j =>
      simp [hc] at hsp
      have h1 : ¬ (j + 1 < s.linked) := by omega
      simp [rank, hp, condMet, hc, h1, hsp.2]
  case ngetLoop f j _ hc =>
    simp [hc] at hsp
    have h1 : ¬ (j + 1 < s.linked) := by omega
    refine ⟨by simp [h1, hsp.2, hp, spinNext], by simp [hp, Pc.spin], by simp [hp, spinNext, Pc.spin], ?_⟩
    simp only [h1, hsp.2, if_false]
    refine hmu f .wAcq ?_
    simp [rank, hp, condMet, hc, h1, hsp.2]

theorem spin_shape (c : Cfg) (s : State) (a : Act) (s' : State) (hsp : isSpin c s a = true)
    (hs : step c s a = some s') :
    ∃ p, s' = setFork s a.f { s.forks a.f with pc := p } ∧ (s.forks a.f).pc.spin = true ∧ p.spin = true := by
  obtain ⟨h1, h2, h3, _⟩ := spin_shape' c s a s' hsp hs
  exact ⟨_, h1, h2, h3⟩

/-- two fork states that differ at most by the position inside a retry loop -/
def FSame (a b : Fork) : Prop := a = b ∨ (a.pc.spin = true ∧ b.pc.spin = true ∧ b = { a with pc := b.pc })

/-- two states that differ at most by where spinners are inside their retry loops -/
structure Same (s s' : State) : Prop where
  pulled : s'.pulled = s.pulled
  raised : s'.raised = s.raised
  endPulls : s'.endPulls = s.endPulls
  boxes : s'.boxes = s.boxes
  linked : s'.linked = s.linked
  put : s'.put = s.put
  popped : s'.popped = s.popped
  cnt : s'.cnt = s.cnt
  lock : s'.lock = s.lock
  forks : ∀ g, FSame (s.forks g) (s'.forks g)

theorem Same.refl (s : State) : Same s s :=
  ⟨rfl, rfl, rfl, rfl, rfl, rfl, rfl, rfl, rfl, fun _ => Or.inl rfl⟩

/-- extending by one spin step -/
theorem Same.spin_step (c : Cfg) (s0 s : State) (a : Act) (s' : State) (h : Same s0 s)
    (hsp : isSpin c s a = true) (hs : step c s a = some s') : Same s0 s' := by
  obtain ⟨p, rfl, hp1, hp2⟩ := spin_shape c s a s' hsp hs
  refine ⟨h.pulled, h.raised, h.endPulls, h.boxes, h.linked, h.put, h.popped, h.cnt, h.lock, ?_⟩
  intro g
  by_cases hg : g = a.f
  · subst hg
    simp only [setFork_same]
    rcases h.forks a.f with e | ⟨e1, _, e3⟩
    · right; rw [e]; exact ⟨hp1, hp2, rfl⟩
    · right; refine ⟨e1, hp2, ?_⟩; rw [e3]
  · rw [setFork_ne _ _ _ _ hg]; exact h.forks g

theorem holdsBox_spin (fk : Fork) (j : Nat) (h : fk.pc.spin = true) : holdsBox fk j = false := by
  cases hpc : fk.pc <;> simp [hpc, Pc.spin] at h <;> simp [holdsBox, hpc]

theorem holdsBox_fsame (a b : Fork) (j : Nat) (h : FSame a b) : holdsBox b j = holdsBox a j := by
  rcases h with e | ⟨e1, e2, _⟩
  · rw [e]
  · rw [holdsBox_spin a j e1, holdsBox_spin b j e2]

theorem boxFree_same (c : Cfg) (s s' : State) (f j : Nat) (h : Same s s') : boxFree c s' f j = boxFree c s f j := by
  simp only [boxFree]
  congr 1
  funext g
  rw [holdsBox_fsame _ _ j (h.forks g)]

/-- enabledness of an action of a fork whose own state is the same -/
theorem enabled_same (c : Cfg) (s s' : State) (g : Nat) (k : Kind) (h : Same s s')
    (hg : s'.forks g = s.forks g) : (step c s' ⟨g, k⟩).isSome = (step c s ⟨g, k⟩).isSome := by
  simp only [step]
  by_cases hlt : g < c.n
  · simp only [hlt, if_true, hg]
    have hb := fun j => boxFree_same c s s' g j h
    cases k <;> simp only [stepF, h.pulled, h.raised, h.linked, h.put, h.popped, h.cnt, h.lock, hb] <;>
      (repeat' split) <;> simp_all
  · simp [hlt]

theorem isSpin_same (c : Cfg) (s s' : State) (g : Nat) (k : Kind) (h : Same s s')
    (hg : s'.forks g = s.forks g) : isSpin c s' ⟨g, k⟩ = isSpin c s ⟨g, k⟩ := by
  simp only [isSpin, hg, h.linked]

/-- a fork that can take a spin step can take no other step -/
theorem spin_only (c : Cfg) (s : State) (g : Nat) (k1 k2 : Kind) (hsp : isSpin c s ⟨g, k1⟩ = true)
    (h1 : (step c s ⟨g, k1⟩).isSome = true) (h2 : (step c s ⟨g, k2⟩).isSome = true) : k2 = k1 := by
  obtain ⟨s1, hs1⟩ := Option.isSome_iff_exists.mp h1
  have hst := step_sound c s s1 _ hs1
  have hf := hst.lt
  cases hst
  all_goals
    rename_i hp
    simp only [isSpin, hp] at hsp
    try (simp at hsp; done)
  case hgetLoop =>
    cases k2 <;> simp [step, stepF, hf, hp] at h2 ⊢
    split at h2 <;> simp at h2
  case acqFailH =>
    cases k2 <;> simp [step, stepF, hf, hp] at h2 ⊢
    · simp_all
    · split at h2 <;> simp at h2
  case acqFailW =>
    cases k2 <;> simp [step, stepF, hf, hp] at h2 ⊢
    · simp_all
    · split at h2 <;> simp at h2
  case ngetLoop j _ hc =>
    cases k2 <;> simp [step, stepF, hf, hp, hc] at h2 ⊢

/-- what `Advances` amounts to: a productive step is enabled, or a spin step of some fork is
    enabled after which that same fork has a productive step -/
theorem advances_split (c : Cfg) (s : State) (h : Advances c s) :
    (∃ a s1, step c s a = some s1 ∧ isSpin c s a = false) ∨
    (∃ g k s1 k' s2, step c s ⟨g, k⟩ = some s1 ∧ isSpin c s ⟨g, k⟩ = true ∧
      step c s1 ⟨g, k'⟩ = some s2 ∧ isSpin c s1 ⟨g, k'⟩ = false) := by
  obtain ⟨as, s', hne, hlen, hrun, hlt⟩ := h
  match as, hne, hlen, hrun with
  | [a], _, _, hrun =>
    simp only [Core.run_cons, Core.run_nil] at hrun
    cases hst : step c s a with
    | none => simp [hst] at hrun
    | some s1 =>
      simp [hst] at hrun; subst hrun
      left
      refine ⟨a, s1, hst, ?_⟩
      cases hsp : isSpin c s a
      · rfl
      · have := (spin_shape' c s a s1 hsp hst).2.2.2; omega
  | [a, b], _, _, hrun =>
    simp only [Core.run_cons, Core.run_nil] at hrun
    cases hst : step c s a with
    | none => simp [hst] at hrun
    | some s1 =>
      simp [hst] at hrun
      cases hst2 : step c s1 b with
      | none => simp [hst2] at hrun
      | some s2 =>
        simp [hst2] at hrun; subst hrun
        cases hsp : isSpin c s a
        · left; exact ⟨a, s1, hst, hsp⟩
        · have e1 := (spin_shape' c s a s1 hsp hst).2.2.2
          have hnb : isSpin c s1 b = false := by
            cases hsb : isSpin c s1 b
            · rfl
            · have := (spin_shape' c s1 b s2 hsb hst2).2.2.2; omega
          obtain ⟨g, k⟩ := a
          obtain ⟨g', k'⟩ := b
          by_cases hgg : g' = g
          · subst hgg; right; exact ⟨g', k, s1, k', s2, hst, hsp, hst2, hnb⟩
          · -- the productive step of another fork was enabled before the spin step already
            left
            have hsame : Same s s1 := Same.spin_step c s s ⟨g, k⟩ s1 (Same.refl s) hsp hst
            have hfk : s1.forks g' = s.forks g' := by
              rw [(spin_shape' c s ⟨g, k⟩ s1 hsp hst).1]; exact setFork_ne _ _ _ _ hgg
            have hen := enabled_same c s s1 g' k' hsame hfk
            rw [hst2] at hen
            obtain ⟨t, ht⟩ := Option.isSome_iff_exists.mp hen.symm
            refine ⟨⟨g', k'⟩, t, ht, ?_⟩
            rw [← isSpin_same c s s1 g' k' hsame hfk]; exact hnb
  | [], hne, _, _ => exact absurd rfl hne
  | _ :: _ :: _ :: _, _, hlen, _ => simp at hlen

/-- an infinite execution from a reachable state -/
structure InfRun (c : Cfg) where
  σ : Nat → State
  α : Nat → Act
  start : Reachable c (σ 0)
  next : ∀ i, step c (σ i) (α i) = some (σ (i + 1))

/-- weak fairness: an action (fork, kind) that is enabled from some point on forever is
    eventually taken -/
def WeaklyFair (c : Cfg) (r : InfRun c) : Prop :=
  ∀ (a : Act) (M : Nat), (∀ i, M ≤ i → (step c (r.σ i) a).isSome = true) → ∃ i, M ≤ i ∧ r.α i = a

theorem InfRun.reach {c : Cfg} (r : InfRun c) : ∀ i, Reachable c (r.σ i)
  | 0 => r.start
  | i + 1 => Core.Reach.tail (r.reach i) (r.next i)

theorem InfRun.mu_mono {c : Cfg} (r : InfRun c) (i : Nat) : ∀ d, mu c (r.σ (i + d)) ≤ mu c (r.σ i) := by
  intro d
  induction d with
  | zero => exact Nat.le_refl _
  | succ d ih =>
    have := mu_step c _ _ _ (inv_reachable c (r.reach (i + d))) (step_sound c _ _ _ (r.next (i + d)))
    have e : i + (d + 1) = i + d + 1 := rfl
    rw [e]
    split at this <;> omega

theorem eventually_spin {c : Cfg} (r : InfRun c) : ∃ N, ∀ i, N ≤ i → isSpin c (r.σ i) (r.α i) = true := by
  have key : ∀ m i0, mu c (r.σ i0) ≤ m → ∃ N, ∀ i, N ≤ i → isSpin c (r.σ i) (r.α i) = true := by
    intro m
    induction m with
    | zero =>
      intro i0 h
      refine ⟨i0, ?_⟩
      intro i hi
      obtain ⟨d, rfl⟩ := Nat.exists_eq_add_of_le hi
      cases hsp : isSpin c (r.σ (i0 + d)) (r.α (i0 + d))
      · have := mu_step c _ _ _ (inv_reachable c (r.reach (i0 + d))) (step_sound c _ _ _ (r.next (i0 + d)))
        have := r.mu_mono i0 d
        simp [hsp] at *; omega
      · rfl
    | succ m ih =>
      intro i0 h
      by_cases hall : ∀ i, i0 ≤ i → isSpin c (r.σ i) (r.α i) = true
      · exact ⟨i0, hall⟩
      · have hex : ∃ i, i0 ≤ i ∧ isSpin c (r.σ i) (r.α i) = false := by
          apply Classical.byContradiction
          intro hne
          apply hall
          intro i hi
          cases hsp : isSpin c (r.σ i) (r.α i)
          · exact absurd ⟨i, hi, hsp⟩ hne
          · rfl
        obtain ⟨i, hi, hsp⟩ := hex
        obtain ⟨d, rfl⟩ := Nat.exists_eq_add_of_le hi
        have := mu_step c _ _ _ (inv_reachable c (r.reach (i0 + d))) (step_sound c _ _ _ (r.next (i0 + d)))
        have := r.mu_mono i0 d
        simp [hsp] at *
        exact ih (i0 + d + 1) (by omega)
  exact key _ 0 (Nat.le_refl _)

/-- **Fair termination.**  No infinite execution of the model is weakly fair: under weak fairness
    every execution is finite (and by `progress` it can only stop in a final state). -/
theorem fair_terminates (c : Cfg) (hn : 0 < c.n) (hbs : 2 ≤ c.bs) (r : InfRun c) : ¬ WeaklyFair c r := by
  intro hfair
  obtain ⟨N, hN⟩ := eventually_spin r
  -- (A) from N on, every enabled action is a spin action
  have lemA : ∀ M, N ≤ M → ∀ g k, (step c (r.σ M) ⟨g, k⟩).isSome = true → isSpin c (r.σ M) ⟨g, k⟩ = true := by
    intro M hM g k hen
    cases hns : isSpin c (r.σ M) ⟨g, k⟩
    case true => rfl
    case false =>
    exfalso
    have pers : ∀ d, Same (r.σ M) (r.σ (M + d)) ∧ (r.σ (M + d)).forks g = (r.σ M).forks g := by
      intro d
      induction d with
      | zero => exact ⟨Same.refl _, rfl⟩
      | succ d ih =>
        obtain ⟨hs, hfk⟩ := ih
        have hspin := hN (M + d) (by omega)
        have hstep := r.next (M + d)
        have hact : (r.α (M + d)).f ≠ g := by
          intro e
          have hen' : (step c (r.σ (M + d)) ⟨g, k⟩).isSome = true := by
            rw [enabled_same c _ _ g k hs hfk]; exact hen
          have hα : r.α (M + d) = ⟨g, (r.α (M + d)).k⟩ := by rw [← e]
          rw [hα] at hspin hstep
          have hk := spin_only c _ g _ k hspin (by rw [hstep]; rfl) hen'
          rw [← hk, isSpin_same c _ _ g k hs hfk, hns] at hspin
          exact absurd hspin (by simp)
        refine ⟨Same.spin_step c _ _ _ _ hs hspin hstep, ?_⟩
        have e : M + (d + 1) = M + d + 1 := rfl
        rw [e, (spin_shape' c _ _ _ hspin hstep).1, setFork_ne _ _ _ _ (Ne.symm hact)]
        exact hfk
    obtain ⟨i, hi, hα⟩ := hfair ⟨g, k⟩ M (by
      intro i hi
      obtain ⟨d, rfl⟩ := Nat.exists_eq_add_of_le hi
      rw [enabled_same c _ _ g k (pers d).1 (pers d).2]; exact hen)
    obtain ⟨d, rfl⟩ := Nat.exists_eq_add_of_le hi
    have hspin := hN (M + d) (by omega)
    rw [hα, isSpin_same c _ _ g k (pers d).1 (pers d).2, hns] at hspin
    exact absurd hspin (by simp)
  -- (B) the state at N is not final, so it advances
  have hreach := r.reach N
  obtain ⟨hi, h2⟩ := inv12_reachable c hn hreach
  have hnf : ¬ Final c (r.σ N) := by
    intro hfin
    have hspin := hN N (Nat.le_refl _)
    have hstep := r.next N
    have hlt := (step_sound c _ _ _ hstep).lt
    have := (spin_shape' c _ _ _ hspin hstep).2.1
    rw [hfin _ hlt] at this
    simp [Pc.spin] at this
  rcases advances_split c _ (progress c _ hi h2 hbs hnf) with ⟨⟨g, k⟩, s1, hs1, hns⟩ | ⟨g, k, s1, k', s2, hs1, hsp, hs2, hns2⟩
  · have := lemA N (Nat.le_refl _) g k (by rw [hs1]; rfl)
    rw [hns] at this; exact absurd this (by simp)
  · -- a spin action of g is enabled at N, after which g has a productive action
    have hs1shape := (spin_shape' c _ _ _ hsp hs1).1
    -- if g moves at some i ≥ N, the productive action is enabled afterwards: contradiction with (A)
    have moves : ∀ d, Same (r.σ N) (r.σ (N + d)) → (r.σ (N + d)).forks g = (r.σ N).forks g →
        (r.α (N + d)).f = g → False := by
      intro d hs hfk e
      have hspin := hN (N + d) (by omega)
      have hstep := r.next (N + d)
      have hen' : (step c (r.σ (N + d)) ⟨g, k⟩).isSome = true := by
        rw [enabled_same c _ _ g k hs hfk, hs1]; rfl
      have hα : r.α (N + d) = ⟨g, (r.α (N + d)).k⟩ := by rw [← e]
      rw [hα] at hspin hstep
      have hk := spin_only c _ g _ k hspin (by rw [hstep]; rfl) hen'
      rw [← hk] at hspin hstep
      -- the successor agrees with s1 on fork g and is `Same`
      have hshape := (spin_shape' c _ _ _ hspin hstep).1
      have hsame1 : Same s1 (r.σ (N + d + 1)) := by
        rw [hshape, hs1shape]
        refine ⟨hs.pulled, hs.raised, hs.endPulls, hs.boxes, hs.linked, hs.put, hs.popped, hs.cnt, hs.lock, ?_⟩
        intro h
        by_cases hh : h = g
        · subst hh; simp only [setFork_same]; left; rw [hfk]
        · simp only [setFork_ne _ _ _ _ hh]; exact hs.forks h
      have hfk1 : (r.σ (N + d + 1)).forks g = s1.forks g := by
        rw [hshape, hs1shape]; simp only [setFork_same]; rw [hfk]
      have hen2 : (step c (r.σ (N + d + 1)) ⟨g, k'⟩).isSome = true := by
        rw [enabled_same c _ _ g k' hsame1 hfk1, hs2]; rfl
      have := lemA (N + d + 1) (by omega) g k' hen2
      rw [isSpin_same c _ _ g k' hsame1 hfk1, hns2] at this
      exact absurd this (by simp)
    have pers : ∀ d, Same (r.σ N) (r.σ (N + d)) ∧ (r.σ (N + d)).forks g = (r.σ N).forks g := by
      intro d
      induction d with
      | zero => exact ⟨Same.refl _, rfl⟩
      | succ d ih =>
        obtain ⟨hs, hfk⟩ := ih
        have hspin := hN (N + d) (by omega)
        have hstep := r.next (N + d)
        have hact : (r.α (N + d)).f ≠ g := fun e => moves d hs hfk e
        refine ⟨Same.spin_step c _ _ _ _ hs hspin hstep, ?_⟩
        have e : N + (d + 1) = N + d + 1 := rfl
        rw [e, (spin_shape' c _ _ _ hspin hstep).1, setFork_ne _ _ _ _ (Ne.symm hact)]
        exact hfk
    obtain ⟨i, hi', hα⟩ := hfair ⟨g, k⟩ N (by
      intro i hi'
      obtain ⟨d, rfl⟩ := Nat.exists_eq_add_of_le hi'
      rw [enabled_same c _ _ g k (pers d).1 (pers d).2, hs1]; rfl)
    obtain ⟨d, rfl⟩ := Nat.exists_eq_add_of_le hi'
    exact moves d (pers d).1 (pers d).2 (by rw [hα])

end Tee
