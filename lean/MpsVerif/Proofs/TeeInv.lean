import MpsVerif.Proofs.TeeStep
/-! Safety invariants of the `tee` model (layer 1: lock phases, fork-local facts, endings). -/
namespace Tee

@[simp] theorem setFork_same (s : State) (f : Nat) (fk : Fork) : (setFork s f fk).forks f = fk := by
  simp [setFork]
theorem setFork_ne (s : State) (f g : Nat) (fk : Fork) (h : g ≠ f) : (setFork s f fk).forks g = s.forks g := by
  simp [setFork, h]
@[simp] theorem setFork_pulled (s : State) (f : Nat) (fk : Fork) : (setFork s f fk).pulled = s.pulled := rfl
@[simp] theorem setFork_raised (s : State) (f : Nat) (fk : Fork) : (setFork s f fk).raised = s.raised := rfl
@[simp] theorem setFork_endPulls (s : State) (f : Nat) (fk : Fork) : (setFork s f fk).endPulls = s.endPulls := rfl
@[simp] theorem setFork_boxes (s : State) (f : Nat) (fk : Fork) : (setFork s f fk).boxes = s.boxes := rfl
@[simp] theorem setFork_linked (s : State) (f : Nat) (fk : Fork) : (setFork s f fk).linked = s.linked := rfl
@[simp] theorem setFork_put (s : State) (f : Nat) (fk : Fork) : (setFork s f fk).put = s.put := rfl
@[simp] theorem setFork_popped (s : State) (f : Nat) (fk : Fork) : (setFork s f fk).popped = s.popped := rfl
@[simp] theorem setFork_cnt (s : State) (f : Nat) (fk : Fork) : (setFork s f fk).cnt = s.cnt := rfl
@[simp] theorem setFork_lock (s : State) (f : Nat) (fk : Fork) : (setFork s f fk).lock = s.lock := rfl

/-- program points inside the source-lock region -/
def Pc.locked : Pc → Bool
  | .hChk | .hPull | .hPut | .hSet | .hRel | .hRelStop | .wChk | .wPull | .wLink | .wPut | .wRel => true
  | _ => false

/-- program points of the first-element path (the fork has not obtained `head` yet) -/
def Pc.fresh : Pc → Bool
  | .hLoop | .hAcq | .hChk | .hPull | .hPut | .hSet | .hRel | .hRelStop | .hNext => true
  | _ => false

/-- the fork works on box `cur` and has not counted it yet -/
def Pc.atBox : Pc → Bool
  | .wLoop | .wAcq | .wChk | .wPull | .wLink | .wPut | .wRel | .bAcq | .bInc | .bIncW => true
  | _ => false

/-- the fork has counted box `cur` and not yet advanced -/
def Pc.postInc : Pc → Bool
  | .bCmp | .bGet | .bRel | .adv => true
  | _ => false

/-- the fork is between calls or at the first test of a call -/
def Pc.between : Pc → Bool
  | .idle | .chkHead => true
  | _ => false

/-- the box is known not to be the terminal exception box -/
def Pc.notExc : Pc → Bool
  | .wAcq | .wChk | .wPull | .wLink | .wPut => true
  | _ => false

/-- the fork has settled what follows its box -/
def Pc.seen : Pc → Bool
  | .wRel | .bAcq | .bInc | .bIncW | .bCmp | .bGet | .bRel | .adv => true
  | _ => false

/-- shared counters agree (no box is half-way published) -/
def Pc.quiet : Pc → Bool
  | .hChk | .hPull | .hRel | .hRelStop | .wChk | .wPull | .wRel => true
  | _ => false

/-- the source is known to be exhausted after exactly `m` elements -/
def EndClean (c : Cfg) (s : State) (m : Nat) : Prop :=
  c.fail = false ∧ m = c.len ∧ s.pulled = c.len ∧ 0 < s.endPulls

/-- what `self.next` may be between two calls: the next reachable box, or `None` at a clean end -/
def CurOk (c : Cfg) (s : State) (fk : Fork) : Prop :=
  (∀ j, fk.cur = some j → j = fk.inc ∧ j < s.linked) ∧ (fk.cur = none → EndClean c s fk.inc)

structure FInv (c : Cfg) (s : State) (f : Nat) : Prop where
  out_range : (s.forks f).out = List.range (s.forks f).out.length
  locked_own : (s.forks f).pc.locked = true → s.lock = some f
  fresh : (s.forks f).pc.fresh = true →
    (s.forks f).st = false ∧ (s.forks f).cur = none ∧ (s.forks f).inc = 0 ∧ (s.forks f).out = []
  betw0 : (s.forks f).pc.between = true → (s.forks f).st = false →
    (s.forks f).cur = none ∧ (s.forks f).inc = 0 ∧ (s.forks f).out = []
  betw1 : (s.forks f).pc.between = true → (s.forks f).st = true →
    (s.forks f).out.length = (s.forks f).inc ∧ 0 < (s.forks f).inc ∧ CurOk c s (s.forks f)
  atBox : (s.forks f).pc.atBox = true →
    (s.forks f).cur = some (s.forks f).inc ∧ (s.forks f).out.length = (s.forks f).inc ∧ (s.forks f).inc < s.linked
  postInc : (s.forks f).pc.postInc = true →
    (s.forks f).cur = some ((s.forks f).inc - 1) ∧ 0 < (s.forks f).inc ∧
      (s.forks f).out.length + 1 = (s.forks f).inc ∧ (s.forks f).inc ≤ s.linked
  notExc : (s.forks f).pc.notExc = true → (s.forks f).inc < c.len
  seen : (s.forks f).pc.seen = true → ∀ j, (s.forks f).cur = some j →
    (j + 1 < s.linked ∨ c.len ≤ j ∨ EndClean c s (j + 1))
  quiet : (s.forks f).pc.quiet = true → s.linked = s.boxes ∧ s.put = s.boxes
  hPull : (s.forks f).pc = .hPull → s.linked = 0
  hPut : (s.forks f).pc = .hPut → s.boxes = 1 ∧ s.linked = 0 ∧ s.put = 0
  hSet : (s.forks f).pc = .hSet → s.boxes = 1 ∧ s.linked = 0 ∧ s.put = 1
  hRel : (s.forks f).pc = .hRel → 0 < s.linked
  hRelStop : (s.forks f).pc = .hRelStop → EndClean c s 0
  hNext : (s.forks f).pc = .hNext → 0 < s.linked
  wPull : (s.forks f).pc = .wPull → s.linked = (s.forks f).inc + 1
  wLink : (s.forks f).pc = .wLink →
    s.boxes = s.linked + 1 ∧ s.put = s.linked ∧ s.linked = (s.forks f).inc + 1
  wPut : (s.forks f).pc = .wPut →
    s.boxes = s.linked ∧ s.put + 1 = s.linked ∧ s.linked = (s.forks f).inc + 2
  ret : ∀ j, (s.forks f).pc = .ret j →
    (s.forks f).st = true ∧ (s.forks f).inc = j + 1 ∧ (s.forks f).out.length = j ∧ j < c.len ∧ CurOk c s (s.forks f)
  retExc : (s.forks f).pc = .retExc →
    (s.forks f).inc = c.len + 1 ∧ (s.forks f).out.length = c.len ∧ c.fail = true ∧ s.raised = true
  retStop : (s.forks f).pc = .retStop →
    EndClean c s (s.forks f).inc ∧ (s.forks f).out.length = (s.forks f).inc
  done : (s.forks f).pc = .done →
    ((s.forks f).fin = some .stop ∧ EndClean c s (s.forks f).inc ∧ (s.forks f).out.length = c.len) ∨
    ((s.forks f).fin = some .exc ∧ c.fail = true ∧ s.raised = true ∧ (s.forks f).out.length = c.len ∧
      (s.forks f).inc = c.len + 1)
  notdone : (s.forks f).pc ≠ .done → (s.forks f).fin = none
  inc_le : (s.forks f).inc ≤ s.linked
  chk_cur : (s.forks f).pc = .chkHead → (s.forks f).cur = none
  out_le : (s.forks f).out.length ≤ c.len
  inc_out : (s.forks f).inc ≤ (s.forks f).out.length + 1

structure Inv (c : Cfg) (s : State) : Prop where
  pulled_le : s.pulled ≤ c.len
  boxes_eq : s.boxes = s.pulled + (if s.raised = true then 1 else 0)
  raised_imp : s.raised = true → c.fail = true ∧ s.pulled = c.len
  ends_imp : 0 < s.endPulls → c.fail = false ∧ s.pulled = c.len
  win : s.popped ≤ s.put ∧ s.put ≤ s.popped + c.bs
  shape : s.linked ≤ s.boxes ∧ s.boxes ≤ s.linked + 1 ∧ s.put ≤ s.boxes ∧ s.boxes ≤ s.put + 1
  lock_lt : ∀ h, s.lock = some h → h < c.n ∧ (s.forks h).pc.locked = true
  quiet : s.lock = none → s.linked = s.boxes ∧ s.put = s.boxes
  forks : ∀ f, f < c.n → FInv c s f

theorem inv_init (c : Cfg) : Inv c init := by
  constructor <;> try (simp [init])
  intro f _
  constructor <;> simp [fork0, Pc.locked, Pc.fresh, Pc.atBox, Pc.postInc, Pc.between, Pc.notExc, Pc.seen, Pc.quiet]

attribute [local grind =] setFork_same
attribute [local grind =] setFork_ne





theorem quiet_locked (p : Pc) (h : p.quiet = true) : p.locked = true := by
  cases p <;> simp_all [Pc.quiet, Pc.locked]

theorem opt_cases (o : Option Nat) : o = none ∨ ∃ j, o = some j := by
  cases o <;> simp

set_option hygiene false in
macro "tee_pre" : tactic => `(tactic| (
    rename_i hp
    have hcur := opt_cases (s.forks f).cur
    simp [hp, Pc.locked, Pc.fresh, Pc.atBox, Pc.postInc, Pc.between, Pc.notExc, Pc.seen, Pc.quiet, CurOk, EndClean] at a1 a2 a3 a4 a5 a6 a7 a8 a9 a10 a11 a12 a13 a14 a15 a16 a17 a18 a19 a20 a21 a22 a23 a24 a25 a26 a27 a28))

set_option hygiene false in
macro "tee_lock" : tactic => `(tactic| (
      intro h hh
      by_cases hhf : h = f
      · subst hhf
        refine ⟨hf, ?_⟩
        simp only [setFork_same, apply_ite Pc.locked]
        first
          | (simp at hh; done)
          | (simp [Pc.locked]; done)
          | (have h7 := g7 h (by simpa using hh); simp [hp, Pc.locked] at h7; done)
          | grind [Pc.locked]
      · have h7 := g7 h (by first | (simp at hh; done) | (simp at hh; grind) | grind)
        simp [setFork_ne _ _ _ _ hhf]; exact h7))

set_option hygiene false in
macro "tee_self" : tactic => `(tactic| (
        constructor <;> simp only [setFork_same, apply_ite Pc.locked, apply_ite Pc.fresh, apply_ite Pc.atBox, apply_ite Pc.postInc, apply_ite Pc.between, apply_ite Pc.notExc, apply_ite Pc.seen, apply_ite Pc.quiet] <;> (try simp [Pc.locked, Pc.fresh, Pc.atBox, Pc.postInc, Pc.between, Pc.notExc, Pc.seen, Pc.quiet, CurOk, EndClean, isExc, List.range_succ]) <;> (try grind [EndClean, CurOk])))

set_option hygiene false in
macro "tee_other" : tactic => `(tactic| (
        have := hF g hg
        obtain ⟨b1, b2, b3, b4, b5, b6, b7, b8, b9, b10, b11, b12, b13, b14, b15, b16, b17, b18, b19, b20, b21, b22, b23, b24, b25, b26, b27, b28⟩ := this
        constructor <;> (try simp only [setFork_ne _ _ _ _ hgf]) <;> (try simp [setFork_ne _ _ _ _ hgf]) <;> first | assumption | grind [EndClean, CurOk, quiet_locked, Pc.locked]))

set_option hygiene false in
macro "tee_all" : tactic => `(tactic| (
    tee_pre
    refine ⟨?_, ?_, ?_, ?_, ?_, ?_, ?_, ?_, ?_⟩
    · first | (simp; done) | (simp; grind) | grind
    · first | (simp; done) | (simp; grind) | grind
    · first | (simp; done) | (simp; grind) | grind
    · first | (simp; done) | (simp; grind) | grind
    · first | (simp; done) | (simp; grind) | grind
    · first | (simp; done) | (simp; grind) | grind
    · tee_lock
    · first | (simp; done) | (simp; grind) | grind
    · intro g hg
      by_cases hgf : g = f
      · subst hgf; tee_self
      · tee_other))


end Tee
