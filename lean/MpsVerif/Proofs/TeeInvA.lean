import MpsVerif.Proofs.TeeInv
/-! Preservation of the layer-1 invariant, action kinds: call, hget, acqOk, acqFail. -/
namespace Tee

theorem inv_step_call (c : Cfg) (s s' : State) (f : Nat) (hi : Inv c s)
    (hs : Step c s ⟨f, .call⟩ s') : Inv c s' := by
  have hF := hi.forks
  have hf := hs.lt
  obtain ⟨g1, g2, g3, g4, g5, g6, g7, g8, -⟩ := hi
  obtain ⟨a1, a2, a3, a4, a5, a6, a7, a8, a9, a10, a11, a12, a13, a14, a15, a16, a17, a18, a19, a20, a21, a22, a23, a24, a25, a26, a27, a28⟩ := hF f hf
  cases hs
  case call => tee_all

theorem inv_step_hget (c : Cfg) (s s' : State) (f : Nat) (hi : Inv c s)
    (hs : Step c s ⟨f, .hget⟩ s') : Inv c s' := by
  have hF := hi.forks
  have hf := hs.lt
  obtain ⟨g1, g2, g3, g4, g5, g6, g7, g8, -⟩ := hi
  obtain ⟨a1, a2, a3, a4, a5, a6, a7, a8, a9, a10, a11, a12, a13, a14, a15, a16, a17, a18, a19, a20, a21, a22, a23, a24, a25, a26, a27, a28⟩ := hF f hf
  cases hs
  case hgetChk => tee_all
  case hgetLoop => tee_all
  case hgetLocked => tee_all
  case hgetNext => tee_all

theorem inv_step_acqOk (c : Cfg) (s s' : State) (f : Nat) (hi : Inv c s)
    (hs : Step c s ⟨f, .acqOk⟩ s') : Inv c s' := by
  have hF := hi.forks
  have hf := hs.lt
  obtain ⟨g1, g2, g3, g4, g5, g6, g7, g8, -⟩ := hi
  obtain ⟨a1, a2, a3, a4, a5, a6, a7, a8, a9, a10, a11, a12, a13, a14, a15, a16, a17, a18, a19, a20, a21, a22, a23, a24, a25, a26, a27, a28⟩ := hF f hf
  cases hs
  case acqOkH => tee_all
  case acqOkW => tee_all

theorem inv_step_acqFail (c : Cfg) (s s' : State) (f : Nat) (hi : Inv c s)
    (hs : Step c s ⟨f, .acqFail⟩ s') : Inv c s' := by
  have hF := hi.forks
  have hf := hs.lt
  obtain ⟨g1, g2, g3, g4, g5, g6, g7, g8, -⟩ := hi
  obtain ⟨a1, a2, a3, a4, a5, a6, a7, a8, a9, a10, a11, a12, a13, a14, a15, a16, a17, a18, a19, a20, a21, a22, a23, a24, a25, a26, a27, a28⟩ := hF f hf
  cases hs
  case acqFailH => tee_all
  case acqFailW => tee_all

end Tee
