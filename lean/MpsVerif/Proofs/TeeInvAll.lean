import MpsVerif.Proofs.TeeInvA
import MpsVerif.Proofs.TeeInvB
import MpsVerif.Proofs.TeeInvC
import MpsVerif.Proofs.TeeInvD
/-! The layer-1 invariant holds in every reachable state of the `tee` model. -/
namespace Tee

theorem inv_step (c : Cfg) (s : State) (a : Act) (s' : State) (hi : Inv c s) (hs : Step c s a s') : Inv c s' := by
  obtain ⟨f, k⟩ := a
  cases k
  case call => exact inv_step_call c s s' f hi hs
  case hget => exact inv_step_hget c s s' f hi hs
  case acqOk => exact inv_step_acqOk c s s' f hi hs
  case acqFail => exact inv_step_acqFail c s s' f hi hs
  case pull => exact inv_step_pull c s s' f hi hs
  case srcEnd => exact inv_step_srcEnd c s s' f hi hs
  case srcExc => exact inv_step_srcExc c s s' f hi hs
  case put => exact inv_step_put c s s' f hi hs
  case hset => exact inv_step_hset c s s' f hi hs
  case rel => exact inv_step_rel c s s' f hi hs
  case nget => exact inv_step_nget c s s' f hi hs
  case nset => exact inv_step_nset c s s' f hi hs
  case bacq => exact inv_step_bacq c s s' f hi hs
  case inc => exact inv_step_inc c s s' f hi hs
  case ncmp => exact inv_step_ncmp c s s' f hi hs
  case get => exact inv_step_get c s s' f hi hs
  case brel => exact inv_step_brel c s s' f hi hs
  case recv => exact inv_step_recv c s s' f hi hs
  case exc => exact inv_step_exc c s s' f hi hs
  case stop => exact inv_step_stop c s s' f hi hs

theorem inv_reachable (c : Cfg) {s : State} (hr : Reachable c s) : Inv c s :=
  reachable_inv c (inv_init c) (inv_step c) hr

end Tee
