import MpsVerif.Proofs.TeeInv
/-! Preservation of the layer-1 invariant, action kinds: pull, srcEnd, srcExc, put. -/
namespace Tee

theorem inv_step_pull (c : Cfg) (s s' : State) (f : Nat) (hi : Inv c s)
    (hs : Step c s ⟨f, .pull⟩ s') : Inv c s' := by
  have hF := hi.forks
  have hf := hs.lt
  obtain ⟨g1, g2, g3, g4, g5, g6, g7, g8, -⟩ := hi
  obtain ⟨a1, a2, a3, a4, a5, a6, a7, a8, a9, a10, a11, a12, a13, a14, a15, a16, a17, a18, a19, a20, a21, a22, a23, a24, a25, a26, a27, a28⟩ := hF f hf
  cases hs
  case pullH => tee_all
  case pullW => tee_all

theorem inv_step_srcEnd (c : Cfg) (s s' : State) (f : Nat) (hi : Inv c s)
    (hs : Step c s ⟨f, .srcEnd⟩ s') : Inv c s' := by
  have hF := hi.forks
  have hf := hs.lt
  obtain ⟨g1, g2, g3, g4, g5, g6, g7, g8, -⟩ := hi
  obtain ⟨a1, a2, a3, a4, a5, a6, a7, a8, a9, a10, a11, a12, a13, a14, a15, a16, a17, a18, a19, a20, a21, a22, a23, a24, a25, a26, a27, a28⟩ := hF f hf
  cases hs
  case srcEndH => tee_all
  case srcEndW => tee_all

theorem inv_step_srcExc (c : Cfg) (s s' : State) (f : Nat) (hi : Inv c s)
    (hs : Step c s ⟨f, .srcExc⟩ s') : Inv c s' := by
  have hF := hi.forks
  have hf := hs.lt
  obtain ⟨g1, g2, g3, g4, g5, g6, g7, g8, -⟩ := hi
  obtain ⟨a1, a2, a3, a4, a5, a6, a7, a8, a9, a10, a11, a12, a13, a14, a15, a16, a17, a18, a19, a20, a21, a22, a23, a24, a25, a26, a27, a28⟩ := hF f hf
  cases hs
  case srcExcH => tee_all
  case srcExcW => tee_all

theorem inv_step_put (c : Cfg) (s s' : State) (f : Nat) (hi : Inv c s)
    (hs : Step c s ⟨f, .put⟩ s') : Inv c s' := by
  have hF := hi.forks
  have hf := hs.lt
  obtain ⟨g1, g2, g3, g4, g5, g6, g7, g8, -⟩ := hi
  obtain ⟨a1, a2, a3, a4, a5, a6, a7, a8, a9, a10, a11, a12, a13, a14, a15, a16, a17, a18, a19, a20, a21, a22, a23, a24, a25, a26, a27, a28⟩ := hF f hf
  cases hs
  case putH => tee_all
  case putW => tee_all

end Tee
