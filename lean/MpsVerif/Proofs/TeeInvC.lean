import MpsVerif.Proofs.TeeInv
/-! Preservation of the layer-1 invariant, action kinds: hset, rel, nget, nset. -/
namespace Tee

theorem inv_step_hset (c : Cfg) (s s' : State) (f : Nat) (hi : Inv c s)
    (hs : Step c s ⟨f, .hset⟩ s') : Inv c s' := by
  have hF := hi.forks
  have hf := hs.lt
  obtain ⟨g1, g2, g3, g4, g5, g6, g7, g8, -⟩ := hi
  obtain ⟨a1, a2, a3, a4, a5, a6, a7, a8, a9, a10, a11, a12, a13, a14, a15, a16, a17, a18, a19, a20, a21, a22, a23, a24, a25, a26, a27, a28⟩ := hF f hf
  cases hs
  case hset => tee_all

theorem inv_step_rel (c : Cfg) (s s' : State) (f : Nat) (hi : Inv c s)
    (hs : Step c s ⟨f, .rel⟩ s') : Inv c s' := by
  have hF := hi.forks
  have hf := hs.lt
  obtain ⟨g1, g2, g3, g4, g5, g6, g7, g8, -⟩ := hi
  obtain ⟨a1, a2, a3, a4, a5, a6, a7, a8, a9, a10, a11, a12, a13, a14, a15, a16, a17, a18, a19, a20, a21, a22, a23, a24, a25, a26, a27, a28⟩ := hF f hf
  cases hs
  case relH => tee_all
  case relStop => tee_all
  case relW => tee_all

theorem inv_step_nget (c : Cfg) (s s' : State) (f : Nat) (hi : Inv c s)
    (hs : Step c s ⟨f, .nget⟩ s') : Inv c s' := by
  have hF := hi.forks
  have hf := hs.lt
  obtain ⟨g1, g2, g3, g4, g5, g6, g7, g8, -⟩ := hi
  obtain ⟨a1, a2, a3, a4, a5, a6, a7, a8, a9, a10, a11, a12, a13, a14, a15, a16, a17, a18, a19, a20, a21, a22, a23, a24, a25, a26, a27, a28⟩ := hF f hf
  cases hs
  case ngetLoop => tee_all
  case ngetChk => tee_all
  case ngetAdv => tee_all

theorem inv_step_nset (c : Cfg) (s s' : State) (f : Nat) (hi : Inv c s)
    (hs : Step c s ⟨f, .nset⟩ s') : Inv c s' := by
  have hF := hi.forks
  have hf := hs.lt
  obtain ⟨g1, g2, g3, g4, g5, g6, g7, g8, -⟩ := hi
  obtain ⟨a1, a2, a3, a4, a5, a6, a7, a8, a9, a10, a11, a12, a13, a14, a15, a16, a17, a18, a19, a20, a21, a22, a23, a24, a25, a26, a27, a28⟩ := hF f hf
  cases hs
  case nset => tee_all

end Tee
