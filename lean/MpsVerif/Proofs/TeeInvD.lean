import MpsVerif.Proofs.TeeInv
/-! Preservation of the layer-1 invariant, action kinds: bacq, inc, ncmp, get, brel, recv, exc, stop. -/
namespace Tee

theorem inv_step_bacq (c : Cfg) (s s' : State) (f : Nat) (hi : Inv c s)
    (hs : Step c s ⟨f, .bacq⟩ s') : Inv c s' := by
  have hF := hi.forks
  have hf := hs.lt
  obtain ⟨g1, g2, g3, g4, g5, g6, g7, g8, -⟩ := hi
  obtain ⟨a1, a2, a3, a4, a5, a6, a7, a8, a9, a10, a11, a12, a13, a14, a15, a16, a17, a18, a19, a20, a21, a22, a23, a24, a25, a26, a27, a28⟩ := hF f hf
  cases hs
  case bacq => tee_all

theorem inv_step_inc (c : Cfg) (s s' : State) (f : Nat) (hi : Inv c s)
    (hs : Step c s ⟨f, .inc⟩ s') : Inv c s' := by
  have hF := hi.forks
  have hf := hs.lt
  obtain ⟨g1, g2, g3, g4, g5, g6, g7, g8, -⟩ := hi
  obtain ⟨a1, a2, a3, a4, a5, a6, a7, a8, a9, a10, a11, a12, a13, a14, a15, a16, a17, a18, a19, a20, a21, a22, a23, a24, a25, a26, a27, a28⟩ := hF f hf
  cases hs
  case inc => tee_all

theorem inv_step_ncmp (c : Cfg) (s s' : State) (f : Nat) (hi : Inv c s)
    (hs : Step c s ⟨f, .ncmp⟩ s') : Inv c s' := by
  have hF := hi.forks
  have hf := hs.lt
  obtain ⟨g1, g2, g3, g4, g5, g6, g7, g8, -⟩ := hi
  obtain ⟨a1, a2, a3, a4, a5, a6, a7, a8, a9, a10, a11, a12, a13, a14, a15, a16, a17, a18, a19, a20, a21, a22, a23, a24, a25, a26, a27, a28⟩ := hF f hf
  cases hs
  case incRead => tee_all
  case cmp => tee_all

theorem inv_step_get (c : Cfg) (s s' : State) (f : Nat) (hi : Inv c s)
    (hs : Step c s ⟨f, .get⟩ s') : Inv c s' := by
  have hF := hi.forks
  have hf := hs.lt
  obtain ⟨g1, g2, g3, g4, g5, g6, g7, g8, -⟩ := hi
  obtain ⟨a1, a2, a3, a4, a5, a6, a7, a8, a9, a10, a11, a12, a13, a14, a15, a16, a17, a18, a19, a20, a21, a22, a23, a24, a25, a26, a27, a28⟩ := hF f hf
  cases hs
  case get => tee_all

theorem inv_step_brel (c : Cfg) (s s' : State) (f : Nat) (hi : Inv c s)
    (hs : Step c s ⟨f, .brel⟩ s') : Inv c s' := by
  have hF := hi.forks
  have hf := hs.lt
  obtain ⟨g1, g2, g3, g4, g5, g6, g7, g8, -⟩ := hi
  obtain ⟨a1, a2, a3, a4, a5, a6, a7, a8, a9, a10, a11, a12, a13, a14, a15, a16, a17, a18, a19, a20, a21, a22, a23, a24, a25, a26, a27, a28⟩ := hF f hf
  cases hs
  case brel => tee_all

theorem inv_step_recv (c : Cfg) (s s' : State) (f : Nat) (hi : Inv c s)
    (hs : Step c s ⟨f, .recv⟩ s') : Inv c s' := by
  have hF := hi.forks
  have hf := hs.lt
  obtain ⟨g1, g2, g3, g4, g5, g6, g7, g8, -⟩ := hi
  obtain ⟨a1, a2, a3, a4, a5, a6, a7, a8, a9, a10, a11, a12, a13, a14, a15, a16, a17, a18, a19, a20, a21, a22, a23, a24, a25, a26, a27, a28⟩ := hF f hf
  cases hs
  case recv => tee_all

theorem inv_step_exc (c : Cfg) (s s' : State) (f : Nat) (hi : Inv c s)
    (hs : Step c s ⟨f, .exc⟩ s') : Inv c s' := by
  have hF := hi.forks
  have hf := hs.lt
  obtain ⟨g1, g2, g3, g4, g5, g6, g7, g8, -⟩ := hi
  obtain ⟨a1, a2, a3, a4, a5, a6, a7, a8, a9, a10, a11, a12, a13, a14, a15, a16, a17, a18, a19, a20, a21, a22, a23, a24, a25, a26, a27, a28⟩ := hF f hf
  cases hs
  case exc => tee_all

theorem inv_step_stop (c : Cfg) (s s' : State) (f : Nat) (hi : Inv c s)
    (hs : Step c s ⟨f, .stop⟩ s') : Inv c s' := by
  have hF := hi.forks
  have hf := hs.lt
  obtain ⟨g1, g2, g3, g4, g5, g6, g7, g8, -⟩ := hi
  obtain ⟨a1, a2, a3, a4, a5, a6, a7, a8, a9, a10, a11, a12, a13, a14, a15, a16, a17, a18, a19, a20, a21, a22, a23, a24, a25, a26, a27, a28⟩ := hF f hf
  cases hs
  case stop => tee_all

end Tee
