import MpsVerif.Proofs.TeeCount
/-! Liveness of the `tee` model: a measure that never increases and strictly decreases on every
    step that is not a timed-lock-retry spin step; enabledness (progress). -/
namespace Tee

/-- the loop condition of the fork's current wait loop is already false (it will leave the loop) -/
def condMet (c : Cfg) (linked : Nat) (fk : Fork) : Bool :=
  match fk.cur with
  | some j => decide (j + 1 < linked) || isExc c j
  | none => true

/-- position of a fork inside the processing of one box (decreases along `__next__`) -/
def rank (c : Cfg) (linked : Nat) (fk : Fork) : Nat :=
  match fk.pc with
  | .bCmp => 40 | .bGet => 39 | .bRel => 38 | .adv => 37 | .ret _ => 36 | .retExc => 36 | .idle => 35 | .chkHead => 34
  | .hLoop => if linked = 0 then 33 else 26
  | .hAcq => if linked = 0 then 33 else 32
  | .hChk => 31 | .hPull => 30 | .hPut => 29 | .hSet => 28 | .hRel => 27 | .hRelStop => 27
  | .hNext => 25
  | .wLoop => if condMet c linked fk then 17 else 24
  | .wAcq => if condMet c linked fk then 23 else 24
  | .wChk => 22 | .wPull => 21 | .wLink => 20 | .wPut => 19 | .wRel => 18
  | .bAcq => 16 | .bInc => 15 | .bIncW => 14
  | .retStop => 1 | .done => 0

def fmeasure (c : Cfg) (linked : Nat) (fk : Fork) : Nat := 40 * (c.len + 2 - fk.inc) + rank c linked fk

def sumF : Nat → (Nat → Nat) → Nat
  | 0, _ => 0
  | n + 1, a => sumF n a + a n

/-- the measure: boxes still to be counted by each fork (x40) plus its position in the step -/
def mu (c : Cfg) (s : State) : Nat := sumF c.n (fun g => fmeasure c s.linked (s.forks g))

theorem sumF_le (n : Nat) (a b : Nat → Nat) (h : ∀ g, g < n → a g ≤ b g) : sumF n a ≤ sumF n b := by
  induction n with
  | zero => simp [sumF]
  | succ n ih =>
    simp only [sumF]
    have := ih (fun g hg => h g (by omega)); have := h n (by omega); omega

theorem sumF_lt (n : Nat) (a b : Nat → Nat) (d : Nat) (f : Nat) (hf : f < n) (h : ∀ g, g < n → a g ≤ b g)
    (hd : a f + d ≤ b f) : sumF n a + d ≤ sumF n b := by
  induction n with
  | zero => omega
  | succ n ih =>
    simp only [sumF]
    by_cases hfn : f = n
    · subst hfn
      have := sumF_le f a b (fun g hg => h g (by omega)); omega
    · have := ih (by omega) (fun g hg => h g (by omega)); have := h n (by omega); omega

theorem condMet_mono (c : Cfg) (l l' : Nat) (fk : Fork) (h : l ≤ l') (hm : condMet c l fk = true) :
    condMet c l' fk = true := by
  unfold condMet at *
  cases hc : fk.cur with
  | none => rfl
  | some j =>
    simp [hc] at hm ⊢
    rcases hm with h1 | h1
    · left; omega
    · right; exact h1

theorem rank_mono (c : Cfg) (l l' : Nat) (fk : Fork) (h : l ≤ l') : rank c l' fk ≤ rank c l fk := by
  unfold rank
  cases hpc : fk.pc <;> simp
  case hLoop => split <;> split <;> omega
  case hAcq => split <;> split <;> omega
  case wLoop =>
    by_cases hm : condMet c l fk = true
    · simp [hm, condMet_mono c l l' fk h hm]
    · simp [hm]; split <;> omega
  case wAcq =>
    by_cases hm : condMet c l fk = true
    · simp [hm, condMet_mono c l l' fk h hm]
    · simp [hm]; split <;> omega

/-- the acting fork's measure drops by `d`, the chain only grows, the other forks are untouched -/
theorem mu_of_fork (c : Cfg) (s s' : State) (f d : Nat) (hf : f < c.n)
    (hother : ∀ g, g ≠ f → s'.forks g = s.forks g) (hl : s.linked ≤ s'.linked)
    (hd : fmeasure c s'.linked (s'.forks f) + d ≤ fmeasure c s.linked (s.forks f)) :
    mu c s' + d ≤ mu c s := by
  unfold mu
  refine sumF_lt c.n _ _ d f hf ?_ hd
  intro g _
  by_cases hgf : g = f
  · subst hgf; omega
  · rw [hother g hgf]; unfold fmeasure; have := rank_mono c s.linked s'.linked (s.forks g) hl; omega

theorem mu_step (c : Cfg) (s : State) (a : Act) (s' : State) (hi : Inv c s) (hs : Step c s a s') :
    mu c s' + (if isSpin c s a = true then 0 else 1) ≤ mu c s := by
  obtain ⟨f, k⟩ := a
  have hf := hs.lt
  have fi := hi.forks f hf
  have a6 := fi.atBox
  have a7 := fi.postInc
  have a12 := fi.hSet
  have a13 := fi.hRel
  have a17 := fi.wLink
  have a25 := fi.inc_le
  have g6 := hi.shape
  have g1 := hi.pulled_le
  have g2 := hi.boxes_eq
  cases hs
  all_goals
    rename_i hp
    simp [hp, Pc.atBox, Pc.postInc] at a6 a7 a12 a13 a17
    refine mu_of_fork c _ _ f _ hf ?_ ?_ ?_
    · intro g hgf; simp [setFork_ne _ _ _ _ hgf]
    · first | (simp; done) | (simp; omega) | grind
    · simp only [setFork_same, fmeasure, rank, isSpin, hp, condMet]
      first | (simp; done) | (simp; omega) | (simp; grind) | grind

/-- a fork about to pull holds the lock and the source has not failed before -/
theorem pull_ok (c : Cfg) (s : State) (hi : Inv c s) (f : Nat) (hf : f < c.n)
    (hp : (s.forks f).pc = .hPull ∨ (s.forks f).pc = .wPull) : s.lock = some f ∧ s.raised = false := by
  have fi := hi.forks f hf
  have hb := hi.boxes_eq
  have hr := hi.raised_imp
  rcases hp with hp | hp
  · refine ⟨fi.locked_own (by simp [hp, Pc.locked]), ?_⟩
    have := fi.quiet (by simp [hp, Pc.quiet]); have := fi.hPull hp
    cases hra : s.raised
    · rfl
    · simp [hra] at hb; omega
  · refine ⟨fi.locked_own (by simp [hp, Pc.locked]), ?_⟩
    have := fi.quiet (by simp [hp, Pc.quiet]); have := fi.wPull hp
    have := fi.notExc (by simp [hp, Pc.notExc])
    cases hra : s.raised
    · rfl
    · simp [hra] at hb; have := (hr hra).2; omega

/-- what a progress step is: within at most two steps the measure strictly decreases -/
def Advances (c : Cfg) (s : State) : Prop :=
  ∃ as s', as ≠ [] ∧ as.length ≤ 2 ∧ Core.run (step c) s as = some s' ∧ mu c s' < mu c s

theorem one_step (c : Cfg) (s : State) (a : Act) (s' : State) (hi : Inv c s) (h : step c s a = some s')
    (hns : isSpin c s a = false) : Advances c s := by
  refine ⟨[a], s', by simp, by simp, by simp [Core.run, h], ?_⟩
  have := mu_step c s a s' hi (step_sound c s s' a h)
  simp [hns] at this; omega

theorem two_step (c : Cfg) (s : State) (a b : Act) (s' s'' : State) (hi : Inv c s) (h : step c s a = some s')
    (h' : step c s' b = some s'') (hns : isSpin c s' b = false) : Advances c s := by
  refine ⟨[a, b], s'', by simp, by simp, by simp [Core.run, h, h'], ?_⟩
  have hst := step_sound c s s' a h
  have h1 := mu_step c s a s' hi hst
  have h2 := mu_step c s' b s'' (inv_step c s a s' hi hst) (step_sound c s' s'' b h')
  simp [hns] at h2
  have : mu c s' ≤ mu c s := by split at h1 <;> omega
  omega

/-- the fork's wait-loop condition (if it is in one) is already met -/
def MetOf (c : Cfg) (s : State) (fk : Fork) : Prop :=
  ((fk.pc = .hLoop ∨ fk.pc = .hAcq) → s.linked ≠ 0) ∧
  ((fk.pc = .wLoop ∨ fk.pc = .wAcq) → condMet c s.linked fk = true)

set_option hygiene false in
macro "tee_en" k:term : tactic => `(tactic| (
   have hex : ∃ s', step c s ⟨f, $k⟩ = some s' := by simp [step, stepF, hf, hpc, *]
   obtain ⟨s', hs'⟩ := hex
   exact one_step c s _ s' hi hs' (by simp [isSpin, hpc, *])))

/-- a fork that is not at a blocking point can advance -/
theorem fork_advances (c : Cfg) (s : State) (hi : Inv c s) (h2 : Inv2 c s) (hbs : 1 ≤ c.bs) (f : Nat) (hf : f < c.n)
    (hnd : (s.forks f).pc ≠ .done)
    (hsp : s.lock = none ∨ MetOf c s (s.forks f))
    (hput : (s.forks f).pc = .wPut → s.put < s.popped + c.bs)
    (hbox : (s.forks f).pc = .bAcq → ∀ j, (s.forks f).cur = some j → boxFree c s f j = true) :
    Advances c s := by
  have fi := hi.forks f hf
  cases hpc : (s.forks f).pc
  case done => exact absurd hpc hnd
  case idle => tee_en .call
  case chkHead => tee_en .hget
  case hLoop =>
    by_cases hl0 : s.linked = 0
    · rcases hsp with hlk | hm
      · -- re-check (spin), then the acquire succeeds because the lock is free
        have hex : ∃ s', step c s ⟨f, .hget⟩ = some s' := by simp [step, stepF, hf, hpc]
        obtain ⟨s', hs'⟩ := hex
        have hex2 : ∃ s'', step c s' ⟨f, .acqOk⟩ = some s'' := by
          simp [step, stepF, hf, hpc, hl0] at hs'; subst hs'; simp [step, stepF, hf, hlk]
        obtain ⟨s'', hs''⟩ := hex2
        exact two_step c s _ _ s' s'' hi hs' hs'' (by simp [isSpin])
      · exact absurd hl0 (hm.1 (Or.inl hpc))
    · tee_en .hget
  case hAcq =>
    cases hlk : s.lock with
    | none => tee_en .acqOk
    | some h =>
      have hl0 : s.linked ≠ 0 := by
        rcases hsp with h' | hm
        · simp [hlk] at h'
        · exact hm.1 (Or.inr hpc)
      tee_en .acqFail
  case hChk => tee_en .hget
  case hPull =>
    have ⟨_, hnr⟩ := pull_ok c s hi f hf (Or.inl hpc)
    have := hi.pulled_le
    by_cases hlt : s.pulled < c.len
    · tee_en .pull
    · have he : s.pulled = c.len := by omega
      cases hfl : c.fail
      · tee_en .srcEnd
      · tee_en .srcExc
  case hPut =>
    have hw : s.put < s.popped + c.bs := by have := fi.hPut hpc; omega
    tee_en .put
  case hSet => tee_en .hset
  case hRel =>
    have hlk := fi.locked_own (by simp [hpc, Pc.locked])
    tee_en .rel
  case hRelStop =>
    have hlk := fi.locked_own (by simp [hpc, Pc.locked])
    tee_en .rel
  case hNext =>
    have hl := fi.hNext hpc
    tee_en .hget
  case wLoop =>
    have hc := (fi.atBox (by simp [hpc, Pc.atBox])).1
    by_cases hm : condMet c s.linked (s.forks f) = true
    · have hm' := hm
      simp [condMet, hc] at hm'
      have hex : ∃ s', step c s ⟨f, .nget⟩ = some s' := by simp [step, stepF, hf, hpc, hc]
      obtain ⟨s', hs'⟩ := hex
      refine one_step c s _ s' hi hs' ?_
      simp only [isSpin, hpc, hc]
      rcases hm' with h | h <;> simp [h]
    · rcases hsp with hlk | hmm
      · have hm' := hm
        simp [condMet, hc] at hm'
        have hex : ∃ s', step c s ⟨f, .nget⟩ = some s' := by simp [step, stepF, hf, hpc, hc]
        obtain ⟨s', hs'⟩ := hex
        have hex2 : ∃ s'', step c s' ⟨f, .acqOk⟩ = some s'' := by
          have h1 : ¬ ((s.forks f).inc + 1 < s.linked) := by omega
          simp [step, stepF, hf, hpc, hc, h1, hm'.2] at hs'; subst hs'; simp [step, stepF, hf, hlk]
        obtain ⟨s'', hs''⟩ := hex2
        exact two_step c s _ _ s' s'' hi hs' hs'' (by simp [isSpin])
      · exact absurd (hmm.2 (Or.inl hpc)) hm
  case wAcq =>
    have hc := (fi.atBox (by simp [hpc, Pc.atBox])).1
    cases hlk : s.lock with
    | none => tee_en .acqOk
    | some h =>
      have hm : condMet c s.linked (s.forks f) = true := by
        rcases hsp with h' | hm
        · simp [hlk] at h'
        · exact hm.2 (Or.inr hpc)
      simp [condMet, hc] at hm
      have hex : ∃ s', step c s ⟨f, .acqFail⟩ = some s' := by simp [step, stepF, hf, hpc, hlk]
      obtain ⟨s', hs'⟩ := hex
      refine one_step c s _ s' hi hs' ?_
      simp only [isSpin, hpc, hc]
      rcases hm with h | h <;> simp [h]
  case wChk =>
    have hc := (fi.atBox (by simp [hpc, Pc.atBox])).1
    tee_en .nget
  case wPull =>
    have ⟨_, hnr⟩ := pull_ok c s hi f hf (Or.inr hpc)
    have := hi.pulled_le
    by_cases hlt : s.pulled < c.len
    · tee_en .pull
    · have he : s.pulled = c.len := by omega
      cases hfl : c.fail
      · tee_en .srcEnd
      · tee_en .srcExc
  case wLink =>
    have hc := (fi.atBox (by simp [hpc, Pc.atBox])).1
    tee_en .nset
  case wPut =>
    have hw := hput hpc
    tee_en .put
  case wRel =>
    have hlk := fi.locked_own (by simp [hpc, Pc.locked])
    tee_en .rel
  case bAcq =>
    have hc := (fi.atBox (by simp [hpc, Pc.atBox])).1
    have hb := hbox hpc _ hc
    tee_en .bacq
  case bInc =>
    have hc := (fi.atBox (by simp [hpc, Pc.atBox])).1
    tee_en .ncmp
  case bIncW =>
    have hc := (fi.atBox (by simp [hpc, Pc.atBox])).1
    tee_en .inc
  case bCmp =>
    have hc := (fi.postInc (by simp [hpc, Pc.postInc])).1
    tee_en .ncmp
  case bGet =>
    have hw := (get_own c s hi h2 f hf hpc).2.2
    tee_en .get
  case bRel => tee_en .brel
  case adv =>
    have hc := (fi.postInc (by simp [hpc, Pc.postInc])).1
    tee_en .nget
  case ret j => tee_en .recv
  case retExc => tee_en .exc
  case retStop => tee_en .stop

theorem holder_of_not_free (c : Cfg) (s : State) (f j : Nat) (h : ¬ boxFree c s f j = true) :
    ∃ g, g < c.n ∧ g ≠ f ∧ holdsBox (s.forks g) j = true := by
  simp only [boxFree, List.all_eq_true, List.mem_range] at h
  apply Classical.byContradiction
  intro hne
  apply h
  intro g hg
  by_cases hgf : g = f
  · simp [hgf]
  · cases hh : holdsBox (s.forks g) j
    · simp
    · exact absurd ⟨g, hg, hgf, hh⟩ hne

/-- like `fork_advances`, but a fork waiting for a box lock is unblocked by the holder of that lock -/
theorem unblocked_advances (c : Cfg) (s : State) (hi : Inv c s) (h2 : Inv2 c s) (hbs : 1 ≤ c.bs) (f : Nat)
    (hf : f < c.n) (hnd : (s.forks f).pc ≠ .done) (hsp : s.lock = none ∨ MetOf c s (s.forks f))
    (hput : (s.forks f).pc = .wPut → s.put < s.popped + c.bs) : Advances c s := by
  by_cases hb : (s.forks f).pc = .bAcq ∧ ∃ j, (s.forks f).cur = some j ∧ ¬ boxFree c s f j = true
  · obtain ⟨_, j, _, hnf⟩ := hb
    obtain ⟨g, hg, _, hh⟩ := holder_of_not_free c s f j hnf
    simp only [holdsBox, Bool.and_eq_true, Bool.or_eq_true, beq_iff_eq] at hh
    have hpg := hh.2
    refine fork_advances c s hi h2 hbs g hg ?_ (Or.inr ⟨?_, ?_⟩) ?_ ?_
    · rcases hpg with (((h | h) | h) | h) | h <;> simp [h]
    · rcases hpg with (((h | h) | h) | h) | h <;> simp [h]
    · rcases hpg with (((h | h) | h) | h) | h <;> simp [h]
    · rcases hpg with (((h | h) | h) | h) | h <;> simp [h]
    · rcases hpg with (((h | h) | h) | h) | h <;> simp [h]
  · refine fork_advances c s hi h2 hbs f hf hnd hsp hput ?_
    intro hp j hc
    apply Classical.byContradiction
    intro hnf
    exact hb ⟨hp, j, hc, hnf⟩

/-- Progress: in every non-final state satisfying the invariants, within at most two steps the
    measure strictly decreases (one productive step, or a re-check of the loop condition followed
    by a successful lock acquisition). -/
theorem progress (c : Cfg) (s : State) (hi : Inv c s) (h2 : Inv2 c s) (hbs : 2 ≤ c.bs) (hnf : ¬ Final c s) :
    Advances c s := by
  have hbs1 : 1 ≤ c.bs := by omega
  cases hlk : s.lock with
  | none =>
    have hex : ∃ f, f < c.n ∧ (s.forks f).pc ≠ .done := by
      apply Classical.byContradiction
      intro hne
      apply hnf
      intro f hf
      apply Classical.byContradiction
      intro hd
      exact hne ⟨f, hf, hd⟩
    obtain ⟨f, hf, hnd⟩ := hex
    refine unblocked_advances c s hi h2 hbs1 f hf hnd (Or.inl hlk) ?_
    intro hp
    have := (hi.forks f hf).locked_own (by simp [hp, Pc.locked])
    simp [hlk] at this
  | some h =>
    obtain ⟨hh, hlocked⟩ := hi.lock_lt h hlk
    have fh := hi.forks h hh
    by_cases hfull : (s.forks h).pc = .wPut ∧ ¬ (s.put < s.popped + c.bs)
    · obtain ⟨hpw, hnw⟩ := hfull
      have wp := fh.wPut hpw
      have win := hi.win
      have shape := hi.shape
      by_cases hlag : ∃ g, g < c.n ∧ (s.forks g).inc ≤ s.popped
      · obtain ⟨g, hg, hgl⟩ := hlag
        have fg := hi.forks g hg
        have hgh : g ≠ h := by intro e; subst e; omega
        have hnl : (s.forks g).pc.locked = false := by
          cases hl : (s.forks g).pc.locked
          · rfl
          · have := fg.locked_own hl; rw [hlk] at this; exact absurd (Option.some.inj this).symm hgh
        refine unblocked_advances c s hi h2 hbs1 g hg ?_ (Or.inr ⟨?_, ?_⟩) ?_
        · intro hd
          have hb := hi.boxes_eq
          have hpl := hi.pulled_le
          rcases fg.done hd with ⟨_, hec, _⟩ | ⟨_, _, _, _, hinc⟩
          · obtain ⟨e1, e2, e3, _⟩ := hec
            cases hra : s.raised
            · simp [hra] at hb; omega
            · have := (hi.raised_imp hra).1; simp [e1] at this
          · split at hb <;> omega
        · intro _; omega
        · intro hp
          have hc := (fg.atBox (by rcases hp with h | h <;> simp [h, Pc.atBox])).1
          simp only [condMet, hc, Bool.or_eq_true, decide_eq_true_eq]
          left; omega
        · intro hp; simp [hp, Pc.locked] at hnl
      · have hall : ∀ g, g < c.n → s.popped < (s.forks g).inc := by
          intro g hg
          apply Classical.byContradiction
          intro hn
          exact hlag ⟨g, hg, by omega⟩
        rcases h2.full_pop s.popped hall with hlt | ⟨g, hg, hpg, _⟩
        · omega
        · rcases hpg with hpg | hpg <;>
          exact fork_advances c s hi h2 hbs1 g hg (by simp [hpg]) (Or.inr ⟨by simp [hpg], by simp [hpg]⟩)
            (by simp [hpg]) (by simp [hpg])
    · refine unblocked_advances c s hi h2 hbs1 h hh ?_ (Or.inr ⟨?_, ?_⟩) ?_
      · intro hd; simp [hd, Pc.locked] at hlocked
      · intro hp; rcases hp with hp | hp <;> simp [hp, Pc.locked] at hlocked
      · intro hp; rcases hp with hp | hp <;> simp [hp, Pc.locked] at hlocked
      · intro hp
        apply Classical.byContradiction
        intro hn
        exact hfull ⟨hp, hn⟩

/-- number of steps of a run that are not timed-lock-retry spin steps -/
def work (c : Cfg) : State → List Act → Nat
  | _, [] => 0
  | s, a :: as =>
    match step c s a with
    | some s' => (if isSpin c s a = true then 0 else 1) + work c s' as
    | none => 0

theorem work_le (c : Cfg) : ∀ (as : List Act) (s s' : State), Inv c s → Core.run (step c) s as = some s' →
    work c s as + mu c s' ≤ mu c s := by
  intro as
  induction as with
  | nil => intro s s' _ hr; simp at hr; subst hr; simp [work]
  | cons a as ih =>
    intro s s' hi hr
    rw [Core.run_cons] at hr
    cases hst : step c s a with
    | none => simp [hst] at hr
    | some s1 =>
      simp [hst] at hr
      have hs := step_sound c s s1 a hst
      have := ih s1 s' (inv_step c s a s1 hi hs) hr
      have := mu_step c s a s1 hi hs
      simp only [work, hst]
      split at this <;> simp_all <;> omega

theorem sumF_const (n k : Nat) : sumF n (fun _ => k) = n * k := by
  induction n with
  | zero => simp [sumF]
  | succ n ih => simp [sumF, ih, Nat.succ_mul]

theorem mu_init (c : Cfg) : mu c init = c.n * (40 * (c.len + 2) + 35) := by
  simp [mu, init, fmeasure, rank, fork0, sumF_const]

theorem inv12_run (c : Cfg) (as : List Act) (s s' : State) (h : Inv c s ∧ Inv2 c s)
    (hr : Core.run (step c) s as = some s') : Inv c s' ∧ Inv2 c s' :=
  Core.invariant_run (Inv := fun s => Inv c s ∧ Inv2 c s)
    (fun s a s' h hs => ⟨inv_step c s a s' h.1 (step_sound c s s' a hs),
      inv2_step c s a s' h.1 h.2 (step_sound c s s' a hs)⟩) as s s' h hr

/-- from every state satisfying the invariants a final state can be reached -/
theorem can_finish (c : Cfg) (hbs : 2 ≤ c.bs) : ∀ (m : Nat) (s : State), Inv c s → Inv2 c s → mu c s ≤ m →
    ∃ as s', Core.run (step c) s as = some s' ∧ Final c s' := by
  intro m
  induction m with
  | zero =>
    intro s hi h2 hm
    by_cases hf : Final c s
    · exact ⟨[], s, rfl, hf⟩
    · obtain ⟨_, _, _, _, _, hlt⟩ := progress c s hi h2 hbs hf; omega
  | succ m ih =>
    intro s hi h2 hm
    by_cases hf : Final c s
    · exact ⟨[], s, rfl, hf⟩
    · obtain ⟨as1, s1, _, _, hr1, hlt⟩ := progress c s hi h2 hbs hf
      have h12 := inv12_run c as1 s s1 ⟨hi, h2⟩ hr1
      obtain ⟨as2, s2, hr2, hfin⟩ := ih s1 h12.1 h12.2 (by omega)
      refine ⟨as1 ++ as2, s2, ?_, hfin⟩
      rw [Core.run_append, hr1]; simpa using hr2

end Tee
