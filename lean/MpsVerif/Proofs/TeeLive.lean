import MpsVerif.Proofs.TeeCount
/-! Liveness of the `tee` model: a measure that never increases and strictly decreases on every
    step that is not a timed-lock-retry spin step; enabledness (progress). -/
namespace Tee

/-- the loop condition of the fork's current wait loop is already false (it will leave the loop) -/
def condMet (c : Cfg) (linked : Nat) (fk : Fork) : Bool :=
  match fk.cur with
  | some j => decide (j + 1 < linked) || isExc c j
  | none => true

/-- position of a fork inside the processing of one box (decreases along `__next__`) -/
def rank (c : Cfg) (linked : Nat) (fk : Fork) : Nat :=
  match fk.pc with
  | .bGet => 39 | .bRel => 38 | .adv => 37 | .ret _ => 36 | .retExc => 36 | .idle => 35 | .chkHead => 34
  | .hLoop => if linked = 0 then 33 else 26
  | .hAcq => if linked = 0 then 33 else 32
  | .hChk => 31 | .hPull => 30 | .hPut => 29 | .hSet => 28 | .hRel => 27 | .hRelStop => 27
  | .hNext => 25
  | .wLoop => if condMet c linked fk then 17 else 24
  | .wAcq => if condMet c linked fk then 23 else 24
  | .wChk => 22 | .wPull => 21 | .wLink => 20 | .wPut => 19 | .wRel => 18
  | .bAcq => 16 | .bInc => 15
  | .retStop => 1 | .done => 0

def fmeasure (c : Cfg) (linked : Nat) (fk : Fork) : Nat := 40 * (c.len + 2 - fk.inc) + rank c linked fk

def sumF : Nat → (Nat → Nat) → Nat
  | 0, _ => 0
  | n + 1, a => sumF n a + a n

/-- the measure: boxes still to be counted by each fork (x40) plus its position in the step -/
def mu (c : Cfg) (s : State) : Nat := sumF c.n (fun g => fmeasure c s.linked (s.forks g))

theorem sumF_le (n : Nat) (a b : Nat → Nat) (h : ∀ g, g < n → a g ≤ b g) : sumF n a ≤ sumF n b := by
  induction n with
  | zero => simp [sumF]
  | succ n ih =>
    simp only [sumF]
    have := ih (fun g hg => h g (by omega)); have := h n (by omega); omega

theorem sumF_lt (n : Nat) (a b : Nat → Nat) (d : Nat) (f : Nat) (hf : f < n) (h : ∀ g, g < n → a g ≤ b g)
    (hd : a f + d ≤ b f) : sumF n a + d ≤ sumF n b := by
  induction n with
  | zero => omega
  | succ n ih =>
    simp only [sumF]
    by_cases hfn : f = n
    · subst hfn
      have := sumF_le f a b (fun g hg => h g (by omega)); omega
    · have := ih (by omega) (fun g hg => h g (by omega)); have := h n (by omega); omega

theorem condMet_mono (c : Cfg) (l l' : Nat) (fk : Fork) (h : l ≤ l') (hm : condMet c l fk = true) :
    condMet c l' fk = true := by
  unfold condMet at *
  cases hc : fk.cur with
  | none => rfl
  | some j =>
    simp [hc] at hm ⊢
    rcases hm with h1 | h1
    · left; omega
    · right; exact h1

theorem rank_mono (c : Cfg) (l l' : Nat) (fk : Fork) (h : l ≤ l') : rank c l' fk ≤ rank c l fk := by
  unfold rank
  cases hpc : fk.pc <;> simp
  case hLoop => split <;> split <;> omega
  case hAcq => split <;> split <;> omega
  case wLoop =>
    by_cases hm : condMet c l fk = true
    · simp [hm, condMet_mono c l l' fk h hm]
    · simp [hm]; split <;> omega
  case wAcq =>
    by_cases hm : condMet c l fk = true
    · simp [hm, condMet_mono c l l' fk h hm]
    · simp [hm]; split <;> omega

/-- the acting fork's measure drops by `d`, the chain only grows, the other forks are untouched -/
theorem mu_of_fork (c : Cfg) (s s' : State) (f d : Nat) (hf : f < c.n)
    (hother : ∀ g, g ≠ f → s'.forks g = s.forks g) (hl : s.linked ≤ s'.linked)
    (hd : fmeasure c s'.linked (s'.forks f) + d ≤ fmeasure c s.linked (s.forks f)) :
    mu c s' + d ≤ mu c s := by
  unfold mu
  refine sumF_lt c.n _ _ d f hf ?_ hd
  intro g _
  by_cases hgf : g = f
  · subst hgf; omega
  · rw [hother g hgf]; unfold fmeasure; have := rank_mono c s.linked s'.linked (s.forks g) hl; omega

theorem mu_step (c : Cfg) (s : State) (a : Act) (s' : State) (hi : Inv c s) (hs : Step c s a s') :
    mu c s' + (if isSpin c s a = true then 0 else 1) ≤ mu c s := by
  obtain ⟨f, k⟩ := a
  have hf := hs.lt
  have fi := hi.forks f hf
  have a6 := fi.atBox
  have a7 := fi.postInc
  have a12 := fi.hSet
  have a13 := fi.hRel
  have a17 := fi.wLink
  have a25 := fi.inc_le
  have g6 := hi.shape
  have g1 := hi.pulled_le
  have g2 := hi.boxes_eq
  cases hs
  all_goals
    rename_i hp
    simp [hp, Pc.atBox, Pc.postInc] at a6 a7 a12 a13 a17
    refine mu_of_fork c _ _ f _ hf ?_ ?_ ?_
    · intro g hgf; simp [setFork_ne _ _ _ _ hgf]
    · first | (simp; done) | (simp; omega) | grind
    · simp only [setFork_same, fmeasure, rank, isSpin, hp, condMet]
      first | (simp; done) | (simp; omega) | (simp; grind) | grind

end Tee
