import MpsVerif.Model.Tee
import MpsVerif.Core.Sys
/-! Relational presentation of `Tee.step` (one constructor per enabled case) and its soundness.
    Invariant proofs do `cases` on `Step`; the property theorems are stated over `step`/`run`. -/
namespace Tee

inductive Step (c : Cfg) : State → Act → State → Prop where
  | call {s f} : f < c.n → (s.forks f).pc = .idle →
      Step c s ⟨f, .call⟩ (setFork s f { s.forks f with pc := if (s.forks f).cur = none then .chkHead else .wLoop })
  | hgetChk {s f} : f < c.n → (s.forks f).pc = .chkHead →
      Step c s ⟨f, .hget⟩ (setFork s f { s.forks f with
        pc := if s.linked = 0 then .hLoop else if (s.forks f).st = false then .hNext else .retStop })
  | hgetLoop {s f} : f < c.n → (s.forks f).pc = .hLoop →
      Step c s ⟨f, .hget⟩ (setFork s f { s.forks f with pc := if s.linked = 0 then .hAcq else .hNext })
  | hgetLocked {s f} : f < c.n → (s.forks f).pc = .hChk →
      Step c s ⟨f, .hget⟩ (setFork s f { s.forks f with pc := if s.linked = 0 then .hPull else .hRel })
  | hgetNext {s f} : f < c.n → 0 < s.linked → (s.forks f).pc = .hNext →
      Step c s ⟨f, .hget⟩ (setFork s f { s.forks f with pc := .wLoop, cur := some 0 })
  | acqOkH {s f} : f < c.n → s.lock = none → (s.forks f).pc = .hAcq →
      Step c s ⟨f, .acqOk⟩ { setFork s f { s.forks f with pc := .hChk } with lock := some f }
  | acqOkW {s f} : f < c.n → s.lock = none → (s.forks f).pc = .wAcq →
      Step c s ⟨f, .acqOk⟩ { setFork s f { s.forks f with pc := .wChk } with lock := some f }
  | acqFailH {s f} : f < c.n → s.lock.isSome = true → (s.forks f).pc = .hAcq →
      Step c s ⟨f, .acqFail⟩ (setFork s f { s.forks f with pc := .hLoop })
  | acqFailW {s f} : f < c.n → s.lock.isSome = true → (s.forks f).pc = .wAcq →
      Step c s ⟨f, .acqFail⟩ (setFork s f { s.forks f with pc := .wLoop })
  | pullH {s f} : f < c.n → s.pulled < c.len → s.raised = false → (s.forks f).pc = .hPull →
      Step c s ⟨f, .pull⟩ { setFork s f { s.forks f with pc := .hPut } with pulled := s.pulled + 1, boxes := s.boxes + 1 }
  | pullW {s f} : f < c.n → s.pulled < c.len → s.raised = false → (s.forks f).pc = .wPull →
      Step c s ⟨f, .pull⟩ { setFork s f { s.forks f with pc := .wLink } with pulled := s.pulled + 1, boxes := s.boxes + 1 }
  | srcEndH {s f} : f < c.n → s.pulled = c.len → c.fail = false → (s.forks f).pc = .hPull →
      Step c s ⟨f, .srcEnd⟩ { setFork s f { s.forks f with pc := .hRelStop } with endPulls := s.endPulls + 1 }
  | srcEndW {s f} : f < c.n → s.pulled = c.len → c.fail = false → (s.forks f).pc = .wPull →
      Step c s ⟨f, .srcEnd⟩ { setFork s f { s.forks f with pc := .wRel } with endPulls := s.endPulls + 1 }
  | srcExcH {s f} : f < c.n → s.pulled = c.len → c.fail = true → s.raised = false → (s.forks f).pc = .hPull →
      Step c s ⟨f, .srcExc⟩ { setFork s f { s.forks f with pc := .hPut } with raised := true, boxes := s.boxes + 1 }
  | srcExcW {s f} : f < c.n → s.pulled = c.len → c.fail = true → s.raised = false → (s.forks f).pc = .wPull →
      Step c s ⟨f, .srcExc⟩ { setFork s f { s.forks f with pc := .wLink } with raised := true, boxes := s.boxes + 1 }
  | putH {s f} : f < c.n → s.put < s.popped + c.bs → (s.forks f).pc = .hPut →
      Step c s ⟨f, .put⟩ { setFork s f { s.forks f with pc := .hSet } with put := s.put + 1 }
  | putW {s f} : f < c.n → s.put < s.popped + c.bs → (s.forks f).pc = .wPut →
      Step c s ⟨f, .put⟩ { setFork s f { s.forks f with pc := .wRel } with put := s.put + 1 }
  | hset {s f} : f < c.n → (s.forks f).pc = .hSet →
      Step c s ⟨f, .hset⟩ { setFork s f { s.forks f with pc := .hRel } with linked := 1 }
  | relH {s f} : f < c.n → s.lock = some f → (s.forks f).pc = .hRel →
      Step c s ⟨f, .rel⟩ { setFork s f { s.forks f with pc := .hLoop } with lock := none }
  | relStop {s f} : f < c.n → s.lock = some f → (s.forks f).pc = .hRelStop →
      Step c s ⟨f, .rel⟩ { setFork s f { s.forks f with pc := .retStop } with lock := none }
  | relW {s f} : f < c.n → s.lock = some f → (s.forks f).pc = .wRel →
      Step c s ⟨f, .rel⟩ { setFork s f { s.forks f with pc := .bAcq } with lock := none }
  | ngetLoop {s f j} : f < c.n → (s.forks f).cur = some j → (s.forks f).pc = .wLoop →
      Step c s ⟨f, .nget⟩ (setFork s f { s.forks f with
        pc := if j + 1 < s.linked then .bAcq else if isExc c j then .bAcq else .wAcq })
  | ngetChk {s f j} : f < c.n → (s.forks f).cur = some j → (s.forks f).pc = .wChk →
      Step c s ⟨f, .nget⟩ (setFork s f { s.forks f with pc := if j + 1 < s.linked then .wRel else .wPull })
  | ngetAdv {s f j} : f < c.n → (s.forks f).cur = some j → (s.forks f).pc = .adv →
      Step c s ⟨f, .nget⟩ (setFork s f { s.forks f with
        pc := if isExc c j then .retExc else .ret j, st := true,
        cur := if j + 1 < s.linked then some (j + 1) else none })
  | nset {s f j} : f < c.n → (s.forks f).cur = some j → (s.forks f).pc = .wLink →
      Step c s ⟨f, .nset⟩ { setFork s f { s.forks f with pc := .wPut } with linked := j + 2 }
  | bacq {s f j} : f < c.n → (s.forks f).cur = some j → boxFree c s f j = true → (s.forks f).pc = .bAcq →
      Step c s ⟨f, .bacq⟩ (setFork s f { s.forks f with pc := .bInc })
  | incRead {s f j} : f < c.n → (s.forks f).cur = some j → (s.forks f).pc = .bInc →
      Step c s ⟨f, .ncmp⟩ (setFork s f { s.forks f with pc := .bIncW, tmp := s.cnt j })
  | inc {s f j} : f < c.n → (s.forks f).cur = some j → (s.forks f).pc = .bIncW →
      Step c s ⟨f, .inc⟩ { setFork s f { s.forks f with pc := .bCmp, inc := (s.forks f).inc + 1 } with
        cnt := fun i => if i = j then (s.forks f).tmp + 1 else s.cnt i }
  | cmp {s f j} : f < c.n → (s.forks f).cur = some j → (s.forks f).pc = .bCmp →
      Step c s ⟨f, .ncmp⟩ (setFork s f { s.forks f with pc := if s.cnt j = c.n then .bGet else .bRel })
  | get {s f} : f < c.n → s.popped < s.put → (s.forks f).pc = .bGet →
      Step c s ⟨f, .get⟩ { setFork s f { s.forks f with pc := .bRel } with popped := s.popped + 1 }
  | brel {s f} : f < c.n → (s.forks f).pc = .bRel →
      Step c s ⟨f, .brel⟩ (setFork s f { s.forks f with pc := .adv })
  | recv {s f j} : f < c.n → (s.forks f).pc = .ret j →
      Step c s ⟨f, .recv⟩ (setFork s f { s.forks f with pc := .idle, out := (s.forks f).out ++ [j] })
  | exc {s f} : f < c.n → (s.forks f).pc = .retExc →
      Step c s ⟨f, .exc⟩ (setFork s f { s.forks f with pc := .done, fin := some .exc })
  | stop {s f} : f < c.n → (s.forks f).pc = .retStop →
      Step c s ⟨f, .stop⟩ (setFork s f { s.forks f with pc := .done, fin := some .stop })

theorem step_sound (c : Cfg) (s s' : State) (a : Act) (h : step c s a = some s') : Step c s a s' := by
  obtain ⟨f, k⟩ := a
  simp only [step] at h
  split at h
  case isFalse => simp at h
  case isTrue hf =>
  cases k <;> simp only [stepF] at h
  case call => split at h <;> simp at h; subst h; rename_i hp; exact .call hf hp
  case hget =>
    split at h <;> try (simp at h)
    · subst h; rename_i hp; exact .hgetChk hf hp
    · subst h; rename_i hp; exact .hgetLoop hf hp
    · subst h; rename_i hp; exact .hgetLocked hf hp
    · rename_i hp; obtain ⟨hl, h⟩ := h; subst h; exact .hgetNext hf hl hp
  case acqOk =>
    split at h
    · rename_i hl; split at h <;> simp at h
      · subst h; rename_i hp; exact .acqOkH hf hl hp
      · subst h; rename_i hp; exact .acqOkW hf hl hp
    · simp at h
  case acqFail =>
    split at h
    · rename_i hl; split at h <;> simp at h
      · subst h; rename_i hp; exact .acqFailH hf hl hp
      · subst h; rename_i hp; exact .acqFailW hf hl hp
    · simp at h
  case pull =>
    split at h
    · rename_i hl; split at h <;> simp at h
      · subst h; rename_i hp; exact .pullH hf hl.1 hl.2 hp
      · subst h; rename_i hp; exact .pullW hf hl.1 hl.2 hp
    · simp at h
  case srcEnd =>
    split at h
    · rename_i hl; split at h <;> simp at h
      · subst h; rename_i hp; exact .srcEndH hf hl.1 hl.2 hp
      · subst h; rename_i hp; exact .srcEndW hf hl.1 hl.2 hp
    · simp at h
  case srcExc =>
    split at h
    · rename_i hl; split at h <;> simp at h
      · subst h; rename_i hp; exact .srcExcH hf hl.1 hl.2.1 hl.2.2 hp
      · subst h; rename_i hp; exact .srcExcW hf hl.1 hl.2.1 hl.2.2 hp
    · simp at h
  case put =>
    split at h
    · rename_i hl; split at h <;> simp at h
      · subst h; rename_i hp; exact .putH hf hl hp
      · subst h; rename_i hp; exact .putW hf hl hp
    · simp at h
  case hset => split at h <;> simp at h; subst h; rename_i hp; exact .hset hf hp
  case rel =>
    split at h
    · rename_i hl; split at h <;> simp at h
      · subst h; rename_i hp; exact .relH hf hl hp
      · subst h; rename_i hp; exact .relStop hf hl hp
      · subst h; rename_i hp; exact .relW hf hl hp
    · simp at h
  case nget =>
    split at h
    · simp at h
    · rename_i j hc
      split at h <;> simp at h
      · subst h; rename_i hp; exact .ngetLoop hf hc hp
      · subst h; rename_i hp; exact .ngetChk hf hc hp
      · subst h; rename_i hp; exact .ngetAdv hf hc hp
  case nset =>
    split at h <;> simp at h
    subst h; rename_i j hc hp; exact .nset hf hc hp
  case bacq =>
    split at h
    · rename_i j hc hp; split at h <;> simp at h
      subst h; rename_i hb; exact .bacq hf hc hb hp
    · simp at h
  case inc =>
    split at h <;> simp at h
    subst h; rename_i j hc hp; exact .inc hf hc hp
  case ncmp =>
    split at h <;> simp at h
    · subst h; rename_i j hc hp; exact .incRead hf hc hp
    · subst h; rename_i j hc hp; exact .cmp hf hc hp
  case get =>
    split at h
    · rename_i hl; split at h <;> simp at h
      subst h; rename_i hp; exact .get hf hl hp
    · simp at h
  case brel => split at h <;> simp at h; subst h; rename_i hp; exact .brel hf hp
  case recv => split at h <;> simp at h; subst h; rename_i j hp; exact .recv hf hp
  case exc => split at h <;> simp at h; subst h; rename_i hp; exact .exc hf hp
  case stop => split at h <;> simp at h; subst h; rename_i hp; exact .stop hf hp

theorem Step.lt {c : Cfg} {s s' : State} {f : Nat} {k : Kind} (h : Step c s ⟨f, k⟩ s') : f < c.n := by
  cases h <;> assumption

/-- reachable states of the model for configuration `c` -/
def Reachable (c : Cfg) (s : State) : Prop := Core.Reach (step c) init s

/-- lift a `Step`-inductive invariant to all reachable states -/
theorem reachable_inv (c : Cfg) {Inv : State → Prop} (h0 : Inv init)
    (hstep : ∀ s a s', Inv s → Step c s a s' → Inv s') {s : State} (hr : Reachable c s) : Inv s :=
  Core.invariant_reach (fun s a s' hi hs => hstep s a s' hi (step_sound c s s' a hs)) h0 hr

end Tee
