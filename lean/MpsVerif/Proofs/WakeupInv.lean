import MpsVerif.Model.Wakeup
import MpsVerif.Core.Sys
/-! Invariant, measure and step lemmas of the wake-up model (`Model/Wakeup.lean`). -/
namespace Wakeup
open Core

/-- every free slot is matched by a wake-up that is still under way, as long as somebody is parked -/
def Inv (c : Cfg) (s : State) : Prop :=
  s.n ≤ c.cap ∧ (0 < s.w → c.cap ≤ s.n + s.g + s.t + s.nt + s.nx + s.p)

theorem inv_init (c : Cfg) : Inv c init := by simp [Inv, init]

theorem inv_step (c : Cfg) (hp : c.passOn = true) (s s' : State) (a : Act)
    (hi : Inv c s) (hs : step c s a = some s') : Inv c s' := by
  obtain ⟨hn, h⟩ := hi
  cases a with
  | notify k =>
    simp only [step] at hs
    split at hs
    · rename_i ht
      cases k with
      | none =>
        simp only [wake] at hs; split at hs
        · simp at hs; subst hs; exact ⟨hn, fun h0 => by simp only at h0; omega⟩
        · simp at hs
      | w =>
        simp only [wake] at hs; split at hs
        · simp at hs; subst hs; refine ⟨hn, fun _ => ?_⟩
          have := h (by simp only at *; omega)
          simp only; omega
        · simp at hs
      | x =>
        simp only [wake] at hs; split at hs
        · simp at hs; subst hs; refine ⟨hn, fun _ => ?_⟩
          have := h (by simp only at *; omega)
          simp only; omega
        · simp at hs
    · simp at hs
  | passOn k =>
    simp only [step] at hs
    split at hs
    · rename_i ht
      cases k with
      | none =>
        simp only [wake] at hs; split at hs
        · simp at hs; subst hs; exact ⟨hn, fun h0 => by simp only at h0; omega⟩
        · simp at hs
      | w =>
        simp only [wake] at hs; split at hs
        · simp at hs; subst hs; refine ⟨hn, fun _ => ?_⟩
          have := h (by simp only at *; omega)
          simp only; omega
        · simp at hs
      | x =>
        simp only [wake] at hs; split at hs
        · simp at hs; subst hs; refine ⟨hn, fun _ => ?_⟩
          have := h (by simp only at *; omega)
          simp only; omega
        · simp at hs
    · simp at hs
  | giveUp =>
    simp only [step] at hs
    split at hs
    · rename_i hh; rw [hp] at hh; simp at hh
    · simp at hs
  | bounce k =>
    simp only [step, hp, ↓reduceIte] at hs
    cases k with
    | none =>
      simp only [wake] at hs; split at hs
      · simp at hs; subst hs; exact ⟨hn, h⟩
      · simp at hs
    | w =>
      simp only [wake] at hs; split at hs
      · simp at hs; subst hs; refine ⟨hn, fun _ => ?_⟩
        have := h (by omega)
        simp only; omega
      · simp at hs
    | x =>
      simp only [wake] at hs; split at hs
      · simp at hs; subst hs; refine ⟨hn, fun h0 => ?_⟩
        have := h (by simpa using h0)
        simp only; omega
      · simp at hs
  | leaveWait b =>
    cases b <;> simp only [step] at hs <;> split at hs <;> simp at hs <;> subst hs <;>
      exact ⟨hn, fun h0 => by simp only at *; have := h (by omega); omega⟩
  | take | park | expire | raceFire | pop | post | wokenTake | wokenPark | wokenLeave =>
    simp only [step] at hs
    split at hs
    · simp at hs; subst hs
      refine ⟨by simp only at *; omega, fun h0 => ?_⟩
      simp only at *
      first
        | omega
        | (have := h (by omega); omega)
    · simp at hs

/-- weights chosen so that every internal action lowers the measure (see `internal_decreases`) -/
def mu (s : State) : Nat :=
  2 * s.w + 3 * s.x + 3 * s.nt + 4 * s.nx + 2 * s.p + 3 * s.g + 2 * s.t

/-- the internal actions alone -/
def istep (c : Cfg) (s : State) (a : Act) : Option State :=
  if internal a then step c s a else none

theorem internal_decreases (c : Cfg) (s s' : State) (a : Act) (hs : istep c s a = some s') : mu s' < mu s := by
  unfold istep at hs
  split at hs
  · rename_i hint
    cases a with
    | notify k =>
      simp only [step] at hs; split at hs
      · cases k <;> simp only [wake] at hs <;> split at hs <;> simp at hs <;> subst hs <;> simp only [mu] <;> omega
      · simp at hs
    | passOn k =>
      simp only [step] at hs; split at hs
      · cases k <;> simp only [wake] at hs <;> split at hs <;> simp at hs <;> subst hs <;> simp only [mu] <;> omega
      · simp at hs
    | leaveWait b =>
      cases b <;> simp only [step] at hs <;> split at hs <;> simp at hs <;> subst hs <;> simp only [mu] <;> omega
    | post | wokenTake | wokenPark | wokenLeave | giveUp =>
      simp only [step] at hs; split at hs
      · simp at hs; subst hs; simp only [mu]; omega
      · simp at hs
    | take | park | expire | raceFire | pop | bounce _ => simp [internal] at hint
  · simp at hs

/-- at rest no internal action is enabled, and conversely -/
theorem quiescent_iff (c : Cfg) (s : State) :
    Quiescent s ↔ ∀ a, istep c s a = none := by
  constructor
  · intro ⟨hg, ht, hnt, hnx, hp, hx⟩ a
    unfold istep
    split
    · cases a with
      | notify k => simp [step, ht]
      | passOn k => simp [step, hp]
      | leaveWait b => cases b <;> simp [step, hx, hnx]
      | post => simp [step, hg]
      | wokenTake => simp [step, hnt]
      | wokenPark => simp [step, hnt]
      | wokenLeave => simp [step, hnt]
      | giveUp => simp [step, hp]
      | take | park | expire | raceFire | pop | bounce _ => simp_all [internal]
    · rfl
  · intro h
    have h1 := h .post
    have h2 := h (.notify .none); have h2w := h (.notify .w); have h2x := h (.notify .x)
    have h3 := h .wokenTake; have h4 := h .wokenPark
    have h5 := h (.leaveWait false); have h6 := h (.leaveWait true)
    have h7 := h (.passOn .none); have h7w := h (.passOn .w); have h7x := h (.passOn .x)
    have h8 := h .giveUp
    simp only [istep, internal, step, wake, if_true] at h1 h2 h2w h2x h3 h4 h5 h6 h7 h7w h7x h8
    unfold Quiescent
    refine ⟨?_, ?_, ?_, ?_, ?_, ?_⟩
    · cases Nat.eq_zero_or_pos s.g with
      | inl h0 => exact h0
      | inr hh => simp [hh] at h1
    · cases Nat.eq_zero_or_pos s.t with
      | inl h0 => exact h0
      | inr ht =>
        exfalso
        simp only [ht, if_true] at h2 h2w h2x
        by_cases hw : 0 < s.w
        · simp [hw] at h2w
        · have : s.w = 0 := by omega
          simp [this] at h2
    · cases Nat.eq_zero_or_pos s.nt with
      | inl h0 => exact h0
      | inr hnt =>
        exfalso
        by_cases hc : s.n < c.cap
        · simp [hnt, hc] at h3
        · have : c.cap ≤ s.n := by omega
          simp [hnt, this] at h4
    · cases Nat.eq_zero_or_pos s.nx with
      | inl h0 => exact h0
      | inr hh => simp [hh] at h6
    · cases Nat.eq_zero_or_pos s.p with
      | inl h0 => exact h0
      | inr hp =>
        exfalso
        cases hpo : c.passOn with
        | false => simp [hpo, hp] at h8
        | true =>
          simp only [hpo, hp, and_self, if_true] at h7 h7w h7x
          by_cases hw : 0 < s.w
          · simp [hw] at h7w
          · have : s.w = 0 := by omega
            simp [this] at h7
    · cases Nat.eq_zero_or_pos s.x with
      | inl h0 => exact h0
      | inr hh => simp [hh] at h5

end Wakeup
