import MpsVerif.Proofs.FifoLive
/-!
# C01 — parallel map is order-preserving and exactly-once

Model: `Model/Fifo.lean`.  Elements are identified by their index; `out` is the list of indices
whose result was handed to the consumer.  The value delivered for index `i` is
`post (x_i, result_i)`; `result_i` is the future's content, which the model tracks by index
(`finished`), so "the i-th output is the function's result for the i-th input" is
"`out = [0, 1, …, k-1]` and every delivered index is finished".  All theorems hold for every
reachable state, i.e. for **every** action list: every completion order (`finish j` for any
running `j`), every interleaving of feeder, pool and consumer, every `cap`, `conc`, flags.
-/
namespace Fifo

/-- outputs are the indices `0, 1, 2, …` in order: no gap, no duplicate, no reordering -/
theorem C01_in_order (c : Cfg) (s : State) (hr : Reachable c s) :
    s.out = List.range s.out.length := (all_reachable c hr).res.1

/-- every delivered element carries a result that is ready (its own future), and an exception
    result is delivered as a value only under `return_exceptions` -/
theorem C01_own_result (c : Cfg) (s : State) (hr : Reachable c s) :
    ∀ i ∈ s.out, i ∈ s.finished ∧ (c.isErr i = false ∨ c.returnExc = true) :=
  (all_reachable c hr).res.2.1

/-- exactly-once: the worker function is never invoked twice on the same element; it was invoked
    exactly once on every delivered element that passed the preprocessor, and never on an element
    the preprocessor rejected -/
theorem C01_exactly_once (c : Cfg) (s : State) (hr : Reachable c s) :
    s.calls.Nodup ∧
    (∀ i ∈ s.out, c.preFail i = false → s.calls.count i = 1) ∧
    (∀ i, c.preFail i = true → i ∉ s.calls) := by
  have h := all_reachable c hr
  obtain ⟨q1, q2, q3, q4, q5, q6, q7, q8⟩ := h.pool
  refine ⟨q6, ?_, ?_⟩
  · intro i hi hp
    have hfin := (h.res.2.1 i hi).1
    have : i ∈ s.calls := (q7 i).mpr (Or.inr ⟨hfin, hp⟩)
    rw [q6.count]; simp [this]
  · intro i hp hc
    rcases (q7 i).mp hc with h1 | h1
    · have := q5 i (Or.inr h1); simp [hp] at this
    · simp [hp] at h1

/-- completeness: when the iteration is over and the consumer neither closed early nor received
    an exception, it has received every element -/
theorem C01_complete (c : Cfg) (s : State) (hr : Reachable c s)
    (hclosed : s.cpc = .closed) (hnr : s.raised = none) (hnc : s.closeReq = false) :
    s.out = List.range c.n := by
  have h := all_reachable c hr
  have := h.res.2.2.2.2.1 (Or.inr (Or.inr hclosed)) hnr hnc
  rw [← this.1]; exact h.res.1

/-- non-vacuity: out-of-order completion (element 1 finishes before element 0) still delivers
    `[0, 1]` and the run ends `closed` with `calls = [1, 0]` -/
example :
    let c : Cfg := { n := 2, srcEnd := .clean, cap := 1, conc := 2, preFail := fun _ => false,
                     resErr := fun _ => false, returnExc := false }
    ∃ s, Reachable c s ∧ s.cpc = .closed ∧ s.out = [0, 1] ∧ s.raised = none := by
  refine ⟨_, ⟨[.pull, .fcheck, .submit, .put, .pull, .fcheck, .submit, .put, .start 0, .start 1,
              .finish 1, .get, .finish 0, .yld, .next, .get, .yld, .next, .srcEnd, .putEnd, .get,
              .drainEmpty, .join], rfl⟩, ?_⟩
  decide

end Fifo
