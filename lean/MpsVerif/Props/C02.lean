import MpsVerif.Proofs.ServletLift
import MpsVerif.Props.C01
/-!
# C02 — Server answers every request with its own result (no cross-talk): the servlet-tree layer

Model: `Model/Servlet.lean`.  `outs t x` is the list of allowed outcomes of a request with input
`x` through the servlet tree `t` (sequential = composition, ensemble = member results in member
order / `EnsembleError`, switch = the selected member; a relation rather than a function because a
fail-fast `EnsembleError` carries the member results received so far and a failing batched call
fails whoever shares the batch).  `Contract o recv sentG` (Proofs/ServletContract.lean): every
message put on the node's output queue is `(u, y)` for a received `(u, x)` with `y ∈ o x`, and no
received message is answered more often than it was received; `Complete` = exactly once.

The theorems hold for **every action list** of the node models: any number of competing workers,
any completion and emission order, any batch formation, any interleaving of the ensemble's enqueue
and dequeue threads with its members, any order in which member results arrive, any worker
functions and failure plans (`WSpec` is universally quantified), any member outcome relations.
The layer-2 proviso — the uids handed to the tree are pairwise distinct — is what the request-id
counter guarantees (Ledger model); `C02_uid_distinct_needed` shows it cannot be dropped.

Whole trees (`Model/ServletTree.lean`, `Proofs/ServletLift.lean`): in the node models a member of
an ensemble / switch is a *contract box* (answers any message it holds, at any time, with any outcome
its own `outs` allows).  `C02_tree` removes the abstraction: a behaviour of a concrete tree (`Tr t σ`)
is a run of the root node with ARBITRARY members (they may answer anything, twice, or what they never
received) whose member-boundary traces are, recursively, behaviours of the member subtrees; sequences
are wired through a joint trace.  By structural induction over the tree every such behaviour with
distinct input uids satisfies the trace contract `Sat (outs t)`: the members' contracts (induction
hypothesis) make every member step a legal box step, the node contract (`C02_node_*`) does the rest,
and each node hands every uid to a member at most once, so the proviso is passed down.
`C02_tree_exactly_one`: in a behaviour that has come to rest (`TrQ`: every real queue empty, nothing
held, no call running, nothing waiting to be put) every request that entered has exactly one answer.
-/
namespace Servlet

/-- **simple servlet** (any number of workers, single or batched, with `preprocess`): contract for
    `outs (worker w)`, for every action list; no proviso on the uids -/
theorem C02_node_worker (w : WSpec) (hb : Wk.BerrsOk w) (as : List Wk.Act) (s : Wk.State)
    (hr : Core.run (Wk.step w) Wk.init as = some s) :
    Contract (outs (.worker w)) s.recv s.sentG ∧ (Wk.Quiescent s → Complete s.recv s.sentG) :=
  Wk.contract w hb as s hr

/-- the ghost history `sentG` is the history of the real output queue: what the downstream has
    taken so far followed by what is still on `q_out` -/
theorem C02_worker_sent_is_qout (w : WSpec) (hb : Wk.BerrsOk w) (as : List Wk.Act) (s : Wk.State)
    (hr : Core.run (Wk.step w) Wk.init as = some s) : ∃ d, d ++ s.qout = s.sentG.map gmsg :=
  (Wk.inv_reach w hb as s hr).2

/-- **ensemble servlet** over member boxes `ts.map outs`: contract for `outs (ens ts ff)`, for every
    action list in which the uids received are pairwise distinct -/
theorem C02_node_ensemble (ts : List Tree) (ff : Bool) (hpos : 0 < ts.length) (as : List Ens.Act)
    (s : Ens.State) (hr : Core.run (Ens.step (ts.map outs) ff) Ens.init as = some s)
    (hn : (s.recv.map (·.1)).Nodup) :
    Contract (outs (.ens ts ff)) s.recv s.sentG ∧ (Ens.Quiescent s → Complete s.recv s.sentG) := by
  have h := Ens.contract (ts.map outs) ff (by simpa using hpos) as s hr hn
  have e : outs (.ens ts ff) = eouts (ts.map outs) ff := by
    funext x; simp [outs, eouts, outsEach_eq]
  rw [e]; exact h

/-- the ensemble hands every uid to every member at most once: the members' own proviso holds -/
theorem C02_ensemble_members_distinct (ts : List Tree) (ff : Bool) (hpos : 0 < ts.length)
    (as : List Ens.Act) (s : Ens.State)
    (hr : Core.run (Ens.step (ts.map outs) ff) Ens.init as = some s)
    (hn : (s.recv.map (·.1)).Nodup) :
    ((s.pend ++ s.mout).map (fun m => (m.1, m.2.1))).Nodup :=
  (Ens.inv_run (by simpa using hpos) as s hr hn).iknd

/-- **switch servlet** over member boxes: contract for `outs (switch ts sel)`, every action list -/
theorem C02_node_switch (ts : List Tree) (sel : Val → Nat) (as : List Sw.Act) (s : Sw.State)
    (hr : Core.run (Sw.step (ts.map outs) sel) Sw.init as = some s) :
    Contract (outs (.switch ts sel)) s.recv s.sentG ∧ (Sw.Quiescent s → Complete s.recv s.sentG) := by
  have h := Sw.contract (ts.map outs) sel as s hr
  have e : outs (.switch ts sel) = souts (ts.map outs) sel := by
    funext x; simp [outs, souts, outsNth_eq]
  rw [e]; exact h

/-- **sequential servlet**: if the first stage and the rest satisfy their contracts and the rest has
    received only what the first stage sent (its input queue is the first stage's output queue),
    the outputs of the sequence are allowed outcomes of `outs (seq (t :: ts))` for the input received
    under the same uid, at most one per uid, and the rest's uids are pairwise distinct again -/
theorem C02_seq (t : Tree) (ts : List Tree) {recvA recvB : List Msg} {sentA sentB : List GMsg}
    (hA : Contract (outs t) recvA sentA) (hB : Contract (outs (.seq ts)) recvB sentB)
    (hlink : ∀ m, recvB.count m ≤ (sentA.map gmsg).count m) (hn : (recvA.map (·.1)).Nodup) :
    (recvB.map (·.1)).Nodup ∧ (sentB.map (·.1)).Nodup ∧
    ∀ tb ∈ sentB, ∃ x, (tb.1, x) ∈ recvA ∧ tb.2.2 ∈ outs (.seq (t :: ts)) x := by
  have := seq_compose hA hB hlink hn
  simpa [outs, outsSeq] using this

/-- … and exactly one answer per request once both stages are at rest -/
theorem C02_seq_complete {recvA recvB : List Msg} {sentA sentB : List GMsg}
    (hA : Complete recvA sentA) (hB : Complete recvB sentB) (hlink : recvB.Perm (sentA.map gmsg)) :
    ∀ m ∈ recvA, ∃ tb ∈ sentB, tb.1 = m.1 :=
  seq_complete hA hB hlink

/-- **no cross-talk**: under a contract and distinct uids, the value put on the output queue under
    uid `u` is an allowed outcome of the input that was received under `u` — computed from that
    request's own input only -/
theorem C02_no_crosstalk {o : Val → List Val} {recv : List Msg} {sentG : List GMsg}
    (h : Contract o recv sentG) (hn : (recv.map (·.1)).Nodup) (u : Nat) (x y : Val)
    (hx : (u, x) ∈ recv) (hy : (u, y) ∈ sentG.map gmsg) : y ∈ o x :=
  h.no_crosstalk hn u x y hx hy

/-- **exactly one**: at most one answer per uid at any time; once the node is at rest (`Complete`),
    every received request has its answer -/
theorem C02_exactly_one {o : Val → List Val} {recv : List Msg} {sentG : List GMsg}
    (h : Contract o recv sentG) (hn : (recv.map (·.1)).Nodup) :
    (sentG.map (·.1)).Nodup ∧ (Complete recv sentG → ∀ m ∈ recv, ∃ t ∈ sentG, gkey t = m) :=
  ⟨h.sent_nodup hn, fun hc => hc.answered⟩

/-- **whole tree, no cross-talk**: for every servlet tree `t` (any depth, any mix of workers,
    sequences, ensembles with or without fail-fast, switches; any worker functions, failure plans,
    batch sizes, worker counts) and every behaviour `σ` of the concrete tree — every interleaving of
    every thread of every node — whose input uids are pairwise distinct: every message `(u, y)` put on
    the tree's output queue answers an earlier input `(u, x)` with an allowed outcome of THAT input,
    `y ∈ outs t x`, and no uid is answered twice -/
theorem C02_tree (t : Tree) (hw : WF t) (σ : List Ev) (htr : Tr t σ) (hd : DistinctIn σ) :
    Sat (outs t) σ :=
  tree_sat t hw σ htr hd

/-- the same, read per request: the answer for uid `u` is computed from the input that entered
    under `u` (it is the only input with that uid), and it is the only answer for `u` -/
theorem C02_tree_own_result (t : Tree) (hw : WF t) (σ : List Ev) (htr : Tr t σ) (hd : DistinctIn σ)
    (u : Nat) (x y : Val) (hx : Ev.inp (u, x) ∈ σ) (hy : Ev.out (u, y) ∈ σ) :
    y ∈ outs t x ∧ ((σ.filterMap Ev.outOf).map (·.1)).Nodup := by
  have hs := tree_sat t hw σ htr hd
  obtain ⟨x', h1, h2⟩ := hs.out_mem u y hy
  have : x' = x := fst_unique hd (mem_filterMap_inpOf.mpr h1) (mem_filterMap_inpOf.mpr hx)
  exact ⟨this ▸ h2, hs.out_unique⟩

/-- **whole tree, exactly one**: in every behaviour of every concrete tree that has come to rest,
    with distinct input uids, every request that entered has an answer, it is an allowed outcome of its
    own input, and it is its only answer -/
theorem C02_tree_exactly_one (t : Tree) (hw : WF t) (σ : List Ev) (htr : TrQ t σ) (hd : DistinctIn σ)
    (u : Nat) (x : Val) (hx : Ev.inp (u, x) ∈ σ) :
    ∃ y, Ev.out (u, y) ∈ σ ∧ y ∈ outs t x ∧ ∀ y', Ev.out (u, y') ∈ σ → y' = y := by
  obtain ⟨y, hy⟩ := tree_complete t hw σ htr hd u x hx
  have hs := tree_sat t hw σ (trq_tr t σ htr) hd
  obtain ⟨h1, _⟩ := C02_tree_own_result t hw σ (trq_tr t σ htr) hd u x y hx hy
  refine ⟨y, hy, h1, fun y' hy' => ?_⟩
  exact fst_unique hs.out_unique (mem_filterMap_outOf.mpr hy') (mem_filterMap_outOf.mpr hy)

/-! non-vacuity of `C02_tree`: a concrete behaviour of an ensemble of two simple servlets (member 1
    answers before member 0) -/
def wEx (k : Nat) : WSpec :=
  { pre := id, f := fun x => .cons x (.nat k), bs := 0, bfail := fun _ => .none, berrs := [], nw := 1 }

example : TrQ (.ens [.worker (wEx 1), .worker (wEx 2)] false)
    [.inp (5, .nat 7), .out (5, ofList [.cons (.nat 7) (.nat 1), .cons (.nat 7) (.nat 2)])] := by
  simp only [TrQ, TrQAll]
  exact ⟨[.node (.arrive (5, .nat 7)), .node .enq, .node (.memberOut 1 (.cons (.nat 7) (.nat 2))),
          .node (.memberOut 0 (.cons (.nat 7) (.nat 1))), .node (.deq 0), .node (.deq 0), .node (.emit 0)],
         _, rfl, rfl, rfl, rfl, rfl,
         ⟨[.arrive (5, .nat 7), .take, .start [true], .finish 0, .emit 0], _, rfl, rfl, by decide⟩,
         ⟨[.arrive (5, .nat 7), .take, .start [true], .finish 0, .emit 0], _, rfl, rfl, by decide⟩, trivial⟩

example : Tr (.ens [.worker (wEx 1), .worker (wEx 2)] false)
    [.inp (5, .nat 7), .out (5, ofList [.cons (.nat 7) (.nat 1), .cons (.nat 7) (.nat 2)])] := by
  simp only [Tr, TrAll]
  exact ⟨[.node (.arrive (5, .nat 7)), .node .enq, .node (.memberOut 1 (.cons (.nat 7) (.nat 2))),
          .node (.memberOut 0 (.cons (.nat 7) (.nat 1))), .node (.deq 0), .node (.deq 0), .node (.emit 0)],
         _, rfl, rfl,
         ⟨[.arrive (5, .nat 7), .take, .start [true], .finish 0, .emit 0], _, rfl, rfl⟩,
         ⟨[.arrive (5, .nat 7), .take, .start [true], .finish 0, .emit 0], _, rfl, rfl⟩, trivial⟩

/-- **stream yields outcomes in input order**: `Server.stream` is `fifo_stream(data_stream,
    self._enqueue, …)` (`_server.py` 470-480), so the order of what a `stream` caller receives is
    C01's theorem about the `fifo_stream` model with `func = _enqueue` (cited, not re-proved): the
    outputs are the indices 0, 1, 2, … in order, for every completion order of the requests -/
theorem C02_stream_order (c : Fifo.Cfg) (s : Fifo.State) (hr : Fifo.Reachable c s) :
    s.out = List.range s.out.length :=
  Fifo.C01_in_order c s hr

/-! ### F2's mechanism: with a REUSED uid a fail-fast ensemble crosses results -/

def memA : Val → List Val := fun x => if x = .nat 1 then [.exc 2001 (.nat 1)] else [.cons x (.nat 1)]
def memB : Val → List Val := fun x => [.cons x (.nat 2)]

/-- Request 1 (uid 7) fails fast in member A while member B is still working on it; request 2 is
    handed the same uid 7 (recycled `id(future)`); B's late result for request 1 is filed under
    request 2, which is answered `[A(2), B(1)]` — not an allowed outcome of its own input. -/
theorem C02_uid_distinct_needed :
    ∃ (as : List Ens.Act) (s : Ens.State),
      Core.run (Ens.step [memA, memB] true) Ens.init as = some s ∧
      ∃ t ∈ s.sentG, t.2.2 ∉ eouts [memA, memB] true t.2.1 := by
  refine ⟨[.arrive (7, .nat 1), .enq, .memberOut 0 (.exc 2001 (.nat 1)), .deq 0, .emit 0,
           .arrive (7, .nat 2), .enq, .memberOut 0 (.cons (.nat 1) (.nat 2)), .deq 0,
           .memberOut 0 (.cons (.nat 2) (.nat 1)), .deq 0, .emit 0], _, rfl, ?_⟩
  decide

/-- non-vacuity: an ensemble run with out-of-order member results and two requests in flight ends
    at rest with exactly the two own results -/
example :
    ∃ s, Core.run (Ens.step [memA, memB] false) Ens.init
        [.arrive (3, .nat 1), .arrive (4, .nat 2), .enq, .enq, .memberOut 3 (.cons (.nat 2) (.nat 2)),
         .memberOut 0 (.exc 2001 (.nat 1)), .deq 0, .deq 0, .memberOut 1 (.cons (.nat 2) (.nat 1)),
         .memberOut 0 (.cons (.nat 1) (.nat 2)), .deq 1, .emit 0, .deq 0, .emit 0] = some s ∧
      Ens.Quiescent s ∧ (s.recv.map (·.1)).Nodup ∧
      s.sentG.map gmsg = [(3, ofList [.exc 2001 (.nat 1), .cons (.nat 1) (.nat 2)]),
                          (4, ofList [.cons (.nat 2) (.nat 1), .cons (.nat 2) (.nat 2)])] := by
  refine ⟨_, rfl, ?_⟩
  decide

end Servlet
