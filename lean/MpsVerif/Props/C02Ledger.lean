import MpsVerif.Proofs.LedgerRes
/-!
# C02 (ledger half) — every request gets its own outcome

Layer 2 of the C02 argument (DESIGN §5 C02): given a servlet that behaves like the abstract box
of `Model/Ledger.lean` — it emits, once and in any order, each message it was given, carrying the
response computed from that message's own input (layer 1, `Props/C02.lean`, proves this of servlet
trees provided ids are distinct) — the server delivers to each caller the response computed from
its own input, mints ids that are never reused, and drops no response.
-/
namespace Ledger

/-- a caller that was answered got the response computed from its own request's input -/
theorem C02_own_result (c : Cfg) (callers : List Caller) (hn : AllNew callers) (s : State)
    (hr : Reachable c callers s) (r src : Nat) (h : (s.get r).pc = .done (.answered src)) : src = r :=
  (all_reachable c callers hn hr).res.2.2.1 r src h

/-- request ids are never reused: two requests never carry the same id (this discharges the
    "distinct ids" proviso of the servlet-tree contract, for all time — not only for requests
    alive simultaneously — which is what a fail-fast ensemble's stale member results need) -/
theorem C02_uid_unique (c : Cfg) (callers : List Caller) (hn : AllNew callers) (s : State)
    (hr : Reachable c callers s) (r r' u : Nat)
    (h1 : (s.get r).uid = some u) (h2 : (s.get r').uid = some u) : r = r' :=
  (all_reachable c callers hn hr).uid.2 r r' u h1 h2

/-- every message in the pipeline carries the id of the request whose input it carries, and its
    ledger entry is present: no response can miss its entry, none is dropped -/
theorem C02_no_response_dropped (c : Cfg) (callers : List Caller) (hn : AllNew callers) (s : State)
    (hr : Reachable c callers s) :
    s.dropped = [] ∧ ∀ e, (e ∈ s.inflight ∨ e ∈ s.outq) → (s.get e.2).uid = some e.1 ∧ e ∈ s.ledger := by
  have h := (all_reachable c callers hn hr).cons
  exact ⟨h.2.2.2.2.2.1, fun e he => ⟨(h.2.1 e he).1, (h.2.1 e he).2.2⟩⟩

/-- at most one response per request is in the pipeline at any time -/
theorem C02_one_response (c : Cfg) (callers : List Caller) (hn : AllNew callers) (s : State)
    (hr : Reachable c callers s) : (s.inflight ++ s.outq).Nodup :=
  (all_reachable c callers hn hr).cons.2.2.2.1

/-- non-vacuity: two callers whose responses come out in the opposite order of their requests are
    each answered with their own -/
example :
    let c : Cfg := { cap := 2, guardSet := true }
    ∃ s, Reachable c [{}, {}] s ∧ (s.get 0).pc = .done (.answered 0) ∧ (s.get 1).pc = .done (.answered 1) := by
  refine ⟨_, ⟨[.mint 0, .acquire 0, .testPass 0, .insert 0, .enqueue 0,
              .mint 1, .acquire 1, .testPass 1, .insert 1, .enqueue 1,
              .emit 1 1, .emit 0 0, .pop 1 1, .gcheck, .gset, .pop 0 0, .gcheck, .gset, .receive 0, .receive 1], rfl⟩, ?_⟩
  decide

end Ledger
