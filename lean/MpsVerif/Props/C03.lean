import MpsVerif.Model.Pipeline
/-!
# C03 — stream pipelines equal their sequential meaning (first slice; see below for the full list)
-/
namespace Pipeline

/-- building a pipeline pulls nothing: the state built for any program over any source has pull
    counter 0, the source untouched, and every stage in its initial state -/
theorem C03_lazy (ops : List Op) (vals : List Val) (err : Option Err) (orc : List Bool) :
    (World.init vals err orc).src.pulled = 0 ∧ (World.init vals err orc).src.rest = vals ∧
    ∀ g ∈ build ops, g.pend = [] ∧ g.inq = [] ∧ g.recv = 0 := by
  refine ⟨rfl, rfl, ?_⟩
  intro g hg
  simp only [build, List.mem_reverse, List.mem_map] at hg
  obtain ⟨op, _, rfl⟩ := hg
  exact ⟨rfl, rfl, rfl⟩

end Pipeline
