import MpsVerif.Proofs.PipelineNext
/-!
# C03 — stream pipelines equal their sequential meaning

Model: `Model/Pipeline.lean` (`sem`/`semAll`: terminated-stream list meaning; `feed`/`flush`: the
generator bodies; `next`/`takeK`: the generator protocol over a source with a pull counter, eager
`buffer`/`parmap` stages scheduled by an arbitrary oracle).  Everything below is for **every**
program `ops : List Op` (operators carry arbitrary functions `Val → Res`, arbitrary sizes and
selectors), every finite input `vals` with or without a terminal source error `err`, every oracle
`orc`, and every consumption depth `k`.
-/
namespace Pipeline

/-- Consuming `k` items from the pipeline built from `ops` over the source `(vals, err)` — by the
    pull machine, i.e. the generator code — yields exactly the first `k` values of the sequential
    meaning `semAll ops`, and, when `k` exceeds their number, its ending (clean end or the error);
    for all sufficiently large recursion budgets (`fuel` is not part of the modelled code). -/
theorem C03_pull_eq_sem (ops : List Op) (vals : List Val) (err : Option Err) (orc : List Bool) (k : Nat) :
    ∃ F, ∀ fuel, F ≤ fuel →
      let r := takeK fuel k (build ops) (World.init vals err orc)
      (r.1, r.2.1) = expectK k (semAll ops ⟨vals, err⟩) := by
  obtain ⟨F, hF⟩ := takeK_total k (build ops) (World.init vals err orc)
  refine ⟨F, fun fuel hle => ?_⟩
  have := takeK_spec k fuel (build ops) (World.init vals err orc) (hF fuel hle)
  rw [denote_build] at this
  exact this

/-- … and no budget gives a different answer: whenever the run does not stop on `Resp.fuel`, it
    has produced the sequential meaning. -/
theorem C03_pull_fuel_independent (ops : List Op) (vals : List Val) (err : Option Err) (orc : List Bool)
    (k fuel : Nat) :
    let r := takeK fuel k (build ops) (World.init vals err orc)
    r.2.1 ≠ some .fuel → (r.1, r.2.1) = expectK k (semAll ops ⟨vals, err⟩) := by
  intro r h
  have := takeK_spec k fuel (build ops) (World.init vals err orc) h
  rw [denote_build] at this
  exact this

/-- Iterated to exhaustion (`collect()`, `drain()`, a full `for` loop): all values of the
    sequential meaning, then its ending. -/
theorem C03_exhaust_eq_sem (ops : List Op) (vals : List Val) (err : Option Err) (orc : List Bool) :
    ∃ F, ∀ fuel, F ≤ fuel → ∀ k, (semAll ops ⟨vals, err⟩).vals.length < k →
      let r := takeK fuel k (build ops) (World.init vals err orc)
      r.1 = (semAll ops ⟨vals, err⟩).vals ∧
      r.2.1 = some (match (semAll ops ⟨vals, err⟩).err with
        | Option.none => Resp.done
        | some e => Resp.err e) := by
  -- the run never looks at `k` beyond the point where it stops, so one budget serves all `k`
  obtain ⟨F, hF⟩ := C03_pull_eq_sem ops vals err orc ((semAll ops ⟨vals, err⟩).vals.length + 1)
  refine ⟨F, fun fuel hle k hk => ?_⟩
  have h1 := hF fuel hle
  simp only [expectK, Prod.mk.injEq] at h1
  -- a run that stopped on a non-value answer within k₀ requests does the same for any k ≥ k₀
  have stop_mono : ∀ (k₀ : Nat) (ss : List Stage) (w : World) (vs : List Val) (r : Resp),
      (takeK fuel k₀ ss w).1 = vs → (takeK fuel k₀ ss w).2.1 = some r →
      ∀ k, k₀ ≤ k → (takeK fuel k ss w).1 = vs ∧ (takeK fuel k ss w).2.1 = some r := by
    intro k₀
    induction k₀ with
    | zero => intro ss w vs r _ h2; simp [takeK] at h2
    | succ k₀ ih =>
      intro ss w vs r h1 h2 k hk
      obtain ⟨k', rfl⟩ : ∃ k', k = k' + 1 := ⟨k - 1, by omega⟩
      rcases hn : next fuel ss w with ⟨r0, ss', w'⟩
      simp only [takeK, hn] at h1 h2 ⊢
      cases r0 with
      | val v =>
        simp only at h1 h2 ⊢
        cases vs with
        | nil => simp at h1
        | cons v0 vs =>
          simp only [List.cons.injEq] at h1
          have := ih ss' w' vs r h1.2 h2 k' (by omega)
          simp [this.1, this.2, h1.1]
      | done => exact ⟨h1, h2⟩
      | err e => exact ⟨h1, h2⟩
      | fuel => exact ⟨h1, h2⟩
  have h2 : ¬ ((semAll ops ⟨vals, err⟩).vals.length + 1 ≤ (semAll ops ⟨vals, err⟩).vals.length) := by omega
  simp only [h2, if_false] at h1
  have := stop_mono _ _ _ _ _ h1.1 h1.2 k (by omega)
  simp only [List.take_of_length_le (Nat.le_succ _)] at this
  exact this

/-- Building a pipeline pulls nothing: the state built for any program over any source has pull
    counter 0, the source untouched, and every stage in its initial state (nothing pending,
    nothing fetched ahead, nothing received). -/
theorem C03_lazy (ops : List Op) (vals : List Val) (err : Option Err) (orc : List Bool) :
    (World.init vals err orc).src.pulled = 0 ∧ (World.init vals err orc).src.rest = vals ∧
    ∀ g ∈ build ops, g.pend = [] ∧ g.inq = [] ∧ g.recv = 0 := by
  refine ⟨rfl, rfl, ?_⟩
  intro g hg
  simp only [build, List.mem_reverse, List.mem_map] at hg
  obtain ⟨op, _, rfl⟩ := hg
  exact ⟨rfl, rfl, rfl⟩

end Pipeline
