import MpsVerif.Proofs.PipelineInc
import MpsVerif.Proofs.PipelineLaws
/-!
# C03 — stream pipelines equal their sequential meaning

Model: `Model/Pipeline.lean` (`sem`/`semAll`: terminated-stream list meaning; `feed`/`flush`: the
generator bodies; `next`/`takeK`: the generator protocol over a source with a pull counter, eager
`buffer`/`parmap` stages scheduled by an arbitrary oracle).  Everything below is for **every**
program `ops : List Op` (operators carry arbitrary functions `Val → Res`, arbitrary sizes and
selectors), every finite input `vals` with or without a terminal source error `err`, every oracle
`orc`, and every consumption depth `k`.
-/
namespace Pipeline

/-- Consuming `k` items from the pipeline built from `ops` over the source `(vals, err)` — by the
    pull machine, i.e. the generator code — yields exactly the first `k` values of the sequential
    meaning `semAll ops`, and, when `k` exceeds their number, its ending (clean end or the error);
    for all sufficiently large recursion budgets (`fuel` is not part of the modelled code). -/
theorem C03_pull_eq_sem (ops : List Op) (vals : List Val) (err : Option Err) (orc : List Bool) (k : Nat) :
    ∃ F, ∀ fuel, F ≤ fuel →
      let r := takeK fuel k (build ops) (World.init vals err orc)
      (r.1, r.2.1) = expectK k (semAll ops ⟨vals, err⟩) := by
  obtain ⟨F, hF⟩ := takeK_total k (build ops) (World.init vals err orc)
  refine ⟨F, fun fuel hle => ?_⟩
  have := takeK_spec k fuel (build ops) (World.init vals err orc) (hF fuel hle)
  rw [denote_build] at this
  exact this

/-- … and no budget gives a different answer: whenever the run does not stop on `Resp.fuel`, it
    has produced the sequential meaning. -/
theorem C03_pull_fuel_independent (ops : List Op) (vals : List Val) (err : Option Err) (orc : List Bool)
    (k fuel : Nat) :
    let r := takeK fuel k (build ops) (World.init vals err orc)
    r.2.1 ≠ some .fuel → (r.1, r.2.1) = expectK k (semAll ops ⟨vals, err⟩) := by
  intro r h
  have := takeK_spec k fuel (build ops) (World.init vals err orc) h
  rw [denote_build] at this
  exact this

/-- Iterated to exhaustion (`collect()`, `drain()`, a full `for` loop): all values of the
    sequential meaning, then its ending. -/
theorem C03_exhaust_eq_sem (ops : List Op) (vals : List Val) (err : Option Err) (orc : List Bool) :
    ∃ F, ∀ fuel, F ≤ fuel → ∀ k, (semAll ops ⟨vals, err⟩).vals.length < k →
      let r := takeK fuel k (build ops) (World.init vals err orc)
      r.1 = (semAll ops ⟨vals, err⟩).vals ∧
      r.2.1 = some (match (semAll ops ⟨vals, err⟩).err with
        | Option.none => Resp.done
        | some e => Resp.err e) := by
  -- the run never looks at `k` beyond the point where it stops, so one budget serves all `k`
  obtain ⟨F, hF⟩ := C03_pull_eq_sem ops vals err orc ((semAll ops ⟨vals, err⟩).vals.length + 1)
  refine ⟨F, fun fuel hle k hk => ?_⟩
  have h1 := hF fuel hle
  simp only [expectK, Prod.mk.injEq] at h1
  -- a run that stopped on a non-value answer within k₀ requests does the same for any k ≥ k₀
  have stop_mono : ∀ (k₀ : Nat) (ss : List Stage) (w : World) (vs : List Val) (r : Resp),
      (takeK fuel k₀ ss w).1 = vs → (takeK fuel k₀ ss w).2.1 = some r →
      ∀ k, k₀ ≤ k → (takeK fuel k ss w).1 = vs ∧ (takeK fuel k ss w).2.1 = some r := by
    intro k₀
    induction k₀ with
    | zero => intro ss w vs r _ h2; simp [takeK] at h2
    | succ k₀ ih =>
      intro ss w vs r h1 h2 k hk
      obtain ⟨k', rfl⟩ : ∃ k', k = k' + 1 := ⟨k - 1, by omega⟩
      rcases hn : next fuel ss w with ⟨r0, ss', w'⟩
      simp only [takeK, hn] at h1 h2 ⊢
      cases r0 with
      | val v =>
        simp only at h1 h2 ⊢
        cases vs with
        | nil => simp at h1
        | cons v0 vs =>
          simp only [List.cons.injEq] at h1
          have := ih ss' w' vs r h1.2 h2 k' (by omega)
          simp [this.1, this.2, h1.1]
      | done => exact ⟨h1, h2⟩
      | err e => exact ⟨h1, h2⟩
      | fuel => exact ⟨h1, h2⟩
  have h2 : ¬ ((semAll ops ⟨vals, err⟩).vals.length + 1 ≤ (semAll ops ⟨vals, err⟩).vals.length) := by omega
  simp only [h2, if_false] at h1
  have := stop_mono _ _ _ _ _ h1.1 h1.2 k (by omega)
  simp only [List.take_of_length_le (Nat.le_succ _)] at this
  exact this

/-- Building a pipeline pulls nothing: the state built for any program over any source has pull
    counter 0, the source untouched, and every stage in its initial state (nothing pending,
    nothing fetched ahead, nothing received). -/
theorem C03_lazy (ops : List Op) (vals : List Val) (err : Option Err) (orc : List Bool) :
    (World.init vals err orc).src.pulled = 0 ∧ (World.init vals err orc).src.rest = vals ∧
    ∀ g ∈ build ops, g.pend = [] ∧ g.inq = [] ∧ g.recv = 0 := by
  refine ⟨rfl, rfl, ?_⟩
  intro g hg
  simp only [build, List.mem_reverse, List.mem_map] at hg
  obtain ⟨op, _, rfl⟩ := hg
  exact ⟨rfl, rfl, rfl⟩

/-- Incremental consumption.  For a chain of one-to-one operators (`map`, `peek`, `accumulate`,
    `head`, `buffer`, `parmap`), after `k` requests — whatever the oracle lets the worker threads
    of `buffer`/`parmap` do — the number of source elements pulled is at most the number of
    answers handed to the consumer (values, plus 1 if the last request raised) plus
    `slackAll ops` = Σ per-operator constants: `map`/`peek`/`accumulate` 0, `head` 1,
    `buffer n` n+2, `parmap` 2·concurrency+3.
    Imported (not proved here): the last two constants are the look-ahead bounds of the thread-backed
    operators (`lookahead`, the guard of the oracle-driven prefetch in `next`), i.e. C08's
    `Fifo.C08_parmap_lookahead` for `parmap` and `Buffer.C08_buffer_lookahead` (Props/C08Buffer.lean) for `buffer`.
    What is proved here is that these bounds compose additively along the chain and that the
    ordinary generators add nothing (`head`: one element). -/
theorem C03_incremental (ops : List Op) (hone : ∀ op ∈ ops, op.oneOne = true)
    (vals : List Val) (err : Option Err) (orc : List Bool) (k fuel : Nat) :
    let r := takeK fuel k (build ops) (World.init vals err orc)
    r.2.1 ≠ some .fuel →
    r.2.2.2.src.pulled ≤
      r.1.length + (match r.2.1 with
        | some x => cnt x
        | Option.none => 0) + slackAll ops := by
  intro r h
  obtain ⟨i0, r0, t0⟩ := build_inv ops hone vals err orc
  obtain ⟨a, b, c, d⟩ := takeK_inv k fuel (build ops) (World.init vals err orc) i0 r0 h
  have := pulled_le _ _ a b
  rw [d, t0, stageSlack_congr _ _ c, stageSlack_build, Nat.zero_add] at this
  exact this

/-- … in particular: taking the first `k` outputs pulls at most `k + slackAll ops` source elements. -/
theorem C03_incremental_k (ops : List Op) (hone : ∀ op ∈ ops, op.oneOne = true)
    (vals : List Val) (err : Option Err) (orc : List Bool) (k fuel : Nat) :
    let r := takeK fuel k (build ops) (World.init vals err orc)
    r.2.1 = Option.none → r.1.length = k ∧ r.2.2.2.src.pulled ≤ k + slackAll ops := by
  intro r h
  have hl := takeK_len k fuel _ _ h
  have := C03_incremental ops hone vals err orc k fuel (by rw [h]; simp)
  refine ⟨hl, ?_⟩
  have e : (match (takeK fuel k (build ops) (World.init vals err orc)).2.1 with
      | some x => cnt x
      | Option.none => 0) = 0 := by rw [h]
  rw [e, hl] at this
  exact this

/-- Consuming the same `Stream` again starts from scratch: whatever was consumed before (any `k`,
    any budget), re-iterating puts every stage back into the state `build ops` — so the second
    consumption again yields the sequential meaning (`C03_pull_eq_sem`).  (On the pinned code
    `accumulate` violated this: F23, `Legacy/PipelineReiter.lean`.) -/
theorem C03_reiterate (ops : List Op) (vals : List Val) (err : Option Err) (orc : List Bool) (k fuel : Nat) :
    rebuild (takeK fuel k (build ops) (World.init vals err orc)).2.2.1 = build ops :=
  rebuild_eq ops _ (takeK_ops k fuel _ _)

/-! ### operator laws: the sequential meaning against the list library -/

/-- `shuffle(n)` yields a permutation of its input: for every buffer size `n ≥ 1`, every sequence
    of `randrange` answers `idx` and every final-shuffle script `perm`, on every cleanly ending input -/
theorem C03_shuffle_perm (n : Nat) (hn : 0 < n) (idx perm : List Nat) (vals : List Val) :
    (sem (.shuffle n idx perm) ⟨vals, Option.none⟩).vals.Perm vals ∧
    (sem (.shuffle n idx perm) ⟨vals, Option.none⟩).err = Option.none := by
  have := semShuffle_perm n hn perm vals [] idx (Nat.zero_le _)
  simpa [sem] using this

/-- `map f` where `f` succeeds on every element is `List.map` -/
theorem C03_law_map (f : Val → Res) (g : Val → Val) (s : Strm) (h : ∀ v ∈ s.vals, f v = .ok (g v)) :
    sem (.map f) s = ⟨s.vals.map g, s.err⟩ := semMap_total f g s.vals s.err h

/-- `map f` ends with the error of the first element on which `f` raises, after the results of the
    elements before it; nothing after it matters -/
theorem C03_law_map_first_failure (f : Val → Res) (g : Val → Val) (pre post : List Val) (x : Val)
    (e : Option Err) (x' : Err) (h : ∀ v ∈ pre, f v = .ok (g v)) (hx : f x = .raise x') :
    sem (.map f) ⟨pre ++ x :: post, e⟩ = ⟨pre.map g, some x'⟩ := semMap_cut f g pre post x e x' h hx

/-- `filter p` with a predicate that does not raise is `List.filter` (Python truth value of `p v`) -/
theorem C03_law_filter (p : Val → Res) (b : Val → Val) (s : Strm) (h : ∀ v ∈ s.vals, p v = .ok (b v)) :
    sem (.filter p) s = ⟨s.vals.filter (fun v => (b v).truthy), s.err⟩ := semFilter_total p b s.vals s.err h

/-- on a cleanly ending stream `head n` is `take n` … -/
theorem C03_law_head (n : Nat) (vals : List Val) :
    sem (.head n) ⟨vals, Option.none⟩ = ⟨vals.take n, Option.none⟩ := by
  simp only [sem]
  split
  · rfl
  · rw [List.take_of_length_le (by omega)]

/-- … and in general it is `take n` with the source's ending kept only if the source has no
    more than `n` values -/
theorem C03_law_head_general (n : Nat) (s : Strm) :
    (sem (.head n) s).vals = s.vals.take n ∧
    (sem (.head n) s).err = if n < s.vals.length then Option.none else s.err := by
  simp only [sem]
  split
  · exact ⟨rfl, rfl⟩
  · exact ⟨(List.take_of_length_le (by omega)).symm, rfl⟩

/-- on a cleanly ending stream `tail n` is `drop (length − n)`; after a failing source it yields nothing -/
theorem C03_law_tail (n : Nat) (vals : List Val) :
    sem (.tail n) ⟨vals, Option.none⟩ = ⟨vals.drop (vals.length - n), Option.none⟩ ∧
    ∀ e, sem (.tail n) ⟨vals, some e⟩ = ⟨[], some e⟩ := ⟨rfl, fun _ => rfl⟩

/-- `batch n` (`n ≥ 1`): the output is a list of Python lists `ls` such that every batch has between
    1 and `n` elements, all but the last exactly `n`, the source's ending is kept, and — when the
    source ends cleanly — their concatenation is the input -/
theorem C03_law_batch (n : Nat) (hn : 0 < n) (s : Strm) :
    ∃ ls : List (List Val),
      (sem (.batch n) s).vals = ls.map Val.ofList ∧ (sem (.batch n) s).err = s.err ∧
      (s.err = Option.none → ls.flatten = s.vals) ∧
      (∀ b ∈ ls, 0 < b.length ∧ b.length ≤ n) ∧ (∀ b ∈ ls.dropLast, b.length = n) := by
  obtain ⟨ls, h1, h2, h3, h4, h5⟩ := semBatch_shape n hn s.vals s.err [] hn
  exact ⟨ls, h1, h2, fun he => by simpa using h3 he, h4, h5⟩

/-- `unbatch ∘ batch n = id` on every cleanly ending stream -/
theorem C03_law_unbatch_batch (n : Nat) (hn : 0 < n) (vals : List Val) :
    semAll [.batch n, .unbatch] ⟨vals, Option.none⟩ = ⟨vals, Option.none⟩ := by
  obtain ⟨ls, h1, h2, h3, _, _⟩ := C03_law_batch n hn ⟨vals, Option.none⟩
  simp only [semAll, sem] at h1 h2 h3 ⊢
  rw [h1, h2, semUnbatch_ofLists, h3 trivial]

/-- `filter_exceptions(drop, keep)`: an element is raised iff it is an exception object whose class
    is neither kept nor dropped … -/
theorem C03_law_filterExc_verdict (d k : ExcSel) (v : Val) (e : Err) :
    excVerdict d k v = .raise e ↔
      ∃ t a, v = .exc t a ∧ k.has t = false ∧ d.has t = false ∧ e = ⟨t, a⟩ := excVerdict_raise_iff d k v e

/-- … the stream ends with exactly the *first* such element (raised), after the kept elements
    before it … -/
theorem C03_law_filterExc_first (d k : ExcSel) (pre post : List Val) (x : Val) (e : Option Err) (x' : Err)
    (h : ∀ v ∈ pre, (excVerdict d k v).isRaise = false) (hx : excVerdict d k x = .raise x') :
    sem (.filterExc d k) ⟨pre ++ x :: post, e⟩ =
      ⟨pre.filter (fun v => (excVerdict d k v).isKeep), some x'⟩ := semFilterExc_first d k pre post x e x' h hx

/-- … and without such an element it is `List.filter` on "kept", with the source's ending -/
theorem C03_law_filterExc_clean (d k : ExcSel) (s : Strm)
    (h : ∀ v ∈ s.vals, (excVerdict d k v).isRaise = false) :
    sem (.filterExc d k) s = ⟨s.vals.filter (fun v => (excVerdict d k v).isKeep), s.err⟩ :=
  semFilterExc_clean d k s.vals s.err h

/-- `groupby key` (with the documented materialising `map`) on a cleanly ending stream, `key` not
    raising: the output is a list of `(key, members)` pairs with non-empty member lists of constant
    key whose concatenation is the input, and neighbouring groups have different keys (the runs
    are maximal) — which determines the grouping uniquely -/
theorem C03_law_groupby (key : Val → Res) (k : Val → Val) (vals : List Val)
    (hk : ∀ v ∈ vals, key v = .ok (k v)) :
    ∃ gs : List (Val × List Val),
      sem (.groupby key) ⟨vals, Option.none⟩ = ⟨gs.map (fun g => Val.pair g.1 (Val.ofList g.2)), Option.none⟩ ∧
      (gs.map (·.2)).flatten = vals ∧ (∀ g ∈ gs, g.2 ≠ [] ∧ ∀ x ∈ g.2, k x = g.1) ∧ adjDistinct gs := by
  obtain ⟨gs, h1, h2, h3, h4, h5, _⟩ := semGroup_shape key k vals hk Option.none (by simp)
  refine ⟨gs, ?_, by simpa using h3, h4, h5⟩
  simp only [sem]
  rcases hs : semGroup key Option.none vals Option.none with ⟨v, e⟩
  rw [hs] at h1 h2
  simp only at h1 h2
  rw [h1, h2]

/-- `accumulate g` with an accumulator function that does not raise is the running fold
    (`scanl` without its seed); without an initializer the first element is the seed -/
theorem C03_law_accumulate (g : Val → Val → Res) (h : Val → Val → Val) (hg : ∀ z v, g z v = .ok (h z v))
    (vals : List Val) (e : Option Err) (z x : Val) :
    sem (.accumulate g (some z)) ⟨vals, e⟩ = ⟨(vals.scanl h z).tail, e⟩ ∧
    sem (.accumulate g Option.none) ⟨x :: vals, e⟩ = ⟨vals.scanl h x, e⟩ := by
  refine ⟨semAcc_total g h hg vals e z, ?_⟩
  simp only [sem, semAcc, semAcc_total g h hg vals e x, Strm.cons]
  cases vals with
  | nil => rfl
  | cons w r => simp [List.scanl_cons]

/-- `buffer n` and `peek` are the identity; `parmap f` without flags is `map f` -/
theorem C03_law_identity (n : Nat) (f : Val → Res) (c : Nat) (s : Strm) :
    sem (.buffer n) s = s ∧ sem .peek s = s ∧ sem (.parmap f c false false) s = sem (.map f) s :=
  ⟨rfl, rfl, semParmap_plain f s.vals s.err⟩

/-! ### non-vacuity -/

/-- a concrete run: `range(7).map(+1).batch(3).unbatch().head(4)` consumed to exhaustion -/
example :
    let ops : List Op := [.map (Fn.eval (.add 1)), .batch 3, .unbatch, .head 4]
    let vals : List Val := [.int 0, .int 1, .int 2, .int 3, .int 4, .int 5, .int 6]
    let r := takeK 50 9 (build ops) (World.init vals Option.none [])
    r.1 = [.int 1, .int 2, .int 3, .int 4] ∧ r.2.1 = some .done ∧ r.2.2.2.src.pulled = 6 ∧
    semAll ops ⟨vals, Option.none⟩ = ⟨[.int 1, .int 2, .int 3, .int 4], Option.none⟩ := by
  decide

/-- errors are positional: `map(raise on multiples of 3).head(2)` over `1,2,3` (and a source that
    would fail after that) delivers `1, 2`; then `head` pulls the third element to find out that it
    is done, `map` raises on it, and that error is what the consumer gets (the code's behaviour,
    see `sem (.head n)`); the source's own error is never reached -/
example :
    let ops : List Op := [.map (Fn.eval (.raiseIfMul 3 1)), .head 2]
    let vals : List Val := [.int 1, .int 2, .int 3]
    semAll ops ⟨vals, some ⟨2, 0⟩⟩ = ⟨[.int 1, .int 2], some ⟨1, 3⟩⟩ ∧
    (takeK 50 5 (build ops) (World.init vals (some ⟨2, 0⟩) [])).2.1 = some (.err ⟨1, 3⟩) := by
  decide

/-- the incremental bound is attained: `buffer(1).map(+1).head(5)` over 12 elements with the
    always-prefetch oracle has pulled 9 = 5 handed + (3 + 0 + 1) when the consumer sees the end -/
example :
    let ops : List Op := [.buffer 1, .map (Fn.eval (.add 1)), .head 5]
    let vals : List Val := (List.range 12).map (fun (i : Nat) => Val.int i)
    let r := takeK 100 6 (build ops) (World.init vals Option.none (List.replicate 40 true))
    (∀ op ∈ ops, op.oneOne = true) ∧ r.1.length = 5 ∧ r.2.1 = some .done ∧
    r.2.2.2.src.pulled = 9 ∧ slackAll ops = 4 := by
  decide

end Pipeline
