import MpsVerif.Proofs.ServletLift
/-!
# C04 — a failing request fails alone, with its original error: the servlet-tree layer

Same model as C02 (`Model/Servlet.lean`).  A failure is a value `Val.exc tag payload` returned by
`preprocess`, by `call` (for one element or, batched, for the whole batch) or produced by an
ensemble (`EnsembleError` = tag 0).  All theorems hold for every action list of the node models
(every interleaving, batch formation, completion order) and every worker spec / failure plan.

`C04_original_type`: in the model an exception value is never rebuilt on its way — what reaches
the output queue is the very value produced at the failure site (`pre x`, `f (pre x)`, the batch
error) or the value that entered; that wrapping in `RemoteException` and unwrapping in
`Server._gather_output` preserve class, args and the traceback (as text across a process
boundary) is C15's theorem (`Props/C15.lean`, RemoteExc model) and is not re-proved here; the
monitor checks class / args / failure-site frame on every run of the real code.
-/
namespace Servlet

/-- **isolation**: under a node contract and distinct uids, the outcome delivered for request `u`
    is an allowed outcome of its OWN input; when the denotation is deterministic for that input
    (no fail-fast ensemble and no failing batched call on its path: `o x = [r]`) it IS `r`, whatever
    the other requests, their failures, the schedule -/
theorem C04_isolated {o : Val → List Val} {recv : List Msg} {sentG : List GMsg}
    (h : Contract o recv sentG) (hn : (recv.map (·.1)).Nodup) (u : Nat) (x y : Val)
    (hx : (u, x) ∈ recv) (hy : (u, y) ∈ sentG.map gmsg) :
    y ∈ o x ∧ ∀ r, o x = [r] → y = r := by
  have := h.no_crosstalk hn u x y hx hy
  exact ⟨this, fun r hr => by rw [hr] at this; simpa using this⟩

/-- **isolation, whole tree**: in every behaviour of every concrete servlet tree with distinct input
    uids, the outcome of the request that entered as `(u, x)` is an allowed outcome of `x` alone; if
    the denotation is deterministic for `x` (`outs t x = [r]`: no fail-fast ensemble and no failing
    batched call on its path) it is `r` — whatever the other requests are, whether they fail, and
    whatever the schedule -/
theorem C04_isolated_tree (t : Tree) (hw : WF t) (σ : List Ev) (htr : Tr t σ) (hd : DistinctIn σ)
    (u : Nat) (x y : Val) (hx : Ev.inp (u, x) ∈ σ) (hy : Ev.out (u, y) ∈ σ) :
    y ∈ outs t x ∧ ∀ r, outs t x = [r] → y = r := by
  have hs := tree_sat t hw σ htr hd
  obtain ⟨x', h1, h2⟩ := hs.out_mem u y hy
  have : x' = x := fst_unique hd (mem_filterMap_inpOf.mpr h1) (mem_filterMap_inpOf.mpr hx)
  subst this
  exact ⟨h2, fun r hr => by rw [hr] at h2; simpa using h2⟩

/-- **the outcome is a function of the request's own input** for every tree without fail-fast
    ensembles and without batched workers that may fail as a whole (`Det t`): in every behaviour of
    the concrete tree, whatever else is in flight, request `(u, x)` is answered with THE value
    `r` determined by `t` and `x` alone -/
theorem C04_deterministic_tree (t : Tree) (hw : WF t) (hdet : Det t) (σ : List Ev) (htr : Tr t σ)
    (hd : DistinctIn σ) (u : Nat) (x y : Val) (hx : Ev.inp (u, x) ∈ σ) (hy : Ev.out (u, y) ∈ σ) :
    ∃ r, outs t x = [r] ∧ y = r := by
  obtain ⟨r, hr⟩ := outs_det t hdet x
  exact ⟨r, hr, (C04_isolated_tree t hw σ htr hd u x y hx hy).2 r hr⟩

/-- **an innocent request does not fail**: if no allowed outcome of `x` is an exception (no
    failure site on any path `x` can take through `t`), the request is never answered with an
    exception — other requests' failures cannot reach it -/
theorem C04_innocent_tree (t : Tree) (hw : WF t) (σ : List Ev) (htr : Tr t σ) (hd : DistinctIn σ)
    (u : Nat) (x y : Val) (hx : Ev.inp (u, x) ∈ σ) (hy : Ev.out (u, y) ∈ σ)
    (hin : ∀ r ∈ outs t x, r.isExc = false) : y.isExc = false :=
  hin y (C04_isolated_tree t hw σ htr hd u x y hx hy).1

/-- a request whose own path has no failure is never answered with an exception because of others:
    for a simple servlet, an exception outcome is the request's own input exception, its own
    `preprocess` / `call` failure, or the failure of the batched call it was part of -/
theorem C04_isolated_worker (w : WSpec) (hb : Wk.BerrsOk w) (as : List Wk.Act) (s : Wk.State)
    (hr : Core.run (Wk.step w) Wk.init as = some s) :
    ∀ t ∈ s.sentG, t.2.2 = t.2.1 ∨ t.2.2 = w.pre t.2.1 ∨ t.2.2 = w.f (w.pre t.2.1) ∨
      (w.bs ≠ 0 ∧ t.2.2 ∈ w.berrs) := by
  intro t ht
  have := ((Wk.contract w hb as s hr).1.own t ht).2
  unfold wouts at this
  split at this
  · exact Or.inl (by simpa using this)
  · split at this
    · exact Or.inr (Or.inl (by simpa using this))
    · split at this
      · exact Or.inr (Or.inr (Or.inl (by simpa using this)))
      · rename_i hbs
        rcases List.mem_cons.mp this with h1 | h1
        · exact Or.inr (Or.inr (Or.inl h1))
        · exact Or.inr (Or.inr (Or.inr ⟨hbs, h1⟩))

/-- **exception short-circuit (denotation)**: an exception value entering any servlet tree is its
    own and only outcome -/
theorem C04_shortcircuit (t : Tree) (x : Val) (h : x.isExc = true) : outs t x = [x] :=
  outs_exc t x h

/-- **exception short-circuit (operational), simple servlet**: `call` is never invoked on an
    exception value (not even inside a batch), every call gets 1 … max(1, batch_size) elements, at
    most `nw` calls run at once, and an exception taken from `q_in` is forwarded unchanged -/
theorem C04_shortcircuit_worker (w : WSpec) (hb : Wk.BerrsOk w) (as : List Wk.Act) (s : Wk.State)
    (hr : Core.run (Wk.step w) Wk.init as = some s) :
    (∀ c ∈ s.calls, c ≠ [] ∧ c.length ≤ max 1 w.bs ∧ ∀ v ∈ c, v.isExc = false) ∧
    s.busy.length ≤ w.nw ∧
    (∀ t ∈ s.sentG, t.2.1.isExc = true → t.2.2 = t.2.1) := by
  have h := (Wk.inv_reach w hb as s hr).1
  refine ⟨h.call, h.conc, ?_⟩
  intro t ht hx
  have := h.good t (List.mem_append_left _ ht)
  rw [wouts_exc w _ hx] at this
  simpa using this

/-- … switch: `switch` is never called on an exception value … -/
theorem C04_shortcircuit_switch (ms : List (Val → List Val)) (sel : Val → Nat) (as : List Sw.Act)
    (s : Sw.State) (hr : Core.run (Sw.step ms sel) Sw.init as = some s) :
    (∀ v ∈ s.switched, v.isExc = false) ∧ (∀ p ∈ s.pend, p.2.2.isExc = false) := by
  have h := Sw.inv_run ms sel as s hr
  exact ⟨h.sw, fun p hp => (h.pok p hp).2.1⟩

/-- … ensemble: an exception value is never handed to a member -/
theorem C04_shortcircuit_ensemble (ms : List (Val → List Val)) (ff : Bool) (hpos : 0 < ms.length)
    (as : List Ens.Act) (s : Ens.State) (hr : Core.run (Ens.step ms ff) Ens.init as = some s)
    (hn : (s.recv.map (·.1)).Nodup) : ∀ m ∈ s.pend, m.2.2.isExc = false :=
  fun m hm => ((Ens.inv_run hpos as s hr hn).pend m hm).2.2

/-- **ensemble rules, fail_fast**: for a non-exception input the allowed outcomes are exactly
    (a) the list of the members' results in member order when none is an exception, or
    (b) an `EnsembleError` whose result list holds member results received so far — none of them an
    exception (`p ∈ partials …`, see `mem_partials`) — plus ONE failing member result `y` at its
    member index `e` (the first exception received), with `n` = the number of results received.
    (`choices` / `partials`: one allowed outcome per member, `mem_choices` / `mem_partials`.) -/
theorem C04_ensemble_rules_failfast (ts : List Tree) (x r : Val) (hx : x.isExc = false) :
    r ∈ outs (.ens ts true) x ↔
      (∃ ys, ys ∈ choices (outsEach ts x) ∧ ys.any Val.isExc = false ∧ r = ofList ys) ∨
      (∃ p, p ∈ partials (outsEach ts x) ∧ ∃ e, e < ts.length ∧ p[e]? = some .none ∧
        ∃ y, y ∈ (outsEach ts x).getD e [] ∧ y.isExc = true ∧
          r = ensErr (p.set e (some y)) (filled p + 1)) := by
  have hl : (outsEach ts x).length = ts.length := by simp [outsEach_eq]
  simp only [outs, hx, Bool.false_eq_true, if_false]
  rw [mem_ensOuts_ff, hl]

/-- **ensemble rules, no fail_fast**: the list of ALL members' results in member order (exceptions
    included as values), replaced by an `EnsembleError` carrying that list iff all of them are
    exceptions -/
theorem C04_ensemble_rules (ts : List Tree) (x r : Val) (hx : x.isExc = false) :
    r ∈ outs (.ens ts false) x ↔
      ∃ ys, ys ∈ choices (outsEach ts x) ∧
        r = if ys.all Val.isExc then ensErr (ys.map some) ys.length else ofList ys := by
  simp only [outs, hx, Bool.false_eq_true, if_false]
  rw [mem_ensOuts_nff]; rfl

/-- **a failing batch fails exactly its members**: every finished `call` on a batch `B`
    (1 ≤ |B| ≤ max(1, batch_size), taken from the held items) produced exactly one message per
    member of `B`, under that member's uid, in order — all carrying the batch's error when the call
    raised, each carrying its own element's result otherwise (`zip(uids, results)`) — and those
    messages, nothing else, went to the output queue for that call -/
theorem C04_batch_exact (w : WSpec) (hb : Wk.BerrsOk w) (as : List Wk.Act) (s : Wk.State)
    (hr : Core.run (Wk.step w) Wk.init as = some s) :
    ∀ e ∈ s.blog, e.1 ≠ [] ∧ e.1.length ≤ max 1 w.bs ∧
      (∀ err, w.bs ≠ 0 → w.bfail (e.1.map (·.2.2)) = some err →
        e.2 = e.1.map (fun t => (t.1, t.2.1, err))) ∧
      ((w.bs = 0 ∨ w.bfail (e.1.map (·.2.2)) = .none) →
        e.2 = e.1.map (fun t => (t.1, t.2.1, w.f t.2.2))) ∧
      (∀ t ∈ e.2, t ∈ s.sentG ++ s.emitq) := by
  intro e he
  obtain ⟨h1, h2, h3, h4⟩ := (Wk.inv_reach w hb as s hr).1.blog e he
  refine ⟨h2, h3, ?_, ?_, h4⟩
  · intro err hbs hf
    rw [h1]; simp [Wk.results, hbs, hf]
  · intro hc
    rw [h1]
    rcases hc with hc | hc
    · simp [Wk.results, hc]
    · unfold Wk.results; split
      · rfl
      · simp [hc]

/-- … and only its members: a request that is neither an exception on entry nor rejected by
    `preprocess` is answered out of exactly one finished `call`, recorded in `blog` with the batch it
    was put in; its answer is its own element's result, or — batched only — the error that call
    raised on THAT batch.  So its outcome depends on its own input and on the batch it shared, on
    nothing else -/
theorem C04_batch_members_only (w : WSpec) (hb : Wk.BerrsOk w) (as : List Wk.Act) (s : Wk.State)
    (hr : Core.run (Wk.step w) Wk.init as = some s) :
    ∀ t ∈ s.sentG, t.2.1.isExc = false → (w.pre t.2.1).isExc = false →
      ∃ e ∈ s.blog, t ∈ e.2 ∧ ∃ t0 ∈ e.1, t.1 = t0.1 ∧ t.2.1 = t0.2.1 ∧
        (t.2.2 = w.f t0.2.2 ∨
         (w.bs ≠ 0 ∧ ∃ err, w.bfail (e.1.map (·.2.2)) = some err ∧ t.2.2 = err)) := by
  intro t ht hx hp
  rcases Wk.srcinv_reach w as s hr t (List.mem_append_left _ ht) with h1 | h1 | ⟨e, he, hte⟩
  · rw [hx] at h1; exact absurd h1.1 (by simp)
  · rw [hp] at h1; exact absurd h1.2.1 (by simp)
  · have h2 := ((Wk.inv_reach w hb as s hr).1.blog e he).1
    rw [h2] at hte
    obtain ⟨t0, h0, q1, q2, q3⟩ := Wk.mem_results w e.1 t hte
    exact ⟨e, he, by rw [h2]; exact hte, t0, h0, q1, q2, q3⟩

/-- **original error**: the value a simple servlet puts on its output queue for a failing request
    is the very value that entered (`x`), or the one `preprocess` / `call` / the batched call
    produced — never a rebuilt one (class and args across `RemoteException`: C15) -/
theorem C04_original_type (w : WSpec) (x y : Val) (h : y ∈ wouts w x) :
    y = x ∨ y = w.pre x ∨ y = w.f (w.pre x) ∨ y ∈ w.berrs := by
  unfold wouts at h
  split at h
  · exact Or.inl (by simpa using h)
  · split at h
    · exact Or.inr (Or.inl (by simpa using h))
    · split at h
      · exact Or.inr (Or.inr (Or.inl (by simpa using h)))
      · rcases List.mem_cons.mp h with h1 | h1
        · exact Or.inr (Or.inr (Or.inl h1))
        · exact Or.inr (Or.inr (Or.inr h1))

/-! non-vacuity: a batched servlet (batch_size 2, two workers); the batch {1, 2} fails as a whole
    because of element 2, request 3 (a batch of its own) and the exception value under uid 4 are
    unaffected -/
def wB : WSpec :=
  { pre := id, f := fun x => .cons x (.nat 9), bs := 2,
    bfail := fun B => if B.contains (.nat 2) then some (.exc 3009 .nil) else none,
    berrs := [.exc 3009 .nil], nw := 2 }

example :
    ∃ s, Core.run (Wk.step wB) Wk.init
        [.arrive (1, .nat 1), .arrive (2, .nat 2), .arrive (3, .nat 3), .arrive (4, .exc 7 .nil),
         .take, .take, .take, .take, .start [true, true, false], .start [true], .finish 1, .finish 0,
         .emit 0, .emit 0, .emit 0, .emit 0] = some s ∧
      Wk.Quiescent s ∧ s.calls = [[.nat 1, .nat 2], [.nat 3]] ∧
      s.sentG.map gmsg = [(4, .exc 7 .nil), (3, .cons (.nat 3) (.nat 9)), (1, .exc 3009 .nil), (2, .exc 3009 .nil)] := by
  refine ⟨_, rfl, ?_⟩
  decide

end Servlet
