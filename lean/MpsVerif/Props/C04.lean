import MpsVerif.Proofs.ServletWorker
/-! placeholder, filled below -/
namespace Servlet
theorem C04_worker_stub (w : WSpec) (hb : Wk.BerrsOk w) (as : List Wk.Act) (s : Wk.State)
    (hr : Core.run (Wk.step w) Wk.init as = some s) :
    ∀ t ∈ s.sentG, t.2.2 ∈ wouts w t.2.1 :=
  fun t ht => (Wk.inv_reach w hb as s hr).1.good t (List.mem_append_left _ ht)
end Servlet
