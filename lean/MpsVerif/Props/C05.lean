import MpsVerif.Proofs.FifoLive
/-!
# C05 — streams end cleanly on early stop or failure: no hang, no leak

`fifo_stream` / `parmap` part (`Buffer`: `Props/C05Buffer.lean`).  The stop position is the
`close` action (enabled after any output), failures are `preFail i`, `resErr i` and the source's
ending `srcEnd = exc`; all interleavings = all action lists; `cap ≥ 1`, `conc ≥ 1` arbitrary.
-/
namespace Fifo

/-- Every execution is finite: no action list is longer than `9·n + 9`. -/
theorem C05_fifo_terminates (c : Cfg) (as : List Act) (s : State)
    (hr : Core.run (step c) init as = some s) : as.length ≤ 9 * c.n + 9 := by
  have := Core.length_le_measure (mu c)
    (fun s a s' hs => mu_decreases c s a s' (step_sound c s s' a hs)) as init s hr
  simp [mu, init, frank, crank] at this
  omega

/-- Nothing blocks forever: in every reachable state that is not final some thread can move.
    With `C05_fifo_terminates`: every maximal execution reaches `Final` (iterator closed, feeder
    thread exited, pool idle). -/
theorem C05_fifo_progress (c : Cfg) (hcap : 1 ≤ c.cap) (hconc : 1 ≤ c.conc) (s : State)
    (hr : Reachable c s) (hnf : ¬ Final s) : ∃ a, (step c s a).isSome = true :=
  progress_of_inv c hcap hconc s (all_reachable c hr) hnf

/-- In a final state the feeder thread has exited and no call is pending or running. -/
theorem C05_fifo_clean (c : Cfg) (s : State) (hr : Reachable c s) (hf : Final s) :
    s.fpc = .done ∧ s.pending = [] ∧ s.running = [] :=
  ⟨(all_reachable c hr).ph.2.2.2.1 hf.1, hf.2.1, hf.2.2⟩

/-- The first failure in stream order reaches the consumer, after all earlier outputs:
    if the consumer was raised the exception of element `i`, it had received exactly the
    elements `0..i-1`, none of which failed, and `i` did fail. -/
theorem C05_fifo_first_failure (c : Cfg) (s : State) (hr : Reachable c s) (i : Nat)
    (hraised : s.raised = some (.item i)) :
    s.out = List.range i ∧ (∀ j < i, c.isErr j = false) ∧ c.isErr i = true ∧ i < c.n := by
  have h := all_reachable c hr
  obtain ⟨r1, r2, r3, r4, r5, r6⟩ := h.res
  obtain ⟨a1, a2, a3, a4, a5⟩ := r3 i hraised
  refine ⟨by rw [a1]; exact r1, ?_, a3, a5⟩
  intro j hj
  have hjm : j ∈ s.out := by rw [r1]; simp; omega
  rcases (r2 j hjm).2 with h' | h'
  · exact h'
  · simp [a4] at h'

/-- A failing source is reported after every element it produced has been delivered. -/
theorem C05_fifo_source_failure (c : Cfg) (s : State) (hr : Reachable c s)
    (hraised : s.raised = some .src) : s.out = List.range c.n ∧ c.srcEnd = .exc := by
  have h := all_reachable c hr
  have := h.res.2.2.2.1 hraised
  exact ⟨by rw [← this.1]; exact h.res.1, this.2⟩

/-- at most one exception is ever raised to the consumer, and then nothing more is delivered:
    once `raised` is set the consumer is no longer active -/
theorem C05_fifo_raise_once (c : Cfg) (s : State) (hr : Reachable c s) (hraised : s.raised ≠ none) :
    s.cpc.active = false := by
  have h := (all_reachable c hr).ph.2.2.1
  cases ha : s.cpc.active with
  | false => rfl
  | true => exact absurd (h ha) hraised

/-- non-vacuity: early close after the first output with a full queue ends in `Final` -/
example :
    let c : Cfg := { n := 9, srcEnd := .clean, cap := 1, conc := 1, preFail := fun _ => false,
                     resErr := fun _ => false, returnExc := false }
    ∃ s, Reachable c s ∧ Final s ∧ s.closeReq = true ∧ s.out = [0] := by
  refine ⟨_, ⟨[.pull, .fcheck, .submit, .put, .get, .pull, .fcheck, .submit, .put, .pull, .fcheck,
              .submit, .put, .pull, .fcheck, .submit, .start 0, .finish 0, .yld, .close, .setStop,
              .drainCancel, .drainCancel, .drainEmpty, .put, .pull, .stopSeen, .putEnd, .join,
              .start 3, .finish 3], rfl⟩, ?_⟩
  decide

end Fifo
