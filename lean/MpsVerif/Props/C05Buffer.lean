import MpsVerif.Proofs.BufferLive
/-!
# C05 — `buffer(n)` (and `AsyncBuffer`) ends cleanly on early stop or failure

Stop position = the `close` action (enabled after any output); failure = the source raising after
`n` elements (`srcEnd = exc`; any `Exception`, or `StopRequested`); all interleavings of worker
and consumer = all action lists; `maxsize ≥ 1` arbitrary (including 1).
-/
namespace Buffer

/-- every execution is finite: at most `6·n + 13` steps -/
theorem C05_buffer_terminates (c : Cfg) (as : List Act) (s : State)
    (hr : Core.run (step c) init as = some s) : as.length ≤ 6 * c.n + 13 := by
  have := Core.length_le_measure (mu c)
    (fun s a s' hs => mu_decreases c s a s' (step_sound c s s' a hs)) as init s hr
  simp [mu, init, wrank, crank] at this
  omega

/-- nothing blocks forever: some thread can move in every reachable non-final state -/
theorem C05_buffer_progress (c : Cfg) (hms : 1 ≤ c.maxsize) (s : State) (hr : Reachable c s)
    (hnf : ¬ Final s) : ∃ a, (step c s a).isSome = true :=
  progress_of_inv c hms s (all_reachable c hr) hnf

/-- when the iterator is closed the worker thread has exited -/
theorem C05_buffer_clean (c : Cfg) (s : State) (hr : Reachable c s) (hf : Final s) : s.wpc = .done :=
  (all_reachable c hr).ph.2.2.2.1 hf

/-- a failing source is reported exactly after every element it produced was delivered, in order -/
theorem C05_buffer_source_failure (c : Cfg) (s : State) (hr : Reachable c s) (hraised : s.raised = true) :
    s.out = List.range c.n ∧ c.srcEnd = .exc := by
  have h := all_reachable c hr
  have := h.res.2.1 hraised
  exact ⟨by rw [← this.1]; exact h.res.1, this.2⟩

/-- the exception is raised at most once and nothing is delivered after it -/
theorem C05_buffer_raise_once (c : Cfg) (s : State) (hr : Reachable c s) (hraised : s.raised = true) :
    s.cpc.iter = false := by
  have h := (all_reachable c hr).ph.2.1
  cases ha : s.cpc.iter with
  | false => rfl
  | true => have := (h ha).1; simp [hraised] at this

/-- list meaning of `buffer` (used by C03): outputs are the source's elements in order, and a run
    that ended without early close or failure delivered all of them -/
theorem C03_buffer_identity (c : Cfg) (s : State) (hr : Reachable c s) :
    s.out = List.range s.out.length ∧
    (s.cpc = .closed → s.raised = false → s.closeReq = false → s.out = List.range c.n) := by
  have h := all_reachable c hr
  refine ⟨h.res.1, ?_⟩
  intro hc hnr hncl
  rcases h.res.2.2.2.2 (Or.inr (Or.inr hc)) with h1 | h1 | h1
  · simp [hnr] at h1
  · have := h.res.2.2.1 h1; rw [← this.1]; exact h.res.1
  · simp [hncl] at h1

/-- non-vacuity: `buffer(1)`, early close after the first output while the worker holds the next
    element and the queue is full — the run reaches `Final` -/
example :
    let c : Cfg := { n := 9, srcEnd := .clean, maxsize := 1 }
    ∃ s, Reachable c s ∧ Final s ∧ s.closeReq = true ∧ s.out = [0] := by
  refine ⟨_, ⟨[.pull, .wcheck, .put, .get, .pull, .wcheck, .put, .pull, .wcheck, .yld, .close, .setFlag,
              .drainPop, .put, .pull, .stopSeen, .drainPop, .putFin, .joined], rfl⟩, ?_⟩
  decide

end Buffer
