import MpsVerif.Proofs.LedgerRes
/-!
# C06 — backlog never exceeds capacity; slots are always returned

Model: `Model/Ledger.lean` (callers, condition variable, ledger, abstract servlet box, gather and
notifier threads).  `Reachable c callers s` quantifies over every action list, i.e. every
interleaving of any number of callers (each with its own backpressure flag), the gather thread,
the notifier and the servlet's completion order, with wait time-outs and deadline expiries
(`timeoutWait`, `expire`, `cancel`) possible at every moment.
-/
namespace Ledger

/-- the backlog (size of the ledger) never exceeds the capacity -/
theorem C06_bound (c : Cfg) (callers : List Caller) (hn : AllNew callers) (s : State)
    (hr : Reachable c callers s) : s.ledger.length ≤ c.cap :=
  (all_reachable c callers hn hr).lock.2.2.2

/-- a rejection (immediate under backpressure, or after the wait ran out of time) leaves no
    trace: ledger, input side and output side are untouched, the lock is free again -/
theorem C06_reject_clean (c : Cfg) (s s' : State) (r : Nat)
    (h : step c s (.reject r) = some s' ∨ step c s (.noTime r) = some s' ∨ step c s (.giveUp r) = some s') :
    s'.ledger = s.ledger ∧ s'.inflight = s.inflight ∧ s'.outq = s.outq ∧ s'.nextUid = s.nextUid ∧
    (s'.get r).pc = .done .full := by
  rcases h with h | h | h
  · cases step_sound c s s' _ h with
    | reject hp hfull hbp =>
      have hlt := lt_of_pc_ne_new s r (by rw [hp]; simp)
      refine ⟨rfl, rfl, rfl, rfl, ?_⟩
      rw [get_upd _ s r r _ rfl hlt]; simp
  · cases step_sound c s s' _ h with
    | noTime hp hfull hbp =>
      have hlt := lt_of_pc_ne_new s r (by rw [hp]; simp)
      refine ⟨rfl, rfl, rfl, rfl, ?_⟩
      rw [get_upd _ s r r _ rfl hlt]; simp
  · cases step_sound c s s' _ h with
    | giveUp hp hl =>
      have hlt := lt_of_pc_ne_new s r (by rw [hp]; simp)
      refine ⟨rfl, rfl, rfl, rfl, ?_⟩
      rw [get_upd _ s r r _ rfl hlt]; simp

/-- under backpressure a caller that finds the server full is rejected at once: from `inCS` with a
    full ledger the only enabled action of that caller is `reject` (it can never enter the wait) -/
theorem C06_backpressure_never_waits (c : Cfg) (s s' : State) (r : Nat) (hbp : (s.get r).bp = true)
    (h : step c s (.wait r) = some s') : False := by
  cases step_sound c s s' _ h with
  | wait hp hfull hbp' => rw [hbp] at hbp'; simp at hbp'

/-- every ledger entry belongs to a request that is in flight (inside the pipeline or on the
    output queue) or whose input is just being handed over; no response is ever dropped -/
theorem C06_entries_in_flight (c : Cfg) (callers : List Caller) (hn : AllNew callers) (s : State)
    (hr : Reachable c callers s) :
    (∀ e ∈ s.ledger, e ∈ s.inflight ∨ e ∈ s.outq ∨ (s.get e.2).pc = .ledgered) ∧ s.dropped = [] :=
  ⟨(all_reachable c callers hn hr).cons.2.2.2.2.1, (all_reachable c callers hn hr).cons.2.2.2.2.2.1⟩

/-- slots are always returned: when nothing is in flight any more the backlog is zero, whatever
    mix of successes, rejections, time-outs and cancellations happened before -/
theorem C06_slots_returned (c : Cfg) (callers : List Caller) (hn : AllNew callers) (s : State)
    (hr : Reachable c callers s) (hi : s.inflight = []) (ho : s.outq = [])
    (hl : ∀ r, (s.get r).pc ≠ .ledgered) : s.ledger = [] := by
  have h := (C06_entries_in_flight c callers hn s hr).1
  cases hled : s.ledger with
  | nil => rfl
  | cons e rest =>
    have := h e (by rw [hled]; simp)
    rw [hi, ho] at this
    rcases this with a | a | a
    · simp at a
    · simp at a
    · exact absurd a (hl e.2)

/-- a waiting caller can always leave the wait through its timer (time itself is not modelled:
    that the wait is no longer than the request's timeout is evaluated on the real code by the
    check's timed-wait accounting) -/
theorem C06_wait_can_end_partial (c : Cfg) (s : State) (r : Nat) (h : (s.get r).pc = .waiting) :
    (step c s (.timeoutWait r)).isSome = true := by
  simp [step, h]

/-- non-vacuity: capacity 1, two callers — the first is accepted (backlog = capacity), the second
    is rejected under backpressure -/
example :
    let c : Cfg := { cap := 1, guardSet := true }
    let callers : List Caller := [{}, {}]
    ∃ s, Reachable c callers s ∧ s.ledger.length = c.cap ∧ (s.get 1).pc = .done .full := by
  refine ⟨_, ⟨[.mint 0, .acquire 0, .testPass 0, .insert 0, .enqueue 0, .mint 1, .acquire 1, .reject 1], rfl⟩, ?_⟩
  decide

/-- the state after caller `r` (not yet started) has been accepted -/
def accepted (s : State) (r : Nat) : State :=
  { s with callers := s.callers.set r { pc := .pending, uid := some s.nextUid, fut := .pending, bp := true },
           nextUid := s.nextUid + 1, ledger := s.ledger ++ [(s.nextUid, r)],
           inflight := s.inflight ++ [(s.nextUid, r)], lock := none }

/-- one more caller is accepted: from a state with the lock free, room in the ledger and caller `r` not yet
    started, the five steps `mint, acquire, testPass, insert, enqueue` of `r` are enabled in a row -/
theorem accept_one (c : Cfg) (s : State) (r : Nat) (hl : s.lock = none) (hr : r < s.callers.length)
    (hnew : s.get r = {}) (hroom : s.ledger.length < c.cap) :
    Core.run (step c) s [.mint r, .acquire r, .testPass r, .insert r, .enqueue r] = some (accepted s r) := by
  have h2 : s.callers[r] = {} := by simpa [State.get, hr] using hnew
  simp [Core.run, step, hr, hl, hroom, State.set, State.get, h2, accepted]

theorem fill_reachable (c : Cfg) (k : Nat) (hk : k ≤ c.cap) :
    ∃ s, Reachable c (List.replicate c.cap {}) s ∧ s.lock = none ∧ s.ledger.length = k ∧
      s.callers.length = c.cap ∧ ∀ r, k ≤ r → s.get r = {} := by
  induction k with
  | zero =>
    refine ⟨init (List.replicate c.cap {}), Core.Reach.refl _ _, rfl, rfl, by simp [init], ?_⟩
    intro r _
    simp [State.get, init, List.getD_eq_getElem?_getD, List.getElem?_replicate]
    split <;> rfl
  | succ k ih =>
    obtain ⟨s, ⟨as, has⟩, hl, hlen, hcl, hnew⟩ := ih (by omega)
    have hstep := accept_one c s k hl (by omega) (hnew k (Nat.le_refl _)) (by omega)
    refine ⟨accepted s k, ⟨as ++ [.mint k, .acquire k, .testPass k, .insert k, .enqueue k], ?_⟩, rfl, ?_, ?_, ?_⟩
    · rw [Core.run_append, has]; exact hstep
    · simp [accepted, hlen]
    · simp [accepted, hcl]
    · intro r hr
      have := hnew r (by omega)
      unfold State.get at this ⊢
      simp only [accepted]
      rw [getD_set]
      have hne : ¬ (k = r ∧ k < s.callers.length) := by omega
      rw [if_neg hne]; exact this

/-- **C06, tightness for every capacity**: the bound of `C06_bound` is attained — with `cap` callers the
    backlog reaches exactly `cap` (each caller accepted in turn), for every `cap`; the non-vacuity `example`
    below shows one instance together with the rejection of the next caller. -/
theorem C06_bound_attained (c : Cfg) :
    ∃ s, Reachable c (List.replicate c.cap {}) s ∧ s.ledger.length = c.cap := by
  obtain ⟨s, hr, _, hlen, _⟩ := fill_reachable c c.cap (Nat.le_refl _)
  exact ⟨s, hr, hlen⟩

end Ledger
