import MpsVerif.Proofs.LedgerRes
/-!
# C07 — an abandoned request (timeout, dropped stream) never harms the server

In the ledger model a pending request's deadline may expire at **any** moment (`expire r`,
then `cancel r`), in particular between the gather thread's `cancelled()` test (`gcheck`) and its
`set_result` (`gset`).  All theorems below, and those of C06 / C02, hold for every reachable state,
i.e. in the presence of arbitrary abandonments.
-/
namespace Ledger

/-- the gather thread never dies (repaired code: `guardSet = true`) -/
theorem C07_gather_alive (c : Cfg) (hg : c.guardSet = true) (callers : List Caller) (hn : AllNew callers)
    (s : State) (hr : Reachable c callers s) : s.gpc ≠ .dead :=
  (all_reachable c callers hn hr).res.2.2.2 hg

/-- the abandoning caller gets its own `TimeoutError`, and a request that ended (any outcome)
    keeps that outcome: a late result is discarded, never delivered -/
theorem C07_outcome_final (c : Cfg) (s s' : State) (a : Act) (r : Nat) (o : Outcome)
    (hd : (s.get r).pc = .done o) (hs : step c s a = some s') : (s'.get r).pc = .done o := by
  have hst := step_sound c s s' a hs
  cases hst
  case gsetOk dst src _ _ =>
    by_cases hlt : dst < s.callers.length
    · rw [get_upd _ s dst r _ rfl hlt]; split
      · rename_i he; subst he; exact hd
      · exact hd
    · rw [get_upd_ge _ s dst r _ rfl hlt]; exact hd
  case mint r0 hlt hp =>
    rw [get_upd _ s r0 r _ rfl hlt]; split
    · rename_i he; subst he; rw [hp] at hd; simp at hd
    · exact hd
  all_goals first
    | exact hd
    | (have hp := ‹(s.get _).pc = _›
       have hlt := lt_of_pc_ne_new s _ (by rw [hp]; simp)
       rw [get_upd _ s _ r _ rfl hlt]; split
       · rename_i he; subst he; rw [hp] at hd; simp at hd
       · exact hd)

/-- a cancelled future is never resolved afterwards (the late result is discarded) -/
theorem C07_cancelled_stays (c : Cfg) (s s' : State) (a : Act) (r : Nat)
    (hf : (s.get r).fut = .cancelled) (hs : step c s a = some s') : (s'.get r).fut = .cancelled := by
  have hst := step_sound c s s' a hs
  cases hst
  case gsetOk dst src _ hfd =>
    by_cases hlt : dst < s.callers.length
    · rw [get_upd _ s dst r _ rfl hlt]; split
      · rename_i he; subst he; rw [hf] at hfd; simp at hfd
      · exact hf
    · rw [get_upd_ge _ s dst r _ rfl hlt]; exact hf
  case mint r0 hlt hp =>
    rw [get_upd _ s r0 r _ rfl hlt]; split
    · rename_i he; subst he; exact hf
    · exact hf
  case cancelPending r0 hp hfp =>
    have hlt := lt_of_pc_ne_new s r0 (by rw [hp]; simp)
    rw [get_upd _ s r0 r _ rfl hlt]; split
    · rfl
    · exact hf
  all_goals first
    | exact hf
    | (have hp := ‹(s.get _).pc = _›
       have hlt := lt_of_pc_ne_new s _ (by rw [hp]; simp)
       rw [get_upd _ s _ r _ rfl hlt]; split
       · rename_i he; subst he; exact hf
       · exact hf)

/-- the slot of an abandoned request is returned like any other: its ledger entry is removed when
    its (discarded) result is gathered — `pop` removes the entry before looking at the future -/
theorem C07_slot_of_abandoned_returned (c : Cfg) (callers : List Caller) (hn : AllNew callers) (s : State)
    (hr : Reachable c callers s) (hi : s.inflight = []) (ho : s.outq = [])
    (hl : ∀ r, (s.get r).pc ≠ .ledgered) : s.ledger = [] := by
  have h := (all_reachable c callers hn hr).cons.2.2.2.2.1
  cases hled : s.ledger with
  | nil => rfl
  | cons e rest =>
    have := h e (by rw [hled]; simp)
    rw [hi, ho] at this
    rcases this with a | a | a
    · simp at a
    · simp at a
    · exact absurd a (hl e.2)

/-- non-vacuity, and the race itself: the deadline expires between the gather thread's
    `cancelled()` test and its `set_result`; the repaired server survives … -/
example :
    let c : Cfg := { cap := 2, guardSet := true }
    ∃ s, Reachable c [{}] s ∧ (s.get 0).pc = .done .timeout ∧ s.gpc = .idle ∧ s.ledger = [] := by
  refine ⟨_, ⟨[.mint 0, .acquire 0, .testPass 0, .insert 0, .enqueue 0, .emit 0 0, .pop 0 0, .gcheck,
              .expire 0, .cancel 0, .gset], rfl⟩, ?_⟩
  decide

/-- … whereas without the guard (the pinned code, finding F5) the same schedule kills the gather
    thread -/
example :
    let c : Cfg := { cap := 2, guardSet := false }
    ∃ s, Reachable c [{}] s ∧ s.gpc = .dead := by
  refine ⟨_, ⟨[.mint 0, .acquire 0, .testPass 0, .insert 0, .enqueue 0, .emit 0 0, .pop 0 0, .gcheck,
              .expire 0, .cancel 0, .gset], rfl⟩, ?_⟩
  decide

end Ledger
