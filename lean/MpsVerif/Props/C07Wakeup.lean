import MpsVerif.Proofs.WakeupInv
/-!
# C07 / C06 — a caller that gives up waiting for room never costs another caller its wake-up

`Model/Wakeup.lean`: the "wait for room" protocol of `Server._enqueue` / `AsyncServer._enqueue` with ONE
notification per freed slot and the condition variables as they are in the interpreter's library (a `notify()` may
reach a waiter that has already timed out).  A request that times out while waiting for room is an abandoned
request in the sense of C07; "every other pending or later request is still answered" requires that a caller
waiting for room (no backpressure) is never left waiting in front of a server that has room.

* `C07_wakeup_under_way`, `C07_no_caller_left_waiting_for_room`, `C07_bookkeeping_terminates`: the repaired code
  (`passOn = true`, /repo 8b5ca7e), every reachable state, every schedule, every number of callers.
* `C07_pinned_loses_wakeup_threading`, `C07_pinned_loses_wakeup_asyncio`: the pinned code (`passOn = false`)
  reaches a state at rest in which a caller waits although the server is empty (finding F44) — kernel-checked
  witnesses, one per flavour of condition variable.
-/
namespace Wakeup
open Core

/-- reachable states of the repaired protocol satisfy the invariant -/
theorem reachable_inv (c : Cfg) (hp : c.passOn = true) (s : State) (hr : Reach (step c) init s) : Inv c s :=
  invariant_reach (fun s a s' hi hs => inv_step c hp s s' a hi hs) (inv_init c) hr

/-- **No wake-up is lost.**  Whenever the server has room while a caller is parked waiting for room, a wake-up is still
    under way: a result whose notification is about to be queued, a queued notification, a caller that holds a
    notification, or a leaving caller that is about to pass one on. -/
theorem C07_wakeup_under_way (c : Cfg) (hp : c.passOn = true) (s : State) (hr : Reach (step c) init s)
    (hroom : s.n < c.cap) (hwait : 0 < s.w) : 0 < s.g + s.t + s.nt + s.nx + s.p := by
  have := (reachable_inv c hp s hr).2 hwait
  omega

/-- the backlog never exceeds the capacity (C06, in this model too) -/
theorem C06_wakeup_backlog_le_cap (c : Cfg) (hp : c.passOn = true) (s : State) (hr : Reach (step c) init s) :
    s.n ≤ c.cap :=
  (reachable_inv c hp s hr).1

/-- **Nobody is left waiting in front of a server with room.**  When the server's own bookkeeping has come to rest
    (no internal action is enabled), a caller still parked in `wait` faces a full server. -/
theorem C07_no_caller_left_waiting_for_room (c : Cfg) (hp : c.passOn = true) (s : State)
    (hr : Reach (step c) init s) (hq : ∀ a, istep c s a = none) (hw : 0 < s.w) : s.n = c.cap := by
  obtain ⟨hg, ht, hnt, hnx, hpz, hx⟩ := (quiescent_iff c s).2 hq
  obtain ⟨hn, h⟩ := reachable_inv c hp s hr
  have := h (by omega)
  omega

/-- **The bookkeeping does come to rest**: without outside events (new callers, results, timers) at most `mu s`
    internal actions can follow one another from `s`, whatever the schedule. -/
theorem C07_bookkeeping_terminates (c : Cfg) (s s' : State) (as : List Act)
    (hr : run (istep c) s as = some s') : as.length ≤ mu s := by
  have := length_le_measure mu (fun s a s' => internal_decreases c s s' a) as s s' hr
  omega

/-- non-vacuity: a reachable state of the repaired protocol with room, a parked caller and a wake-up under way -/
example : ∃ s, Reach (step { cap := 1 }) init s ∧ s.n < 1 ∧ 0 < s.w ∧ 0 < s.nt :=
  ⟨{ n := 0, w := 1, nt := 1 }, ⟨[.take, .park, .park, .pop, .post, .notify .w], by decide⟩, by decide, by decide, by decide⟩

/-- the race itself is reachable in the repaired protocol, and it ends with the other caller woken:
    `notify` hits the expired waiter, which passes the notification on -/
example : run (step { cap := 1 }) init
    [.take, .park, .park, .pop, .post, .expire, .notify .x, .leaveWait true, .passOn .w, .wokenTake]
    = some { n := 1 } := by decide

/-- **Pinned code, threading flavour (F44).**  Capacity 1; request 0 in service; callers A and B wait for room; the
    result emerges; A's timed wait expires; `notify()` picks A (still in the list); A leaves with
    `ServerBacklogFull`.  At rest: the server is empty and B is still parked — until its own timeout. -/
theorem C07_pinned_loses_wakeup_threading :
    ∃ as s, run (step { cap := 1, passOn := false }) init as = some s ∧
      Quiescent s ∧ 0 < s.w ∧ s.n < 1 :=
  ⟨[.take, .park, .park, .pop, .post, .expire, .notify .x, .leaveWait true, .giveUp], { n := 0, w := 1 },
    by decide, by decide, by decide, by decide⟩

/-- **Pinned code, asyncio flavour (F44, Python < 3.12.2).**  The same with `notify()` resolving A's waiter future
    and A's time-out cancelling the task before it runs. -/
theorem C07_pinned_loses_wakeup_asyncio :
    ∃ as s, run (step { cap := 1, passOn := false }) init as = some s ∧
      Quiescent s ∧ 0 < s.w ∧ s.n < 1 :=
  ⟨[.take, .park, .park, .pop, .post, .notify .w, .raceFire, .leaveWait true, .giveUp], { n := 0, w := 1 },
    by decide, by decide, by decide, by decide⟩

end Wakeup
