import MpsVerif.Proofs.FifoLive
/-!
# C08 — bounded look-ahead and bounded concurrency

`fifo_stream` / `parmap` part (the `buffer(n)` part is in `Props/C08Buffer.lean`).
For every configuration (`cap`, `conc`, stream length `n`, failure plan, flags) and every
schedule (`Reachable` quantifies over all action lists):
-/
namespace Fifo

/-- source elements pulled but not yet handed to the consumer (as an output, or as the exception
    raised in its place) never exceed `capacity + 3`. -/
theorem C08_fifo_lookahead (c : Cfg) (s : State) (hr : Reachable c s) :
    s.pulled - handed s ≤ c.cap + 3 := by
  have h := all_reachable c hr
  obtain ⟨k1, k2, k3⟩ := h.cnt
  have hq := qidx_length_le s.queue
  have hf := fHold_le s.fpc
  have hc := cHold_le s.cpc
  cases hcp : s.cpc with
  | idle => have := k2 (Or.inl (by simp [hcp, CPc.active])); omega
  | wait i => have := k2 (Or.inl (by simp [hcp, CPc.active])); omega
  | susp => have := k2 (Or.inl (by simp [hcp, CPc.active])); omega
  | stopping => have := k2 (Or.inr hcp); omega
  | drain => have := k3 (Or.inl hcp); omega
  | join => have := k3 (Or.inr (Or.inl hcp)); omega
  | closed => have := k3 (Or.inr (Or.inr hcp)); omega

/-- `Parmapper` instantiates `capacity = 2 * concurrency`. -/
theorem C08_parmap_lookahead (c : Cfg) (hcap : c.cap = 2 * c.conc) (s : State) (hr : Reachable c s) :
    s.pulled - handed s ≤ 2 * c.conc + 3 := by
  have := C08_fifo_lookahead c s hr; omega

/-- the hand-off queue never holds more than `capacity + 1` entries -/
theorem C08_fifo_queue_bound (c : Cfg) (s : State) (hr : Reachable c s) :
    s.queue.length ≤ c.cap + 1 := (all_reachable c hr).cnt.1

/-- no more than `concurrency` invocations of the worker function are running
    (given a pool that starts a call only when fewer than `conc` are running — the stdlib
    executor's contract, the `start` guard of the model) -/
theorem C08_concurrency (c : Cfg) (s : State) (hr : Reachable c s) :
    s.running.length ≤ c.conc := (all_reachable c hr).pool.2.2.2.2.2.2.2

/-- independent of the pool's own limit: running calls never exceed the look-ahead bound -/
theorem C08_running_le_lookahead (c : Cfg) (s : State) (hr : Reachable c s) :
    ∀ j ∈ s.running, j < s.pulled := by
  intro j hj
  have := (all_reachable c hr).pool.2.2.1 j (Or.inr (Or.inl hj))
  omega

/-- non-vacuity: a reachable state in which the bound is attained
    (cap = 1, conc = 1, five elements: the consumer waits on element 0, two are queued, one is held) -/
example :
    let c : Cfg := { n := 5, srcEnd := .clean, cap := 1, conc := 1, preFail := fun _ => false,
                     resErr := fun _ => false, returnExc := false }
    ∃ s, Reachable c s ∧ s.pulled - handed s = c.cap + 3 := by
  refine ⟨_, ⟨[.pull, .fcheck, .submit, .put, .get, .pull, .fcheck, .submit, .put,
              .pull, .fcheck, .submit, .put, .pull, .fcheck, .submit], rfl⟩, ?_⟩
  decide

/-- the filling state: the consumer waits on element 0 (taken off the queue), `k` elements queued,
    every pulled element submitted to the pool and none started -/
def fillState (k : Nat) : State :=
  { pulled := 1 + k, fpc := .idle, queue := (List.range k).map (fun j => QItem.item (j + 1)),
    toStop := false, cpc := .wait 0, out := [], raised := none, closeReq := false,
    pending := List.range (1 + k), running := [], finished := [], cancelled := [], calls := [] }

theorem fill_reachable (c : Cfg) (hp : ∀ i, c.preFail i = false) (k : Nat) (hk : k ≤ c.cap + 1)
    (hn : 1 + k ≤ c.n) : Reachable c (fillState k) := by
  induction k with
  | zero =>
    refine ⟨[.pull, .fcheck, .submit, .put, .get], ?_⟩
    have h0 : 0 < c.n := by omega
    simp [Core.run, step, init, fillState, h0, hp]
  | succ k ih =>
    have hr := ih (by omega) (by omega)
    have h1 : Core.Reach (step c) init
        { fillState k with fpc := .check (1 + k), pulled := 1 + k + 1 } :=
      Core.Reach.tail hr (a := .pull) (by
        have : 1 + k < c.n := by omega
        simp [step, fillState, this])
    have h2 : Core.Reach (step c) init
        { fillState k with fpc := .sub (1 + k), pulled := 1 + k + 1 } :=
      Core.Reach.tail h1 (a := .fcheck) (by simp [step, fillState])
    have h3 : Core.Reach (step c) init
        { fillState k with fpc := .hold (1 + k), pulled := 1 + k + 1,
                           pending := List.range (1 + k) ++ [1 + k] } :=
      Core.Reach.tail h2 (a := .submit) (by simp [step, fillState, hp])
    have h4 := Core.Reach.tail h3 (a := .put) (s2 := fillState (k + 1)) (by
      have : k < c.cap + 1 := by omega
      simp [step, fillState, this, List.range_succ]
      refine ⟨by omega, by omega, ?_⟩
      rw [show 1 + (k + 1) = (1 + k) + 1 by omega, List.range_succ])
    exact h4

/-- **C08, tightness for every capacity**: the bound `capacity + 3` of `C08_fifo_lookahead` is
    attained for every `cap` (and every `conc`, flags, result plan) as soon as the source has
    `cap + 3` elements and no preprocessor failure shortens the run — the constant cannot be
    lowered for any capacity, not only for the sample of the `example` above. -/
theorem C08_fifo_lookahead_attained (c : Cfg) (hp : ∀ i, c.preFail i = false) (hn : c.cap + 3 ≤ c.n) :
    ∃ s, Reachable c s ∧ s.pulled - handed s = c.cap + 3 := by
  have hr := fill_reachable c hp (c.cap + 1) (Nat.le_refl _) (by omega)
  have h1 : Core.Reach (step c) init
      { fillState (c.cap + 1) with fpc := .check (1 + (c.cap + 1)), pulled := 1 + (c.cap + 1) + 1 } :=
    Core.Reach.tail hr (a := .pull) (by
      have : 1 + (c.cap + 1) < c.n := by omega
      simp [step, fillState, this])
  refine ⟨_, h1, ?_⟩
  simp [fillState, handed]; omega

/-- the hand-off queue does fill up to `capacity + 1` entries, for every capacity -/
theorem C08_fifo_queue_bound_attained (c : Cfg) (hp : ∀ i, c.preFail i = false) (hn : c.cap + 2 ≤ c.n) :
    ∃ s, Reachable c s ∧ s.queue.length = c.cap + 1 :=
  ⟨fillState (c.cap + 1), fill_reachable c hp (c.cap + 1) (Nat.le_refl _) (by omega), by simp [fillState]⟩
end Fifo
