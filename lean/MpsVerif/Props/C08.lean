import MpsVerif.Proofs.FifoLive
/-!
# C08 — bounded look-ahead and bounded concurrency

`fifo_stream` / `parmap` part (the `buffer(n)` part is in `Props/C08Buffer.lean`).
For every configuration (`cap`, `conc`, stream length `n`, failure plan, flags) and every
schedule (`Reachable` quantifies over all action lists):
-/
namespace Fifo

/-- source elements pulled but not yet handed to the consumer (as an output, or as the exception
    raised in its place) never exceed `capacity + 3`. -/
theorem C08_fifo_lookahead (c : Cfg) (s : State) (hr : Reachable c s) :
    s.pulled - handed s ≤ c.cap + 3 := by
  have h := all_reachable c hr
  obtain ⟨k1, k2, k3⟩ := h.cnt
  have hq := qidx_length_le s.queue
  have hf := fHold_le s.fpc
  have hc := cHold_le s.cpc
  cases hcp : s.cpc with
  | idle => have := k2 (Or.inl (by simp [hcp, CPc.active])); omega
  | wait i => have := k2 (Or.inl (by simp [hcp, CPc.active])); omega
  | susp => have := k2 (Or.inl (by simp [hcp, CPc.active])); omega
  | stopping => have := k2 (Or.inr hcp); omega
  | drain => have := k3 (Or.inl hcp); omega
  | join => have := k3 (Or.inr (Or.inl hcp)); omega
  | closed => have := k3 (Or.inr (Or.inr hcp)); omega

/-- `Parmapper` instantiates `capacity = 2 * concurrency`. -/
theorem C08_parmap_lookahead (c : Cfg) (hcap : c.cap = 2 * c.conc) (s : State) (hr : Reachable c s) :
    s.pulled - handed s ≤ 2 * c.conc + 3 := by
  have := C08_fifo_lookahead c s hr; omega

/-- the hand-off queue never holds more than `capacity + 1` entries -/
theorem C08_fifo_queue_bound (c : Cfg) (s : State) (hr : Reachable c s) :
    s.queue.length ≤ c.cap + 1 := (all_reachable c hr).cnt.1

/-- no more than `concurrency` invocations of the worker function are running
    (given a pool that starts a call only when fewer than `conc` are running — the stdlib
    executor's contract, the `start` guard of the model) -/
theorem C08_concurrency (c : Cfg) (s : State) (hr : Reachable c s) :
    s.running.length ≤ c.conc := (all_reachable c hr).pool.2.2.2.2.2.2.2

/-- independent of the pool's own limit: running calls never exceed the look-ahead bound -/
theorem C08_running_le_lookahead (c : Cfg) (s : State) (hr : Reachable c s) :
    ∀ j ∈ s.running, j < s.pulled := by
  intro j hj
  have := (all_reachable c hr).pool.2.2.1 j (Or.inr (Or.inl hj))
  omega

/-- non-vacuity: a reachable state in which the bound is attained
    (cap = 1, conc = 1, five elements: the consumer waits on element 0, two are queued, one is held) -/
example :
    let c : Cfg := { n := 5, srcEnd := .clean, cap := 1, conc := 1, preFail := fun _ => false,
                     resErr := fun _ => false, returnExc := false }
    ∃ s, Reachable c s ∧ s.pulled - handed s = c.cap + 3 := by
  refine ⟨_, ⟨[.pull, .fcheck, .submit, .put, .get, .pull, .fcheck, .submit, .put,
              .pull, .fcheck, .submit, .put, .pull, .fcheck, .submit], rfl⟩, ?_⟩
  decide

end Fifo
