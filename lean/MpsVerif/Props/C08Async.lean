import MpsVerif.Proofs.AFifoRun
/-!
# C08, concurrency clause, for ASYNC worker functions — the code as it is does not limit them (finding F35)

`Stream.parmap(<async func>)` (`ParmapperAsync`) and `AsyncStream.parmap(<async func>)`
(`AsyncParmapperAsync`) hand every element to the event loop as soon as the feeder has pulled it
(`run_coroutine_threadsafe` / `create_task`); nothing but the capacity of the hand-off queue
(`2 * concurrency`, i.e. `cap + 1` slots, one element in the feeder's hand, one with the consumer) limits how
many invocations are under way.  `Model/AFifo.lean` says so in its header ("no concurrency limit: `start j`
has no `conc` guard"), and the tie (E2 / E1 runs of the real classes, `harness/scen_afifo.py`,
`harness/scen_asrv.py`) accepts exactly that behaviour.

Full statement (what the documentation of `parmap` promises and C08 states; NOT provable, false):

  theorem C08_async_concurrency (c : Cfg) (s : State) (hr : Reachable c s) : s.running.length ≤ c.conc

The witness below is the kernel-checked counterexample in the model of the code as it is; the monitor
`concurrency` of `./check C08` shows the same on the real classes (known finding F35, see KNOWN_FINDINGS.txt).
For SYNC worker functions the clause is `C08_fifo_concurrency` (Props/C08.lean), which holds.
-/
namespace AFifo
open Fifo (Cfg)

/-- concurrency 1 (capacity 2 = `2 * concurrency`), four elements, nothing fails -/
def witnessCfg : Cfg :=
  { n := 4, srcEnd := .clean, cap := 2, conc := 1, preFail := fun _ => false, resErr := fun _ => false,
    returnExc := false }

/-- With `concurrency = 1` three invocations of an async worker function are under way at the same time
    (in general `cap + 1 = 2 * concurrency + 1` by this schedule; with the element in the feeder's hand and the
    one the consumer waits for, up to `2 * concurrency + 3`, which is what the real classes show). -/
theorem C08_async_workers_unlimited_witness :
    ∃ s, Reachable witnessCfg s ∧ s.running.length = 3 ∧ witnessCfg.conc = 1 := by
  refine ⟨_, ⟨[.pull, .fcheck, .submit, .put, .pull, .fcheck, .submit, .put, .pull, .fcheck, .submit,
               .start 0, .start 1, .start 2], rfl⟩, ?_, rfl⟩
  decide

/-- What the code as it is does guarantee (the envelope of the known finding): while the consumer is still
    iterating, at most `cap + 3` invocations are under way — the `cap + 1` slots of the hand-off queue, the
    element in the feeder's hand and the one the consumer is waiting for; for `parmap`, `cap = 2 * concurrency`,
    i.e. `2 * concurrency + 3`.  The check reports anything beyond this envelope as a new violation. -/
theorem C08_async_workers_envelope (c : Cfg) (s : State) (hr : Reachable c s) (hact : s.cpc.active = true) :
    s.running.length ≤ c.cap + 3 := by
  have hall := all_reachable c hr
  obtain ⟨⟨hnd, hnf⟩, hq⟩ := run_reachable c hr
  obtain ⟨hord, hle⟩ := hall.ord hact
  obtain ⟨hout, hfin, _⟩ := hall.res
  obtain ⟨_, _, q3, _⟩ := hall.pool
  have hsub : s.running ⊆ List.range' s.out.length (s.pulled - s.out.length) := by
    intro j hj
    have h1 : j < s.pulled := by have := q3 j (Or.inr (Or.inl hj)); omega
    have h2 : s.out.length ≤ j := by
      rcases Nat.lt_or_ge j s.out.length with hlt | hge
      · exfalso
        have hmem : (j, j) ∈ s.out := by
          rw [hout]; exact List.mem_map.2 ⟨j, List.mem_range.2 (by simpa using hlt), rfl⟩
        exact hnf j hj (hfin _ hmem).1
      · exact hge
    rw [List.mem_range']
    exact ⟨j - s.out.length, by omega, by omega⟩
  have hlen := List.Nodup.length_le_of_subset hnd hsub
  have hcount := congrArg List.length hord
  simp only [List.length_append, List.length_range'] at hcount hlen
  have hc : (cIdx s.cpc).length ≤ 1 := by cases s.cpc <;> simp [cIdx]
  have hf : (fIdx s.fpc).length ≤ 1 := by cases s.fpc <;> simp [fIdx]
  have hqi := qidx_length_le s.queue
  unfold QLenInv at hq
  omega

/-- the envelope is attained up to the two hand positions by the schedule of the witness (3 = cap + 1) -/
example : witnessCfg.cap + 1 = 3 := rfl

end AFifo
