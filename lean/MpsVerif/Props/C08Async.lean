import MpsVerif.Proofs.AFifoStep
/-!
# C08, concurrency clause, for ASYNC worker functions — the code as it is does not limit them (finding F35)

`Stream.parmap(<async func>)` (`ParmapperAsync`) and `AsyncStream.parmap(<async func>)`
(`AsyncParmapperAsync`) hand every element to the event loop as soon as the feeder has pulled it
(`run_coroutine_threadsafe` / `create_task`); nothing but the capacity of the hand-off queue
(`2 * concurrency`, i.e. `cap + 1` slots, one element in the feeder's hand, one with the consumer) limits how
many invocations are under way.  `Model/AFifo.lean` says so in its header ("no concurrency limit: `start j`
has no `conc` guard"), and the tie (E2 / E1 runs of the real classes, `harness/scen_afifo.py`,
`harness/scen_asrv.py`) accepts exactly that behaviour.

Full statement (what the documentation of `parmap` promises and C08 states; NOT provable, false):

  theorem C08_async_concurrency (c : Cfg) (s : State) (hr : Reachable c s) : s.running.length ≤ c.conc

The witness below is the kernel-checked counterexample in the model of the code as it is; the monitor
`concurrency` of `./check C08` shows the same on the real classes (known finding F35, see KNOWN_FINDINGS.txt).
For SYNC worker functions the clause is `C08_fifo_concurrency` (Props/C08.lean), which holds.
-/
namespace AFifo
open Fifo (Cfg)

/-- concurrency 1 (capacity 2 = `2 * concurrency`), four elements, nothing fails -/
def witnessCfg : Cfg :=
  { n := 4, srcEnd := .clean, cap := 2, conc := 1, preFail := fun _ => false, resErr := fun _ => false,
    returnExc := false }

/-- With `concurrency = 1` three invocations of an async worker function are under way at the same time
    (in general `cap + 1 = 2 * concurrency + 1` by this schedule; with the element in the feeder's hand and the
    one the consumer waits for, up to `2 * concurrency + 3`, which is what the real classes show). -/
theorem C08_async_workers_unlimited_witness :
    ∃ s, Reachable witnessCfg s ∧ s.running.length = 3 ∧ witnessCfg.conc = 1 := by
  refine ⟨_, ⟨[.pull, .fcheck, .submit, .put, .pull, .fcheck, .submit, .put, .pull, .fcheck, .submit,
               .start 0, .start 1, .start 2], rfl⟩, ?_, rfl⟩
  decide

end AFifo
