import MpsVerif.Proofs.BufferLive
/-!
# C08 — bounded look-ahead of `buffer(n)`

For every `maxsize`, stream length, source ending, stop position and schedule.
-/
namespace Buffer

/-- source elements pulled but not yet handed to the consumer never exceed `maxsize + 2` -/
theorem C08_buffer_lookahead (c : Cfg) (s : State) (hr : Reachable c s) :
    s.pulled - s.out.length ≤ c.maxsize + 2 := by
  have h := all_reachable c hr
  obtain ⟨k1, k2, k3⟩ := h.cnt
  have hq := qidx_length_le s.queue
  have hw := wHold_le s.wpc
  have hc := cHold_le s.cpc
  cases hp : s.cpc.pre with
  | true => have := k2 hp; omega
  | false => have := (k3 hp).2; omega

/-- the queue never holds more than `maxsize` entries -/
theorem C08_buffer_queue_bound (c : Cfg) (s : State) (hr : Reachable c s) :
    s.queue.length ≤ c.maxsize := (all_reachable c hr).cnt.1

/-- non-vacuity: the bound `maxsize + 2` is attained (maxsize 1: one delivered to the generator body
    but not yet yielded, one queued, one held by the worker) -/
example :
    let c : Cfg := { n := 5, srcEnd := .clean, maxsize := 1 }
    ∃ s, Reachable c s ∧ s.pulled - s.out.length = c.maxsize + 2 := by
  refine ⟨_, ⟨[.pull, .wcheck, .put, .get, .pull, .wcheck, .put, .pull, .wcheck], rfl⟩, ?_⟩
  decide

/-- the filling state: the consumer holds element 0 (taken, not yet yielded), `k` elements queued -/
def fillState (k : Nat) : State :=
  { pulled := 1 + k, wpc := .idle, queue := (List.range k).map (fun j => QItem.item (j + 1)),
    flag := false, cpc := .got 0, out := [], raised := false, ended := false, closeReq := false }

theorem fill_reachable (c : Cfg) (k : Nat) (hk : k ≤ c.maxsize) (hm : 1 ≤ c.maxsize)
    (hn : 1 + k ≤ c.n) : Reachable c (fillState k) := by
  induction k with
  | zero =>
    refine ⟨[.pull, .wcheck, .put, .get], ?_⟩
    have h0 : 0 < c.n := by omega
    have h1 : 0 < c.maxsize := by omega
    simp [Core.run, step, init, fillState, h0, h1]
  | succ k ih =>
    have hr := ih (by omega) (by omega)
    have h1 : Core.Reach (step c) init
        { fillState k with wpc := .check (1 + k), pulled := 1 + k + 1 } :=
      Core.Reach.tail hr (a := .pull) (by
        have : 1 + k < c.n := by omega
        simp [step, fillState, this])
    have h2 : Core.Reach (step c) init
        { fillState k with wpc := .hold (1 + k), pulled := 1 + k + 1 } :=
      Core.Reach.tail h1 (a := .wcheck) (by simp [step, fillState])
    have h3 := Core.Reach.tail h2 (a := .put) (s2 := fillState (k + 1)) (by
      have : k < c.maxsize := by omega
      simp [step, fillState, this, List.range_succ]
      omega)
    exact h3

/-- **C08, tightness for every `maxsize ≥ 1`**: the bound `maxsize + 2` of `C08_buffer_lookahead`
    is attained in every configuration whose source is long enough — it cannot be lowered for
    any buffer size, not only for the sample of the `example` above. -/
theorem C08_buffer_lookahead_attained (c : Cfg) (hm : 1 ≤ c.maxsize) (hn : c.maxsize + 2 ≤ c.n) :
    ∃ s, Reachable c s ∧ s.pulled - s.out.length = c.maxsize + 2 := by
  have hr := fill_reachable c c.maxsize (Nat.le_refl _) hm (by omega)
  have h1 : Core.Reach (step c) init
      { fillState c.maxsize with wpc := .check (1 + c.maxsize), pulled := 1 + c.maxsize + 1 } :=
    Core.Reach.tail hr (a := .pull) (by
      have : 1 + c.maxsize < c.n := by omega
      simp [step, fillState, this])
  have h2 : Core.Reach (step c) init
      { fillState c.maxsize with wpc := .hold (1 + c.maxsize), pulled := 1 + c.maxsize + 1 } :=
    Core.Reach.tail h1 (a := .wcheck) (by simp [step, fillState])
  refine ⟨_, h2, ?_⟩
  simp [fillState]; omega

/-- the queue of `buffer(maxsize)` does fill up to `maxsize` entries, for every `maxsize ≥ 1` -/
theorem C08_buffer_queue_bound_attained (c : Cfg) (hm : 1 ≤ c.maxsize) (hn : c.maxsize + 1 ≤ c.n) :
    ∃ s, Reachable c s ∧ s.queue.length = c.maxsize :=
  ⟨fillState c.maxsize, fill_reachable c c.maxsize (Nat.le_refl _) hm (by omega), by simp [fillState]⟩
end Buffer
