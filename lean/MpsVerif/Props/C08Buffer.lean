import MpsVerif.Proofs.BufferLive
/-!
# C08 — bounded look-ahead of `buffer(n)`

For every `maxsize`, stream length, source ending, stop position and schedule.
-/
namespace Buffer

/-- source elements pulled but not yet handed to the consumer never exceed `maxsize + 2` -/
theorem C08_buffer_lookahead (c : Cfg) (s : State) (hr : Reachable c s) :
    s.pulled - s.out.length ≤ c.maxsize + 2 := by
  have h := all_reachable c hr
  obtain ⟨k1, k2, k3⟩ := h.cnt
  have hq := qidx_length_le s.queue
  have hw := wHold_le s.wpc
  have hc := cHold_le s.cpc
  cases hp : s.cpc.pre with
  | true => have := k2 hp; omega
  | false => have := (k3 hp).2; omega

/-- the queue never holds more than `maxsize` entries -/
theorem C08_buffer_queue_bound (c : Cfg) (s : State) (hr : Reachable c s) :
    s.queue.length ≤ c.maxsize := (all_reachable c hr).cnt.1

/-- non-vacuity: the bound `maxsize + 2` is attained (maxsize 1: one delivered to the generator body
    but not yet yielded, one queued, one held by the worker) -/
example :
    let c : Cfg := { n := 5, srcEnd := .clean, maxsize := 1 }
    ∃ s, Reachable c s ∧ s.pulled - s.out.length = c.maxsize + 2 := by
  refine ⟨_, ⟨[.pull, .wcheck, .put, .get, .pull, .wcheck, .put, .pull, .wcheck], rfl⟩, ?_⟩
  decide

end Buffer
