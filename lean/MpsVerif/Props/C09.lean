import MpsVerif.Proofs.BatchTime
/-!
# C09 — workers see well-formed batches; no request waits for a full batch

Model: `Model/Batch.lean` (`k` workers competing for `q_in` under its read lock, collector
thread, batch buffer, deadline-bounded consumer, optional in-worker thread pool).  A *call* is an
entry of the history list `s.calls`, appended by the `callEnter` action — the moment the real
`Worker.call` is invoked.  All theorems hold in every reachable state, i.e. for **every** action
list: every arrival pattern (including exception values, inputs that `preprocess` rejects, the
end marker), every interleaving of collectors, consumers, competing workers and pool threads,
every clock behaviour allowed by maximal progress, and every `k`, `batch_size`,
`batch_wait_time`, with or without pool.
-/
namespace Batch

theorem shape_reachable (c : Cfg) {s : State} (hr : Reachable c s) : ShapeInv c s :=
  reachable_inv c (shape_init c) (shape_step c) hr

theorem time_reachable (c : Cfg) {s : State} (hr : Reachable c s) : TimeInv c s :=
  reachable_inv c (time_init c) (time_step c) hr

/-- `batch_size = b > 0`: `call` is invoked only with non-empty lists of at most `b` elements, each
    of which arrived as a regular input that `preprocess` accepts (kind `good`; an exception value
    has kind `exc`, a rejected input kind `rej`; the end marker is not a `Req` at all). -/
theorem C09_wellformed (c : Cfg) (s : State) (hr : Reachable c s) (hb : 0 < c.b) :
    ∀ cl ∈ s.calls, cl.isList = true ∧ cl.batch ≠ [] ∧ cl.batch.length ≤ c.b ∧
      ∀ r ∈ cl.batch, r.kind = .good ∧ r ∈ s.arrived := by
  intro cl hcl
  obtain ⟨⟨h1, h2, h3⟩, h4⟩ := (shape_reachable c hr).calls cl hcl
  refine ⟨by simp [h4, hb], h1, ?_, h3⟩
  unfold Cfg.bmax at h2; omega

/-- `batch_size = 0`: `call` receives single elements (never a list), each a genuine input. -/
theorem C09_single (c : Cfg) (s : State) (hr : Reachable c s) (hb : c.b = 0) :
    ∀ cl ∈ s.calls, cl.isList = false ∧ ∃ r, cl.batch = [r] ∧ r.kind = .good ∧ r ∈ s.arrived := by
  intro cl hcl
  obtain ⟨⟨h1, h2, h3⟩, h4⟩ := (shape_reachable c hr).calls cl hcl
  refine ⟨by simp [h4, hb], ?_⟩
  have hlen : cl.batch.length ≤ 1 := by unfold Cfg.bmax at h2; omega
  match hbt : cl.batch, h1, hlen with
  | [r], _, _ => exact ⟨r, rfl, h3 r (by simp [hbt])⟩
  | _ :: _ :: _, _, hl => simp at hl

/-- A batch is handed to `stream()` no later than `batch_wait_time` after its first element was
    taken (`trel ≤ t0 + wait`; at once when the wait is 0), never before, and without a pool
    `call` is entered at that very clock value. -/
theorem C09_deadline (c : Cfg) (s : State) (hr : Reachable c s) :
    ∀ cl ∈ s.calls, cl.t0 ≤ cl.trel ∧ cl.trel ≤ cl.t0 + c.wait ∧ cl.trel ≤ cl.tcall ∧
      (c.pool = false → cl.tcall = cl.trel) ∧ (c.wait = 0 → cl.trel = cl.t0) := by
  intro cl hcl
  obtain ⟨h1, h2, h3, _, h5⟩ := (time_reachable c hr).calls cl hcl
  exact ⟨h1, h2, h3, h5, fun hw => by omega⟩

/-- a consumer never sits on an element past its deadline: while a batch is being assembled or is
    in the consumer's hand the clock is within `[t0, t0 + wait]` -/
theorem C09_deadline_pending (c : Cfg) (s : State) (hr : Reachable c s) (i : Nat) (b : List Req) (t0 : Nat)
    (h : (s.ws i).gph = .coll b t0 ∨ (s.ws i).gph = .ready b t0) : t0 ≤ s.clock ∧ s.clock ≤ t0 + c.wait := by
  rcases h with h | h
  · exact ((time_reachable c hr).ws i).coll b t0 h
  · exact ((time_reachable c hr).ws i).ready b t0 h

end Batch
