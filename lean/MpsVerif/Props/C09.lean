import MpsVerif.Proofs.BatchLive
/-!
# C09 — workers see well-formed batches; no request waits for a full batch

Model: `Model/Batch.lean` (`k` workers competing for `q_in` under its read lock, collector
thread, batch buffer, deadline-bounded consumer, optional in-worker thread pool).  A *call* is an
entry of the history list `s.calls`, appended by the `callEnter` action — the moment the real
`Worker.call` is invoked.  All theorems hold in every reachable state, i.e. for **every** action
list: every arrival pattern (including exception values, inputs that `preprocess` rejects, the
end marker), every interleaving of collectors, consumers, competing workers and pool threads,
every clock behaviour allowed by maximal progress, and every `k`, `batch_size`,
`batch_wait_time`, with or without pool.
-/
namespace Batch

/-- `batch_size = b > 0`: `call` is invoked only with non-empty lists of at most `b` elements, each
    of which arrived as a regular input that `preprocess` accepts (kind `good`; an exception value
    has kind `exc`, a rejected input kind `rej`; the end marker is not a `Req` at all). -/
theorem C09_wellformed (c : Cfg) (s : State) (hr : Reachable c s) (hb : 0 < c.b) :
    ∀ cl ∈ s.calls, cl.isList = true ∧ cl.batch ≠ [] ∧ cl.batch.length ≤ c.b ∧
      ∀ r ∈ cl.batch, r.kind = .good ∧ r ∈ s.arrived := by
  intro cl hcl
  obtain ⟨⟨h1, h2, h3⟩, h4⟩ := (shape_reachable c hr).calls cl hcl
  refine ⟨by simp [h4, hb], h1, ?_, h3⟩
  unfold Cfg.bmax at h2; omega

/-- `batch_size = 0`: `call` receives single elements (never a list), each a genuine input. -/
theorem C09_single (c : Cfg) (s : State) (hr : Reachable c s) (hb : c.b = 0) :
    ∀ cl ∈ s.calls, cl.isList = false ∧ ∃ r, cl.batch = [r] ∧ r.kind = .good ∧ r ∈ s.arrived := by
  intro cl hcl
  obtain ⟨⟨h1, h2, h3⟩, h4⟩ := (shape_reachable c hr).calls cl hcl
  refine ⟨by simp [h4, hb], ?_⟩
  have hlen : cl.batch.length ≤ 1 := by unfold Cfg.bmax at h2; omega
  match hbt : cl.batch, h1, hlen with
  | [r], _, _ => exact ⟨r, rfl, h3 r (by simp [hbt])⟩
  | _ :: _ :: _, _, hl => simp at hl

/-- A batch is handed to `stream()` no later than `batch_wait_time` after its first element was
    taken (`trel ≤ t0 + wait`; at once when the wait is 0), never before, and without a pool
    `call` is entered at that very clock value. -/
theorem C09_deadline (c : Cfg) (s : State) (hr : Reachable c s) :
    ∀ cl ∈ s.calls, cl.t0 ≤ cl.trel ∧ cl.trel ≤ cl.t0 + c.wait ∧ cl.trel ≤ cl.tcall ∧
      (c.pool = false → cl.tcall = cl.trel) ∧ (c.wait = 0 → cl.trel = cl.t0) := by
  intro cl hcl
  obtain ⟨h1, h2, h3, _, h5⟩ := (time_reachable c hr).calls cl hcl
  exact ⟨h1, h2, h3, h5, fun hw => by omega⟩

/-- a consumer never sits on an element past its deadline: while a batch is being assembled or is
    in the consumer's hand the clock is within `[t0, t0 + wait]` -/
theorem C09_deadline_pending (c : Cfg) (s : State) (hr : Reachable c s) (i : Nat) (b : List Req) (t0 : Nat)
    (h : (s.ws i).gph = .coll b t0 ∨ (s.ws i).gph = .ready b t0) : t0 ≤ s.clock ∧ s.clock ≤ t0 + c.wait := by
  rcases h with h | h
  · exact ((time_reachable c hr).ws i).coll b t0 h
  · exact ((time_reachable c hr).ws i).ready b t0 h

/-- Partition.  In every reachable state every request that arrived is in exactly one place:
    still on `q_in`, inside exactly one worker on its way to `call`, in exactly one recorded call
    (of whichever worker) exactly once, or short-circuited to `q_out` exactly once — the four
    counts add up to 1.  Hence no request is ever in two batches or twice in one
    (`(calledAll s).map uid` has no duplicates), a regular input accepted by `preprocess` is never
    short-circuited, and a rejected input / exception value is never passed to `call`. -/
theorem C09_partition (c : Cfg) (s : State) (hr : Reachable c s) :
    (∀ r ∈ s.arrived, cntU r.uid (reqsOf s.qin) + flightCnt r.uid c.k s.ws + cntU r.uid (calledAll s)
        + shortCnt r.uid s.out = 1) ∧
    ((calledAll s).map (·.uid)).Nodup ∧
    (∀ r ∈ s.arrived, r.kind = .good → shortCnt r.uid s.out = 0) ∧
    (∀ r ∈ s.arrived, r.kind ≠ .good → r ∉ calledAll s ∧ shortCnt r.uid s.out ≤ 1) := by
  have hc := count_reachable c hr
  have hs := shape_reachable c hr
  have hone : ∀ r ∈ s.arrived, cntU r.uid (reqsOf s.qin) + flightCnt r.uid c.k s.ws + cntU r.uid (calledAll s)
      + shortCnt r.uid s.out = 1 := by
    intro r hra
    have := hc.tot r.uid
    rw [cntU_arrived_mem c s hc hra] at this
    simpa [tot] using this
  have hcalled : ∀ r ∈ calledAll s, r.kind = .good ∧ r ∈ s.arrived := by
    intro r hrc
    simp only [calledAll, List.mem_flatMap] at hrc
    obtain ⟨cl, hcl, hrb⟩ := hrc
    exact (hs.calls cl hcl).1.2.2 r hrb
  refine ⟨hone, ?_, ?_, ?_⟩
  · rw [List.nodup_iff_count]
    intro u
    rw [← cntU_eq_count]
    have := hc.tot u
    rw [cntU_arrived c s hc] at this
    simp only [tot] at this
    split at this <;> omega
  · intro r hra hk
    by_cases h0 : shortCnt r.uid s.out = 0
    · exact h0
    · obtain ⟨o, ho, hsh⟩ := shortCnt_pos (Nat.pos_of_ne_zero h0)
      obtain ⟨r', hr', hu, hk'⟩ := short_reachable c hr o ho r.uid hsh
      have := arrived_uid_inj c s hc hr' hra hu
      subst this; exact absurd hk hk'
  · intro r hra hk
    refine ⟨?_, by have := hone r hra; omega⟩
    intro hrc
    exact hk (hcalled r hrc).1

/-- Exactly once, at rest: when nothing is on `q_in` or inside a worker any more, every regular
    input that `preprocess` accepts appears in exactly one batch exactly once (over all workers), and
    every rejected input / exception value was forwarded to `q_out` exactly once and appears in no batch. -/
theorem C09_partition_at_rest (c : Cfg) (s : State) (hr : Reachable c s) (hq : Quiet c s) :
    (∀ r ∈ s.arrived, r.kind = .good → cntU r.uid (calledAll s) = 1 ∧ r ∈ calledAll s) ∧
    (∀ r ∈ s.arrived, r.kind ≠ .good → shortCnt r.uid s.out = 1 ∧ r ∉ calledAll s) := by
  obtain ⟨h1, _, h3, h4⟩ := C09_partition c s hr
  have hs := shape_reachable c hr
  have hc := count_reachable c hr
  have hz : ∀ u, cntU u (reqsOf s.qin) = 0 ∧ flightCnt u c.k s.ws = 0 := by
    intro u; exact ⟨by rw [hq.1]; rfl, flight_zero_of u c.k s.ws hq.2⟩
  constructor
  · intro r hra hk
    have := h1 r hra; have := h3 r hra hk; have := hz r.uid
    have hone : cntU r.uid (calledAll s) = 1 := by omega
    refine ⟨hone, ?_⟩
    obtain ⟨r', hr', hu⟩ := mem_of_cntU_pos (by omega : 0 < cntU r.uid (calledAll s))
    have hr'a : r' ∈ s.arrived := by
      simp only [calledAll, List.mem_flatMap] at hr'
      obtain ⟨cl, hcl, hrb⟩ := hr'
      exact ((hs.calls cl hcl).1.2.2 r' hrb).2
    have := arrived_uid_inj c s hc hr'a hra hu
    subst this; exact hr'
  · intro r hra hk
    have := h1 r hra; have h5 := h4 r hra hk; have := hz r.uid
    have h0 : cntU r.uid (calledAll s) = 0 := by
      by_cases h0 : cntU r.uid (calledAll s) = 0
      · exact h0
      · obtain ⟨r', hr', hu⟩ := mem_of_cntU_pos (Nat.pos_of_ne_zero h0)
        have hr'a : r' ∈ s.arrived := by
          simp only [calledAll, List.mem_flatMap] at hr'
          obtain ⟨cl, hcl, hrb⟩ := hr'
          exact ((hs.calls cl hcl).1.2.2 r' hrb).2
        have := arrived_uid_inj c s hc hr'a hra hu
        subst this; exact absurd hr' h5.1
    exact ⟨by omega, h5.1⟩

/-- Progress: as long as some request is pending (on `q_in` or inside a worker, not yet handed to
    `call` / short-circuited), the servlet has a worker (`0 < k`) and the end marker has not been
    issued, the system can move by itself: some worker action is enabled, or the clock can advance
    towards a deadline some consumer is waiting for.  No arrival is needed — in particular the
    batch need not fill up. -/
theorem C09_progress (c : Cfg) (s : State) (hr : Reachable c s) (hk : 0 < c.k) (hns : s.stopped = false)
    (hp : ∃ r, Pending c s r) : ∃ a, (ustep c s a).isSome = true := by
  obtain ⟨a, hu, hen⟩ := progress_of_inv c s (shape_reachable c hr) (ph_reachable c hr) (time_reachable c hr) hk hns hp
  exact ⟨a, by simp [ustep, (useful_iff c s a).mpr hu, hen]⟩

/-- Bounded: without further arrivals at most `mu c s` worker actions / useful ticks are possible
    from any state `s` (every such step strictly decreases the measure `mu`). -/
theorem C09_served_within (c : Cfg) (s s' : State) (as : List Act) (h : Core.run (ustep c) s as = some s') :
    as.length + mu c s' ≤ mu c s :=
  Core.length_le_measure (mu c) (mu_ustep c) as s s' h

/-- A lone request is always served.  From any reachable state before the end marker, let the
    system run on its own (no further arrival) in any way it likes until it can do nothing more:
    this takes at most `mu c s` steps, and then nothing is pending and every regular input that
    had arrived — e.g. a single request that will never be joined by another — is in a batch that
    was handed to `call` (exactly one, exactly once, by `C09_partition_at_rest`). -/
theorem C09_lone_served (c : Cfg) (s : State) (hr : Reachable c s) (hk : 0 < c.k) (hns : s.stopped = false)
    (as : List Act) (s' : State) (hrun : Core.run (ustep c) s as = some s') (hmax : ∀ a, ustep c s' a = none) :
    as.length ≤ mu c s ∧ Quiet c s' ∧ ∀ r ∈ s.arrived, r.kind = .good → r ∈ calledAll s' := by
  obtain ⟨hreach, hst, harr⟩ := run_ustep c as s s' hrun
  have hr' : Reachable c s' := reach_trans hr hreach
  have hnp : ¬ ∃ r, Pending c s' r := by
    intro hp
    obtain ⟨a, ha⟩ := C09_progress c s' hr' hk (by rw [hst]; exact hns) hp
    rw [hmax a] at ha; simp at ha
  have hq := quiet_of_not_pending c s' hnp
  refine ⟨by have := C09_served_within c s s' as hrun; omega, hq, ?_⟩
  intro r hra hk'
  exact ((C09_partition_at_rest c s' hr' hq).1 r (by rw [harr]; exact hra) hk').2

/-- The hypotheses of `C09_lone_served` can always be met: from every reachable state before the end
    marker the system, left alone, does reach (within `mu c s` steps) a state at rest in which every
    regular input that had arrived has been handed to `call`. -/
theorem C09_lone_served_attained (c : Cfg) (s : State) (hr : Reachable c s) (hk : 0 < c.k) (hns : s.stopped = false) :
    ∃ as s', Core.run (ustep c) s as = some s' ∧ as.length ≤ mu c s ∧ Quiet c s' ∧
      ∀ r ∈ s.arrived, r.kind = .good → r ∈ calledAll s' := by
  obtain ⟨as, s', hrun, hmax⟩ := exists_maximal_run c (mu c s) s (Nat.le_refl _)
  obtain ⟨h1, h2, h3⟩ := C09_lone_served c s hr hk hns as s' hrun hmax
  exact ⟨as, s', hrun, h1, h2, h3⟩

/-- Output side.  (a) a value written to `q_out` for uid `u` is `u`'s own result and `u` was a
    member of a recorded call; (b) the exception of call number `cid` is delivered only to members
    of that call's batch; (c) all-or-nothing: for every recorded call, either its entry is still
    with its worker (inside `call` / waiting to be written) or **every** member of its batch has
    received one and the same outcome — all their own values, or all the call's exception
    (`zip(uids, results)` pairs in order; a failing batched call fails exactly its members);
    (d) no request ever gets more than one output. -/
theorem C09_outputs (c : Cfg) (s : State) (hr : Reachable c s) :
    (∀ u v, Out.res u (.val v) ∈ s.out → v = u ∧ ∃ cl ∈ s.calls, ∃ r ∈ cl.batch, r.uid = u) ∧
    (∀ u cid, Out.res u (.callErr cid) ∈ s.out → ∃ cl, s.calls[cid]? = some cl ∧ ∃ r ∈ cl.batch, r.uid = u) ∧
    (∀ cid cl, s.calls[cid]? = some cl →
      (∃ e ∈ (s.ws cl.w).pd, cidOf e.st = some cid) ∨ ∃ ok, ∀ r ∈ cl.batch, outcome cid ok r ∈ s.out) ∧
    (∀ u, shortCnt u s.out + valCnt u s.out ≤ 1) := by
  have hl := link_reachable c hr
  refine ⟨fun u v h => hl.out _ h, fun u cid h => hl.out _ h, hl.done, ?_⟩
  intro u
  have h1 := (count_reachable c hr).tot u
  have h2 := emit_reachable c hr u
  rw [cntU_arrived c s (count_reachable c hr)] at h1
  simp only [tot] at h1
  split at h1 <;> omega

/-- non-vacuity (deadline attained, lone request served): one worker, `batch_size = 2`, wait 3;
    a single request arrives and nothing else ever does: it is handed to `call` alone at exactly
    `t0 + wait` -/
example :
    let c : Cfg := { k := 1, b := 2, wait := 3, pool := false }
    ∃ s, Reachable c s ∧ s.calls = [⟨0, [⟨0, .good⟩], true, 0, 3, 3⟩] ∧ s.stopped = false := by
  refine ⟨_, ⟨[.arrive .good, .cLock 0, .cGet 0, .cPut 0, .cNoMore 0, .cDecide 0, .gFirst 0, .tick, .tick, .tick,
              .gTimeout 0, .gRelease 0, .callEnter 0 0], rfl⟩, ?_⟩
  decide

/-- non-vacuity (well-formedness / partition with competing workers): two workers, `batch_size = 2`;
    arrivals good, rejected, exception value, good, good: worker 0 gets the batch `[0, 3]`, the two
    bad inputs are short-circuited, worker 1 gets `[4]`; the failing call of worker 0 delivers its
    error to exactly `0` and `3` -/
example :
    let c : Cfg := { k := 2, b := 2, wait := 0, pool := false }
    ∃ s, Reachable c s ∧ s.calls.map (fun cl => (cl.w, cl.batch.map (·.uid))) = [(0, [0, 3]), (1, [4])] ∧
      s.out = [.res 1 .preErr, .res 2 .inErr, .res 0 (.callErr 0), .res 3 (.callErr 0), .res 4 (.val 4)] := by
  refine ⟨_, ⟨[.arrive .good, .arrive .rej, .arrive .exc, .arrive .good, .arrive .good,
              .cLock 0, .cGet 0, .cPut 0, .cMore 0, .cPut 0, .cMore 0, .cPut 0, .cMore 0, .cPut 0, .cNoMore 0,
              .cDecide 0, .cLock 1, .cGet 1, .cPut 1, .cNoMore 1, .cDecide 1,
              .gFirst 0, .gNext 0, .gRelease 0, .callEnter 0 0, .callRet 0 0 false, .emit 0,
              .gFirst 1, .gTimeout 1, .gRelease 1, .callEnter 1 0, .callRet 1 0 true, .emit 1], rfl⟩, ?_⟩
  decide

/-- non-vacuity (`batch_size = 0`, pool): single elements, two calls in flight, the second returns
    first, outputs are written in order -/
example :
    let c : Cfg := { k := 1, b := 0, wait := 0, pool := true }
    ∃ s, Reachable c s ∧ s.calls.map (fun cl => (cl.isList, cl.batch.map (·.uid))) = [(false, [0]), (false, [1])] ∧
      s.out = [.res 0 (.val 0), .res 1 (.val 1)] := by
  refine ⟨_, ⟨[.arrive .good, .arrive .good, .sGet 0, .sGet 0, .callEnter 0 0, .callEnter 0 1, .callRet 0 1 true,
              .callRet 0 0 true, .emit 0, .emit 0], rfl⟩, ?_⟩
  decide

end Batch
