import MpsVerif.Proofs.TeeInvAll
/-!
# C10 — tee forks see identical streams and cannot wedge each other

Model: `Model/Tee.lean` (the repaired `Fork.__next__`, one action per access to shared state).
Every theorem is about every reachable state, i.e. **every** action list: every interleaving of
any number `c.n` of forks at line granularity, every `buffer_size`, every source length
(0, 1, longer than the window) and both source endings (exhaustion / exception after `len`
elements).  Elements are identified by their index in the source.
-/
namespace Tee

/-- Each fork's output is a prefix of the source in source order (`out = [0, 1, …, k-1]`,
    `k ≤ len`); a fork that has ended received the complete source and ended the way the source
    ended: StopIteration iff the source was exhausted, the source's exception iff it raised. -/
theorem C10_same_stream (c : Cfg) (s : State) (hr : Reachable c s) (f : Nat) (hf : f < c.n) :
    (s.forks f).out = List.range (s.forks f).out.length ∧ (s.forks f).out.length ≤ c.len ∧
    ((s.forks f).pc = .done →
      (s.forks f).out = List.range c.len ∧
      (((s.forks f).fin = some .stop ∧ c.fail = false) ∨ ((s.forks f).fin = some .exc ∧ c.fail = true))) := by
  have hi := inv_reachable c hr
  have h := hi.forks f hf
  refine ⟨h.out_range, ?_, ?_⟩
  · exact h.out_le
  · intro hd
    rcases h.done hd with ⟨h1, h2, h3⟩ | ⟨h1, h2, h3, h4, h5⟩
    · exact ⟨by rw [h.out_range, h3], Or.inl ⟨h1, h2.1⟩⟩
    · exact ⟨by rw [h.out_range, h4], Or.inr ⟨h1, h2⟩⟩

end Tee
