import MpsVerif.Proofs.TeeFair
/-!
# C10 — tee forks see identical streams and cannot wedge each other

Model: `Model/Tee.lean` (the repaired `Fork.__next__`, one action per access to shared state).
Every theorem is about every reachable state, i.e. **every** action list: every interleaving of
any number `c.n` of forks (the property needs `n ≥ 2`; the theorems need at most `n ≥ 1`) with
preemption between any two shared-state accesses (finer than lines: also between the read and the
write of `box.n += 1`), every `buffer_size` (`≥ 2` only where the real
code needs it: progress), every source length (0, 1, longer than the window) and both source
endings (exhaustion / exception after `len` elements).  Elements are identified by their index in
the source; box `len` is the terminal box that carries the source's exception.

The theorems are stated over `Tee.step` / `Core.run`, the definitions `drv tee` executes.
-/
namespace Tee

/-- Each fork's output is a prefix of the source in source order (`out = [0, 1, …, k-1]`,
    `k ≤ len`); a fork that has ended received the complete source and ended the way the source
    ended: StopIteration iff the source was exhausted, the source's exception iff it raised. -/
theorem C10_same_stream (c : Cfg) (s : State) (hr : Reachable c s) (f : Nat) (hf : f < c.n) :
    (s.forks f).out = List.range (s.forks f).out.length ∧ (s.forks f).out.length ≤ c.len ∧
    ((s.forks f).pc = .done →
      (s.forks f).out = List.range c.len ∧
      (((s.forks f).fin = some .stop ∧ c.fail = false) ∨ ((s.forks f).fin = some .exc ∧ c.fail = true))) := by
  have hi := inv_reachable c hr
  have h := hi.forks f hf
  refine ⟨h.out_range, h.out_le, ?_⟩
  intro hd
  rcases h.done hd with ⟨h1, h2, h3⟩ | ⟨h1, h2, h3, h4, h5⟩
  · exact ⟨by rw [h.out_range, h3], Or.inl ⟨h1, h2.1⟩⟩
  · exact ⟨by rw [h.out_range, h4], Or.inr ⟨h1, h2⟩⟩

/-- The source is pulled once per element: pulls happen only under the source lock (so never two
    at a time), never after the source has raised (`raised = false` whenever a fork is about to call
    `next(instream)`), at most `len` elements are obtained, and every pull result becomes exactly
    one box (`boxes = pulled (+1 for the exception)`), of which at most the newest is not yet
    linked into the chain. -/
theorem C10_pull_once (c : Cfg) (s : State) (hr : Reachable c s) :
    s.pulled ≤ c.len ∧ s.boxes = s.pulled + (if s.raised = true then 1 else 0) ∧
    (s.raised = true → c.fail = true ∧ s.pulled = c.len) ∧
    s.linked ≤ s.boxes ∧ s.boxes ≤ s.linked + 1 ∧
    (∀ f, f < c.n → ((s.forks f).pc = .hPull ∨ (s.forks f).pc = .wPull) → s.lock = some f ∧ s.raised = false) ∧
    (∀ f g, f < c.n → g < c.n → ((s.forks f).pc = .hPull ∨ (s.forks f).pc = .wPull) →
      ((s.forks g).pc = .hPull ∨ (s.forks g).pc = .wPull) → f = g) := by
  have hi := inv_reachable c hr
  refine ⟨hi.pulled_le, hi.boxes_eq, hi.raised_imp, hi.shape.1, hi.shape.2.1, ?_, ?_⟩
  · intro f hf hp; exact pull_ok c s hi f hf hp
  · intro f g hf hg hp hq
    have h1 := (pull_ok c s hi f hf hp).1
    have h2 := (pull_ok c s hi g hg hq).1
    rw [h1] at h2; exact Option.some.inj h2

/-- Look-ahead: the source is never pulled more than `buffer_size + 2` elements beyond what the
    slowest fork has received — for every fork `f`, `pulled ≤ received f + bs + 2`. -/
theorem C10_lookahead (c : Cfg) (s : State) (hr : Reachable c s) (hn : 0 < c.n) (f : Nat) (hf : f < c.n) :
    s.pulled ≤ (s.forks f).out.length + c.bs + 2 := by
  obtain ⟨hi, h2⟩ := inv12_reachable c hn hr
  have hb := hi.boxes_eq
  have := hi.shape
  have := hi.win
  have := h2.pop_le f hf
  have := (hi.forks f hf).inc_out
  split at hb <;> omega

/-- The window: it never holds more than `buffer_size` boxes; no popped box is still needed
    (`popped ≤ inc f`); a count never exceeds the number of forks; `with box.lock` is a mutex
    (at most one fork inside the `with` block of a box — this is what makes the read and the write
    of `box.n += 1`, which are separate actions of the model, and the separate line
    `if box.n == n_forks` see the fork's own count); and the fork that
    pops is the last fork to have counted the box, pops its own box, which is the oldest one in
    the window (so `buffer.get()` never blocks and never removes a box somebody still needs). -/
theorem C10_window (c : Cfg) (s : State) (hr : Reachable c s) (hn : 0 < c.n) :
    s.popped ≤ s.put ∧ s.put ≤ s.popped + c.bs ∧
    (∀ f, f < c.n → s.popped ≤ (s.forks f).inc) ∧
    (∀ j, s.cnt j ≤ c.n) ∧
    (∀ f g j, f < c.n → g < c.n → holdsBox (s.forks f) j = true → holdsBox (s.forks g) j = true → f = g) ∧
    (∀ f, f < c.n → (s.forks f).pc = .bGet →
      (s.forks f).cur = some s.popped ∧ s.popped < s.put ∧ ∀ g, g < c.n → s.popped < (s.forks g).inc) := by
  obtain ⟨hi, h2⟩ := inv12_reachable c hn hr
  refine ⟨hi.win.1, hi.win.2, h2.pop_le, ?_, h2.mutex, ?_⟩
  · intro j; rw [h2.cnt_eq j]; exact countF_le _ _
  · intro f hf hp
    obtain ⟨h1, h3, h4⟩ := get_own c s hi h2 f hf hp
    refine ⟨h1, h4, ?_⟩
    intro g hg
    have := h2.get_inv f hf hp g hg
    omega

/-- The source lock is held only inside the `try … finally: release()` regions: its holder is a
    fork between its successful acquire and its release.  In particular a fork that is between two
    calls, is returning an element, is raising StopIteration or the source's exception, or has
    ended, does not hold it, and when every fork has ended the lock is free. -/
theorem C10_lock_released (c : Cfg) (s : State) (hr : Reachable c s) :
    (∀ h, s.lock = some h → h < c.n ∧ (s.forks h).pc.locked = true) ∧
    (∀ f, f < c.n → ((s.forks f).pc = .idle ∨ (s.forks f).pc = .done ∨ (s.forks f).pc = .retStop ∨
        (s.forks f).pc = .retExc ∨ ∃ j, (s.forks f).pc = .ret j) → s.lock ≠ some f) ∧
    (Final c s → s.lock = none) := by
  have hi := inv_reachable c hr
  refine ⟨hi.lock_lt, ?_, ?_⟩
  · intro f _ hp hl
    have := (hi.lock_lt f hl).2
    rcases hp with h | h | h | h | ⟨j, h⟩ <;> simp [h, Pc.locked] at this
  · intro hfin
    cases hl : s.lock with
    | none => rfl
    | some h =>
      obtain ⟨hh, hk⟩ := hi.lock_lt h hl
      simp [hfin h hh, Pc.locked] at hk

/-- Progress (no wedge).  In every reachable state in which some fork has not ended (`n ≥ 1`,
    `buffer_size ≥ 2` as `tee` asserts), within at most two steps the measure `mu` strictly
    decreases: some fork can take a productive step now, or it re-checks its wait-loop condition
    and then acquires the (free) source lock.  The consumer is part of the model (`call` is always
    enabled for a fork between calls), i.e. "every fork keeps being consumed".  The timed lock
    retries are the stutter steps (`isSpin`, `C10_measure`); fairness: `C10_fair_termination`. -/
theorem C10_progress (c : Cfg) (s : State) (hr : Reachable c s) (hn : 0 < c.n) (hbs : 2 ≤ c.bs)
    (hnf : ¬ Final c s) :
    ∃ as s', as ≠ [] ∧ as.length ≤ 2 ∧ Core.run (step c) s as = some s' ∧ mu c s' < mu c s := by
  obtain ⟨hi, h2⟩ := inv12_reachable c hn hr
  exact progress c s hi h2 hbs hnf

/-- The measure never increases, and it strictly decreases on every step that is not a spin step
    of the timed lock retry loop (`isSpin`: re-reading an unmet loop condition, and the timed-out
    `acquire(timeout=0.1)` while it is unmet).  Those are the stutter steps. -/
theorem C10_measure (c : Cfg) (s : State) (hr : Reachable c s) (a : Act) (s' : State)
    (hs : step c s a = some s') :
    mu c s' ≤ mu c s ∧ (isSpin c s a = false → mu c s' < mu c s) := by
  have := mu_step c s a s' (inv_reachable c hr) (step_sound c s s' a hs)
  constructor
  · split at this <;> omega
  · intro h; simp [h] at this; omega

/-- Bounded work: every execution from the initial state contains at most
    `n * (40 * (len + 2) + 35)` steps that are not spin steps of the timed lock retry — whatever
    the schedule.  (So an infinite execution consists, from some point on, of timed-out lock
    retries only; `C10_fair_termination` shows that no fair schedule does that.) -/
theorem C10_terminates (c : Cfg) (as : List Act) (s : State) (hr : Core.run (step c) init as = some s) :
    work c init as ≤ c.n * (40 * (c.len + 2) + 35) := by
  have := work_le c as init s (inv_init c) hr
  rw [mu_init] at this; omega

/-- No reachable state is a wedge: from every reachable state the run can be continued to a state
    in which every fork has ended (and then each has the complete stream, `C10_same_stream`). -/
theorem C10_no_wedge (c : Cfg) (s : State) (hr : Reachable c s) (hn : 0 < c.n) (hbs : 2 ≤ c.bs) :
    ∃ as s', Core.run (step c) s as = some s' ∧ Final c s' := by
  obtain ⟨hi, h2⟩ := inv12_reachable c hn hr
  exact can_finish c hbs (mu c s) s hi h2 (Nat.le_refl _)

/-- A reachable state in which no action at all is enabled is final: the model has no deadlock. -/
theorem C10_deadlock_free (c : Cfg) (s : State) (hr : Reachable c s) (hn : 0 < c.n) (hbs : 2 ≤ c.bs)
    (hdead : ∀ a, step c s a = none) : Final c s := by
  apply Classical.byContradiction
  intro hnf
  obtain ⟨as, s', hne, _, hrun, _⟩ := C10_progress c s hr hn hbs hnf
  cases as with
  | nil => exact hne rfl
  | cons a as => rw [Core.run_cons, hdead a] at hrun; simp at hrun

/-- **No fork blocks forever** (fair termination).  An infinite execution `r : InfRun c` (any
    sequence of states and actions from a reachable state with `step (σ i) (α i) = some (σ (i+1))`)
    is never weakly fair, where weak fairness is: every action (fork, kind) that is enabled from some
    point on forever is eventually taken.  So under a weakly fair scheduler — one that lets every
    fork that can move eventually move; the timed-out `acquire(timeout=0.1)` is exactly what lets
    a waiting fork re-read its loop condition instead of waiting on the lock unboundedly — every
    execution is finite, and by `C10_deadlock_free` it ends with every fork ended.  The consumers
    are part of the model: a fork between calls always has its `call` action enabled ("every fork
    keeps being consumed").  Unfair infinite executions do exist (a fork that holds the lock is
    never scheduled again while a peer retries its timed acquire forever). -/
theorem C10_fair_termination (c : Cfg) (hn : 0 < c.n) (hbs : 2 ≤ c.bs) (r : InfRun c) : ¬ WeaklyFair c r :=
  fair_terminates c hn hbs r

/-! ## Non-vacuity: concrete schedules (recorded from runs of the real code, line-level
    preemption, 2 forks, `buffer_size = 2`) -/

/-- one element, clean end: both forks receive `[0]` and end by StopIteration; lock free -/
example :
    let c : Cfg := { n := 2, bs := 2, len := 1, fail := false }
    ∃ s, Reachable c s ∧ Final c s ∧ (s.forks 0).out = [0] ∧ (s.forks 1).out = [0] ∧
      (s.forks 0).fin = some .stop ∧ (s.forks 1).fin = some .stop ∧ s.lock = none ∧ s.pulled = 1 := by
  refine ⟨_, ⟨[⟨1, .call⟩, ⟨1, .hget⟩, ⟨1, .hget⟩, ⟨1, .acqOk⟩, ⟨1, .hget⟩, ⟨1, .pull⟩, ⟨1, .put⟩, ⟨1, .hset⟩,
      ⟨1, .rel⟩, ⟨1, .hget⟩, ⟨1, .hget⟩, ⟨1, .nget⟩, ⟨1, .acqOk⟩, ⟨1, .nget⟩, ⟨1, .srcEnd⟩, ⟨1, .rel⟩,
      ⟨1, .bacq⟩, ⟨1, .ncmp⟩, ⟨1, .inc⟩, ⟨1, .ncmp⟩, ⟨1, .brel⟩, ⟨1, .nget⟩, ⟨1, .recv⟩, ⟨1, .call⟩,
      ⟨1, .hget⟩, ⟨1, .stop⟩, ⟨0, .call⟩, ⟨0, .hget⟩, ⟨0, .hget⟩, ⟨0, .nget⟩, ⟨0, .acqOk⟩, ⟨0, .nget⟩,
      ⟨0, .srcEnd⟩, ⟨0, .rel⟩, ⟨0, .bacq⟩, ⟨0, .ncmp⟩, ⟨0, .inc⟩, ⟨0, .ncmp⟩, ⟨0, .get⟩, ⟨0, .brel⟩,
      ⟨0, .nget⟩, ⟨0, .recv⟩, ⟨0, .call⟩, ⟨0, .hget⟩, ⟨0, .stop⟩], rfl⟩, ?_⟩
  decide

/-- the source fails at its first pull: both forks end with the exception, the source is pulled
    once (`endPulls = 0`, one box: the terminal one) -/
example :
    let c : Cfg := { n := 2, bs := 2, len := 0, fail := true }
    ∃ s, Reachable c s ∧ Final c s ∧ (s.forks 0).out = [] ∧ (s.forks 0).fin = some .exc ∧
      (s.forks 1).fin = some .exc ∧ s.lock = none ∧ s.boxes = 1 ∧ s.endPulls = 0 := by
  refine ⟨_, ⟨[⟨1, .call⟩, ⟨1, .hget⟩, ⟨1, .hget⟩, ⟨1, .acqOk⟩, ⟨1, .hget⟩, ⟨1, .srcExc⟩, ⟨1, .put⟩,
      ⟨1, .hset⟩, ⟨1, .rel⟩, ⟨1, .hget⟩, ⟨1, .hget⟩, ⟨1, .nget⟩, ⟨1, .bacq⟩, ⟨1, .ncmp⟩, ⟨1, .inc⟩,
      ⟨1, .ncmp⟩, ⟨1, .brel⟩, ⟨1, .nget⟩, ⟨1, .exc⟩, ⟨0, .call⟩, ⟨0, .hget⟩, ⟨0, .hget⟩, ⟨0, .nget⟩,
      ⟨0, .bacq⟩, ⟨0, .ncmp⟩, ⟨0, .inc⟩, ⟨0, .ncmp⟩, ⟨0, .get⟩, ⟨0, .brel⟩, ⟨0, .nget⟩, ⟨0, .exc⟩], rfl⟩, ?_⟩
  decide

/-- the source fails after one element: both forks receive `[0]`, then the exception -/
example :
    let c : Cfg := { n := 2, bs := 2, len := 1, fail := true }
    ∃ s, Reachable c s ∧ Final c s ∧ (s.forks 0).out = [0] ∧ (s.forks 1).out = [0] ∧
      (s.forks 0).fin = some .exc ∧ (s.forks 1).fin = some .exc ∧ s.lock = none := by
  refine ⟨_, ⟨[⟨1, .call⟩, ⟨1, .hget⟩, ⟨1, .hget⟩, ⟨1, .acqOk⟩, ⟨1, .hget⟩, ⟨1, .pull⟩, ⟨1, .put⟩, ⟨1, .hset⟩,
      ⟨1, .rel⟩, ⟨1, .hget⟩, ⟨1, .hget⟩, ⟨1, .nget⟩, ⟨1, .acqOk⟩, ⟨1, .nget⟩, ⟨1, .srcExc⟩,
      ⟨1, .nset⟩, ⟨1, .put⟩, ⟨1, .rel⟩, ⟨1, .bacq⟩, ⟨1, .ncmp⟩, ⟨1, .inc⟩, ⟨1, .ncmp⟩, ⟨1, .brel⟩,
      ⟨1, .nget⟩, ⟨1, .recv⟩, ⟨1, .call⟩, ⟨1, .nget⟩, ⟨1, .bacq⟩, ⟨1, .ncmp⟩, ⟨1, .inc⟩, ⟨1, .ncmp⟩,
      ⟨1, .brel⟩, ⟨1, .nget⟩, ⟨1, .exc⟩, ⟨0, .call⟩, ⟨0, .hget⟩, ⟨0, .hget⟩, ⟨0, .nget⟩, ⟨0, .bacq⟩,
      ⟨0, .ncmp⟩, ⟨0, .inc⟩, ⟨0, .ncmp⟩, ⟨0, .get⟩, ⟨0, .brel⟩, ⟨0, .nget⟩, ⟨0, .recv⟩, ⟨0, .call⟩,
      ⟨0, .nget⟩, ⟨0, .bacq⟩, ⟨0, .ncmp⟩, ⟨0, .inc⟩, ⟨0, .ncmp⟩, ⟨0, .get⟩, ⟨0, .brel⟩, ⟨0, .nget⟩,
      ⟨0, .exc⟩], rfl⟩, ?_⟩
  decide

/-- the look-ahead bound is attained: fork 0 has received nothing, `pulled = 4 = 0 + bs + 2`
    (it has counted box 0, which the faster fork's pop removed from the window); the state is not
    final, so it also meets the hypotheses of `C10_progress` -/
example :
    let c : Cfg := { n := 2, bs := 2, len := 5, fail := false }
    ∃ s, Reachable c s ∧ ¬ Final c s ∧ (s.forks 0).out = [] ∧ (s.forks 1).out = [0, 1] ∧ s.pulled = 4 ∧ s.popped = 1 ∧ s.put = 3 := by
  refine ⟨_, ⟨[⟨1, .call⟩, ⟨1, .hget⟩, ⟨1, .hget⟩, ⟨1, .acqOk⟩, ⟨1, .hget⟩, ⟨1, .pull⟩, ⟨1, .put⟩, ⟨1, .hset⟩,
      ⟨1, .rel⟩, ⟨1, .hget⟩, ⟨1, .hget⟩, ⟨1, .nget⟩, ⟨1, .acqOk⟩, ⟨1, .nget⟩, ⟨1, .pull⟩, ⟨1, .nset⟩,
      ⟨1, .put⟩, ⟨1, .rel⟩, ⟨1, .bacq⟩, ⟨1, .ncmp⟩, ⟨1, .inc⟩, ⟨0, .call⟩, ⟨0, .hget⟩, ⟨0, .hget⟩,
      ⟨0, .nget⟩, ⟨1, .ncmp⟩, ⟨1, .brel⟩, ⟨1, .nget⟩, ⟨1, .recv⟩, ⟨1, .call⟩, ⟨1, .nget⟩, ⟨1, .acqOk⟩,
      ⟨1, .nget⟩, ⟨0, .bacq⟩, ⟨0, .ncmp⟩, ⟨0, .inc⟩, ⟨0, .ncmp⟩, ⟨0, .get⟩, ⟨1, .pull⟩, ⟨1, .nset⟩,
      ⟨1, .put⟩, ⟨1, .rel⟩, ⟨1, .bacq⟩, ⟨1, .ncmp⟩, ⟨1, .inc⟩, ⟨1, .ncmp⟩, ⟨1, .brel⟩, ⟨1, .nget⟩,
      ⟨1, .recv⟩, ⟨1, .call⟩, ⟨1, .nget⟩, ⟨1, .acqOk⟩, ⟨1, .nget⟩, ⟨1, .pull⟩], rfl⟩, ?_⟩
  decide

end Tee
