import MpsVerif.Proofs.LifecycleStart
import MpsVerif.Proofs.LifecycleWf
import MpsVerif.Proofs.LifecycleCands
import MpsVerif.Proofs.LifecyclePipes
import MpsVerif.Proofs.LifecycleCompile
/-!
# C11 — Server starts all-or-nothing and stops completely

Servlet trees = `Tree` (worker servlet with k thread/process workers | sequential | ensemble | switch, binary);
failure plan = any `bad : servlet → worker → Bool`; prior workload = any interleaving of `inject` actions with
node steps before `__exit__` begins (requests may be anywhere: failed, timed-out and abandoned-stream requests
are data messages like any other — nobody waits for them); schedules = all action lists; pipe capacity `K`.
-/
namespace Lifecycle

/-- `__enter__` either starts every thread of the tree (workers, ensemble/switch helpers, onboarding and gather
    threads) or reports the first worker, in launch order, whose `__init__` fails — and then no thread that was
    started is still running.  For every tree and every failure plan. -/
theorem C11_all_or_nothing (bad : Nat → Nat → Bool) (t : Tree) :
    let r := startServer bad t
    r.err = firstBad bad (workers t 0) ∧
    (∀ e, r.err = some e → e ∈ workers t 0 ∧ bad e.1 e.2 = true ∧ alive r.evs = []) ∧
    (r.err = none → alive r.evs = threads t 0 ++ serverThreads t) := by
  have h := startServer_spec bad t
  refine ⟨h.err, ?_, ?_⟩
  · intro e he
    have hf : firstBad bad (workers t 0) = some e := by rw [← h.err]; exact he
    refine ⟨List.mem_of_find?_eq_some hf, ?_, alive_nil_of_all_gone _ (h.ko (by simp [he]))⟩
    have := List.find?_some hf
    simpa [isBad] using this
  · intro he
    obtain ⟨hl, hg⟩ := h.ok he
    rw [alive_of_none_gone _ hg, hl]

/-
Full statement of "stop completes" (NOT provable: false for pipe-backed queues, see `C11_F19_witness`):

  theorem C11_stop_complete (K : Nat) (hK : 1 ≤ K) (t : Tree) (hpos : t.pos) (s : State)
      (hr : Reachable (compileServer K t) s) (hnf : ¬ Final s) :
      ∃ a, (step (compileServer K t) s a).isSome = true

together with `C11_stop_terminates`, `C11_stop_final`, `C11_reenter` below, which DO hold at full strength: for
every servlet tree (every servlet with ≥ 1 worker), every K and every residual workload — the compiled network is
well-formed for every such tree (`compile_WF`), so the `_tree` versions carry no well-formedness hypothesis.
What is proved instead of the progress half: `C11_stop_complete_partial(_tree)` — progress under the decidable
side condition `Net.safe`: every pipe-backed queue has ONE node writing to it, and the main thread puts its own
sentinel on it only after having joined that writer.  This covers every tree of thread servlets (no pipe at all:
`C11_stop_complete_threads_tree`, unconditional — the class the deterministic-scheduler tie runs) and, with
pipes of any capacity K ≥ 1 and ANY residual workload, e.g. sequences / ensembles of one-worker process servlets
under the repaired stop orders (F12, F24).  It excludes exactly the known hangs: a servlet with ≥ 2 workers writing
to a pipe (F19), switch members sharing a pipe-backed output queue, and the pinned stop orders (`Net.safe` is
`false` there, see the examples).  Missing: (a) the full statement is false; (b) a syntactic characterisation of
the trees with `(compileServer K t).safe = true` as a theorem (`safe` is a hypothesis, evaluated by `decide` for
the shapes below; it is sufficient, not necessary: an ensemble's `_enqueue` and `_dequeue` both write to its
output queue, so `S(E(..), P1)` is rejected although the F24 order makes it harmless).
-/

/-- once `__exit__` has begun, at most `mu` further steps can happen, whatever the schedule, the tree, the pipe
    capacity and the residual workload -/
theorem C11_stop_terminates (net : Net) (hwf : net.wf = true) (s : State) (hstop : s.stopping = true)
    (as : List Act) (s' : State) (hrun : Core.run (step net) s as = some s') : as.length ≤ mu net s := by
  have := Core.length_le_measure_inv (step := step net) (mu net) (fun s => s.stopping = true)
    (fun s a s' hi hs => stopping_step net s a s' hi (step_sound net s s' a hs))
    (fun s a s' hi hs => mu_decreases net (wf_sound net hwf) s a s' hi (step_sound net s s' a hs))
    as s s' hstop hrun
  omega

/-- when `__exit__` returns, every worker, helper, onboarding and gather thread has exited and the ledger is
    empty — for every well-formed network, pipe capacity and residual workload -/
theorem C11_stop_final (net : Net) (hwf : net.wf = true) (s : State) (hr : Reachable net s) (hf : Final s) :
    (∀ n, n < net.nodes.length → s.nodes n = .s []) ∧ s.ledger = 0 :=
  final_all_exited net (wf_sound net hwf) s (inv_reachable net (wf_sound net hwf) hr) hf

/-- no hang: in every reachable state in which `__exit__` has not returned some thread can move — for every
    well-formed network satisfying `Net.safe`, every pipe capacity, residual workload and schedule -/
theorem C11_stop_complete_partial (net : Net) (hwf : net.wf = true) (hsafe : net.safe = true) (s : State)
    (hr : Reachable net s) (hnf : ¬ Final s) : ∃ a, (step net s a).isSome = true :=
  progress_safe net (wf_sound net hwf) (safe_sound net hsafe) s hr hnf

/-- thread queues only (any tree shape, any number of workers per servlet) -/
theorem C11_stop_complete_threads (net : Net) (hwf : net.wf = true) (hub : Unbounded net) (s : State)
    (hr : Reachable net s) (hnf : ¬ Final s) : ∃ a, (step net s a).isSome = true :=
  progress_of_inv net (wf_sound net hwf) hub s (inv_reachable net (wf_sound net hwf) hr) hnf

/-- after `__exit__` the same server object can be entered again: all `assert not self._started` hold, the new
    state is the initial state (fresh queues and threads) and the ledger is empty -/
theorem C11_reenter (net : Net) (hwf : net.wf = true) (s : State) (hr : Reachable net s) (hf : Final s) :
    ∃ s0, reenter net s = some s0 ∧ s0.ledger = 0 ∧ s0.pc = net.script ∧ s0.stopping = false ∧
      (∀ n, s0.nodes n = .d []) ∧ (∀ c, s0.chans c = []) := by
  obtain ⟨hall, hl⟩ := C11_stop_final net hwf s hr hf
  refine ⟨{ init net with ledger := s.ledger }, ?_, hl, rfl, rfl, fun _ => rfl, fun _ => rfl⟩
  unfold reenter
  rw [if_pos]
  refine ⟨hf, ?_⟩
  simp only [List.all_eq_true, List.mem_range, decide_eq_true_eq]
  exact hall

/-! ### the same for servlet trees: no well-formedness hypothesis -/

/-- every servlet tree: once `__exit__` has begun at most `mu` further steps can happen -/
theorem C11_stop_terminates_tree (K : Nat) (t : Tree) (hpos : t.pos) (s : State) (hstop : s.stopping = true)
    (as : List Act) (s' : State) (hrun : Core.run (step (compileServer K t)) s as = some s') :
    as.length ≤ mu (compileServer K t) s := by
  have := Core.length_le_measure_inv (step := step (compileServer K t)) (mu (compileServer K t))
    (fun s => s.stopping = true)
    (fun s a s' hi hs => stopping_step _ s a s' hi (step_sound _ s s' a hs))
    (fun s a s' hi hs => mu_decreases _ (compile_WF K t hpos) s a s' hi (step_sound _ s s' a hs))
    as s s' hstop hrun
  omega

/-- every servlet tree: when `__exit__` returns every thread of the server has exited and the ledger is empty -/
theorem C11_stop_final_tree (K : Nat) (t : Tree) (hpos : t.pos) (s : State)
    (hr : Reachable (compileServer K t) s) (hf : Final s) :
    (∀ n, n < (compileServer K t).nodes.length → s.nodes n = .s []) ∧ s.ledger = 0 :=
  final_all_exited _ (compile_WF K t hpos) s (inv_reachable _ (compile_WF K t hpos) hr) hf

/-- every servlet tree: after `__exit__` the same server object can be entered again (fresh initial state, empty ledger) -/
theorem C11_reenter_tree (K : Nat) (t : Tree) (hpos : t.pos) (s : State) (hr : Reachable (compileServer K t) s)
    (hf : Final s) :
    ∃ s0, reenter (compileServer K t) s = some s0 ∧ s0.ledger = 0 ∧ s0.pc = (compileServer K t).script ∧
      s0.stopping = false ∧ (∀ n, s0.nodes n = .d []) ∧ (∀ c, s0.chans c = []) := by
  obtain ⟨hall, hl⟩ := C11_stop_final_tree K t hpos s hr hf
  refine ⟨{ init (compileServer K t) with ledger := s.ledger }, ?_, hl, rfl, rfl, fun _ => rfl, fun _ => rfl⟩
  unfold reenter
  rw [if_pos]
  refine ⟨hf, ?_⟩
  simp only [List.all_eq_true, List.mem_range, decide_eq_true_eq]
  exact hall

/-- every tree of thread servlets (any shape, any number of workers): `__exit__` never hangs, whatever the
    residual workload and the schedule -/
theorem C11_stop_complete_threads_tree (K : Nat) (t : Tree) (hpos : t.pos) (hth : t.threadOnly) (s : State)
    (hr : Reachable (compileServer K t) s) (hnf : ¬ Final s) :
    ∃ a, (step (compileServer K t) s a).isSome = true :=
  progress_of_inv _ (compile_WF K t hpos) (compile_unbounded K t hth) s
    (inv_reachable _ (compile_WF K t hpos) hr) hnf

/-- every servlet tree whose compiled network is `safe` (pipes included, any K ≥ 1, any residual workload) -/
theorem C11_stop_complete_partial_tree (K : Nat) (t : Tree) (hpos : t.pos)
    (hsafe : (compileServer K t).safe = true) (s : State) (hr : Reachable (compileServer K t) s) (hnf : ¬ Final s) :
    ∃ a, (step (compileServer K t) s a).isSome = true :=
  progress_safe _ (compile_WF K t hpos) (safe_sound _ hsafe) s hr hnf

/-- F19 in the model (it is a property of the stop protocol, repaired code included): a first-stage
    `ProcessServlet` with three workers, pipes holding one message.  Worker 0 takes the sentinel and forwards
    it while workers 1 and 2 still hold a result; the second stage leaves on the sentinel; worker 1's result
    fills the pipe nobody reads any more; worker 2 blocks on it forever and `stop` never joins it. -/
theorem C11_F19_witness :
    ∃ s, Reachable (compileServer 1 (.seq (.simple 3 true) (.simple 1 true))) s ∧ ¬ Final s ∧
      ∀ a, step (compileServer 1 (.seq (.simple 3 true) (.simple 1 true))) s a = none := by
  apply deadlocks_sound _
    [.inject, .inject, .inject,
     .get 5 3 0, .put 5, .get 0 0 0,
     .get 5 3 0, .put 5, .get 1 0 0,
     .get 5 3 0, .put 5, .get 2 0 0,
     .main, .get 5 3 0, .put 5, .main,
     .put 0, .get 0 0 0, .put 0, .put 0,
     .get 3 2 0, .put 3, .get 3 2 0, .put 3, .put 3,
     .get 4 1 0, .get 4 1 0,
     .put 1, .get 1 0 0, .put 1, .put 1,
     .main, .main, .main]
  decide

/-- non-vacuity of the hypotheses: compiled trees are well-formed (sequential / ensemble / switch, several
    workers, thread and process servlets), and thread-servlet trees are `Unbounded` -/
example : (compileServer 3 (.seq (.simple 2 false) (.ens (.simple 1 false) (.sw (.simple 2 false) (.simple 1 false))))).wf = true := by
  decide
example : (compileServer 1 (.ens (.simple 3 true) (.seq (.simple 2 true) (.simple 1 false)))).wf = true := by decide
/-- `Net.safe`: one-worker process servlets in sequence / ensemble are safe for every residual workload; the
    F19 shape, a switch over process members, thread workers feeding a pipe, and the pinned exit order are not -/
example : (compileServer 1 (.seq (.simple 1 true) (.ens (.simple 1 true) (.seq (.simple 1 true) (.simple 1 false))))).safe = true := by
  decide
example : (compileServer 1 (.seq (.simple 3 true) (.simple 1 true))).safe = false := by decide
example : (compileServer 1 (.sw (.simple 1 true) (.simple 1 true))).safe = false := by decide
example : (compileServer 1 (.seq (.simple 2 false) (.simple 1 true))).safe = false := by decide
example : (compileServer 1 (.simple 1 true) (pinned := true)).safe = false := by decide
example : (compileServer 3 (.seq (.simple 2 false) (.ens (.simple 1 false) (.simple 2 false)))).safe = true := by decide

example : Unbounded (compileServer 3 (.seq (.simple 2 false) (.ens (.simple 1 false) (.simple 2 false)))) :=
  unbounded_of_all _ (by decide)

/-- non-vacuity: a two-worker thread servlet followed by a one-worker servlet, two requests accepted, the stop
    overtaken by nothing: the run reaches `Final` (all seven `__exit__` instructions executed) -/
example :
    let net := compileServer 1 (.seq (.simple 2 false) (.simple 1 false))
    (match Core.run (step net) (init net)
        [.inject, .inject, .get 0 0 0, .main, .get 1 0 0, .put 0, .get 0 0 0, .put 0, .put 0, .put 1,
         .get 1 0 0, .put 1, .put 1, .main, .main, .main,
         .get 2 2 0, .put 2, .get 2 2 0, .put 2, .put 2, .main, .get 3 1 0, .get 3 1 0, .main, .main] with
     | some s => decide (Final s) && s.ledger == 0 && s.stopping
     | none => false) = true := by
  decide

/-- non-vacuity of `C11_all_or_nothing`: worker 1 of the second servlet fails; three workers had been started -/
example :
    let r := startServer (fun sv w => sv == 2 && w == 1) (.seq (.simple 2 false) (.simple 2 false))
    r.err = some (2, 1) ∧ (launched r.evs).length = 4 ∧ alive r.evs = [] := by
  decide

end Lifecycle
