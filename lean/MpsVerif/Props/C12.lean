import MpsVerif.Proofs.ProcOutcomeLive
import MpsVerif.Proofs.ProcOutcomeThr
/-!
# C12 — Process and Thread objects report how their target really ended

Quantifiers: every outcome (`ret v` for every object `v`, `raise e`, `exit c` for every
`sys.exit` argument), every signal `sig ≥ 1` delivered in any child state before its exit
(`kill sig` is enabled there: before the target, during, between the two pipe messages, after
both), every interleaving of child / collector / logger, and every order and moment of accessor
calls (`ask a`) = all action lists.  `Reachable c s` is `∃ as, Core.run (step c) init as = some s`.
-/
namespace ProcOutcome

/-! ## resolved: nothing hangs -/

/-- Progress: in every reachable state that is not final, the system itself can move (no signal
    and no accessor call needed); in a final state the future is resolved and **every** accessor
    — `join`, `result`, `exception`, `done`, `exitcode`, `wait`, `as_completed` — returns. -/
theorem C12_resolved (c : Cfg) (s : State) (hr : Reachable c s) :
    (¬ Final s → ∃ a, a.isAsk = false ∧ a.isKill = false ∧ (step c s a).isSome = true) ∧
    (Final s → s.fut.isSome = true ∧ ∀ a, canAnswer a s = true) := by
  have hi := reachable_inv c hr
  refine ⟨progress_of_inv c s hi, fun hf => ⟨?_, final_answers c s hi hf⟩⟩
  rw [hi.k6.1 hf.2]; rfl

/-- Bounded time: whatever the outcome, the signal and the schedule, at most 13 actions other
    than accessor calls ever happen; with `C12_resolved` every maximal run reaches `Final`. -/
theorem C12_resolved_bound (c : Cfg) (as : List Act) (s : State)
    (hr : Core.run (step c) init as = some s) : (as.filter (fun a => !a.isAsk)).length ≤ 13 := by
  have := work_le_measure c as init s hr
  simp [mu, init, crank, krank] at this
  omega

/-- the future is resolved only after the child is gone (so a completed `wait` means `join`
    will not block on the process) and never changes its value: it is the table's -/
theorem C12_resolved_value (c : Cfg) (s : State) (hr : Reachable c s) (f : Fut) (hf : s.fut = some f) :
    f = verdict c.outcome s.killed ∧ s.cpc = .exited ∧
      s.exitcode = some (finalCode c.outcome s.killed) := by
  have hi := reachable_inv c hr
  have hd : s.kpc = .done := by
    by_cases hd : s.kpc = .done
    · exact hd
    · have := hi.k6.2 hd; rw [hf] at this; simp at this
  have hex := hi.k5 (by simp [hd])
  refine ⟨?_, hex, (hi.c5 hex).2⟩
  have := hi.k6.1 hd; rw [hf] at this
  rw [← (hi.k4 (by simp [hd])).1]; simpa using this

/-! ## consistent: one table -/

/-- In a final state every accessor's answer is `finalAns outcome kill-history accessor`: all
    seven read the same verdict. -/
theorem C12_consistent (c : Cfg) (s : State) (hr : Reachable c s) (hf : Final s) (a : Acc) :
    answer a s = finalAns c.outcome s.killed a := by
  have hi := reachable_inv c hr
  obtain ⟨hc, hk⟩ := hf
  have h5 := (hi.c5 hc).2
  have h6 := hi.k6.1 hk
  have h4 := (hi.k4 (by simp [hk])).1
  cases a <;> simp [answer, finalAns, h5, h6, h4, ansOfFut]

/-- the kill did not interfere: none, or after both messages were sent -/
def Undisturbed : Option (Nat × Phase) → Prop
  | none => True
  | some (_, ph) => ph = .after

/-- value ⇒ `result` returns it, `exception` is `None`, `join` returns -/
theorem C12_table_value (v : Obj) (k : Option (Nat × Phase)) (hk : Undisturbed k) :
    finalAns (.ret v) k .result = .returned v ∧ finalAns (.ret v) k .exception = .returned .none ∧
    finalAns (.ret v) k .join = .returned .none := by
  match k, hk with
  | none, _ => simp [finalAns, verdict, ownFut, sentTotal, resolveWith, firstMsg, secondMsg, ansOfFut]
  | some (sig, .after), _ => simp [finalAns, verdict, ownFut, sentTotal, resolveWith, firstMsg, secondMsg, ansOfFut]

/-- raise ⇒ the same exception object (class, args, traceback text) from `join`, `result`
    (raised) and `exception` (returned); exit status 1 unless killed -/
theorem C12_table_raise (e : Nat) (k : Option (Nat × Phase)) (hk : Undisturbed k) :
    finalAns (.raise e) k .join = .raised (.exc (.child e)) ∧
    finalAns (.raise e) k .result = .raised (.exc (.child e)) ∧
    finalAns (.raise e) k .exception = .returned (.exc (.child e)) ∧
    finalAns (.raise e) none .exitcode = .code (some 1) := by
  match k, hk with
  | none, _ =>
    simp [finalAns, verdict, ownFut, sentTotal, resolveWith, secondMsg, ansOfFut, finalCode, mpExit, osStatus]
  | some (sig, .after), _ =>
    simp [finalAns, verdict, ownFut, sentTotal, resolveWith, secondMsg, ansOfFut, finalCode, mpExit, osStatus]

/-- `sys.exit()` / `sys.exit(0)` ⇒ a clean `None` result and exit status 0 -/
theorem C12_table_exit_clean (x : Code) (hx : x.clean = true) (k : Option (Nat × Phase)) (hk : Undisturbed k) :
    finalAns (.exit x) k .result = .returned .none ∧ finalAns (.exit x) k .exception = .returned .none ∧
    finalAns (.exit x) k .join = .returned .none ∧ finalAns (.exit x) none .exitcode = .code (some 0) := by
  have h0 : osStatus (mpExit (.exit x)) = 0 := by
    cases x <;> simp_all [Code.clean, mpExit, osStatus]
  match k, hk with
  | none, _ => simp [finalAns, verdict, ownFut, sentTotal, resolveWith, firstMsg, secondMsg, ansOfFut, hx, finalCode, h0]
  | some (sig, .after), _ =>
    simp [finalAns, verdict, ownFut, sentTotal, resolveWith, firstMsg, secondMsg, ansOfFut, hx, finalCode, h0]

/-- `sys.exit(k)`, `k ≠ 0`, or `sys.exit(<non-int>)` ⇒ the `SystemExit` from `join`/`result`/
    `exception`; exit status `k mod 256`, resp. 1 -/
theorem C12_table_exit_error (x : Code) (hx : x.clean = false) (k : Option (Nat × Phase)) (hk : Undisturbed k) :
    finalAns (.exit x) k .join = .raised (.exc (.sysExit x)) ∧
    finalAns (.exit x) k .result = .raised (.exc (.sysExit x)) ∧
    finalAns (.exit x) k .exception = .returned (.exc (.sysExit x)) ∧
    (∀ n, x = .int n → finalAns (.exit x) none .exitcode = .code (some (n % 256))) ∧
    (∀ i, x = .str i → finalAns (.exit x) none .exitcode = .code (some 1)) := by
  match k, hk with
  | none, _ =>
    refine ⟨?_, ?_, ?_, ?_, ?_⟩ <;>
      simp_all [finalAns, verdict, ownFut, sentTotal, resolveWith, secondMsg, ansOfFut, finalCode, mpExit, osStatus]
  | some (sig, .after), _ =>
    refine ⟨?_, ?_, ?_, ?_, ?_⟩ <;>
      simp_all [finalAns, verdict, ownFut, sentTotal, resolveWith, secondMsg, ansOfFut, finalCode, mpExit, osStatus]

/-- death by an unexpected signal (any signal but 15) before both messages were sent ⇒ an
    `OSError(sig)` from `join`, `result` (raised) and `exception` (returned), exit status `-sig`,
    and `wait` / `as_completed` complete — for every outcome the target would have had -/
theorem C12_table_signal (o : Outcome) (sig : Nat) (ph : Phase) (hph : ph ≠ .after) (hsig : sig ≠ 15) :
    finalAns o (some (sig, ph)) .join = .raised (.exc (.osErr sig)) ∧
    finalAns o (some (sig, ph)) .result = .raised (.exc (.osErr sig)) ∧
    finalAns o (some (sig, ph)) .exception = .returned (.exc (.osErr sig)) ∧
    finalAns o (some (sig, ph)) .exitcode = .code (some (-(sig : Int))) ∧
    finalAns o (some (sig, ph)) .done = .flag true ∧
    finalAns o (some (sig, ph)) .wait = .completed ∧
    finalAns o (some (sig, ph)) .asCompleted = .completed := by
  have h15 : ¬ ((sig : Int) = 15) := by omega
  cases ph <;> simp_all [finalAns, verdict, ansOfFut, finalCode]

/-- signal 15 (`terminate()`) before both messages were sent ⇒ no error: `join` returns,
    `exception` is `None`, `result` is what had been sent (`None` unless the kill fell between the
    two messages), exit status -15 -/
theorem C12_table_terminate (o : Outcome) (ph : Phase) (hph : ph ≠ .after) :
    finalAns o (some (15, ph)) .join = .returned .none ∧
    finalAns o (some (15, ph)) .exception = .returned .none ∧
    finalAns o (some (15, ph)) .result = .returned (if ph = .between then firstMsg o else .none) ∧
    finalAns o (some (15, ph)) .exitcode = .code (some (-15)) := by
  cases ph <;> simp_all [finalAns, verdict, ansOfFut, finalCode]

/-- an outcome that cannot be pickled (`retU`: the returned value, `raiseU`: the raised exception):
    the child ends by itself with status 1 before both messages are sent; every accessor returns
    and all report the same error — `OSError(-1)` in the repaired code (the property prescribes an
    error, not which one): `join`/`result` raise it, `exception` returns it, `done`, exit status 1,
    `wait`/`as_completed` complete.  (That they do return is `C12_resolved` / `_bound`, which
    cover these outcomes like all others.) -/
theorem C12_table_unpicklable (o : Outcome) (ho : sentTotal o < 2) :
    finalAns o none .join = .raised (.exc (.osErr (-1))) ∧
    finalAns o none .result = .raised (.exc (.osErr (-1))) ∧
    finalAns o none .exception = .returned (.exc (.osErr (-1))) ∧
    finalAns o none .exitcode = .code (some 1) ∧
    finalAns o none .done = .flag true ∧
    finalAns o none .wait = .completed ∧
    finalAns o none .asCompleted = .completed := by
  obtain ⟨h1, h2⟩ := own_short ho
  simp [finalAns, verdict, h1, ansOfFut, finalCode, h2]

/-- … and killed before it got that far it is reported like every other outcome (`C12_table_signal`,
    `C12_table_terminate` hold for every `o`); it never reaches the state "both messages sent" -/
theorem C12_unpicklable_never_sends_both (c : Cfg) (s : State) (hr : Reachable c s)
    (ho : sentTotal c.outcome < 2) : s.sent < 2 ∧ s.cpc ≠ .closing := by
  have hi := reachable_inv c hr
  refine ⟨by have := hi.c8; omega, fun h => ?_⟩
  have := hi.c3 h; have := hi.c8; omega

/-! ## order-free -/

/-- Every answer any accessor ever gave — whichever was called first, at whatever moment, however
    often — is the table's entry for (outcome, kill history), or, for the two non-blocking
    accessors asked while the worker was still running, "not done yet". -/
theorem C12_order_free (c : Cfg) (s : State) (hr : Reachable c s) (a : Acc) (r : Ans)
    (hm : (a, r) ∈ s.answers) :
    r = finalAns c.outcome s.killed a ∨ pendingAns a = some r := by
  rcases (reachable_inv c hr).a1 a r hm with h | h
  · exact Or.inr h
  · exact Or.inl h.2

/-- two runs of the same outcome with the same kill history — any schedules, any accessor
    orders — give the same answer to every blocking accessor -/
theorem C12_order_free_runs (c : Cfg) (s1 s2 : State) (h1 : Reachable c s1) (h2 : Reachable c s2)
    (hk : s1.killed = s2.killed) (a : Acc) (r1 r2 : Ans) (hb : pendingAns a = none)
    (m1 : (a, r1) ∈ s1.answers) (m2 : (a, r2) ∈ s2.answers) : r1 = r2 := by
  rcases C12_order_free c s1 h1 a r1 m1 with e1 | e1
  · rcases C12_order_free c s2 h2 a r2 m2 with e2 | e2
    · rw [e1, e2, hk]
    · rw [hb] at e2; simp at e2
  · rw [hb] at e1; simp at e1

/-! ## thread variant -/

/-- a `Thread` resolves its future before it ends; at most 2 non-accessor actions; in the final
    state every accessor returns -/
theorem C12_thread_resolved (c : Cfg) (s : Thr.State) (hr : Thr.Reachable c s) :
    (¬ Thr.Final s → ∃ a, Thr.isAsk a = false ∧ (Thr.step c s a).isSome = true) ∧
    (Thr.Final s → s.fut = some (Thr.threadFut c.outcome) ∧ ∀ a, Thr.canAnswer a s = true) := by
  have hi := Thr.reachable_inv c hr
  constructor
  · intro hnf
    cases ht : s.tpc with
    | run => exact ⟨.tSet, rfl, by simp [Thr.step, ht]⟩
    | set => exact ⟨.tEnd, rfl, by simp [Thr.step, ht]⟩
    | dead => exact absurd ht hnf
  · intro hf
    have hd : s.tpc = .dead := hf
    have h2 := hi.f2 (by rw [hd]; simp)
    refine ⟨h2, fun a => ?_⟩
    cases a <;> simp [Thr.canAnswer, h2, hd]

theorem C12_thread_resolved_bound (c : Cfg) (as : List Thr.Act) (s : Thr.State)
    (hr : Core.run (Thr.step c) Thr.init as = some s) :
    (as.filter (fun a => !Thr.isAsk a)).length ≤ 2 := by
  have := Thr.work_le_measure c as Thr.init s hr
  simp [Thr.init, Thr.trank] at this
  omega

/-- every answer a `Thread` accessor ever gave is the table's (or "not done yet") -/
theorem C12_thread_consistent (c : Cfg) (s : Thr.State) (hr : Thr.Reachable c s) (a : Acc) (r : Ans)
    (hm : (a, r) ∈ s.answers) : r = Thr.finalAns c.outcome a ∨ pendingAns a = some r := by
  rcases (Thr.reachable_inv c hr).a1 a r hm with h | h
  · exact Or.inr h
  · exact Or.inl h

/-- `Thread` and an undisturbed `Process` report the same verdict for the same outcome that can
    cross the pipe (an unpicklable outcome is an ordinary one for a `Thread`, an error for a `Process`) -/
theorem C12_thread_same_table (o : Outcome) (hp : sentTotal o = 2) : Thr.threadFut o = verdict o none := by
  cases o with
  | retU v => simp [sentTotal] at hp
  | raiseU e => simp [sentTotal] at hp
  | ret v => cases v <;> simp [Thr.threadFut, verdict, ownFut, sentTotal, resolveWith, firstMsg, secondMsg]
  | raise e => simp [Thr.threadFut, verdict, ownFut, sentTotal, resolveWith, secondMsg]
  | exit x =>
    cases hx : x.clean <;> simp [Thr.threadFut, verdict, ownFut, sentTotal, resolveWith, firstMsg, secondMsg, hx]

/-! ## non-vacuity -/

/-- SIGKILL while the target runs, `wait` called first: final, future = `OSError(9)`, `wait`
    completed, `join` raised it -/
example :
    let c : Cfg := { outcome := .ret (.val 5) }
    ∃ s, Reachable c s ∧ Final s ∧ s.killed = some (9, .during) ∧
      s.fut = some (.err (.exc (.osErr 9))) ∧
      s.answers = [(.done, .flag false), (.wait, .completed), (.join, .raised (.exc (.osErr 9)))] := by
  refine ⟨_, ⟨[.cBoot, .ask .done, .kill 9, .kEof, .kEofCode, .kSentinel, .kPutEnd, .kJoinLog, .kResolve,
              .ask .wait, .ask .join], rfl⟩, ?_⟩
  decide

/-- an exception, killed between the two messages by SIGTERM: reported as a clean `None` -/
example :
    let c : Cfg := { outcome := .raise 3 }
    ∃ s, Reachable c s ∧ Final s ∧ s.killed = some (15, .between) ∧ s.fut = some (.ok .none) := by
  refine ⟨_, ⟨[.cBoot, .cTargetEnd, .cSend1, .kRecv, .kill 15, .kEof, .kEofCode, .kSentinel, .kPutEnd,
              .logStop, .kJoinLog, .kResolve], rfl⟩, ?_⟩
  decide

/-- the returned value cannot be pickled: the child fails in the first `send`, ends with status 1;
    `wait` completes, `exception()` returns `OSError(-1)` -/
example :
    let c : Cfg := { outcome := .retU 7 }
    ∃ s, Reachable c s ∧ Final s ∧ s.killed = none ∧ s.exitcode = some 1 ∧ s.sent = 0 ∧
      s.answers = [(.wait, .completed), (.exception, .returned (.exc (.osErr (-1))))] := by
  refine ⟨_, ⟨[.cBoot, .cTargetEnd, .cSendFail, .kEof, .kEofCode, .kSentinel, .kPutEnd, .kJoinLog, .kResolve,
              .ask .wait, .ask .exception], rfl⟩, ?_⟩
  decide

/-- the raised exception cannot be pickled: first message sent, the second `send` fails -/
example :
    let c : Cfg := { outcome := .raiseU 3 }
    ∃ s, Reachable c s ∧ Final s ∧ s.sent = 1 ∧ s.fut = some (.err (.exc (.osErr (-1)))) := by
  refine ⟨_, ⟨[.cBoot, .cTargetEnd, .cSend1, .kRecv, .cSendFail, .kEof, .kEofCode, .kSentinel, .kPutEnd,
              .kJoinLog, .kResolve], rfl⟩, ?_⟩
  decide

/-- a longest run: 12 non-accessor actions (the bound 13 of `C12_resolved_bound` is within one) -/
example :
    let c : Cfg := { outcome := .exit (.int 3) }
    ∃ as s, Core.run (step c) init as = some s ∧ (as.filter (fun a => !a.isAsk)).length = 12 ∧
      Final s ∧ s.fut = some (.err (.exc (.sysExit (.int 3)))) ∧ s.exitcode = some 3 := by
  refine ⟨[.cBoot, .cTargetEnd, .cSend1, .cSend2, .cExit, .kRecv, .kRecv, .kSentinel, .kPutEnd, .logStop,
           .kJoinLog, .kResolve], _, rfl, ?_⟩
  decide

/-- thread: `sys.exit("bye")` surfaces as the `SystemExit` -/
example :
    let c : Cfg := { outcome := .exit (.str 4) }
    ∃ s, Thr.Reachable c s ∧ Thr.Final s ∧
      s.answers = [(.wait, .completed), (.result, .raised (.exc (.sysExit (.str 4))))] := by
  refine ⟨_, ⟨[.tSet, .ask .wait, .tEnd, .ask .result], rfl⟩, ?_⟩
  decide

end ProcOutcome
