import MpsVerif.Proofs.RefcountQuiesce
/-!
# C13 — hosted objects live exactly as long as some proxy refers to them

Model: `Model/Refcount.lean` (the manager server's `id_to_refcount` / `id_to_obj` tables, every
proxy object and every pickle in existence as an entry `(holder, ident)` of `refs`; client
processes `p : Nat`, any number of them).  `Reachable s` = `s` is reached from the empty server by
**any** list of actions: create / managed() return, pickle, un-pickle (two atomic halves), drop
(finalizer), store in / take out of a hosted container, call, process exit — issued by any client,
in any interleaving, with any identifier the allocator hands out.  No bound on the number of
clients, objects, references or steps.

A "reference to `i`" is an entry `(h, i) ∈ s.refs` with `h` one of: `client p` (live proxy in
process `p`), `transit` / `rebuild` (a pickle on its way / being un-pickled), `item c` (a proxy
stored in hosted container `c`), `temp` (a proxy in the server referenced only by a serving
thread's locals — the server drops these on its own).
-/
namespace Refcount

/-- the server's count of `i` is exactly: live proxies in clients + pickles in transit +
    proxies nested in hosted containers + server temporaries -/
theorem C13_count_exact (s : State) (hr : Reachable s) (i : Nat) :
    s.rc i = live s i + inTransit s i + nested s i + temps s i := by
  rw [(inv_reachable hr).count i]
  exact cnt_partition s.refs i

/-- as long as any reference to `i` exists — anywhere — `i` is hosted with a positive count, a
    memory block's shared memory is still linked, and a container holding a nested proxy is
    itself hosted -/
theorem C13_alive (s : State) (hr : Reachable s) (h : Holder) (i : Nat) (hm : (h, i) ∈ s.refs) :
    s.hosted i = true ∧ 0 < s.rc i ∧ (s.kind i = .mem → s.shm i = true) ∧
    (∀ c, h = .item c → s.hosted c = true) := by
  have hinv := inv_reachable hr
  have hpos := pos_of_mem hinv hm
  have hh := (hinv.hosted i).mpr hpos
  refine ⟨hh, hpos, fun hk => (hinv.shm i).mpr ⟨hh, hk⟩, ?_⟩
  intro c hc; subst hc
  exact (hinv.item c i hm).1

/-- … and usable: the holder's operations on it do not fail — a running client can call through
    its proxy and pickle it, a pickle can be un-pickled by any running client or by the server, a
    nested proxy can be read back (pickled by the server), every finalizer can run -/
theorem C13_usable (s : State) (hr : Reachable s) :
    (∀ p i, (Holder.client p, i) ∈ s.refs → s.stat p = .running →
        (step s (.call p i)).isSome ∧ (step s (.pickle (.client p) i)).isSome) ∧
    (∀ i dst, (Holder.transit, i) ∈ s.refs → dstOk s dst = true → (step s (.unpickle dst i)).isSome) ∧
    (∀ c i, (Holder.item c, i) ∈ s.refs → (step s (.pickle (.item c) i)).isSome) ∧
    (∀ h i, (h, i) ∈ s.refs → (h = .temp ∨ h = .rebuild ∨ (h.isClient = true ∧ canAct s h = true)) →
        (step s (.drop h i)).isSome) := by
  have hinv := inv_reachable hr
  refine ⟨?_, ?_, ?_, ?_⟩
  · intro p i hm hp
    have hh := (C13_alive s hr _ i hm).1
    simp [step, hm, hp, hh, canAct]
  · intro i dst hm hd
    have hh := (C13_alive s hr _ i hm).1
    simp [step, hm, hd, hh]
  · intro c i hm
    have hh := (C13_alive s hr _ i hm).1
    simp [step, hm, hh, canAct]
  · intro h i hm hk
    have hpos := pos_of_mem hinv hm
    simp [step, hm, hpos, hk]

/-- once no reference to `i` is left anywhere, `i` is not hosted any more, its count is gone and
    its shared memory block is unlinked -/
theorem C13_released (s : State) (hr : Reachable s) (i : Nat) (hn : ∀ h, (h, i) ∉ s.refs) :
    s.hosted i = false ∧ s.rc i = 0 ∧ s.shm i = false := by
  have hinv := inv_reachable hr
  have h0 : s.rc i = 0 := by
    rw [hinv.count i]
    apply List.countP_eq_zero.mpr
    intro r hrm hri
    obtain ⟨h, j⟩ := r
    have : j = i := by simpa using hri
    subst this
    exact hn h hrm
  have hh : s.hosted i = false := by
    cases hho : s.hosted i with
    | false => rfl
    | true => have := (hinv.hosted i).mp hho; omega
  refine ⟨hh, h0, ?_⟩
  cases hsh : s.shm i with
  | false => rfl
  | true => have := ((hinv.shm i).mp hsh).1; rw [hh] at this; cases this

/-- the server temporaries go away **without any further client action**: from every reachable
    state, at most `refs.length` server-internal steps (always enabled) lead to a state without
    temporaries, in which every client's proxies and every pickle are untouched, and in which
    every object that no client proxy, pickle or nested proxy refers to is released -/
theorem C13_released_by_server_alone (s : State) (hr : Reachable s) :
    ∃ as s', (∀ a ∈ as, serverInternal a = true) ∧ as.length ≤ s.refs.length ∧
      Core.run step s as = some s' ∧
      (∀ i, temps s' i = 0) ∧
      (∀ i, live s' i = live s i ∧ inTransit s' i = inTransit s i) ∧
      (∀ i, live s' i = 0 → inTransit s' i = 0 → nested s' i = 0 →
          s'.hosted i = false ∧ s'.rc i = 0 ∧ s'.shm i = false) := by
  have hinv := inv_reachable hr
  obtain ⟨as, h1, h2, h3, h4, h5⟩ := quiesce_spec s.refs.length s hinv (Nat.le_refl _)
  have hr' : Reachable (quiesce s.refs.length s) := by
    obtain ⟨bs, hbs⟩ := hr
    exact ⟨bs ++ as, by rw [Core.run_append, hbs]; exact h3⟩
  have htemps : ∀ i, temps (quiesce s.refs.length s) i = 0 := by
    intro i
    apply List.countP_eq_zero.mpr
    intro r hrm
    have := h4 r hrm
    cases hh : r.1 <;> simp_all [Holder.isTemp]
  refine ⟨as, _, h1, h2, h3, htemps, ?_, ?_⟩
  · intro i
    exact ⟨h5 _ stable_isClient i, h5 _ stable_isTransit i⟩
  · intro i hl ht hn
    have hc := C13_count_exact _ hr' i
    rw [hl, ht, hn, htemps i] at hc
    have hinv' := inv_reachable hr'
    have hh : (quiesce s.refs.length s).hosted i = false := by
      cases hho : (quiesce s.refs.length s).hosted i with
      | false => rfl
      | true => have := (hinv'.hosted i).mp hho; omega
    refine ⟨hh, hc, ?_⟩
    cases hsh : (quiesce s.refs.length s).shm i with
    | false => rfl
    | true => have := ((hinv'.shm i).mp hsh).1; rw [hh] at this; cases this

/-- a process that has exited holds nothing: every proxy it still had when it began to exit has
    given its reference back (the exit cannot complete before) … -/
theorem C13_exit_returns_all (s : State) (hr : Reachable s) (p : Nat) (hp : s.stat p = .exited) :
    ∀ i, (Holder.client p, i) ∉ s.refs :=
  fun i => (inv_reachable hr).exited p i hp

/-- … and exiting never blocks: every remaining finalizer can run, after the last one the exit
    completes -/
theorem C13_exit_progress (s : State) (hr : Reachable s) (p : Nat) (hp : s.stat p = .exiting) :
    (∀ i, (Holder.client p, i) ∈ s.refs → (step s (.drop (.client p) i)).isSome) ∧
    ((∀ i, (Holder.client p, i) ∉ s.refs) → (step s (.exitEnd p)).isSome) := by
  constructor
  · intro i hm
    exact (C13_usable s hr).2.2.2 _ i hm (Or.inr (Or.inr ⟨rfl, by simp [canAct, hp]⟩))
  · intro hn
    have : ∀ r ∈ s.refs, r.1 ≠ .client p := by
      intro r hrm hh
      obtain ⟨h, j⟩ := r
      simp at hh; subst hh
      exact hn j hrm
    simp only [step, hp, true_and]
    rw [if_pos this]; rfl

/-! ## whole operations (the atomic-action lists the driver uses for them) -/

/-- creating an object (`manager.<typeid>(…)`, or a hosted method returning `managed(new object)`):
    entry + server-side proxy, reply pickled, temporary dropped, client un-pickles.  Net effect from
    *any* state: exactly one reference, the caller's; count 1; a memory block's shm linked. -/
theorem C13_create_returns_one_reference (s : State) (p i : Nat) (k : Kind)
    (hi : s.hosted i = false) (hp : s.stat p = .running) :
    ∃ s', Core.run step s [.create k i, .pickle .temp i, .drop .temp i, .unpickle (.client p) i, .drop .rebuild i]
        = some s' ∧
      s'.refs = (.client p, i) :: s.refs ∧ s'.rc i = 1 ∧ (∀ j, j ≠ i → s'.rc j = s.rc j) ∧
      s'.hosted i = true ∧ s'.kind i = k ∧ s'.shm i = decide (k = .mem) := by
  let s1 : State := { s with rc := fun j => if j = i then 1 else s.rc j
                             hosted := fun j => if j = i then true else s.hosted j
                             kind := fun j => if j = i then k else s.kind j
                             shm := fun j => if j = i then decide (k = .mem) else s.shm j
                             refs := (.temp, i) :: s.refs }
  let s2 : State := { incref s1 i with refs := (.transit, i) :: (.temp, i) :: s.refs }
  let s3 : State := decref { s2 with refs := (.transit, i) :: s.refs } i
  let s4 : State := { incref s3 i with refs := (.client p, i) :: (.rebuild, i) :: s.refs }
  let s5 : State := decref { s4 with refs := (.client p, i) :: s.refs } i
  have h1 : step s (.create k i) = some s1 := by simp [step, hi, s1]
  have h2 : step s1 (.pickle .temp i) = some s2 := by simp [step, canAct, s1, s2]
  have h3 : step s2 (.drop .temp i) = some s3 := by simp [step, incref, s1, s2, s3]
  have h3' : s3.rc i = 1 ∧ s3.hosted i = true ∧ s3.refs = (.transit, i) :: s.refs ∧ s3.stat = s.stat := by
    simp [s3, s2, s1, decref, incref]
  have h4 : step s3 (.unpickle (.client p) i) = some s4 := by
    simp [step, dstOk, h3'.2.1, h3'.2.2.1, h3'.2.2.2, hp, s4]
  have h5 : step s4 (.drop .rebuild i) = some s5 := by
    simp [step, incref, s4, s5, h3'.1]
  refine ⟨s5, ?_, ?_⟩
  · simp [Core.run_cons, h1, h2, h3, h4, h5]
  · simp [s5, s4, s3, s2, s1, decref, incref]
    intro j hj; simp [hj]

/-- passing a proxy to another process (`Process(args=(proxy,))`, a queue, a pipe): `__reduce__` in
    `p`, `RebuildProxy` in `q` — ordinary, or while the spawned child `q` bootstraps (the same in the
    repaired code).  Net effect: exactly one more reference, held by `q`; count + 1; nothing else. -/
theorem C13_pass_to_process (s : State) (hr : Reachable s) (p q i : Nat)
    (hm : (Holder.client p, i) ∈ s.refs) (hp : s.stat p = .running) (hq : s.stat q = .running) :
    ∃ s', Core.run step s [.pickle (.client p) i, .unpickle (.client q) i, .drop .rebuild i] = some s' ∧
      s'.refs = (.client q, i) :: s.refs ∧ s'.rc i = s.rc i + 1 ∧ (∀ j, j ≠ i → s'.rc j = s.rc j) ∧
      s'.hosted = s.hosted ∧ s'.shm = s.shm ∧ s'.stat = s.stat := by
  have hh := (C13_alive s hr _ i hm).1
  let s1 : State := { incref s i with refs := (.transit, i) :: s.refs }
  let s2 : State := { incref s1 i with refs := (.client q, i) :: (.rebuild, i) :: s.refs }
  let s3 : State := decref { s2 with refs := (.client q, i) :: s.refs } i
  have h1 : step s (.pickle (.client p) i) = some s1 := by
    simp [step, hm, hp, hh, canAct, s1]
  have h2 : step s1 (.unpickle (.client q) i) = some s2 := by
    simp [step, dstOk, hq, hh, incref, s1, s2]
  have h3 : step s2 (.drop .rebuild i) = some s3 := by
    simp [step, incref, s1, s2, s3]
  refine ⟨s3, ?_, ?_⟩
  · simp [Core.run_cons, h1, h2, h3]
  · have hrc : ¬ (s.rc i + 1 + 1 ≤ 1) := by omega
    simp [s3, s2, s1, decref, incref, hrc]
    intro j hj; simp [hj]

/-- a child `q` started with the FORK start method inherits `p`'s proxy object through memory; the
    after-fork hook makes the copy a counted reference of its own (increment + finalizer): exactly
    one more reference, held by `q`; count + 1; the parent's proxy untouched -/
theorem C13_fork_inherits (s : State) (hr : Reachable s) (p q i : Nat)
    (hm : (Holder.client p, i) ∈ s.refs) (hp : s.stat p = .running) (hq : s.stat q = .running) :
    ∃ s', step s (.fork p q i) = some s' ∧ s'.refs = (.client q, i) :: s.refs ∧ s'.rc i = s.rc i + 1 ∧
      (∀ j, j ≠ i → s'.rc j = s.rc j) ∧ s'.hosted = s.hosted ∧ s'.shm = s.shm := by
  have hh := (C13_alive s hr _ i hm).1
  refine ⟨{ incref s i with refs := (.client q, i) :: s.refs }, ?_, ?_⟩
  · simp [step, hm, hp, hq, hh]
  · simp [incref]
    intro j hj; simp [hj]

/-- deleting the proxy that holds the last count destroys the object and unlinks its shared memory
    in that very step -/
theorem C13_delete_last_reference (s : State) (p i : Nat)
    (hm : (Holder.client p, i) ∈ s.refs) (hp : s.stat p ≠ .exited) (h1 : s.rc i = 1) :
    ∃ s', step s (.drop (.client p) i) = some s' ∧ s'.hosted i = false ∧ s'.shm i = false ∧ s'.rc i = 0 := by
  refine ⟨decref { s with refs := s.refs.erase (.client p, i) } i, ?_, ?_⟩
  · simp [step, hm, h1, Holder.isClient, canAct, hp]
  · simp [decref, h1]

/-! ## non-vacuity

Two clients (0 and 1).  Client 0 creates a list (ident 0) and a memory block (ident 1), stores the
block's proxy in the list, deletes its own block proxy (the block lives on, nested), passes the
list to client 1 (pickle → un-pickle), deletes its list proxy; client 1 exits.  The last
reference to the list goes, the list dies, the nested proxy becomes a server temporary, and the
server alone releases the block. -/

def demo : List Act :=
  [ .create .cont 0, .pickle .temp 0, .drop .temp 0, .unpickle (.client 0) 0, .drop .rebuild 0,
    .create .mem 1, .pickle .temp 1, .drop .temp 1, .unpickle (.client 0) 1, .drop .rebuild 1,
    .pickle (.client 0) 1, .unpickle .temp 1, .drop .rebuild 1, .store 0 1,   -- lst.append(mem)
    .drop (.client 0) 1,
    .pickle (.client 0) 0, .unpickle (.client 1) 0, .drop .rebuild 0,          -- pass to client 1
    .drop (.client 0) 0 ]

/-- after `demo`: list count 1 (client 1), block count 1 (nested), shared memory linked -/
example : ∃ s, Core.run step init demo = some s ∧ s.rc 0 = 1 ∧ s.rc 1 = 1 ∧ s.shm 1 = true ∧
    live s 0 = 1 ∧ live s 1 = 0 ∧ nested s 1 = 1 ∧ s.refs = [(.client 1, 0), (.item 0, 1)] :=
  ⟨_, rfl, by decide⟩

/-- client 1 exits: the list dies, the server finalizes the orphaned nested proxy, the block is
    released — `C13_released` applies to both idents (no reference left) -/
example : ∃ s, Core.run step init (demo ++ [.exitBegin 1, .drop (.client 1) 0, .exitEnd 1, .drop .temp 1]) = some s ∧
    s.refs = [] ∧ s.hosted 0 = false ∧ s.hosted 1 = false ∧ s.shm 1 = false ∧ s.stat 1 = .exited :=
  ⟨_, rfl, by decide⟩

/-- the exit cannot complete while client 1 still holds its proxy -/
example : Core.run step init (demo ++ [.exitBegin 1, .exitEnd 1]) = none := by decide

end Refcount
