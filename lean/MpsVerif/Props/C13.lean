import MpsVerif.Proofs.RefcountQuiesce
/-!
# C13 — hosted objects live exactly as long as some proxy refers to them

Model: `Model/Refcount.lean` (the manager server's `id_to_refcount` / `id_to_obj` tables, every
proxy object and every pickle in existence as an entry `(holder, ident)` of `refs`; client
processes `p : Nat`, any number of them).  `Reachable s` = `s` is reached from the empty server by
**any** list of actions: create / managed() return, pickle, un-pickle (two atomic halves), drop
(finalizer), store in / take out of a hosted container, call, process exit — issued by any client,
in any interleaving, with any identifier the allocator hands out.  No bound on the number of
clients, objects, references or steps.

A "reference to `i`" is an entry `(h, i) ∈ s.refs` with `h` one of: `client p` (live proxy in
process `p`), `transit` / `rebuild` (a pickle on its way / being un-pickled), `item c` (a proxy
stored in hosted container `c`), `temp` (a proxy in the server referenced only by a serving
thread's locals — the server drops these on its own).
-/
namespace Refcount

/-- the server's count of `i` is exactly: live proxies in clients + pickles in transit +
    proxies nested in hosted containers + server temporaries -/
theorem C13_count_exact (s : State) (hr : Reachable s) (i : Nat) :
    s.rc i = live s i + inTransit s i + nested s i + temps s i := by
  rw [(inv_reachable hr).count i]
  exact cnt_partition s.refs i

/-- as long as any reference to `i` exists — anywhere — `i` is hosted with a positive count, a
    memory block's shared memory is still linked, and a container holding a nested proxy is
    itself hosted -/
theorem C13_alive (s : State) (hr : Reachable s) (h : Holder) (i : Nat) (hm : (h, i) ∈ s.refs) :
    s.hosted i = true ∧ 0 < s.rc i ∧ (s.kind i = .mem → s.shm i = true) ∧
    (∀ c, h = .item c → s.hosted c = true) := by
  have hinv := inv_reachable hr
  have hpos := pos_of_mem hinv hm
  have hh := (hinv.hosted i).mpr hpos
  refine ⟨hh, hpos, fun hk => (hinv.shm i).mpr ⟨hh, hk⟩, ?_⟩
  intro c hc; subst hc
  exact (hinv.item c i hm).1

/-- … and usable: the holder's operations on it do not fail — a running client can call through
    its proxy and pickle it, a pickle can be un-pickled by any running client or by the server, a
    nested proxy can be read back (pickled by the server), every finalizer can run -/
theorem C13_usable (s : State) (hr : Reachable s) :
    (∀ p i, (Holder.client p, i) ∈ s.refs → s.stat p = .running →
        (step s (.call p i)).isSome ∧ (step s (.pickle (.client p) i)).isSome) ∧
    (∀ i dst, (Holder.transit, i) ∈ s.refs → dstOk s dst = true → (step s (.unpickle dst i)).isSome) ∧
    (∀ c i, (Holder.item c, i) ∈ s.refs → (step s (.pickle (.item c) i)).isSome) ∧
    (∀ h i, (h, i) ∈ s.refs → (h = .temp ∨ h = .rebuild ∨ (h.isClient = true ∧ canAct s h = true)) →
        (step s (.drop h i)).isSome) := by
  have hinv := inv_reachable hr
  refine ⟨?_, ?_, ?_, ?_⟩
  · intro p i hm hp
    have hh := (C13_alive s hr _ i hm).1
    simp [step, hm, hp, hh, canAct]
  · intro i dst hm hd
    have hh := (C13_alive s hr _ i hm).1
    simp [step, hm, hd, hh]
  · intro c i hm
    have hh := (C13_alive s hr _ i hm).1
    simp [step, hm, hh, canAct]
  · intro h i hm hk
    have hpos := pos_of_mem hinv hm
    simp [step, hm, hpos, hk]

/-- once no reference to `i` is left anywhere, `i` is not hosted any more, its count is gone and
    its shared memory block is unlinked -/
theorem C13_released (s : State) (hr : Reachable s) (i : Nat) (hn : ∀ h, (h, i) ∉ s.refs) :
    s.hosted i = false ∧ s.rc i = 0 ∧ s.shm i = false := by
  have hinv := inv_reachable hr
  have h0 : s.rc i = 0 := by
    rw [hinv.count i]
    apply List.countP_eq_zero.mpr
    intro r hrm hri
    obtain ⟨h, j⟩ := r
    have : j = i := by simpa using hri
    subst this
    exact hn h hrm
  have hh : s.hosted i = false := by
    cases hho : s.hosted i with
    | false => rfl
    | true => have := (hinv.hosted i).mp hho; omega
  refine ⟨hh, h0, ?_⟩
  cases hsh : s.shm i with
  | false => rfl
  | true => have := ((hinv.shm i).mp hsh).1; rw [hh] at this; cases this

/-- the server temporaries go away **without any further client action**: from every reachable
    state, at most `refs.length` server-internal steps (always enabled) lead to a state without
    temporaries, in which every client's proxies and every pickle are untouched, and in which
    every object that no client proxy, pickle or nested proxy refers to is released -/
theorem C13_released_by_server_alone (s : State) (hr : Reachable s) :
    ∃ as s', (∀ a ∈ as, serverInternal a = true) ∧ as.length ≤ s.refs.length ∧
      Core.run step s as = some s' ∧
      (∀ i, temps s' i = 0) ∧
      (∀ i, live s' i = live s i ∧ inTransit s' i = inTransit s i) ∧
      (∀ i, live s' i = 0 → inTransit s' i = 0 → nested s' i = 0 →
          s'.hosted i = false ∧ s'.rc i = 0 ∧ s'.shm i = false) := by
  have hinv := inv_reachable hr
  obtain ⟨as, h1, h2, h3, h4, h5⟩ := quiesce_spec s.refs.length s hinv (Nat.le_refl _)
  have hr' : Reachable (quiesce s.refs.length s) := by
    obtain ⟨bs, hbs⟩ := hr
    exact ⟨bs ++ as, by rw [Core.run_append, hbs]; exact h3⟩
  have htemps : ∀ i, temps (quiesce s.refs.length s) i = 0 := by
    intro i
    apply List.countP_eq_zero.mpr
    intro r hrm
    have := h4 r hrm
    cases hh : r.1 <;> simp_all [Holder.isTemp]
  refine ⟨as, _, h1, h2, h3, htemps, ?_, ?_⟩
  · intro i
    exact ⟨h5 _ stable_isClient i, h5 _ stable_isTransit i⟩
  · intro i hl ht hn
    have hc := C13_count_exact _ hr' i
    rw [hl, ht, hn, htemps i] at hc
    have hinv' := inv_reachable hr'
    have hh : (quiesce s.refs.length s).hosted i = false := by
      cases hho : (quiesce s.refs.length s).hosted i with
      | false => rfl
      | true => have := (hinv'.hosted i).mp hho; omega
    refine ⟨hh, hc, ?_⟩
    cases hsh : (quiesce s.refs.length s).shm i with
    | false => rfl
    | true => have := ((hinv'.shm i).mp hsh).1; rw [hh] at this; cases this

/-- a process that has exited holds nothing: every proxy it still had when it began to exit has
    given its reference back (the exit cannot complete before) … -/
theorem C13_exit_returns_all (s : State) (hr : Reachable s) (p : Nat) (hp : s.stat p = .exited) :
    ∀ i, (Holder.client p, i) ∉ s.refs :=
  fun i => (inv_reachable hr).exited p i hp

/-- … and exiting never blocks: every remaining finalizer can run, after the last one the exit
    completes -/
theorem C13_exit_progress (s : State) (hr : Reachable s) (p : Nat) (hp : s.stat p = .exiting) :
    (∀ i, (Holder.client p, i) ∈ s.refs → (step s (.drop (.client p) i)).isSome) ∧
    ((∀ i, (Holder.client p, i) ∉ s.refs) → (step s (.exitEnd p)).isSome) := by
  constructor
  · intro i hm
    exact (C13_usable s hr).2.2.2 _ i hm (Or.inr (Or.inr ⟨rfl, by simp [canAct, hp]⟩))
  · intro hn
    have : ∀ r ∈ s.refs, r.1 ≠ .client p := by
      intro r hrm hh
      obtain ⟨h, j⟩ := r
      simp at hh; subst hh
      exact hn j hrm
    simp only [step, hp, true_and]
    rw [if_pos this]; rfl

/-! ## non-vacuity

Two clients (0 and 1).  Client 0 creates a list (ident 0) and a memory block (ident 1), stores the
block's proxy in the list, deletes its own block proxy (the block lives on, nested), passes the
list to client 1 (pickle → un-pickle), deletes its list proxy; client 1 exits.  The last
reference to the list goes, the list dies, the nested proxy becomes a server temporary, and the
server alone releases the block. -/

def demo : List Act :=
  [ .create .cont 0, .pickle .temp 0, .drop .temp 0, .unpickle (.client 0) 0, .drop .rebuild 0,
    .create .mem 1, .pickle .temp 1, .drop .temp 1, .unpickle (.client 0) 1, .drop .rebuild 1,
    .pickle (.client 0) 1, .unpickle .temp 1, .drop .rebuild 1, .store 0 1,   -- lst.append(mem)
    .drop (.client 0) 1,
    .pickle (.client 0) 0, .unpickle (.client 1) 0, .drop .rebuild 0,          -- pass to client 1
    .drop (.client 0) 0 ]

/-- after `demo`: list count 1 (client 1), block count 1 (nested), shared memory linked -/
example : ∃ s, Core.run step init demo = some s ∧ s.rc 0 = 1 ∧ s.rc 1 = 1 ∧ s.shm 1 = true ∧
    live s 0 = 1 ∧ live s 1 = 0 ∧ nested s 1 = 1 ∧ s.refs = [(.client 1, 0), (.item 0, 1)] :=
  ⟨_, rfl, by decide⟩

/-- client 1 exits: the list dies, the server finalizes the orphaned nested proxy, the block is
    released — `C13_released` applies to both idents (no reference left) -/
example : ∃ s, Core.run step init (demo ++ [.exitBegin 1, .drop (.client 1) 0, .exitEnd 1, .drop .temp 1]) = some s ∧
    s.refs = [] ∧ s.hosted 0 = false ∧ s.hosted 1 = false ∧ s.shm 1 = false ∧ s.stat 1 = .exited :=
  ⟨_, rfl, by decide⟩

/-- the exit cannot complete while client 1 still holds its proxy -/
example : Core.run step init (demo ++ [.exitBegin 1, .exitEnd 1]) = none := by decide

end Refcount
