import MpsVerif.Proofs.ProxyCallConc
/-!
# C14 — proxy calls behave like direct calls on the hosted object

Model: `Model/ProxyCall.lean`.  `sem : Sem H Op` is the direct semantics of the hosted classes and
is a **parameter**: the theorems hold for every heap type, every operation type and every
behaviour of the hosted methods (list, dict, Namespace, Value, any custom class, methods that
mutate and then raise, methods returning `managed(obj)`).  A history is any list of requests
`(client c, ident i, op)`: any number of clients (processes / threads — each has its own
connection), any proxies of the same or of different objects, in any issue order, of any length.
`Valid` only says that each request goes to an ident that is hosted when it is issued — which
C13 guarantees for the referent of every live proxy; without it the caller gets `RemoteError`
(`C14_unhosted_remoteError`, the guard the real code has).
-/
namespace ProxyCall

variable {H Op : Type}

/-- Any history of operations issued through any proxies from any clients gives, call by call, the
    outcome of the same operation applied directly to the hosted object in issue order (values
    as they are, `managed()` results as a proxy of that very object, exceptions of the same class
    carrying the server-side traceback), leaves the heap exactly as the direct calls leave it, and
    leaves every connection that was used open. -/
theorem C14_refines_direct (sem : Sem H Op) (P : PState H) (rs : List (Req Op)) (hv : Valid sem P rs) :
    (proxyRun sem P rs).2 = (directRun sem P.srv.heap (rs.map fun r => (r.i, r.op))).2.map view ∧
    (proxyRun sem P rs).1.srv.heap = (directRun sem P.srv.heap (rs.map fun r => (r.i, r.op))).1 ∧
    (∀ r ∈ rs, (proxyRun sem P rs).1.conn r.c = true) :=
  ⟨(refines sem rs P hv).1, (refines sem rs P hv).2, (proxyRun_mono sem rs P).2.2⟩

/-- A raising operation: the caller gets the same exception class with the server-side traceback,
    the heap is changed exactly as the direct (raising) call changed it and nothing else is — the
    table of hosted objects and all other connections are untouched —, and the connection is
    usable: the client's next request is served like a direct call again. -/
theorem C14_error_transparent (sem : Sem H Op) (P : PState H) (r : Req Op) (e : ErrCls)
    (hh : P.srv.hosted r.i = true) (he : (sem.call P.srv.heap r.i r.op).2 = .raised e) :
    (proxyStep sem P r).2 = .raised e true ∧
    (proxyStep sem P r).1.srv.heap = (sem.call P.srv.heap r.i r.op).1 ∧
    (proxyStep sem P r).1.srv.hosted = P.srv.hosted ∧
    (∀ c, c ≠ r.c → (proxyStep sem P r).1.conn c = P.conn c) ∧
    (proxyStep sem P r).1.conn r.c = true ∧
    (∀ i' op', P.srv.hosted i' = true →
      (proxyStep sem (proxyStep sem P r).1 ⟨r.c, i', op'⟩).2 =
        view (sem.call (sem.call P.srv.heap r.i r.op).1 i' op').2) := by
  have hs := proxyStep_hosted sem P r hh
  rw [he] at hs
  refine ⟨by rw [hs]; rfl, by rw [hs], by rw [hs]; rfl, ?_, by rw [hs]; simp, ?_⟩
  · intro c hc; rw [hs]; simp [hc]
  · intro i' op' hi'
    have h2 : (proxyStep sem P r).1.srv.hosted i' = true := (proxyStep_mono sem P r).1 i' hi'
    rw [proxyStep_hosted sem _ ⟨r.c, i', op'⟩ h2, hs]

/-- A value wrapped with `managed()` (or returned by a method listed in `method_to_typeid`) comes
    back as a live proxy to the hosted value, not a copy: the returned ident is the address `a` of
    the very object the method returned, it is hosted from then on, and after any further history
    a request through that proxy from *any* client is the direct operation on the object at `a`
    in the current heap — so changes made through the proxy, through the owner's methods or
    through any other proxy of `a` are all changes of the same object. -/
theorem C14_managed_alias (sem : Sem H Op) (P : PState H) (r : Req Op) (a : Nat)
    (hh : P.srv.hosted r.i = true)
    (ha : (sem.call P.srv.heap r.i r.op).2 = .alias a ∨ (sem.call P.srv.heap r.i r.op).2 = .typed a) :
    (proxyStep sem P r).2 = .returned (.ref a) ∧
    ∀ (rs : List (Req Op)) (c : Nat) (op : Op),
      let Q := (proxyRun sem (proxyStep sem P r).1 rs).1
      Q.srv.hosted a = true ∧
      (proxyStep sem Q ⟨c, a, op⟩).2 = view (sem.call Q.srv.heap a op).2 ∧
      (proxyStep sem Q ⟨c, a, op⟩).1.srv.heap = (sem.call Q.srv.heap a op).1 := by
  have hs := proxyStep_hosted sem P r hh
  constructor
  · rw [hs]; rcases ha with h | h <;> simp [h, view]
  · intro rs c op
    have h1 : (proxyStep sem P r).1.srv.hosted a = true := by
      rw [hs]; rcases ha with h | h <;> simp [h, hostedAfter]
    have h2 := (proxyRun_mono sem rs (proxyStep sem P r).1).1 a h1
    refine ⟨h2, ?_, ?_⟩
    · rw [proxyStep_hosted sem _ ⟨c, a, op⟩ h2]
    · rw [proxyStep_hosted sem _ ⟨c, a, op⟩ h2]

/-- the guard of the real code: a request for an ident that is not hosted is answered with a
    `RemoteError` (KeyError traceback) and changes nothing -/
theorem C14_unhosted_remoteError (sem : Sem H Op) (P : PState H) (r : Req Op) (hh : P.srv.hosted r.i = false) :
    (proxyStep sem P r).2 = .remoteError ∧ (proxyStep sem P r).1.srv = P.srv := by
  rw [proxyStep_unhosted sem P r hh]; exact ⟨rfl, rfl⟩

/-- Several clients (processes, threads) at once, any interleaving of their sends, of the serving
    threads running the methods, and of the clients reading their replies: the run is
    **linearisable** — the server state and all outcomes are those of the sequential proxy run over
    `hist` (the requests in the order their methods ran; by `C14_refines_direct` that is the direct
    semantics in that order) — and every client reads exactly the outcomes of its own requests,
    in its own issue order (no reply goes to another caller, none is lost or duplicated). -/
theorem C14_linearizable (sem : Sem H Op) (S0 : Server H) (conn0 : Nat → Bool) (s : CState H Op)
    (hr : Core.Reach (cstep sem) (cinit S0) s) :
    (proxyRun sem ⟨S0, conn0⟩ s.hist).1.srv = s.srv ∧
    (proxyRun sem ⟨S0, conn0⟩ s.hist).2 = s.execOuts ∧
    (∀ c, outsOf c s.hist s.execOuts = gotOf c s.got ++ (s.reply c).toList) ∧
    (Valid sem ⟨S0, conn0⟩ s.hist →
      s.execOuts = (directRun sem S0.heap (s.hist.map fun r => (r.i, r.op))).2.map view ∧
      s.srv.heap = (directRun sem S0.heap (s.hist.map fun r => (r.i, r.op))).1) := by
  have h := cinv_reach sem S0 conn0 hr
  refine ⟨h.lin.1, h.lin.2, h.fifo, ?_⟩
  intro hv
  have := refines sem s.hist ⟨S0, conn0⟩ hv
  rw [h.lin.2, h.lin.1] at this
  exact this

/-! ## non-vacuity (concrete semantics `pySem`)

Heap: a Counter at 0 (hosted) whose log list lives at 1 (not hosted), a list at 2 (hosted).
Clients 0, 1, 2.  Client 0 asks for `history()` (a `managed_list` of the log) and gets a proxy to
address 1; client 1 adds 5 through its own proxy of the counter; client 2 reads the log through
the `managed()` proxy and sees the 5; client 0's `fail` mutates the log and raises `ValueError`
with the server-side traceback; its next call on the same connection works; `pokePop` on the
empty list 2 *inside the server* raises `IndexError`, not something else. -/

def demoHeap : Heap := fun j =>
  if j = 0 then some (.ctr 0 1) else if j = 1 then some (.lst []) else if j = 2 then some (.lst []) else none

def demoState : PState Heap :=
  { srv := { heap := demoHeap, hosted := fun j => j = 0 || j = 2 }, conn := fun _ => false }

def demoReqs : List (Req POp) :=
  [⟨0, 0, .history⟩, ⟨1, 0, .add 5⟩, ⟨2, 1, .slice⟩, ⟨0, 0, .fail 77 .value⟩, ⟨0, 0, .cget⟩,
   ⟨2, 1, .len⟩, ⟨1, 0, .pokePop (.ref 2)⟩, ⟨1, 0, .poke (.ref 2) (.plain 3)⟩, ⟨0, 2, .slice⟩]

example : (proxyRun pySem demoState demoReqs).2 =
    [.returned (.ref 1), .returned (.int 5), .returnedVals [.int 5], .raised .value true,
     .returned (.int 5), .returned (.int 2), .raised .index true, .returned (.int 1),
     .returnedVals [.plain 3]] := by decide

example : Valid pySem demoState demoReqs := by
  refine ⟨by decide, by decide, by decide, by decide, by decide, by decide, by decide, by decide, by decide, trivial⟩

/-- before `history()` made it hosted, address 1 cannot be reached through a proxy -/
example : (proxyStep pySem demoState ⟨2, 1, .len⟩).2 = .remoteError := by decide

/-- two clients overlap: client 1's `add 5` runs between client 0's send and the run of its `cget`;
    client 0 reads 5, client 1 reads 5; `hist` is the order the methods ran in -/
example : ∃ s, Core.run (cstep pySem) (cinit demoState.srv)
      [.send 0 0 .cget, .send 1 0 (.add 5), .exec 1, .exec 0, .recv 0, .recv 1] = some s ∧
    s.got = [(0, .returned (.int 5)), (1, .returned (.int 5))] ∧
    s.hist.map (·.c) = [1, 0] :=
  ⟨_, rfl, by decide⟩

end ProxyCall
