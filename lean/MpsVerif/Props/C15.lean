import MpsVerif.Proofs.RemoteExc
/-!
# C15 — exceptions keep type, args and traceback text across processes

Model: `Model/RemoteExc.lean` (`wrapWith` = `RemoteException.__init__`, `pk`/`rebuild` =
`__reduce__`/`_rebuild_exception` and `EnsembleError.__reduce__`, `hop` = wrap + pickle round
trip, `run` = any list of hops, each with its own process-name prefix and an optional re-raise
(with an arbitrary new traceback text) before it).  Class and arguments are opaque naturals, texts
are lists of opaque tokens, so the theorems hold for every class, every argument tuple, every
traceback (any depth), every cause chain, every process name, every number of hops and every
nesting depth of `EnsembleError`s.  "Picklable" is the model's `pk` keeping class and arguments
(assumption about `pickle`, enforced as the generator predicate of the check).

Hypotheses: `e.live = some own` — the exception carries a traceback whose formatted own part is
`own` (so the originally formatted traceback is `fmtChain F own e.cause`, cause chain included);
`e.mem.ok` — every exception object nested in it (for an `EnsembleError`) carries a live or a
remote traceback, hereditarily, and nested `RemoteException` objects are as their constructor
leaves them.  Without a traceback the real constructor raises `ValueError`; so does the model
(`C15_no_traceback`), i.e. the hypotheses are the guard of the code, not an artefact.
-/
namespace RemoteExc

/-- no hop ever fails (`ValueError`) for an exception that carries tracebacks -/
theorem C15_defined (F : Fmt) (e : Exc) (hok : e.ok = true) (hs : List Hop) :
    ∃ e', run F e hs = some e' := by
  cases hs with
  | nil => exact ⟨e, rfl⟩
  | cons h hs =>
    obtain ⟨c, a, t, m, h1, hm, _, _⟩ := step_first F e hok h
    obtain ⟨t', h2, _, _⟩ := run_recv F c a m hm hs t
    exact ⟨.mk c a none (.remote t') m, by rw [run_cons_eq F e _ h hs h1]; exact h2⟩

/-- **round trip**: wrap in a process with prefix `p`, pickle, unpickle, then any further hops `hs`
    (re-wrapped at each; raised again or not before each): the result has the original class and
    arguments, `is_remote_exception` holds, and `get_remote_traceback` contains the originally
    formatted traceback -/
theorem C15_roundtrip (F : Fmt) (e : Exc) (own : Text) (hl : e.live = some own) (hn : e.mem.ok = true)
    (p : Text) (hs : List Hop) :
    ∃ e' t, run F e (⟨p, none⟩ :: hs) = some e' ∧ e'.cls = e.cls ∧ e'.args = e.args ∧
      e'.isRemote = true ∧ e'.remoteTb = some t ∧ fmtChain F own e.cause <:+: t := by
  obtain ⟨c, a, t, m, h1, hm, ht, hi⟩ := step_first F e (ok_of_live e own hl hn) ⟨p, none⟩
  obtain ⟨t', h2, h3, _⟩ := run_recv F c a m hm hs t
  refine ⟨.mk c a none (.remote t') m, t', by rw [run_cons_eq F e _ _ hs h1]; exact h2, ?_⟩
  cases e with
  | mk c0 a0 l k m0 =>
    simp only [Exc.live] at hl
    subst hl
    simp only [Hop.pre, wrapText, Exc.live, Exc.cause, Option.some.injEq] at ht
    simp only [Hop.pre, ImgT, Exc.cls, Exc.args] at hi
    refine ⟨hi.1, hi.2.1, rfl, rfl, ?_⟩
    subst ht
    exact List.IsInfix.trans ⟨p, [], by simp⟩ h3

/-- the same for ANY first hop (the holder may raise the exception again before the first wrap) and
    any exception that carries tracebacks (live, or already remote and merely forwarded): with
    `t0` the text `RemoteException.__init__` computes at the first hop — prefix ++ formatted
    traceback if there is a live one, the carried remote text otherwise — the final remote text
    contains `t0`; class and arguments are unchanged -/
theorem C15_roundtrip_general (F : Fmt) (e : Exc) (hok : e.ok = true) (h0 : Hop) (hs : List Hop) :
    ∃ e' t0 t, run F e (h0 :: hs) = some e' ∧ e'.cls = e.cls ∧ e'.args = e.args ∧ e'.isRemote = true ∧
      wrapText F h0.proc (h0.pre e).live (h0.pre e).cause .dflt = some t0 ∧
      e'.remoteTb = some t ∧ t0 <:+: t := by
  obtain ⟨c, a, t0, m, h1, hm, ht, hi⟩ := step_first F e hok h0
  obtain ⟨t', h2, h3, _⟩ := run_recv F c a m hm hs t0
  refine ⟨.mk c a none (.remote t') m, t0, t', by rw [run_cons_eq F e _ _ hs h1]; exact h2, ?_, ?_, rfl, ht, rfl, h3⟩
  · cases e with
    | mk c0 a0 l k m0 =>
      simp only [Hop.pre] at hi
      cases hr : h0.reraise <;> simp only [hr, Exc.raised, ImgT, Exc.cls_mk] at hi ⊢ <;> exact hi.1
  · cases e with
    | mk c0 a0 l k m0 =>
      simp only [Hop.pre] at hi
      cases hr : h0.reraise <;> simp only [hr, Exc.raised, ImgT, Exc.args_mk] at hi ⊢ <;> exact hi.2.1

/-- **forwarding is the identity**: after the first hop, any number of further hops that do not
    raise the exception again give back the *same* exception — class, arguments, remote text
    (identical, not merely containing), nested results -/
theorem C15_forward_identical (F : Fmt) (e : Exc) (hok : e.ok = true) (h0 : Hop) (hs : List Hop)
    (hf : ∀ h ∈ hs, h.reraise = none) :
    ∃ e1, run F e [h0] = some e1 ∧ run F e (h0 :: hs) = some e1 := by
  obtain ⟨c, a, t, m, h1, hm, _, _⟩ := step_first F e hok h0
  obtain ⟨t', h2, _, h3⟩ := run_recv F c a m hm hs t
  rw [h3 hf] at h2
  exact ⟨.mk c a none (.remote t) m, by rw [run_cons_eq F e _ _ [] h1]; rfl,
    by rw [run_cons_eq F e _ _ hs h1]; exact h2⟩

/-- hop by hop: the text after one more hop contains the text before it; class, arguments and
    nested results are unchanged; the whole exception is unchanged if that hop only forwards -/
theorem C15_text_grows (F : Fmt) (e : Exc) (hok : e.ok = true) (h0 : Hop) (hs : List Hop) (h : Hop) :
    ∃ e1 e2 t1 t2, run F e (h0 :: hs) = some e1 ∧ run F e (h0 :: (hs ++ [h])) = some e2 ∧
      e1.remoteTb = some t1 ∧ e2.remoteTb = some t2 ∧ t1 <:+: t2 ∧ e2.cls = e1.cls ∧ e2.args = e1.args ∧
      e2.mem = e1.mem ∧ (h.reraise = none → e2 = e1) := by
  obtain ⟨c, a, t0, m, h1, hm, _, _⟩ := step_first F e hok h0
  obtain ⟨t1, h3, _, _⟩ := run_recv F c a m hm hs t0
  obtain ⟨t2, h4, h5, h6⟩ := run_recv F c a m hm [h] t1
  refine ⟨.mk c a none (.remote t1) m, .mk c a none (.remote t2) m, t1, t2,
    by rw [run_cons_eq F e _ _ hs h1]; exact h3, ?_, rfl, rfl, h5, rfl, rfl, rfl, ?_⟩
  · rw [run_cons_eq F e _ _ _ h1]
    simp only [run] at h3 h4 ⊢
    rw [Core.run_append, h3]
    exact h4
  · intro hn
    rw [h6 (by intro x hx; simp at hx; subst hx; exact hn)]

/-- **nested exceptions**: after any number of hops the result list of an `EnsembleError` is, entry
    by entry and hereditarily (`ImgMems`, defined by structural recursion in
    `Proofs/RemoteExc.lean`): the same plain values, and for every nested exception an exception
    of the same class and arguments with `is_remote_exception`, whose remote text is *identical*
    to the text its `RemoteException` held at the origin (or, for a bare exception object, to
    prefix ++ its formatted traceback), and whose own nested results are preserved likewise -/
theorem C15_ensemble (F : Fmt) (e : Exc) (own : Text) (hl : e.live = some own) (hn : e.mem.ok = true)
    (p : Text) (hs : List Hop) :
    ∃ e', run F e (⟨p, none⟩ :: hs) = some e' ∧ ImgMems F p e.mem e'.mem := by
  obtain ⟨c, a, t, m, h1, hm, _, hi⟩ := step_first F e (ok_of_live e own hl hn) ⟨p, none⟩
  obtain ⟨t', h2, _, _⟩ := run_recv F c a m hm hs t
  refine ⟨.mk c a none (.remote t') m, by rw [run_cons_eq F e _ _ hs h1]; exact h2, ?_⟩
  cases e with
  | mk c0 a0 l k m0 =>
    simp only [Hop.pre, ImgT, Exc.mem] at hi ⊢
    exact hi.2.2.2.2

/-- the same for any first hop and any exception that carries tracebacks -/
theorem C15_ensemble_general (F : Fmt) (e : Exc) (hok : e.ok = true) (h0 : Hop) (hs : List Hop) :
    ∃ e', run F e (h0 :: hs) = some e' ∧ ImgMems F h0.proc e.mem e'.mem := by
  obtain ⟨c, a, t, m, h1, hm, _, hi⟩ := step_first F e hok h0
  obtain ⟨t', h2, _, _⟩ := run_recv F c a m hm hs t
  refine ⟨.mk c a none (.remote t') m, by rw [run_cons_eq F e _ _ hs h1]; exact h2, ?_⟩
  cases e with
  | mk c0 a0 l k m0 =>
    simp only [Hop.pre] at hi
    cases hr : h0.reraise <;> simp only [hr, Exc.raised, ImgT, Exc.mem_mk] at hi ⊢ <;> exact hi.2.2.2.2

/-! `ImgMems` spelled out, one kind of entry at a time (so that `C15_ensemble` can be read without
    opening `Proofs/`): `m'` is the received result list. -/

theorem C15_img_nil (F : Fmt) (p : Text) (m' : Mems) : ImgMems F p .nil m' ↔ m' = .nil := by
  simp [ImgMems]

/-- a plain value arrives as the same value -/
theorem C15_img_val (F : Fmt) (p : Text) (v : Nat) (r m' : Mems) :
    ImgMems F p (.val v r) m' ↔ ∃ r', m' = .val v r' ∧ ImgMems F p r r' := by
  simp [ImgMems]

/-- a `RemoteException(e)` holding text `t` arrives as an exception object of `e`'s class and
    arguments, without live traceback, with `is_remote_exception` and remote text exactly `t`,
    and `e`'s own nested results arrive likewise -/
theorem C15_img_rem (F : Fmt) (p : Text) (e : Exc) (t : Text) (r m' : Mems) :
    ImgMems F p (.rem e t r) m' ↔ ∃ e' r', m' = .exc e' r' ∧
      (e'.cls = e.cls ∧ e'.args = e.args ∧ e'.live = none ∧ e'.isRemote = true ∧ e'.remoteTb = some t ∧
        ImgMems F p e.mem e'.mem) ∧ ImgMems F p r r' := by
  cases e with
  | mk c a l k m =>
    simp only [ImgMems, ImgT, Exc.cls_mk, Exc.args_mk, Exc.mem_mk]
    constructor
    · rintro ⟨e', r', rfl, ⟨h1, h2, h3, h4, h5⟩, h6⟩
      exact ⟨e', r', rfl, ⟨h1, h2, h3, by simp [Exc.isRemote, h4], by simp [Exc.remoteTb, h4], h5⟩, h6⟩
    · rintro ⟨e', r', rfl, ⟨h1, h2, h3, _, h4, h5⟩, h6⟩
      refine ⟨e', r', rfl, ⟨h1, h2, h3, ?_, h5⟩, h6⟩
      simp only [Exc.remoteTb] at h4
      split at h4
      · rename_i t' hk
        simp only [Option.some.injEq] at h4
        subst h4
        exact hk
      · simp at h4

/-- a bare exception object `e` in the list arrives like a `RemoteException(e)` made by the first
    hop's process: remote text = prefix ++ its formatted traceback if it has a live one (so it
    contains the originally formatted traceback), else the remote text it already carried -/
theorem C15_img_exc (F : Fmt) (p : Text) (e : Exc) (r m' : Mems) :
    ImgMems F p (.exc e r) m' ↔ ∃ t, wrapText F p e.live e.cause .dflt = some t ∧
      ImgMems F p (.rem e t r) m' := by
  simp only [ImgMems]
  constructor
  · rintro ⟨e', r', t, rfl, h1, h2, h3⟩
    exact ⟨t, h1, e', r', rfl, h2, h3⟩
  · rintro ⟨t, h1, e', r', rfl, h2, h3⟩
    exact ⟨e', r', t, rfl, h1, h2, h3⟩

theorem C15_img_exc_live (F : Fmt) (p : Text) (e : Exc) (own t : Text) (hl : e.live = some own)
    (h : wrapText F p e.live e.cause .dflt = some t) : t = p ++ fmtChain F own e.cause ∧ fmtChain F own e.cause <:+: t := by
  simp only [hl, wrapText, Option.some.injEq] at h
  subst h
  exact ⟨rfl, ⟨p, [], by simp⟩⟩

/-- the explicit-`tb` branches of the constructor: a string is used verbatim, a traceback object
    is formatted like the exception's own; class and arguments are kept -/
theorem C15_explicit_tb (F : Fmt) (e : Exc) (hn : e.mem.ok = true) (p : Text) (ar : TbArg) (hd : ar ≠ .dflt) :
    ∃ e1, hopWith F p ar e = some e1 ∧ e1.cls = e.cls ∧ e1.args = e.args ∧ e1.recv = true ∧
      e1.remoteTb = some (match ar with
        | .str t => t | .tb own => p ++ fmtChain F own e.cause | .dflt => []) := by
  cases ar with
  | dflt => exact absurd rfl hd
  | str t =>
    obtain ⟨e1, h1, hr, hi⟩ := hop_first F p e (.str t) hn t rfl
    cases e with
    | mk c a l k m =>
      simp only [ImgT] at hi
      exact ⟨e1, h1, hi.1, hi.2.1, hr, by simp [Exc.remoteTb, hi.2.2.2.1]⟩
  | tb own =>
    obtain ⟨e1, h1, hr, hi⟩ := hop_first F p e (.tb own) hn _ rfl
    cases e with
    | mk c a l k m =>
      simp only [ImgT] at hi
      simp only [Exc.cause_mk] at hi ⊢
      exact ⟨e1, h1, hi.1, hi.2.1, hr, by simp [Exc.remoteTb, hi.2.2.2.1]⟩

/-- the guard is real: an exception without a live traceback that did not come through
    `RemoteException` cannot be wrapped (`ValueError` in the code) -/
theorem C15_no_traceback (F : Fmt) (p : Text) (e : Exc) (hl : e.live = none) (hr : e.isRemote = false) :
    hop F p e = none := by
  cases e with
  | mk c a l k m =>
    simp only [Exc.live] at hl
    subst hl
    cases k <;> simp_all [hop, hopWith, wrapWith, wrapText, Exc.isRemote, Exc.cause]

/-! ### non-vacuity -/

/-- an `EnsembleError` (class 9) raised with a cause chain, holding a value, a `RemoteException`
    (class 1, text `[50]`) and a nested `EnsembleError` (class 9) that holds a bare live
    exception (class 2); three hops: wrapped in process `[70]`, forwarded by `[71]`, raised again
    (own text `[42]`) and wrapped by `[72]` -/
example :
    let F : Fmt := ⟨[1], [2], [3]⟩
    let inner : Exc := .mk 9 [1] (some [41]) .none (.exc (.mk 2 [8] (some [43]) .none .nil) .nil)
    let e : Exc := .mk 9 [2] (some [40]) (.other [30])
      (.val 5 (.rem (.mk 1 [7] (some [44]) .none .nil) [50] (.exc inner .nil)))
    e.ok = true ∧
    run F e [⟨[70], none⟩, ⟨[71], none⟩, ⟨[72], some [42]⟩] =
      some (.mk 9 [2] none (.remote [72, 1, 70, 30, 40, 2, 3, 42])
        (.val 5 (.exc (.mk 1 [7] none (.remote [50]) .nil)
          (.exc (.mk 9 [1] none (.remote [70, 41]) (.exc (.mk 2 [8] none (.remote [70, 43]) .nil) .nil)) .nil)))) := by
  decide

/-- the guard: a nested exception object without any traceback makes the constructor fail -/
example :
    let F : Fmt := ⟨[1], [2], [3]⟩
    hop F [70] (.mk 9 [2] (some [40]) .none (.exc (.mk 1 [7] none .none .nil) .nil)) = none := by
  decide

end RemoteExc
