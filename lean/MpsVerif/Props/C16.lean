import MpsVerif.Proofs.AFifoLive
/-!
# C16 — async variants give the same answers as their sync counterparts

Models: `Model/AFifo.lean` (`async_fifo_stream`, which `AsyncParmapperAsync`, `AsyncParmapper` and
`AsyncServer.stream` delegate to) and `Model/Fifo.lean` (`fifo_stream`, which `Parmapper` and
`Server.stream` delegate to).  Both take the same configuration `c : Fifo.Cfg`: input length `n`,
how the source ends, the preprocessor's failure plan `preFail`, the worker's failure plan `resErr`,
`return_exceptions`, capacity (and, for the threaded model only, concurrency).

In the async model every hand-off is a *pair* `(x, t)`: the element the consumer is told about and
the awaitable whose outcome it receives; `delivered c out` turns the delivered pairs into values
(`result c t` = the preprocessor's exception for `t` / the worker's exception for `t` / the
worker's result for `t`); with `return_x = False` the consumer sees the second components only.
`spec c k` is "element `i` with its own outcome, for `i < k`".

All theorems hold for every reachable state, i.e. for **every** action list: every completion
order of the concurrent calls (`finish j` for any running `j`), every interleaving of feeder task,
worker tasks and consumer, every capacity, every failure plan incl. the first element, both flags.
-/
namespace AFifo
open Fifo (Cfg SrcEnd Raised)

/-- order and pairing: the delivered pairs are `(0,0), (1,1), (2,2), …` — no gap, no duplicate, no
    reordering, and never another element's awaitable -/
theorem C16_async_in_order (c : Cfg) (s : State) (hr : Reachable c s) :
    s.out = (List.range s.out.length).map dup := (all_reachable c hr).res.1

/-- every delivered pair carries the element's own awaitable, that awaitable is done, and an
    exception is delivered as a value only under `return_exceptions` -/
theorem C16_async_own_result (c : Cfg) (s : State) (hr : Reachable c s) :
    ∀ p ∈ s.out, p.2 = p.1 ∧ p.2 ∈ s.finished ∧ (c.isErr p.2 = false ∨ c.returnExc = true) := by
  have h := (all_reachable c hr).res
  intro p hp
  refine ⟨?_, (h.2.1 p hp).1, (h.2.1 p hp).2⟩
  rw [h.1] at hp
  obtain ⟨i, _, rfl⟩ := List.mem_map.mp hp
  rfl

/-- the same in the hand-off queue: every pair waiting there carries its own awaitable -/
theorem C16_async_pairing (c : Cfg) (s : State) (hr : Reachable c s) :
    (∀ x t, QItem.item x t ∈ s.queue → t = x) ∧ (∀ x t, s.cpc = .wait x t → t = x) := by
  have h := (all_reachable c hr).pair
  exact ⟨fun x t hm => (h.1 x t hm).symm, fun x t hm => (h.2.1 x t hm).symm⟩

/-- exactly-once: the worker is never entered twice for the same element, was entered exactly once
    for every delivered element that passed the preprocessor, and never for a rejected element -/
theorem C16_async_exactly_once (c : Cfg) (s : State) (hr : Reachable c s) :
    s.calls.Nodup ∧
    (∀ p ∈ s.out, c.preFail p.1 = false → s.calls.count p.1 = 1) ∧
    (∀ i, c.preFail i = true → i ∉ s.calls) := by
  have h := all_reachable c hr
  obtain ⟨q1, q2, q3, q4, q5, q6, q7⟩ := h.pool
  refine ⟨q6, ?_, ?_⟩
  · intro p hp hpf
    obtain ⟨e1, e2, _⟩ := C16_async_own_result c s hr p hp
    rw [e1] at e2
    have : p.1 ∈ s.calls := (q7 p.1).mpr (Or.inr ⟨e2, hpf⟩)
    rw [q6.count]; simp [this]
  · intro i hp hc
    rcases (q7 i).mp hc with h1 | h1
    · have := q5 i (Or.inr h1); simp [hp] at this
    · simp [hp] at h1

/-- completeness: when the iteration is over and the consumer neither closed early nor received
    an exception, it has received every element -/
theorem C16_async_complete (c : Cfg) (s : State) (hr : Reachable c s)
    (hclosed : s.cpc = .closed) (hnr : s.raised = none) (hnc : s.closeReq = false) :
    s.out = (List.range c.n).map dup := by
  have h := (all_reachable c hr).res
  have := h.2.2.2.2.1 (by simp [hclosed, CPc.over]) hnr hnc
  rw [← this.1]; exact h.1

/-- **The async stream meets the specification of the sync stream (C01), as values**, after every
    action list `as`: what has been delivered is exactly "element `i` paired with element `i`'s
    own outcome" for `i = 0 … k-1`; a complete, undisturbed iteration delivers all `n` of them; and
    the worker ran exactly once per delivered non-rejected element. -/
theorem C16_async_eq_spec (c : Cfg) (as : List Act) (s : State)
    (h : Core.run (step c) init as = some s) :
    delivered c s.out = spec c s.out.length ∧
    (s.cpc = .closed → s.raised = none → s.closeReq = false → delivered c s.out = spec c c.n) ∧
    s.calls.Nodup ∧
    (∀ i < s.out.length, c.preFail i = false → s.calls.count i = 1) ∧
    (∀ i, c.preFail i = true → i ∉ s.calls) := by
  have hr : Reachable c s := ⟨as, h⟩
  have hio := C16_async_in_order c s hr
  have hspec : delivered c s.out = spec c s.out.length := by
    unfold delivered spec
    conv => lhs; rw [hio]
    simp [List.map_map, dup, Function.comp_def]
  obtain ⟨e1, e2, e3⟩ := C16_async_exactly_once c s hr
  refine ⟨hspec, ?_, e1, ?_, e3⟩
  · intro hc hn hcl
    have := C16_async_complete c s hr hc hn hcl
    have hl : s.out.length = c.n := by rw [this]; simp
    rw [hspec, hl]
  · intro i hi hp
    have hm : dup i ∈ s.out := by rw [hio]; exact List.mem_map.mpr ⟨i, by simpa using hi, rfl⟩
    exact e2 (dup i) hm hp

/-- **An element rejected by the preprocessor yields that element's own exception and never another
    element's result**: if the `k`-th element is rejected, the `k`-th delivery (if there is one) is
    `(k, preprocessor's exception for k)`, and the worker was never entered for `k`. -/
theorem C16_pre_reject_own_exception (c : Cfg) (s : State) (hr : Reachable c s) (k : Nat)
    (hk : k < s.out.length) (hp : c.preFail k = true) :
    (delivered c s.out)[k]? = some (k, .preErr k) ∧ s.out[k]? = some (k, k) ∧ k ∉ s.calls := by
  obtain ⟨as, h⟩ := hr
  obtain ⟨h1, _, _, _, h5⟩ := C16_async_eq_spec c as s h
  have hio := C16_async_in_order c s ⟨as, h⟩
  refine ⟨?_, ?_, h5 k hp⟩
  · rw [h1]; simp [spec, hk, result, hp]
  · rw [hio]; simp [hk, dup]

/-- without `return_exceptions`, the exception raised to the consumer is the one of the element
    whose turn it is — after all earlier elements have been delivered, none of which failed
    (for a rejected element `i`: its own preprocessor exception, raised in position `i`) -/
theorem C16_async_first_failure (c : Cfg) (s : State) (hr : Reachable c s) (i : Nat)
    (hraised : s.raised = some (.item i)) :
    s.out = (List.range i).map dup ∧ (∀ j < i, c.isErr j = false) ∧ c.isErr i = true ∧ i < c.n := by
  have h := all_reachable c hr
  obtain ⟨r1, r2, r3, r4, r5, r6⟩ := h.res
  obtain ⟨a1, a2, a3, a4, a5⟩ := r3 i hraised
  refine ⟨by rw [a1]; exact r1, ?_, a3, a5⟩
  intro j hj
  have hjm : dup j ∈ s.out := by rw [r1]; exact List.mem_map.mpr ⟨j, by simp; omega, rfl⟩
  rcases (r2 _ hjm).2 with h' | h'
  · exact h'
  · simp [a4] at h'

/-- a failing source (incl. `StopRequested`) is reported after every element it produced -/
theorem C16_async_source_failure (c : Cfg) (s : State) (hr : Reachable c s)
    (hraised : s.raised = some .src) : s.out = (List.range c.n).map dup ∧ c.srcEnd = .exc := by
  have h := all_reachable c hr
  have := h.res.2.2.2.1 hraised
  exact ⟨by rw [← this.1]; exact h.res.1, this.2⟩

/-- **Async = sync.**  Take any two configurations that agree on the input, the way the source
    ends, the preprocessor plan, the worker's failure plan and `return_exceptions` (capacity and
    concurrency may differ), *any* action list of the async model and *any* action list of the
    sync model.  If both iterations are complete (generator returned, not closed early), then they
    delivered the same elements with the same outcomes in the same order and ended the same way
    (normally / with the same element's exception / with the source's exception): both equal
    `outcome c`, a function of the configuration alone. -/
theorem C16_async_eq_sync (ca cs : Cfg) (hn : ca.n = cs.n) (hsrc : ca.srcEnd = cs.srcEnd)
    (hpf : ca.preFail = cs.preFail) (hre : ca.resErr = cs.resErr) (hrx : ca.returnExc = cs.returnExc)
    (as : List Act) (bs : List Fifo.Act) (sa : State) (ss : Fifo.State)
    (ha : Core.run (step ca) init as = some sa) (hs : Core.run (Fifo.step cs) Fifo.init bs = some ss)
    (hca : sa.cpc = .closed) (hcs : ss.cpc = .closed)
    (hna : sa.closeReq = false) (hns : ss.closeReq = false) :
    sa.out = ss.out.map dup ∧ sa.raised = ss.raised ∧
    delivered ca sa.out = spec cs ss.out.length ∧
    (sa.out.length, sa.raised) = outcome ca := by
  have h1 := final_outcome ca sa ⟨as, ha⟩ hca hna
  have h2 := Fifo.final_outcome cs ss ⟨bs, hs⟩ hcs hns
  rw [← outcome_congr ca cs hn hsrc hpf hre hrx, ← h1] at h2
  simp only [Prod.mk.injEq] at h2
  have hio := C16_async_in_order ca sa ⟨as, ha⟩
  have hso := (Fifo.all_reachable cs (s := ss) ⟨bs, hs⟩).res.1
  have hsp := (C16_async_eq_spec ca as sa ha).1
  refine ⟨?_, h2.2.symm, ?_, h1⟩
  · rw [hio, hso]; simp [h2.1]
  · rw [hsp, h2.1]
    unfold spec result
    simp only [hpf, hre]

/-- the same for iterations that are not complete (closed early, or still going on): whatever
    each side has delivered so far is a prefix of the same list, so after the same number of
    deliveries the two sides have delivered the same -/
theorem C16_async_eq_sync_prefix (ca cs : Cfg) (hpf : ca.preFail = cs.preFail) (hre : ca.resErr = cs.resErr)
    (sa : State) (ss : Fifo.State) (ha : Reachable ca sa) (hs : Fifo.Reachable cs ss)
    (hlen : sa.out.length = ss.out.length) :
    sa.out = ss.out.map dup ∧ delivered ca sa.out = spec cs ss.out.length := by
  have hio := C16_async_in_order ca sa ha
  have hso := (Fifo.all_reachable cs hs).res.1
  obtain ⟨as, ha'⟩ := ha
  have hsp := (C16_async_eq_spec ca as sa ha').1
  refine ⟨?_, ?_⟩
  · rw [hio, hso]; simp [hlen]
  · rw [hsp, hlen]
    unfold spec result
    simp only [hpf, hre]

/-! ### The async iteration ends whenever the sync one does ("same answers" includes "an answer") -/

/-- every execution of the async model is finite: no action list is longer than `9·n + 10` -/
theorem C16_async_terminates (c : Cfg) (as : List Act) (s : State)
    (hr : Core.run (step c) init as = some s) : as.length ≤ 9 * c.n + 10 := by
  have := Core.length_le_measure (mu c)
    (fun s a s' hs => mu_decreases c s a s' (step_sound c s s' a hs)) as init s hr
  simp [mu, init, frank, crank] at this
  omega

/-- nothing blocks forever: in every reachable state in which the async generator has not yet
    returned, the feeder task, a worker task or the consumer can move (`capacity ≥ 1`) — for every
    failure plan, source ending (incl. a failing / `StopRequested` source), stop position and
    completion order -/
theorem C16_async_progress (c : Cfg) (hcap : 1 ≤ c.cap) (s : State)
    (hr : Reachable c s) (hnf : s.cpc ≠ .closed) : ∃ a, (step c s a).isSome = true :=
  progress_of_inv c hcap s (live_reachable c hr) hnf

/-- hence every partial run extends to a complete one (to which `C16_async_eq_sync` applies) -/
theorem C16_async_completes (c : Cfg) (hcap : 1 ≤ c.cap) (as : List Act) (s : State)
    (h : Core.run (step c) init as = some s) :
    ∃ bs s', Core.run (step c) init (as ++ bs) = some s' ∧ s'.cpc = .closed := by
  obtain ⟨bs, s', hrun, hfin⟩ := can_complete c hcap (mu c s) s ⟨as, h⟩ (Nat.le_refl _)
  refine ⟨bs, s', ?_, hfin⟩
  rw [Core.run_append, h]; simpa using hrun

/-- non-vacuity (spec, rejected first element): the preprocessor rejects element 0, element 1
    completes; the consumer receives `(0, PreError 0), (1, result 1)`; the worker ran for 1 only -/
example :
    let c : Cfg := { n := 2, srcEnd := .clean, cap := 1, conc := 1, preFail := fun i => i == 0,
                     resErr := fun _ => false, returnExc := true }
    ∃ s, Reachable c s ∧ s.cpc = .closed ∧ s.raised = none ∧ s.closeReq = false ∧
      delivered c s.out = [(0, .preErr 0), (1, .ok 1)] ∧ s.calls = [1] := by
  refine ⟨_, ⟨[.pull, .fcheck, .preFail, .put, .pull, .fcheck, .submit, .put, .start 1, .finish 1,
              .get, .yld, .next, .get, .yld, .next, .srcEnd, .putEnd, .get, .drainEmpty, .reap, .join],
             rfl⟩, ?_⟩
  decide

/-- non-vacuity (async = sync): element 1 fails in the worker, exceptions are not returned,
    element 1 finishes *before* element 0; both models end closed having delivered element 0 and
    raised element 1's exception -/
example :
    let c : Cfg := { n := 3, srcEnd := .clean, cap := 1, conc := 2, preFail := fun _ => false,
                     resErr := fun i => i == 1, returnExc := false }
    ∃ as bs sa ss, Core.run (step c) init as = some sa ∧ Core.run (Fifo.step c) Fifo.init bs = some ss ∧
      sa.cpc = .closed ∧ ss.cpc = .closed ∧ sa.closeReq = false ∧ ss.closeReq = false ∧
      sa.out = [(0, 0)] ∧ sa.raised = some (.item 1) ∧ outcome c = (1, some (.item 1)) := by
  refine ⟨[.pull, .fcheck, .submit, .put, .pull, .fcheck, .submit, .put, .start 0, .start 1, .finish 1,
           .finish 0, .get, .yld, .next, .get, .raiseItem, .setStop, .pull, .stopSeen, .drainEmpty,
           .reap, .putEnd, .join],
          [.pull, .fcheck, .submit, .put, .pull, .fcheck, .submit, .put, .start 0, .start 1, .finish 1,
           .finish 0, .get, .yld, .next, .get, .raiseItem, .setStop, .drainEmpty, .pull, .stopSeen,
           .putEnd, .join], _, _, rfl, rfl, ?_⟩
  decide

/-- non-vacuity (cancellation of a running task): early close while task 1 runs — it is cancelled,
    unwinds, and only then does the generator return -/
example :
    let c : Cfg := { n := 2, srcEnd := .clean, cap := 2, conc := 1, preFail := fun _ => false,
                     resErr := fun _ => false, returnExc := false }
    ∃ s, Reachable c s ∧ s.cpc = .closed ∧ s.closeReq = true ∧ s.out = [(0, 0)] ∧ s.creq = [1] ∧
      s.running = [] := by
  refine ⟨_, ⟨[.pull, .fcheck, .submit, .put, .pull, .fcheck, .submit, .put, .start 0, .start 1, .finish 0,
              .get, .yld, .close, .setStop, .drainCancelRun, .drainEmpty, .finish 1, .reap, .srcEnd,
              .putEnd, .join], rfl⟩, ?_⟩
  decide

end AFifo
