import MpsVerif.Proofs.IterQueueInv
import MpsVerif.Proofs.IterQueueTime
import MpsVerif.Proofs.IterQueueLive
import MpsVerif.Proofs.IterQueueCall
/-!
# C17 — IterableQueue delivers every item once and every consumer finishes

Model: `Model/IterQueue.lean` (the repaired code: `_lids_lock` around "move one token and read
`used.full()`").  `m ≥ 1` suppliers, `n ≥ 1` consumers, any queue bound `cap`, any wait interval
`w`; a schedule is an action list, so every theorem below holds for **every** interleaving, any
number of rounds (each `rGet` that succeeds starts a new round) and any moment of the stop request
(`setStop` is an action).  `putLog` / `gotLog` are the values put / received in the current round
(with the supplier / consumer that did it), `hist` the logs of the finished rounds.
-/
namespace IterQueue

/-- **Exactly once.**  At every moment of every execution: what the consumers have received in
    this round, together with what is still in the queue, is exactly (as a multiset) what the
    suppliers have put in this round — nothing else is ever returned, nothing is lost or duplicated,
    no value of another round is mixed in.  When every consumer's iteration has ended, the received
    multiset equals the put multiset and every supplier has called `put_end`; the same holds for
    every finished round. -/
theorem C17_exactly_once (c : Cfg) (hm : 1 ≤ c.m) (hn : 1 ≤ c.n) (s : State) (hr : Reachable c s) :
    (vals s.putLog).Perm (vals s.gotLog ++ vals (itemsOf s.queue)) ∧
    ((∀ a ∈ s.cons, a.pc = .done) →
        (vals s.putLog).Perm (vals s.gotLog) ∧ ∀ a ∈ s.sups, a.pc = .ended) ∧
    (∀ pg ∈ s.hist, (vals pg.1).Perm (vals pg.2)) := by
  have hi := all_reachable c hm hn hr
  refine ⟨hi.perm, ?_, hi.hist⟩
  intro hall
  obtain ⟨hq, _, _, _, _, hs⟩ := round_end_facts c hn s hi hall
  have := hi.perm
  rw [hq] at this
  exact ⟨by simpa [vals, itemsOf] using this, hs⟩

/-- **One marker per round.**  When every consumer's iteration has ended the data queue holds
    exactly the one extra end marker (F14: the pinned code can leave two), all tokens are in `used`
    and the lock is free. -/
theorem C17_one_marker_left (c : Cfg) (hm : 1 ≤ c.m) (hn : 1 ≤ c.n) (s : State) (hr : Reachable c s)
    (hall : ∀ a ∈ s.cons, a.pc = .done) :
    s.queue = [.mark] ∧ s.spare = 0 ∧ s.applied = 0 ∧ s.used = c.m ∧ s.lock = false := by
  obtain ⟨h1, h2, h3, h4, h5, _⟩ := round_end_facts c hn s (all_reachable c hm hn hr) hall
  exact ⟨h1, h2, h3, h4, h5⟩

/-- **Renew is clean.**  `renew` never raises (`rpc` is never `failed`: the `used.full()` test
    holds and the entry it takes off the queue is a marker), and the state after it is a fresh
    round: empty queue — exactly zero markers or values carried over —, all `m` tokens back in
    `spare`, lock free; the finished round's logs go to `hist`. -/
theorem C17_renew_clean (c : Cfg) (hm : 1 ≤ c.m) (hn : 1 ≤ c.n) (s s' : State) (hr : Reachable c s) :
    s.rpc ≠ .failed ∧
    (step c s .rStart = some s' → s'.rpc = .get) ∧
    (step c s .rGet = some s' →
      Fresh c s' ∧ s'.round = s.round + 1 ∧ s'.hist = s.hist ++ [(s.putLog, s.gotLog)]) := by
  have hi := all_reachable c hm hn hr
  refine ⟨hi.rf, ?_, ?_⟩
  · intro hs
    have hi' := inv_step c hm hn s s' _ hi (step_sound c s s' _ hs)
    cases step_sound c s s' _ hs with
    | rStartOk _ _ _ => rfl
    | rStartFail _ _ _ => exact absurd rfl hi'.rf
  · intro hs
    have hi' := inv_step c hm hn s s' _ hi (step_sound c s s' _ hs)
    cases step_sound c s s' _ hs with
    | rGetMark rest hrp hq hu =>
      obtain ⟨h1, h2, h3, h4, h5, h6, _⟩ := renew_facts c s rest hi hrp hq
      refine ⟨⟨rfl, rfl, h1, ?_, h3, ?_, h5, rfl, rfl, rfl, rfl⟩, rfl, rfl⟩
      · show s.spare + c.m = c.m; omega
      · show s.used - c.m = 0; omega
    | rGetItem i x rest hrp hq => exact absurd rfl hi'.rf

/-- `renew` is not blocked: once every consumer's iteration has ended, `renew` passes its test and
    finds its marker at once. -/
theorem C17_renew_enabled (c : Cfg) (hm : 1 ≤ c.m) (hn : 1 ≤ c.n) (s : State) (hr : Reachable c s)
    (hall : ∀ a ∈ s.cons, a.pc = .done) (hoff : s.rpc = .off) :
    ∃ s1 s2, step c s .rStart = some s1 ∧ step c s1 .rGet = some s2 := by
  obtain ⟨hq, _, _, hu, _, _⟩ := round_end_facts c hn s (all_reachable c hm hn hr) hall
  have hall' : s.cons.all (fun a => a.pc == .done) = true := by
    rw [List.all_eq_true]; intro a ha; simp [hall a ha]
  have h1 : step c s .rStart = some { s with rpc := .get, rt0 := s.now, rtw := s.now } := by
    simp [step, hoff, hall', usedFull, hu]
  cases h2 : step c { s with rpc := .get, rt0 := s.now, rtw := s.now } .rGet with
  | some s2 => exact ⟨_, _, h1, h2⟩
  | none => simp [step, hq, hu] at h2

/-- **The helper queues never block and `put_end` never fails.**  A supplier that has not yet called
    `put_end` in this round finds a token in `spare` (so the "called more than `num_suppliers`
    times" error cannot occur under the protocol), `applied.put` / `used.put` find room,
    `applied.get` finds a token, and a consumer's `put(None)` finds the data queue empty (it never
    blocks, whatever the bound `cap ≥ 1`). -/
theorem C17_token_ops_enabled (c : Cfg) (hm : 1 ≤ c.m) (hn : 1 ≤ c.n) (s : State) (hr : Reachable c s) :
    (∀ (i : Nat) (a : Sup), s.sups[i]? = some a → a.pc = .idle → (step c s (.sEndBeg i)).isSome = true) ∧
    (∀ (i : Nat) (a : Sup), s.sups[i]? = some a → a.pc = .pe1 → (step c s (.sApply i)).isSome = true) ∧
    (∀ (j : Nat) (a : Con), s.cons[j]? = some a → a.pc = .take → (step c s (.cTake j)).isSome = true) ∧
    (∀ (j : Nat) (a : Con), s.cons[j]? = some a → a.pc = .give → (step c s (.cGive j)).isSome = true) ∧
    (∀ (j : Nat) (a : Con), s.cons[j]? = some a → (a.pc = .reput ∨ a.pc = .extra) → s.queue = []) := by
  have hi := all_reachable c hm hn hr
  have hE := ind_le s.extraOut
  refine ⟨?_, ?_, ?_, ?_, fun j a h hp => put_none_room c s hi j a h hp⟩
  · intro i a h hpc
    have h1 := cntS_ge SPc.notStarted h
    have h2 := hi.spareEq
    simp only [hpc, SPc.notStarted, ind_true] at h1
    have : 0 < s.spare := by omega
    simp [step, h, hpc, this]
  · intro i a h hpc
    have h1 := cntS_ge SPc.isPe1 h
    have h2 := hi.tok
    simp only [hpc, SPc.isPe1, ind_true] at h1
    have : s.applied < c.m := by omega
    simp [step, h, hpc, this]
  · intro j a h hpc
    have h1 := cntC_ge CPc.isTake h
    have h2 := hi.mkr; have h3 := hi.wLt; have h4 := hi.lkT
    simp only [hpc, CPc.isTake, ind_true] at h1
    have : 0 < s.applied := by omega
    simp [step, h, hpc, this]
  · intro j a h hpc
    have h1 := cntC_ge CPc.isGive h
    have h2 := hi.tok
    simp only [hpc, CPc.isGive, ind_true] at h1
    have : s.used < c.m := by omega
    simp [step, h, hpc, this]

/-- **A late consumer leaves a finished round untouched.**  A consumer that starts iterating when the
    token set is already complete (the round is over, `renew` not yet called) ends at once: its only
    step is the `used.full()` test, after which it is `done`; the data queue — in particular the one
    surplus marker at its front —, the token queues and the lock are exactly as before; and no other
    action moves that consumer (`renew` cannot even have started before it has ended). -/
theorem C17_late_consumer (c : Cfg) (hm : 1 ≤ c.m) (hn : 1 ≤ c.n) (s : State) (hr : Reachable c s)
    (j : Nat) (a : Con) (h : s.cons[j]? = some a) (hpc : a.pc = .chk1) (hu : c.m ≤ s.used) :
    step c s (.cChk1 j) = some { s with cons := s.cons.set j { a with pc := .done } } ∧
    (∀ act s', act ≠ .cChk1 j → step c s act = some s' → s'.cons[j]? = some a) := by
  refine ⟨by simp [step, h, hpc, usedFull, hu], ?_⟩
  intro act s' hne hs
  have hstep := step_sound c s s' act hs
  have keep : ∀ (k : Nat) (b : Con), k ≠ j → (s.cons.set k b)[j]? = some a := by
    intro k b hk; rw [List.getElem?_set]; simp [hk, h]
  have diff : ∀ (k : Nat) (b : Con), s.cons[k]? = some b → b.pc ≠ .chk1 → k ≠ j := by
    intro k b hb hbp hkj; subst hkj; rw [h] at hb; cases hb; exact hbp hpc
  cases hstep with
  | cChk1Full k b hb hbp _ => exact keep k _ (by intro hk; subst hk; exact hne rfl)
  | cChk1Go k b hb hbp _ => exact keep k _ (by intro hk; subst hk; exact hne rfl)
  | cGetItem k i x rest b hb hbp _ => exact keep k _ (diff k b hb (by rw [hbp]; simp))
  | cGetMark k rest b hb hbp _ => exact keep k _ (diff k b hb (by rw [hbp]; simp))
  | cChk2Full k b hb hbp _ => exact keep k _ (diff k b hb (by rw [hbp]; simp))
  | cChk2Go k b hb hbp _ => exact keep k _ (diff k b hb (by rw [hbp]; simp))
  | cReput k b hb hbp _ => exact keep k _ (diff k b hb (by rw [hbp]; simp))
  | cLock k b hb hbp _ => exact keep k _ (diff k b hb (by rw [hbp]; simp))
  | cTake k b hb hbp _ => exact keep k _ (diff k b hb (by rw [hbp]; simp))
  | cGive k b hb hbp _ => exact keep k _ (diff k b hb (by rw [hbp]; simp))
  | cTest k b hb hbp => exact keep k _ (diff k b hb (by rw [hbp]; simp))
  | cUnlockLast k b hb hbp => exact keep k _ (diff k b hb (by rw [hbp]; simp))
  | cUnlockGo k b hb hbp => exact keep k _ (diff k b hb (by rw [hbp]; simp))
  | cExtra k b hb hbp _ => exact keep k _ (diff k b hb (by rw [hbp]; simp))
  | cRetry k b hb hw _ _ _ => exact keep k _ (diff k b hb (by intro hp; rw [hp] at hw; simp [CPc.waiting] at hw))
  | cStop k b hb hw _ _ _ => exact keep k _ (diff k b hb (by intro hp; rw [hp] at hw; simp [CPc.waiting] at hw))
  | rGetMark rest hrg hq hu2 =>
    -- `renew` has started only if every consumer is done; consumer `j` is still at its start pc
    have := ((all_reachable c hm hn hr).rn hrg).2 a (mem_of_getElem? h)
    rw [hpc] at this; cases this
  | _ => exact h

/-- **Stop is answered within one wait interval.**  Let a stop have been requested at clock `ts`.
    (1) Whoever is still inside a blocking `get`/`put` (consumer, supplier, or `renew`) has been
    there for at most one wait interval `w` counted from the later of the stop request and the
    start `t0` of that operation.  (2) When such an actor's bounded wait has expired and the
    operation still cannot succeed, raising `StopRequested` is its only move (`cStop`/`sStop` is
    enabled, a further retry is not) and the clock does not advance before it has moved
    (zero scheduling latency, see the model header).  (3) `StopRequested` is raised only after a
    stop request. -/
theorem C17_stop_responsive (c : Cfg) (s : State) (hr : Reachable c s) :
    (∀ ts, s.stop = some ts →
      (∀ (j : Nat) (a : Con), s.cons[j]? = some a → a.pc.waiting = true →
          s.now ≤ a.t0 + c.w ∨ s.now ≤ ts + c.w) ∧
      (∀ (i : Nat) (a : Sup), s.sups[i]? = some a → a.pc.waiting = true →
          s.now ≤ a.t0 + c.w ∨ s.now ≤ ts + c.w) ∧
      (s.rpc = .get → s.now ≤ s.rt0 + c.w ∨ s.now ≤ ts + c.w) ∧
      (∀ (j : Nat) (a : Con), s.cons[j]? = some a → a.pc.waiting = true → cBlocked c s a.pc = true →
          a.tw + c.w ≤ s.now →
          step c s (.cStop j) = some { s with cons := s.cons.set j { a with pc := .stopped } } ∧
          step c s (.cRetry j) = none ∧ step c s .tick = none) ∧
      (∀ (i : Nat) (a : Sup), s.sups[i]? = some a → a.pc.waiting = true → room c s = false →
          a.tw + c.w ≤ s.now →
          (step c s (.sStop i)).isSome = true ∧ step c s (.sRetry i) = none ∧ step c s .tick = none)) ∧
    (s.stop = none →
      (∀ a ∈ s.cons, a.pc ≠ .stopped) ∧ (∀ a ∈ s.sups, a.pc ≠ .stoppedP ∧ a.pc ≠ .stoppedE) ∧
      s.rpc ≠ .stopped) := by
  have hi := tinv_reachable c hr
  refine ⟨?_, ?_⟩
  · intro ts hstop
    have bound : ∀ t0 tw, WaitOk c.w s.now s.stop t0 tw → s.now ≤ t0 + c.w ∨ s.now ≤ ts + c.w := by
      intro t0 tw ho
      rcases ho.h4 with h | h
      · left; have := ho.h3; omega
      · right; have := h ts hstop; have := ho.h3; omega
    refine ⟨fun j a h hw => bound _ _ (hi.con j a h hw), fun i a h hw => bound _ _ (hi.sup i a h hw),
            fun h => bound _ _ (hi.ren h), ?_, ?_⟩
    · intro j a h hw hb hdue
      refine ⟨by simp [step, h, hw, hb, hdue, hstop], by simp [step, h, hstop], ?_⟩
      cases hnd : noneDue c s with
      | false => simp [step, hnd]
      | true =>
        exfalso
        simp only [noneDue, Bool.and_eq_true, List.all_eq_true, Bool.or_eq_true, Bool.not_eq_true',
          decide_eq_true_eq] at hnd
        rcases hnd.1.2 a (mem_of_getElem? h) with h5 | h5
        · rw [h5] at hw; cases hw
        · omega
    · intro i a h hw hroom hdue
      refine ⟨by simp [step, h, hw, hroom, hdue, hstop], by simp [step, h, hstop], ?_⟩
      cases hnd : noneDue c s with
      | false => simp [step, hnd]
      | true =>
        exfalso
        simp only [noneDue, Bool.and_eq_true, List.all_eq_true, Bool.or_eq_true, Bool.not_eq_true',
          decide_eq_true_eq] at hnd
        rcases hnd.1.1 a (mem_of_getElem? h) with h5 | h5
        · rw [h5] at hw; cases hw
        · omega
  · intro hnone
    refine ⟨?_, ?_, ?_⟩
    · intro a ha hp
      obtain ⟨j, hj⟩ := List.mem_iff_getElem?.mp ha
      exact hi.cstopped j a hj hp hnone
    · intro a ha
      obtain ⟨i, hi2⟩ := List.mem_iff_getElem?.mp ha
      exact ⟨fun hp => hi.sstopped i a hi2 (Or.inl hp) hnone, fun hp => hi.sstopped i a hi2 (Or.inr hp) hnone⟩
    · intro hp; exact hi.rstopped hp hnone

/-- non-vacuity of `C17_stop_responsive`: a consumer blocked on an empty queue since clock 0, stop
    requested at clock 2 (after two expired waits and retries); at clock 3 it raises `StopRequested`,
    i.e. exactly one wait interval after the request -/
example :
    let c : Cfg := { m := 1, n := 1, cap := 0, w := 1 }
    ∃ s, Reachable c s ∧ s.stop = some 2 ∧ s.now = 3 ∧ (s.cons.map (·.pc)) = [.stopped] := by
  refine ⟨_, ⟨[.cChk1 0, .tick, .cRetry 0, .tick, .cRetry 0, .setStop, .tick, .cStop 0], rfl⟩, ?_⟩
  decide

/-- **Every consumer finishes.**  Let all suppliers have ended (`put_end` returned).  Then
    (1) *progress*: as long as no stop is requested and some consumer's iteration has not ended, some
    consumer can make a real move (nobody is blocked for good: not on the data queue, not on the
    lock, not on a token queue, not in `put(None)`);
    (2) *bounded work*: in any continuation without supplier and `renew` actions the consumers make at
    most `mu s` real moves (`mu` = positions in `__next__` + 2·values queued + 20·tokens applied);
    (3) no supplier action is enabled, (4) `renew` can only start when every consumer has ended, and
    (5) all other actions leave the suppliers as they are — so (1)–(2) apply to the whole rest of the
    round.  Hence every maximal execution in which the stutter steps (`tick`, retries after an
    expired wait) do not starve the consumers ends with every consumer `done`. -/
theorem C17_all_finish (c : Cfg) (hm : 1 ≤ c.m) (hn : 1 ≤ c.n) (s : State) (hr : Reachable c s)
    (hsup : ∀ a ∈ s.sups, a.pc = .ended) :
    (s.stop = none → (∃ a ∈ s.cons, a.pc ≠ .done) →
        ∃ act, isConsMove act = true ∧ (step c s act).isSome = true) ∧
    (∀ as s', Core.run (step c) s as = some s' →
        (∀ a ∈ as, isSupAct a = false ∧ isRenewAct a = false) → as.countP isConsMove + mu s' ≤ mu s) ∧
    (∀ act, isSupAct act = true → step c s act = none) ∧
    (∀ s', step c s .rStart = some s' → ∀ a ∈ s.cons, a.pc = .done) ∧
    (∀ act s', step c s act = some s' → isSupAct act = false → isRenewAct act = false → s'.sups = s.sups) := by
  have hi := all_reachable c hm hn hr
  have ht := tinv_reachable c hr
  refine ⟨fun hstop hnd => cons_progress c s hi ht hstop hsup hnd,
          fun as s' hrun hall => moves_le_mu c as s s' hrun hall,
          fun act hact => sup_disabled c s hsup act hact, ?_,
          fun act s' hs h1 h2 => sups_unchanged c s s' act (step_sound c s s' act hs) h1 h2⟩
  intro s' hs
  cases step_sound c s s' _ hs with
  | rStartOk _ hall _ => exact hall
  | rStartFail _ hall _ => exact hall

/-- **A call with its own timeout answers the stop as well.**  One blocking `ResponsiveQueue` call
    (`put/get(timeout = T)`, `T = none`: no timeout) that starts at clock 0 and cannot succeed before
    `r`, with a stop requested at `s` (any `w`, `T`, `s`, `r`, either resolution of a request made at
    the instant of a poll): it ends with `StopRequested` only at a clock in `[s, s + w]`, with
    `Full/Empty` only exactly at its own timeout, successfully only at `r`; and whenever a stop was
    requested at `s0` the call is over — one way or the other — by `s0 + w`, i.e. within one wait
    interval, however long its own timeout is (it does end: `fuel` waits suffice once
    `s0 + w < fuel · w`). -/
theorem C17_timed_call_responsive (w : Nat) (T s : Option Nat) (tie : Bool) (r : Option Nat) (fuel : Nat) :
    (∀ u, timedCall w T s tie r fuel 0 = .stop u → ∃ s0, s = some s0 ∧ s0 ≤ u ∧ u ≤ s0 + w) ∧
    (∀ u, timedCall w T s tie r fuel 0 = .expire u → T = some u) ∧
    (∀ u, timedCall w T s tie r fuel 0 = .ok u → r = some u) ∧
    (∀ s0, s = some s0 → timedCall w T s tie r fuel 0 ≠ .running →
        (timedCall w T s tie r fuel 0).time ≤ s0 + w) ∧
    (∀ s0, s = some s0 → s0 + w < fuel * w → timedCall w T s tie r fuel 0 ≠ .running) := by
  obtain ⟨h1, h2, h3, h4⟩ := timedCall_spec w T s tie r fuel 0 (fun _ _ => Nat.zero_le _) (fun _ _ => Nat.zero_le _)
  refine ⟨h1, h2, h3, h4, ?_⟩
  intro s0 hs0 hf
  rw [hs0]
  exact timedCall_ends w T s0 tie r fuel 0 (Nat.zero_le _) (by omega)

/-- non-vacuity: interval 4, own timeout 80 (20 s), stop requested at 2: `StopRequested` at 4, not
    `Full` at 80; with own timeout 6 and the stop at 5 the timeout wins at 6; a request made exactly
    at a poll and not seen by it is answered one interval later -/
example : timedCall 4 (some 80) (some 2) false none 30 0 = .stop 4 ∧
    timedCall 4 (some 6) (some 5) false none 30 0 = .expire 6 ∧
    timedCall 4 none (some 4) false none 30 0 = .stop 8 ∧
    timedCall 4 none (some 4) true (some 7) 30 0 = .stop 4 := by decide

/-- **Every consumer finishes — bound.**  Once all suppliers have ended, in *any* continuation
    without a `renew` action (any interleaving with stop requests, clock ticks, retries) the
    consumers make at most `mu s` real moves, and the suppliers stay ended (so the progress clause
    of `C17_all_finish` keeps applying). -/
theorem C17_all_finish_bound (c : Cfg) (s s' : State) (as : List Act)
    (hsup : ∀ a ∈ s.sups, a.pc = .ended) (hrun : Core.run (step c) s as = some s')
    (hnr : ∀ a ∈ as, isRenewAct a = false) :
    as.countP isConsMove + mu s' ≤ mu s ∧ (∀ a ∈ s'.sups, a.pc = .ended) :=
  moves_le_mu_ended c as s s' hrun hsup hnr

/-- non-vacuity of `C17_all_finish`: one supplier has put a value and ended, two consumers are inside
    `get`; 54 units of work are left -/
example :
    let c : Cfg := { m := 1, n := 2, cap := 0, w := 1 }
    ∃ s, Reachable c s ∧ (∀ a ∈ s.sups, a.pc = .ended) ∧ s.cons.map (·.pc) = [.get, .get] ∧ mu s = 54 := by
  refine ⟨_, ⟨[.sPutBeg 0 5, .sPut 0, .sEndBeg 0, .sApply 0, .sMark 0, .cChk1 0, .cChk1 1], rfl⟩, ?_⟩
  decide

/-- non-vacuity: two suppliers, two consumers; both consumers meet at the token hand-over (the
    F14 window), the round ends with exactly one marker, `renew`, and a second round delivers its
    own value -/
example :
    let c : Cfg := { m := 2, n := 2, cap := 0, w := 1 }
    ∃ s, Reachable c s ∧ s.round = 1 ∧ (∀ a ∈ s.cons, a.pc = .done) ∧ s.queue = [.mark]
      ∧ s.gotLog = [(0, 9)] ∧ s.hist = [([(0, 5), (1, 6)], [(0, 5), (1, 6)])] := by
  refine ⟨_, ⟨[.sPutBeg 0 5, .sPut 0, .sPutBeg 1 6, .sPut 1, .sEndBeg 0, .sApply 0, .sMark 0,
               .sEndBeg 1, .sApply 1, .sMark 1,
               .cChk1 0, .cGet 0, .cChk1 1, .cGet 1, .cChk1 0, .cGet 0, .cChk1 1, .cGet 1,
               .cChk2 0, .cChk2 1, .cLock 0, .cTake 0, .cGive 0, .cTest 0, .cUnlock 0,
               .cLock 1, .cTake 1, .cGive 1, .cTest 1, .cUnlock 1, .cExtra 1,
               .cChk1 0, .rStart, .rGet,
               .sPutBeg 0 9, .sPut 0, .sEndBeg 0, .sApply 0, .sMark 0, .sEndBeg 1, .sApply 1, .sMark 1,
               .cChk1 0, .cGet 0, .cChk1 0, .cGet 0, .cChk2 0, .cLock 0, .cTake 0, .cGive 0, .cTest 0,
               .cUnlock 0, .cChk1 0, .cGet 0, .cChk2 0, .cLock 0, .cTake 0, .cGive 0, .cTest 0,
               .cUnlock 0, .cExtra 0, .cChk1 1], rfl⟩, ?_⟩
  decide

end IterQueue
