import MpsVerif.Proofs.Frame
/-!
# C18 — socket and pipe transports deliver intact and to the right request

Part 1 (framing, `Model/Frame.lean`): whatever `write_record` wrote, `read_record` reads back —
same request id, same encoder, byte-identical payload — for arbitrary payload bytes (newlines,
header look-alikes, empty, any length) and any number of records back to back.  Decoding is a
function of the byte stream, so chunk boundaries of the transport cannot matter (assumption on
`StreamReader.readuntil/readexactly`, checked by the tie on many chunkings).
-/
namespace Frame

/-- One `read_record` on a stream that starts with `write_record r` returns exactly `r` and leaves
    exactly the bytes that followed it (whatever they are). -/
theorem C18_frame_first (lim : Nat) (r : Rec) (rest : Bytes)
    (hid : wellFormedId r.rid) (hlim : (headerLine r).length ≤ lim) :
    readRecord lim (encodeRecord r ++ rest) = .ok r rest :=
  readRecord_encode lim r rest ⟨hid, hlim⟩

/-- Any number of records written back to back are read back exactly, in order, and the reader then
    sees a clean end of stream.  `lim` is the `StreamReader` limit (2**16 by default); the guard
    "the header line fits the limit" is the one the real reader has. -/
theorem C18_frame_roundtrip (lim : Nat) (rs : List Rec)
    (hw : ∀ r ∈ rs, wellFormedId r.rid ∧ (headerLine r).length ≤ lim) :
    decodeStream lim (rs.flatMap encodeRecord) = (rs, .eof) :=
  decodeFuel_encodeStream lim rs hw _ (by simp [encodeStream])

/-- non-vacuity: a payload that looks like a header and contains newlines, an empty payload and a
    plain one, back to back, with ids `7`, `x/1`, `140230` -/
example :
    let r1 : Rec := { rid := [55], enc := .none, payload := [55, 32, 51, 32, 110, 111, 110, 101, 10, 10, 97] }
    let r2 : Rec := { rid := [120, 47, 49], enc := .pickle, payload := [] }
    let r3 : Rec := { rid := [49, 52, 48, 50, 51, 48], enc := .utf8, payload := [10] }
    decodeStream 64 (encodeStream [r1, r2, r3]) = ([r1, r2, r3], .eof)
    ∧ (∀ r ∈ [r1, r2, r3], wellFormedId r.rid ∧ (headerLine r).length ≤ 64)
    ∧ encodeRecord r1 = [55, 32, 49, 49, 32, 110, 111, 110, 101, 10,
                         55, 32, 51, 32, 110, 111, 110, 101, 10, 10, 97] := by
  decide

end Frame
