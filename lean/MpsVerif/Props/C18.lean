import MpsVerif.Proofs.FrameChunks
import MpsVerif.Proofs.MuxLive
import MpsVerif.Proofs.Pipe
/-!
# C18 — socket and pipe transports deliver intact and to the right request

Part 1 (framing, `Model/Frame.lean`): whatever `write_record` wrote, `read_record` reads back —
same request id, same encoder, byte-identical payload — for arbitrary payload bytes (newlines,
header look-alikes, empty, any length) and any number of records back to back; a cut stream never
yields a phantom record; and chunk boundaries of the transport cannot matter (`C18_frame_chunking`:
a buffering reader whose reads wait while incomplete gets exactly what `decodeStream` gets from the
concatenation; that `asyncio.StreamReader` is such a reader is checked by the tie on many chunkings).
-/
namespace Frame

/-- One `read_record` on a stream that starts with `write_record r` returns exactly `r` and leaves
    exactly the bytes that followed it (whatever they are). -/
theorem C18_frame_first (lim : Nat) (r : Rec) (rest : Bytes)
    (hid : wellFormedId r.rid) (hlim : (headerLine r).length ≤ lim) :
    readRecord lim (encodeRecord r ++ rest) = .ok r rest :=
  readRecord_encode lim r rest ⟨hid, hlim⟩

/-- Any number of records written back to back are read back exactly, in order, and the reader then
    sees a clean end of stream.  `lim` is the `StreamReader` limit (2**16 by default); the guard
    "the header line fits the limit" is the one the real reader has. -/
theorem C18_frame_roundtrip (lim : Nat) (rs : List Rec)
    (hw : ∀ r ∈ rs, wellFormedId r.rid ∧ (headerLine r).length ≤ lim) :
    decodeStream lim (rs.flatMap encodeRecord) = (rs, .eof) :=
  decodeFuel_encodeStream lim rs hw _ (by simp [encodeStream])

/-- A stream that is cut anywhere inside a record (the peer died mid-write) yields exactly the
    records before the cut and then an incomplete read — never a phantom or damaged record. -/
theorem C18_frame_truncated (lim : Nat) (rs : List Rec) (r : Rec) (p q : Bytes)
    (hw : ∀ x ∈ rs, wellFormedId x.rid ∧ (headerLine x).length ≤ lim)
    (hr : wellFormedId r.rid ∧ (headerLine r).length ≤ lim)
    (hcut : encodeRecord r = p ++ q) (hp : p ≠ []) (hq : q ≠ []) :
    decodeStream lim (rs.flatMap encodeRecord ++ p) = (rs, .incomplete) := by
  have hinc := readRecord_prefix lim r hr p q hcut hp hq
  exact decodeFuel_tail lim rs hw p .incomplete (fun f => by simp [decodeFuel, hinc]) _ (by simp [encodeStream])

/-- Chunk boundaries cannot matter: once a record can be read from the bytes received so far, exactly
    the same record is read from any extension of them and exactly the extension is added to what is
    left — a reader that waits while a read is incomplete returns the same records however the
    transport cuts the stream. -/
theorem C18_frame_prefix_stable (lim : Nat) (bs x rest : Bytes) (r : Rec)
    (h : readRecord lim bs = .ok r rest) : readRecord lim (bs ++ x) = .ok r (rest ++ x) :=
  readRecord_mono lim x h

/-- Chunking is irrelevant, for **every** byte stream (well formed or not) and **every** way the
    transport cuts it: a reader that buffers what arrives and lets `read_record` wait while a read is
    incomplete (`Model/Frame.lean`, `Reader`) returns exactly the records, and ends exactly the way,
    `decodeStream` does on the concatenation. -/
theorem C18_frame_chunking (lim : Nat) (chunks : List Bytes) :
    readChunks lim chunks = decodeStream lim chunks.flatten :=
  readChunks_eq lim chunks

/-- hence: whatever the chunk boundaries, written records are read back exactly -/
theorem C18_frame_roundtrip_chunked (lim : Nat) (rs : List Rec) (chunks : List Bytes)
    (hw : ∀ r ∈ rs, wellFormedId r.rid ∧ (headerLine r).length ≤ lim)
    (hc : chunks.flatten = rs.flatMap encodeRecord) :
    readChunks lim chunks = (rs, .eof) := by
  rw [C18_frame_chunking, hc]; exact C18_frame_roundtrip lim rs hw

/-- non-vacuity: a payload that looks like a header and contains newlines, an empty payload and a
    plain one, back to back, with ids `7`, `x/1`, `140230` -/
example :
    let r1 : Rec := { rid := [55], enc := .none, payload := [55, 32, 51, 32, 110, 111, 110, 101, 10, 10, 97] }
    let r2 : Rec := { rid := [120, 47, 49], enc := .pickle, payload := [] }
    let r3 : Rec := { rid := [49, 52, 48, 50, 51, 48], enc := .utf8, payload := [10] }
    decodeStream 64 (encodeStream [r1, r2, r3]) = ([r1, r2, r3], .eof)
    ∧ (∀ r ∈ [r1, r2, r3], wellFormedId r.rid ∧ (headerLine r).length ≤ 64)
    ∧ encodeRecord r1 = [55, 32, 49, 49, 32, 110, 111, 110, 101, 10,
                         55, 32, 51, 32, 110, 111, 110, 101, 10, 10, 97]
    ∧ decodeStream 64 (encodeStream [r1, r2] ++ (encodeRecord r3).take 9) = ([r1, r2], .incomplete)
    -- the same stream arriving one byte at a time
    ∧ readChunks 64 ((encodeStream [r1, r2, r3]).map (fun b => [b])) = ([r1, r2, r3], .eof) := by
  decide

end Frame

/-!
Part 2 (multiplexing, `Model/Mux.lean`): any number of requesters, any number of connections, every
interleaving of client senders/receivers, server receivers/responders and handler completions
(`∀` action lists), every handler function, every id the allocator may legally hand out.
-/
namespace Mux

/-- Every future that has been set holds the handler's response (or exception) to **its own**
    payload — whatever the completion order of the handlers and whichever connections were used. -/
theorem C18_mux_own_response (c : Cfg) (s : State) (hr : Reachable c s) :
    ∀ k v, (k, v) ∈ s.results → ∃ r, s.reqs[k]? = some r ∧ v = c.handler r.data :=
  fun k v h => ((all_reachable c hr).res_ok k v h).1

/-- The payload reaches the routed handler intact: every handler invocation the server has started
    (a task in a connection's queue) was given exactly the payload of the request that is registered
    at the client under the record's id. -/
theorem C18_mux_handler_payload (c : Cfg) (s : State) (hr : Reachable c s) (ci : Nat) (cn : Conn) (t : Task)
    (hc : s.conns[ci]? = some cn) (ht : t ∈ cn.srvq) :
    ∃ k q, lookup s.active t.rid = some k ∧ s.reqs[k]? = some q ∧ t.data = q.data := by
  have hi := all_reachable c hr
  obtain ⟨h1, ⟨q, hq, hd⟩, _⟩ := hi.srv_ok ci cn hc t ht
  exact ⟨t.gk, q, lookup_of_mem hi.act_keys h1, hq, hd.symm⟩

/-- No future is set twice: a response goes to exactly one request. -/
theorem C18_mux_at_most_once (c : Cfg) (s : State) (hr : Reachable c s) :
    (s.results.map Prod.fst).Nodup := (all_reachable c hr).res_nd

/-- The id-minting rule (a new Future's `id()` differs from the ids of the futures still unresolved)
    makes the request ids in use distinct: the keys of `active` are distinct, each key is the id of
    the future stored under it, and two requests that both have no result yet never share an id
    (ids may be, and in the non-vacuity example are, reused once their owner has been resolved). -/
theorem C18_mux_ids_distinct (c : Cfg) (s : State) (hr : Reachable c s) :
    (s.active.map Prod.fst).Nodup ∧
    (∀ rid k, (rid, k) ∈ s.active → ∃ r, s.reqs[k]? = some r ∧ r.id = rid) ∧
    (∀ k1 k2 r1 r2, s.reqs[k1]? = some r1 → s.reqs[k2]? = some r2 →
      (∀ v, (k1, v) ∉ s.results) → (∀ v, (k2, v) ∉ s.results) → r1.id = r2.id → k1 = k2) := by
  have h2 := all_reachable2 c hr
  refine ⟨h2.inv.act_keys, fun rid k h => (h2.inv.act_ok rid k h).1, ?_⟩
  intro k1 k2 r1 r2 hk1 hk2 hu1 hu2 hid
  have unresolved : ∀ k r, s.reqs[k]? = some r → (∀ v, (k, v) ∉ s.results) → s.stage k ≠ .resolved := by
    intro k r hk hu hst
    have hloc := h2.loc k r hk
    rw [hst] at hloc
    obtain ⟨v, hv⟩ := hloc
    exact hu v hv
  exact h2.inv.ids_inj k1 k2 r1 r2 hk1 hk2 (unresolved k1 r1 hk1 hu1) (unresolved k2 r2 hk2 hu2) hid

/-- A response that arrives at the client always finds its request registered (`active.pop` never
    raises `KeyError`, the receiving task never dies on an unmatched id), and the record carries the
    handler's response to the payload of exactly the future it is matched with. -/
theorem C18_mux_no_unmatched (c : Cfg) (s : State) (hr : Reachable c s) (ci : Nat) (cn : Conn)
    (r : Rsp) (rest : List Rsp) (hc : s.conns[ci]? = some cn) (hb : cn.back = r :: rest) :
    ∃ k q, lookup s.active r.rid = some k ∧ s.reqs[k]? = some q ∧ r.resp = c.handler q.data ∧
      (step c s (.recv ci)).isSome = true := by
  have hi := all_reachable c hr
  obtain ⟨h1, ⟨q, hq, hresp⟩, _⟩ := hi.back_ok ci cn hc r (by rw [hb]; simp)
  have hl := lookup_of_mem hi.act_keys h1
  refine ⟨r.gk, q, hl, hq, hresp, ?_⟩
  simp [step, hc, hb, hl]

/-- `stream()` preserves input order: the outputs so far are exactly the first inputs, in order,
    each paired with the handler's response to it — for any other traffic on the same client. -/
theorem C18_stream_order (c : Cfg) (s : State) (hr : Reachable c s) :
    s.sout = (s.sin.take s.sout.length).map (fun x => (x, c.handler x)) := by
  have hi := all_reachable c hr
  have h1 : s.sin.take s.sout.length = s.sout.map Prod.fst := by
    rw [← hi.sin_eq]
    have : s.sout.length = (s.sout.map Prod.fst).length := by simp
    rw [this, List.take_left']
    rfl
  rw [h1, List.map_map]
  have h2 : ∀ p ∈ s.sout, ((fun x => (x, c.handler x)) ∘ Prod.fst) p = p := by
    intro p hp
    obtain ⟨x, v⟩ := p
    simp only [Function.comp]
    rw [hi.sout_ok x v hp]
  calc s.sout = s.sout.map id := by simp
    _ = _ := (List.map_congr_left (fun p hp => (h2 p hp).symm))

/-- Progress: as long as some request has no result, some transport action (a client sender or
    receiver, the server's receiver or responder, or a handler completion) is enabled — no state in
    which a request is stuck, whatever the completion order so far and **whatever the sizes of the
    bounded buffers** (`Cfg.Live`: at least one connection, every capacity ≥ 1): flow control
    (`drain`, the server's `backlog`) cannot wedge the transport. -/
theorem C18_mux_progress (c : Cfg) (s : State) (hr : Reachable c s) (hcap : c.Live) (k : Nat) (r : Req)
    (hk : s.reqs[k]? = some r) (hu : ∀ v, (k, v) ∉ s.results) :
    ∃ a, a.transport = true ∧ (step c s a).isSome = true :=
  progress c s (all_reachable2 c hr) hcap.1 hcap.2.1 hcap.2.2.1 hcap.2.2.2 k r hk hu

/-- Bounded work: from any state, an execution without new requests has at most `measure s` steps
    (5 per pending request, 4/3/2/1 per request on the wire / running / done / answered, 1 per
    pending stream output).  With progress: every request is answered after finitely many steps of
    any schedule that keeps moving; no fairness assumption is needed. -/
theorem C18_mux_terminates (c : Cfg) (s s' : State) (as : List Act) (hint : ∀ a ∈ as, a.internal = true)
    (hrun : Core.run (step c) s as = some s') : as.length + measure s' ≤ measure s :=
  internal_run_bounded c as s s' hint hrun

/-- When the transport has come to rest, **every** request that was made holds the handler's
    response to its own payload: nothing is lost, nothing is crossed. -/
theorem C18_mux_all_answered (c : Cfg) (s : State) (hr : Reachable c s) (hn : c.Live)
    (hrest : ∀ a, a.transport = true → step c s a = none) :
    ∀ k r, s.reqs[k]? = some r → (k, c.handler r.data) ∈ s.results := by
  intro k r hk
  apply Classical.byContradiction
  intro hnot
  have hu : ∀ v, (k, v) ∉ s.results := by
    intro v hv
    obtain ⟨r', hr', hv'⟩ := C18_mux_own_response c s hr k v hv
    rw [hk] at hr'; cases hr'
    subst hv'; exact hnot hv
  obtain ⟨a, ha, hs⟩ := C18_mux_progress c s hr hn k r hk hu
  rw [hrest a ha] at hs; simp at hs

/-- When everything has come to rest (the stream consumer included), the stream has yielded every
    input, in order, each with its own response. -/
theorem C18_stream_complete (c : Cfg) (s : State) (hr : Reachable c s) (hn : c.Live)
    (hrest : ∀ a, a.internal = true → step c s a = none) :
    s.sout = s.sin.map (fun x => (x, c.handler x)) := by
  have hi := all_reachable c hr
  have hall := C18_mux_all_answered c s hr hn (fun a ha => hrest a (by cases a <;> simp_all [Act.transport, Act.internal]))
  have htasks : s.tasks = [] := by
    cases ht : s.tasks with
    | nil => rfl
    | cons e rest =>
      exfalso
      obtain ⟨x, k⟩ := e
      obtain ⟨r, hr', _⟩ := hi.task_ok x k (by rw [ht]; simp)
      have hres := resultOf_of_mem (hall k r hr')
      have := hrest .syield rfl
      cases hv : resultOf s.results k with
      | none => rw [hv] at hres; simp at hres
      | some v => simp [step, ht, hv] at this
  have hlen : s.sout.length = s.sin.length := by
    have := congrArg List.length hi.sin_eq
    simp [htasks] at this; exact this
  have := C18_stream_order c s hr
  rw [hlen, List.take_length] at this
  exact this

/-- The server keeps no state across connections: an action of the server on connection `ci`
    (read a record, a handler completes, write a response) changes nothing but that connection, and
    whether it is enabled and what it does to the connection is a function of that connection alone.
    (This is why several clients on one server do not interact: request ids only need to be distinct
    per client; the model itself has one client.) -/
theorem C18_mux_server_local (c : Cfg) (ci : Nat) (a : Act) (ha : a.server ci = true) :
    (∀ s s', step c s a = some s' →
      s'.pending = s.pending ∧ s'.active = s.active ∧ s'.results = s.results ∧ s'.reqs = s.reqs ∧
      s'.tasks = s.tasks ∧ s'.sout = s.sout ∧ ∀ cj, cj ≠ ci → s'.conns[cj]? = s.conns[cj]?) ∧
    (∀ s1 s2, s1.conns[ci]? = s2.conns[ci]? →
      (step c s1 a).bind (fun s => s.conns[ci]?) = (step c s2 a).bind (fun s => s.conns[ci]?)) :=
  ⟨fun s s' hs => server_local_effect c s s' a ci ha hs, fun s1 s2 h => server_local_cause c s1 s2 a ci ha h⟩

/-- non-vacuity: two connections, four requests (one through `stream`), the handlers complete out
    of order (request 2 before request 0, request 1 answered first), id `100` is reused after its
    first owner was resolved; every future holds its own response.  Small buffer capacities. -/
example :
    let c : Cfg := { nconn := 2, handler := fun x => if x % 2 = 0 then .ok (x * 10) else .err x,
                     pendCap := 3, wireCap := 2, srvCap := 2, backCap := 1 }
    (Core.run (step c) (init c)
      [.submit 5 100, .submit 6 200, .ssubmit 7 300, .send 0, .send 1, .send 0, .srvRecv 0, .srvRecv 0,
       .srvRecv 1, .finish 0 1, .finish 1 0, .respond 1, .recv 1, .finish 0 0, .respond 0, .recv 0,
       .respond 0, .recv 0, .syield, .submit 8 100, .send 1, .srvRecv 1, .finish 1 0, .respond 1, .recv 1]).map
      (fun s => (s.results, s.sout, s.active, s.reqs.map (·.id)))
    = some ([(1, .ok 60), (0, .err 5), (2, .err 7), (3, .ok 80)], [(7, .err 7)], [], [100, 200, 300, 100])
    -- the bounded buffers bite: with room for one record on the way back, a second response must wait
    ∧ Core.run (step c) (init c)
      [.submit 5 100, .submit 6 200, .send 0, .send 0, .srvRecv 0, .srvRecv 0, .finish 0 0, .finish 0 1,
       .respond 0, .respond 0] = none := by
  decide

end Mux

/-!
Part 3 (named pipe, `Model/Pipe.lean`): two FIFOs with crossed roles carrying
`multiprocessing.Connection` messages; any interleaving of sends, partial kernel writes and receives
on both endpoints.
-/
namespace Pipe

/-- What an endpoint has received is exactly the first messages its **peer** sent (never its own),
    byte-identical and in order — in both directions, for every interleaving and every chunking of
    the writes. -/
theorem C18_pipe_fifo (s : State) (hr : Reachable s) (r : Role) :
    s.rcvdBy r = (s.sentBy (peer r)).take (s.rcvdBy r).length := by
  have hi := all_reachable hr
  cases r
  · exact hi.1.pref
  · exact hi.2.pref

/-- Nothing is lost or stuck: once the peer's `send` calls have returned (all bytes written), a
    message sent and not yet received can be received. -/
theorem C18_pipe_no_loss (s : State) (hr : Reachable s) (r : Role)
    (hidle : (s.chan (wpath (peer r))).outbuf = [])
    (hlt : (s.rcvdBy r).length < (s.sentBy (peer r)).length) :
    (step s (.recv r)).isSome = true := by
  have hi := all_reachable hr
  have key : ∀ c : Chan, ChanInv c → c.outbuf = [] → c.rcvd.length < c.sent.length →
      ∃ m rest, readFrame c.fifo = some (m, rest) := by
    intro c hc ho hl
    have hb := hc.bytes
    rw [ho, List.append_nil, List.drop_eq_getElem_cons hl, List.flatMap_cons] at hb
    exact ⟨_, _, by rw [hb]; exact readFrame_frame _ _ (hc.len _ (List.getElem_mem hl))⟩
  cases r
  · obtain ⟨m, rest, h⟩ := key s.f1 hi.1 hidle hlt
    simp [step, rpath, State.chan, h]
  · obtain ⟨m, rest, h⟩ := key s.f2 hi.2 hidle hlt
    simp [step, rpath, State.chan, h]

/-- non-vacuity: both directions at once, a message containing what looks like a length header, an
    empty message, writes taken by the kernel in pieces; a receive before the bytes are complete is
    not enabled -/
example :
    let acts : List Act :=
      [.send .server [0, 0, 0, 1, 7], .flush .server 2, .send .client [9], .flush .server 5, .recv .client,
       .send .server [], .flush .client 4, .flush .server 3, .recv .server, .recv .client]
    (Core.run step init acts).map (fun s => (s.rcvdBy .client, s.rcvdBy .server, s.sentBy .server, s.sentBy .client))
      = some ([[0, 0, 0, 1, 7], []], [[9]], [[0, 0, 0, 1, 7], []], [[9]])
    ∧ Core.run step init [.send .server [0, 0, 0, 1, 7], .flush .server 2, .recv .client] = none := by
  decide

end Pipe
