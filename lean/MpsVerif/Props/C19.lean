import MpsVerif.Proofs.EagerMono
import MpsVerif.Proofs.EagerWork
import MpsVerif.Proofs.EagerGreedy
/-!
# C19 — EagerBatcher partitions its input and waits no longer than told

Model: `Model/EagerBatcher.lean` (timed transition system written from `EagerBatcher.__iter__`).
All theorems are about `Core.run (step c) init as`, the definitions the driver `drv eager`
executes, for **every** action list `as` — every interleaving of arrivals (`arrive x`, items and
end markers, also after the marker), passing time (`tick d`), the batcher's own steps and the
consumer's `resume` — every `batch_size ≥ 1`, every `batch_wait_time ≥ 0` (`c.wait : Nat`) and
every end marker `c.endm` (`none` = default `None`; `some e` = custom marker, then `None` is an
ordinary item).

Reading guide: `s.out` = the batches handed to the consumer so far, `s.cur` = the batch being
collected, `s.q` = the queue, `s.arrived` = every arrival with the clock value at which it
happened, `s.taken` = what the batcher's gets returned, `s.t0` = the clock value at which the first
item of `s.cur` was obtained (see `C19_t0_meaning`), `s.fin` = the end marker has been taken,
`beforeEnd c l` = the items of `l` before the first end marker,
`arrivedBefore s t` = the number of arrivals stamped `< t`, `s.takenAt` / `s.outAt` = `s.taken` /
`s.out` with the clock of each get / hand-over, `greedy` = the closed form (end of the model file),
`c.strict` = zero processing time (time passes only while the batcher is blocked).
-/
namespace Eager

/-- **Partition** (any moment of any run): the batches handed out so far, then the batch being
    collected, then what is queued before the end marker (nothing once the marker has been taken)
    are exactly the items that arrived before the first end marker, in arrival order. -/
theorem C19_partition (c : Cfg) (hbs : 1 ≤ c.bs) (as : List Act) (s : State)
    (h : Core.run (step c) init as = some s) :
    s.out.flatten ++ s.cur ++ (if s.fin = true then [] else beforeEnd c s.q)
      = beforeEnd c (s.arrived.map (·.1)) := by
  have hi := all_reachable c hbs ⟨as, h⟩
  have hpos : ∀ a ∈ s.out.flatten ++ s.cur, (fun x => !c.isEnd x) a = true := by
    intro a ha; simp [hi.noEnd a ha]
  rw [hi.arr, hi.tak]
  unfold beforeEnd
  rw [List.append_assoc (s.out.flatten ++ s.cur), List.takeWhile_append_of_pos hpos]
  congr 1
  by_cases hf : s.fin = true
  · simp [hf, Cfg.isEnd]
  · simp [hf]

/-- every batch handed out has between 1 and `batch_size` items -/
theorem C19_batch_sizes (c : Cfg) (hbs : 1 ≤ c.bs) (as : List Act) (s : State)
    (h : Core.run (step c) init as = some s) :
    ∀ b ∈ s.out, 1 ≤ b.length ∧ b.length ≤ c.bs :=
  (all_reachable c hbs ⟨as, h⟩).sizes

/-- when the generator has finished, the concatenation of the batches is exactly the sequence of
    items that arrived before the end marker (whatever arrived after it is left alone) -/
theorem C19_partition_done (c : Cfg) (hbs : 1 ≤ c.bs) (as : List Act) (s : State)
    (h : Core.run (step c) init as = some s) (hd : s.pc = .done) :
    s.out.flatten = beforeEnd c (s.arrived.map (·.1)) := by
  have hi := all_reachable c hbs ⟨as, h⟩
  have := C19_partition c hbs as s h
  obtain ⟨hc, hf⟩ := hi.done hd
  simpa [hc, hf] using this

/-- when no end marker has come and the batcher waits for the first item of a new batch on an empty
    queue, everything that ever arrived has been handed out -/
theorem C19_partition_waiting (c : Cfg) (hbs : 1 ≤ c.bs) (as : List Act) (s : State)
    (h : Core.run (step c) init as = some s) (hp : s.pc = .idle) (hq : s.q = []) :
    s.out.flatten = s.arrived.map (·.1) := by
  have hi := all_reachable c hbs ⟨as, h⟩
  obtain ⟨hc, hf⟩ := hi.idle hp
  rw [hi.arr, hi.tak]; simp [hc, hf, hq]

/-- the batcher is never stuck: in every state (reachable or not) the generator is finished, or waits for a
    first item on an empty queue (only the producer can help), or waits in the timed `get` on an empty
    queue before the deadline (then time can pass, up to the deadline exactly), or one of
    `take`/`timeout`/`emit`/`resume`/`stop` is enabled.  In particular a queued item or end marker is
    always takeable while the batcher is in one of its two gets. -/
theorem C19_no_stall (c : Cfg) (s : State) :
    s.pc = .done ∨ (s.pc = .idle ∧ s.q = []) ∨
    (s.pc = .coll ∧ s.q = [] ∧ s.clock < s.t0 + c.wait ∧
      (step c s (.tick (s.t0 + c.wait - s.clock))).isSome) ∨
    (∃ a ∈ [Act.take, .timeout, .emit, .resume, .stop], (step c s a).isSome) := by
  cases hpc : s.pc with
  | done => exact .inl rfl
  | idle =>
    cases hq : s.q with
    | nil => exact .inr (.inl ⟨rfl, rfl⟩)
    | cons z rest =>
      refine .inr (.inr (.inr ⟨.take, by simp, ?_⟩))
      simp only [step, hq, hpc]
      by_cases he : c.isEnd z = true <;> simp [he]
  | coll =>
    cases hq : s.q with
    | nil =>
      by_cases ht : s.clock < s.t0 + c.wait
      · refine .inr (.inr (.inl ⟨rfl, rfl, ht, ?_⟩))
        simp only [step, hpc, hq]
        rw [if_pos]
        · simp
        · refine ⟨by omega, .inr (.inr (.inl ⟨trivial, trivial, by omega⟩))⟩
      · refine .inr (.inr (.inr ⟨.timeout, by simp, ?_⟩))
        simp only [step, hpc, hq]
        rw [if_pos]
        · simp
        · exact ⟨trivial, trivial, by omega⟩
    | cons z rest =>
      refine .inr (.inr (.inr ⟨.take, by simp, ?_⟩))
      simp only [step, hq, hpc]
      by_cases he : c.isEnd z = true <;> simp [he]
  | flush => exact .inr (.inr (.inr ⟨.emit, by simp, by simp [step, hpc]⟩))
  | held => exact .inr (.inr (.inr ⟨.resume, by simp, by simp [step, hpc]⟩))
  | closing => exact .inr (.inr (.inr ⟨.stop, by simp, by simp [step, hpc]⟩))

/-- meaning of `t0`: it is set to the current clock by exactly the step that starts a batch (the
    `take` that obtains its first item) and is not touched while the batch exists -/
theorem C19_t0_meaning (c : Cfg) (hbs : 1 ≤ c.bs) (as : List Act) (s s' : State) (a : Act)
    (h : Core.run (step c) init as = some s) (hst : step c s a = some s') :
    (s.cur = [] → s'.cur ≠ [] → a = .take ∧ s'.t0 = s.clock ∧ s'.cur = s.q.take 1) ∧
    (s.cur ≠ [] → s'.cur ≠ [] → s'.t0 = s.t0) := by
  have hi := all_reachable c hbs ⟨as, h⟩
  have hs := step_sound c s s' a hst
  cases hs with
  | takeIdleItem hq hpc he => have := (hi.idle hpc).1; simp_all
  | takeCollItem hq hpc he => have := (hi.coll hpc).1; simp_all; intro h0; simp [h0] at this
  | _ => simp_all

/-- **A short batch only at the end marker or at expiry, and then nothing was missed.**
    Whenever a batch with fewer than `batch_size` items is handed out (the `emit` step from `s`; the
    batch is `s.cur`), either the end marker has just been taken — it is the last thing the batcher
    took, right after the items of this batch — or the wait has expired (clock ≥ `t0 + wait`, `t0` =
    when the batch's first item was obtained; with zero processing time the clock stands *exactly* at
    `t0 + wait`) and every arrival stamped before `t0 + wait` is already in this or an earlier batch:
    no further item arrived within the wait time.  Holds for `strict` and non-`strict` time alike. -/
theorem C19_short_only_if (c : Cfg) (hbs : 1 ≤ c.bs) (as : List Act) (s s' : State)
    (h : Core.run (step c) init as = some s) (he : step c s .emit = some s')
    (hshort : s.cur.length < c.bs) :
    s'.out = s.out ++ [s.cur] ∧
    ((s.fin = true ∧ s.taken = s.out.flatten ++ s.cur ++ [c.endm]) ∨
     (s.fin = false ∧ s.t0 + c.wait ≤ s.clock ∧ (c.strict = true → s.clock = s.t0 + c.wait) ∧
        arrivedBefore s (s.t0 + c.wait) ≤ (s.out.flatten ++ s.cur).length)) := by
  have hi := all_reachable c hbs ⟨as, h⟩
  simp only [step] at he
  split at he
  · rename_i hpc
    simp at he; subst he
    refine ⟨rfl, ?_⟩
    obtain ⟨_, _, h3⟩ := hi.flush hpc
    by_cases hf : s.fin = true
    · left; refine ⟨hf, ?_⟩; have := hi.tak; simpa [hf] using this
    · right
      have hf' : s.fin = false := by simpa using hf
      obtain ⟨h4, h4', h5⟩ := h3 hf' hshort
      refine ⟨hf', h4, h4', ?_⟩
      have := hi.tak
      rw [this] at h5; simpa [hf'] using h5
  · simp at he

/-- … and the future cannot change that: in every continuation of the run after a short batch was
    handed out at expiry, the number of arrivals stamped before `t0 + wait` is still at most the number
    of items delivered up to and including that batch (later arrivals are stamped ≥ `t0 + wait`). -/
theorem C19_short_only_if_forever (c : Cfg) (hbs : 1 ≤ c.bs) (as bs : List Act) (s s' s2 : State)
    (h : Core.run (step c) init as = some s) (he : step c s .emit = some s')
    (hshort : s.cur.length < c.bs) (hf : s.fin = false)
    (h2 : Core.run (step c) s' bs = some s2) :
    arrivedBefore s2 (s.t0 + c.wait) ≤ (s.out.flatten ++ s.cur).length := by
  obtain ⟨_, h1 | h1⟩ := C19_short_only_if c hbs as s s' h he hshort
  · simp [hf] at h1
  · obtain ⟨_, hc, _, hb⟩ := h1
    have hrun : Core.run (step c) s (.emit :: bs) = some s2 := by
      rw [Core.run_cons, he]; simpa using h2
    rw [arrivedBefore_stable c (.emit :: bs) s s2 _ hrun (by omega)]
    exact hb

/-- the same fact at the moment of detection (the form used in DESIGN §5): a step that ends the
    collection of a batch with fewer than `batch_size` items is either the `take` of an end marker or a
    `timeout`, and the latter only with an empty queue at a clock value ≥ `t0 + wait` — at that moment
    everything that has arrived so far (whatever its stamp, ties included) is in an earlier batch or in
    this one -/
theorem C19_short_only_if_detect (c : Cfg) (hbs : 1 ≤ c.bs) (as : List Act) (s s' : State) (a : Act)
    (h : Core.run (step c) init as = some s)
    (hst : step c s a = some s') (h1 : s.pc ≠ .flush) (h2 : s'.pc = .flush)
    (hshort : s'.cur.length < c.bs) :
    (a = .take ∧ ∃ z rest, s.q = z :: rest ∧ c.isEnd z = true ∧ s'.fin = true) ∨
    (a = .timeout ∧ s.q = [] ∧ s.t0 + c.wait ≤ s.clock ∧
      s.arrived.map (·.1) = s.out.flatten ++ s.cur ∧ s'.cur = s.cur) := by
  have hi := all_reachable c hbs ⟨as, h⟩
  have hs := step_sound c s s' a hst
  cases hs with
  | arrive x => exact absurd h2 h1
  | tick d hd hg => exact absurd h2 h1
  | takeIdleEnd hq hpc he => simp at h2
  | takeIdleItem hq hpc he =>
    simp only at h2 hshort
    split at h2
    · simp at h2
    · simp at hshort; omega
  | takeCollEnd hq hpc he => exact .inl ⟨rfl, _, _, hq, he, rfl⟩
  | takeCollItem hq hpc he =>
    simp only at h2 hshort
    split at h2
    · simp at h2
    · simp at hshort; omega
  | timeout hpc hq ht =>
    refine .inr ⟨rfl, hq, ht, ?_, rfl⟩
    have hf := (hi.coll hpc).2.2.1
    rw [hi.arr, hi.tak]; simp [hq, hf]
  | emit hpc => simp at h2
  | resume hpc => simp only at h2; split at h2 <;> simp at h2
  | stop hpc => simp at h2

/-- **No delay** (zero processing time, `c.strict`).  Once the batch is complete, expired or cut by
    the end marker (`flush`), or the generator is on its way out (`closing`), no time can pass before
    the batch is handed out resp. the generator returns: every `tick` is disabled and the `emit` resp.
    `stop` step is enabled (so the only things that can come in between are arrivals at that same
    instant).  In other words the code has no blocking operation between noticing and yielding. -/
theorem C19_no_delay (c : Cfg) (hs : c.strict = true) (s : State) :
    (s.pc = .flush → (∀ d, step c s (.tick d) = none) ∧ (step c s .emit).isSome) ∧
    (s.pc = .closing → (∀ d, step c s (.tick d) = none) ∧ (step c s .stop).isSome) := by
  constructor <;> intro hpc <;> simp [step, hpc, hs]

/-- time passes only while the batcher is blocked: whenever a `tick` is possible none of the
    batcher's own steps is (so in particular a queued item or end marker is taken at once, and an
    expired wait is noticed at once) -/
theorem C19_tick_only_when_blocked (c : Cfg) (hstrict : c.strict = true) (s s' : State) (d : Nat)
    (ht : step c s (.tick d) = some s') : ∀ a ∈ batcherActs, step c s a = none := by
  have hs := step_sound c s s' (.tick d) ht
  cases hs with
  | tick _ hd hg =>
    intro a ha
    simp only [batcherActs, List.mem_cons, List.not_mem_nil, or_false] at ha
    rcases hg with hg | hg | hg | hg | hg
    · simp [hstrict] at hg
    all_goals
      rcases ha with rfl | rfl | rfl | rfl <;> simp [step, hg] <;>
        first | omega | (split <;> rfl)

/-- the timed wait is never overslept: while collecting, the clock is within `[t0, t0 + wait]`, so
    expiry is noticed at exactly `t0 + wait` -/
theorem C19_timeout_exact (c : Cfg) (hbs : 1 ≤ c.bs) (hstrict : c.strict = true) (as : List Act) (s s' : State)
    (h : Core.run (step c) init as = some s) (ht : step c s .timeout = some s') :
    s.clock = s.t0 + c.wait ∧ s'.clock = s.clock := by
  have hi := all_reachable c hbs ⟨as, h⟩
  have hs := step_sound c s s' .timeout ht
  cases hs with
  | timeout hpc hq hge =>
    obtain ⟨_, _, _, _, hle⟩ := hi.coll hpc
    have := hle hstrict
    exact ⟨by omega, rfl⟩

/-- **Waits no longer than told** (zero processing time).  Whenever the batcher holds items it has
    not yet handed out (`s.cur ≠ []`), at most `wait` has passed since it obtained the first of them;
    and once the clock stands at `t0 + wait` no more time can pass before they are handed out. -/
theorem C19_waits_no_longer_than_told (c : Cfg) (hbs : 1 ≤ c.bs) (hstrict : c.strict = true)
    (as : List Act) (s : State) (h : Core.run (step c) init as = some s) (hcur : s.cur ≠ []) :
    s.clock ≤ s.t0 + c.wait ∧ (s.clock = s.t0 + c.wait → ∀ d, step c s (.tick d) = none) := by
  have hi := all_reachable c hbs ⟨as, h⟩
  refine ⟨hi.told hstrict hcur, ?_⟩
  intro heq d
  cases hst : step c s (.tick d) with
  | none => rfl
  | some s' =>
    exfalso
    have hs := step_sound c s s' (.tick d) hst
    cases hs with
    | tick _ hd hg =>
      rcases hg with hg | hg | hg | hg | hg
      · simp [hstrict] at hg
      · exact hcur (hi.idle hg.1).1
      · omega
      · exact hcur (hi.held hg)
      · exact hcur (hi.done hg).1

/-- **Closed form** (zero processing time).  `greedy c l` groups a take-stamped sequence greedily: a
    batch opens with an item taken at `t0`, takes in every further entry taken up to `t0 + wait` until
    it is full or the end marker comes (then it goes out at that take's clock), and otherwise goes out
    at `t0 + wait`.  As long as no entry was taken at exactly `t0 + wait` of an open batch (`tie`; then
    the outcome depends on who was first, see the example below), at every moment of every run the
    batches handed out plus the one being collected are exactly the greedy grouping of what has been
    taken, and, whenever the batcher holds nothing, so are the clocks at which they were handed out. -/
theorem C19_closed_form (c : Cfg) (hbs : 1 ≤ c.bs) (hstrict : c.strict = true) (as : List Act) (s : State)
    (h : Core.run (step c) init as = some s) (htf : (greedy c s.takenAt).tie = false) :
    s.out ++ (if s.cur = [] then [] else [s.cur]) = (greedy c s.takenAt).closed ∧
    (s.cur = [] → s.outAt = (greedy c s.takenAt).closedAt c) := by
  have hi := all_reachable c hbs ⟨as, h⟩
  obtain ⟨r1, r2, r3⟩ := rel_reachable c hbs hstrict ⟨as, h⟩ htf
  have sync : Sync s (greedy c s.takenAt) →
      s.out ++ (if s.cur = [] then [] else [s.cur]) = (greedy c s.takenAt).closed ∧
      (s.cur = [] → s.outAt = (greedy c s.takenAt).closedAt c) := by
    intro ⟨a1, a2, a3, a4, a5⟩
    by_cases hc : s.cur = []
    · simp [Grp.closed, Grp.closedAt, a1, a2, a3, hc]
    · simp [Grp.closed, a1, a3, hc]
  have behind : Behind c s (greedy c s.takenAt) →
      s.out ++ (if s.cur = [] then [] else [s.cur]) = (greedy c s.takenAt).closed ∧
      (s.cur = [] → s.outAt = (greedy c s.takenAt).closedAt c) := by
    intro ⟨b1, b2, b3, b4, _, _, _⟩
    simp [Grp.closed, Grp.closedAt, b1, b2, b3, b4]
  cases hpc : s.pc with
  | idle => rcases r1 (.inl hpc) with h | h; exact sync h; exact behind h
  | held => rcases r1 (.inr hpc) with h | h; exact sync h; exact behind h
  | coll => exact sync (r2 (.inl hpc))
  | closing => exact sync (r2 (.inr (.inl hpc)))
  | done => exact sync (r2 (.inr (.inr hpc)))
  | flush =>
    have hcne : s.cur ≠ [] := by intro h0; have := (hi.flush hpc).1; simp [h0] at this
    rcases r3 hpc with ⟨h, _, _⟩ | ⟨b1, _, b3, _⟩
    · exact sync h
    · simp [Grp.closed, b1, b3, hcne]

/-- the take stamps the closed form is about: `takenAt` is `taken` with the clock of each get; the
    stamps are nondecreasing and never in the future -/
theorem C19_take_stamps (c : Cfg) (as : List Act) (s : State) (h : Core.run (step c) init as = some s) :
    s.takenAt.map (·.1) = s.taken ∧ (∀ p ∈ s.takenAt, p.2 ≤ s.clock) ∧
    (s.takenAt.map (·.2)).Pairwise (· ≤ ·) :=
  takenAt_reachable c ⟨as, h⟩

/-- the batcher never spins: in every run the number of steps of the batcher and the consumer
    (`work as` = number of `take`/`timeout`/`emit`/`resume`/`stop` actions in `as`) is at most four per
    arrival (`arrivals as` = number of `arrive` actions): no polling loop, no repeated time-outs on an
    empty batch.  With `C19_no_stall` (something is always enabled unless the batcher legitimately
    waits) this is the model-level "nothing loops or blocks forever". -/
theorem C19_never_spins (c : Cfg) (as : List Act) (s : State)
    (h : Core.run (step c) init as = some s) : work as ≤ 4 * arrivals as := by
  have := run_pot c as init s h
  simp [pot, init] at this
  omega

/-- the batcher and the consumer are deterministic: in any state at most one of
    `take`/`timeout`/`emit`/`resume`/`stop` is enabled, so the batches and their clocks are a function
    of the interleaving of arrivals and time alone (ties are the only source of different outcomes) -/
theorem C19_batcher_deterministic (c : Cfg) (s : State) (a b : Act)
    (ha : a ∈ [Act.take, .timeout, .emit, .resume, .stop]) (hb : b ∈ [Act.take, .timeout, .emit, .resume, .stop])
    (hea : (step c s a).isSome) (heb : (step c s b).isSome) : a = b := by
  simp only [List.mem_cons, List.not_mem_nil, or_false] at ha hb
  rcases ha with rfl | rfl | rfl | rfl | rfl <;> rcases hb with rfl | rfl | rfl | rfl | rfl <;>
    first
    | rfl
    | (exfalso
       cases hq : s.q <;> cases hpc : s.pc <;> simp [step, hq, hpc] at hea heb)

/-- arrival stamps are the clock values at the arrivals: nondecreasing and never in the future -/
theorem C19_stamps (c : Cfg) (hbs : 1 ≤ c.bs) (as : List Act) (s : State)
    (h : Core.run (step c) init as = some s) :
    (s.arrived.map (·.2)).Pairwise (· ≤ ·) ∧ ∀ p ∈ s.arrived, p.2 ≤ s.clock :=
  ⟨(all_reachable c hbs ⟨as, h⟩).sorted, (all_reachable c hbs ⟨as, h⟩).stamps⟩

/-! ## Non-vacuity -/

/-- `batch_size = 3`, `wait = 5`: items 1, 2 arrive at clocks 0 and 2, nothing else until 5: the short
    batch `[1, 2]` is handed out at clock 5 = t0 + wait, not via the end marker -/
example :
    let c : Cfg := { bs := 3, wait := 5, endm := none, strict := true }
    ∃ s s', Core.run (step c) init
        [.arrive (some 1), .take, .tick 2, .arrive (some 2), .take, .tick 3, .timeout] = some s ∧
      step c s .emit = some s' ∧ s.cur.length < c.bs ∧ s.fin = false ∧ s.clock = 5 ∧
      s'.out = [[some 1, some 2]] := by
  refine ⟨_, _, rfl, rfl, ?_⟩
  decide

/-- a tie: item 2 arrives at the very instant of the deadline (clock 5) and *before* the batcher
    looks — it is taken although the wait has expired; then the end marker cuts the batch short -/
example :
    let c : Cfg := { bs := 4, wait := 5, endm := none, strict := true }
    ∃ s s', Core.run (step c) init
        [.arrive (some 1), .take, .tick 5, .arrive (some 2), .take, .arrive none, .take] = some s ∧
      step c s .emit = some s' ∧ s.cur.length < c.bs ∧ s.fin = true ∧
      s'.out = [[some 1, some 2]] := by
  refine ⟨_, _, rfl, rfl, ?_⟩
  decide

/-- custom end marker `7`: `None` is an ordinary item, what arrives after the marker is left alone,
    the consumer holds the first (full) batch for 9 clock units, the run ends `done` -/
example :
    let c : Cfg := { bs := 2, wait := 0, endm := some 7, strict := true }
    ∃ s, Core.run (step c) init
        [.arrive none, .arrive (some 3), .arrive (some 4), .take, .take, .emit, .tick 9, .arrive (some 7),
         .arrive (some 8), .resume, .take, .take, .emit, .resume, .stop] = some s ∧
      s.pc = .done ∧ s.out = [[none, some 3], [some 4]] ∧ s.q = [some 8] ∧
      beforeEnd c (s.arrived.map (·.1)) = [none, some 3, some 4] := by
  refine ⟨_, rfl, ?_⟩
  decide

/-- non-`strict` time: the batcher is delayed past its deadline (clock 5 > t0 + wait = 2), still takes
    the item that is queued by then ("an item already available is taken even past the deadline"),
    and hands out the short batch once it finds the queue empty, at clock 6 ≥ t0 + wait -/
example :
    let c : Cfg := { bs := 3, wait := 2, endm := none, strict := false }
    ∃ s s', Core.run (step c) init
        [.arrive (some 1), .take, .tick 5, .arrive (some 2), .take, .tick 1, .timeout] = some s ∧
      step c s .emit = some s' ∧ s.cur.length < c.bs ∧ s.fin = false ∧ s.t0 = 0 ∧ s.clock = 6 ∧
      s'.out = [[some 1, some 2]] := by
  refine ⟨_, _, rfl, rfl, ?_⟩
  decide

/-- closed form, non-vacuity: the repo test's pattern (`batch_size 3`, `wait 4`): takes at clocks
    4,4,6,6,7,15,21 and the marker at 26 group into `[[1,2,3],[4,5],[6],[7]]` handed out at 6,10,19,25,
    without a tie — and that is what the run of the model produced -/
example :
    let c : Cfg := { bs := 3, wait := 4, endm := none, strict := true }
    ∃ s, Core.run (step c) init
        [.tick 4, .arrive (some 1), .arrive (some 2), .take, .take, .tick 2, .arrive (some 3), .take, .arrive (some 4),
         .emit, .resume, .take, .tick 1, .arrive (some 5), .take, .tick 3, .timeout, .emit, .resume, .tick 5,
         .arrive (some 6), .take, .tick 4, .timeout, .emit, .resume, .tick 2, .arrive (some 7), .take, .tick 4,
         .timeout, .emit, .resume, .tick 1, .arrive none, .take, .stop] = some s ∧
      (greedy c s.takenAt).tie = false ∧
      s.out = [[some 1, some 2, some 3], [some 4, some 5], [some 6], [some 7]] ∧ s.outAt = [6, 10, 19, 25] ∧
      (greedy c s.takenAt).closed = s.out ∧ (greedy c s.takenAt).closedAt c = s.outAt := by
  refine ⟨_, rfl, ?_⟩
  decide

/-- the no-tie hypothesis of `C19_closed_form` is needed: item 2 is put at the very instant the wait of
    `[1]` expires (clock 5) but *after* the batcher has noticed the expiry; it starts a new batch,
    whereas the greedy grouping puts it into the first one.  `tie` flags exactly this. -/
example :
    let c : Cfg := { bs := 3, wait := 5, endm := none, strict := true }
    ∃ s, Core.run (step c) init
        [.arrive (some 1), .take, .tick 5, .timeout, .arrive (some 2), .emit, .resume, .take] = some s ∧
      (greedy c s.takenAt).tie = true ∧ s.out = [[some 1]] ∧ s.cur = [some 2] ∧
      (greedy c s.takenAt).closed = [[some 1, some 2]] := by
  refine ⟨_, rfl, ?_⟩
  decide

/-- `C19_no_stall`'s third alternative is reachable: waiting in the timed get, time may pass up to
    the deadline -/
example :
    let c : Cfg := { bs := 2, wait := 4, endm := none, strict := true }
    ∃ s, Core.run (step c) init [.arrive (some 1), .take, .tick 1] = some s ∧
      s.pc = .coll ∧ s.q = [] ∧ (step c s (.tick 3)).isSome ∧ step c s (.tick 4) = none := by
  refine ⟨_, rfl, ?_⟩
  decide

end Eager
