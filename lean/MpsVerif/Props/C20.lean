import MpsVerif.Proofs.LogPipeLive
/-!
# C20 — child-process log records all reach the parent, once and in order

Quantifiers: every number of records `n`, every pipe capacity `K ≥ 1` (in records — "far beyond the
pipe buffer" is `n > K`; a record larger than the OS buffer is `K = 1`), every level predicate
`pass`, every interleaving of the child's main thread, its feeder thread, the parent's logger
thread, collector thread, parent-side feeder and GC finalizer (= all action lists); in particular
every relative timing of result delivery and log flushing.  The way the target ends (return,
raise, `sys.exit`) only changes the two result messages, which the model counts but does not
look into (C12 does); the last record is emitted immediately before the target's end
(`targetEnd` is enabled only when all `n` records are emitted, and nothing separates them).
-/
namespace LogPipe

/-- Conservation at every moment: the records emitted so far are exactly — once each, in
    emission order — those already read by the logger thread, then those in the pipe, then those
    still in the child's buffer. -/
theorem C20_conservation (c : Cfg) (s : State) (hr : Reachable c s) :
    s.consumed ++ recsOf s.pipe ++ s.cbuf = List.range s.emitted ∧
    s.handled = s.consumed.filter c.pass :=
  ⟨(reachable_inv c hr).order, (reachable_inv c hr).hand⟩

/-- At every moment what the parent has handled is a prefix of what it must handle: never a
    duplicate, never out of order, never a record below the parent's levels. -/
theorem C20_prefix (c : Cfg) (s : State) (hr : Reachable c s) : s.handled <+: expected c := by
  have hi := reachable_inv c hr
  rw [hi.hand]
  apply List.IsPrefix.filter
  have h1 : s.consumed <+: List.range s.emitted := by
    rw [← hi.order, List.append_assoc]; exact List.prefix_append _ _
  have h2 : List.range s.emitted <+: List.range c.n := by
    have : c.n = s.emitted + (c.n - s.emitted) := by have := hi.le; omega
    rw [this, List.range_add]; exact List.prefix_append _ _
  exact h1.trans h2

/-- Once the logger thread has stopped — hence (`Inv.e8`) once the future is resolved, i.e. once
    `join`/`result` can return — the parent has handled **exactly** the passing records
    `0..n-1`, each once, in emission order; including the last ones emitted before the target
    ended. -/
theorem C20_all_once_in_order (c : Cfg) (s : State) (hr : Reachable c s)
    (h : s.lstopped = true ∨ s.fut = true) : s.handled = expected c := by
  have hi := reachable_inv c hr
  have hl : s.lstopped = true := by
    rcases h with h | h
    · exact h
    · by_cases hd : s.kpc = .done
      · exact hi.e8 (Or.inr hd)
      · have := hi.e10.2 hd; rw [h] at this; cases this
  obtain ⟨hp, hex⟩ := hi.g1 hl
  have hb := (hi.d7 (hi.d8 hex)).2
  have hn := hi.d2 (by rw [hex]; simp)
  have ho := hi.order
  rw [hp, hb, hn] at ho
  simp at ho
  rw [hi.hand, ho]; rfl

/-- … and they had all been handled already at the moment the future was resolved (when
    `join` / `result` return nothing is still to come) -/
theorem C20_all_handled_at_join (c : Cfg) (s : State) (hr : Reachable c s) (h : s.fut = true) :
    s.handledAtResolve = (expected c).length := by
  have hi := reachable_inv c hr
  have hd : s.kpc = .done := by
    by_cases hd : s.kpc = .done
    · exact hd
    · have := hi.e10.2 hd; rw [h] at this; cases this
  rw [(hi.e10.1 hd).2, C20_all_once_in_order c s hr (Or.inr h)]

/-- However much the child logs (`n` arbitrary, pipe capacity `K ≥ 1` arbitrary): in every
    reachable state that is not final some thread can move (the child is never stuck behind a
    full pipe, the collector never waits for a logger thread that cannot end); in a final state
    the child has exited and the future is resolved (`join` / `result` return). -/
theorem C20_child_exits (c : Cfg) (hK : 1 ≤ c.K) (s : State) (hr : Reachable c s) :
    (¬ Final s → ∃ a, (step c s a).isSome = true) ∧
    (Final s → s.cpc = .exited ∧ s.fut = true ∧ s.handled = expected c) := by
  have hi := reachable_inv c hr
  refine ⟨progress_of_inv c hK s hi, fun hf => ?_⟩
  have hfut := (hi.e10.1 hf.2.1).1
  exact ⟨hf.1, hfut, C20_all_once_in_order c s hr (Or.inr hfut)⟩

/-- … and every execution is finite: at most `3·n + 18` actions, whatever the schedule.
    With `C20_child_exits`: every maximal execution ends in `Final`. -/
theorem C20_child_exits_bound (c : Cfg) (as : List Act) (s : State)
    (hr : Core.run (step c) init as = some s) : as.length ≤ 3 * c.n + 18 := by
  have := Core.length_le_measure (mu c) (fun s a s' hs => mu_decreases c s s' a hs) as init s hr
  simp [mu, init, crank, krank] at this
  omega

/-! ## no bound on how far the child may get ahead

The child-side queue buffer `cbuf` is unbounded in the model, as `multiprocessing.Queue()` without a
`maxsize` is in the code: emitting never blocks and never drops.  (`QueueHandler` uses `put_nowait`:
a bounded log queue would drop every record beyond its capacity — a correspondence break, and the
`lost` monitor's business; the burst cases of `scen_log` put the child 13 000 – 150 000 records ahead.) -/

/-- emitting is enabled whatever is outstanding, and appends exactly the record -/
theorem C20_emit_never_blocks (c : Cfg) (s : State) (h1 : s.cpc = .emit) (h2 : s.emitted < c.n) :
    step c s .emit = some { s with cbuf := s.cbuf ++ [s.emitted], emitted := s.emitted + 1 } := by
  simp [step, h1, h2]

/-- the child can get any number `k ≤ n` of records ahead of the parent: after `k` emissions and
    nothing else all `k` records are outstanding in `cbuf`, in order -/
theorem C20_ahead_unbounded (c : Cfg) (k : Nat) (hk : k ≤ c.n) :
    Core.run (step c) init (List.replicate k .emit) = some { init with cbuf := List.range k, emitted := k } := by
  induction k with
  | zero => rfl
  | succ k ih =>
    rw [List.replicate_succ', Core.run_append, ih (by omega)]
    simp only [Option.bind_some, Core.run_cons, Core.run_nil]
    rw [C20_emit_never_blocks c _ rfl (by show k < c.n; omega)]
    simp [List.range_succ]

/-! ## non-vacuity -/

/-- three records through a pipe that holds one, the middle one below the parent's level, the
    result delivered before any record is flushed: final, exactly `[0, 2]` handled -/
example :
    let c : Cfg := { n := 3, K := 1, pass := fun i => i != 1 }
    ∃ s, Reachable c s ∧ Final s ∧ s.handled = [0, 2] ∧ s.handledAtResolve = 2 := by
  refine ⟨_, ⟨[.emit, .emit, .emit, .targetEnd, .send1, .send2, .kRecv, .kRecv, .closeQ, .feed, .lget,
              .feed, .lget, .feed, .feedEnd, .exit, .kSentinel, .kPutEnd, .lget, .pfeed, .lend, .kJoinLog,
              .kResolve, .fin, .pfeed], rfl⟩, ?_⟩
  decide

/-- a reachable state in which the child's feeder is blocked on the full pipe while the child
    waits to exit and the result has long been received (the situation in which the pinned code
    loses records and hangs): here the logger thread is still running, so it is not a deadlock -/
example :
    let c : Cfg := { n := 3, K := 1, pass := fun _ => true }
    ∃ s, Reachable c s ∧ s.cpc = .joinF ∧ s.kpc = .waitExit ∧ s.pipe.length = c.K ∧ s.cbuf = [1, 2] ∧
      s.lstopped = false ∧ (step c s .feed) = none ∧ (step c s .lget).isSome = true := by
  refine ⟨_, ⟨[.emit, .emit, .emit, .targetEnd, .send1, .send2, .kRecv, .kRecv, .closeQ, .feed], rfl⟩, ?_⟩
  decide

end LogPipe
