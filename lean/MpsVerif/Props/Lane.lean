import MpsVerif.Proofs.LaneLive
import MpsVerif.Proofs.LaneRefine
import MpsVerif.Proofs.FifoStep
import MpsVerif.Proofs.BufferStep
/-!
# `SingleLane` is a FIFO queue with `maxsize` slots (what `Model/Fifo.lean` and `Model/Buffer.lean` assume)

Anchors: C01 "single-reader/single-writer bounded queue keeps FIFO order (`_queues.py:28-71`)", C08 "feeder
blocks on put when the hand-off queue is full (`_queues.py:48-58`)"; C05 uses the same queue.

System: `Model/Lane.lean`, the lane at the granularity of its lock operations, with ONE writer thread
(thread 0, calls `put` only) and ONE reader thread (thread 1, calls `get` only) — `Cfg.single`, the documented
usage.  Every theorem is for every `maxsize` (0 = unbounded), every sequence of calls — each call blocking,
non-blocking or timed, chosen by the environment action `call t mode x` — every moment of expiry of a timed
wait (`timeoutFire`) and every interleaving: `Reachable` quantifies over all action lists.

Assumed (the semantics of `threading.Lock` / `threading.Condition` written into `Lane.step`): the mutex is
mutually exclusive; `wait` atomically queues the waiter and releases the mutex, and re-acquires it before it
returns; `notify` wakes at most one waiter that is in the list at that moment and is not remembered otherwise;
a waiter wakes only when notified or when its timeout expires (no spurious wake-ups: CPython's `Condition`
blocks on a private lock that only `notify` releases).
-/
namespace Lane

/-- one writer thread (thread 0) and one reader thread (thread 1) -/
def Cfg.single (c : Cfg) : Prop := c.nw = 1 ∧ c.nr = 1

instance (c : Cfg) : Decidable c.single := by unfold Cfg.single; exact inferInstance

/-! ## C01: FIFO, nothing lost, duplicated or invented -/

/-- At every reachable state the items taken so far, followed by the deque's contents, are exactly the items
    appended so far, in order. -/
theorem Lane_fifo (c : Cfg) (hc : c.single) (s : State) (hr : Reachable c s) :
    s.gotH ++ s.q = s.putH :=
  ((all_reachable c hc.1 hc.2 hr).good).fifo.symm

/-- The `popleft` of a `get` takes the oldest item that has been put and not yet taken (the item number
    `gotH.length` of the history of puts), and that item becomes the call's result. -/
theorem Lane_get_takes_oldest (c : Cfg) (hc : c.single) (s : State) (hr : Reachable c s) (s' : State)
    (h : step c s (.act 1) = some s') :
    ∃ x, s.putH[s.gotH.length]? = some x ∧ s.q = x :: s'.q ∧ s'.gotH = s.gotH ++ [x] ∧ (s'.th 1).val = x ∧
      s'.putH = s.putH := by
  have hi := all_reachable c hc.1 hc.2 hr
  obtain ⟨w, r, hthr, g⟩ := hi
  have hS := step_sound c s s' _ h
  cases hS
  case actW =>
    have hw : c.isWriter 1 = true := by assumption
    simp [Cfg.isWriter, hc.1] at hw
  case actR =>
    have hq : s.q = ‹Nat› :: ‹List Nat› := by assumption
    refine ⟨‹Nat›, ?_, ?_, ?_, ?_, ?_⟩
    · rw [g.fifo, hq]; simp
    · simpa [setThr] using hq
    · simp
    · simp [setThr, State.th, hthr]
    · simp [setThr]
  case actUnder =>
    have hth : s.thr[1]? = some ‹Thr› := by assumption
    have hp : (‹Thr›).pc = .act := by assumption
    have hq : s.q = [] := by assumption
    simp [hthr] at hth; subst hth
    exact absurd hq (g.rHas (Or.inl hp))

/-- What a `get` returns is the item its `popleft` took (the last entry of the history of taken items). -/
theorem Lane_get_returns_taken (c : Cfg) (hc : c.single) (s : State) (hr : Reachable c s) (v : Nat) (s' : State)
    (h : step c s (.ret 1 .ok v) = some s') : s.gotH.getLast? = some v := by
  have g := (all_reachable c hc.1 hc.2 hr).good
  have hi := all_reachable c hc.1 hc.2 hr
  obtain ⟨w, r, hthr, _⟩ := hi
  have hS := step_sound c s s' _ h
  cases hS
  have hth : s.thr[1]? = some ‹Thr› := by assumption
  have hp : (‹Thr›).pc = .fin .ok := by assumption
  have h1 : s.th 1 = ‹Thr› := th_eq s 1 _ hth
  rw [← h1] at hp ⊢
  exact g.rVal (Or.inr (Or.inr hp))

/-- `popleft` is never executed on an empty deque (the `if` instead of `while` is sound for one reader) … -/
theorem Lane_no_underflow (c : Cfg) (hc : c.single) (s : State) (hr : Reachable c s) :
    (s.th 1).pc = .act → s.q ≠ [] :=
  fun h => ((all_reachable c hc.1 hc.2 hr).good).rHas (Or.inl h)

/-- … so no call ever ends with the `IndexError` of `popleft`, a `put` never ends with `Empty` and a `get` never
    ends with `Full`. -/
theorem Lane_outcomes (c : Cfg) (hc : c.single) (s : State) (hr : Reachable c s) (x : Res) :
    (((s.th 0).pc = .leave x ∨ (s.th 0).pc = .fin x) → x = .ok ∨ x = .full) ∧
    (((s.th 1).pc = .leave x ∨ (s.th 1).pc = .fin x) → x = .ok ∨ x = .empty) := by
  have g := (all_reachable c hc.1 hc.2 hr).good
  exact ⟨fun h => (g.wRes x h).imp id And.left, fun h => (g.rRes x h).imp id And.left⟩

/-! ## C08: the bound, and who blocks when -/

/-- `maxsize > 0`: the deque never holds more than `maxsize` items (the `if` instead of `while` is sound for one
    writer). -/
theorem Lane_bound (c : Cfg) (hc : c.single) (s : State) (hr : Reachable c s) (hm : 0 < c.maxsize) :
    s.q.length ≤ c.maxsize :=
  ((all_reachable c hc.1 hc.2 hr).good).bound hm

/-- The mutex: at most one thread is inside a `with` block, and it is the owner. -/
theorem Lane_mutex (c : Cfg) (hc : c.single) (s : State) (hr : Reachable c s) :
    ((s.th 0).pc.Holds ↔ s.owner = some 0) ∧ ((s.th 1).pc.Holds ↔ s.owner = some 1) ∧
      ¬((s.th 0).pc.Holds ∧ (s.th 1).pc.Holds) := by
  have g := (all_reachable c hc.1 hc.2 hr).good
  refine ⟨g.own0.symm, g.own1.symm, ?_⟩
  rintro ⟨h0, h1⟩
  have a := g.own0.mpr h0
  have b := g.own1.mpr h1
  rw [a] at b; simp at b

/-- No lost wake-up.  A writer parked in `_not_full.wait` that has not been notified: the deque is full, or the
    reader has just taken an item and is — still inside its `with` block — at the `notify()` that wakes it; and the
    reader is not parked.  Symmetrically for a parked reader. -/
theorem Lane_no_lost_wakeup (c : Cfg) (hc : c.single) (s : State) (hr : Reachable c s) :
    ((s.th 0).pc = .wait → (s.th 0).notified = false →
        ((0 < c.maxsize ∧ s.q.length = c.maxsize) ∨ (s.th 1).pc = .note) ∧
        ¬((s.th 1).pc = .wait ∧ (s.th 1).notified = false)) ∧
    ((s.th 1).pc = .wait → (s.th 1).notified = false →
        (s.q = [] ∨ (s.th 0).pc = .note) ∧ ¬((s.th 0).pc = .wait ∧ (s.th 0).notified = false)) := by
  have g := (all_reachable c hc.1 hc.2 hr).good
  have key : ¬(((s.th 0).pc = .wait ∧ (s.th 0).notified = false) ∧ ((s.th 1).pc = .wait ∧ (s.th 1).notified = false)) := by
    rintro ⟨⟨a, b⟩, ⟨a', b'⟩⟩
    rcases g.wWait a b with hf | hf
    · rcases g.rWait a' b' with he | he
      · rw [he] at hf; simp at hf; omega
      · rw [a] at he; simp at he
    · rw [a'] at hf; simp at hf
  refine ⟨fun a b => ⟨?_, fun h => key ⟨⟨a, b⟩, h⟩⟩, fun a b => ⟨g.rWait a b, fun h => key ⟨h, ⟨a, b⟩⟩⟩⟩
  rcases g.wWait a b with hf | hf
  · have := g.bound hf.1
    exact Or.inl ⟨hf.1, by omega⟩
  · exact Or.inr hf

/-- Progress: in every reachable state some step other than a new call or a timeout is enabled, unless the lane is
    quiescent: the mutex is free and each thread is idle or parked, un-notified, on a condition that is really
    false (writer: deque full; reader: deque empty), and at most one of them is parked.  So the two threads are never
    both blocked, a thread is never blocked while its condition holds, and with a live peer (one that goes on
    calling) a blocking call cannot wait for ever. -/
theorem Lane_progress (c : Cfg) (hc : c.single) (s : State) (hr : Reachable c s) :
    (∃ a, a.internal = true ∧ (step c s a).isSome = true) ∨ Quiescent c s :=
  progress c s (all_reachable c hc.1 hc.2 hr)

/-- Termination measure for the steps of a call: every step other than a new `call` strictly decreases `mu`
    (≤ 8 per thread), so between two calls of the environment at most 16 steps happen, and a call needs at most 8
    steps of its own thread. -/
theorem Lane_call_steps_bounded (c : Cfg) (hc : c.single) (s : State) (hr : Reachable c s)
    (as : List Act) (s' : State) (hn : ∀ a ∈ as, a.isCall = false) (hrun : Core.run (step c) s as = some s') :
    as.length + mu s' ≤ mu s ∧ mu s ≤ 16 :=
  ⟨run_no_call_le c hc.1 as s s' (all_reachable c hc.1 hc.2 hr) hn hrun, mu_le s⟩

/-- A parked writer is released by the peer's next `get`, whatever its mode: from a quiescent state with the writer
    parked, the reader's call runs `acquire, check, popleft, notify` without waiting and the writer's waiter lock is
    released. -/
theorem Lane_parked_writer_released (c : Cfg) (hc : c.single) (s : State) (hr : Reachable c s) (m : Mode)
    (hq : Quiescent c s) (hw : (s.th 0).pc = .wait) :
    ∃ s', Core.run (step c) s [.call 1 m 0, .acquire 1, .check 1, .act 1, .notify 1] = some s' ∧
      (s'.th 0).notified = true ∧ (s'.th 0).pc = .wait ∧ s'.q.length + 1 = s.q.length := by
  have hi := all_reachable c hc.1 hc.2 hr
  obtain ⟨w, r, hthr, g⟩ := hi
  have h0 : s.th 0 = w := by simp [State.th, hthr]
  have h1 : s.th 1 = r := by simp [State.th, hthr]
  obtain ⟨hown, hq0, hq1, hq2⟩ := hq
  rw [h0] at hw hq0 hq2
  rw [h1] at hq1 hq2
  have hri : r.pc = .idle := by rcases hq2 with h | h; · rw [hw] at h; simp at h
                                · exact h
  have hwn : w.notified = false ∧ isFull c s = true := by
    rcases hq0 with h | h
    · rw [hw] at h; simp at h
    · exact h.2
  have hfull := (isFull_iff c s).mp hwn.2
  have hw1 : c.isWriter 1 = false := by simp [Cfg.isWriter, hc.1]
  have hnf : s.nfW = [0] := by rw [g.nf]; simp [Thr.listed, hw, hwn.1]
  obtain ⟨x, rest, hqe⟩ : ∃ x rest, s.q = x :: rest := by
    cases hqq : s.q with
    | nil => rw [hqq] at hfull; simp at hfull; omega
    | cons x rest => exact ⟨x, rest, rfl⟩
  refine ⟨{ s with q := rest, gotH := s.gotH ++ [x], nfW := [], owner := some 1,
                     thr := [{ w with notified := true },
                             { pc := .leave .ok, mode := m, val := x, notified := false, fired := false }] },
    ?_, ?_, ?_, ?_⟩
  · simp [Core.run, step, hthr, hri, setThr, hown, mustWait, hw1, hqe, hnf, markNotified]
  · simp [State.th]
  · simp [State.th, hw]
  · simp [hqe]

/-- A parked reader is released by the peer's next `put`, whatever its mode and item. -/
theorem Lane_parked_reader_released (c : Cfg) (hc : c.single) (s : State) (hr : Reachable c s) (m : Mode) (x : Nat)
    (hq : Quiescent c s) (hw : (s.th 1).pc = .wait) :
    ∃ s', Core.run (step c) s [.call 0 m x, .acquire 0, .check 0, .act 0, .notify 0] = some s' ∧
      (s'.th 1).notified = true ∧ (s'.th 1).pc = .wait ∧ s'.q = [x] := by
  have hi := all_reachable c hc.1 hc.2 hr
  obtain ⟨w, r, hthr, g⟩ := hi
  have h0 : s.th 0 = w := by simp [State.th, hthr]
  have h1 : s.th 1 = r := by simp [State.th, hthr]
  obtain ⟨hown, hq0, hq1, hq2⟩ := hq
  rw [h1] at hw hq1 hq2
  rw [h0] at hq0 hq2
  have hwi : w.pc = .idle := by rcases hq2 with h | h; · exact h
                                · rw [hw] at h; simp at h
  have hrn : r.notified = false ∧ s.q = [] := by
    rcases hq1 with h | h
    · rw [hw] at h; simp at h
    · exact h.2
  have hw0 : c.isWriter 0 = true := by simp [Cfg.isWriter, hc.1]
  have hne : s.neW = [1] := by rw [g.ne]; simp [Thr.listed, hw, hrn.1]
  have hnf : ∀ (o : Option Nat) (th : List Thr) (a b p g : List Nat),
      isFull c { q := [], owner := o, thr := th, nfW := a, neW := b, putH := p, gotH := g } = false := by
    intro o th a b p g; rw [isFull_false_iff]; intro h; simpa using h
  refine ⟨{ s with q := [x], putH := s.putH ++ [x], neW := [], owner := some 0,
                     thr := [{ pc := .leave .ok, mode := m, val := x, notified := false, fired := false },
                             { r with notified := true }] },
    ?_, ?_, ?_, ?_⟩
  · simp [Core.run, step, hthr, hwi, setThr, hown, mustWait, hw0, hrn.2, hne, markNotified, hnf]
  · simp [State.th]
  · simp [State.th, hw]
  · simp

/-! ## Non-vacuity: concrete runs (kernel-evaluated) -/

/-- `put 7` by one complete call -/
def putCall (x : Nat) (m : Mode := .block) : List Act :=
  [.call 0 m x, .acquire 0, .check 0, .act 0, .notify 0, .unlock 0, .ret 0 .ok x]

/-- the bound is attained: `maxsize = 2`, two puts, the deque holds 2 items; a third, non-blocking, put is at
    `raise Full` with exactly `maxsize` items in the deque -/
example :
    let c : Cfg := { maxsize := 2 }
    ∃ s, Reachable c s ∧ c.single ∧ s.q.length = c.maxsize ∧ (s.th 0).pc = .leave .full ∧ (s.th 0).mode = .nowait := by
  refine ⟨_, ⟨putCall 7 ++ putCall 8 ++ [.call 0 .nowait 9, .acquire 0, .check 0], rfl⟩, ?_⟩
  decide

/-- a blocked writer is released: `maxsize = 1`; `put 7` returns, `put 8` parks on the full deque (quiescent: no
    internal step is enabled), the reader's `get` takes 7 and notifies, the writer wakes up, re-acquires the mutex
    and appends 8; both calls return -/
example :
    let c : Cfg := { maxsize := 1 }
    let park : List Act := putCall 7 ++ [.call 0 .block 8, .acquire 0, .check 0]
    (∃ s, Core.run (step c) (init c) park = some s ∧ (s.th 0).pc = .wait ∧ (s.th 0).notified = false ∧
        (internalActs s).all (fun a => (step c s a).isNone) = true) ∧
    (∃ s, Core.run (step c) (init c)
        (park ++ [.call 1 .block 0, .acquire 1, .check 1, .act 1, .notify 1, .wake 0, .unlock 1, .reacq 0, .act 0,
          .ret 1 .ok 7, .notify 0, .unlock 0, .ret 0 .ok 8]) = some s ∧
        s.q = [8] ∧ s.gotH = [7] ∧ (s.th 0).pc = .idle ∧ (s.th 1).pc = .idle) := by
  refine ⟨⟨_, rfl, ?_⟩, ⟨_, rfl, ?_⟩⟩ <;> decide

/-- a timed `get` on an empty lane expires: it parks, the timeout fires, it re-acquires the mutex, removes its
    waiter lock and raises `Empty` -/
example :
    let c : Cfg := { maxsize := 3 }
    ∃ s, Reachable c s ∧ (s.th 1).pc = .idle ∧ s.neW = [] ∧ s.owner = none := by
  refine ⟨_, ⟨[.call 1 .timed 0, .acquire 1, .check 1, .timeoutFire 1, .reacq 1, .unlock 1, .ret 1 .empty 0], rfl⟩, ?_⟩
  decide

/-- the subtlety of `threading.Condition`: a `notify()` issued after a timed wait expired but before the waiter
    removed its lock from the list is consumed by that waiter.  Here the timed `get` expires, the writer's `put 5`
    notifies the expired waiter, and the `get` raises `Empty` although the deque holds an item (allowed by
    `Lane_empty_only_when_empty`: its timeout has fired) -/
example :
    let c : Cfg := { maxsize := 3 }
    ∃ s, Reachable c s ∧ (s.th 1).pc = .leave .empty ∧ s.q = [5] ∧ (s.th 1).fired = true := by
  refine ⟨_, ⟨[.call 1 .timed 0, .acquire 1, .check 1, .timeoutFire 1,
               .call 0 .block 5, .acquire 0, .check 0, .act 0, .notify 0, .unlock 0, .reacq 1], rfl⟩, ?_⟩
  decide

/-- `maxsize = 0` is unbounded: five puts in a row without a reader -/
example :
    let c : Cfg := { maxsize := 0 }
    ∃ s, Reachable c s ∧ s.q = [1, 2, 3, 4, 5] := by
  refine ⟨_, ⟨putCall 1 ++ putCall 2 ++ putCall 3 ++ putCall 4 ++ putCall 5, rfl⟩, ?_⟩
  decide

/-! ## The outcome table of a call -/

/-- `put`: a blocking call never raises `Full`; a non-blocking call raises `Full` only while the deque holds exactly
    `maxsize > 0` items (it is still inside its `with` block, so nothing has changed since its check); a timed call
    raises `Full` only after its timeout fired. -/
theorem Lane_full_only_when_full (c : Cfg) (hc : c.single) (s : State) (hr : Reachable c s) :
    (((s.th 0).pc = .leave .full ∨ (s.th 0).pc = .fin .full) → (s.th 0).mode ≠ .block) ∧
    ((s.th 0).pc = .leave .full → (s.th 0).mode = .nowait → 0 < c.maxsize ∧ s.q.length = c.maxsize) ∧
    (((s.th 0).pc = .leave .full ∨ (s.th 0).pc = .fin .full) → (s.th 0).mode = .timed → (s.th 0).fired = true) := by
  have g := (all_reachable c hc.1 hc.2 hr).good
  refine ⟨?_, ?_, ?_⟩
  · intro h hb
    rcases g.wRes .full h with h' | ⟨_, h' | h'⟩
    · simp at h'
    · rw [hb] at h'; simp at h'
    · have := g.wFired h'; rw [hb] at this; simp at this
  · intro h hm
    have h3 := g.wFullNow h hm
    have h4 := g.bound h3.1
    exact ⟨h3.1, by omega⟩
  · intro h hm
    rcases g.wRes .full h with h' | ⟨_, h' | h'⟩
    · simp at h'
    · rw [hm] at h'; simp at h'
    · exact h'

/-- `get`: a blocking call never raises `Empty`; a non-blocking call raises `Empty` only while the deque is empty; a
    timed call raises `Empty` only after its timeout fired. -/
theorem Lane_empty_only_when_empty (c : Cfg) (hc : c.single) (s : State) (hr : Reachable c s) :
    (((s.th 1).pc = .leave .empty ∨ (s.th 1).pc = .fin .empty) → (s.th 1).mode ≠ .block) ∧
    ((s.th 1).pc = .leave .empty → (s.th 1).mode = .nowait → s.q = []) ∧
    (((s.th 1).pc = .leave .empty ∨ (s.th 1).pc = .fin .empty) → (s.th 1).mode = .timed → (s.th 1).fired = true) := by
  have g := (all_reachable c hc.1 hc.2 hr).good
  refine ⟨?_, g.rEmptyNow, ?_⟩
  · intro h hb
    rcases g.rRes .empty h with h' | ⟨_, h' | h'⟩
    · simp at h'
    · rw [hb] at h'; simp at h'
    · have := g.rFired h'; rw [hb] at this; simp at this
  · intro h hm
    rcases g.rRes .empty h with h' | ⟨_, h' | h'⟩
    · simp at h'
    · rw [hm] at h'; simp at h'
    · exact h'

/-- The decision at the `if` (line 52 / 64), as a function of the deque alone: a call goes on to `append` /
    `popleft` iff the atomic specification's action is enabled at that moment; otherwise it raises (non-blocking)
    or parks (blocking / timed). -/
theorem Lane_check_decides (c : Cfg) (hc : c.single) (s s' : State) :
    (step c s (.check 0) = some s' →
      ((s'.th 0).pc = .act ↔ Spec.canPut c.maxsize s.q = true) ∧
      ((s'.th 0).pc = .leave .full ↔ (Spec.canPut c.maxsize s.q = false ∧ (s.th 0).mode = .nowait)) ∧
      ((s'.th 0).pc = .wait ↔ (Spec.canPut c.maxsize s.q = false ∧ (s.th 0).mode ≠ .nowait))) ∧
    (step c s (.check 1) = some s' →
      ((s'.th 1).pc = .act ↔ s.q ≠ []) ∧
      ((s'.th 1).pc = .leave .empty ↔ (s.q = [] ∧ (s.th 1).mode = .nowait)) ∧
      ((s'.th 1).pc = .wait ↔ (s.q = [] ∧ (s.th 1).mode ≠ .nowait))) := by
  have hw0 : c.isWriter 0 = true := by simp [Cfg.isWriter, hc.1]
  have hw1 : c.isWriter 1 = false := by simp [Cfg.isWriter, hc.1]
  have hcp : Spec.canPut c.maxsize s.q = !isFull c s := by
    cases h : isFull c s
    · have := (isFull_false_iff c s).mp h
      simpa using (canPut_iff c.maxsize s.q).mpr this
    · have := (isFull_iff c s).mp h
      have h2 : ¬ (Spec.canPut c.maxsize s.q = true) := by rw [canPut_iff]; omega
      simpa using h2
  constructor
  · intro h
    have hS := step_sound c s s' _ h
    cases hS <;>
      (have hth : s.thr[0]? = some ‹Thr› := by assumption
       first | (have hm : mustWait c s 0 = false := by assumption) | (have hm : mustWait c s 0 = true := by assumption)
       have e := th_eq s 0 _ hth
       have hl : 0 < s.thr.length := by
         rcases hl : s.thr with _ | ⟨a, l⟩
         · rw [hl] at hth; simp at hth
         · simp
       simp only [mustWait, hw0, if_true] at hm
       simp_all [State.th, setThr, failRes])
  · intro h
    have hS := step_sound c s s' _ h
    cases hS <;>
      (have hth : s.thr[1]? = some ‹Thr› := by assumption
       first | (have hm : mustWait c s 1 = false := by assumption) | (have hm : mustWait c s 1 = true := by assumption)
       have e := th_eq s 1 _ hth
       have hl : 1 < s.thr.length := by
         rcases hl : s.thr with _ | ⟨a, _ | ⟨b, l⟩⟩
         · rw [hl] at hth; simp at hth
         · rw [hl] at hth; simp at hth
         · simp
       simp only [mustWait, hw1] at hm
       simp_all [State.th, setThr, failRes])

/-! ## Refinement: the lane implements the atomic bounded FIFO that the stream models use -/

/-- Abstraction = the deque.  Every step of the lane is a step of the atomic specification `Lane.Spec` (a `put x`
    at the `append`, a `get` at the `popleft`, enabled there) or leaves the abstract state unchanged. -/
theorem Lane_refines_step (c : Cfg) (hc : c.single) (s : State) (hr : Reachable c s) (a : Act) (s' : State)
    (h : step c s a = some s') :
    match lin c s a with
    | some b => Spec.step c.maxsize s.q b = some s'.q
    | none => s'.q = s.q :=
  refine_step c hc.1 s s' a (all_reachable c hc.1 hc.2 hr) (step_sound c s s' a h)

/-- Every run of the lane projects — `put` linearised at its `append`, `get` at its `popleft` — to a run of the
    atomic specification from the empty queue, ending in the lane's deque. -/
theorem Lane_refines_run (c : Cfg) (hc : c.single) (as : List Act) (s : State)
    (h : Core.run (step c) (init c) as = some s) :
    Core.run (Spec.step c.maxsize) [] (specTrace c (init c) as) = some s.q :=
  refine_run c hc.1 as (init c) s (inv_init c hc.1 hc.2) h

/-- blocked ⇔ the specification's action is not enabled.  (⇒) a thread parked and not notified, outside the window
    in which its peer is at the waking `notify()`: the atomic action is disabled.  (⇐) while the atomic action is
    disabled the thread is nowhere between its wake-up and its `append` / `popleft`. -/
theorem Lane_blocked_iff_spec_disabled (c : Cfg) (hc : c.single) (s : State) (hr : Reachable c s) :
    ((s.th 0).pc = .wait → (s.th 0).notified = false → (s.th 1).pc ≠ .note → Spec.canPut c.maxsize s.q = false) ∧
    (Spec.canPut c.maxsize s.q = false → ¬(s.th 0).released) ∧
    ((s.th 1).pc = .wait → (s.th 1).notified = false → (s.th 0).pc ≠ .note → Spec.step c.maxsize s.q .get = none) ∧
    (Spec.step c.maxsize s.q .get = none → ¬(s.th 1).released) := by
  have g := (all_reachable c hc.1 hc.2 hr).good
  refine ⟨?_, ?_, ?_, ?_⟩
  · intro a b hn
    rcases g.wWait a b with hf | hf
    · have h2 : ¬ (Spec.canPut c.maxsize s.q = true) := by rw [canPut_iff]; omega
      simpa using h2
    · exact absurd hf hn
  · intro hd hrel
    have := (canPut_iff c.maxsize s.q).mpr (g.wRoom hrel)
    rw [hd] at this; simp at this
  · intro a b hn
    rcases g.rWait a b with hf | hf
    · simp [Spec.step, hf]
    · exact absurd hf hn
  · intro hd hrel
    have := g.rHas hrel
    cases hq : s.q with
    | nil => exact this hq
    | cons x rest => simp [Spec.step, hq] at hd

/-! ### … and the stream models use exactly that specification -/

/-- `Model/Fifo.lean` (the queue is `SingleLane(capacity + 1)`): every step changes `queue` by an enabled action of
    the atomic specification with `maxsize = cap + 1`, or not at all. -/
theorem Fifo_queue_is_atomic_spec (c : Fifo.Cfg) (s s' : Fifo.State) (a : Fifo.Act) (h : Fifo.step c s a = some s') :
    s'.queue = s.queue ∨ (∃ x, Spec.step (c.cap + 1) s.queue (.put x) = some s'.queue) ∨
      Spec.step (c.cap + 1) s.queue .get = some s'.queue := by
  have hS := Fifo.step_sound c s s' a h
  cases hS <;> first
    | (left; rfl)
    | (right; left; exact ⟨_, spec_put _ _ _ (by assumption)⟩)
    | (right; right; exact spec_get _ _ _ _ (by assumption))

/-- the feeder's `put` of `Model/Fifo.lean` is enabled iff the feeder holds an element and the specification's
    `put` is enabled (`maxsize = cap + 1`) -/
theorem Fifo_put_enabled_iff (c : Fifo.Cfg) (s : Fifo.State) :
    (Fifo.step c s .put).isSome = true ↔ (∃ i, s.fpc = .hold i) ∧ Spec.canPut (c.cap + 1) s.queue = true := by
  simp only [Fifo.step, Spec.canPut]
  cases s.fpc <;> simp

/-- `Model/Buffer.lean` (the queue is `SingleLane(maxsize)`, `1 ≤ maxsize`): the same. -/
theorem Buffer_queue_is_atomic_spec (c : Buffer.Cfg) (s s' : Buffer.State) (a : Buffer.Act)
    (h : Buffer.step c s a = some s') :
    s'.queue = s.queue ∨ (∃ x, Spec.step c.maxsize s.queue (.put x) = some s'.queue) ∨
      Spec.step c.maxsize s.queue .get = some s'.queue := by
  have hS := Buffer.step_sound c s s' a h
  cases hS <;> first
    | (left; rfl)
    | (right; left; exact ⟨_, spec_put _ _ _ (by assumption)⟩)
    | (right; right; exact spec_get _ _ _ _ (by assumption))

end Lane
