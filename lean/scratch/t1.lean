import MpsVerif.Proofs.LaneStep
namespace Lane
example (c : Cfg) (h1 : c.nw = 1) (s s' : State) (t : Nat) 
    (hs : Step c s (.acquire t) s') : True := by
  cases hs
  case acquire th hth hp ho =>
    trace_state
    sorry
