"""real threads, real threading.Condition: a preemption of the notification thread between taking the lock and notify()
(here: widened by a sleep) lets the time-out of waiter W expire first; notify() is then spent on W, which reports
ServerBacklogFull; waiter B is never woken although the server is idle."""
import threading, time, sys
from mpservice.mpserver import Server, ThreadServlet, Worker, ServerBacklogFull

class W(Worker):
    def call(self, x):
        time.sleep(x)
        return x

def main():
    out = {}
    with Server(ThreadServlet(W, num_threads=1), capacity=1) as srv:
        cond = srv._pipeline_notfull
        orig = cond.notify
        def slow_notify(n=1):
            time.sleep(0.4)          # the notification thread is preempted here, holding the lock
            return orig(n)
        cond.notify = slow_notify
        t0 = time.perf_counter()
        def call(name, x, timeout):
            try:
                out[name] = ('ok', srv.call(x, timeout=timeout, backpressure=False), round(time.perf_counter() - t0, 2))
            except ServerBacklogFull as e:
                out[name] = ('ServerBacklogFull', round(time.perf_counter() - t0, 2))
            except Exception as e:
                out[name] = (type(e).__name__, round(time.perf_counter() - t0, 2))
        ts = [threading.Thread(target=call, args=('R0', 1.0, 60))]
        ts[0].start(); time.sleep(0.1)
        ts.append(threading.Thread(target=call, args=('W', 0.0, 1.1 / 0.99)))   # its wait for room expires at ~1.2
        ts[1].start(); time.sleep(0.1)
        ts.append(threading.Thread(target=call, args=('B', 0.0, 8.0)))          # waits for room for up to ~8 s
        ts[2].start()
        for t in ts: t.join()
    print(out)
    ok = out['B'][0] == 'ok'
    print('B served' if ok else 'B was rejected after waiting %.1f s although the server was idle from t=1.0' % out['B'][1])
    sys.exit(0 if ok else 1)
main()
