#!/bin/bash
# usage: confirm_seeded.sh <name> <patch> <demo.py> <test modules...>
# Confirms a seeded change in a scratch worktree of /repo: demo exits 0 without / non-zero with the change,
# the given test modules pass with the change (test_eager_batcher is baseline-failing). Prints a JSON line.
name=$1; patch=$2; demo=$3; shift 3
wt=/tmp/confirm/$name
rm -rf $wt; mkdir -p /tmp/confirm
git -C /repo worktree add -q --detach $wt HEAD || exit 2
cd $wt
PYTHONPATH=$wt/src timeout 120 /venv/bin/python $demo > /tmp/confirm/$name.demo0.out 2>&1 < /dev/null; d0=$?
git apply $patch || { echo "{\"name\":\"$name\",\"error\":\"patch does not apply\"}"; git -C /repo worktree remove --force $wt; exit 1; }
PYTHONPATH=$wt/src timeout 120 /venv/bin/python $demo > /tmp/confirm/$name.demo1.out 2>&1 < /dev/null; d1=$?
PYTHONPATH=$wt/src timeout 2400 /venv/bin/python -m pytest -q -p no:cacheprovider --timeout=900 "$@" > /tmp/confirm/$name.tests.out 2>&1 < /dev/null
summary=$(grep -E '(passed|failed|error).* in [0-9.]+s' /tmp/confirm/$name.tests.out | tail -1 | tr -d '=')
failed=$(grep "^FAILED" /tmp/confirm/$name.tests.out | grep -v test_eager_batcher | tr '\n' ';')
cd /; git -C /repo worktree remove --force $wt
echo "{\"name\":\"$name\",\"demo_without\":$d0,\"demo_with\":$d1,\"tests\":\"$summary\",\"failed_other_than_baseline\":\"$failed\"}"
