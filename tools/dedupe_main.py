p='/verif/lean/Main.lean'
lines=open(p).read().split('\n')
seen=set(); out=[]
for l in lines:
    k=l.strip()
    if k.startswith('| _ =>'): continue
    if k and (k.startswith('import ') or k.startswith('| ["')) and k in seen: continue
    seen.add(k); out.append(l)
while out and out[-1].strip()=='': out.pop()
out.append('  | _ => IO.eprintln s!"usage: drv <model>   (see lean/Main.lean for the list of models)"; return 2')
open(p,'w').write('\n'.join(out)+'\n')
p='/verif/lean/MpsVerif.lean'
lines=open(p).read().split('\n')
seen=set(); out=[]
for l in lines:
    k=l.strip()
    if k and k.startswith('import ') and k in seen: continue
    seen.add(k); out.append(l)
open(p,'w').write('\n'.join(out))
