#!/usr/bin/env python3
"""Writes MANIFEST.json from the table below (kept valid at all times; run after editing)."""
import json
from pathlib import Path

VERIF = Path(__file__).resolve().parents[1]
PROPS = [json.loads(l)['id'] for l in (VERIF / 'properties.jsonl').read_text().splitlines() if l.strip()]

E1 = ('Lean 4 kernel + axioms {propext, Classical.choice, Quot.sound}; hand-written model tied to /repo by trace '
      'validation under the deterministic scheduler on the schedules explored per run (sampled, not exhaustive); '
      'stdlib primitives (queues, executors, futures, condition variables) modelled, not verified; ')

CHECKS = {
    'C01': dict(
        technique='Lean 4 proof (inductive invariants over an LTS model of fifo_stream) + schedule-controlled trace refinement against the real code',
        text='Theorems C01_in_order / C01_own_result / C01_exactly_once / C01_complete hold for every action list of the '
             'fifo_stream model (all completion orders, interleavings, cap, conc, flags). The model is tied to the '
             'current /repo on every run: the real fifo_stream and Stream.parmap(executor=thread) run under a '
             'deterministic scheduler, their observable event traces are validated against the model by the Lean '
             'driver (validator soundness proved), and a monitor evaluates the property on each run.',
        note=E1 + "executor='process' only through the theorem (same fifo_stream code path) — OS schedule not controlled.",
        ref='§5 C01', engine='E1-detsched+lean'),
    'C05': dict(
        technique='Lean 4 proof (progress + decreasing measure + invariants on LTS models of fifo_stream and Buffer) + schedule-controlled trace refinement',
        text='C05_fifo_terminates (every execution has at most 9n+9 steps) and C05_fifo_progress (some action enabled in '
             'every non-final reachable state, cap>=1, conc>=1) give: no hang for any stop/failure position and '
             'schedule; C05_fifo_first_failure / _source_failure / _raise_once / _clean give the ending. Tie and '
             'monitors (deadlock = exact state under the scheduler, leaked threads, ending) as for C01.',
        note=E1 + 'garbage-collection-triggered close is exercised as del + gc.collect(); process executors not scheduled.',
        ref='§5 C05', engine='E1-detsched+lean'),
    'C08': dict(
        technique='Lean 4 proof (counting invariant of the fifo_stream / Buffer LTS models) + schedule-controlled trace refinement',
        text='C08_fifo_lookahead: pulled - handed <= cap+3 in every reachable state, for every schedule, cap, conc, n; '
             'C08_parmap_lookahead (cap = 2*conc); C08_concurrency. The bound is attained (non-vacuity example). '
             'Tie and monitors (look-ahead at every pull, concurrent calls) as for C01.',
        note=E1 + 'the pool\'s own concurrency limit is an assumption about the stdlib executor (start guard of the model).',
        ref='§5 C08', engine='E1-detsched+lean'),
    'C13': dict(
        technique='Lean 4 proof (inductive counting invariant + decreasing measure over an LTS model of the manager server\'s reference counting) + differential replay of real multi-process histories through the model',
        text='C13_count_exact (server count = live client proxies + pickles in transit + proxies nested in hosted containers + '
             'server temporaries), C13_alive / C13_usable (any reference anywhere => hosted, shared memory linked, operations '
             'enabled), C13_released / C13_released_by_server_alone (no reference => entry and shared memory gone, reached by '
             'at most refs.length server-internal steps without client action), C13_exit_returns_all / C13_exit_progress hold '
             'for every action list of the model (any number of clients, any interleaving, any identifier reuse). Tie: random '
             'histories over 2-8 real processes against a real ServerProcess; after each step debug_info ids/refcounts, '
             '/dev/shm files and a call through every live proxy are compared with the references that exist (monitor) and '
             'with Core.run Refcount.step + quiesce (drv refcount).',
        note='Lean 4 kernel + axioms {propext, Classical.choice, Quot.sound}; model follows the code repaired by fixes/F16 and '
             'fixes/F21 (the check reports both defects on the pinned tree); OS schedule across processes sampled, not '
             'controlled; util.Finalize / CPython reference counting / stdlib Server.decref modelled, not verified; killed '
             'processes and fork/forkserver inheritance outside the model.',
        ref='§5 C13', engine='E4-manager-processes+lean'),
    'C14': dict(
        technique='Lean 4 proof (refinement of the direct semantics by the proxy machinery, generic in the hosted classes) + differential runs of real multi-process/multi-thread histories against local objects and the Lean heap machine',
        text='C14_refines_direct (for every semantics of the hosted classes and every history of requests from any clients: '
             'outcomes = direct outcomes in issue order, same heap, connections stay open), C14_linearizable (every '
             'interleaving of concurrent clients = a sequential run in method-execution order, replies to their own callers in order), C14_error_transparent, '
             'C14_managed_alias, C14_unhosted_remoteError. Tie: random histories of list/dict/Namespace/Value/custom-class '
             'operations with arbitrary picklable arguments, raising operations, managed() views, proxies used inside the '
             'server and concurrent batches, issued through proxies in 2-3 processes and extra threads against a real '
             'ServerProcess; every outcome and the final objects are compared with the same calls on local objects (monitor) '
             'and with proxyStep pySem (drv proxycall).',
        note='Lean 4 kernel + axioms {propext, Classical.choice, Quot.sound}; the refinement theorem is thin by design (the '
             'mechanism is thin): the weight is on the differential tie; model follows the code repaired by fixes/F22 and '
             'fixes/F23 (both reported on the pinned tree); hosted methods assumed atomic; OS schedule sampled; exception '
             'messages compared against the local call only.',
        ref='§5 C14', engine='E4-manager-processes+lean'),
}

NOT_YET = 'check not built yet in this round (model and tie planned in DESIGN.md §5); not claimed'


def main():
    checks = []
    for pid in PROPS:
        if pid not in CHECKS:
            continue
        c = CHECKS[pid]
        checks.append(dict(
            property_id=pid,
            quick_cmd=f'./check {pid} --tier quick',
            thorough_cmd=f'./check {pid} --tier thorough',
            evidence_file=f'evidence/{pid}.json',
            replay_cmd_template=f'./check {pid} --replay {{path}}',
            engine=c['engine'],
            level_claimed=dict(category='proof', text=c['text'], design_ref=c['ref']),
            level_note=c['note'],
            technique=c['technique'],
        ))
    m = dict(
        version=1,
        setup_cmd='cd lean && lake build',
        hooks=dict(guard='MPSERVICE_VERIF', enable='no hooks in /repo: all observation is done from the harness side '
                   '(wrappers, module-namespace shadows, replaced threading/queue/time names); checks export MPSERVICE_VERIF=1 anyway',
                   baseline_off_cmd='cd /repo && /venv/bin/python -m pytest -ra -q -p no:cacheprovider --timeout=900 --continue-on-collection-errors',
                   source_commits=[], add_only=True),
        engines=[
            dict(name='lean', path='lean/', serves_properties=sorted(CHECKS), kind_free_text='Lean 4 models, theorems, compiled trace-validation driver (drv)'),
            dict(name='E1-detsched', path='harness/detsched.py', serves_properties=[p for p in sorted(CHECKS)],
                 kind_free_text='deterministic cooperative scheduler for real Python threads + virtual clock'),
            dict(name='E4-manager-processes', path='harness/e4_mgr.py', serves_properties=['C13', 'C14'], kind_free_text='real ServerProcess + client processes driven through command pipes, one fresh interpreter/session per case'),
        ],
        checks=checks,
        notes='See DESIGN.md. KNOWN_FINDINGS.txt lists known: and fixed: entries.',
        not_applicable=[dict(property_id=p, reason=NOT_YET) for p in PROPS if p not in CHECKS],
    )
    (VERIF / 'MANIFEST.json').write_text(json.dumps(m, indent=1) + '\n')
    print('checks:', [c['property_id'] for c in checks], 'not claimed:', len(m['not_applicable']))


if __name__ == '__main__':
    main()
